(* P19 - part 9: the invariant under the scan bookkeeping: finishScanRequest, deferring a scan request, processRuleScanRequest. *)
From LLB Require Import Engine.Rules Engine.Spec Engine.Impl Engine.ImplProofs Engine.ImplProofsSticky Engine.ImplProofsInv Engine.ImplProofsInv2
  Engine.ImplProofsInv3 Engine.ImplProofsInv4.
From Coq Require Import Arith Lia.
Local Open Scope N_scope.

Lemma cnt_s_zero_notin k l : cnt_s k l = 0%nat -> forall x, In x l -> sq_rule x <> k.
Proof.
  induction l as [|y l IH]; [intros _ x []|]. rewrite cnt_s_cons. unfold for_rule. intros H x [Hx|Hx].
  - subst. intros E. rewrite E, N.eqb_refl in H. lia.
  - apply IH; auto. lia.
Qed.

Lemma scanning_loaded s k : kind_of s k = KScanning -> exists ri, aget (is_rules s) k = Some ri /\ rinfo_of s k = ri.
Proof.
  unfold kind_of, rinfo_of. destruct (aget (is_rules s) k) as [ri|]; [eauto|]. cbn. discriminate.
Qed.

(* when no scan request of rule k is counted, none occurs in any of the places *)
Lemma no_sreq_of s k l : (cnt_s k l + scan_count s k = 0)%nat -> NoDup (map fst (is_rules s)) -> NoDup (map fst (is_tasks s)) ->
  (forall x, In x l -> sq_rule x <> k) /\ (forall x, In x (is_toscan s) -> sq_rule x <> k) /\
  (forall k' x, In x (ri_deferred (rinfo_of s k')) -> sq_rule x <> k) /\
  (forall t ti x, aget (is_tasks s) t = Some ti -> In x (ti_deferred ti) -> sq_rule x <> k).
Proof.
  unfold scan_count. intros H Hnr Hnt. repeat split.
  - apply cnt_s_zero_notin. lia.
  - apply cnt_s_zero_notin. lia.
  - intros k' x Hin. destruct (aget (is_rules s) k') as [ri|] eqn:E.
    + rewrite (rinfo_of_some s k' ri E) in Hin. apply aget_in in E.
      pose proof (asum_in_le (fun ri => cnt_s k (ri_deferred ri)) (is_rules s) k' ri E) as Hle. cbn beta in Hle.
      apply (cnt_s_zero_notin k (ri_deferred ri)); auto. lia.
    + destruct (rinfo_of_none s k' E) as [r Hr]. rewrite Hr in Hin. destruct Hin.
  - intros t ti x Hg Hin. apply aget_in in Hg.
    pose proof (asum_in_le (fun ti => cnt_s k (ti_deferred ti)) (is_tasks s) t ti Hg) as Hle. cbn beta in Hle.
    apply (cnt_s_zero_notin k (ti_deferred ti)); auto. lia.
Qed.

(* ---------- finishScanRequest ---------- *)
Lemma finish_scan_eq s k kd : kind_of s k = KScanning ->
  finish_scan s k kd = mod_ri (wake_scan_record s (rinfo_of s k)) k (ri_end_scan kd).
Proof. intros Hk. unfold finish_scan. cbn zeta. rewrite Hk. reflexivity. Qed.

Lemma finish_scan_rinfo s k kd k' : kind_of s k = KScanning ->
  rinfo_of (finish_scan s k kd) k' = if N.eqb k' k then ri_end_scan kd (rinfo_of s k) else rinfo_of s k'.
Proof. intros Hk. rewrite (finish_scan_eq s k kd Hk). unfold wake_scan_record. now autorewrite with iv. Qed.
Lemma finish_scan_kind s k kd k' : kind_of s k = KScanning -> kind_of (finish_scan s k kd) k' = if N.eqb k' k then kd else kind_of s k'.
Proof. intros Hk. unfold kind_of. rewrite finish_scan_rinfo; auto. now destruct (N.eqb k' k). Qed.
Lemma finish_scan_toscan s k kd : kind_of s k = KScanning -> is_toscan (finish_scan s k kd) = rev (ri_deferred (rinfo_of s k)) ++ is_toscan s.
Proof. intros Hk. rewrite (finish_scan_eq s k kd Hk). unfold wake_scan_record. now autorewrite with iv. Qed.
Lemma finish_scan_inreq s k kd : kind_of s k = KScanning -> is_inreq (finish_scan s k kd) = is_inreq s ++ ri_paused (rinfo_of s k).
Proof. intros Hk. rewrite (finish_scan_eq s k kd Hk). unfold wake_scan_record. now autorewrite with iv. Qed.
Lemma finish_scan_tasks s k kd : kind_of s k = KScanning -> is_tasks (finish_scan s k kd) = is_tasks s.
Proof. intros Hk. rewrite (finish_scan_eq s k kd Hk). unfold wake_scan_record. now autorewrite with iv. Qed.
Lemma finish_scan_asum (g : rinfo -> nat) s k kd : kind_of s k = KScanning -> (forall r, g (new_rinfo r) = 0%nat) ->
  (asum g (is_rules (finish_scan s k kd)) + g (rinfo_of s k) = asum g (is_rules s) + g (ri_end_scan kd (rinfo_of s k)))%nat.
Proof.
  intros Hk Hz. rewrite (finish_scan_eq s k kd Hk). unfold wake_scan_record.
  pose proof (asum_rules_mod_ri g (upd_inreq (upd_toscan s (rev (ri_deferred (rinfo_of s k)) ++ is_toscan s)) (is_inreq s ++ ri_paused (rinfo_of s k))) k (ri_end_scan kd) Hz) as H.
  autorewrite with iv in H. exact H.
Qed.

Lemma InvT_finish_scan c s k kd : kind_of s k = KScanning -> idle_kind kd -> InvT c s -> InvT c (finish_scan s k kd).
Proof.
  intros Hk (J1 & J2 & J3) HT. apply (InvT_frame_k c s); auto.
  - rewrite (finish_scan_eq s k kd Hk). apply nodup_rules_set_ri. unfold wake_scan_record. autorewrite with iv. apply HT.
  - intros k'. rewrite finish_scan_kind; auto. destruct (N.eqb k' k) eqn:E; [|tauto]. apply N.eqb_eq in E. subst. rewrite Hk. split; intros H; [contradiction|discriminate].
  - intros k'. rewrite finish_scan_kind; auto. destruct (N.eqb k' k) eqn:E; [|tauto]. apply N.eqb_eq in E. subst. rewrite Hk. split; intros H; [contradiction|discriminate].
  - now apply finish_scan_tasks.
  - rewrite (finish_scan_eq s k kd Hk). unfold wake_scan_record. now autorewrite with iv.
  - rewrite (finish_scan_eq s k kd Hk). unfold wake_scan_record. now autorewrite with iv.
  - rewrite (finish_scan_eq s k kd Hk). unfold wake_scan_record. now autorewrite with iv.
Qed.

Lemma InvI_finish_scan rules c s k kd : kind_of s k = KScanning -> kd <> KScanning -> InvI rules c s -> InvI rules c (finish_scan s k kd).
Proof.
  intros Hk Hkd [B1 B2 B3 B4 B5 B6 B7 B8 B9 B10].
  assert (Hok : forall rq, ireq_ok rules s rq -> ireq_ok rules (finish_scan s k kd) rq).
  { intros rq. apply ireq_ok_frame. now apply finish_scan_tasks. }
  assert (Hp : forall k', ri_paused (rinfo_of (finish_scan s k kd) k') = if N.eqb k' k then [] else ri_paused (rinfo_of s k')).
  { intros k'. rewrite finish_scan_rinfo; auto. now destruct (N.eqb k' k). }
  constructor; rewrite ?finish_scan_tasks; auto.
  - intros t ti Hg. rewrite (B1 t ti Hg). unfold outstanding_count.
    pose proof (finish_scan_asum (fun ri => cnt_i t (ri_paused ri)) s k kd Hk (fun _ => eq_refl)) as Ha. cbn [ri_end_scan ri_paused] in Ha.
    rewrite cnt_i_nil in Ha. rewrite finish_scan_inreq, finish_scan_tasks, cnt_i_app; auto.
    replace (is_fininreq (finish_scan s k kd)) with (is_fininreq s); [lia|].
    rewrite (finish_scan_eq s k kd Hk). unfold wake_scan_record. now autorewrite with iv.
  - eapply Forall_impl; [apply Hok|auto].
  - rewrite finish_scan_inreq; auto. apply Forall_app. split; eapply Forall_impl; try apply Hok; auto.
  - intros k'. rewrite Hp. destruct (N.eqb k' k); [constructor|eapply Forall_impl; [apply Hok|auto]].
  - intros t ti Hg. eapply Forall_impl; [apply Hok|eauto].
  - replace (is_fininreq (finish_scan s k kd)) with (is_fininreq s); [eapply Forall_impl; [apply Hok|auto]|].
    rewrite (finish_scan_eq s k kd Hk). unfold wake_scan_record. now autorewrite with iv.
  - intros k'. rewrite Hp, finish_scan_kind; auto. destruct (N.eqb k' k); auto.
  - intros k' rq. rewrite Hp. destruct (N.eqb k' k); [intros []|apply B8].
  - replace (is_fininreq (finish_scan s k kd)) with (is_fininreq s); auto.
    rewrite (finish_scan_eq s k kd Hk). unfold wake_scan_record. now autorewrite with iv.
Qed.

Lemma InvS_finish_scan c s k kd rq fs' : NoDup (map fst (is_rules s)) -> NoDup (map fst (is_tasks s)) ->
  cx_fs c = rq :: fs' -> sq_rule rq = k -> kd <> KScanning -> InvS c s -> InvS (cx_set_fs c fs') (finish_scan s k kd).
Proof.
  intros Hnr Hnt Hfs Hrq Hkd [C1 C2 C3 C4 C5 C6 C7 C8]. rewrite Hfs in *.
  assert (Hk : kind_of s k = KScanning) by (inversion C2 as [|x l Hx Hl]; destruct Hx as (Hx1 & _); now rewrite Hrq in Hx1).
  (* no other request of k exists *)
  pose proof (C1 k) as Ck. rewrite Hk, cnt_s_cons in Ck. unfold for_rule in Ck. rewrite Hrq, N.eqb_refl in Ck. cbn [kind_eqb] in Ck.
  assert (Hzero : (cnt_s k fs' + scan_count s k = 0)%nat) by lia.
  destruct (no_sreq_of s k fs' Hzero Hnr Hnt) as (Z1 & Z2 & Z3 & Z4).
  assert (Hd : forall k', ri_deferred (rinfo_of (finish_scan s k kd) k') = if N.eqb k' k then [] else ri_deferred (rinfo_of s k')).
  { intros k'. rewrite finish_scan_rinfo; auto. now destruct (N.eqb k' k). }
  assert (Hok : forall x, sq_rule x <> k -> sreq_ok s x -> sreq_ok (finish_scan s k kd) x).
  { intros x Hne (H1 & H2 & H3). apply N.eqb_neq in Hne. unfold sreq_ok, res_of. rewrite finish_scan_kind, finish_scan_rinfo, Hne; auto. }
  assert (Hsc : forall k', scan_count (finish_scan s k kd) k' = scan_count s k').
  { intros k'. unfold scan_count. rewrite finish_scan_toscan, finish_scan_tasks, cnt_s_app, cnt_s_rev; auto.
    pose proof (finish_scan_asum (fun ri => cnt_s k' (ri_deferred ri)) s k kd Hk (fun _ => eq_refl)) as Ha. cbn [ri_end_scan ri_deferred] in Ha.
    rewrite cnt_s_nil in Ha. lia. }
  assert (HF : forall l, Forall (sreq_ok s) l -> (forall x, In x l -> sq_rule x <> k) -> Forall (sreq_ok (finish_scan s k kd)) l).
  { intros l Hl Hne. rewrite Forall_forall in *. intros x Hx. apply Hok; auto. }
  constructor; cbn [cx_fs cx_set_fs].
  - intros k'. rewrite Hsc, finish_scan_kind; auto. specialize (C1 k'). rewrite cnt_s_cons in C1. unfold for_rule in C1. rewrite Hrq in C1.
    destruct (N.eqb k' k) eqn:E.
    + apply N.eqb_eq in E. subst k'. apply kind_eqb_neq in Hkd. rewrite Hkd. lia.
    + lia.
  - inversion C2. apply HF; auto.
  - rewrite finish_scan_toscan; auto. apply Forall_app. split.
    + apply HF; [apply Forall_rev, C4|]. intros x Hx. apply in_rev in Hx. eapply Z3; eauto.
    + apply HF; auto.
  - intros k'. rewrite Hd. destruct (N.eqb k' k); [constructor|]. apply HF; auto. intros x Hx. eapply Z3; eauto.
  - intros t ti. rewrite finish_scan_tasks; auto. intros Hg. apply HF; eauto.
  - intros k'. rewrite Hd, finish_scan_kind; auto. destruct (N.eqb k' k); auto.
  - intros k' x. rewrite Hd. destruct (N.eqb k' k); [intros []|apply C7].
  - intros t ti x. rewrite finish_scan_tasks; auto. apply C8.
Qed.

Lemma Inv_finish_scan rules c s k kd rq fs' : cx_fs c = rq :: fs' -> sq_rule rq = k -> idle_kind kd ->
  Inv rules c s -> Inv rules (cx_set_fs c fs') (finish_scan s k kd).
Proof.
  intros Hfs Hrq Hkd (Hn & HT & HI & HS).
  assert (Hk : kind_of s k = KScanning).
  { pose proof (s_ok_fs c s HS) as H. rewrite Hfs in H. inversion H as [|x l Hx Hl]. destruct Hx as (Hx & _). now rewrite Hrq in Hx. }
  split; [|split; [|split]].
  - rewrite (finish_scan_eq s k kd Hk). apply nf_mod_ri. unfold wake_scan_record, nf. now autorewrite with iv.
  - apply (InvT_ctx c); auto. now apply InvT_finish_scan.
  - apply (InvI_ctx rules c); auto. apply InvI_finish_scan; auto. apply Hkd.
  - eapply InvS_finish_scan; eauto; try apply HT. apply Hkd.
Qed.

(* ---------- a scan request is deferred on the rule / task of its input ---------- *)
Lemma sreq_ok_same s s' rq : (forall k, rinfo_of s' k = ri_with_deferred (ri_deferred (rinfo_of s' k)) (rinfo_of s k)) -> sreq_ok s rq -> sreq_ok s' rq.
Proof.
  intros H (H1 & H2 & H3). unfold sreq_ok, kind_of, res_of in *. rewrite (H (sq_rule rq)). cbn [ri_with_deferred ri_kind ri_res]. auto.
Qed.

Lemma InvS_defer_on_rule c s inp rq fs' : cx_fs c = rq :: fs' -> kind_of s inp = KScanning -> sq_input rq = Some inp ->
  InvS c s -> InvS (cx_set_fs c fs') (mod_ri s inp (ri_add_deferred rq)).
Proof.
  intros Hfs Hk Hin [C1 C2 C3 C4 C5 C6 C7 C8]. rewrite Hfs in *.
  set (s' := mod_ri s inp (ri_add_deferred rq)).
  assert (Hok : forall x, sreq_ok s x -> sreq_ok s' x).
  { intros x. apply sreq_ok_same. intros k. unfold s'. autorewrite with iv. destruct (N.eqb k inp) eqn:E.
    - apply N.eqb_eq in E. subst. reflexivity.
    - now destruct (rinfo_of s k). }
  assert (Hd : forall k, ri_deferred (rinfo_of s' k) = if N.eqb k inp then ri_deferred (rinfo_of s inp) ++ [rq] else ri_deferred (rinfo_of s k)).
  { intros k. unfold s'. autorewrite with iv. now destruct (N.eqb k inp). }
  assert (HK : forall k, kind_of s' k = kind_of s k).
  { intros k. unfold s'. rewrite kind_of_mod_ri. destruct (N.eqb k inp) eqn:E; auto. apply N.eqb_eq in E. now subst. }
  inversion C2 as [|x l Hrqok Hfs'ok]. subst x l.
  constructor; cbn [cx_fs cx_set_fs].
  - intros k. rewrite HK. specialize (C1 k). rewrite cnt_s_cons in C1. unfold scan_count in *.
    pose proof (asum_rules_mod_ri (fun ri => cnt_s k (ri_deferred ri)) s inp (ri_add_deferred rq) (fun _ => eq_refl)) as Ha.
    cbn [ri_add_deferred ri_with_deferred ri_deferred] in Ha. rewrite cnt_s_app, cnt_s_cons, cnt_s_nil in Ha.
    unfold s'. autorewrite with iv. fold (mod_ri s inp (ri_add_deferred rq)). lia.
  - eapply Forall_impl; [apply Hok|auto].
  - eapply Forall_impl; [apply Hok|auto].
  - intros k. rewrite Hd. destruct (N.eqb k inp) eqn:E.
    + apply Forall_app. split; [eapply Forall_impl; [apply Hok|apply C4]|]. constructor; auto.
    + eapply Forall_impl; [apply Hok|apply C4].
  - intros t ti Hg. eapply Forall_impl; [apply Hok|]. apply (C5 t ti). exact Hg.
  - intros k. rewrite HK, Hd. destruct (N.eqb k inp) eqn:E; [|apply C6]. apply N.eqb_eq in E. subst. intros H. contradiction.
  - intros k x. rewrite Hd. destruct (N.eqb k inp) eqn:E; [|apply C7]. apply N.eqb_eq in E. subst. intros Hx.
    apply in_app_or in Hx. destruct Hx as [Hx|[Hx|[]]]; [now apply C7|now subst].
  - intros t ti x Hg. apply (C8 t ti x). exact Hg.
Qed.

Lemma Inv_defer_on_rule rules c s inp rq fs' : cx_fs c = rq :: fs' -> kind_of s inp = KScanning -> sq_input rq = Some inp ->
  Inv rules c s -> Inv rules (cx_set_fs c fs') (defer_on_rule s inp rq).
Proof.
  intros Hfs Hk Hin (Hn & HT & HI & HS). unfold defer_on_rule. rewrite Hk. cbn [kind_eqb check].
  assert (HK : forall k, kind_of (mod_ri s inp (ri_add_deferred rq)) k = kind_of s k).
  { intros k. rewrite kind_of_mod_ri. destruct (N.eqb k inp) eqn:E; auto. apply N.eqb_eq in E. now subst. }
  split; [now apply nf_mod_ri|]. split; [|split].
  - apply (InvT_ctx c); auto. apply (InvT_frame c s); auto. apply nodup_rules_set_ri, HT.
  - apply (InvI_ctx rules c); auto. apply (InvI_frame rules c s); auto.
    + intros k. autorewrite with iv. destruct (N.eqb k inp) eqn:E; auto. apply N.eqb_eq in E. now subst.
    + intros t. now apply asum_rules_mod_ri_same.
  - now apply InvS_defer_on_rule.
Qed.

Lemma InvS_defer_on_task c s inp ti rq fs' : cx_fs c = rq :: fs' -> aget (is_tasks s) inp = Some ti -> sq_input rq = Some inp ->
  InvS c s -> InvS (cx_set_fs c fs') (set_ti s inp (ti_add_deferred rq ti)).
Proof.
  intros Hfs Hg Hin [C1 C2 C3 C4 C5 C6 C7 C8]. rewrite Hfs in *.
  inversion C2 as [|x l Hrqok Hfs'ok]. subst x l.
  constructor; cbn [cx_fs cx_set_fs]; autorewrite with iv; auto.
  - intros k. specialize (C1 k). rewrite cnt_s_cons in C1.
    pose proof (scan_count_set_ti s inp ti (ti_add_deferred rq ti) k Hg) as Ho.
    cbn [ti_add_deferred ti_with_deferred ti_deferred] in Ho. rewrite cnt_s_app, cnt_s_cons, cnt_s_nil in Ho.
    change (kind_of (set_ti s inp (ti_add_deferred rq ti)) k) with (kind_of s k). lia.
  - intros t x. rewrite aget_aset. destruct (N.eqb t inp) eqn:E; intros Hx.
    + inversion Hx. subst. cbn [ti_add_deferred ti_with_deferred ti_deferred]. apply Forall_app. split; [eapply C5; eauto|constructor; auto].
    + eapply C5; eauto.
  - intros t x y. rewrite aget_aset. destruct (N.eqb t inp) eqn:E; intros Hx.
    + apply N.eqb_eq in E. inversion Hx. subst. cbn [ti_add_deferred ti_with_deferred ti_deferred]. intros Hy.
      apply in_app_or in Hy. destruct Hy as [Hy|[Hy|[]]]; [eapply C8; eauto|now subst].
    + eapply C8; eauto.
Qed.

Lemma Inv_defer_on_task rules c s inp rq fs' : cx_fs c = rq :: fs' -> aget (is_tasks s) inp <> None -> sq_input rq = Some inp ->
  Inv rules c s -> Inv rules (cx_set_fs c fs') (defer_on_task s inp rq).
Proof.
  intros Hfs Hex Hin (Hn & HT & HI & HS). destruct (aget (is_tasks s) inp) as [ti|] eqn:Hg; [|contradiction].
  unfold defer_on_task. rewrite (mod_ti_some _ _ _ _ Hg).
  split; [now apply nf_set_ti|]. split; [|split].
  - apply (InvT_ctx c); auto. eapply InvT_set_ti; eauto.
  - apply (InvI_ctx rules c); auto. eapply InvI_set_ti; eauto.
  - eapply InvS_defer_on_task; eauto.
Qed.

(* ---------- processRuleScanRequest ---------- *)
Lemma skipn_head_nth {A} (l : list A) n d ds : skipn n l = d :: ds -> nth_error l n = Some d /\ (n < length l)%nat /\ skipn (S n) l = ds.
Proof.
  revert l. induction n as [|n IH]; intros l H.
  - destruct l; [discriminate|]. cbn in H. inversion H. subst. cbn. repeat split; auto. lia.
  - destruct l as [|x l]; [discriminate|]. cbn [skipn] in H. destruct (IH l H) as (H1 & H2 & H3). cbn [nth_error length]. repeat split; auto. lia.
Qed.

Lemma fill_request_rule rq d : sq_rule (fill_request rq d) = sq_rule rq.
Proof. unfold fill_request. now destruct (sq_input rq). Qed.
Lemma fill_request_index rq d : sq_index (fill_request rq d) = sq_index rq.
Proof. unfold fill_request. now destruct (sq_input rq). Qed.
Lemma fill_request_input rq d : sq_input (fill_request rq d) = Some (request_input rq d).
Proof. unfold fill_request, request_input. destruct (sq_input rq) eqn:E; auto. Qed.

(* the request in flight is replaced by another request of the same rule *)
Lemma InvS_replace_fs c s rq rq1 fs' : cx_fs c = rq :: fs' -> sq_rule rq1 = sq_rule rq -> sreq_ok s rq1 -> InvS c s -> InvS (cx_set_fs c (rq1 :: fs')) s.
Proof.
  intros Hfs Hr Hok [C1 C2 C3 C4 C5 C6 C7 C8]. rewrite Hfs in *. inversion C2 as [|x l Hx Hl]. subst x l.
  constructor; cbn [cx_fs cx_set_fs]; auto.
  intros k. specialize (C1 k). rewrite cnt_s_cons in *. unfold for_rule in *. now rewrite Hr.
Qed.
Lemma Inv_replace_fs rules c s rq rq1 fs' : cx_fs c = rq :: fs' -> sq_rule rq1 = sq_rule rq -> sreq_ok s rq1 -> Inv rules c s -> Inv rules (cx_set_fs c (rq1 :: fs')) s.
Proof.
  intros Hfs Hr Hok (Hn & HT & HI & HS). split; auto. split; [now apply (InvT_ctx c)|]. split; [now apply (InvI_ctx rules c)|eapply InvS_replace_fs; eauto].
Qed.

Lemma sreq_ok_fill s rq d ds : sreq_ok s rq -> skipn (sq_index rq) (res_deps (res_of s (sq_rule rq))) = d :: ds -> sreq_ok s (fill_request rq d).
Proof.
  intros (H1 & H2 & H3) Hs. destruct (skipn_head_nth _ _ _ _ Hs) as (Hn & _). unfold sreq_ok. rewrite fill_request_rule, fill_request_index.
  split; auto. split; auto. unfold fill_request. destruct (sq_input rq) eqn:E; [now rewrite E|]. cbn [sq_input]. intros i Hi. inversion Hi. subst. eauto.
Qed.

Lemma Inv_head_ok rules c s rq fs' : cx_fs c = rq :: fs' -> Inv rules c s -> sreq_ok s rq.
Proof. intros Hfs (_ & _ & _ & HS). pose proof (s_ok_fs c s HS) as H. rewrite Hfs in H. now inversion H. Qed.

Lemma scanning_not_scanned s k : kind_of s k = KScanning -> is_scanned s k = false.
Proof. unfold is_scanned. now intros ->. Qed.

Lemma Inv_scan_inputs rules env ord c0 fs' ds : forall s rq,
  cx_ex c0 = None -> Inv rules (cx_set_fs c0 (rq :: fs')) s -> skipn (sq_index rq) (res_deps (res_of s (sq_rule rq))) = ds ->
  Inv rules (cx_set_fs c0 fs') (scan_inputs rules env ord s rq ds).
Proof.
  induction ds as [|d ds IH]; intros s rq Hex HI Hsk.
  { (* index out of range: excluded by the request being well formed *)
    exfalso. pose proof (Inv_head_ok rules (cx_set_fs c0 (rq :: fs')) s rq fs' eq_refl HI) as (_ & Hlt & _).
    assert (Hlen : length (skipn (sq_index rq) (res_deps (res_of s (sq_rule rq)))) = 0%nat) by now rewrite Hsk.
    rewrite skipn_length in Hlen. lia. }
  cbn [scan_inputs]. cbn zeta.
  set (k := sq_rule rq). set (inp := request_input rq d). set (rq1 := fill_request rq d).
  pose proof (Inv_head_ok rules (cx_set_fs c0 (rq :: fs')) s rq fs' eq_refl HI) as Hrqok.
  assert (Hk : kind_of s k = KScanning) by apply Hrqok.
  (* the request with its input looked up *)
  assert (HI1 : Inv rules (cx_set_fs c0 (rq1 :: fs')) (touch s inp)).
  { apply Inv_touch. apply (Inv_replace_fs rules (cx_set_fs c0 (rq :: fs')) s rq rq1 fs'); auto.
    - apply fill_request_rule.
    - eapply sreq_ok_fill; eauto. }
  destruct (scan_rule rules env (touch s inp) inp) as [b1 s1] eqn:E1.
  destruct (scan_rule_post rules env _ _ _ _ _ E1 HI1) as (HI2 & KS & Hf1 & Ht1).
  assert (Hin1 : sq_input rq1 = Some inp) by apply fill_request_input.
  destruct b1.
  2:{ apply (Inv_defer_on_rule rules (cx_set_fs c0 (rq1 :: fs')) s1 inp rq1 fs'); auto. }
  specialize (Ht1 eq_refl).
  (* the input is not the scanning rule itself *)
  assert (Hne : inp <> k).
  { intros E. destruct KS as (_ & _ & _ & _ & _ & _ & _ & _ & KSs & _).
    assert (Hks : kind_of (touch s inp) inp = KScanning) by (unfold kind_of; rewrite rinfo_of_touch, E; exact Hk).
    assert (Hk1 : kind_of s1 inp = KScanning) by (unfold kind_of in *; now rewrite (KSs Hks)).
    rewrite (scanning_not_scanned s1 inp Hk1) in Ht1. discriminate. }
  assert (Hr1 : rinfo_of s1 k = rinfo_of s k).
  { destruct KS as (KS1 & _). rewrite (KS1 k); [apply rinfo_of_touch|auto]. }
  destruct (demand_rule rules ord s1 inp) as [b2 s2] eqn:E2.
  destruct (demand_rule_post rules ord _ _ _ _ _ E2 HI2 Hex Ht1) as (HI3 & KD & Hf2 & Ht2).
  destruct b2.
  2:{ apply (Inv_defer_on_task rules (cx_set_fs c0 (rq1 :: fs')) s2 inp rq1 fs'); auto. }
  assert (Hr2 : rinfo_of s2 k = rinfo_of s k).
  { destruct KD as (KD1 & _). rewrite (KD1 k); auto. }
  assert (Hrq1 : sq_rule rq1 = k) by apply fill_request_rule.
  destruct (negb (sq_order rq1) && input_rebuilt s2 k inp).
  { apply Inv_iemit. apply (Inv_finish_scan rules (cx_set_fs c0 (rq1 :: fs')) s2 k KNeedsToRun rq1 fs'); auto. apply idle_NeedsToRun. }
  destruct ds as [|d' ds'].
  { apply (Inv_finish_scan rules (cx_set_fs c0 (rq1 :: fs')) s2 k KDoesNotNeedToRun rq1 fs'); auto. apply idle_DoesNot. }
  (* next input *)
  destruct (skipn_head_nth _ _ _ _ Hsk) as (_ & _ & Hsk').
  set (rq2 := mkSReq k (S (sq_index rq1)) None false false).
  assert (Hidx : sq_index rq1 = sq_index rq) by apply fill_request_index.
  assert (Hsk2 : skipn (sq_index rq2) (res_deps (res_of s2 (sq_rule rq2))) = d' :: ds').
  { cbn [rq2 sq_index sq_rule]. unfold res_of. rewrite Hr2, Hidx. exact Hsk'. }
  apply (IH s2 rq2); auto.
  apply (Inv_replace_fs rules (cx_set_fs c0 (rq1 :: fs')) s2 rq1 rq2 fs'); auto.
  unfold sreq_ok. cbn [rq2 sq_rule sq_index sq_input]. split; [unfold kind_of; rewrite Hr2; exact Hk|]. split; [|discriminate].
  destruct (skipn_head_nth _ _ _ _ Hsk2) as (_ & Hlt & _). exact Hlt.
Qed.

Lemma cx_set_fs_same c : cx_set_fs c (cx_fs c) = c. Proof. now destruct c. Qed.
Lemma cx_set_fi_same c : cx_set_fi c (cx_fi c) = c. Proof. now destruct c. Qed.

(* a scan request is taken off ruleInfosToScan *)
Lemma Inv_pop_toscan rules c s rq rest : is_toscan s = rq :: rest -> Inv rules c s -> Inv rules (cx_set_fs c (rq :: cx_fs c)) (upd_toscan s rest).
Proof.
  intros Hq (Hn & HT & HI & HS). split; [exact Hn|]. split; [|split].
  - apply (InvT_ctx c); auto. now apply InvT_upd_toscan.
  - apply (InvI_ctx rules c); auto. now apply InvI_upd_toscan.
  - destruct HS as [C1 C2 C3 C4 C5 C6 C7 C8]. rewrite Hq in *. inversion C3 as [|x l Hx Hl]. subst x l.
    constructor; cbn [cx_fs cx_set_fs]; autorewrite with iv; auto.
    intros k. specialize (C1 k). unfold scan_count in *. rewrite Hq in C1. autorewrite with iv. rewrite cnt_s_cons in *.
    change (kind_of (upd_toscan s rest) k) with (kind_of s k). lia.
Qed.

Lemma Inv_step_scan rules env ord c s : cx_ex c = None -> Inv rules c s -> Inv rules c (step_scan rules env ord s).
Proof.
  intros Hex HI. unfold step_scan. destruct (is_toscan s) as [|rq rest] eqn:Hq; auto.
  pose proof (Inv_pop_toscan rules c s rq rest Hq HI) as HI1.
  pose proof (Inv_head_ok rules (cx_set_fs c (rq :: cx_fs c)) (upd_toscan s rest) rq (cx_fs c) eq_refl HI1) as (Hk & _).
  unfold process_scan_request. rewrite Hk. cbn [kind_eqb negb].
  pose proof (Inv_scan_inputs rules env ord c (cx_fs c) _ (upd_toscan s rest) rq Hex HI1 eq_refl) as H. now rewrite cx_set_fs_same in H.
Qed.
