(* P19b - values, part 3: the value a task computes when its inputs are available is the clean value; the ready-queue step. *)
From LLB Require Import Engine.Rules Engine.Spec Engine.SpecInv1 Engine.Impl Engine.ImplProofs Engine.ImplProofsSticky Engine.ImplProofsMono Engine.ImplProofsInv
  Engine.ImplProofsInv2 Engine.ImplProofsInv3 Engine.ImplProofsInv7 Engine.ImplProofsInv8 Engine.ImplProofsInv9 Engine.ImplProofsAvail
  Engine.ImplProofsProto Engine.ImplVal1 Engine.ImplVal2.
From Coq Require Import Arith Lia.
Local Open Scope N_scope.

Lemma nth_error_firstn {A} (l : list A) n i : (i < n)%nat -> nth_error (firstn n l) i = nth_error l i.
Proof.
  revert l i. induction n as [|n IH]; intros l i H; [lia|]. destruct l as [|x l]; [now destruct i|].
  destruct i as [|i]; [reflexivity|]. cbn [firstn nth_error]. apply IH. lia.
Qed.
Lemma nth_error_skipn {A} (l : list A) n i : nth_error (skipn n l) i = nth_error l (n + i).
Proof. revert l. induction n as [|n IH]; intros l; [reflexivity|]. destruct l as [|x l]; [now destruct i|]. cbn [skipn plus nth_error]. apply IH. Qed.

Lemma map_by_nth {A B C} (f : A -> C) (g : B -> C) (l : list A) (ks : list B) : length l = length ks ->
  (forall i a b, nth_error l i = Some a -> nth_error ks i = Some b -> f a = g b) -> map f l = map g ks.
Proof.
  revert ks. induction l as [|a l IH]; intros [|b ks] Hl H; try discriminate; [reflexivity|]. cbn [map]. f_equal.
  - apply (H 0%nat); reflexivity.
  - apply IH; [cbn in Hl; lia|]. intros i x y Hx Hy. apply (H (S i)); auto.
Qed.

Section Val.
Variable rules : key -> rule.
Variable env : key -> N.
Variable F : key -> N -> list value -> list N -> N -> N.
Variable rank : key -> nat.
Hypothesis Hrank : wf_rank rules rank.
Notation cvK := (cvK rules env F rank).
Notation bkK := (bkK rules env F rank).
Notation n1 := (n1 rules).
Notation n2 := (n2 rules).
Notation key_of_slot := (key_of_slot rules env F rank).
Notation task_ok := (task_ok rules env F rank).
Notation VInv := (VInv rules env F rank).

Lemma payload_cvK x : payload_of (cvK x) = cvp rules env F rank x.
Proof. reflexivity. Qed.

(* all used slots filled (no witness request can exist) => the task computes the clean value *)
Lemma task_value_cv s t ti : task_ok s t ti -> (forall rq, Oreq s rq -> iq_task rq <> Some t) ->
  Some (task_value rules env F t ti) = cvK t.
Proof.
  intros [K1 K2 K3 K4 K5 K6] Hno.
  assert (Hfilled : forall i, used rules t i -> (i < length (ti_slots ti))%nat -> exists v, nth_error (ti_slots ti) i = Some (Some v)).
  { intros i Hu Hl. destruct (nth_error (ti_slots ti) i) as [[v|]|] eqn:E; [eauto| |apply nth_error_None in E; lia].
    destruct (K3 i Hu E) as (rq & Ho & Ht & _). exfalso. exact (Hno rq Ho Ht). }
  (* the branch has fired iff there are branch keys *)
  assert (Hlen : length (ti_slots ti) = (n1 t + n2 t + length (bkK t))%nat).
  { rewrite K1. destruct (ti_branched ti) eqn:Eb; [reflexivity|]. f_equal.
    unfold ImplVal1.bkK, branch_keys. destruct (r_br (rules t)) as [[[i a] b]|] eqn:Ebr; [|reflexivity].
    destruct (Nat.ltb i (length (r_req (rules t)))) eqn:El.
    - apply Nat.ltb_lt in El. exfalso. pose proof (K4 eq_refl i a b eq_refl El) as Hn.
      destruct (Hfilled i) as (v & Hv); [left; exact El|rewrite K1; unfold ImplVal1.n1 in *; lia|]. congruence.
    - destruct (nth_error _ i) as [[v|]|]; reflexivity. }
  unfold task_value. cbn zeta. unfold ImplVal1.cvK at 1. rewrite (cvk_unfold rules env F rank Hrank t). cbn zeta. f_equal. f_equal. f_equal.
  unfold used_slots. rewrite map_app. unfold used in *. unfold ImplVal1.n1, ImplVal1.n2, ImplVal1.bkK in *. f_equal.
  - apply map_by_nth.
    + rewrite firstn_length. lia.
    + intros i a x Ha Hx. assert (Hi : (i < length (r_req (rules t)))%nat) by (apply nth_error_Some; congruence).
      rewrite nth_error_firstn in Ha by exact Hi. destruct (Hfilled i) as (v & Hv); [now left|lia|]. rewrite Hv in Ha. inversion Ha. subst a.
      assert (Hks : key_of_slot t i = Some x). { unfold ImplVal1.key_of_slot, ImplVal1.n1. apply Nat.ltb_lt in Hi. now rewrite Hi. }
      rewrite (K2 i v x Hv Hks). reflexivity.
  - apply map_by_nth.
    + rewrite skipn_length. change cvK with (cvk rules env F rank) in Hlen. lia.
    + intros j a x Ha Hx. assert (Hj : (j < length (branch_keys (rules t) (map cvK (r_req (rules t)))))%nat) by (apply nth_error_Some; change cvK with (cvk rules env F rank); congruence).
      rewrite nth_error_skipn in Ha.
      destruct (Hfilled (length (r_req (rules t)) + length (r_single (rules t)) + j)%nat) as (v & Hv); [right; lia|lia|]. rewrite Hv in Ha. inversion Ha. subst a.
      assert (Hks : key_of_slot t (length (r_req (rules t)) + length (r_single (rules t)) + j) = Some x).
      { unfold ImplVal1.key_of_slot, ImplVal1.n1, ImplVal1.n2, ImplVal1.bkK.
        assert (E1 : Nat.ltb (length (r_req (rules t)) + length (r_single (rules t)) + j) (length (r_req (rules t))) = false) by (apply Nat.ltb_ge; lia).
        assert (E2 : Nat.ltb (length (r_req (rules t)) + length (r_single (rules t)) + j) (length (r_req (rules t)) + length (r_single (rules t))) = false) by (apply Nat.ltb_ge; lia).
        rewrite E1, E2.
        replace (length (r_req (rules t)) + length (r_single (rules t)) + j - length (r_req (rules t)) - length (r_single (rules t)))%nat with j by lia. exact Hx. }
      rewrite (K2 _ v x Hv Hks). reflexivity.
Qed.

(* ---------- the ready-queue step ---------- *)
Lemma VInv_avail_unit root s rest t ti tv : VInv root s -> task_of s t = Some ti -> kind_of s t = KWaiting -> Some tv = cvK t ->
  VInv root (set_ti (iemit (set_kind (upd_ready s rest) t KComputing) (EAvail t)) t (ti_with_pending (Some tv) ti)).
Proof.
  intros [V1 V2 V3 V4 V5 V6 V7 V8 V9 V10] Hg Hk Htv. set (s' := set_ti _ t _).
  assert (HK : forall k, kind_of s' k = if N.eqb k t then KComputing else kind_of s k).
  { intros k. unfold s'. change (kind_of (set_ti ?x ?a ?b) k) with (kind_of x k). change (kind_of (iemit ?x ?e) k) with (kind_of x k).
    unfold set_kind. rewrite kind_of_mod_ri. reflexivity. }
  assert (HR : forall k, res_of s' k = res_of s k).
  { intros k. unfold s'. change (res_of (set_ti ?x ?a ?b) k) with (res_of x k). change (res_of (iemit ?x ?e) k) with (res_of x k).
    unfold set_kind. rewrite res_of_mod_ri. destruct (N.eqb k t) eqn:E; auto. apply N.eqb_eq in E. now subst. }
  assert (HT : forall t0, task_of s' t0 = if N.eqb t0 t then Some (ti_with_pending (Some tv) ti) else task_of s t0).
  { intros t0. unfold s', task_of. autorewrite with iv. now rewrite aget_aset. }
  assert (Hfw : forall t0 x, task_of s t0 = Some x -> exists y, task_of s' t0 = Some y /\ ti_slots y = ti_slots x /\ ti_reqby y = ti_reqby x).
  { intros t0 x Hx. rewrite HT. destruct (N.eqb t0 t) eqn:E; [|eauto]. apply N.eqb_eq in E. subst t0. rewrite Hg in Hx. inversion Hx. subst x. eauto. }
  assert (Hbw : forall t0 y, task_of s' t0 = Some y -> exists x, task_of s t0 = Some x /\ ti_slots y = ti_slots x /\ ti_reqby y = ti_reqby x).
  { intros t0 y. rewrite HT. destruct (N.eqb t0 t) eqn:E; [|eauto]. apply N.eqb_eq in E. subst t0. intros Hy. inversion Hy. exists ti. auto. }
  assert (O1 : forall rq, Oreq s rq -> Oreq s' rq).
  { apply Oreq_sub; try apply incl_refl. intros t0 x Hx. destruct (Hfw t0 x Hx) as (y & Hy & _ & Hr). exists y. split; auto. rewrite Hr. apply incl_refl. }
  assert (O2 : forall rq, Oreq s' rq -> Oreq s rq).
  { apply Oreq_sub; try apply incl_refl. intros t0 y Hy. destruct (Hbw t0 y Hy) as (x & Hx & _ & Hr). exists x. split; auto. rewrite Hr. apply incl_refl. }
  constructor.
  - exact V1.
  - exact V2.
  - intros k. rewrite HK. destruct (N.eqb k t); [split; discriminate|apply V3].
  - intros k. rewrite HK, HR. destruct (N.eqb k t) eqn:E; [|apply V4]. apply N.eqb_eq in E. subst k. intros _. apply V4. rewrite Hk. discriminate.
  - intros k. rewrite HK, HR. destruct (N.eqb k t); [discriminate|apply V5].
  - intros rq Ho. apply (rq_wf_sub rules env F rank s s'); [|apply V6, O2, Ho]. intros t0 x Hx. destruct (Hfw t0 x Hx) as (y & Hy & Hs & _). exists y. split; auto. rewrite Hs. lia.
  - intros rq Hin. rewrite HK. pose proof (V7 rq Hin) as Hc. destruct (N.eqb (iq_input rq) t) eqn:E; auto. apply N.eqb_eq in E. congruence.
  - intros t0 y. rewrite HT. destruct (N.eqb t0 t) eqn:E; intros Hy.
    + apply N.eqb_eq in E. subst t0. inversion Hy. subst y. destruct (V8 t ti Hg) as [K1 K2 K3 K4 K5 K6]. constructor; cbn [ti_with_pending ti_slots ti_branched ti_pending]; auto.
      * intros i Hu Hn. destruct (K3 i Hu Hn) as (rq & H1 & H2). exists rq. split; auto.
      * intros v Hv. inversion Hv. now subst.
      * rewrite HR. exact K6.
    + apply (task_ok_frame rules env F rank s s' t0 y y); auto. now rewrite HR.
  - destruct V9 as [H|[H|H]]; [now left| |].
    + right. left. unfold is_in_progress in *. rewrite HK. destruct (N.eqb root t); auto.
    + right. right. rewrite HK. destruct (N.eqb root t) eqn:E; auto. apply N.eqb_eq in E. congruence.
  - exact V10.
Qed.

Lemma VInv_step_ready root syncp s : Inv rules ctx0 s -> VInv root s -> nf (step_ready rules env F syncp s) -> VInv root (step_ready rules env F syncp s).
Proof.
  intros HI HV Hn. unfold step_ready in *. destruct (is_ready s) as [|t rest] eqn:Hq; auto.
  pose proof HI as (_ & HT & HII & _).
  destruct (t_rd1 ctx0 s HT t) as (ti & Hg & Hk & Hw); [rewrite Hq; now left|].
  assert (Hz : (cnt_i t (cx_fi ctx0) + outstanding_count s t = 0)%nat) by (rewrite <- (i_wc rules ctx0 s HII t ti Hg); exact Hw).
  destruct (no_ireq_of s t (cx_fi ctx0) Hz (t_nd_rules ctx0 s HT) (t_nd_tasks ctx0 s HT)) as (_ & Z2 & _ & Z4 & Z5).
  assert (Hno : forall rq, Oreq s rq -> iq_task rq <> Some t).
  { intros rq [H|[(t0 & x & Hx & Hin)|H]]; [now apply Z2|eapply Z4; eauto|now apply Z5]. }
  pose proof (task_value_cv s t ti (v_task _ _ _ _ _ _ HV t ti Hg) Hno) as Htv.
  unfold run_ready, inputs_available in *. cbn zeta in *.
  change (kind_of (upd_ready s rest) t) with (kind_of s t) in *. rewrite Hk in *. cbn [kind_eqb check] in *.
  unfold avail_body in *. change (aget (is_tasks (iemit (set_kind (upd_ready s rest) t KComputing) (EAvail t))) t) with (aget (is_tasks s) t) in *.
  unfold task_of in Hg. rewrite Hg in *. cbn zeta in *.
  pose proof (VInv_avail_unit root s rest t ti (task_value rules env F t ti) HV Hg Hk Htv) as HV1.
  set (s2 := set_ti _ t _) in *.
  assert (Hn2 : nf (if syncp t then task_finish rules s2 t else s2)) by (unfold nf in *; now rewrite is_fault_upd_outstanding in Hn).
  assert (HV2 : VInv root (if syncp t then task_finish rules s2 t else s2)).
  { destruct (syncp t); auto. now apply VInv_task_finish. }
  eapply VInv_frame; [..|exact HV2]; auto.
Qed.
End Val.
