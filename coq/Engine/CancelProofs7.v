(* C05 - part 7: c05_later_builds_clean.  The state a cancelled build leaves behind is `AtRest` (the between-builds
   invariant of the C01 proof, SpecC01.v) provided no completed task was still waiting for its discovered
   dependencies (`no_pending_discovered`); hence every later build - same engine or a new engine over the same
   database, whatever the external state then is - returns the clean value (SpecC01.c01_incremental_eq_clean_thm). *)
From LLB Require Import Engine.Rules Engine.Spec Engine.Exec Engine.Cancel.
From LLB Require Import Engine.SpecFrame Engine.SpecInv1 Engine.SpecInv2 Engine.SpecInv3 Engine.SpecC01.
From LLB Require Import Engine.CancelProofs6.
From Coq Require Import List NArith Bool Lia Arith Permutation.
Local Open Scope N_scope.

Lemma build_log_of_ext : forall s s' l, st_log s' = l ++ st_log s -> build_log s' (length (st_log s)) = l.
Proof.
  intros s s' l H. unfold build_log. rewrite H, app_length.
  replace (length l + length (st_log s) - length (st_log s))%nat with (length l) by lia.
  rewrite firstn_app, firstn_all, Nat.sub_diag. cbn [firstn]. apply app_nil_r.
Qed.

Section Clean.
Variable rules : key -> rule.
Variable env : key -> N.
Variable F : key -> N -> list value -> list N -> N -> N.
Variable order : N -> key -> list dep -> list dep.
Variable rank : key -> nat.
Variable R : key -> N -> rule.
Hypothesis HTab : table_ok rules R.
Hypothesis Hrank : wf_rank rules rank.
Hypothesis Hdisc : wf_disc rules.
Hypothesis Horder : wf_order order.

Local Notation AR := (AtRest F R).
Local Notation G := (Good rules env F rank R).

(* all the windows recorded at the stop can be closed when their discovered dependencies are complete *)
Lemma close_all : forall s0 s1 (W : list key) (E : key -> Prop),
  G (fun x => In x W \/ E x) s1 ->
  (forall k, In k W -> wfacts rules env F order rank s0 s1 k) ->
  (forall k, In k W -> forall d, In d (r_disc (rules k)) -> done s1 d) ->
  G E s1.
Proof.
  intros s0 s1 W. induction W as [|k W IH]; intros E HG HW HD.
  - eapply Good_E_ext; [|exact HG]. intros x. cbn [In]. tauto.
  - apply IH.
    + destruct (HW k (or_introl eq_refl)) as (r & v & Hm & Hv & Hd & _).
      apply (Good_close rules env F order rank R HTab Hrank Hdisc Horder (fun x => In x W \/ E x) s1 k r v).
      * eapply Good_E_ext; [|exact HG]. intros x. cbn [In]. split; intros H.
        -- destruct H as [[H|H]|H]; [left; now symmetry | right; now left | right; now right].
        -- destruct H as [H|[H|H]]; [left; left; now symmetry | left; now right | now right].
      * exact Hm.
      * exact Hv.
      * intros x Hx. rewrite app_assoc in Hx. apply in_app_or in Hx. destruct Hx as [Hx|Hx].
        -- now apply Hd.
        -- apply (HD k (or_introl eq_refl) x Hx).
    + intros k' Hk'. apply HW. now right.
    + intros k' Hk'. apply HD. now right.
Qed.

(* the state left by a build with a cancellation request is at rest *)
Theorem cancelled_build_at_rest : forall n fuel s k o s',
  (rank k < fuel)%nat -> AR s -> build_cancel rules env F order n fuel s k = o ->
  (o = Ok s' \/ (o = Cycle s' [] /\ no_pending_discovered rules s' (length (st_log s)))) ->
  AR s'.
Proof.
  intros n fuel s k o s' Hk HR Hb Ho. unfold build_cancel, build_cancel_with in Hb.
  assert (G0 : G noE (bump_epoch s)) by (apply (AtRest_bump rules env F rank R); exact HR).
  destruct (ensure_c_pg rules env F order rank R HTab Hrank Hdisc Horder n (length (st_log s)) fuel noE []
              (bump_epoch s) k Hk (fun y (H : In y []) => match H with end) G0) as [(s1 & E1 & G1)|(s1 & E1 & A1)];
    rewrite E1 in Hb; subst o.
  - destruct Ho as [Ho|[Ho _]]; [|discriminate Ho]. inversion Ho. subst s'.
    apply (Good_commit rules env F rank R). exact G1.
  - destruct Ho as [Ho|[Ho NP]]; [discriminate Ho|]. inversion Ho. subst s'. clear Ho.
    destruct A1 as (W & GW & HW).
    assert (G1 : G noE s1).
    { apply (close_all (bump_epoch s) s1 W noE GW HW). intros x Hx d Hd.
      destruct (HW x Hx) as (r & v & _ & _ & _ & l & Hl & Hin).
      cbn [bump_epoch st_log] in Hl.
      assert (Hbl : build_log (commit_epoch (cancel_reset s1 (length (st_log s)))) (length (st_log s)) = l).
      { apply build_log_of_ext. exact Hl. }
      specialize (NP x v). rewrite Hbl in NP. exact (NP Hin d Hd). }
    pose proof (Good_commit rules env F rank R s1 G1) as HA.
    eapply AtRest_ext; [| | | |exact HA]; reflexivity.
Qed.

(* c05_later_builds_clean: the next build - on the same engine, or on a new engine over the same database - for ANY
   external state env' succeeds with the clean value, and leaves a state at rest again (so the same holds for every
   build after it, cancelled or not, by SpecC01.c01_build_preserves_thm / cancelled_build_at_rest). *)
Theorem later_builds_clean : forall n fuel s k o s',
  (rank k < fuel)%nat -> AR s -> build_cancel rules env F order n fuel s k = o ->
  (o = Ok s' \/ (o = Cycle s' [] /\ no_pending_discovered rules s' (length (st_log s)))) ->
  forall (env' : key -> N) (db : bool) (fuel2 : nat) (k2 : key), (rank k2 < fuel2)%nat ->
  exists s'', build rules env' F order fuel2 (if db then restart s' else s') k2 = Ok s'' /\
              result_of s'' k2 = cv rules env' F fuel2 k2 /\ AR s''.
Proof.
  intros n fuel s k o s' Hk HR Hb Ho env' db fuel2 k2 Hk2.
  pose proof (cancelled_build_at_rest n fuel s k o s' Hk HR Hb Ho) as HA.
  assert (HA' : AR (if db then restart s' else s')) by (destruct db; [now apply AtRest_restart | exact HA]).
  destruct (c01_no_cycle_when_ranked_thm rules env' F order rank R HTab Hrank Hdisc Horder fuel2 _ k2 Hk2 HA') as [s'' Hb2].
  exists s''. split; [exact Hb2|]. split.
  - exact (c01_incremental_eq_clean_thm rules env' F order rank R HTab Hrank Hdisc Horder fuel2 _ k2 s'' Hk2 HA' Hb2).
  - exact (c01_build_preserves_thm rules env' F order rank R HTab Hrank Hdisc Horder fuel2 _ k2 s'' Hk2 HA' Hb2).
Qed.

(* with ranked rules a cancellable build ends well or is cancelled: no real cycle, no fuel exhaustion *)
Theorem build_cancel_outcomes : forall n fuel s k,
  (rank k < fuel)%nat -> AR s ->
  (exists s', build_cancel rules env F order n fuel s k = Ok s') \/
  (exists s', build_cancel rules env F order n fuel s k = Cycle s' []).
Proof.
  intros n fuel s k Hk HR. unfold build_cancel, build_cancel_with.
  assert (G0 : G noE (bump_epoch s)) by (apply (AtRest_bump rules env F rank R); exact HR).
  destruct (ensure_c_pg rules env F order rank R HTab Hrank Hdisc Horder n (length (st_log s)) fuel noE []
              (bump_epoch s) k Hk (fun y (H : In y []) => match H with end) G0) as [(s1 & E1 & G1)|(s1 & E1 & A1)];
    rewrite E1; [left | right]; eexists; reflexivity.
Qed.

End Clean.

(* ---------- histories: a cancelled build keeps the history invariant of SpecC01 ---------- *)

Section CHist.
Variable F : key -> N -> list value -> list N -> N -> N.
Variable order : N -> key -> list dep -> list dep.
Variable fuel : nat.
Variable rank : key -> nat.
Variable tbl : list (key * rule).
Hypothesis Hrank : wf_rank (rules_of tbl) rank.
Hypothesis Hdisc : wf_disc (rules_of tbl).
Hypothesis Horder : wf_order order.

(* the excluding hypothesis, for the cancelled build k of history state h *)
Definition pending_free (h : hstate) (k : key) (n : nat) : Prop :=
  forall s', build_cancel (rules_of tbl) (env_of (h_env h)) F order n fuel (emit (h_st h) (EBuildStart k)) k = Cycle s' [] ->
             no_pending_discovered (rules_of tbl) s' (length (st_log (emit (h_st h) (EBuildStart k)))).

Theorem cancel_step_inv : forall h k n, HInv tbl F h -> (rank k < fuel)%nat -> pending_free h k n ->
  HInv tbl F (chstep F order fuel h (CBuildCancel k n)).
Proof.
  intros h k n (Hr & Hp & HR) Hk HP. unfold chstep, cancel_step. rewrite Hr.
  change (build_cancel_with (rules_of tbl) (env_of (h_env h)) F order cancel_reset n fuel (emit (h_st h) (EBuildStart k)) k)
    with (build_cancel (rules_of tbl) (env_of (h_env h)) F order n fuel (emit (h_st h) (EBuildStart k)) k).
  assert (HR0 : AtRest F (fixedR (rules_of tbl)) (emit (h_st h) (EBuildStart k))) by now apply AtRest_emit.
  pose proof (cancelled_build_at_rest (rules_of tbl) (env_of (h_env h)) F order rank (fixedR (rules_of tbl))
                (fixedR_ok _) Hrank Hdisc Horder n fuel (emit (h_st h) (EBuildStart k)) k) as HA.
  destruct (build_cancel_outcomes (rules_of tbl) (env_of (h_env h)) F order rank (fixedR (rules_of tbl))
              (fixedR_ok _) Hrank Hdisc Horder n fuel (emit (h_st h) (EBuildStart k)) k Hk HR0) as [[s1 E1]|[s1 E1]].
  - specialize (HA _ s1 Hk HR0 E1 (or_introl eq_refl)). unfold pending_free in HP. rewrite E1 in *.
    unfold HInv. cbn [h_rules h_pending h_st]. split; [reflexivity|]. split; [exact Hp|]. now apply AtRest_emit.
  - specialize (HA _ s1 Hk HR0 E1 (or_intror (conj eq_refl (HP s1 E1)))). rewrite E1.
    unfold HInv. cbn [h_rules h_pending h_st]. split; [reflexivity|]. split; [exact Hp|]. now apply AtRest_emit.
Qed.

(* every later build of the history - after any sets, restarts and builds - reports the clean value of its moment *)
Theorem later_history_clean : forall h k n, HInv tbl F h -> (rank k < fuel)%nat -> pending_free h k n ->
  forall ops k2, Forall no_rule_op ops -> Forall (build_ranked rank fuel) ops -> (rank k2 < fuel)%nat ->
  let h' := fold_left (hstep F order fuel) ops (chstep F order fuel h (CBuildCancel k n)) in
  exists s1, h_st (hstep F order fuel h' (OBuild k2)) =
             emit s1 (EResult (cv (rules_of tbl) (env_of (h_env h')) F fuel k2) false).
Proof.
  intros h k n HI Hk HP ops k2 Hno Hbr Hk2.
  exact (c01_every_build_clean_thm F order fuel rank tbl Hrank Hdisc Horder ops k2 _ Hno Hbr
           (cancel_step_inv h k n HI Hk HP) Hk2).
Qed.

End CHist.

(* ---------- non-vacuity: scenario 1 (R = 1 requests 2 and 4; 4 changes; the rebuild is cancelled after 14 events) ---------- *)

Definition c5_defs : list (key * rule) :=
  [(1, mkRule 0 false [2; 4] [] [] None []); (2, mkRule 0 true [] [] [] None []); (4, mkRule 0 true [] [] [] None [])].
Definition c5_tbl : list (key * rule) := rev c5_defs.
Definition c5_rank : key -> nat := rank_of [(1, 1%nat)].
Definition c5_ord (_ : N) (_ : key) (l : list dep) : list dep := l.
Definition c5_h0 : hstate := fold_left (hstep mixF c5_ord 20) (rule_ops c5_defs ++ [ORestart true]) init_h.
Definition c5_ops : list op := [OSet 2 5; OSet 4 7; OBuild 1; OSet 4 8].
Definition c5_h1 : hstate := fold_left (hstep mixF c5_ord 20) c5_ops c5_h0.

Lemma c5_wf_rank : wf_rank (rules_of c5_tbl) c5_rank.
Proof. apply wf_rank_b_sound. vm_compute. reflexivity. Qed.
Lemma c5_wf_disc : wf_disc (rules_of c5_tbl).
Proof. apply wf_disc_b_sound. vm_compute. reflexivity. Qed.

Lemma c5_no_disc : forall k, r_disc (rules_of c5_tbl k) = [].
Proof.
  intros k. unfold rules_of, c5_tbl, c5_defs. cbn [rev app alookup].
  destruct (N.eqb k 4); [reflexivity|]. destruct (N.eqb k 2); [reflexivity|]. destruct (N.eqb k 1); reflexivity.
Qed.

Example c5_later_clean :
  HInv c5_tbl mixF c5_h1 /\ (c5_rank 1%N < 20)%nat /\ pending_free mixF c5_ord 20 c5_tbl c5_h1 1 14 /\
  last_result (st_log (h_st (chstep mixF c5_ord 20 c5_h1 (CBuildCancel 1 14)))) = Some (None, true).
Proof.
  split; [|split; [|split]].
  - apply (c01_history_thm mixF c5_ord 20 c5_rank c5_tbl c5_wf_rank c5_wf_disc wf_order_id).
    + repeat constructor.
    + repeat constructor.
    + apply run_history_start.
  - vm_compute. lia.
  - intros s' _ k v _ d Hd. rewrite c5_no_disc in Hd. destruct Hd.
  - vm_compute. reflexivity.
Qed.
