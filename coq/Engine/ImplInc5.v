(* P19b stage 3, part 5: the finished-task step keeps the incremental invariant; the row a finished task leaves behind. *)
From LLB Require Import Engine.Rules Engine.Spec Engine.SpecInv1 Engine.Impl Engine.ImplProofs Engine.ImplProofsSticky Engine.ImplProofsMono Engine.ImplProofsInv
  Engine.ImplProofsInv2 Engine.ImplProofsInv3 Engine.ImplProofsInv5 Engine.ImplProofsInv6 Engine.ImplProofsInv7 Engine.ImplProofsInv8 Engine.ImplProofsInv9
  Engine.ImplVal1 Engine.ImplVal2 Engine.ImplVal3 Engine.ImplVal4 Engine.ImplInc1 Engine.ImplInc2 Engine.ImplInc3 Engine.ImplInc4.
From Coq Require Import Arith Lia.
Local Open Scope N_scope.

Section Inc.
Variable rules : key -> rule.
Variable env : key -> N.
Variable F : key -> N -> list value -> list N -> N -> N.
Variable rank : key -> nat.
Variable R : key -> N -> rule.
Hypothesis Hrank : wf_rank rules rank.
Hypothesis Hdisc : forall k, r_disc (rules k) = [].
Notation cvK := (cvK rules env F rank).
Notation bkK := (bkK rules env F rank).
Notation n1 := (n1 rules).
Notation n2 := (n2 rules).
Notation key_of_slot := (key_of_slot rules env F rank).
Notation task_ok2 := (task_ok2 rules env F rank).
Notation concl := (concl F R).
Notation rowok := (rowok F R).
Notation BT := (BT rules env F rank).
Notation BC := (BC rules F R).
Notation BS := (BS rules env F rank R).
Notation BInv := (BInv rules env F rank R).

(* a task with no request left has recorded every key it asked for, and all of them are complete *)
Lemma task_deps_recorded s t ti : task_ok2 s t ti -> (forall rq, Oreq2 s rq -> iq_task rq <> Some t) ->
  (forall x, In x (r_req (rules t) ++ bkK t) -> In (mkDep x false false) (deps s t)) /\ (forall d, In d (deps s t) -> curk s (d_key d)).
Proof.
  intros [K1 K2 K3 K4 K5 K6 K7 K8 K9 K10 K11] Hno.
  assert (Hfilled : forall i, used rules t i -> (i < length (ti_slots ti))%nat -> exists v, nth_error (ti_slots ti) i = Some (Some v)).
  { intros i Hu Hl. destruct (nth_error (ti_slots ti) i) as [[v|]|] eqn:E; [eauto| |apply nth_error_None in E; lia].
    destruct (K3 i Hu E) as (rq & Ho & Ht & _). exfalso. exact (Hno rq Ho Ht). }
  assert (Hlen : length (ti_slots ti) = (n1 t + n2 t + length (bkK t))%nat).
  { rewrite K1. destruct (ti_branched ti) eqn:Eb; [reflexivity|]. f_equal.
    unfold ImplVal1.bkK, branch_keys. destruct (r_br (rules t)) as [[[i a] b]|] eqn:Ebr; [|reflexivity].
    destruct (Nat.ltb i (length (r_req (rules t)))) eqn:El.
    - apply Nat.ltb_lt in El. exfalso. pose proof (K4 eq_refl i a b eq_refl El) as Hn.
      destruct (Hfilled i) as (v & Hv); [left; exact El|rewrite K1; unfold ImplVal1.n1 in *; lia|]. congruence.
    - destruct (nth_error _ i) as [[v|]|]; reflexivity. }
  assert (Hrec : forall i x, used rules t i -> (i < length (ti_slots ti))%nat -> key_of_slot t i = Some x -> In (mkDep x false false) (deps s t)).
  { intros i x Hu0 Hi Hx. destruct (K7 i x Hu0 Hi Hx) as [(rq & Hu & Ht & _)|H]; [|exact H]. exfalso. apply (Hno rq); [now left|exact Ht]. }
  split.
  - intros x Hin. apply in_app_or in Hin. destruct Hin as [Hin|Hin]; apply In_nth_error in Hin; destruct Hin as (j & Hj).
    + assert (Hlt : (j < n1 t)%nat) by (apply nth_error_Some; unfold ImplVal1.n1; congruence).
      apply (Hrec j x); [left; exact Hlt|lia|]. unfold ImplVal1.key_of_slot. apply Nat.ltb_lt in Hlt. now rewrite Hlt.
    + assert (Hlt : (j < length (bkK t))%nat) by (apply nth_error_Some; congruence).
      apply (Hrec (n1 t + n2 t + j)%nat x); [right; lia|lia|]. unfold ImplVal1.key_of_slot.
      assert (E1 : Nat.ltb (n1 t + n2 t + j) (n1 t) = false) by (apply Nat.ltb_ge; lia).
      assert (E2 : Nat.ltb (n1 t + n2 t + j) (n1 t + n2 t) = false) by (apply Nat.ltb_ge; lia).
      rewrite E1, E2. replace (n1 t + n2 t + j - n1 t - n2 t)%nat with j by lia. exact Hj.
  - intros d Hd. destruct (K8 d Hd) as [H|(rq & Ho & Ht & _)]; [exact H|]. exfalso. exact (Hno rq Ho Ht).
Qed.

Hypothesis Hwfd : wf_disc rules.
Hypothesis HRt : table_ok rules R.

(* the clean value of a rule is the conclusion of a row whose recorded inputs hold their clean values *)
Lemma concl_of_clean s t v : res_sig (res_of s t) = r_sig (rules t) -> Some v = cvK t ->
  (forall x, In x (r_req (rules t) ++ bkK t ++ r_disc (rules t)) -> In (mkDep x false false) (deps s t) /\ stored s x = cvK x) ->
  concl s t v /\ (r_obs (rules t) = false -> snd v = 0).
Proof.
  intros Hsg Hv Hin. unfold ImplVal1.cvK in Hv. rewrite (cvk_unfold rules env F rank Hrank t) in Hv. cbn zeta in Hv. inversion Hv as [Hv']. clear Hv.
  assert (Hreq : map (stored s) (r_req (rules t)) = map cvK (r_req (rules t))).
  { apply map_ext_in. intros x Hx. apply Hin. apply in_or_app. now left. }
  assert (Hbk : branch_keys (rules t) (map (stored s) (r_req (rules t))) = bkK t) by (rewrite Hreq; reflexivity).
  assert (Hdc : map (fun d => snd (payload_of (stored s d))) (r_disc (rules t)) = map env (r_disc (rules t))).
  { apply map_ext_in. intros x Hx. destruct (Hin x) as [_ ->]; [apply in_or_app; right; apply in_or_app; now right|].
    unfold ImplVal1.cvK. rewrite (cvk_unfold rules env F rank Hrank x). cbn [payload_of snd]. unfold obs. now rewrite (Hwfd t x Hx). }
  split.
  - unfold ImplInc1.concl, rule_of. cbn zeta. rewrite Hsg, (HRt t), Hbk, Hdc. split.
    + cbn [fst snd]. f_equal. rewrite map_app, Hreq.
      assert (Hb2 : map (stored s) (bkK t) = map cvK (bkK t)) by (apply map_ext_in; intros x Hx; apply Hin; apply in_or_app; right; apply in_or_app; now left).
      rewrite Hb2, !map_map. f_equal.
    + intros x Hx. now apply Hin.
  - intros Ho. cbn [snd]. unfold obs. now rewrite Ho.
Qed.

(* what retiring the finished task t does, as far as the incremental invariant can see *)
Record fin_eff (s s' : istate) (t : key) (ti : tinfo) (rest : list key) : Prop := {
  fe_q : is_fintasks s = t :: rest;
  fe_g : task_of s t = Some ti;
  fe_k : kind_of s t = KComputing;
  fe_kind : forall k, kind_of s' k = if N.eqb k t then KComplete else kind_of s k;
  fe_res : forall k, k <> t -> res_of s' k = res_of s k;
  fe_self : stored s' t = stored s t /\ cAt s' t = cAt s t /\ bAt s' t = is_epoch s /\ deps s' t = deps s t ++ map mkd (r_disc (rules t)) /\ res_sig (res_of s' t) = res_sig (res_of s t);
  fe_lists : forall k, ri_paused (rinfo_of s' k) = ri_paused (rinfo_of s k) /\ ri_deferred (rinfo_of s' k) = ri_deferred (rinfo_of s k) /\
                       ri_cancelled (rinfo_of s' k) = ri_cancelled (rinfo_of s k);
  fe_tasks : forall t0, task_of s' t0 = if N.eqb t0 t then None else task_of s t0;
  fe_toscan : is_toscan s' = rev (ti_deferred ti) ++ is_toscan s;
  fe_fininreq : is_fininreq s' = rev (ti_reqby ti) ++ is_fininreq s;
  fe_inreq : is_inreq s' = is_inreq s ++ map dummy_of (map mkd (r_disc (rules t)));
  fe_fintasks : is_fintasks s' = rest;
  fe_udb : is_usedb s' = is_usedb s;
  fe_ep : is_epoch s' = is_epoch s;
  fe_no : forall rq, Oreq2 s rq -> iq_task rq <> Some t;
  fe_reqby : forall rq, In rq (ti_reqby ti) -> iq_input rq = t
}.

(* one finished task, with or without a database: the stored result of t is stamped (and written to the database); no other rule's
   record changes - a rule that is not loaded is read from the database, whose other rows are untouched *)
Lemma finish_task_rinfo s t rest ti k : aget (is_tasks s) t = Some ti -> kind_of s t = KComputing ->
  rinfo_of (finish_task (upd_fintasks s rest) t) k =
  if N.eqb k t then ri_append_deps (ti_disc ti) (ri_complete (is_epoch s) (rinfo_of s t)) else rinfo_of s k.
Proof.
  intros Hg Hk. unfold finish_task. change (aget (is_tasks (upd_fintasks s rest)) t) with (aget (is_tasks s) t). rewrite Hg. cbn zeta.
  change (kind_of (upd_fintasks s rest) t) with (kind_of s t). rewrite Hk. cbn [kind_eqb check].
  set (s2 := mod_ri (set_complete (upd_fintasks s rest) t) t (ri_append_deps (ti_disc ti))).
  destruct (push_dummies_views (ti_disc ti) s2) as (P1 & _ & _ & P4 & _).
  set (s3 := push_dummies s2 (ti_disc ti)) in *.
  assert (Hl3 : loaded s3 t).
  { apply P4. unfold loaded, s2, mod_ri, set_ri. cbn [is_rules upd_rules]. rewrite aget_aset_same. discriminate. }
  assert (Hdbw : rinfo_of (db_write s3 t) k = rinfo_of s3 k).
  { unfold db_write. destruct (is_usedb s3) eqn:Eu; auto. unfold rinfo_of. cbn [is_rules upd_db is_usedb is_db]. destruct (aget (is_rules s3) k) eqn:El; auto.
    rewrite ?Eu. f_equal. apply SpecFrame.get_update_other. intros ->. apply Hl3. exact El. }
  unfold retire_task, wake_task_waiters. autorewrite with iv. rewrite Hdbw, P1. unfold s2, set_complete. autorewrite with iv. rewrite N.eqb_refl.
  destruct (N.eqb k t); reflexivity.
Qed.

Lemma finish_task_misc s t rest ti : aget (is_tasks s) t = Some ti -> kind_of s t = KComputing ->
  let s' := finish_task (upd_fintasks s rest) t in is_usedb s' = is_usedb s /\ is_epoch s' = is_epoch s.
Proof.
  intros Hg Hk. cbn zeta. unfold finish_task. change (aget (is_tasks (upd_fintasks s rest)) t) with (aget (is_tasks s) t). rewrite Hg. cbn zeta.
  change (kind_of (upd_fintasks s rest) t) with (kind_of s t). rewrite Hk. cbn [kind_eqb check].
  set (s2 := mod_ri (set_complete (upd_fintasks s rest) t) t (ri_append_deps (ti_disc ti))).
  destruct (push_dummies_views (ti_disc ti) s2) as (_ & _ & _ & _ & _ & _ & _ & _ & _ & _ & _ & P12 & _ & _ & P15).
  assert (Hdw : forall sx, is_usedb (db_write sx t) = is_usedb sx /\ is_epoch (db_write sx t) = is_epoch sx) by (intros sx; unfold db_write; destruct (is_usedb sx) eqn:Eu; cbn; auto).
  unfold retire_task, wake_task_waiters. autorewrite with iv. destruct (Hdw (push_dummies s2 (ti_disc ti))) as [-> ->]. rewrite P12, P15. auto.
Qed.

Lemma step_fintask_eff root x s t rest : Inv rules ctx0 s -> BInv root x s -> is_fintasks s = t :: rest ->
  exists ti, fin_eff s (step_fintask s) t ti rest.
Proof.
  intros HI (HBT & _ & _) Hq. unfold step_fintask. rewrite Hq.
  pose proof HI as (Hn & HT & HII & HS).
  destruct (t_ft ctx0 s HT t) as (ti & Hg & Hk & Hp); [rewrite Hq; now left|]. exists ti.
  assert (Rt : retired s (finish_task (upd_fintasks s rest) t) t ti rest (map dummy_of (ti_disc ti))).
  { apply finish_task_retired; auto; [apply HT|]. intros k. destruct (N.eq_dec k t) as [->|Hne]; [left; rewrite Hk; discriminate|now right]. }
  pose proof (fun k => finish_task_rinfo s t rest ti k Hg Hk) as RI. destruct (finish_task_misc s t rest ti Hg Hk) as (Mu & Me).
  set (s' := finish_task (upd_fintasks s rest) t) in *.
  destruct Rt as [rt_nd0 rt_kind0 rt_paused0 rt_deferred0 rt_deps0 rt_sum_p0 rt_sum_d0 rt_tasks0 rt_toscan0 rt_fininreq0 rt_inreq0 rt_dummies0 rt_ready0 rt_fintasks0 rt_out0 rt_nf0].
  assert (Hnd : ti_disc ti = map mkd (r_disc (rules t))) by (apply (k2_disc _ _ _ _ _ _ _ (b_task _ _ _ _ _ _ HBT t ti Hg)); rewrite Hq; now left).
  assert (Hw0 : ti_wait ti = 0%nat) by (apply (t_cw ctx0 s HT t ti Hg Hk)).
  assert (Hz : (cnt_i t (cx_fi ctx0) + outstanding_count s t = 0)%nat) by (rewrite <- (i_wc rules ctx0 s HII t ti Hg); exact Hw0).
  destruct (no_ireq_of s t (cx_fi ctx0) Hz (t_nd_rules ctx0 s HT) (t_nd_tasks ctx0 s HT)) as (_ & Z2 & Z3 & Z4 & Z5).
  constructor; auto.
  - intros k Hne. unfold res_of. rewrite (RI k). apply N.eqb_neq in Hne. now rewrite Hne.
  - unfold stored, cAt, bAt, deps, res_of. rewrite (RI t), N.eqb_refl, Hnd. cbn. auto.
  - intros k. rewrite (RI k). destruct (N.eqb k t) eqn:E; auto. apply N.eqb_eq in E. subst k. auto.
  - intros t0. unfold task_of. rewrite rt_tasks0, aget_adel. reflexivity.
  - rewrite rt_inreq0, Hnd. reflexivity.
  - apply rt_fintasks0.
  - intros rq [[H|(k & H)]|[(t0 & y & Hy & Hin)|H]]; [now apply Z2|eapply Z3; eauto|eapply Z4; eauto|now apply Z5].
  - intros rq Hin. apply (i_pl_reqby rules ctx0 s HII t ti rq Hg Hin).
Qed.

Section FinEff.
Variables (root : key) (x : option key) (s s' : istate) (t : key) (ti : tinfo) (rest : list key).
Hypothesis HB : BInv root x s.
Hypothesis E : fin_eff s s' t ti rest.

Lemma fe_curk1 k : curk s k -> curk s' k.
Proof.
  intros [Hc Hb]. assert (Hne : k <> t) by (intros ->; rewrite (fe_k _ _ _ _ _ E) in Hc; discriminate).
  unfold curk, bAt. rewrite (fe_kind _ _ _ _ _ E), (fe_res _ _ _ _ _ E k Hne), (fe_ep _ _ _ _ _ E). apply N.eqb_neq in Hne. rewrite Hne. auto.
Qed.
Lemma fe_curk_t : curk s' t.
Proof. unfold curk. rewrite (fe_kind _ _ _ _ _ E), N.eqb_refl, (fe_ep _ _ _ _ _ E). split; auto. apply (fe_self _ _ _ _ _ E). Qed.
Lemma fe_curk2 k : curk s' k -> k = t \/ curk s k.
Proof.
  intros [Hc Hb]. destruct (N.eq_dec k t) as [->|Hne]; [now left|right].
  unfold curk, bAt in *. rewrite (fe_kind _ _ _ _ _ E), (fe_res _ _ _ _ _ E k Hne), (fe_ep _ _ _ _ _ E) in *. apply N.eqb_neq in Hne. rewrite Hne in Hc. auto.
Qed.
Lemma fe_stored k : stored s' k = stored s k.
Proof. destruct (N.eq_dec k t) as [->|Hne]; [apply (fe_self _ _ _ _ _ E)|unfold stored; now rewrite (fe_res _ _ _ _ _ E k Hne)]. Qed.
Lemma fe_cAt k : cAt s' k = cAt s k.
Proof. destruct (N.eq_dec k t) as [->|Hne]; [apply (fe_self _ _ _ _ _ E)|unfold cAt; now rewrite (fe_res _ _ _ _ _ E k Hne)]. Qed.
Lemma fe_deps k : k <> t -> deps s' k = deps s k.
Proof. intros Hne. unfold deps. now rewrite (fe_res _ _ _ _ _ E k Hne). Qed.
Lemma fe_deps_t : deps s' t = deps s t ++ map mkd (r_disc (rules t)).
Proof. apply (fe_self _ _ _ _ _ E). Qed.
Lemma fe_U1 rq : Unrouted s rq -> Unrouted s' rq.
Proof.
  intros [H|(k & H)]; [left; rewrite (fe_inreq _ _ _ _ _ E); apply in_or_app; now left|right; exists k; now rewrite (proj1 (fe_lists _ _ _ _ _ E k))].
Qed.
Lemma fe_U2 rq : Unrouted s' rq -> Unrouted s rq \/ iq_task rq = None.
Proof.
  intros [H|(k & H)]; [|left; right; exists k; now rewrite <- (proj1 (fe_lists _ _ _ _ _ E k))].
  rewrite (fe_inreq _ _ _ _ _ E) in H. apply in_app_or in H. destruct H as [H|H]; [left; now left|right].
  apply in_map_iff in H. destruct H as (d & <- & _). reflexivity.
Qed.
Lemma fe_dummy y : In y (r_disc (rules t)) -> pending_dummy s' y.
Proof.
  intros Hy. exists (dummy_of (mkd y)). split; [|split; reflexivity]. left. rewrite (fe_inreq _ _ _ _ _ E). apply in_or_app. right. apply in_map. now apply in_map.
Qed.
Lemma fe_O1 rq : Oreq2 s rq -> Oreq2 s' rq.
Proof.
  intros [H|[(t0 & y & Hy & Hin)|H]]; [left; now apply fe_U1| |right; right; rewrite (fe_fininreq _ _ _ _ _ E); apply in_or_app; now right].
  destruct (N.eq_dec t0 t) as [->|Hne].
  - right. right. rewrite (fe_fininreq _ _ _ _ _ E). apply in_or_app. left. apply -> in_rev. rewrite (fe_g _ _ _ _ _ E) in Hy. now inversion Hy.
  - right. left. exists t0, y. rewrite (fe_tasks _ _ _ _ _ E). apply N.eqb_neq in Hne. rewrite Hne. auto.
Qed.
Lemma fe_O2 rq : Oreq2 s' rq -> Oreq2 s rq \/ iq_task rq = None.
Proof.
  intros [H|[(t0 & y & Hy & Hin)|H]]; [destruct (fe_U2 rq H); [left; now left|now right]| |].
  - rewrite (fe_tasks _ _ _ _ _ E) in Hy. destruct (N.eqb t0 t); [discriminate|]. left. right. left. eauto.
  - rewrite (fe_fininreq _ _ _ _ _ E) in H. apply in_app_or in H. destruct H as [H|H]; [|left; right; right; exact H].
    apply in_rev in H. left. right. left. exists t, ti. split; auto. apply (fe_g _ _ _ _ _ E).
Qed.

Lemma BT_fin : BT root s'.
Proof.
  destruct HB as ([T2 T3 T4 T5 T6 T7] & _ & _).
  assert (Htk : forall t0 y, task_of s' t0 = Some y -> t0 <> t /\ task_of s t0 = Some y).
  { intros t0 y. rewrite (fe_tasks _ _ _ _ _ E). destruct (N.eqb t0 t) eqn:E0; [discriminate|]. apply N.eqb_neq in E0. auto. }
  constructor.
  - now rewrite (fe_ep _ _ _ _ _ E).
  - intros k Hc. rewrite fe_stored. destruct (fe_curk2 k Hc) as [->|H]; [|now apply T3].
    apply (k2_fin _ _ _ _ _ _ _ (T6 t ti (fe_g _ _ _ _ _ E))). rewrite (fe_q _ _ _ _ _ E). now left.
  - intros rq Ho. destruct (fe_O2 rq Ho) as [Ho'|Hd]; [|split; intros t0 Ht0; congruence].
    destruct (T4 rq Ho') as [Hw Hsg]. split; auto.
    intros t0 Ht0 Hord. destruct (Hw t0 Ht0 Hord) as (H1 & y & Hy & Hl). split; auto. exists y. split; auto.
    rewrite (fe_tasks _ _ _ _ _ E). destruct (N.eqb t0 t) eqn:E0; auto. apply N.eqb_eq in E0. subst t0. exfalso. exact (fe_no _ _ _ _ _ E rq Ho' Ht0).
  - intros rq Hin. rewrite (fe_fininreq _ _ _ _ _ E) in Hin. apply in_app_or in Hin. destruct Hin as [Hin|Hin]; [|now apply fe_curk1, T5].
    apply in_rev in Hin. rewrite (fe_reqby _ _ _ _ _ E rq Hin). apply fe_curk_t.
  - intros t0 y Hy. destruct (Htk t0 y Hy) as [Hne Hy0]. destruct (T6 t0 y Hy0) as [J1 J2 J3 J4 J5 J6 J7 J8 J9 J10 J11]. constructor.
    + exact J1.
    + exact J2.
    + intros i Hu Hn. destruct (J3 i Hu Hn) as (z & Hoz & Hz'). exists z. split; auto. now apply fe_O1.
    + exact J4.
    + exact J5.
    + rewrite (fe_fintasks _ _ _ _ _ E), fe_stored. intros Hin. apply J6. rewrite (fe_q _ _ _ _ _ E). now right.
    + intros i z Hu0 Hi Hz. rewrite (fe_deps t0 Hne). destruct (J7 i z Hu0 Hi Hz) as [(w & Hw1 & Hw2)|Hr]; [left; exists w; split; [now apply fe_U1|auto]|now right].
    + intros d. rewrite (fe_deps t0 Hne). intros Hd. destruct (J8 d Hd) as [H|(w & Hw1 & Hw2)]; [left; now apply fe_curk1|right; exists w; split; auto; now apply fe_O1].
    + intros d. rewrite (fe_deps t0 Hne). apply J9.
    + destruct J10 as (D1 & D2 & D3). rewrite (fe_fintasks _ _ _ _ _ E).
      assert (Hiff : In t0 rest <-> In t0 (is_fintasks s)) by (rewrite (fe_q _ _ _ _ _ E); split; [now right|intros [H|H]; [congruence|auto]]).
      repeat split.
      * intros H. now apply D1, Hiff.
      * intros H. apply D2. intros H'. now apply H, Hiff.
      * intros Hp0 H. apply (D3 Hp0). now apply Hiff.
    + apply N.eqb_neq in Hne. rewrite (fe_fintasks _ _ _ _ _ E). apply N.eqb_neq in Hne. rewrite (fe_res _ _ _ _ _ E t0 Hne). intros Hin. apply J11. rewrite (fe_q _ _ _ _ _ E). now right.
  - destruct T7 as [H|[(k & H)|[H|H]]].
    + left. rewrite (fe_inreq _ _ _ _ _ E). apply in_or_app. now left.
    + right. left. exists k. now rewrite (proj1 (fe_lists _ _ _ _ _ E k)).
    + destruct (N.eq_dec root t) as [->|Hne]; [right; right; right; apply fe_curk_t|].
      right. right. left. unfold is_in_progress in *. rewrite (fe_kind _ _ _ _ _ E). apply N.eqb_neq in Hne. now rewrite Hne.
    + right. right. right. now apply fe_curk1.
Qed.

Lemma fe_idle k : k <> t -> idle s' k -> idle s k.
Proof. intros Hne. unfold idle. rewrite (fe_kind _ _ _ _ _ E). apply N.eqb_neq in Hne. now rewrite Hne. Qed.
Lemma fe_bAt k : k <> t -> bAt s' k = bAt s k.
Proof. intros Hne. unfold bAt. now rewrite (fe_res _ _ _ _ _ E k Hne). Qed.
Lemma fe_ti : task_ok2 s t ti.
Proof. destruct HB as (HT & _). apply (b_task _ _ _ _ _ _ HT t ti (fe_g _ _ _ _ _ E)). Qed.
Lemma fe_infin : In t (is_fintasks s).
Proof. rewrite (fe_q _ _ _ _ _ E). now left. Qed.
Lemma fe_ip k : is_in_progress s k = true -> is_in_progress s' k = true \/ curk s' k.
Proof.
  intros H. destruct (N.eq_dec k t) as [->|Hne]; [right; apply fe_curk_t|left]. unfold is_in_progress in *. rewrite (fe_kind _ _ _ _ _ E). apply N.eqb_neq in Hne. now rewrite Hne.
Qed.

Lemma BC_fin : BC s'.
Proof.
  destruct HB as (HT & [C1 C2 C3 C4 C6 C7] & _).
  destruct (fe_self _ _ _ _ _ E) as (F1 & F2 & F3 & F4 & F5).
  destruct (task_deps_recorded s t ti fe_ti (fe_no _ _ _ _ _ E)) as [Hrec Hdcur].
  constructor.
  - intros k. rewrite (proj2 (proj2 (fe_lists _ _ _ _ _ E k))). apply C1.
  - intros k Hi. destruct (N.eq_dec k t) as [->|Hne].
    + rewrite F2, F3. apply C3.
    + rewrite fe_cAt, (fe_bAt k Hne). apply C2. now apply fe_idle.
  - intros k. rewrite (fe_ep _ _ _ _ _ E), fe_cAt. destruct (N.eq_dec k t) as [->|Hne]; [rewrite F3; split; [lia|apply C3]|rewrite (fe_bAt k Hne); apply C3].
  - intros k. rewrite (fe_ep _ _ _ _ _ E), (fe_kind _ _ _ _ _ E). destruct (N.eqb k t) eqn:E0; [reflexivity|]. apply N.eqb_neq in E0. rewrite (fe_bAt k E0). apply C4.
  - intros k Hi Hb Hnc. assert (Hne : k <> t) by (intros ->; apply Hnc; apply fe_curk_t).
    apply (rowok_step F R s s' k (fe_res _ _ _ _ _ E k Hne)).
    + intros d _ _ _. left. rewrite fe_stored, fe_cAt. split; auto. lia.
    + apply C6; [now apply fe_idle|now rewrite <- (fe_bAt k Hne)|]. intros H. apply Hnc. now apply fe_curk1.
  - intros k Hc. unfold cstruct. cbn zeta. destruct (fe_curk2 k Hc) as [->|Hc0].
    + (* the finished task: everything it asked for is recorded and complete; its discovered dependencies are about to be demanded *)
      assert (Hreq : map (stored s') (r_req (rules t)) = map cvK (r_req (rules t))).
      { apply map_ext_in. intros y Hy. rewrite fe_stored. apply (b_cur _ _ _ _ _ _ HT). apply (Hdcur (mkDep y false false)). apply Hrec. apply in_or_app. now left. }
      rewrite Hreq. change (branch_keys (rules t) (map cvK (r_req (rules t)))) with (bkK t). rewrite fe_deps_t. split; [rewrite F5; apply (k2_fsig _ _ _ _ _ _ _ fe_ti fe_infin)|]. split; [|split].
      * intros y Hy. split; [apply in_or_app; left; now apply Hrec|]. apply fe_curk1. apply (Hdcur (mkDep y false false)). now apply Hrec.
      * intros y Hy. apply in_or_app. right. change (mkDep y false false) with (mkd y). now apply in_map.
      * intros d Hd. apply in_app_or in Hd. destruct Hd as [Hd|Hd].
        -- split; [apply in_or_app; left; apply (k2_dmen _ _ _ _ _ _ _ fe_ti d Hd)|left; now apply fe_curk1, Hdcur].
        -- apply in_map_iff in Hd. destruct Hd as (y & <- & Hy). cbn [mkd d_key]. split; [apply in_or_app; now right|]. right. split; auto. right. now apply fe_dummy.
    + assert (Hne : k <> t) by (intros ->; destruct Hc0 as [Hk _]; rewrite (fe_k _ _ _ _ _ E) in Hk; discriminate).
      destruct (C7 k Hc0) as (S0 & S1 & S2 & S3). unfold cstruct in S0, S1, S2, S3. cbn zeta in S0, S1, S2, S3.
      assert (Hreq : map (stored s') (r_req (rules k)) = map (stored s) (r_req (rules k))) by (apply map_ext; intros; apply fe_stored).
      rewrite Hreq, (fe_deps k Hne), (fe_res _ _ _ _ _ E k Hne). split; [exact S0|]. split; [|split].
      * intros y Hy. destruct (S1 y Hy) as [H1 H2]. split; auto. now apply fe_curk1.
      * exact S2.
      * intros d Hd. destruct (S3 d Hd) as [Hm Hst]. split; auto. destruct Hst as [Hcd|(Hdd & [Hp|Hp])]; [left; now apply fe_curk1| |].
        -- destruct (fe_ip _ Hp) as [H|H]; [right; split; auto|left; exact H].
        -- right. split; auto. right. destruct Hp as (rq & Hu & H1 & H2). exists rq. split; [now apply fe_U1|auto].
Qed.

Lemma BS_fin : sreq_scanning s -> BS x s'.
Proof.
  intros Hss. destruct HB as (HT & HC & [S1 S2 S3 S4]).
  assert (Hsr : forall rq, Sreq s' rq -> Sreq s rq).
  { intros rq [H|[(k & H)|(t0 & z & Hz & H)]].
    - rewrite (fe_toscan _ _ _ _ _ E) in H. apply in_app_or in H. destruct H as [H|H]; [|now left].
      apply in_rev in H. right. right. exists t, ti. split; auto. apply (fe_g _ _ _ _ _ E).
    - right. left. exists k. now rewrite <- (proj1 (proj2 (fe_lists _ _ _ _ _ E k))).
    - rewrite (fe_tasks _ _ _ _ _ E) in Hz. destruct (N.eqb t0 t); [discriminate|]. right. right. eauto. }
  assert (Hne : forall k, kind_of s' k = KScanning \/ kind_of s' k = KDoesNotNeedToRun -> k <> t /\ kind_of s' k = kind_of s k).
  { intros k. rewrite (fe_kind _ _ _ _ _ E). destruct (N.eqb k t) eqn:E0; [intros [H|H]; discriminate|]. apply N.eqb_neq in E0. auto. }
  assert (Hsnt : forall rq, Sreq s' rq -> sq_rule rq <> t).
  { intros rq Hrq Heq. pose proof (Hss rq (Hsr rq Hrq)) as Hks. rewrite Heq, (fe_k _ _ _ _ _ E) in Hks. discriminate. }
  constructor.
  - intros rq Hrq j d Hj. pose proof (Hsnt rq Hrq) as Hnt.
    rewrite (fe_deps _ Hnt), fe_cAt, (fe_bAt _ Hnt). intros Hn. destruct (S1 rq (Hsr rq Hrq) j d Hj Hn) as [Hc Hf]. split; auto. now apply fe_curk1.
  - intros k Hk. destruct (Hne k (or_introl Hk)) as [Hnt Hkk]. rewrite Hkk in Hk. destruct (S2 k Hk) as (B0 & B1 & B2 & B3).
    rewrite (fe_bAt k Hnt), (fe_res _ _ _ _ _ E k Hnt). destruct (fe_lists _ _ _ _ _ E k) as (-> & -> & _). auto.
  - intros k Hk. destruct (Hne k (or_intror Hk)) as [Hnt Hkk]. rewrite Hkk in Hk. destruct (S3 k Hk) as ((v & Hv & Hcv & Hco) & Hd & Hb & Hpe & Hsg0).
    split; [|split; [|split; [|split]]]; [| | | |now rewrite (fe_res _ _ _ _ _ E k Hnt)].
    + exists v. split; [now rewrite fe_stored|]. split; auto. apply (concl_same F R s s' k v (f_equal res_sig (fe_res _ _ _ _ _ E k Hnt)) (fe_deps k Hnt)); auto. intros y _. apply fe_stored.
    + intros d. rewrite (fe_deps k Hnt). intros Hin. now apply fe_curk1, Hd.
    + now rewrite (fe_bAt k Hnt).
    + destruct Hpe as [(rq & H1 & H2)|(rq & H1 & H2)]; [left; exists rq; rewrite (fe_toscan _ _ _ _ _ E); split; auto; apply in_or_app; now right|].
      right. exists rq. rewrite (fe_inreq _ _ _ _ _ E). split; auto. apply in_or_app. now left.
  - intros rq Hrq i d. rewrite (fe_deps _ (Hsnt rq Hrq)). apply (S4 rq (Hsr rq Hrq)).
Qed.
End FinEff.

Lemma BInv_step_fintask root x s : Inv rules ctx0 s -> BInv root x s -> BInv root x (step_fintask s).
Proof.
  intros HI HB. destruct (is_fintasks s) as [|t rest] eqn:Hq; [unfold step_fintask; now rewrite Hq|].
  destruct (step_fintask_eff root x s t rest HI HB Hq) as (ti & E).
  split; [|split]; [eapply BT_fin|eapply BC_fin|eapply BS_fin]; eauto. now apply (Inv_sreq_scanning rules ctx0 s).
Qed.
End Inc.
