(* C06 - the per-task callback protocol of the build engine (include/llbuild/Core/BuildEngine.h, class Task;
   docs/buildengine.rst) as a deterministic automaton.  Definitions only; proofs are in ProtocolProofs.v.

   The alphabet is what ONE task observes, in the order it observes it:
     PStart          Task::start
     PPrior          Task::providePriorValue   ("immediately after the task is started, and prior to any other callback")
     PProvide slot   Task::provideValue for the input id [slot]
     PAvail          Task::inputsAvailable
     PComplete       the task's own call of taskIsComplete
   [req] is the multiset (as a list) of input ids the task requests during start/provideValue; mustFollow keys have no
   callback of their own (BuildEngine.cpp: orderOnly requests skip provideValue) and are checked on the global trace. *)
From Coq Require Import List Arith Bool.
Import ListNotations.

Inductive pevent := PStart | PPrior | PProvide (slot : nat) | PAvail | PComplete.

Inductive pstate :=
| PSInit
| PSStarted (prior_ok : bool) (pending : list nat)   (* prior_ok: nothing was delivered since start *)
| PSComputing                                        (* inputsAvailable delivered *)
| PSFinished.

(* remove one occurrence *)
Fixpoint remove1 (s : nat) (l : list nat) : option (list nat) :=
  match l with
  | [] => None
  | x :: t => if Nat.eqb x s then Some t
              else match remove1 s t with Some t' => Some (x :: t') | None => None end
  end.

Definition proto_step (req : list nat) (st : pstate) (e : pevent) : option pstate :=
  match st with
  | PSInit => match e with PStart => Some (PSStarted true req) | _ => None end
  | PSStarted b p =>
      match e with
      | PPrior => if b then Some (PSStarted false p) else None
      | PProvide s => match remove1 s p with Some p' => Some (PSStarted false p') | None => None end
      | PAvail => match p with [] => Some PSComputing | _ :: _ => None end
      | _ => None
      end
  | PSComputing => match e with PComplete => Some PSFinished | _ => None end
  | PSFinished => None
  end.

Fixpoint proto_run (req : list nat) (st : pstate) (evs : list pevent) : option pstate :=
  match evs with
  | [] => Some st
  | e :: t => match proto_step req st e with Some st' => proto_run req st' t | None => None end
  end.

(* a complete life of a task *)
Definition proto_accepts (req : list nat) (evs : list pevent) : bool :=
  match proto_run req PSInit evs with Some PSFinished => true | _ => false end.

(* what a task may have seen so far (a cancelled build stops tasks anywhere) *)
Definition proto_prefix_ok (req : list nat) (evs : list pevent) : bool :=
  match proto_run req PSInit evs with Some _ => true | None => false end.

(* for the harness: index of the first event the automaton rejects *)
Fixpoint proto_first_reject (req : list nat) (st : pstate) (evs : list pevent) (n : nat) : pstate + nat :=
  match evs with
  | [] => inl st
  | e :: t => match proto_step req st e with Some st' => proto_first_reject req st' t (S n) | None => inr n end
  end.
Definition proto_check (req : list nat) (evs : list pevent) : pstate + nat := proto_first_reject req PSInit evs 0.

Fixpoint count_nat (s : nat) (l : list nat) : nat :=
  match l with [] => 0 | x :: t => (if Nat.eqb x s then 1 else 0) + count_nat s t end.
Definition is_provide (s : nat) (e : pevent) : bool :=
  match e with PProvide s' => Nat.eqb s' s | _ => false end.
Fixpoint count_provide (s : nat) (evs : list pevent) : nat :=
  match evs with [] => 0 | e :: t => (if is_provide s e then 1 else 0) + count_provide s t end.
