(* P19b stage 3b-3, part 1: how the stored results and the database evolve along the steps of a build.  [EV s s']: the database is
   untouched; the result of a rule that is not in progress afterwards was not in progress before and changed at most in its
   builtAt stamp (-> the current epoch) and by dropping its single-use dependencies.  Every step but the retiring of a finished task
   is such an evolution (compositional proof, following ImplProofsMono.v). *)
From LLB Require Import Engine.Rules Engine.Spec Engine.Impl Engine.ImplProofs Engine.ImplProofsSticky Engine.ImplProofsInv Engine.ImplProofsInv3
  Engine.ImplProofsInv4 Engine.ImplProofsInv6.
From Coq Require Import Arith Lia.
Local Open Scope N_scope.

Definition ipk (kd : kind) : bool := match kd with KWaiting | KComputing => true | _ => false end.
Lemma ipk_in_progress s k : is_in_progress s k = ipk (kind_of s k). Proof. reflexivity. Qed.

Definition evres (ep : N) (m m' : result) : Prop :=
  res_value m' = res_value m /\ res_sig m' = res_sig m /\ res_computedAt m' = res_computedAt m /\
  (res_builtAt m' = res_builtAt m \/ res_builtAt m' = ep) /\ (res_deps m' = res_deps m \/ res_deps m' = drop_single (res_deps m)).
Definition evri (ep : N) (ri ri' : rinfo) : Prop := ipk (ri_kind ri') = true \/ (ipk (ri_kind ri) = false /\ evres ep (ri_res ri) (ri_res ri')).
Definition EV (s s' : istate) : Prop :=
  nf s' -> nf s /\ is_db s' = is_db s /\ is_usedb s' = is_usedb s /\ is_epoch s' = is_epoch s /\
           forall k, evri (is_epoch s) (rinfo_of s k) (rinfo_of s' k).

Lemma drop_single_idem l : drop_single (drop_single l) = drop_single l.
Proof. unfold drop_single. induction l as [|d l IH]; cbn [filter]; auto. destruct (negb (d_single d)) eqn:E; cbn [filter]; [rewrite E; now f_equal|exact IH]. Qed.

Lemma evres_refl ep m : evres ep m m. Proof. unfold evres. auto 8. Qed.
Lemma evres_trans ep a b c : evres ep a b -> evres ep b c -> evres ep a c.
Proof.
  intros (A1 & A2 & A3 & A4 & A5) (B1 & B2 & B3 & B4 & B5). unfold evres. repeat split; try congruence.
  - destruct B4 as [->|B4]; auto.
  - destruct B5 as [->|B5]; auto. rewrite B5. destruct A5 as [->| ->]; auto. right. apply drop_single_idem.
Qed.
Lemma evri_refl ep ri : evri ep ri ri.
Proof. unfold evri. destruct (ipk (ri_kind ri)) eqn:E; auto. right. split; auto. apply evres_refl. Qed.
Lemma evri_trans ep a b c : evri ep a b -> evri ep b c -> evri ep a c.
Proof.
  intros H1 [H2|(H2 & H3)]; [now left|]. destruct H1 as [H1|(H1 & H1')]; [congruence|]. right. split; auto. eapply evres_trans; eauto.
Qed.

Lemma EV_refl s : EV s s.
Proof. intros H. repeat split; auto. intros k. apply evri_refl. Qed.
Lemma EV_trans s1 s2 s3 : EV s1 s2 -> EV s2 s3 -> EV s1 s3.
Proof.
  intros H12 H23 H3. destruct (H23 H3) as (H2 & D2 & U2 & E2 & R2). destruct (H12 H2) as (H1 & D1 & U1 & E1 & R1).
  repeat split; try congruence. intros k. eapply evri_trans; [apply R1|]. rewrite <- E1. apply R2.
Qed.
Lemma EV_frame s s' : (nf s' -> nf s) -> is_db s' = is_db s -> is_usedb s' = is_usedb s -> is_epoch s' = is_epoch s ->
  (forall k, rinfo_of s' k = rinfo_of s k) -> EV s s'.
Proof. intros Hn Hd Hu He Hr H. repeat split; auto. intros k. rewrite Hr. apply evri_refl. Qed.
Lemma EV_fault s c : EV s (fault s c).
Proof. intros H. now apply nf_fault in H. Qed.
Lemma EV_check s b c : EV s (check s b c).
Proof. destruct b; [apply EV_refl|apply EV_fault]. Qed.

Ltac evframe := apply EV_frame; [intros Hf; unfold nf in *; now autorewrite with iv in Hf | now autorewrite with iv | now autorewrite with iv | now autorewrite with iv | intros; now autorewrite with iv].

Lemma EV_iemit s e : EV s (iemit s e). Proof. evframe. Qed.
Lemma EV_touch s k : EV s (touch s k). Proof. evframe. Qed.
Lemma EV_set_ti s t ti : EV s (set_ti s t ti). Proof. evframe. Qed.
Lemma EV_push_inreq s rq : EV s (push_inreq s rq). Proof. evframe. Qed.
Lemma EV_upd_toscan s m : EV s (upd_toscan s m). Proof. evframe. Qed.
Lemma EV_upd_inreq s m : EV s (upd_inreq s m). Proof. evframe. Qed.
Lemma EV_upd_fininreq s m : EV s (upd_fininreq s m). Proof. evframe. Qed.
Lemma EV_upd_ready s m : EV s (upd_ready s m). Proof. evframe. Qed.
Lemma EV_upd_fintasks s m : EV s (upd_fintasks s m). Proof. evframe. Qed.
Lemma EV_upd_outstanding s m : EV s (upd_outstanding s m). Proof. evframe. Qed.
Lemma EV_mod_ti s t f : EV s (mod_ti s t f).
Proof. unfold mod_ti. destruct (aget (is_tasks s) t); [apply EV_set_ti|apply EV_fault]. Qed.

Lemma EV_mod_ri s k f : evri (is_epoch s) (rinfo_of s k) (f (rinfo_of s k)) -> EV s (mod_ri s k f).
Proof.
  intros Hk H. split; [now apply nf_mod_ri in H|]. repeat split; try (now autorewrite with iv).
  intros k'. rewrite rinfo_of_mod_ri. destruct (N.eqb k' k) eqn:E; [apply N.eqb_eq in E; now subst|apply evri_refl].
Qed.
(* updates that keep the state kind and the stored result *)
Lemma EV_mod_ri_keep s k f : (forall ri, ri_kind (f ri) = ri_kind ri /\ ri_res (f ri) = ri_res ri) -> EV s (mod_ri s k f).
Proof.
  intros Hf. apply EV_mod_ri. destruct (Hf (rinfo_of s k)) as [Hk Hr]. unfold evri. rewrite Hk, Hr.
  destruct (ipk (ri_kind (rinfo_of s k))); auto. right. split; auto. apply evres_refl.
Qed.
Lemma EV_mod_ri_ip s k f : ipk (ri_kind (f (rinfo_of s k))) = true -> EV s (mod_ri s k f).
Proof. intros H. apply EV_mod_ri. now left. Qed.
Lemma EV_mod_ri_idle s k f : ipk (kind_of s k) = false -> evres (is_epoch s) (res_of s k) (ri_res (f (rinfo_of s k))) -> EV s (mod_ri s k f).
Proof. intros H1 H2. apply EV_mod_ri. right. split; auto. Qed.

Ltac evstep L := eapply EV_trans; [|apply L].

Lemma EV_add_request s t inp slot o sg : EV s (add_request s t inp slot o sg).
Proof.
  unfold add_request. destruct (aget (is_tasks s) t); [|apply EV_fault].
  destruct (negb _); [apply EV_fault|]. evstep EV_mod_ti. evstep EV_push_inreq. apply EV_touch.
Qed.
Lemma EV_add_reqs ks : forall s t slot sg, EV s (add_reqs s t ks slot sg).
Proof. induction ks as [|x ks IH]; intros; cbn [add_reqs]; [apply EV_refl|]. eapply EV_trans; [apply EV_add_request|apply IH]. Qed.
Lemma EV_add_follows ks : forall s t, EV s (add_follows s t ks).
Proof. induction ks as [|x ks IH]; intros; cbn [add_follows]; [apply EV_refl|]. eapply EV_trans; [apply EV_add_request|apply IH]. Qed.
Lemma EV_start_group rules s t c : EV s (start_group rules s t c).
Proof. unfold start_group. destruct c; [apply EV_add_reqs|apply EV_add_reqs|apply EV_add_follows]. Qed.
Lemma EV_fold {A} (f : istate -> A -> istate) (Hf : forall s a, EV s (f s a)) l : forall s, EV s (fold_left f l s).
Proof. induction l as [|a l IH]; intros s; cbn [fold_left]; [apply EV_refl|]. eapply EV_trans; [apply Hf|apply IH]. Qed.
Lemma EV_task_start rules ord s t : EV s (task_start rules ord s t).
Proof.
  unfold task_start. cbn zeta. eapply EV_trans; [|apply EV_fold; intros; apply EV_start_group].
  evstep EV_mod_ti. apply EV_iemit.
Qed.
Lemma EV_branch_reqs ks : forall s t, EV s (branch_reqs s t ks).
Proof.
  induction ks as [|x ks IH]; intros; cbn [branch_reqs]; [apply EV_refl|].
  destruct (aget _ _); [|apply EV_fault]. eapply EV_trans; [|apply IH]. evstep EV_add_request. apply EV_set_ti.
Qed.
Lemma EV_provide_value rules s t slot inp v : EV s (provide_value rules s t slot inp v).
Proof.
  unfold provide_value. cbn zeta. apply EV_trans with (iemit s (EProvide t slot inp v)); [apply EV_iemit|].
  destruct (aget _ _) as [ti|]; [|apply EV_fault].
  destruct (branch_fire _ _ _ _ _); [|apply EV_set_ti]. evstep EV_branch_reqs. apply EV_set_ti.
Qed.
Lemma EV_discovered s t d : EV s (discovered s t d).
Proof. unfold discovered. destruct (aget _ _); [|apply EV_fault]. destruct (negb _); [apply EV_fault|apply EV_mod_ti]. Qed.

Lemma EV_task_is_complete rules s t v : EV s (task_is_complete rules s t v).
Proof.
  unfold task_is_complete. destruct (kind_eqb (kind_of s t) KComputing) eqn:E; cbn [negb]; [|apply EV_fault]. cbn zeta. evstep EV_upd_fintasks.
  apply EV_mod_ri_ip. apply kind_eqb_eq in E. unfold kind_of in E. cbn [ri_with_res ri_kind]. now rewrite E.
Qed.
Lemma EV_task_finish rules s t : EV s (task_finish rules s t).
Proof.
  unfold task_finish. destruct (aget _ _) as [ti|]; [|apply EV_refl]. destruct (ti_pending ti); [|apply EV_refl]. cbn zeta.
  evstep EV_task_is_complete. eapply EV_trans; [|apply EV_iemit].
  eapply EV_trans; [|apply EV_fold; intros; apply EV_discovered]. apply EV_set_ti.
Qed.
Lemma EV_avail_body rules env F syncp s t : EV s (avail_body rules env F syncp s t).
Proof.
  unfold avail_body. destruct (aget _ _); [|apply EV_fault]. cbn zeta.
  destruct (syncp t); [evstep EV_task_finish|]; apply EV_set_ti.
Qed.

Lemma unscanned_ipk s k : is_scanned s k = false -> kind_eqb (kind_of s k) KScanning = false -> ipk (kind_of s k) = false.
Proof. unfold is_scanned. intros H1 H2. destruct (kind_of s k); try discriminate; reflexivity. Qed.

Lemma EV_set_kind_idle s k kd : ipk (kind_of s k) = false -> EV s (set_kind s k kd).
Proof. intros H. apply EV_mod_ri_idle; auto. apply evres_refl. Qed.
Lemma EV_need s k r i : ipk (kind_of s k) = false -> EV s (need s k r i).
Proof. intros H. unfold need. eapply EV_trans; [|apply EV_iemit]. now apply EV_set_kind_idle. Qed.

Lemma EV_scan_rule rules env s k : EV s (snd (scan_rule rules env s k)).
Proof.
  unfold scan_rule. destruct (is_scanned s k) eqn:E1; [apply EV_refl|]. destruct (kind_eqb _ _) eqn:E2; [apply EV_refl|]. cbn zeta.
  pose proof (unscanned_ipk s k E1 E2) as H0.
  set (s0 := mod_ri s k ri_clean_single).
  assert (H1 : ipk (kind_of s0 k) = false) by (unfold s0, kind_of; rewrite rinfo_of_mod_ri, N.eqb_refl; exact H0).
  assert (Hc : EV s s0).
  { apply EV_mod_ri_idle; auto. unfold evres. cbn. repeat split; auto. }
  destruct (N.eqb _ 0); [cbn [snd]; evstep EV_need; [exact Hc|exact H1]|].
  destruct (ri_cancelled _); [cbn [snd]; evstep EV_need; [exact Hc|exact H1]|].
  destruct (negb (N.eqb _ _)); [cbn [snd]; evstep EV_need; [exact Hc|exact H1]|].
  destruct (negb (valid _ _ _ _)).
  { cbn [snd]. evstep EV_need; [|exact H1]. eapply EV_trans; [exact Hc|apply EV_iemit]. }
  destruct (res_deps _); cbn [snd].
  - eapply EV_trans; [exact Hc|]. apply EV_trans with (iemit s0 (EValid k true)); [apply EV_iemit|]. now apply EV_set_kind_idle.
  - evstep EV_upd_toscan. eapply EV_trans; [exact Hc|]. apply EV_trans with (iemit s0 (EValid k true)); [apply EV_iemit|].
    apply EV_mod_ri_idle; [exact H1|apply evres_refl].
Qed.

Lemma EV_begin_task s k : EV s (begin_task s k).
Proof. unfold begin_task. eapply EV_trans; [|apply EV_mod_ri_ip; reflexivity]. evstep EV_set_ti. apply EV_iemit. Qed.
Lemma EV_prior_value rules s k : EV s (prior_value rules s k).
Proof. unfold prior_value. cbn zeta. destruct (_ && _); [apply EV_iemit|apply EV_refl]. Qed.
Lemma EV_ready_if_nowait s k : EV s (ready_if_nowait s k).
Proof. unfold ready_if_nowait. destruct (aget _ _); [|apply EV_fault]. destruct (Nat.eqb _ _); [apply EV_upd_ready|apply EV_refl]. Qed.
Lemma EV_create_task rules ord s k : EV s (create_task rules ord s k).
Proof.
  unfold create_task. cbn zeta. evstep EV_ready_if_nowait. evstep EV_prior_value. evstep EV_task_start. evstep EV_begin_task. apply EV_check.
Qed.
Lemma EV_set_complete_idle s k : ipk (kind_of s k) = false -> EV s (set_complete s k).
Proof. intros H. unfold set_complete. apply EV_mod_ri_idle; auto. unfold evres. cbn. repeat split; auto. Qed.
Lemma EV_demand_rule rules ord s k : EV s (snd (demand_rule rules ord s k)).
Proof.
  unfold demand_rule. destruct (is_complete s k); [apply EV_refl|]. destruct (is_in_progress s k); [apply EV_refl|].
  destruct (kind_eqb _ _) eqn:E; cbn [snd]; [|apply EV_create_task]. apply EV_set_complete_idle. apply kind_eqb_eq in E. now rewrite E.
Qed.

Lemma EV_finish_scan s k kd : EV s (finish_scan s k kd).
Proof.
  unfold finish_scan. cbn zeta. destruct (kind_eqb (kind_of s k) KScanning) eqn:E.
  - cbn [check]. unfold wake_scan_record. eapply EV_trans; [|apply EV_mod_ri_idle].
    + evstep EV_upd_inreq. apply EV_upd_toscan.
    + apply kind_eqb_eq in E. unfold kind_of in *. autorewrite with iv. now rewrite E.
    + apply evres_refl.
  - intros H. exfalso. apply nf_mod_ri in H. unfold wake_scan_record, nf in H. autorewrite with iv in H.
    cbn [check] in H. fold (nf (fault s FNotScanning)) in H. now apply nf_fault in H.
Qed.
Lemma EV_defer_on_rule s inp rq : EV s (defer_on_rule s inp rq).
Proof. unfold defer_on_rule. eapply EV_trans; [apply EV_check|]. now apply EV_mod_ri_keep. Qed.
Lemma EV_pause_on_rule s inp rq : EV s (pause_on_rule s inp rq).
Proof. unfold pause_on_rule. eapply EV_trans; [apply EV_check|]. now apply EV_mod_ri_keep. Qed.
Lemma EV_defer_on_task s inp rq : EV s (defer_on_task s inp rq).
Proof. apply EV_mod_ti. Qed.

Lemma EV_scan_inputs rules env ord ds : forall s rq, EV s (scan_inputs rules env ord s rq ds).
Proof.
  induction ds as [|d ds IH]; intros s rq; cbn [scan_inputs]; [apply EV_fault|]. cbn zeta.
  pose proof (EV_scan_rule rules env (touch s (request_input rq d)) (request_input rq d)) as H1.
  destruct (scan_rule rules env (touch s (request_input rq d)) (request_input rq d)) as [b1 s1]. cbn [snd] in H1.
  assert (H1' : EV s s1) by (eapply EV_trans; [apply EV_touch|exact H1]).
  destruct b1; [|eapply EV_trans; [exact H1'|apply EV_defer_on_rule]].
  pose proof (EV_demand_rule rules ord s1 (request_input rq d)) as H2.
  destruct (demand_rule rules ord s1 (request_input rq d)) as [b2 s2]. cbn [snd] in H2.
  assert (H2' : EV s s2) by (eapply EV_trans; eauto).
  destruct b2; [|eapply EV_trans; [exact H2'|apply EV_defer_on_task]].
  destruct (_ && _).
  - eapply EV_trans; [exact H2'|]. eapply EV_trans; [apply EV_finish_scan|apply EV_iemit].
  - destruct ds; (eapply EV_trans; [exact H2'|]); [apply EV_finish_scan|apply IH].
Qed.
Lemma EV_step_scan rules env ord s : EV s (step_scan rules env ord s).
Proof.
  unfold step_scan. destruct (is_toscan s); [apply EV_refl|]. unfold process_scan_request.
  destruct (negb _); [apply EV_upd_toscan|]. evstep EV_scan_inputs. apply EV_upd_toscan.
Qed.

(* the requesting task's rule records the dependency: that rule is in progress *)
Lemma EV_route_request s t rq avail : is_in_progress s t = true -> EV s (route_request s t rq avail).
Proof.
  intros Hip. unfold route_request. cbn zeta. destruct avail; [evstep EV_upd_fininreq|evstep EV_mod_ti]; apply EV_mod_ri_ip; exact Hip.
Qed.

Lemma EV_step_inreq rules env ord s : Inv rules ctx0 s -> EV s (step_inreq rules env ord s).
Proof.
  intros HI. unfold step_inreq. destruct (is_inreq s) as [|rq rest] eqn:Hq; [apply EV_refl|].
  set (s0 := upd_inreq s rest). set (c := cx_set_fi ctx0 [rq]).
  assert (HI0 : Inv rules c s0) by (apply (Inv_pop_inreq rules ctx0 s rq rest Hq HI)).
  apply EV_trans with s0; [apply EV_upd_inreq|]. unfold process_input_request.
  pose proof (EV_scan_rule rules env s0 (iq_input rq)) as H1.
  destruct (scan_rule rules env s0 (iq_input rq)) as [b1 s1] eqn:E1. cbn [snd] in H1.
  destruct (scan_rule_post rules env c _ _ _ _ E1 HI0) as (HI1 & _ & Hf1 & Ht1).
  destruct b1; [|eapply EV_trans; [exact H1|apply EV_pause_on_rule]].
  pose proof (EV_demand_rule rules ord s1 (iq_input rq)) as H2.
  destruct (demand_rule rules ord s1 (iq_input rq)) as [b2 s2] eqn:E2. cbn [snd] in H2.
  destruct (demand_rule_post rules ord c _ _ _ _ E2 HI1 eq_refl (Ht1 eq_refl)) as (HI2 & _ & _ & _).
  assert (H2' : EV s0 s2) by (eapply EV_trans; eauto).
  destruct (iq_task rq) as [t|] eqn:Et; auto. eapply EV_trans; [exact H2'|apply EV_route_request].
  destruct (Inv_head_fi_ok rules c s2 rq [] eq_refl HI2 t Et) as [Hext _]. apply (t_tk c s2 (proj1 (proj2 HI2))). exact Hext.
Qed.

Lemma EV_decrement_wait s t : EV s (decrement_wait s t).
Proof.
  unfold decrement_wait. destruct (aget _ _) as [ti|]; [|apply EV_fault]. destruct (ti_wait ti); [apply EV_fault|]. cbn zeta.
  destruct (Nat.eqb _ _); [evstep EV_upd_ready|]; apply EV_set_ti.
Qed.
Lemma EV_step_fininreq rules s : EV s (step_fininreq rules s).
Proof.
  unfold step_fininreq. destruct (is_fininreq s); [apply EV_refl|]. unfold deliver. destruct (iq_task _); [|evstep EV_fault; apply EV_upd_fininreq]. cbn zeta.
  evstep EV_decrement_wait. destruct (iq_order _); [apply EV_upd_fininreq|]. evstep EV_provide_value. apply EV_upd_fininreq.
Qed.
Lemma EV_step_ready rules env F syncp s : EV s (step_ready rules env F syncp s).
Proof.
  unfold step_ready. destruct (is_ready s) as [|t rest]; [apply EV_refl|]. unfold run_ready. cbn zeta. evstep EV_upd_outstanding.
  unfold inputs_available. evstep EV_avail_body. evstep EV_iemit. unfold set_kind. eapply EV_trans; [|apply EV_mod_ri_ip; reflexivity].
  evstep EV_check. apply EV_upd_ready.
Qed.

Section Steps.
Variable rules : key -> rule.
Variable env : key -> N.
Variable F : key -> N -> list value -> list N -> N -> N.
Variable ord : key -> list rkind.
Variable syncp : key -> bool.
(* every step but the retiring of a finished task *)
Lemma EV_mstep s s' : Inv rules ctx0 s -> mstep rules env F ord syncp s s' -> s' = step_fintask s \/ EV s s'.
Proof.
  intros HI H. destruct H; [right; apply EV_task_finish|right; apply EV_step_scan|right; now apply EV_step_inreq|right; apply EV_step_fininreq|right; apply EV_step_ready|now left].
Qed.
End Steps.
