(* P19b - values, part 6: the value invariant holds in every state of a first build; the values a first build stores are the clean
   values, for every schedule. *)
From LLB Require Import Engine.Rules Engine.Spec Engine.SpecInv1 Engine.Impl Engine.ImplProofs Engine.ImplProofsSticky Engine.ImplProofsLoop Engine.ImplProofsInv
  Engine.ImplProofsInv9 Engine.ImplProofsStall Engine.ImplProofsRun Engine.ImplVal1 Engine.ImplVal2 Engine.ImplVal3 Engine.ImplVal4 Engine.ImplVal5.
From Coq Require Import Arith Lia.
Local Open Scope N_scope.

(* an engine that has never built anything (no stored result, no database) *)
Definition fresh (s : istate) : Prop :=
  quiescent s /\ is_usedb s = false /\ forall k, kind_of s k <> KComplete /\ kind_of s k <> KDoesNotNeedToRun /\ res_builtAt (res_of s k) = 0.

Lemma fresh_init : fresh init_istate.
Proof.
  split; [|split; [reflexivity|]].
  - unfold quiescent. cbn. repeat split; auto; try constructor; discriminate.
  - intros k. cbn. repeat split; discriminate.
Qed.

Section Val.
Variable rules : key -> rule.
Variable env : key -> N.
Variable ord : key -> list rkind.
Variable F : key -> N -> list value -> list N -> N -> N.
Variable rank : key -> nat.
Variable syncp : key -> bool.
Hypothesis Hrank : wf_rank rules rank.
Hypothesis Hord : forall k, In RReq (ord k).
Notation VInv := (VInv rules env F rank).
Notation in_build := (in_build rules env F ord syncp).

Lemma VInv_start s0 root : fresh s0 -> VInv root (start_build (iemit (bump s0) (EBuildStart root)) root).
Proof.
  intros ((Q1 & Q2 & Q3 & Q4 & Q5 & Q6 & Q7 & Q8 & Q9) & Hu & Hf).
  set (st := start_build _ root).
  assert (HR : forall k, rinfo_of st k = rinfo_of s0 k) by (intros k; unfold st, start_build; now autorewrite with iv).
  assert (HK : forall k, kind_of st k = kind_of s0 k) by (intros; unfold kind_of; now rewrite HR).
  assert (HT : is_tasks st = []) by (unfold st, start_build; autorewrite with iv; exact Q1).
  assert (HI : is_inreq st = [dummy_root root]) by (unfold st, start_build; autorewrite with iv; cbn [bump is_inreq]; rewrite Q3; reflexivity).
  assert (HF : is_fininreq st = []) by (unfold st, start_build; now autorewrite with iv).
  constructor.
  - unfold st, start_build. autorewrite with iv. exact Q2.
  - unfold st, start_build. autorewrite with iv. exact Hu.
  - intros k. rewrite HK. split; [apply Q9|apply Hf].
  - intros k _. unfold res_of. rewrite HR. apply Hf.
  - intros k. rewrite HK. intros H. exfalso. destruct (Hf k) as (Hc & _). contradiction.
  - intros rq [H|[(t0 & y & Hy & _)|H]].
    + rewrite HI in H. destruct H as [<-|[]]. intros t Ht. discriminate.
    + unfold task_of in Hy. rewrite HT in Hy. discriminate.
    + rewrite HF in H. destruct H.
  - intros rq. rewrite HF. intros [].
  - intros t ti. unfold task_of. rewrite HT. discriminate.
  - left. rewrite HI. now left.
  - unfold st, start_build. autorewrite with iv. cbn [bump is_epoch]. lia.
Qed.

Lemma VInv_mstep root s s' : Inv rules ctx0 s -> VInv root s -> mstep rules env F ord syncp s s' -> nf s' -> VInv root s'.
Proof.
  intros HI HV H Hn. destruct H.
  - now apply VInv_task_finish.
  - unfold step_scan. now rewrite (v_ts _ _ _ _ _ _ HV).
  - now apply VInv_step_inreq.
  - now apply VInv_step_fininreq.
  - now apply VInv_step_ready.
  - now apply VInv_step_fintask.
Qed.

Lemma VInv_in_build s0 root s : fresh s0 -> in_build s0 root s -> VInv root s.
Proof.
  intros Hf [Q M]. pose proof (Inv_start rules s0 root Q) as HI0. pose proof (VInv_start s0 root Hf) as HV0.
  induction M as [|s s' s'' M IH Hs]; auto.
  pose proof (Inv_msteps rules env F ord syncp _ _ M HI0) as HI.
  apply (VInv_mstep root s' s''); auto. exact (proj1 (Inv_mstep rules env F ord syncp _ _ Hs HI)).
Qed.
End Val.

Section Run.
Variable rules : key -> rule.
Variable env : key -> N.
Variable ord : key -> list rkind.
Variable F : key -> N -> list value -> list N -> N -> N.
Variable rank : key -> nat.
Variable syncp : key -> bool.
Hypothesis Hrank : wf_rank rules rank.
Hypothesis Hord : forall k, In RReq (ord k).
Notation in_build := (in_build rules env F ord syncp).

(* the state in which executeTasks returns true is a state of the build, with no task left and nothing queued *)
Lemma run_loop_final fuel pfuel root s0 : forall s sched marks sf m,
  in_build s0 root s -> run_loop_gen rules env F ord syncp stall_test fuel pfuel root s sched marks = (RDone sf, m) -> nf sf ->
  in_build s0 root sf /\ is_tasks sf = [] /\ is_inreq sf = [].
Proof.
  induction fuel as [|f IH]; intros s sched marks sf m Hb Hrun Hn; cbn [run_loop_gen] in Hrun; [discriminate|].
  destruct (loop_iteration_gen rules env F ord syncp stall_test pfuel s _) as [s' st] eqn:Hit.
  destruct st.
  - assert (Hn' : nf s') by (eapply run_loop_sticky; eauto).
    eapply IH; [|exact Hrun|exact Hn]. eapply in_build_iteration; eauto.
  - destruct (_ && _); [discriminate|].
    assert (Hn'' : nf (fold_left (task_finish rules) (match sched with [] => [] | c :: _ => snd c end) s')) by (eapply run_loop_sticky; eauto).
    eapply IH; [|exact Hrun|exact Hn]. apply in_build_finish_all. eapply in_build_iteration; eauto. now apply sticky_finish_all in Hn''.
  - discriminate.
  - inversion Hrun. subst sf m. split; [eapply in_build_iteration; eauto|].
    destruct (loop_iteration_no_work _ _ _ _ _ _ _ _ _ _ _ Hit) as (_ & _ & Q2 & _ & _ & _ & _ & _ & Hst); [discriminate|].
    destruct (Hst eq_refl) as [_ Hns]. unfold stall_test in Hns. apply Bool.orb_false_iff in Hns. destruct Hns as [Hnt _].
    split; [now apply nonnil_false|exact Q2].
Qed.

(* Stage 1: a first build that returns a value (no failed assert) has stored the clean value for the requested key and for every
   key it completed - whatever the schedule *)
Theorem first_build_values fuel pfuel cfuel s0 root sched sf m : fresh s0 ->
  ibuild rules env F ord syncp fuel pfuel s0 root sched = (RDone sf, m) -> is_fault sf = None ->
  ((rank root < cfuel)%nat -> kind_of sf root = KComplete /\ res_value (res_of sf root) = cv rules env F cfuel root) /\
  forall k, kind_of sf k = KComplete -> (rank k < cfuel)%nat -> res_value (res_of sf k) = cv rules env F cfuel k.
Proof.
  intros Hf Hrun Hn. unfold ibuild, ibuild_gen in Hrun. cbn zeta in Hrun.
  destruct (run_build_gen rules env F ord syncp stall_test fuel pfuel root (iemit (bump s0) (EBuildStart root)) sched) as [r mm] eqn:Hr.
  destruct r; inversion Hrun. subst sf m. clear Hrun.
  assert (Hn' : nf s) by (unfold nf in *; now autorewrite with iv in Hn).
  unfold run_build_gen in Hr.
  destruct (run_loop_final fuel pfuel root s0 _ sched [] s mm (conj (proj1 Hf) (mss_refl _ _ _ _ _ _)) Hr Hn') as (Hb & Ht & Hi).
  pose proof (VInv_in_build rules env ord F rank syncp Hrank Hord s0 root s Hf Hb) as HV.
  pose proof (in_build_Inv rules env F ord syncp s0 root s Hb) as (_ & HT & _).
  assert (Hall : forall k, kind_of s k = KComplete -> (rank k < cfuel)%nat -> res_value (res_of s k) = cv rules env F cfuel k).
  { intros k Hk Hlt. destruct (v_complete _ _ _ _ _ _ HV k Hk) as [_ Hv]. rewrite Hv. unfold cvK. symmetry. now apply (cv_cvk rules env F rank Hrank). }
  split.
  - intros Hlt.
    assert (Hc : kind_of s root = KComplete).
    { destruct (v_root _ _ _ _ _ _ HV) as [H|[H|H]]; auto.
      - rewrite Hi in H. destruct H.
      - apply (t_tk ctx0 s HT) in H. rewrite Ht in H. now contradiction H. }
    split; [exact Hc|]. now apply Hall.
  - exact Hall.
Qed.
End Run.
