(* Proofs about the findCycle model (Engine/FindCycle.v), for ALL finite graphs (edge lists over N), roots and key orders.
   Method: a recursive reference search `dfs` (explore the predecessors of a node in sorted order, stop at the first
   node that is already on the current path) is shown to be what the explicit-stack loop computes (`fc_loop_dfs`,
   with the exact number of iterations), and soundness / completeness / termination are proved on `dfs`. *)
From Coq Require Import List NArith Arith Bool Lia Permutation DecimalN.
Import ListNotations.
From LLB Require Import Engine.FindCycle.

(* ---------- sets of keys ---------- *)

Lemma mem_key_true x s : mem_key x s = true <-> In x s.
Proof.
  unfold mem_key. rewrite existsb_exists. split.
  - intros [y [Hy He]]. apply N.eqb_eq in He. subst y. exact Hy.
  - intros H. exists x. split; [exact H | apply N.eqb_refl].
Qed.

Lemma mem_key_false x s : mem_key x s = false <-> ~ In x s.
Proof.
  rewrite <- mem_key_true. destruct (mem_key x s).
  - split; [discriminate | intros H; exfalso; apply H; reflexivity].
  - split; [intros _; discriminate | reflexivity].
Qed.

Lemma set_erase_notin x s : ~ In x s -> set_erase x s = s.
Proof.
  unfold set_erase. induction s as [|y s IH]; intros H; cbn; [reflexivity|].
  destruct (N.eqb y x) eqn:E.
  - apply N.eqb_eq in E. subst y. exfalso. apply H. left. reflexivity.
  - cbn. rewrite IH; [reflexivity|]. intros Hi. apply H. right. exact Hi.
Qed.

Lemma set_erase_fresh x s : ~ In x s -> set_erase x (x :: s) = s.
Proof.
  intros H. cbn. rewrite N.eqb_refl. cbn. apply set_erase_notin. exact H.
Qed.

Lemma filter_length_bound {A} (f : A -> bool) (l : list A) : length (filter f l) <= length l.
Proof.
  induction l as [|a l IH]; cbn; [lia|]. destruct (f a); cbn; lia.
Qed.

(* ---------- the reference search ---------- *)

(* iterations of the loop spent on the children from the current one on *)
Fixpoint children_steps (f : key -> dres) (s : key -> nat) (ps : list key) : nat :=
  match ps with
  | [] => 0
  | p :: t => match f p with
              | DExhausted => s p + 1 + children_steps f s t
              | _ => s p
              end
  end.

Section Proofs.
  Variable klt : key -> key -> bool.
  Variable g : graph.

  Notation preds := (preds klt g).

  Notation dep := (FindCycle.dep g).
  Notation chain := (FindCycle.chain g).

  Notation dfs := (FindCycle.dfs klt g).

  Fixpoint dfs_steps (k : nat) (x : key) (items : list key) : nat :=
    if mem_key x items then 1
    else match k with
         | O => 0
         | S k' => 1 + children_steps (fun p => dfs k' p (x :: items)) (fun p => dfs_steps k' p (x :: items)) (preds x)
         end.

  (* ---------- sorting keeps the elements ---------- *)

  Lemma insert_key_In x l y : In y (insert_key klt x l) <-> y = x \/ In y l.
  Proof.
    induction l as [|z l IH]; cbn.
    - split; [intros [H|[]]; left; symmetry; exact H | intros [H|[]]; left; symmetry; exact H].
    - destruct (klt x z) eqn:E; cbn.
      + split; [intros [H|H]; [left; symmetry; exact H | right; exact H] | intros [H|H]; [left; symmetry; exact H | right; exact H]].
      + rewrite IH. split.
        * intros [H|[H|H]]; [right; left; exact H | left; exact H | right; right; exact H].
        * intros [H|[H|H]]; [right; left; exact H | left; exact H | right; right; exact H].
  Qed.

  Lemma sort_keys_In l y : In y (sort_keys klt l) <-> In y l.
  Proof.
    induction l as [|z l IH]; cbn; [reflexivity|].
    rewrite insert_key_In, IH. split; intros [H|H]; [left; symmetry; exact H | right; exact H | left; symmetry; exact H | right; exact H].
  Qed.

  Lemma insert_key_length x l : length (insert_key klt x l) = S (length l).
  Proof.
    induction l as [|z l IH]; cbn; [reflexivity|].
    destruct (klt x z); cbn; [reflexivity | rewrite IH; reflexivity].
  Qed.

  Lemma sort_keys_length l : length (sort_keys klt l) = length l.
  Proof.
    induction l as [|z l IH]; cbn; [reflexivity|]. rewrite insert_key_length, IH. reflexivity.
  Qed.

  Lemma preds_unsorted_In x y : In y (preds_unsorted g x) <-> dep x y.
  Proof.
    unfold preds_unsorted, FindCycle.dep. rewrite in_map_iff. split.
    - intros [[a b] [Hf Hi]]. apply filter_In in Hi. destruct Hi as [Hi He]. cbn in *. apply N.eqb_eq in He. subst. exact Hi.
    - intros H. exists (y, x). split; [reflexivity|]. apply filter_In. split; [exact H | cbn; apply N.eqb_refl].
  Qed.

  Lemma preds_In x y : In y (preds x) <-> dep x y.
  Proof. unfold FindCycle.preds. rewrite sort_keys_In. apply preds_unsorted_In. Qed.

  Lemma preds_length x : length (preds x) <= length g.
  Proof.
    unfold FindCycle.preds, preds_unsorted. rewrite sort_keys_length, map_length. apply filter_length_bound.
  Qed.

  (* ---------- one iteration of the loop ---------- *)

  (* the second half of an iteration: visit the next predecessor or pop *)
  Definition advance (f : nat) (x : key) (i : nat) (rest : list work_item) (cl its : list key) : fc_result :=
    if negb (Nat.eqb i (length (preds x))) then
      fc_loop klt g f ((nth i (preds x) 0%N, O) :: (x, S i) :: rest) cl its
    else fc_loop klt g f rest (tl cl) (set_erase x its).

  Lemma loop_first f x rest cl its : mem_key x its = false ->
    fc_loop klt g (S f) ((x, O) :: rest) cl its = advance f x 0 rest (x :: cl) (x :: its).
  Proof.
    intros H. cbn [fc_loop]. cbn [Nat.eqb andb]. unfold set_insert. rewrite H. reflexivity.
  Qed.

  Lemma loop_found f x rest cl its : mem_key x its = true ->
    fc_loop klt g (S f) ((x, O) :: rest) cl its = FcDone (rev cl ++ [x]).
  Proof.
    intros H. cbn [fc_loop]. cbn [Nat.eqb andb]. rewrite H. reflexivity.
  Qed.

  Lemma loop_next f x i rest cl its :
    fc_loop klt g (S f) ((x, S i) :: rest) cl its = advance f x (S i) rest cl its.
  Proof. reflexivity. Qed.

  Lemma loop_empty f cl its : fc_loop klt g (S f) [] cl its = FcDone (rev cl).
  Proof. reflexivity. Qed.

  (* ---------- the loop computes the reference search ---------- *)

  Definition sim_ok (k : nat) : Prop := forall x items rest cl,
    match dfs k x items with
    | DFound r => forall f, fc_loop klt g (dfs_steps k x items + f) ((x, O) :: rest) cl items = FcDone (rev cl ++ r)
    | DExhausted => forall f, fc_loop klt g (dfs_steps k x items + f) ((x, O) :: rest) cl items = fc_loop klt g f rest cl items
    | DDepth => True
    end.

  Lemma children_sim k x items rest cl :
    sim_ok k -> ~ In x items ->
    forall todo done, preds x = done ++ todo ->
    let F := fun p => dfs k p (x :: items) in
    let St := fun p => dfs_steps k p (x :: items) in
    match scan_children F todo with
    | DFound r => forall f, advance (children_steps F St todo + f) x (length done) rest (x :: cl) (x :: items) = FcDone (rev (x :: cl) ++ r)
    | DExhausted => forall f, advance (children_steps F St todo + f) x (length done) rest (x :: cl) (x :: items) = fc_loop klt g f rest cl items
    | DDepth => True
    end.
  Proof.
    intros Hk Hx todo. induction todo as [|p t IH]; intros done Hps F St.
    - cbn [scan_children children_steps]. intros f. unfold advance.
      rewrite Hps, app_nil_r, Nat.eqb_refl. cbn [negb tl]. rewrite set_erase_fresh by exact Hx. reflexivity.
    - cbn [scan_children children_steps].
      assert (Hlt : Nat.eqb (length done) (length (preds x)) = false).
      { apply Nat.eqb_neq. rewrite Hps, app_length. cbn [length]. lia. }
      assert (Hnth : nth (length done) (preds x) 0%N = p).
      { rewrite Hps. rewrite app_nth2 by lia. rewrite Nat.sub_diag. reflexivity. }
      pose proof (Hk p (x :: items) ((x, S (length done)) :: rest) (x :: cl)) as Hp.
      fold (F p) in Hp. fold (St p) in Hp.
      destruct (F p) as [r| |] eqn:EF.
      + intros f. unfold advance. rewrite Hlt. cbn [negb]. rewrite Hnth. apply Hp.
      + specialize (IH (done ++ [p])). rewrite <- app_assoc in IH. specialize (IH Hps).
        cbv zeta in IH. fold F in IH. fold St in IH.
        rewrite app_length in IH. cbn [length] in IH. replace (length done + 1) with (S (length done)) in IH by lia.
        destruct (scan_children F t) as [r| |] eqn:ES.
        * intros f. unfold advance at 1. rewrite Hlt. cbn [negb]. rewrite Hnth.
          replace (St p + 1 + children_steps F St t + f) with (St p + S (children_steps F St t + f)) by lia.
          rewrite Hp. rewrite loop_next. apply IH.
        * intros f. unfold advance at 1. rewrite Hlt. cbn [negb]. rewrite Hnth.
          replace (St p + 1 + children_steps F St t + f) with (St p + S (children_steps F St t + f)) by lia.
          rewrite Hp. rewrite loop_next. apply IH.
        * exact I.
      + exact I.
  Qed.

  Lemma fc_loop_dfs k : sim_ok k.
  Proof.
    induction k as [|k IH]; intros x items rest cl.
    - cbn [FindCycle.dfs dfs_steps]. destruct (mem_key x items) eqn:Em; [|exact I].
      intros f. cbn [Nat.add]. apply loop_found. exact Em.
    - cbn [FindCycle.dfs dfs_steps]. destruct (mem_key x items) eqn:Em.
      + intros f. cbn [Nat.add]. apply loop_found. exact Em.
      + assert (Hx : ~ In x items) by (apply mem_key_false; exact Em).
        pose proof (children_sim k x items rest cl IH Hx (preds x) [] eq_refl) as Hc.
        cbv zeta in Hc. cbn [length] in Hc.
        destruct (scan_children (fun p => dfs k p (x :: items)) (preds x)) as [r| |] eqn:ES.
        * intros f. cbn [Nat.add]. rewrite loop_first by exact Em. rewrite Hc.
          cbn [rev]. rewrite <- app_assoc. reflexivity.
        * intros f. cbn [Nat.add]. rewrite loop_first by exact Em. apply Hc.
        * exact I.
  Qed.

  (* more fuel never changes a finished run *)
  Lemma fc_loop_more_fuel fuel : forall stack cl its l m,
    fc_loop klt g fuel stack cl its = FcDone l -> fc_loop klt g (fuel + m) stack cl its = FcDone l.
  Proof.
    induction fuel as [|f IH]; intros stack cl its l m H; [discriminate H|].
    cbn [Nat.add]. destruct stack as [|[x i] rest]; [exact H|].
    cbn [fc_loop] in *.
    destruct (Nat.eqb i 0 && mem_key x its); [exact H|].
    destruct (negb (Nat.eqb i (length (preds x)))); apply IH; exact H.
  Qed.

  (* ---------- facts about scan_children ---------- *)

  Lemma scan_found f ps r : scan_children f ps = DFound r -> exists p, In p ps /\ f p = DFound r.
  Proof.
    induction ps as [|p t IH]; cbn [scan_children]; [discriminate|].
    destruct (f p) as [r'| |] eqn:E; intros H.
    - exists p. split; [left; reflexivity | rewrite E; exact H].
    - destruct (IH H) as [q [Hq Hf]]. exists q. split; [right; exact Hq | exact Hf].
    - discriminate H.
  Qed.

  Lemma scan_exhausted f ps : scan_children f ps = DExhausted -> forall p, In p ps -> f p = DExhausted.
  Proof.
    induction ps as [|p t IH]; cbn [scan_children]; intros H q Hq; [destruct Hq|].
    destruct (f p) as [r'| |] eqn:E; try discriminate H.
    destruct Hq as [Hq|Hq]; [subst q; exact E | apply IH; assumption].
  Qed.

  Lemma scan_depth f ps : scan_children f ps = DDepth -> exists p, In p ps /\ f p = DDepth.
  Proof.
    induction ps as [|p t IH]; cbn [scan_children]; [discriminate|].
    destruct (f p) as [r'| |] eqn:E; intros H.
    - discriminate H.
    - destruct (IH H) as [q [Hq Hf]]. exists q. split; [right; exact Hq | exact Hf].
    - exists p. split; [left; reflexivity | exact E].
  Qed.

  (* ---------- soundness of the reference search ---------- *)

  Lemma chain_cons x y t : dep x y -> chain (y :: t) -> chain (x :: y :: t).
  Proof. intros H1 H2. cbn [FindCycle.chain]. split; assumption. Qed.

  Lemma dfs_sound k : forall x items r, dfs k x items = DFound r ->
    exists pre z, r = pre ++ [z] /\ hd z pre = x /\ chain r /\ In z (pre ++ items) /\ NoDup pre /\ (forall y, In y pre -> ~ In y items).
  Proof.
    induction k as [|k IH]; intros x items r H; cbn [FindCycle.dfs] in H.
    - destruct (mem_key x items) eqn:Em; [|discriminate H].
      injection H as <-. exists [], x. cbn. repeat split; [apply mem_key_true; exact Em | constructor | intros y []].
    - destruct (mem_key x items) eqn:Em.
      + injection H as <-. exists [], x. cbn. repeat split; [apply mem_key_true; exact Em | constructor | intros y []].
      + destruct (scan_children (fun p => dfs k p (x :: items)) (preds x)) as [r'| |] eqn:ES; try discriminate H.
        injection H as <-.
        apply scan_found in ES. destruct ES as [p [Hp Hd]].
        apply IH in Hd. destruct Hd as [pre [z [Hr [Hh [Hc [Hz [Hnd Hdis]]]]]]].
        apply mem_key_false in Em.
        exists (x :: pre), z. subst r'. repeat split.
        * destruct pre as [|a pre]; cbn in Hh |- *.
          -- subst z. split; [apply preds_In; exact Hp | exact I].
          -- subst a. split; [apply preds_In; exact Hp | exact Hc].
        * cbn [app]. apply in_app_or in Hz. destruct Hz as [Hz|[Hz|Hz]].
          -- right. apply in_or_app. left. exact Hz.
          -- left. exact Hz.
          -- right. apply in_or_app. right. exact Hz.
        * constructor; [|exact Hnd]. intros Hin. apply (Hdis x Hin). left. reflexivity.
        * intros y [Hy|Hy]; [subst y; exact Em|]. intros Hi. apply (Hdis y Hy). right. exact Hi.
  Qed.

  (* ---------- the depth budget: the number of distinct nodes is enough ---------- *)

  Lemma dfs_no_depth (V : list key) : (forall x y, dep x y -> In y V) ->
    forall k x items, In x V -> NoDup items -> incl items V -> length V <= k + length items -> dfs k x items <> DDepth.
  Proof.
    intros Hclosed. induction k as [|k IH]; intros x items Hx Hnd Hincl Hlen; cbn [FindCycle.dfs].
    - destruct (mem_key x items) eqn:Em; [discriminate|]. exfalso.
      apply mem_key_false in Em.
      assert (Hl : length (x :: items) <= length V).
      { apply NoDup_incl_length; [constructor; assumption|]. intros y [Hy|Hy]; [subst y; exact Hx | apply Hincl; exact Hy]. }
      cbn [length] in Hl. lia.
    - destruct (mem_key x items) eqn:Em; [discriminate|]. apply mem_key_false in Em.
      destruct (scan_children (fun p => dfs k p (x :: items)) (preds x)) as [r'| |] eqn:ES; try discriminate.
      exfalso. apply scan_depth in ES. destruct ES as [p [Hp Hd]]. revert Hd. apply IH.
      + apply (Hclosed x). apply preds_In. exact Hp.
      + constructor; assumption.
      + intros y [Hy|Hy]; [subst y; exact Hx | apply Hincl; exact Hy].
      + cbn [length]. lia.
  Qed.

  (* ---------- the number of iterations ---------- *)

  Lemma children_steps_bound (f : key -> dres) (s : key -> nat) c ps :
    (forall p, s p <= c) -> children_steps f s ps <= length ps * (c + 1).
  Proof.
    intros Hs. induction ps as [|p t IH]; cbn [children_steps length]; [lia|].
    specialize (Hs p). destruct (f p); cbn [Nat.mul]; lia.
  Qed.

  Lemma dfs_steps_bound k : forall x items, dfs_steps k x items <= fc_cost (length g) k.
  Proof.
    induction k as [|k IH]; intros x items; cbn [dfs_steps fc_cost]; destruct (mem_key x items); try lia.
    pose proof (children_steps_bound (fun p => dfs k p (x :: items)) (fun p => dfs_steps k p (x :: items))
                  (fc_cost (length g) k) (preds x) (fun p => IH p (x :: items))) as Hb.
    pose proof (preds_length x) as Hl.
    assert (length (preds x) * (fc_cost (length g) k + 1) <= length g * (fc_cost (length g) k + 1))
      by (apply Nat.mul_le_mono_r; exact Hl).
    lia.
  Qed.

  (* ---------- completeness of the reference search: exhaustion means every walk is repetition-free ---------- *)

  Lemma dfs_exhausted_walks : forall l k x items, dfs k x items = DExhausted -> chain (x :: l) ->
    NoDup (x :: l) /\ (forall y, In y (x :: l) -> ~ In y items).
  Proof.
    induction l as [|y l IH]; intros k x items H Hc.
    - destruct k; cbn [FindCycle.dfs] in H; destruct (mem_key x items) eqn:Em; try discriminate H.
      apply mem_key_false in Em. split; [constructor; [intros []|constructor]|]. intros y [Hy|[]]. subst y. exact Em.
    - destruct k as [|k]; cbn [FindCycle.dfs] in H; destruct (mem_key x items) eqn:Em; try discriminate H.
      apply mem_key_false in Em.
      destruct (scan_children (fun p => dfs k p (x :: items)) (preds x)) as [r'| |] eqn:ES; try discriminate H.
      destruct Hc as [Hd Hc].
      pose proof (scan_exhausted _ _ ES y (proj2 (preds_In x y) Hd)) as Hy.
      destruct (IH k y (x :: items) Hy Hc) as [Hnd Hdis].
      split.
      + constructor; [|exact Hnd]. intros Hin. apply (Hdis x Hin). left. reflexivity.
      + intros z [Hz|Hz]; [subst z; exact Em|]. intros Hi. apply (Hdis z Hz). right. exact Hi.
  Qed.

  (* ---------- walks ---------- *)

  Lemma chain_app_r a : forall b, chain (a ++ b) -> chain b.
  Proof.
    induction a as [|x a IH]; intros b H; [exact H|].
    apply IH. cbn [app] in H. destruct (a ++ b) as [|y t] eqn:E; [cbn; exact I|]. cbn [FindCycle.chain] in H. apply H.
  Qed.

  Lemma chain_app_l a : forall b, chain (a ++ b) -> chain a.
  Proof.
    induction a as [|x a IH]; intros b H; [exact I|].
    destruct a as [|y a]; [exact I|].
    cbn [app FindCycle.chain] in H. destruct H as [H1 H2]. cbn [FindCycle.chain]. split; [exact H1|]. apply (IH b). exact H2.
  Qed.

  Lemma chain_join a x b : chain (a ++ [x]) -> chain (x :: b) -> chain (a ++ x :: b).
  Proof.
    induction a as [|y a IH]; intros H1 H2; [exact H2|].
    destruct a as [|z a].
    - cbn [app] in *. cbn [FindCycle.chain] in H1. apply chain_cons; [apply H1 | exact H2].
    - cbn [app FindCycle.chain] in H1. destruct H1 as [Hd H1]. cbn [app]. apply chain_cons; [exact Hd|].
      apply IH; assumption.
  Qed.

  Lemma last_cons_default (y : key) w d d' : last (y :: w) d = last (y :: w) d'.
  Proof.
    revert y. induction w as [|z w IH]; intros y; [reflexivity|].
    change (last (y :: z :: w) d) with (last (z :: w) d). change (last (y :: z :: w) d') with (last (z :: w) d'). apply IH.
  Qed.

  Lemma chain_snoc x w p : chain (x :: w) -> dep (last (x :: w) x) p -> chain (x :: w ++ [p]).
  Proof.
    revert x. induction w as [|y w IH]; intros x Hc Hd.
    - cbn in Hd. cbn [app FindCycle.chain]. split; [exact Hd | exact I].
    - cbn [FindCycle.chain] in Hc. destruct Hc as [H1 H2]. cbn [app]. apply chain_cons; [exact H1|].
      apply IH; [exact H2|]. rewrite (last_cons_default y w y x). exact Hd.
  Qed.

  (* ---------- the function as a whole ---------- *)

  Variable root : key.
  Notation V := (fc_nodes g root).
  Notation cycle_reachable := (FindCycle.cycle_reachable g root).
  Notation no_dead_end := (FindCycle.no_dead_end g root).
  Notation closed_walk := (FindCycle.closed_walk g).
  Notation reachable := (FindCycle.reachable g root).
  Notation acyclic := (FindCycle.acyclic g).

  Lemma V_root : In root V.
  Proof. unfold fc_nodes. apply nodup_In. left. reflexivity. Qed.

  Lemma V_closed x y : dep x y -> In y V.
  Proof.
    intros H. unfold fc_nodes. apply nodup_In. right. apply in_or_app. left.
    apply in_map_iff. exists (y, x). split; [reflexivity | exact H].
  Qed.

  Lemma V_nodup : NoDup V.
  Proof. unfold fc_nodes. apply NoDup_nodup. Qed.

  Lemma chain_in_V : forall w x, In x V -> chain (x :: w) -> incl (x :: w) V.
  Proof.
    induction w as [|y w IH]; intros x Hx Hc z Hz.
    - destruct Hz as [Hz|[]]. subst z. exact Hx.
    - destruct Hz as [Hz|Hz]; [subst z; exact Hx|].
      cbn [FindCycle.chain] in Hc. destruct Hc as [Hd Hc]. apply (IH y); [apply (V_closed x); exact Hd | exact Hc | exact Hz].
  Qed.

  Notation fc_reference := (FindCycle.fc_reference klt g root).

  Lemma dfs_top_no_depth : dfs (length V) root [] <> DDepth.
  Proof.
    apply (dfs_no_depth V); [exact V_closed | exact V_root | constructor | intros y [] | cbn [length]; lia].
  Qed.

  Theorem fc_exact fuel : fc_fuel g root <= fuel -> findCycle klt g root fuel = FcDone fc_reference.
  Proof.
    intros Hf. unfold findCycle, FindCycle.fc_reference, fc_fuel in *.
    pose proof (dfs_steps_bound (length V) root []) as Hb.
    pose proof (fc_loop_dfs (length V) root [] [] []) as Hs.
    pose proof dfs_top_no_depth as Hd.
    set (n := dfs_steps (length V) root []) in *.
    replace fuel with (n + S (fuel - n - 1)) by lia.
    destruct (dfs (length V) root []) as [r| |].
    - rewrite Hs. reflexivity.
    - rewrite Hs. reflexivity.
    - exfalso. apply Hd. reflexivity.
  Qed.

  Theorem fc_terminates fuel : fc_fuel g root <= fuel -> findCycle klt g root fuel <> FcOutOfFuel.
  Proof. intros Hf. rewrite (fc_exact fuel Hf). discriminate. Qed.

  (* with ANY fuel a finished run returns the same list *)
  Theorem fc_any_fuel fuel l : findCycle klt g root fuel = FcDone l -> l = fc_reference.
  Proof.
    intros H. unfold findCycle in H. apply (fc_loop_more_fuel _ _ _ _ _ (fc_fuel g root)) in H.
    fold (findCycle klt g root (fuel + fc_fuel g root)) in H.
    rewrite fc_exact in H by lia. injection H as H. symmetry. exact H.
  Qed.

  Lemma fc_reference_sound : fc_reference <> [] ->
    exists pre z, fc_reference = pre ++ [z] /\ hd_error fc_reference = Some root /\ chain fc_reference /\ In z pre /\ NoDup pre.
  Proof.
    unfold FindCycle.fc_reference. destruct (dfs (length V) root []) as [r| |] eqn:E; intros Hne; try (exfalso; apply Hne; reflexivity).
    apply dfs_sound in E. destruct E as [pre [z [Hr [Hh [Hc [Hz [Hnd _]]]]]]].
    rewrite app_nil_r in Hz.
    exists pre, z. repeat split; try assumption.
    subst r. destruct pre as [|a pre]; [destruct Hz|]. cbn in Hh. subst a. reflexivity.
  Qed.

  (* fc_sound: a non-empty result starts with the root, every key is followed by a key it waits on (a predecessor in the
     direction the code traverses), the last key occurs earlier, and nothing else is repeated *)
  Theorem fc_sound fuel l : findCycle klt g root fuel = FcDone l -> l <> [] ->
    exists pre z, l = pre ++ [z] /\ hd_error l = Some root /\ chain l /\ In z pre /\ NoDup pre.
  Proof.
    intros H Hne. apply fc_any_fuel in H. subst l. apply fc_reference_sound. exact Hne.
  Qed.

  (* ---------- when is the result empty ---------- *)


  Lemma fc_reference_empty_iff : fc_reference = [] <-> ~ cycle_reachable.
  Proof.
    unfold FindCycle.fc_reference. pose proof dfs_top_no_depth as Hd.
    destruct (dfs (length V) root []) as [r| |] eqn:E.
    - apply dfs_sound in E. destruct E as [pre [z [Hr [Hh [Hc [Hz [Hnd _]]]]]]]. rewrite app_nil_r in Hz.
      split.
      + intros ->. destruct pre; discriminate Hr.
      + intros Hn. exfalso. apply Hn.
        destruct pre as [|a pre]; [destruct Hz|]. cbn in Hh. subst a.
        exists (pre ++ [z]). subst r. split; [exact Hc|].
        intros Hno. change (root :: pre ++ [z]) with ((root :: pre) ++ [z]) in Hno.
        apply NoDup_remove_2 in Hno. apply Hno. rewrite app_nil_r. exact Hz.
    - split; [|reflexivity]. intros _ [w [Hc Hn]]. apply Hn.
      apply (dfs_exhausted_walks w _ _ _ E Hc).
    - exfalso. apply Hd. reflexivity.
  Qed.

  (* fc_complete: the search reports nothing exactly when no cycle is reachable from the root *)
  Theorem fc_complete fuel : fc_fuel g root <= fuel ->
    (findCycle klt g root fuel = FcDone [] <-> ~ cycle_reachable).
  Proof.
    intros Hf. rewrite (fc_exact fuel Hf). rewrite <- fc_reference_empty_iff. split.
    - intros H. injection H as H. exact H.
    - intros ->. reflexivity.
  Qed.

  Theorem fc_complete_any_fuel fuel l : findCycle klt g root fuel = FcDone l -> (l = [] <-> ~ cycle_reachable).
  Proof. intros H. apply fc_any_fuel in H. subst l. apply fc_reference_empty_iff. Qed.


  Lemma long_walk : no_dead_end -> forall n, exists w, length w = n /\ chain (root :: w).
  Proof.
    intros Hnd. induction n as [|n [w [Hl Hc]]].
    - exists []. split; [reflexivity | exact I].
    - destruct (Hnd w Hc) as [p Hp]. exists (w ++ [p]). split.
      + rewrite app_length. cbn [length]. lia.
      + apply chain_snoc; assumption.
  Qed.

  Lemma no_dead_end_cycle : no_dead_end -> cycle_reachable.
  Proof.
    intros Hnd. destruct (long_walk Hnd (length V)) as [w [Hl Hc]].
    exists w. split; [exact Hc|]. intros Hno.
    pose proof (NoDup_incl_length Hno (chain_in_V w root V_root Hc)) as Hlen.
    cbn [length] in Hlen. lia.
  Qed.

  Theorem fc_stall_finds_cycle fuel : no_dead_end -> fc_fuel g root <= fuel ->
    exists l, findCycle klt g root fuel = FcDone l /\ l <> [].
  Proof.
    intros Hnd Hf. exists fc_reference. split; [apply fc_exact; exact Hf|].
    intros He. apply fc_reference_empty_iff in He. apply He. apply no_dead_end_cycle. exact Hnd.
  Qed.

  (* ---------- the classical formulation: closed walks ---------- *)


  Lemma not_NoDup_split (l : list key) : ~ NoDup l -> exists y l1 l2 l3, l = l1 ++ y :: l2 ++ y :: l3.
  Proof.
    induction l as [|a l IH]; intros H.
    - exfalso. apply H. constructor.
    - destruct (in_dec N.eq_dec a l) as [Hi|Hn].
      + apply in_split in Hi. destruct Hi as [l2 [l3 ->]]. exists a, [], l2, l3. reflexivity.
      + destruct IH as [y [l1 [l2 [l3 ->]]]].
        * intros Hnd. apply H. constructor; assumption.
        * exists y, (a :: l1), l2, l3. reflexivity.
  Qed.

  Lemma cycle_reachable_iff : cycle_reachable <-> exists y m, reachable y /\ closed_walk y m.
  Proof.
    split.
    - intros [w [Hc Hn]]. apply not_NoDup_split in Hn. destruct Hn as [y [l1 [l2 [l3 E]]]].
      exists y, l2. split.
      + destruct l1 as [|a l1].
        * cbn [app] in E. injection E as E1 E2. subst y. exists []. split; [exact I | reflexivity].
        * cbn [app] in E. injection E as E1 E2. subst a. exists (l1 ++ [y]). split.
          -- rewrite E2 in Hc. change (root :: l1 ++ y :: l2 ++ y :: l3) with ((root :: l1) ++ [y] ++ (l2 ++ y :: l3)) in Hc.
             rewrite app_assoc in Hc. apply chain_app_l in Hc. exact Hc.
          -- change (root :: l1 ++ [y]) with ((root :: l1) ++ [y]). apply last_last.
      + unfold FindCycle.closed_walk. rewrite E in Hc. apply chain_app_r in Hc.
        change (y :: l2 ++ y :: l3) with ((y :: l2) ++ [y] ++ l3) in Hc. rewrite app_assoc in Hc.
        apply chain_app_l in Hc. exact Hc.
    - intros [y [m [[w [Hc Hl]] Hm]]].
      assert (Hs : exists a, root :: w = a ++ [y]).
      { exists (removelast (root :: w)). rewrite <- Hl. apply app_removelast_last. discriminate. }
      destruct Hs as [a Ha].
      destruct a as [|r a].
      + cbn [app] in Ha. injection Ha as Hr Hw. exists (m ++ [root]). unfold FindCycle.closed_walk in Hm. rewrite <- Hr in Hm.
        split; [exact Hm|].
        intros Hno. inversion Hno as [|? ? Hni _]. apply Hni. apply in_or_app. right. left. reflexivity.
      + cbn [app] in Ha. injection Ha as Hr Hw. subst r. exists (a ++ y :: m ++ [y]). split.
        * change (root :: a ++ y :: m ++ [y]) with ((root :: a) ++ y :: m ++ [y]). apply chain_join; [|exact Hm].
          cbn [app]. rewrite <- Hw. exact Hc.
        * intros Hno. change (root :: a ++ y :: m ++ [y]) with ((root :: a) ++ y :: m ++ [y]) in Hno.
          apply NoDup_remove_2 in Hno. apply Hno. apply in_or_app. right. apply in_or_app. right. left. reflexivity.
  Qed.

  (* fc_acyclic_empty: on an acyclic graph nothing is reported, whatever the fuel *)
  Theorem fc_acyclic_empty fuel l : acyclic -> findCycle klt g root fuel = FcDone l -> l = [].
  Proof.
    intros Ha H. apply (fc_complete_any_fuel fuel l H). intros Hc.
    apply cycle_reachable_iff in Hc. destruct Hc as [y [m [_ Hm]]]. exact (Ha y m Hm).
  Qed.

  Theorem fc_reports_iff_cycle fuel : fc_fuel g root <= fuel ->
    ((exists l, findCycle klt g root fuel = FcDone l /\ l <> []) <-> exists y m, reachable y /\ closed_walk y m).
  Proof.
    intros Hf. rewrite <- cycle_reachable_iff. rewrite (fc_exact fuel Hf). split.
    - intros [l [H Hne]]. injection H as H. subst l.
      destruct (in_dec N.eq_dec root V) as [_|Hn]; [|exfalso; apply Hn; exact V_root].
      pose proof fc_reference_empty_iff as Hi.
      destruct (dfs (length V) root []) as [r| |] eqn:E.
      + apply dfs_sound in E. destruct E as [pre [z [Hr [Hh [Hc [Hz [Hnd _]]]]]]]. rewrite app_nil_r in Hz.
        destruct pre as [|a pre]; [destruct Hz|]. cbn in Hh. subst a.
        exists (pre ++ [z]). subst r. split; [exact Hc|].
        intros Hno. change (root :: pre ++ [z]) with ((root :: pre) ++ [z]) in Hno.
        apply NoDup_remove_2 in Hno. apply Hno. rewrite app_nil_r. exact Hz.
      + exfalso. apply Hne. unfold FindCycle.fc_reference. rewrite E. reflexivity.
      + exfalso. apply Hne. unfold FindCycle.fc_reference. rewrite E. reflexivity.
    - intros Hc. exists fc_reference. split; [reflexivity|]. intros He. apply fc_reference_empty_iff in He. exact (He Hc).
  Qed.

  (* ---------- the stalled-engine case needs only linear fuel: the search never backtracks ---------- *)

  Definition nde (x : key) : Prop := forall w, chain (x :: w) -> exists p, dep (last (x :: w) x) p.

  Lemma nde_step x p : nde x -> dep x p -> nde p.
  Proof.
    intros Hx Hd w Hc. destruct (Hx (p :: w) (chain_cons x p w Hd Hc)) as [q Hq]. exists q.
    change (last (x :: p :: w) x) with (last (p :: w) x) in Hq. rewrite (last_cons_default p w p x). exact Hq.
  Qed.

  Lemma nde_found : forall k x items, nde x -> In x V -> NoDup items -> incl items V -> length V <= k + length items ->
    exists r, dfs k x items = DFound r /\ dfs_steps k x items = length r.
  Proof.
    induction k as [|k IH]; intros x items Hn Hx Hnd Hincl Hlen.
    - pose proof (dfs_no_depth V V_closed 0 x items Hx Hnd Hincl Hlen) as Hd. cbn [FindCycle.dfs dfs_steps] in *.
      destruct (mem_key x items); [exists [x]; split; reflexivity | exfalso; apply Hd; reflexivity].
    - cbn [FindCycle.dfs dfs_steps]. destruct (mem_key x items) eqn:Em; [exists [x]; split; reflexivity|].
      apply mem_key_false in Em.
      destruct (Hn [] I) as [p Hp]. cbn in Hp. apply preds_In in Hp.
      destruct (preds x) as [|p0 t] eqn:Eps; [destruct Hp|].
      assert (Hd0 : dep x p0) by (apply preds_In; rewrite Eps; left; reflexivity).
      destruct (IH p0 (x :: items)) as [r [Hr Hs]].
      + apply (nde_step x); assumption.
      + apply (V_closed x). exact Hd0.
      + constructor; assumption.
      + intros y [Hy|Hy]; [subst y; exact Hx | apply Hincl; exact Hy].
      + cbn [length]. lia.
      + exists (x :: r). cbn [scan_children children_steps]. rewrite Hr. split; [reflexivity|]. rewrite Hs. reflexivity.
  Qed.

  Theorem fc_stall_linear fuel : no_dead_end -> S (length V) <= fuel ->
    exists l, findCycle klt g root fuel = FcDone l /\ l <> [].
  Proof.
    intros Hn Hf.
    destruct (nde_found (length V) root [] Hn V_root (NoDup_nil _) (fun y (H : In y []) => match H with end)) as [r [Hr Hs]];
      [cbn [length]; lia|].
    pose proof (fc_loop_dfs (length V) root [] [] []) as Hsim. rewrite Hr in Hsim.
    pose proof Hr as Hsound. apply dfs_sound in Hsound. destruct Hsound as [pre [z [Hrz [Hh [Hc [Hz [Hnd _]]]]]]].
    rewrite app_nil_r in Hz.
    assert (Hlen : length r <= S (length V)).
    { destruct pre as [|a pre]; [destruct Hz|]. cbn in Hh. subst a.
      assert (Hin : incl (root :: pre) V).
      { subst r. change ((root :: pre) ++ [z]) with (root :: pre ++ [z]) in Hc.
        pose proof (chain_in_V _ _ V_root Hc) as Hi. intros y Hy. apply Hi.
        destruct Hy as [Hy|Hy]; [left; exact Hy | right; apply in_or_app; left; exact Hy]. }
      pose proof (NoDup_incl_length Hnd Hin) as Hl. subst r. rewrite app_length. cbn [length] in *. lia. }
    exists r. split.
    - unfold findCycle. replace fuel with (dfs_steps (length V) root [] + (fuel - dfs_steps (length V) root [])) by lia.
      rewrite Hsim. reflexivity.
    - subst r. destruct pre; discriminate.
  Qed.
End Proofs.

(* ---------- the unspecified iteration order of the unordered_maps does not matter ---------- *)

Section EdgeOrder.
  Variable klt : key -> key -> bool.
  Hypothesis klt_asym : forall a b, klt a b = true -> klt b a = false.
  Hypothesis klt_trans : forall a b c, klt a b = true -> klt b c = true -> klt a c = true.
  Hypothesis klt_total : forall a b, klt a b = false -> klt b a = false -> a = b.

  Lemma insert_key_comm x y : forall l, insert_key klt x (insert_key klt y l) = insert_key klt y (insert_key klt x l).
  Proof.
    induction l as [|z l IH].
    - cbn [insert_key]. destruct (klt x y) eqn:Exy; destruct (klt y x) eqn:Eyx; try reflexivity.
      + rewrite (klt_asym _ _ Exy) in Eyx. discriminate Eyx.
      + rewrite (klt_total _ _ Exy Eyx). reflexivity.
    - cbn [insert_key]. destruct (klt y z) eqn:Eyz; destruct (klt x z) eqn:Exz; cbn [insert_key].
      + rewrite Eyz, Exz. destruct (klt x y) eqn:Exy; destruct (klt y x) eqn:Eyx; try reflexivity.
        * rewrite (klt_asym _ _ Exy) in Eyx. discriminate Eyx.
        * rewrite (klt_total _ _ Exy Eyx). reflexivity.
      + rewrite Eyz, Exz. destruct (klt x y) eqn:Exy; [|reflexivity].
        rewrite (klt_trans _ _ _ Exy Eyz) in Exz. discriminate Exz.
      + rewrite Eyz, Exz. destruct (klt y x) eqn:Eyx; [|reflexivity].
        rewrite (klt_trans _ _ _ Eyx Exz) in Eyz. discriminate Eyz.
      + rewrite Eyz, Exz. rewrite IH. reflexivity.
  Qed.

  Lemma sort_keys_perm l l' : Permutation l l' -> sort_keys klt l = sort_keys klt l'.
  Proof.
    intros H. induction H as [|x l l' H IH|x y l|l l' l'' H1 IH1 H2 IH2]; cbn [sort_keys].
    - reflexivity.
    - rewrite IH. reflexivity.
    - apply insert_key_comm.
    - rewrite IH1. exact IH2.
  Qed.

  Lemma filter_perm {A} (f : A -> bool) l l' : Permutation l l' -> Permutation (filter f l) (filter f l').
  Proof.
    intros H. induction H as [|x l l' H IH|x y l|l l' l'' H1 IH1 H2 IH2]; cbn [filter].
    - constructor.
    - destruct (f x); [constructor; exact IH | exact IH].
    - destruct (f x); destruct (f y); try apply Permutation_refl. constructor.
    - apply (Permutation_trans IH1 IH2).
  Qed.

  Lemma preds_perm g g' x : Permutation g g' -> preds klt g x = preds klt g' x.
  Proof.
    intros H. unfold preds, preds_unsorted. apply sort_keys_perm. apply Permutation_map. apply filter_perm. exact H.
  Qed.

  Lemma fc_loop_preds_ext g g' : (forall x, preds klt g x = preds klt g' x) ->
    forall fuel stack cl its, fc_loop klt g fuel stack cl its = fc_loop klt g' fuel stack cl its.
  Proof.
    intros He. induction fuel as [|f IH]; intros stack cl its; [reflexivity|].
    destruct stack as [|[x i] rest]; [reflexivity|].
    cbn [fc_loop]. rewrite He. rewrite !IH. reflexivity.
  Qed.

  (* the edges can be listed in any order: predecessorGraph is the same after the std::sort calls *)
  Theorem fc_edge_order_irrelevant g g' root fuel :
    Permutation g g' -> findCycle klt g root fuel = findCycle klt g' root fuel.
  Proof.
    intros H. unfold findCycle. apply fc_loop_preds_ext. intros x. apply preds_perm. exact H.
  Qed.
End EdgeOrder.

(* ---------- the order of the harness key names is a strict total order ---------- *)

Lemma lex_ltb_asym : forall a b, lex_ltb a b = true -> lex_ltb b a = false.
Proof.
  induction a as [|x a IH]; intros b H; destruct b as [|y b]; cbn [lex_ltb] in *; try reflexivity; try discriminate H.
  destruct (N.ltb x y) eqn:E1; destruct (N.ltb y x) eqn:E2; try reflexivity.
  - apply N.ltb_lt in E1. apply N.ltb_lt in E2. lia.
  - discriminate H.
  - apply IH. exact H.
Qed.

Lemma lex_ltb_trans : forall a b c, lex_ltb a b = true -> lex_ltb b c = true -> lex_ltb a c = true.
Proof.
  induction a as [|x a IH]; intros b c H1 H2; destruct b as [|y b]; destruct c as [|z c]; cbn [lex_ltb] in *;
    try reflexivity; try discriminate H1; try discriminate H2.
  destruct (N.ltb x y) eqn:E1; destruct (N.ltb y z) eqn:E2.
  - apply N.ltb_lt in E1. apply N.ltb_lt in E2. assert (E : N.ltb x z = true) by (apply N.ltb_lt; lia). rewrite E. reflexivity.
  - destruct (N.ltb z y) eqn:E3; [discriminate H2|].
    apply N.ltb_lt in E1. apply N.ltb_ge in E2. apply N.ltb_ge in E3.
    assert (E : N.ltb x z = true) by (apply N.ltb_lt; lia). rewrite E. reflexivity.
  - destruct (N.ltb y x) eqn:E3; [discriminate H1|].
    apply N.ltb_lt in E2. apply N.ltb_ge in E1. apply N.ltb_ge in E3.
    assert (E : N.ltb x z = true) by (apply N.ltb_lt; lia). rewrite E. reflexivity.
  - destruct (N.ltb y x) eqn:E3; [discriminate H1|]. destruct (N.ltb z y) eqn:E4; [discriminate H2|].
    apply N.ltb_ge in E1. apply N.ltb_ge in E2. apply N.ltb_ge in E3. apply N.ltb_ge in E4.
    assert (x = y) by lia. assert (y = z) by lia. subst y z. rewrite N.ltb_irrefl. apply (IH b c); assumption.
Qed.

Lemma lex_ltb_total : forall a b, lex_ltb a b = false -> lex_ltb b a = false -> a = b.
Proof.
  induction a as [|x a IH]; intros b H1 H2; destruct b as [|y b]; cbn [lex_ltb] in *; try reflexivity; try discriminate H1; try discriminate H2.
  destruct (N.ltb x y) eqn:E1; [discriminate H1|]. destruct (N.ltb y x) eqn:E2; [discriminate H2|].
  apply N.ltb_ge in E1. apply N.ltb_ge in E2. assert (x = y) by lia. subst y. f_equal. apply IH; assumption.
Qed.

Lemma uint_digits_inj : forall u v, uint_digits u = uint_digits v -> u = v.
Proof.
  induction u as [|u IH|u IH|u IH|u IH|u IH|u IH|u IH|u IH|u IH|u IH]; intros v H; destruct v; cbn [uint_digits] in H;
    try discriminate H; try reflexivity; injection H as H; f_equal; apply IH; exact H.
Qed.

Lemma key_name_digits_inj a b : key_name_digits a = key_name_digits b -> a = b.
Proof.
  unfold key_name_digits. intros H. apply uint_digits_inj in H.
  rewrite <- (DecimalN.Unsigned.of_to a), <- (DecimalN.Unsigned.of_to b), H. reflexivity.
Qed.

Lemma klt_name_asym a b : klt_name a b = true -> klt_name b a = false.
Proof. apply lex_ltb_asym. Qed.
Lemma klt_name_trans a b c : klt_name a b = true -> klt_name b c = true -> klt_name a c = true.
Proof. apply lex_ltb_trans. Qed.
Lemma klt_name_total a b : klt_name a b = false -> klt_name b a = false -> a = b.
Proof. intros H1 H2. apply key_name_digits_inj. apply lex_ltb_total; assumption. Qed.

Theorem fc_names_edge_order_irrelevant g g' root fuel :
  Permutation g g' -> findcycle_names g root fuel = findcycle_names g' root fuel.
Proof. apply (fc_edge_order_irrelevant klt_name klt_name_asym klt_name_trans klt_name_total). Qed.

(* ---------- sufficient conditions that can be checked on a concrete graph ---------- *)

Section Conditions.
  Variable g : graph.

  Lemma chain_rank (rk : key -> nat) : (forall x y, dep g x y -> rk y < rk x) ->
    forall l x, chain g (x :: l) -> forall y, In y l -> rk y < rk x.
  Proof.
    intros Hr. induction l as [|z l IH]; intros x Hc y Hy; [destruct Hy|].
    cbn [FindCycle.chain] in Hc. destruct Hc as [Hd Hc]. specialize (Hr x z Hd).
    destruct Hy as [Hy|Hy]; [subst z; exact Hr|]. specialize (IH z Hc y Hy). lia.
  Qed.

  (* a rank that decreases along every wait-for edge excludes closed walks *)
  Lemma ranked_acyclic (rk : key -> nat) : (forall x y, dep g x y -> rk y < rk x) -> acyclic g.
  Proof.
    intros Hr y m Hc. unfold FindCycle.closed_walk in Hc.
    pose proof (chain_rank rk Hr (m ++ [y]) y Hc y) as H.
    assert (rk y < rk y) by (apply H; apply in_or_app; right; left; reflexivity). lia.
  Qed.

  Lemma last_In (x : key) w : In (last (x :: w) x) (x :: w).
  Proof.
    revert x. induction w as [|y w IH]; intros x; [left; reflexivity|].
    right. change (last (x :: y :: w) x) with (last (y :: w) x). rewrite (last_cons_default y w x y). apply IH.
  Qed.

  Lemma all_wait_no_dead_end root : (forall x, In x (fc_nodes g root) -> exists p, dep g x p) -> no_dead_end g root.
  Proof.
    intros H w Hc. apply H. apply (chain_in_V g root w root (V_root g root) Hc). apply last_In.
  Qed.
End Conditions.

(* ---------- examples (non-vacuity) ---------- *)

(* unit test SimpleCycle: A = 1 requests B = 2, B requests A; build A.  Expected { A, B, A }. *)
Definition g_simple : graph := [(2, 1); (1, 2)]%N.
Example ex_simple_cycle : findcycle_names g_simple 1%N 10 = FcDone [1; 2; 1]%N.
Proof. vm_compute. reflexivity. Qed.

(* unit test CycleDuringScanningFromTop, second build: A's scan is deferred on B, B's scan on C, the task of C waits on B
   (paused on B's scan record).  Expected { A, B, C, B }. *)
Definition g_scanning : graph := [(3, 2); (2, 3); (2, 1)]%N.
Example ex_scanning_cycle : findcycle_names g_scanning 1%N 10 = FcDone [1; 2; 3; 2]%N.
Proof. vm_compute. reflexivity. Qed.

(* the root is not on the cycle: 0 waits on 1, 1 on 2, 2 on 1 *)
Example ex_root_outside : findcycle_names [(1, 0); (2, 1); (1, 2)]%N 0%N 10 = FcDone [0; 1; 2; 1]%N.
Proof. vm_compute. reflexivity. Qed.

Example ex_self_loop : findcycle_names [(5, 5)]%N 5%N 10 = FcDone [5; 5]%N.
Proof. vm_compute. reflexivity. Qed.

(* two cycles through the root: the sorted predecessor order decides, and it is the order of the NAMES: "k10" < "k9" *)
Definition g_two : graph := [(9, 1); (10, 1); (1, 9); (1, 10)]%N.
Example ex_two_cycles_names : findcycle_names g_two 1%N 10 = FcDone [1; 10; 1]%N.
Proof. vm_compute. reflexivity. Qed.
Example ex_two_cycles_numeric : findCycle N.ltb g_two 1%N 10 = FcDone [1; 9; 1]%N.
Proof. vm_compute. reflexivity. Qed.
Example ex_two_cycles_edge_order : findcycle_names (rev g_two) 1%N 10 = findcycle_names g_two 1%N 10.
Proof. apply fc_names_edge_order_irrelevant. apply Permutation_sym. apply Permutation_rev. Qed.

(* a dead end is explored and left before the cycle is found: 1 waits on 2 (nothing below) and on 3, 3 waits on 1 *)
Example ex_backtrack : findcycle_names [(2, 1); (3, 1); (1, 3)]%N 1%N 10 = FcDone [1; 3; 1]%N.
Proof. vm_compute. reflexivity. Qed.

(* acyclic diamond: nothing is reported *)
Definition g_diamond : graph := [(2, 1); (3, 1); (4, 2); (4, 3)]%N.
Example ex_diamond_empty : findcycle_names g_diamond 1%N 20 = FcDone [].
Proof. vm_compute. reflexivity. Qed.
Example ex_diamond_acyclic : acyclic g_diamond.
Proof.
  apply (ranked_acyclic g_diamond (fun k => 10 - N.to_nat k)).
  intros x y H. unfold FindCycle.dep, g_diamond in H. cbn [In] in H.
  destruct H as [H|[H|[H|[H|[]]]]]; injection H as <- <-; vm_compute; lia.
Qed.

(* the hypothesis of fc_stall_finds_cycle / fc_stall_linear holds for the SimpleCycle graph *)
Example ex_simple_no_dead_end : no_dead_end g_simple 1%N.
Proof.
  apply all_wait_no_dead_end. intros x Hx. vm_compute in Hx.
  destruct Hx as [Hx|[Hx|[]]]; subst x; [exists 2%N | exists 1%N]; unfold FindCycle.dep, g_simple; cbn [In]; auto.
Qed.
Example ex_simple_cycle_reachable : cycle_reachable g_simple 1%N.
Proof. apply no_dead_end_cycle. exact ex_simple_no_dead_end. Qed.

(* out of fuel is a real outcome of the model when the fuel is too small *)
Example ex_out_of_fuel : findcycle_names g_scanning 1%N 3 = FcOutOfFuel.
Proof. vm_compute. reflexivity. Qed.

(* ---------- the search is NOT polynomial: no finished set ---------- *)

(* layers of two keys; both keys of a layer wait on both keys of the next layer; the last layer waits on nothing *)
Fixpoint diamond_chain (n : nat) (base : N) : graph :=
  match n with
  | O => []
  | S n' => [(base + 2, base); (base + 3, base); (base + 2, base + 1); (base + 3, base + 1)]%N ++ diamond_chain n' (base + 2)%N
  end.
Definition g_layers : graph := [(1, 0); (2, 0)]%N ++ diamond_chain 7 1%N.

(* 17 keys, 30 edges, acyclic: the loop needs 1022 iterations (it doubles with every layer); the bound |V|*(|E|+1)+1 of
   the design note (528 here) is refuted, and so is every polynomial bound by taking more layers. *)
Theorem fc_polynomial_fuel_refuted :
  length (fc_nodes g_layers 0%N) = 17 /\ length g_layers = 30 /\
  findcycle_names g_layers 0%N (length (fc_nodes g_layers 0%N) * (length g_layers + 1) + 1) = FcOutOfFuel /\
  findcycle_names g_layers 0%N 1021 = FcOutOfFuel /\
  findcycle_names g_layers 0%N 1022 = FcDone [].
Proof. vm_compute. repeat split; reflexivity. Qed.
