(* Proofs about the findCycle model (Engine/FindCycle.v), for ALL finite graphs (edge lists over N), roots and key orders.
   Method: a recursive reference search `dfs` (explore the predecessors of a node in sorted order, stop at the first
   node that is already on the current path) is shown to be what the explicit-stack loop computes (`fc_loop_dfs`,
   with the exact number of iterations), and soundness / completeness / termination are proved on `dfs`. *)
From Coq Require Import List NArith Arith Bool Lia Permutation.
Import ListNotations.
From LLB Require Import Engine.FindCycle.

(* ---------- sets of keys ---------- *)

Lemma mem_key_true x s : mem_key x s = true <-> In x s.
Proof.
  unfold mem_key. rewrite existsb_exists. split.
  - intros [y [Hy He]]. apply N.eqb_eq in He. subst y. exact Hy.
  - intros H. exists x. split; [exact H | apply N.eqb_refl].
Qed.

Lemma mem_key_false x s : mem_key x s = false <-> ~ In x s.
Proof.
  rewrite <- mem_key_true. destruct (mem_key x s).
  - split; [discriminate | intros H; exfalso; apply H; reflexivity].
  - split; [intros _; discriminate | reflexivity].
Qed.

Lemma set_erase_notin x s : ~ In x s -> set_erase x s = s.
Proof.
  unfold set_erase. induction s as [|y s IH]; intros H; cbn; [reflexivity|].
  destruct (N.eqb y x) eqn:E.
  - apply N.eqb_eq in E. subst y. exfalso. apply H. left. reflexivity.
  - cbn. rewrite IH; [reflexivity|]. intros Hi. apply H. right. exact Hi.
Qed.

Lemma set_erase_fresh x s : ~ In x s -> set_erase x (x :: s) = s.
Proof.
  intros H. cbn. rewrite N.eqb_refl. cbn. apply set_erase_notin. exact H.
Qed.

Lemma filter_length_bound {A} (f : A -> bool) (l : list A) : length (filter f l) <= length l.
Proof.
  induction l as [|a l IH]; cbn; [lia|]. destruct (f a); cbn; lia.
Qed.

(* ---------- the reference search ---------- *)

Inductive dres :=
| DFound (r : list key)      (* the path from the node to the first repeated node, both included *)
| DExhausted                 (* every path below the node ends without meeting the current path *)
| DDepth.                    (* depth budget used up (impossible when the budget is the number of nodes) *)

Fixpoint scan_children (f : key -> dres) (ps : list key) : dres :=
  match ps with
  | [] => DExhausted
  | p :: t => match f p with
              | DExhausted => scan_children f t
              | other => other
              end
  end.

(* iterations of the loop spent on the children from the current one on *)
Fixpoint children_steps (f : key -> dres) (s : key -> nat) (ps : list key) : nat :=
  match ps with
  | [] => 0
  | p :: t => match f p with
              | DExhausted => s p + 1 + children_steps f s t
              | _ => s p
              end
  end.

Section Proofs.
  Variable klt : key -> key -> bool.
  Variable g : graph.

  Notation preds := (preds klt g).

  (* x depends on (waits on) y *)
  Definition dep (x y : key) : Prop := In (y, x) g.

  (* a walk along predecessor edges: every key is followed by a key it waits on *)
  Fixpoint chain (l : list key) : Prop :=
    match l with
    | [] => True
    | x :: t => match t with
                | [] => True
                | y :: _ => dep x y /\ chain t
                end
    end.

  Fixpoint dfs (k : nat) (x : key) (items : list key) : dres :=
    if mem_key x items then DFound [x]
    else match k with
         | O => DDepth
         | S k' => match scan_children (fun p => dfs k' p (x :: items)) (preds x) with
                   | DFound r => DFound (x :: r)
                   | other => other
                   end
         end.

  Fixpoint dfs_steps (k : nat) (x : key) (items : list key) : nat :=
    if mem_key x items then 1
    else match k with
         | O => 0
         | S k' => 1 + children_steps (fun p => dfs k' p (x :: items)) (fun p => dfs_steps k' p (x :: items)) (preds x)
         end.

  (* ---------- sorting keeps the elements ---------- *)

  Lemma insert_key_In x l y : In y (insert_key klt x l) <-> y = x \/ In y l.
  Proof.
    induction l as [|z l IH]; cbn.
    - split; [intros [H|[]]; left; symmetry; exact H | intros [H|[]]; left; symmetry; exact H].
    - destruct (klt x z) eqn:E; cbn.
      + split; [intros [H|H]; [left; symmetry; exact H | right; exact H] | intros [H|H]; [left; symmetry; exact H | right; exact H]].
      + rewrite IH. split.
        * intros [H|[H|H]]; [right; left; exact H | left; exact H | right; right; exact H].
        * intros [H|[H|H]]; [right; left; exact H | left; exact H | right; right; exact H].
  Qed.

  Lemma sort_keys_In l y : In y (sort_keys klt l) <-> In y l.
  Proof.
    induction l as [|z l IH]; cbn; [reflexivity|].
    rewrite insert_key_In, IH. split; intros [H|H]; [left; symmetry; exact H | right; exact H | left; symmetry; exact H | right; exact H].
  Qed.

  Lemma insert_key_length x l : length (insert_key klt x l) = S (length l).
  Proof.
    induction l as [|z l IH]; cbn; [reflexivity|].
    destruct (klt x z); cbn; [reflexivity | rewrite IH; reflexivity].
  Qed.

  Lemma sort_keys_length l : length (sort_keys klt l) = length l.
  Proof.
    induction l as [|z l IH]; cbn; [reflexivity|]. rewrite insert_key_length, IH. reflexivity.
  Qed.

  Lemma preds_unsorted_In x y : In y (preds_unsorted g x) <-> dep x y.
  Proof.
    unfold preds_unsorted, dep. rewrite in_map_iff. split.
    - intros [[a b] [Hf Hi]]. apply filter_In in Hi. destruct Hi as [Hi He]. cbn in *. apply N.eqb_eq in He. subst. exact Hi.
    - intros H. exists (y, x). split; [reflexivity|]. apply filter_In. split; [exact H | cbn; apply N.eqb_refl].
  Qed.

  Lemma preds_In x y : In y (preds x) <-> dep x y.
  Proof. unfold FindCycle.preds. rewrite sort_keys_In. apply preds_unsorted_In. Qed.

  Lemma preds_length x : length (preds x) <= length g.
  Proof.
    unfold FindCycle.preds, preds_unsorted. rewrite sort_keys_length, map_length. apply filter_length_bound.
  Qed.

  (* ---------- one iteration of the loop ---------- *)

  (* the second half of an iteration: visit the next predecessor or pop *)
  Definition advance (f : nat) (x : key) (i : nat) (rest : list work_item) (cl its : list key) : fc_result :=
    if negb (Nat.eqb i (length (preds x))) then
      fc_loop klt g f ((nth i (preds x) 0%N, O) :: (x, S i) :: rest) cl its
    else fc_loop klt g f rest (tl cl) (set_erase x its).

  Lemma loop_first f x rest cl its : mem_key x its = false ->
    fc_loop klt g (S f) ((x, O) :: rest) cl its = advance f x 0 rest (x :: cl) (x :: its).
  Proof.
    intros H. cbn [fc_loop]. cbn [Nat.eqb andb]. unfold set_insert. rewrite H. reflexivity.
  Qed.

  Lemma loop_found f x rest cl its : mem_key x its = true ->
    fc_loop klt g (S f) ((x, O) :: rest) cl its = FcDone (rev cl ++ [x]).
  Proof.
    intros H. cbn [fc_loop]. cbn [Nat.eqb andb]. rewrite H. reflexivity.
  Qed.

  Lemma loop_next f x i rest cl its :
    fc_loop klt g (S f) ((x, S i) :: rest) cl its = advance f x (S i) rest cl its.
  Proof. reflexivity. Qed.

  Lemma loop_empty f cl its : fc_loop klt g (S f) [] cl its = FcDone (rev cl).
  Proof. reflexivity. Qed.

  (* ---------- the loop computes the reference search ---------- *)

  Definition sim_ok (k : nat) : Prop := forall x items rest cl,
    match dfs k x items with
    | DFound r => forall f, fc_loop klt g (dfs_steps k x items + f) ((x, O) :: rest) cl items = FcDone (rev cl ++ r)
    | DExhausted => forall f, fc_loop klt g (dfs_steps k x items + f) ((x, O) :: rest) cl items = fc_loop klt g f rest cl items
    | DDepth => True
    end.

  Lemma children_sim k x items rest cl :
    sim_ok k -> ~ In x items ->
    forall todo done, preds x = done ++ todo ->
    let F := fun p => dfs k p (x :: items) in
    let St := fun p => dfs_steps k p (x :: items) in
    match scan_children F todo with
    | DFound r => forall f, advance (children_steps F St todo + f) x (length done) rest (x :: cl) (x :: items) = FcDone (rev (x :: cl) ++ r)
    | DExhausted => forall f, advance (children_steps F St todo + f) x (length done) rest (x :: cl) (x :: items) = fc_loop klt g f rest cl items
    | DDepth => True
    end.
  Proof.
    intros Hk Hx todo. induction todo as [|p t IH]; intros done Hps F St.
    - cbn [scan_children children_steps]. intros f. unfold advance.
      rewrite Hps, app_nil_r, Nat.eqb_refl. cbn [negb tl]. rewrite set_erase_fresh by exact Hx. reflexivity.
    - cbn [scan_children children_steps].
      assert (Hlt : Nat.eqb (length done) (length (preds x)) = false).
      { apply Nat.eqb_neq. rewrite Hps, app_length. cbn [length]. lia. }
      assert (Hnth : nth (length done) (preds x) 0%N = p).
      { rewrite Hps. rewrite app_nth2 by lia. rewrite Nat.sub_diag. reflexivity. }
      pose proof (Hk p (x :: items) ((x, S (length done)) :: rest) (x :: cl)) as Hp.
      fold (F p) in Hp. fold (St p) in Hp.
      destruct (F p) as [r| |] eqn:EF.
      + intros f. unfold advance. rewrite Hlt. cbn [negb]. rewrite Hnth. apply Hp.
      + specialize (IH (done ++ [p])). rewrite <- app_assoc in IH. specialize (IH Hps).
        cbv zeta in IH. fold F in IH. fold St in IH.
        rewrite app_length in IH. cbn [length] in IH. replace (length done + 1) with (S (length done)) in IH by lia.
        destruct (scan_children F t) as [r| |] eqn:ES.
        * intros f. unfold advance at 1. rewrite Hlt. cbn [negb]. rewrite Hnth.
          replace (St p + 1 + children_steps F St t + f) with (St p + S (children_steps F St t + f)) by lia.
          rewrite Hp. rewrite loop_next. apply IH.
        * intros f. unfold advance at 1. rewrite Hlt. cbn [negb]. rewrite Hnth.
          replace (St p + 1 + children_steps F St t + f) with (St p + S (children_steps F St t + f)) by lia.
          rewrite Hp. rewrite loop_next. apply IH.
        * exact I.
      + exact I.
  Qed.

  Lemma fc_loop_dfs k : sim_ok k.
  Proof.
    induction k as [|k IH]; intros x items rest cl.
    - cbn [dfs dfs_steps]. destruct (mem_key x items) eqn:Em; [|exact I].
      intros f. cbn [Nat.add]. apply loop_found. exact Em.
    - cbn [dfs dfs_steps]. destruct (mem_key x items) eqn:Em.
      + intros f. cbn [Nat.add]. apply loop_found. exact Em.
      + assert (Hx : ~ In x items) by (apply mem_key_false; exact Em).
        pose proof (children_sim k x items rest cl IH Hx (preds x) [] eq_refl) as Hc.
        cbv zeta in Hc. cbn [length] in Hc.
        destruct (scan_children (fun p => dfs k p (x :: items)) (preds x)) as [r| |] eqn:ES.
        * intros f. cbn [Nat.add]. rewrite loop_first by exact Em. rewrite Hc.
          cbn [rev]. rewrite <- app_assoc. reflexivity.
        * intros f. cbn [Nat.add]. rewrite loop_first by exact Em. apply Hc.
        * exact I.
  Qed.

  (* more fuel never changes a finished run *)
  Lemma fc_loop_more_fuel fuel : forall stack cl its l m,
    fc_loop klt g fuel stack cl its = FcDone l -> fc_loop klt g (fuel + m) stack cl its = FcDone l.
  Proof.
    induction fuel as [|f IH]; intros stack cl its l m H; [discriminate H|].
    cbn [Nat.add]. destruct stack as [|[x i] rest]; [exact H|].
    cbn [fc_loop] in *.
    destruct (Nat.eqb i 0 && mem_key x its); [exact H|].
    destruct (negb (Nat.eqb i (length (preds x)))); apply IH; exact H.
  Qed.

  (* ---------- facts about scan_children ---------- *)

  Lemma scan_found f ps r : scan_children f ps = DFound r -> exists p, In p ps /\ f p = DFound r.
  Proof.
    induction ps as [|p t IH]; cbn [scan_children]; [discriminate|].
    destruct (f p) as [r'| |] eqn:E; intros H.
    - exists p. split; [left; reflexivity | rewrite E; exact H].
    - destruct (IH H) as [q [Hq Hf]]. exists q. split; [right; exact Hq | exact Hf].
    - discriminate H.
  Qed.

  Lemma scan_exhausted f ps : scan_children f ps = DExhausted -> forall p, In p ps -> f p = DExhausted.
  Proof.
    induction ps as [|p t IH]; cbn [scan_children]; intros H q Hq; [destruct Hq|].
    destruct (f p) as [r'| |] eqn:E; try discriminate H.
    destruct Hq as [Hq|Hq]; [subst q; exact E | apply IH; assumption].
  Qed.

  Lemma scan_depth f ps : scan_children f ps = DDepth -> exists p, In p ps /\ f p = DDepth.
  Proof.
    induction ps as [|p t IH]; cbn [scan_children]; [discriminate|].
    destruct (f p) as [r'| |] eqn:E; intros H.
    - discriminate H.
    - destruct (IH H) as [q [Hq Hf]]. exists q. split; [right; exact Hq | exact Hf].
    - exists p. split; [left; reflexivity | exact E].
  Qed.

  (* ---------- soundness of the reference search ---------- *)

  Lemma chain_cons x y t : dep x y -> chain (y :: t) -> chain (x :: y :: t).
  Proof. intros H1 H2. cbn [chain]. split; assumption. Qed.

  Lemma dfs_sound k : forall x items r, dfs k x items = DFound r ->
    exists pre z, r = pre ++ [z] /\ hd z pre = x /\ chain r /\ In z (pre ++ items) /\ NoDup pre /\ (forall y, In y pre -> ~ In y items).
  Proof.
    induction k as [|k IH]; intros x items r H; cbn [dfs] in H.
    - destruct (mem_key x items) eqn:Em; [|discriminate H].
      injection H as <-. exists [], x. cbn. repeat split; [apply mem_key_true; exact Em | constructor | intros y []].
    - destruct (mem_key x items) eqn:Em.
      + injection H as <-. exists [], x. cbn. repeat split; [apply mem_key_true; exact Em | constructor | intros y []].
      + destruct (scan_children (fun p => dfs k p (x :: items)) (preds x)) as [r'| |] eqn:ES; try discriminate H.
        injection H as <-.
        apply scan_found in ES. destruct ES as [p [Hp Hd]].
        apply IH in Hd. destruct Hd as [pre [z [Hr [Hh [Hc [Hz [Hnd Hdis]]]]]]].
        apply mem_key_false in Em.
        exists (x :: pre), z. subst r'. repeat split.
        * destruct pre as [|a pre]; cbn in Hh |- *.
          -- subst z. split; [apply preds_In; exact Hp | exact I].
          -- subst a. split; [apply preds_In; exact Hp | exact Hc].
        * cbn [app]. apply in_app_or in Hz. destruct Hz as [Hz|[Hz|Hz]].
          -- right. apply in_or_app. left. exact Hz.
          -- left. exact Hz.
          -- right. apply in_or_app. right. exact Hz.
        * constructor; [|exact Hnd]. intros Hin. apply (Hdis x Hin). left. reflexivity.
        * intros y [Hy|Hy]; [subst y; exact Em|]. intros Hi. apply (Hdis y Hy). right. exact Hi.
  Qed.

  (* ---------- the depth budget: the number of distinct nodes is enough ---------- *)

  Lemma dfs_no_depth (V : list key) : (forall x y, dep x y -> In y V) ->
    forall k x items, In x V -> NoDup items -> incl items V -> length V <= k + length items -> dfs k x items <> DDepth.
  Proof.
    intros Hclosed. induction k as [|k IH]; intros x items Hx Hnd Hincl Hlen; cbn [dfs].
    - destruct (mem_key x items) eqn:Em; [discriminate|]. exfalso.
      apply mem_key_false in Em.
      assert (Hl : length (x :: items) <= length V).
      { apply NoDup_incl_length; [constructor; assumption|]. intros y [Hy|Hy]; [subst y; exact Hx | apply Hincl; exact Hy]. }
      cbn [length] in Hl. lia.
    - destruct (mem_key x items) eqn:Em; [discriminate|]. apply mem_key_false in Em.
      destruct (scan_children (fun p => dfs k p (x :: items)) (preds x)) as [r'| |] eqn:ES; try discriminate.
      exfalso. apply scan_depth in ES. destruct ES as [p [Hp Hd]]. revert Hd. apply IH.
      + apply (Hclosed x). apply preds_In. exact Hp.
      + constructor; assumption.
      + intros y [Hy|Hy]; [subst y; exact Hx | apply Hincl; exact Hy].
      + cbn [length]. lia.
  Qed.

  (* ---------- the number of iterations ---------- *)

  Lemma children_steps_bound (f : key -> dres) (s : key -> nat) c ps :
    (forall p, s p <= c) -> children_steps f s ps <= length ps * (c + 1).
  Proof.
    intros Hs. induction ps as [|p t IH]; cbn [children_steps length]; [lia|].
    specialize (Hs p). destruct (f p); cbn [Nat.mul]; lia.
  Qed.

  Lemma dfs_steps_bound k : forall x items, dfs_steps k x items <= fc_cost (length g) k.
  Proof.
    induction k as [|k IH]; intros x items; cbn [dfs_steps fc_cost]; destruct (mem_key x items); try lia.
    pose proof (children_steps_bound (fun p => dfs k p (x :: items)) (fun p => dfs_steps k p (x :: items))
                  (fc_cost (length g) k) (preds x) (fun p => IH p (x :: items))) as Hb.
    pose proof (preds_length x) as Hl.
    assert (length (preds x) * (fc_cost (length g) k + 1) <= length g * (fc_cost (length g) k + 1))
      by (apply Nat.mul_le_mono_r; exact Hl).
    lia.
  Qed.

  (* ---------- completeness of the reference search: exhaustion means every walk is repetition-free ---------- *)

  Lemma dfs_exhausted_walks : forall l k x items, dfs k x items = DExhausted -> chain (x :: l) ->
    NoDup (x :: l) /\ (forall y, In y (x :: l) -> ~ In y items).
  Proof.
    induction l as [|y l IH]; intros k x items H Hc.
    - destruct k; cbn [dfs] in H; destruct (mem_key x items) eqn:Em; try discriminate H.
      apply mem_key_false in Em. split; [constructor; [intros []|constructor]|]. intros y [Hy|[]]. subst y. exact Em.
    - destruct k as [|k]; cbn [dfs] in H; destruct (mem_key x items) eqn:Em; try discriminate H.
      apply mem_key_false in Em.
      destruct (scan_children (fun p => dfs k p (x :: items)) (preds x)) as [r'| |] eqn:ES; try discriminate H.
      destruct Hc as [Hd Hc].
      pose proof (scan_exhausted _ _ ES y (proj2 (preds_In x y) Hd)) as Hy.
      destruct (IH k y (x :: items) Hy Hc) as [Hnd Hdis].
      split.
      + constructor; [|exact Hnd]. intros Hin. apply (Hdis x Hin). left. reflexivity.
      + intros z [Hz|Hz]; [subst z; exact Em|]. intros Hi. apply (Hdis z Hz). right. exact Hi.
  Qed.
End Proofs.
