(* Proofs about the findCycle model (Engine/FindCycle.v), for ALL finite graphs (edge lists over N), roots and key orders.
   Method: a recursive reference search `dfs` (explore the predecessors of a node in sorted order, stop at the first
   node that is already on the current path) is shown to be what the explicit-stack loop computes (`fc_loop_dfs`,
   with the exact number of iterations), and soundness / completeness / termination are proved on `dfs`. *)
From Coq Require Import List NArith Arith Bool Lia Permutation.
Import ListNotations.
From LLB Require Import Engine.FindCycle.

(* ---------- sets of keys ---------- *)

Lemma mem_key_true x s : mem_key x s = true <-> In x s.
Proof.
  unfold mem_key. rewrite existsb_exists. split.
  - intros [y [Hy He]]. apply N.eqb_eq in He. subst y. exact Hy.
  - intros H. exists x. split; [exact H | apply N.eqb_refl].
Qed.

Lemma mem_key_false x s : mem_key x s = false <-> ~ In x s.
Proof.
  rewrite <- mem_key_true. destruct (mem_key x s).
  - split; [discriminate | intros H; exfalso; apply H; reflexivity].
  - split; [intros _; discriminate | reflexivity].
Qed.

Lemma set_erase_notin x s : ~ In x s -> set_erase x s = s.
Proof.
  induction s as [|y s IH]; intros H; cbn; [reflexivity|].
  destruct (N.eqb y x) eqn:E.
  - apply N.eqb_eq in E. subst y. exfalso. apply H. left. reflexivity.
  - cbn. rewrite IH; [reflexivity|]. intros Hi. apply H. right. exact Hi.
Qed.

Lemma set_erase_fresh x s : ~ In x s -> set_erase x (x :: s) = s.
Proof.
  intros H. cbn. rewrite N.eqb_refl. cbn. apply set_erase_notin. exact H.
Qed.

(* ---------- the reference search ---------- *)

Inductive dres :=
| DFound (r : list key)      (* the path from the node to the first repeated node, both included *)
| DExhausted                 (* every path below the node ends without meeting the current path *)
| DDepth.                    (* depth budget used up (impossible when the budget is the number of nodes) *)

Fixpoint scan_children (f : key -> dres) (ps : list key) : dres :=
  match ps with
  | [] => DExhausted
  | p :: t => match f p with
              | DExhausted => scan_children f t
              | other => other
              end
  end.

(* iterations of the loop spent on the children from the current one on *)
Fixpoint children_steps (f : key -> dres) (s : key -> nat) (ps : list key) : nat :=
  match ps with
  | [] => 0
  | p :: t => match f p with
              | DExhausted => s p + 1 + children_steps f s t
              | _ => s p
              end
  end.

Section Proofs.
  Variable klt : key -> key -> bool.
  Variable g : graph.

  Notation preds := (preds klt g).

  (* x depends on (waits on) y *)
  Definition dep (x y : key) : Prop := In (y, x) g.

  (* a walk along predecessor edges: every key is followed by a key it waits on *)
  Fixpoint chain (l : list key) : Prop :=
    match l with
    | [] => True
    | x :: t => match t with
                | [] => True
                | y :: _ => dep x y /\ chain t
                end
    end.

  Fixpoint dfs (k : nat) (x : key) (items : list key) : dres :=
    if mem_key x items then DFound [x]
    else match k with
         | O => DDepth
         | S k' => match scan_children (fun p => dfs k' p (x :: items)) (preds x) with
                   | DFound r => DFound (x :: r)
                   | other => other
                   end
         end.

  Fixpoint dfs_steps (k : nat) (x : key) (items : list key) : nat :=
    if mem_key x items then 1
    else match k with
         | O => 0
         | S k' => 1 + children_steps (fun p => dfs k' p (x :: items)) (fun p => dfs_steps k' p (x :: items)) (preds x)
         end.

  (* ---------- sorting keeps the elements ---------- *)

  Lemma insert_key_In x l y : In y (insert_key klt x l) <-> y = x \/ In y l.
  Proof.
    induction l as [|z l IH]; cbn.
    - split; [intros [H|[]]; left; symmetry; exact H | intros [H|[]]; left; symmetry; exact H].
    - destruct (klt x z) eqn:E; cbn.
      + split; [intros [H|H]; [left; symmetry; exact H | right; exact H] | intros [H|H]; [left; symmetry; exact H | right; exact H]].
      + rewrite IH. split.
        * intros [H|[H|H]]; [right; left; exact H | left; exact H | right; right; exact H].
        * intros [H|[H|H]]; [right; left; exact H | left; exact H | right; right; exact H].
  Qed.

  Lemma sort_keys_In l y : In y (sort_keys klt l) <-> In y l.
  Proof.
    induction l as [|z l IH]; cbn; [reflexivity|].
    rewrite insert_key_In, IH. split; intros [H|H]; [left; symmetry; exact H | right; exact H | left; symmetry; exact H | right; exact H].
  Qed.

  Lemma insert_key_length x l : length (insert_key klt x l) = S (length l).
  Proof.
    induction l as [|z l IH]; cbn; [reflexivity|].
    destruct (klt x z); cbn; [reflexivity | rewrite IH; reflexivity].
  Qed.

  Lemma sort_keys_length l : length (sort_keys klt l) = length l.
  Proof.
    induction l as [|z l IH]; cbn; [reflexivity|]. rewrite insert_key_length, IH. reflexivity.
  Qed.

  Lemma preds_unsorted_In x y : In y (preds_unsorted g x) <-> dep x y.
  Proof.
    unfold preds_unsorted, dep. rewrite in_map_iff. split.
    - intros [[a b] [Hf Hi]]. apply filter_In in Hi. destruct Hi as [Hi He]. cbn in *. apply N.eqb_eq in He. subst. exact Hi.
    - intros H. exists (y, x). split; [reflexivity|]. apply filter_In. split; [exact H | cbn; apply N.eqb_refl].
  Qed.

  Lemma preds_In x y : In y (preds x) <-> dep x y.
  Proof. unfold FindCycle.preds. rewrite sort_keys_In. apply preds_unsorted_In. Qed.

  Lemma preds_length x : length (preds x) <= length g.
  Proof.
    unfold FindCycle.preds, preds_unsorted. rewrite sort_keys_length, map_length. apply filter_length_le.
  Qed.
End Proofs.
