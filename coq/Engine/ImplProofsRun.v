(* P19 - part 16: whole builds (run_loop / ibuild): a build that returns success without a failed assert leaves the engine quiescent. *)
From LLB Require Import Engine.Rules Engine.Spec Engine.Impl Engine.ImplProofs Engine.ImplProofsSticky Engine.ImplProofsLoop Engine.ImplProofsInv
  Engine.ImplProofsInv9 Engine.ImplProofsStall.
From Coq Require Import Arith Lia.
Local Open Scope N_scope.

Section Run.
Variable rules : key -> rule.
Variable env : key -> N.
Variable F : key -> N -> list value -> list N -> N -> N.
Variable ord : key -> list rkind.
Variable syncp : key -> bool.
Notation in_build := (in_build rules env F ord syncp).

Lemma sticky_finish_all comps : forall s, nf (fold_left (task_finish rules) comps s) -> nf s.
Proof. induction comps as [|t l IH]; intros s; cbn [fold_left]; auto. intros H. apply IH in H. now apply sticky_task_finish in H. Qed.

Lemma in_build_iteration stalled s0 root s fuel comps s' st :
  in_build s0 root s -> loop_iteration_gen rules env F ord syncp stalled fuel s comps = (s', st) -> nf s' -> in_build s0 root s'.
Proof.
  intros [Q M] Hrun Hn. split; auto.
  pose proof (loop_iteration_msteps rules env F ord syncp stalled fuel s comps) as Hm. rewrite Hrun in Hm. cbn [fst] in Hm.
  eapply msteps_trans; [exact M|apply Hm, Hn].
Qed.

Lemma sticky_loop_iteration stalled fuel s comps : nf (fst (loop_iteration_gen rules env F ord syncp stalled fuel s comps)) -> nf s.
Proof.
  unfold loop_iteration_gen. cbn zeta.
  match goal with |- nf (fst (if ?b1 then (?x, _) else if ?b2 then (?x, _) else if ?b3 then (?x, _) else (?x, _))) -> _ =>
    assert (E : fst (if b1 then (x, StWork) else if b2 then (x, StWait) else if b3 then (x, StStall) else (x, StDone)) = x) by (destruct b1, b2, b3; reflexivity);
    rewrite E; clear E end.
  intros H.
  apply sticky_drain in H; [|apply sticky_step_fintask].
  apply sticky_drain in H; [|apply sticky_step_ready].
  apply sticky_drain in H; [|apply sticky_step_fininreq].
  apply sticky_drain in H; [|apply sticky_step_inreq].
  apply sticky_drain in H; [|apply sticky_step_scan].
  now apply sticky_finish_all in H.
Qed.

Lemma run_loop_sticky stalled fuel pfuel root : forall s sched marks sf m,
  run_loop_gen rules env F ord syncp stalled fuel pfuel root s sched marks = (RDone sf, m) -> nf sf -> nf s.
Proof.
  induction fuel as [|f IH]; intros s sched marks sf m Hrun Hn; cbn [run_loop_gen] in Hrun; [discriminate|].
  destruct (loop_iteration_gen rules env F ord syncp stalled pfuel s _) as [s' st] eqn:Hit.
  assert (Hs : nf s' -> nf s).
  { intros H. eapply sticky_loop_iteration. rewrite Hit. exact H. }
  destruct st.
  - apply Hs. eapply IH; eauto.
  - destruct (_ && _); [discriminate|]. apply Hs. eapply sticky_finish_all. eapply IH; eauto.
  - discriminate.
  - inversion Hrun. subst sf m. now apply Hs.
Qed.

(* a successful return of executeTasks without a failed assert: quiescent *)
Lemma run_loop_done fuel pfuel root s0 : forall s sched marks sf m,
  in_build s0 root s -> run_loop_gen rules env F ord syncp stall_test fuel pfuel root s sched marks = (RDone sf, m) -> nf sf -> quiescent sf.
Proof.
  induction fuel as [|f IH]; intros s sched marks sf m Hb Hrun Hn; cbn [run_loop_gen] in Hrun; [discriminate|].
  destruct (loop_iteration_gen rules env F ord syncp stall_test pfuel s _) as [s' st] eqn:Hit.
  destruct st.
  - assert (Hn' : nf s') by (eapply run_loop_sticky; eauto).
    eapply IH; [|exact Hrun|exact Hn]. eapply in_build_iteration; eauto.
  - destruct (_ && _); [discriminate|].
    assert (Hn'' : nf (fold_left (task_finish rules) (match sched with [] => [] | c :: _ => snd c end) s')) by (eapply run_loop_sticky; eauto).
    eapply IH; [|exact Hrun|exact Hn]. apply in_build_finish_all. eapply in_build_iteration; eauto. now apply sticky_finish_all in Hn''.
  - discriminate.
  - inversion Hrun. subst sf m. eapply (done_quiescent rules env F ord syncp); eauto.
Qed.

Lemma quiescent_commit_emit s e : quiescent s -> quiescent (iemit (commit s) e).
Proof. intros Q. exact Q. Qed.

(* BuildEngine::build returned a value and no assert failed: the engine is quiescent for the next build *)
Theorem build_done_quiescent fuel pfuel s0 root sched sf m : quiescent s0 ->
  ibuild rules env F ord syncp fuel pfuel s0 root sched = (RDone sf, m) -> is_fault sf = None -> quiescent sf.
Proof.
  intros Q Hrun Hn. unfold ibuild, ibuild_gen in Hrun. cbn zeta in Hrun.
  destruct (run_build_gen rules env F ord syncp stall_test fuel pfuel root (iemit (bump s0) (EBuildStart root)) sched) as [r mm] eqn:Hr.
  destruct r; inversion Hrun. subst sf m. apply quiescent_commit_emit.
  unfold run_build_gen in Hr. eapply run_loop_done; [|exact Hr|].
  - split; [exact Q|apply mss_refl].
  - unfold nf in *. now autorewrite with iv in Hn.
Qed.
End Run.
