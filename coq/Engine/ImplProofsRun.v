(* P19 - part 16: whole builds (run_loop / ibuild): a build that returns success without a failed assert leaves the engine quiescent. *)
From LLB Require Import Engine.Rules Engine.Spec Engine.Impl Engine.ImplProofs Engine.ImplProofsSticky Engine.ImplProofsLoop Engine.ImplProofsInv
  Engine.ImplProofsInv9 Engine.ImplProofsStall.
From Coq Require Import Arith Lia.
Local Open Scope N_scope.

Section Run.
Variable rules : key -> rule.
Variable env : key -> N.
Variable F : key -> N -> list value -> list N -> N -> N.
Variable ord : key -> list rkind.
Variable syncp : key -> bool.
Notation in_build := (in_build rules env F ord syncp).

Lemma sticky_finish_all comps : forall s, nf (fold_left (task_finish rules) comps s) -> nf s.
Proof. induction comps as [|t l IH]; intros s; cbn [fold_left]; auto. intros H. apply IH in H. now apply sticky_task_finish in H. Qed.

Lemma in_build_iteration stalled s0 root s fuel comps s' st :
  in_build s0 root s -> loop_iteration_gen rules env F ord syncp stalled fuel s comps = (s', st) -> nf s' -> in_build s0 root s'.
Proof.
  intros [Q M] Hrun Hn. split; auto.
  pose proof (loop_iteration_msteps rules env F ord syncp stalled fuel s comps) as Hm. rewrite Hrun in Hm. cbn [fst] in Hm.
  eapply msteps_trans; [exact M|apply Hm, Hn].
Qed.

(* a successful return of executeTasks without a failed assert: quiescent *)
Lemma run_loop_done fuel pfuel root s0 : forall s sched marks sf m,
  in_build s0 root s -> run_loop_gen rules env F ord syncp stall_test fuel pfuel root s sched marks = (RDone sf, m) -> nf sf -> quiescent sf.
Proof.
  induction fuel as [|f IH]; intros s sched marks sf m Hb Hrun Hn; cbn [run_loop_gen] in Hrun; [discriminate|].
  destruct (loop_iteration_gen rules env F ord syncp stall_test pfuel s _) as [s' st] eqn:Hit.
  destruct st.
  - (* StWork *)
    destruct (is_fault s') eqn:Ef.
    + exfalso. admit_run1.
    + eapply IH; [|exact Hrun|exact Hn]. eapply in_build_iteration; eauto.
  - admit_run2.
  - discriminate.
  - inversion Hrun. subst sf m. eapply (done_quiescent rules env F ord syncp); eauto.
Qed.
End Run.
