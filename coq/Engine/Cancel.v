(* C05 - cancellation on top of the specification engine (Spec.v is not touched).  Definitions only.

   lib/Core/BuildEngine.cpp: `cancelBuild` sets `buildCancelled`; the engine tests it at the top of every iteration of the
   `executeTasks` loop and then calls `cancelRemainingTasks` (drain the computing tasks, then for every task still
   registered: `setPendingTaskInfo(nullptr); setCancelled(); taskWasCancelled = true`), returns false, and `build()`
   writes the iteration (`setCurrentIteration`, also on a cancelled build) and returns the empty value.

   Model: `Spec.v`'s step functions are parameterised by the recursive call, and an aborting outcome `Cycle s p` is
   propagated unchanged by every piece.  `ensure_c` ties a second knot: before every nested call it tests whether the
   number of events logged since the build started has reached the budget `n`; if so it aborts with `Cycle s []`
   (a real cycle path is never empty: `ensure_body` reports `k :: stack`). *)
From LLB Require Import Engine.Rules Engine.Spec Engine.Exec.
Local Open Scope N_scope.

(* ---------- the events of the current build ---------- *)

(* the events logged since the log had length [base] (most recent first) *)
Definition build_log (s : state) (base : nat) : list event :=
  firstn (length (st_log s) - base)%nat (st_log s).

Definition is_create (k : key) (e : event) : bool := match e with ECreate x => N.eqb x k | _ => false end.
Definition is_complete (k : key) (e : event) : bool := match e with EComplete x _ => N.eqb x k | _ => false end.
Definition created_in (l : list event) (k : key) : bool := existsb (is_create k) l.
Definition completed_in (l : list event) (k : key) : bool := existsb (is_complete k) l.

Fixpoint created_keys (l : list event) : list key :=
  match l with
  | [] => []
  | ECreate k :: t => k :: created_keys t
  | _ :: t => created_keys t
  end.

(* tasks in progress: created, not completed *)
Definition in_progress (l : list event) : list key :=
  filter (fun k => negb (completed_in l k)) (created_keys l).

(* ---------- the cancellable engine ---------- *)

Definition budget_reached (n base : nat) (s : state) : bool := Nat.leb n (length (st_log s) - base).

Section Cancel.
Variable rules : key -> rule.
Variable env : key -> N.
Variable F : key -> N -> list value -> list N -> N -> N.
Variable order : N -> key -> list dep -> list dep.

Fixpoint ensure_c (n base : nat) (fuel : nat) (stack : list key) (s : state) (k : key) {struct fuel} : outcome :=
  match fuel with
  | O => OutOfFuel
  | S f => if budget_reached n base s then Cycle s []
           else ensure_body rules env F order (ensure_c n base f) stack s k
  end.

(* cancelRemainingTasks: every task still registered is dropped and its rule flagged (taskWasCancelled); memory and
   database stay as they are.  The model records dependencies only at completion, so a rule in progress still holds
   its old result; the real engine holds the old value and epochs with a partial dependency list, which no later
   build looks at because a flagged rule is not scanned: it runs. *)
Definition cancel_reset (s : state) (base : nat) : state :=
  mkSt (st_mem s) (st_epoch s) (st_db s) (st_db_epoch s) (in_progress (build_log s base) ++ st_flag s) (st_log s).

(* ---- the code before fix d025783: no flag, and the partial dependency list is what the next build scans ---- *)

(* the requests of task k already delivered, oldest first: (slot, key) *)
Fixpoint provided (k : key) (l : list event) : list (nat * key) :=
  match l with
  | [] => []
  | EProvide x slot d _ :: t => if N.eqb x k then provided k t ++ [(slot, d)] else provided k t
  | _ :: t => provided k t
  end.

(* demandRule cleared result.dependencies; each delivered input was appended again (BuildEngine.cpp:869).  The slot
   index tells a single-use request from the others.  Must-follow inputs deliver no value and leave no event: they
   are not reconstructed here (they are order-only, a scan never re-runs a rule because of them). *)
Definition partial_deps (rl : rule) (ps : list (nat * key)) : list dep :=
  map (fun p => mkDep (snd p) false
                  (Nat.leb (length (r_req rl)) (fst p) && Nat.ltb (fst p) (length (r_req rl) + length (r_single rl)))) ps.

Definition v0_result (l : list event) (s : state) (k : key) : result :=
  let r := get (st_mem s) k in
  mkRes (res_value r) (res_sig r) (res_computedAt r) (res_builtAt r) (partial_deps (rules k) (provided k l)).

Definition cancel_reset_v0 (s : state) (base : nat) : state :=
  let l := build_log s base in
  fold_left (fun s' k => set_mem s' k (v0_result l s' k)) (in_progress l) s.

(* ---- one cancellable build: budget n = number of events after which the next loop-top test sees the request ---- *)

Definition build_cancel_with (reset : state -> nat -> state) (n : nat) (fuel : nat) (s : state) (k : key) : outcome :=
  let base := length (st_log s) in
  match ensure_c n base fuel [] (bump_epoch s) k with
  | Ok s1 => Ok (commit_epoch s1)
  | Cycle s1 [] => Cycle (commit_epoch (reset s1 base)) []      (* cancelled: build() returns the empty value *)
  | Cycle s1 p => Cycle (commit_epoch s1) p                     (* a real cycle, exactly as Spec.build *)
  | OutOfFuel => OutOfFuel
  end.

Definition build_cancel := build_cancel_with cancel_reset.
Definition build_cancel_v0 := build_cancel_with cancel_reset_v0.

(* every key completed in the aborted build has its discovered dependencies complete in the state at the abort *)
Definition no_pending_discovered (s : state) (base : nat) : Prop :=
  forall k v, In (EComplete k v) (build_log s base) ->
  forall d, In d (r_disc (rules k)) -> res_builtAt (get (st_mem s) d) = st_epoch s.

End Cancel.

(* ---------- histories with cancelled builds ---------- *)

Inductive cop :=
| CPlain (o : op)                      (* an operation of Exec.v *)
| CBuildCancel (k : key) (n : nat)     (* build k, cancellation seen after n events *)
| CBuildCancelV0 (k : key) (n : nat).  (* the same on the engine before the flag existed *)

Section CHistory.
Variable F : key -> N -> list value -> list N -> N -> N.
Variable order : N -> key -> list dep -> list dep.
Variable fuel : nat.

Definition cancel_step (reset : (key -> rule) -> state -> nat -> state) (h : hstate) (k : key) (n : nat) : hstate :=
  let s0 := emit (h_st h) (EBuildStart k) in
  let rules := rules_of (h_rules h) in
  match build_cancel_with rules (env_of (h_env h)) F order (reset rules) n fuel s0 k with
  | Ok s1 => mkH (emit s1 (EResult (result_of s1 k) false)) (h_env h) (h_rules h) (h_pending h)
  | Cycle s1 [] => mkH (emit s1 (EResult None true)) (h_env h) (h_rules h) (h_pending h)
  | Cycle s1 p => mkH (emit (emit s1 (ECycleReported p)) (EResult None true)) (h_env h) (h_rules h) (h_pending h)
  | OutOfFuel => mkH (emit s0 (EResult None true)) (h_env h) (h_rules h) (h_pending h)
  end.

Definition chstep (h : hstate) (o : cop) : hstate :=
  match o with
  | CPlain o' => hstep F order fuel h o'
  | CBuildCancel k n => cancel_step (fun _ => cancel_reset) h k n
  | CBuildCancelV0 k n => cancel_step cancel_reset_v0 h k n
  end.

Definition run_chistory (ops : list cop) : hstate := fold_left chstep ops init_h.

(* the result reported by the most recent build of a history, and whether it failed *)
Fixpoint last_result (l : list event) : option (option value * bool) :=
  match l with
  | [] => None
  | EResult v b :: _ => Some (v, b)
  | _ :: t => last_result t
  end.

(* the clean-build value of k in the world the history has reached *)
Definition clean_value (h : hstate) (k : key) : option value :=
  cv (rules_of (h_pending h)) (env_of (h_env h)) F fuel k.

End CHistory.
