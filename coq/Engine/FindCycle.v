(* C07 - the pure part of cycle reporting: BuildEngineImpl::findCycle (lib/Core/BuildEngine.cpp), from the point
   where `successorGraph` is complete (verification hook point 3 dumps exactly that graph) to the returned key list.

   Definitions only; proofs are in FindCycleProofs.v.

   Direction.  `successorGraph[a]` holds the rules that are WAITING ON a (the tasks that requested a, the rules whose
   scan is deferred on a).  An edge is written (a, b) here and `a>b` by the driver: "b waits on a".
   The code inverts the graph (`predecessorGraph[b]` = everything b waits on), sorts every predecessor list by
   key and searches depth-first from the requested key along predecessor edges.  In the reported list each key is
   therefore followed by a key IT WAITS ON.

   What is transliterated:
     for (entry : successorGraph) for (succ : entry.second) predecessorGraph[succ].push_back(entry.first);
     std::sort(each predecessor list, a->key < b->key);
     stack = { WorkItem{root} }   (WorkItem = node, predecessorIndex = 0)
     while (!stack.empty()) {
       entry = stack.back(); predecessors = predecessorGraph[entry.node];
       if (entry.predecessorIndex == 0) { cycleList.push_back(node); if (!cycleItems.insert(node).second) break; }
       if (entry.predecessorIndex != predecessors.size()) { child = predecessors[index]; index += 1; stack.emplace_back(child); continue; }
       cycleItems.erase(node); cycleList.pop_back(); stack.pop_back();
     }
     return cycleList;
   The iteration order of the two unordered_maps is unspecified in C++; the model takes the edges as a list in any
   order (FindCycleProofs.fc_edge_order_irrelevant: for a strict total key order the result does not depend on it).
   There is NO set of finished nodes in the code: a node whose predecessors are exhausted is removed from `cycleItems`
   and explored again when it is reached along another path.  The model keeps that. *)
From Coq Require Import List NArith Arith Bool Lia.
Import ListNotations.

Definition key := N.
Definition edge := (key * key)%type.          (* (a, b): b waits on a, i.e. b is in successorGraph[a] *)
Definition graph := list edge.

(* ---------- the key order of the harness: keys are the byte strings "k<decimal>", compared by std::string < ---------- *)

Fixpoint uint_digits (u : Decimal.uint) : list N :=
  match u with
  | Decimal.Nil => []
  | Decimal.D0 v => 0%N :: uint_digits v
  | Decimal.D1 v => 1%N :: uint_digits v
  | Decimal.D2 v => 2%N :: uint_digits v
  | Decimal.D3 v => 3%N :: uint_digits v
  | Decimal.D4 v => 4%N :: uint_digits v
  | Decimal.D5 v => 5%N :: uint_digits v
  | Decimal.D6 v => 6%N :: uint_digits v
  | Decimal.D7 v => 7%N :: uint_digits v
  | Decimal.D8 v => 8%N :: uint_digits v
  | Decimal.D9 v => 9%N :: uint_digits v
  end.

(* lexicographic <, a proper prefix is smaller (std::string::compare) *)
Fixpoint lex_ltb (a b : list N) : bool :=
  match a, b with
  | _, [] => false
  | [], _ :: _ => true
  | x :: a', y :: b' => if N.ltb x y then true else if N.ltb y x then false else lex_ltb a' b'
  end.

(* the decimal digits of the number (most significant first; 0 is "0"), as std::to_string prints them *)
Definition key_name_digits (k : key) : list N := uint_digits (N.to_uint k).

(* "k<a>" < "k<b>" as byte strings: the common first byte is skipped, digits compare like their ASCII codes *)
Definition klt_name (a b : key) : bool := lex_ltb (key_name_digits a) (key_name_digits b).

(* ---------- cycleItems: std::unordered_set<Rule*> ---------- *)

Definition mem_key (x : key) (s : list key) : bool := existsb (N.eqb x) s.
Definition set_insert (x : key) (s : list key) : list key := if mem_key x s then s else x :: s.
Definition set_erase (x : key) (s : list key) : list key := filter (fun y => negb (N.eqb y x)) s.

Inductive fc_result :=
| FcDone (cycle : list key)       (* the returned cycleList (front first) *)
| FcOutOfFuel.                    (* model artefact: proved unreachable for fuel >= fc_fuel *)

Definition work_item := (key * nat)%type.       (* WorkItem: node, predecessorIndex *)

Section WithOrder.
  Variable klt : key -> key -> bool.            (* a->key < b->key *)

  (* std::sort of a predecessor list.  Equal keys are the same Rule*, so any sorting algorithm gives the same vector. *)
  Fixpoint insert_key (x : key) (l : list key) : list key :=
    match l with
    | [] => [x]
    | y :: t => if klt x y then x :: y :: t else y :: insert_key x t
    end.
  Fixpoint sort_keys (l : list key) : list key :=
    match l with
    | [] => []
    | x :: t => insert_key x (sort_keys t)
    end.

  (* predecessorGraph[x] after the inversion loop, in some order *)
  Definition preds_unsorted (g : graph) (x : key) : list key :=
    map fst (filter (fun e => N.eqb (snd e) x) g).
  (* predecessorGraph[x] after normalisation; [] for a node that never occurs as a successor (operator[] default) *)
  Definition preds (g : graph) (x : key) : list key := sort_keys (preds_unsorted g x).

  (* The while loop.  clist is cycleList REVERSED (its head is cycleList.back()); items is cycleItems. *)
  Fixpoint fc_loop (g : graph) (fuel : nat) (stack : list work_item) (clist items : list key) : fc_result :=
    match fuel with
    | O => FcOutOfFuel
    | S f =>
      match stack with
      | [] => FcDone (rev clist)
      | (node, idx) :: rest =>
        let ps := preds g node in
        let first := Nat.eqb idx 0 in
        let clist1 := if first then node :: clist else clist in
        let found := first && mem_key node items in
        let items1 := if first then set_insert node items else items in
        if found then FcDone (rev clist1)
        else if negb (Nat.eqb idx (length ps)) then
          fc_loop g f ((nth idx ps 0%N, O) :: (node, S idx) :: rest) clist1 items1
        else
          fc_loop g f rest (tl clist1) (set_erase node items1)
      end
    end.

  Definition findCycle (g : graph) (root : key) (fuel : nat) : fc_result :=
    fc_loop g fuel [(root, O)] [] [].
End WithOrder.


(* ---------- vocabulary of the statements about the function (FindCycleProofs.v, Props/Properties_C07.v) ---------- *)

(* x waits on y: y is a predecessor of x, i.e. x is in successorGraph[y] *)
Definition dep (g : graph) (x y : key) : Prop := In (y, x) g.

(* a walk along predecessor edges: every key is followed by a key it waits on *)
Fixpoint chain (g : graph) (l : list key) : Prop :=
  match l with
  | [] => True
  | x :: t => match t with
              | [] => True
              | y :: _ => dep g x y /\ chain g t
              end
  end.

(* some walk from the root along predecessor edges visits a key twice *)
Definition cycle_reachable (g : graph) (root : key) : Prop := exists w, chain g (root :: w) /\ ~ NoDup (root :: w).

(* every key reachable from the root waits on something (the situation of a stalled engine) *)
Definition no_dead_end (g : graph) (root : key) : Prop :=
  forall w, chain g (root :: w) -> exists p, dep g (last (root :: w) root) p.

Definition closed_walk (g : graph) (y : key) (m : list key) : Prop := chain g (y :: m ++ [y]).   (* y -> ... -> y, at least one edge *)
Definition reachable (g : graph) (root y : key) : Prop := exists w, chain g (root :: w) /\ last (root :: w) root = y.
Definition acyclic (g : graph) : Prop := forall y m, ~ closed_walk g y m.

(* ---------- fuel that always suffices (FindCycleProofs.fc_terminates) ---------- *)

(* every key that occurs: the root and both ends of every edge, without repetition *)
Definition fc_nodes (g : graph) (root : key) : list key :=
  nodup N.eq_dec (root :: map fst g ++ map snd g).

(* iterations spent below one node when at most k further nodes can be stacked and a node has at most d predecessors.
   Exponential in k: the search has no finished set (see above). *)
Fixpoint fc_cost (d k : nat) : nat :=
  match k with
  | O => 1
  | S k' => 1 + d * (fc_cost d k' + 1)
  end.

Definition fc_fuel (g : graph) (root : key) : nat := S (fc_cost (length g) (length (fc_nodes g root))).


(* ---------- the recursive reading of the loop (FindCycleProofs.fc_exact: this is what the loop computes) ----------
   Explore the sorted predecessors of a node in order; stop at the first node that is already on the current path. *)

Inductive dres :=
| DFound (r : list key)      (* the path from the node to the first repeated node, both included *)
| DExhausted                 (* every path below the node ends without meeting the current path *)
| DDepth.                    (* depth budget used up (impossible when the budget is the number of keys) *)

Fixpoint scan_children (f : key -> dres) (ps : list key) : dres :=
  match ps with
  | [] => DExhausted
  | p :: t => match f p with
              | DExhausted => scan_children f t
              | other => other
              end
  end.

Fixpoint dfs (klt : key -> key -> bool) (g : graph) (k : nat) (x : key) (items : list key) : dres :=
  if mem_key x items then DFound [x]
  else match k with
       | O => DDepth
       | S k' => match scan_children (fun p => dfs klt g k' p (x :: items)) (preds klt g x) with
                 | DFound r => DFound (x :: r)
                 | other => other
                 end
       end.

Definition fc_reference (klt : key -> key -> bool) (g : graph) (root : key) : list key :=
  match dfs klt g (length (fc_nodes g root)) root [] with DFound r => r | _ => [] end.

(* the harness instance *)
Definition findcycle_names (g : graph) (root : key) (fuel : nat) : fc_result := findCycle klt_name g root fuel.
