(* P19b stage 3, part 8: one scan request (processRuleScanRequest: the loop over the recorded inputs, finishScanRequest). *)
From LLB Require Import Engine.Rules Engine.Spec Engine.SpecInv1 Engine.Impl Engine.ImplProofs Engine.ImplProofsSticky Engine.ImplProofsMono Engine.ImplProofsInv
  Engine.ImplProofsInv2 Engine.ImplProofsInv3 Engine.ImplProofsInv4 Engine.ImplProofsInv5 Engine.ImplProofsInv6 Engine.ImplProofsInv7 Engine.ImplProofsInv8 Engine.ImplProofsInv9
  Engine.ImplVal1 Engine.ImplVal2 Engine.ImplVal3 Engine.ImplVal4 Engine.ImplVal5 Engine.ImplInc1 Engine.ImplInc2 Engine.ImplInc3 Engine.ImplInc4 Engine.ImplInc5 Engine.ImplInc6
  Engine.ImplInc7.
From Coq Require Import Arith Lia.
Local Open Scope N_scope.

Section Inc.
Variable rules : key -> rule.
Variable env : key -> N.
Variable F : key -> N -> list value -> list N -> N -> N.
Variable rank : key -> nat.
Variable R : key -> N -> rule.
Variable ord : key -> list rkind.
Hypothesis Hrank : wf_rank rules rank.
Hypothesis Hwfd : wf_disc rules.
Hypothesis HRt : table_ok rules R.
Hypothesis Hord : forall k, In RReq (ord k).
Notation cvK := (cvK rules env F rank).
Notation concl := (concl F R).
Notation rowok := (rowok F R).
Notation BT := (BT rules env F rank).
Notation BC := (BC rules F R).
Notation BS := (BS rules env F rank R).
Notation BInv := (BInv rules env F rank R).

(* the scan request at the head of ruleInfosToScan is replaced by another request of the same rule *)
Lemma BInv_replace_sreq root su su' rq rq' rest : BInv root None su -> sreq_scanning su -> is_toscan su = rq :: rest -> is_toscan su' = rq' :: rest ->
  sq_rule rq' = sq_rule rq -> (forall k, rinfo_of su' k = rinfo_of su k) -> is_tasks su' = is_tasks su -> is_inreq su' = is_inreq su ->
  is_fininreq su' = is_fininreq su -> is_fintasks su' = is_fintasks su -> is_usedb su' = is_usedb su -> is_epoch su' = is_epoch su ->
  (forall j d, (j < sq_index rq')%nat -> nth_error (deps su (sq_rule rq)) j = Some d ->
     curk su (d_key d) /\ (d_order d = false -> cAt su (d_key d) <= bAt su (sq_rule rq))) ->
  (forall i d, sq_input rq' = Some i -> nth_error (deps su (sq_rule rq)) (sq_index rq') = Some d -> sq_order rq' = d_order d) ->
  (forall k', kind_of su k' = KDoesNotNeedToRun -> sq_input rq = Some k' -> sq_input rq' = Some k') ->
  BInv root None su'.
Proof.
  intros (HT & HC & HS) Hss Hq Hq' Hr RI Htk Hi Hf Hft Hu He Hpre Hso Hpd.
  assert (HR : forall k, res_of su' k = res_of su k) by (intros; unfold res_of; now rewrite RI).
  assert (Hsgs : forall k, res_sig (res_of su' k) = res_sig (res_of su k)) by (intros k; now rewrite HR).
  assert (HK : forall k, kind_of su' k = kind_of su k) by (intros; unfold kind_of; now rewrite RI).
  assert (Hst : forall k, stored su' k = stored su k) by (intros k; unfold stored; now rewrite HR).
  assert (Hca : forall k, cAt su' k = cAt su k) by (intros k; unfold cAt; now rewrite HR).
  assert (Hba : forall k, bAt su' k = bAt su k) by (intros k; unfold bAt; now rewrite HR).
  assert (Hdp : forall k, deps su' k = deps su k) by (intros k; unfold deps; now rewrite HR).
  assert (HdpC : forall k, deps su' k = deps su k \/ (deps su' k = drop_single (deps su k) /\ ~ curk su' k /\ bAt su' k = bAt su k)) by (intros; left; apply Hdp).
  assert (HdpS : forall k, kind_of su k = KScanning \/ kind_of su k = KDoesNotNeedToRun -> deps su' k = deps su k) by (intros; apply Hdp).
  assert (Hcu : forall k, curk su' k <-> curk su k) by (intros k; apply curk_same; auto).
  assert (Htask : forall t, task_of su' t = task_of su t) by (intros; unfold task_of; now rewrite Htk).
  assert (HU : forall y, Unrouted su y <-> Unrouted su' y) by (apply Unrouted_same; auto; intros k; now rewrite RI).
  assert (HSr : forall y, Sreq su' y -> y = rq' \/ Sreq su y).
  { intros y [H|[(k & H)|(t0 & z & Hz & H)]]; [rewrite Hq' in H; destruct H as [H|H]; [now left|right; left; rewrite Hq; now right]|right; right; left; exists k; now rewrite <- RI|].
    right. right. right. exists t0, z. now rewrite <- Htask. }
  split; [|split].
  - apply (BT_rules_change rules env F rank root su su' HT); auto.
    + intros k H. now apply Hcu.
    + intros k H. left. now apply Hcu.
    + intros y H. now apply HU.
    + intros y H _. now apply HU.
    + rewrite Hi, (in_progress_of_kind su su' root (HK root)). destruct (b_root _ _ _ _ _ _ HT) as [H|[(k & H)|[H|H]]]; auto; [right; left; exists k; now rewrite RI|right; right; right; now apply Hcu].
  - apply (BC_kinds rules F R su su' HC); auto.
    + intros k. rewrite RI. apply (b_nc _ _ _ _ HC).
    + intros k. unfold idle. now rewrite HK.
    + intros k H. now apply Hcu.
    + intros k H. left. now rewrite (in_progress_of_kind su su' k (HK k)).
    + intros y (r & Hu' & H1' & H2'). left. exists r. split; [now apply HU|auto].
    + intros k. left. split; auto. intros H. now apply Hcu.
  - apply (BS_kinds rules env F rank R None None su su' HS); auto.
    + intros k H. now apply Hcu.
    + intros y Hy. destruct (HSr y Hy) as [->|H]; [right|now left]. intros j d Hj. rewrite Hr, Hdp, Hca, Hba. intros Hn.
      destruct (Hpre j d Hj Hn) as [P1 P2]. split; auto. now apply Hcu.
    + intros y Hy. destruct (HSr y Hy) as [->|H]; [right|now left]. intros i d Hsi. rewrite Hr, Hdp. now apply (Hso i d).
    + intros k. rewrite HK. intros Hk. left. split; auto. now rewrite RI.
    + intros k. rewrite HK. intros Hk. left. split; auto. split; auto.
      intros [(y & H1 & H2)|(y & H1 & H2)]; [|right; exists y; now rewrite Hi]. left. rewrite Hq in H1. destruct H1 as [H1|H1].
      * subst y. exists rq'. split; [rewrite Hq'; now left|now apply Hpd].
      * exists y. split; auto. rewrite Hq'. now right.
Qed.

(* finishScanRequest: the scan of rule k ends; the requests that waited for it are queued again *)
Lemma BInv_finish_scan root su s' k kd rq1 rest : BInv root None su -> sreq_scanning su -> is_toscan su = rq1 :: rest -> kind_of su k = KScanning ->
  (forall k', rinfo_of s' k' = if N.eqb k' k then ri_end_scan kd (rinfo_of su k) else rinfo_of su k') -> is_tasks s' = is_tasks su ->
  is_inreq s' = is_inreq su ++ ri_paused (rinfo_of su k) -> is_toscan s' = rev (ri_deferred (rinfo_of su k)) ++ rest ->
  is_fininreq s' = is_fininreq su -> is_fintasks s' = is_fintasks su -> is_usedb s' = is_usedb su -> is_epoch s' = is_epoch su ->
  (forall rq, In rq (ri_paused (rinfo_of su k)) -> iq_input rq = k) -> (forall rq, In rq (ri_deferred (rinfo_of su k)) -> sq_input rq = Some k) ->
  (forall k', kind_of su k' = KDoesNotNeedToRun -> sq_input rq1 <> Some k') ->
  (kd = KNeedsToRun \/ (kd = KDoesNotNeedToRun /\ forall d, In d (deps su k) -> curk su (d_key d) /\ (d_order d = false -> cAt su (d_key d) <= bAt su k))) ->
  BInv root None s'.
Proof.
  intros (HT & HC & HS) Hss Hq Hk RI Htk Hi Hts Hf Hft Hu He Hpl Hdl Hrq1 Hkd.
  assert (Hkd' : kd = KNeedsToRun \/ kd = KDoesNotNeedToRun) by (destruct Hkd as [H|[H _]]; auto).
  assert (HR : forall k', res_of s' k' = res_of su k').
  { intros k'. unfold res_of. rewrite RI. destruct (N.eqb k' k) eqn:E; auto. apply N.eqb_eq in E. now subst. }
  assert (Hsgs : forall k', res_sig (res_of s' k') = res_sig (res_of su k')) by (intros k'; now rewrite HR).
  assert (HK : forall k', kind_of s' k' = if N.eqb k' k then kd else kind_of su k') by (intros k'; unfold kind_of; rewrite RI; now destruct (N.eqb k' k)).
  assert (HLo : forall k', k' <> k -> rinfo_of s' k' = rinfo_of su k') by (intros k' E; rewrite RI; apply N.eqb_neq in E; now rewrite E).
  assert (HLk : ri_paused (rinfo_of s' k) = [] /\ ri_deferred (rinfo_of s' k) = []) by (rewrite RI, N.eqb_refl; auto).
  assert (Hst : forall k', stored s' k' = stored su k') by (intros; unfold stored; now rewrite HR).
  assert (Hca : forall k', cAt s' k' = cAt su k') by (intros; unfold cAt; now rewrite HR).
  assert (Hba : forall k', bAt s' k' = bAt su k') by (intros; unfold bAt; now rewrite HR).
  assert (Hdp : forall k', deps s' k' = deps su k') by (intros; unfold deps; now rewrite HR).
  assert (HdpC : forall k', deps s' k' = deps su k' \/ (deps s' k' = drop_single (deps su k') /\ ~ curk s' k' /\ bAt s' k' = bAt su k')) by (intros; left; apply Hdp).
  assert (HdpS : forall k', kind_of su k' = KScanning \/ kind_of su k' = KDoesNotNeedToRun -> deps s' k' = deps su k') by (intros; apply Hdp).
  assert (Hcu : forall k', curk s' k' <-> curk su k').
  { intros k'. unfold curk. rewrite HK, Hba, He. destruct (N.eqb k' k) eqn:E; [|tauto]. apply N.eqb_eq in E. subst k'. rewrite Hk.
    split; intros [H _]; [destruct Hkd' as [-> | ->]|]; discriminate. }
  assert (Htask : forall t, task_of s' t = task_of su t) by (intros; unfold task_of; now rewrite Htk).
  assert (HU : forall y, Unrouted su y <-> Unrouted s' y).
  { intros y. unfold Unrouted. rewrite Hi. split.
    - intros [H|(k0 & H)]; [left; apply in_or_app; now left|]. destruct (N.eq_dec k0 k) as [->|E]; [left; apply in_or_app; now right|right; exists k0; now rewrite (HLo k0 E)].
    - intros [H|(k0 & H)]; [apply in_app_or in H; destruct H as [H|H]; [now left|right; eauto]|].
      destruct (N.eq_dec k0 k) as [->|E]; [rewrite (proj1 HLk) in H; destruct H|right; exists k0; now rewrite <- (HLo k0 E)]. }
  assert (HSr : forall y, Sreq s' y -> Sreq su y).
  { intros y [H|[(k0 & H)|(t0 & z & Hz & H)]].
    - rewrite Hts in H. apply in_app_or in H. destruct H as [H|H]; [apply in_rev in H; right; left; eauto|left; rewrite Hq; now right].
    - destruct (N.eq_dec k0 k) as [->|E]; [rewrite (proj2 HLk) in H; destruct H|right; left; exists k0; now rewrite <- (HLo k0 E)].
    - right. right. exists t0, z. now rewrite <- Htask. }
  assert (Hip : forall k', is_in_progress s' k' = is_in_progress su k').
  { intros k'. unfold is_in_progress. rewrite HK. destruct (N.eqb k' k) eqn:E; auto. apply N.eqb_eq in E. subst k'. rewrite Hk. destruct Hkd' as [-> | ->]; reflexivity. }
  split; [|split].
  - apply (BT_rules_change rules env F rank root su s' HT); auto.
    + intros k' H. now apply Hcu.
    + intros k' H. left. now apply Hcu.
    + intros y H. now apply HU.
    + intros y H _. now apply HU.
    + destruct (b_root _ _ _ _ _ _ HT) as [H|[H|[H|H]]].
      * assert (Hd : Unrouted su (dummy_root root)) by now left. apply HU in Hd. destruct Hd; auto.
      * assert (Hd : Unrouted su (dummy_root root)) by now right. apply HU in Hd. destruct Hd; auto.
      * right. right. left. now rewrite Hip.
      * right. right. right. now apply Hcu.
  - apply (BC_kinds rules F R su s' HC); auto.
    + intros k'. rewrite RI. destruct (N.eqb k' k); [cbn|]; apply (b_nc _ _ _ _ HC).
    + intros k'. unfold idle. rewrite HK. destruct (N.eqb k' k) eqn:E; auto. apply N.eqb_eq in E. subst k'. rewrite Hk. intros _. split; discriminate.
    + intros k' H. now apply Hcu.
    + intros k' H. left. now rewrite Hip.
    + intros y (r & Hu' & H1' & H2'). left. exists r. split; [now apply HU|auto].
    + intros k'. left. split; auto. intros H. now apply Hcu.
  - apply (BS_kinds rules env F rank R None None su s' HS); auto.
    + intros k' H. now apply Hcu.
    + intros k'. rewrite HK. destruct (N.eqb k' k) eqn:E; [intros ->; destruct Hkd' as [H|H]; discriminate|]. apply N.eqb_neq in E. intros Hk'. left. split; auto. now rewrite (HLo k' E).
    + intros k'. rewrite HK. destruct (N.eqb k' k) eqn:E.
      * apply N.eqb_eq in E. subst k'. intros ->. right. destruct Hkd as [H|(_ & Hall)]; [discriminate|].
        destruct (b_scanning _ _ _ _ _ _ _ HS k Hk) as (B0 & B1 & B2 & B3).
        assert (Hrow : rowok su k) by (apply (b_rows _ _ _ _ HC); auto; [unfold idle; rewrite Hk; split; discriminate|intros [Hc' _]; congruence]).
        destruct (row_clean rules env F rank R Hrank Hwfd HRt su k (b_cur _ _ _ _ _ _ HT) B0 Hrow B2 Hall) as (v & Hv & Hcv & Hco).
        split; [|split; [|split; [|split]]]; [| | | |now rewrite Hsgs].
        -- exists v. split; [now rewrite Hst|]. split; auto. apply (concl_same F R su s' k v (Hsgs k) (Hdp k)); auto.
        -- intros d. rewrite Hdp. intros Hd. apply Hcu. now apply Hall.
        -- now rewrite Hba.
        -- destruct B3 as [B3|[B3|B3]]; [| |discriminate].
           ++ destruct (ri_deferred (rinfo_of su k)) as [|y l] eqn:Ed; [contradiction|]. left. exists y. split; [|apply Hdl; now left].
              rewrite Hts. apply in_or_app. left. apply -> in_rev. now left.
           ++ destruct (ri_paused (rinfo_of su k)) as [|y l] eqn:Ed; [contradiction|]. right. exists y. split; [|apply Hpl; now left].
              rewrite Hi. apply in_or_app. right. now left.
      * intros Hk'. left. split; auto. split; auto.
        intros [(y & H1 & H2)|(y & H1 & H2)]; [|right; exists y; rewrite Hi; split; auto; apply in_or_app; now left].
        rewrite Hq in H1. destruct H1 as [H1|H1]; [subst y; exfalso; now apply (Hrq1 k' Hk')|]. left. exists y. split; auto. rewrite Hts. apply in_or_app. now right.
Qed.

Lemma BInv_scan_inputs root c0 ds : forall s rq, cx_ex c0 = None -> Inv rules (cx_set_fs c0 [rq]) s -> BInv root None (unpop [] [rq] s) ->
  skipn (sq_index rq) (res_deps (res_of s (sq_rule rq))) = ds -> BInv root None (scan_inputs rules env ord s rq ds).
Proof.
  induction ds as [|d ds IH]; intros s rq Hex HI HB Hsk.
  { exfalso. pose proof (Inv_head_ok rules (cx_set_fs c0 [rq]) s rq [] eq_refl HI) as (_ & Hlt & _).
    assert (Hlen : length (skipn (sq_index rq) (res_deps (res_of s (sq_rule rq)))) = 0%nat) by now rewrite Hsk.
    rewrite skipn_length in Hlen. lia. }
  cbn [scan_inputs]. cbn zeta.
  set (k := sq_rule rq). set (inp := request_input rq d). set (rq1 := fill_request rq d).
  pose proof (Inv_head_ok rules (cx_set_fs c0 [rq]) s rq [] eq_refl HI) as Hrqok.
  assert (Hk : kind_of s k = KScanning) by apply Hrqok.
  destruct (skipn_head_nth _ _ _ _ Hsk) as (Hnth & Hlt & Hsk').
  assert (Hinp : inp = d_key d).
  { unfold inp, request_input. destruct (sq_input rq) as [i|] eqn:Ei; auto. destruct Hrqok as (_ & _ & H3). destruct (H3 i Ei) as (d' & Hd' & Hkd).
    rewrite Hnth in Hd'. inversion Hd'. now subst. }
  assert (HI1 : Inv rules (cx_set_fs c0 [rq1]) (touch s inp)).
  { apply Inv_touch. apply (Inv_replace_fs rules (cx_set_fs c0 [rq]) s rq rq1 []); auto.
    - apply fill_request_rule.
    - eapply sreq_ok_fill; eauto. }
  assert (Hidx : sq_index rq1 = sq_index rq) by apply fill_request_index.
  assert (Hrq1 : sq_rule rq1 = k) by apply fill_request_rule.
  assert (Hin1 : sq_input rq1 = Some inp) by apply fill_request_input.
  pose proof (sreq_scanning_unpop rules _ [] [rq] s HI (Forall_cons _ Hrqok (Forall_nil _))) as Hss.
  assert (Hhead : Sreq (unpop [] [rq] s) rq) by (left; now left).
  assert (HB1 : BInv root None (unpop [] [rq1] (touch s inp))).
  { apply (BInv_replace_sreq root (unpop [] [rq] s) _ rq rq1 (is_toscan s) HB Hss); unfold unpop; autorewrite with iv; auto.
    - intros k'. change (rinfo_of (upd_toscan (upd_inreq ?a _) _) k') with (rinfo_of a k'). apply rinfo_of_touch.
    - intros j d0 Hj. rewrite Hidx in Hj. apply (b_scan _ _ _ _ _ _ _ (proj2 (proj2 HB)) rq Hhead j d0 Hj).
    - intros i d0 Hi. rewrite Hidx. change (deps (upd_toscan (upd_inreq s _) _) (sq_rule rq)) with (deps s (sq_rule rq)). unfold deps. rewrite Hnth. intros Hd0. inversion Hd0. subst d0.
      unfold rq1, fill_request in *. destruct (sq_input rq) as [i'|] eqn:Ei; [|reflexivity].
      apply (b_sord _ _ _ _ _ _ _ (proj2 (proj2 HB)) rq Hhead i' d Ei). exact Hnth.
    - intros k' _ Hi. unfold rq1, fill_request. now rewrite Hi. }
  assert (Hok1 : Forall (sreq_ok (touch s inp)) [rq1]).
  { constructor; [|constructor]. apply (Inv_head_ok rules (cx_set_fs c0 [rq1]) (touch s inp) rq1 [] eq_refl HI1). }
  assert (Hpe1 : pending_for (unpop [] [rq1] (touch s inp)) inp) by (left; exists rq1; split; auto; now left).
  destruct (BInv_scan_rule rules env F rank R Hrank Hwfd HRt root _ [] [rq1] (touch s inp) inp HI1 HB1 Hok1 Hpe1) as (b1 & s1 & E1 & HB2 & Hl1). rewrite E1.
  destruct (scan_rule_post rules env _ _ _ _ _ E1 HI1) as (HI2 & KS & Hf1 & Ht1).
  assert (Hok2 : Forall (sreq_ok s1) [rq1]).
  { constructor; [|constructor]. apply (Inv_head_ok rules (cx_set_fs c0 [rq1]) s1 rq1 [] eq_refl HI2). }
  pose proof (sreq_scanning_unpop rules _ [] [rq1] s1 HI2 Hok2) as Hss2.
  destruct b1.
  2:{ (* the input is being scanned: the request waits in its scan record *)
    pose proof (Hf1 eq_refl) as Hk1. unfold defer_on_rule. rewrite Hk1. cbn [kind_eqb check].
    apply (BInv_moved rules env F rank R root (Some inp) (unpop [] [rq1] s1) _ HB2 Hss2); unfold unpop; autorewrite with iv; auto.
    + intros k'. unfold res_of, kind_of. change (rinfo_of (upd_toscan (upd_inreq ?a _) _) k') with (rinfo_of a k'). rewrite rinfo_of_mod_ri.
      destruct (N.eqb k' inp) eqn:E; auto. apply N.eqb_eq in E. subst k'. auto.
    + intros t y Hy. exists y. split; auto.
    + intros t z Hz. exists z. split; auto.
    + apply Unrouted_same; autorewrite with iv; auto. intros k'. change (rinfo_of (upd_toscan (upd_inreq ?a _) _) k') with (rinfo_of a k'). rewrite rinfo_of_mod_ri.
      destruct (N.eqb k' inp) eqn:E; auto. apply N.eqb_eq in E. subst k'. auto.
    + intros y [H|[(k' & H)|(t0 & z & Hz & H)]]; [left; cbn; now right| |right; right; eauto].
      rewrite rinfo_of_mod_ri in H. destruct (N.eqb k' inp) eqn:E; [|right; left; eauto]. apply N.eqb_eq in E. subst k'. cbn in H.
      apply in_app_or in H. destruct H as [H|[H|[]]]; [right; left; eauto|left; cbn; now left].
    + intros k' Hk' Hr. change (rinfo_of (upd_toscan (upd_inreq s1 _) _) k') with (rinfo_of s1 k') in *. rewrite rinfo_of_mod_ri. destruct (N.eqb k' inp) eqn:E.
      * left. cbn. destruct (ri_deferred (rinfo_of s1 inp)); discriminate.
      * apply N.eqb_neq in E. destruct Hr as [H|[H|H]]; auto. inversion H. congruence.
    + intros k' Hk' [(y & H1 & H2)|(y & H1 & H2)]; [|right; eauto]. cbn [is_toscan upd_toscan app] in H1. destruct H1 as [H1|H1]; [|left; eauto].
      exfalso. subst y. rewrite Hin1 in H2. inversion H2. subst k'. change (kind_of (upd_toscan (upd_inreq s1 _) _) inp) with (kind_of s1 inp) in Hk'. congruence. }
  specialize (Ht1 eq_refl).
  assert (Hne : inp <> k).
  { intros E. destruct KS as (_ & _ & _ & _ & _ & _ & _ & _ & KSs & _).
    assert (Hks : kind_of (touch s inp) inp = KScanning) by (unfold kind_of; rewrite rinfo_of_touch, E; exact Hk).
    assert (Hk1 : kind_of s1 inp = KScanning) by (unfold kind_of in *; now rewrite (KSs Hks)).
    rewrite (scanning_not_scanned s1 inp Hk1) in Ht1. discriminate. }
  assert (Hr1 : rinfo_of s1 k = rinfo_of s k).
  { destruct KS as (KS1 & _). rewrite (KS1 k); [apply rinfo_of_touch|auto]. }
  destruct (BInv_demand_rule rules env F rank R ord HRt Hord root _ [] [rq1] s1 inp HI2 HB2 Hok2 Ht1) as (b2 & s2 & E2 & H2). rewrite E2.
  destruct (demand_rule_post rules ord _ _ _ _ _ E2 HI2 Hex Ht1) as (HI3 & KD & Hf2 & Ht2).
  destruct (H2 (proj1 HI3)) as (HB3 & Hav & Hnav).
  assert (Hok3 : Forall (sreq_ok s2) [rq1]).
  { constructor; [|constructor]. apply (Inv_head_ok rules (cx_set_fs c0 [rq1]) s2 rq1 [] eq_refl HI3). }
  pose proof (sreq_scanning_unpop rules _ [] [rq1] s2 HI3 Hok3) as Hss3.
  destruct b2.
  2:{ (* the input is being built: the request waits in its task record *)
    destruct (aget (is_tasks s2) inp) as [ti|] eqn:Hg; [|now contradiction (Hf2 eq_refl)].
    unfold defer_on_task. rewrite (mod_ti_some _ _ _ _ Hg).
    apply (BInv_moved rules env F rank R root None (unpop [] [rq1] s2) _ HB3 Hss3); unfold unpop; autorewrite with iv; auto.
    + intros t y Hy. unfold task_of in *. autorewrite with iv in *. rewrite aget_aset. destruct (N.eqb t inp) eqn:E; [|eauto].
      apply N.eqb_eq in E. subst t. rewrite Hg in Hy. inversion Hy. subst y. eexists. split; [reflexivity|reflexivity].
    + intros t z Hz. unfold task_of in *. autorewrite with iv in *. rewrite aget_aset in Hz. destruct (N.eqb t inp) eqn:E; [|eauto].
      apply N.eqb_eq in E. subst t. inversion Hz. subst z. exists ti. split; auto.
    + apply Unrouted_same; autorewrite with iv; auto.
    + intros y [H|[(k' & H)|(t0 & z & Hz & H)]]; [left; cbn; now right|right; left; eauto|].
      unfold task_of in Hz. autorewrite with iv in Hz. rewrite aget_aset in Hz. destruct (N.eqb t0 inp) eqn:E; [|right; right; eauto].
      apply N.eqb_eq in E. subst t0. inversion Hz. subst z. cbn in H. apply in_app_or in H. destruct H as [H|[H|[]]]; [right; right; exists inp, ti; auto|left; cbn; now left].
    + intros k' Hk' [H|[H|H]]; auto. discriminate.
    + intros k' Hk' [(y & H1 & H2')|(y & H1 & H2')]; [|right; eauto]. cbn [is_toscan upd_toscan app] in H1. destruct H1 as [H1|H1]; [|left; eauto].
      exfalso. subst y. rewrite Hin1 in H2'. inversion H2'. subst k'. pose proof (Hnav eq_refl) as Hp. unfold is_in_progress in Hp.
      change (kind_of (upd_toscan (upd_inreq s2 _) _) inp) with (kind_of s2 inp) in Hk'. rewrite Hk' in Hp. discriminate. }
  pose proof (Hav eq_refl) as Hcur.
  assert (Hr2 : rinfo_of s2 k = rinfo_of s k).
  { destruct KD as (KD1 & _). rewrite (KD1 k); auto. }
  assert (Hk2 : kind_of s2 k = KScanning) by (unfold kind_of; now rewrite Hr2).
  set (su2 := unpop [] [rq1] s2) in *.
  assert (Hdeps2 : deps su2 k = res_deps (res_of s (sq_rule rq))) by (unfold deps, res_of; change (rinfo_of su2 k) with (rinfo_of s2 k); now rewrite Hr2).
  assert (Hnth2 : nth_error (deps su2 k) (sq_index rq1) = Some d) by (rewrite Hdeps2, Hidx; exact Hnth).
  assert (Hhead2 : Sreq su2 rq1) by (left; now left).
  destruct HB3 as (HT3 & HC3 & HS3). pose proof (conj HT3 (conj HC3 HS3)) as HB3.
  assert (Hord1 : sq_order rq1 = d_order d) by (apply (b_sord _ _ _ _ _ _ _ HS3 rq1 Hhead2 inp d Hin1); rewrite Hrq1; exact Hnth2).
  assert (Hpre : forall j d0, (j < sq_index rq1)%nat -> nth_error (deps su2 k) j = Some d0 -> curk su2 (d_key d0) /\ (d_order d0 = false -> cAt su2 (d_key d0) <= bAt su2 k)).
  { intros j d0 Hj Hn. pose proof (b_scan _ _ _ _ _ _ _ HS3 rq1 Hhead2 j d0 Hj) as H. rewrite Hrq1 in H. now apply H. }
  assert (Hndn : forall k', kind_of su2 k' = KDoesNotNeedToRun -> sq_input rq1 <> Some k').
  { intros k' Hk' Hi. rewrite Hin1 in Hi. inversion Hi. subst k'. destruct Hcur as [Hc _]. change (kind_of su2 inp) with (kind_of s2 inp) in Hk'. congruence. }
  pose proof HI3 as (_ & _ & HII3 & HSS3).
  assert (Hfin : forall kd e, (kd = KNeedsToRun \/ (kd = KDoesNotNeedToRun /\ forall d0, In d0 (deps su2 k) -> curk su2 (d_key d0) /\ (d_order d0 = false -> cAt su2 (d_key d0) <= bAt su2 k))) ->
            BInv root None (match e with Some ev => iemit (finish_scan s2 k kd) ev | None => finish_scan s2 k kd end)).
  { intros kd e Hkd. unfold finish_scan. rewrite Hk2. cbn [kind_eqb check].
    apply (BInv_finish_scan root su2 _ k kd rq1 (is_toscan s2) HB3 Hss3); auto; try (destruct e; unfold wake_scan_record; now autorewrite with iv).
    - intros k'. destruct e; unfold wake_scan_record; autorewrite with iv; reflexivity.
    - intros y Hy. apply (i_pl_paused rules _ s2 HII3 k y Hy).
    - intros y Hy. apply (s_pl_rdef _ s2 HSS3 k y Hy). }
  destruct (negb (sq_order rq1) && input_rebuilt s2 k inp) eqn:Ereb.
  { apply (Hfin KNeedsToRun (Some (ENeed k InputRebuilt (Some inp)))). now left. }
  (* the dependency just checked is complete and was not recomputed after k was built *)
  assert (Hd_ok : curk su2 (d_key d) /\ (d_order d = false -> cAt su2 (d_key d) <= bAt su2 k)).
  { rewrite <- Hinp. split; [exact Hcur|]. intros Ho. rewrite Hord1, Ho in Ereb. cbn [negb andb] in Ereb. unfold input_rebuilt in Ereb.
    apply N.ltb_ge in Ereb. exact Ereb. }
  destruct ds as [|d' ds'].
  { apply (Hfin KDoesNotNeedToRun None). right. split; auto. intros d0 Hd0. apply In_nth_error in Hd0. destruct Hd0 as (j & Hj).
    assert (Hlen : length (deps su2 k) = S (sq_index rq)).
    { rewrite Hdeps2. assert (Hl : length (skipn (sq_index rq) (res_deps (res_of s (sq_rule rq)))) = 1%nat) by now rewrite Hsk. rewrite skipn_length in Hl. lia. }
    assert (Hjl : (j < S (sq_index rq))%nat) by (rewrite <- Hlen; apply nth_error_Some; congruence).
    destruct (Nat.eq_dec j (sq_index rq)) as [->|Hneq].
    - rewrite <- Hidx, Hnth2 in Hj. inversion Hj. subst d0. exact Hd_ok.
    - apply (Hpre j d0); auto. rewrite Hidx. lia. }
  (* next input *)
  set (rq2 := mkSReq k (S (sq_index rq1)) None false false).
  assert (Hsk2 : skipn (sq_index rq2) (res_deps (res_of s2 (sq_rule rq2))) = d' :: ds').
  { cbn [rq2 sq_index sq_rule]. unfold res_of. rewrite Hr2, Hidx. exact Hsk'. }
  apply (IH s2 rq2); auto.
  - apply (Inv_replace_fs rules (cx_set_fs c0 [rq1]) s2 rq1 rq2 []); auto.
    unfold sreq_ok. cbn [rq2 sq_rule sq_index sq_input]. split; [exact Hk2|]. split; [|discriminate].
    destruct (skipn_head_nth _ _ _ _ Hsk2) as (_ & Hlt2 & _). exact Hlt2.
  - apply (BInv_replace_sreq root su2 _ rq1 rq2 (is_toscan s2) HB3 Hss3); auto.
    + cbn [rq2 sq_index]. rewrite Hrq1. intros j d0 Hj Hn. destruct (Nat.eq_dec j (sq_index rq1)) as [->|Hneq].
      * rewrite Hnth2 in Hn. inversion Hn. subst d0. exact Hd_ok.
      * apply (Hpre j d0); auto. lia.
    + cbn [rq2 sq_input]. intros i d0 Hi. discriminate.
    + intros k' Hk' Hi. exfalso. exact (Hndn k' Hk' Hi).
Qed.

Lemma BInv_step_scan root s : Inv rules ctx0 s -> BInv root None s -> BInv root None (step_scan rules env ord s).
Proof.
  intros HI HB. unfold step_scan. destruct (is_toscan s) as [|rq rest] eqn:Hq; auto.
  pose proof (Inv_pop_toscan rules ctx0 s rq rest Hq HI) as HI1.
  pose proof (Inv_head_ok rules (cx_set_fs ctx0 (rq :: cx_fs ctx0)) (upd_toscan s rest) rq (cx_fs ctx0) eq_refl HI1) as (Hk & _).
  unfold process_scan_request. rewrite Hk. cbn [kind_eqb negb].
  apply (BInv_scan_inputs root ctx0); auto.
  apply (BInv_frame rules env F rank R root None s); auto; unfold unpop; autorewrite with iv; auto.
  now apply (Inv_sreq_scanning rules ctx0).
Qed.
End Inc.
