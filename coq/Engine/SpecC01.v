(* C01 - an incremental build returns the value a brand-new engine computes (theorems; statements are
   repeated in Props/Properties_C01.v). *)
From LLB Require Import Engine.Rules Engine.Spec Engine.Exec Engine.SpecFrame Engine.SpecInv1 Engine.SpecInv2 Engine.SpecInv3.
From Coq Require Import List NArith Bool Lia Arith Permutation.
Local Open Scope N_scope.

Definition noE : key -> Prop := fun _ => False.

Section Rest.
Variable rules : key -> rule.
Variable env : key -> N.
Variable F : key -> N -> list value -> list N -> N -> N.
Variable order : N -> key -> list dep -> list dep.
Variable rank : key -> nat.
Variable R : key -> N -> rule.
Hypothesis HTab : table_ok rules R.
Hypothesis Hrank : wf_rank rules rank.
Hypothesis Hdisc : wf_disc rules.
Hypothesis Horder : wf_order order.

Local Notation AR := (AtRest F R).
Local Notation G := (Good rules env F rank R).

Lemma AtRest_init : AR init_state.
Proof.
  unfold AtRest, init_state; cbn. repeat apply conj; auto.
  - intros k. cbn. lia.
  - intros k. cbn. repeat split; auto. lia.
  - intros k _. cbn. intros H. now contradiction H.
Qed.

Lemma AtRest_ext : forall s s', st_mem s' = st_mem s -> st_epoch s' = st_epoch s -> st_db s' = st_db s ->
  st_db_epoch s' = st_db_epoch s -> AR s -> AR s'.
Proof.
  intros s s' Hm He Hd Hde H. unfold AtRest, bnd, sync, rows in *. rewrite Hm, He, Hd, Hde. exact H.
Qed.

Lemma AtRest_emit : forall s e, AR s -> AR (emit s e).
Proof. intros s e. apply AtRest_ext; reflexivity. Qed.

(* the epoch is bumped: nothing is complete, so nothing depends on the environment *)
Lemma AtRest_bump : forall s, AR s -> G noE (bump_epoch s).
Proof.
  intros s (Hbnd & Hsync & Hrows & Hde).
  assert (Hnd : forall x, ~ done (bump_epoch s) x).
  { intros x H. unfold done, bump_epoch in H; cbn in H. specialize (Hbnd x). lia. }
  unfold Good. repeat apply conj.
  - intros x. unfold bump_epoch; cbn. specialize (Hbnd x). lia.
  - exact Hsync.
  - exact Hrows.
  - intros x _ Hx. now apply Hnd in Hx.
  - intros x Hx. now apply Hnd in Hx.
  - intros x [].
Qed.

Lemma Good_commit : forall s, G noE s -> AR (commit_epoch s).
Proof.
  intros s (Hbnd & Hsync & Hrows & _). unfold AtRest. repeat apply conj; auto.
Qed.

Lemma AtRest_restart_nodb : forall s, AR (restart_nodb s).
Proof.
  intros s. apply AtRest_ext with (s := init_state); try reflexivity. apply AtRest_init.
Qed.

(* a new engine over the same database: the database rows satisfy the row invariant relative to the database *)
Lemma AtRest_restart : forall s, AR s -> AR (restart s).
Proof.
  intros s (Hbnd & Hsync & Hrows & Hde). unfold AtRest, restart; cbn. repeat apply conj; auto.
  - intros x. cbn. specialize (Hbnd x). specialize (Hsync x). cbn zeta in Hsync. lia.
  - intros x. cbn. repeat split; auto. lia.
  - intros x _. cbn. specialize (Hrows x (fun f => f)). specialize (Hbnd x).
    pose proof (Hsync x) as (Sv & Ss & Sc & Sb & Sn & Sd). cbn zeta in *.
    set (a := get (st_mem s) x) in *. set (b := get (st_db s) x) in *.
    intros Hb. destruct Hrows as (v & Hv & Ho & Hm & Hcl); [lia |]. rewrite <- Ss.
    assert (Hcd : cdeps b = cdeps a) by (apply cdeps_eq; now symmetry).
    exists v. split; [congruence|]. split; [exact Ho|]. split; [now rewrite <- Sd|].
    intros Hf. apply row_concl_row_ext with (r := a); [exact Hcd|].
    apply row_concl_transfer with (m := st_mem s).
    + apply Hcl. intros d Hd. rewrite <- Hcd in Hd. specialize (Hf d Hd).
      destruct (Hsync (d_key d)) as (_ & _ & Sc' & _). cbn zeta in Sc'. lia.
    + intros y _. unfold stored. destruct (Hsync y) as (Sv' & _). cbn zeta in Sv'. now symmetry.
Qed.

(* ---------- one build ---------- *)

Lemma build_good : forall fuel s k, (rank k < fuel)%nat -> AR s ->
  exists s1, ensure rules env F order fuel [] (bump_epoch s) k = Ok s1 /\
             build rules env F order fuel s k = Ok (commit_epoch s1) /\
             AR (commit_epoch s1) /\ result_of (commit_epoch s1) k = cvk rules env F rank k /\
             provs_ok rules env F rank s (commit_epoch s1).
Proof.
  intros fuel s k Hk HR.
  destruct (ensure_good rules env F order rank R HTab Hrank Hdisc Horder fuel noE [] (bump_epoch s) k Hk)
    as (s1 & E1 & G1 & P1).
  - intros y [].
  - now apply AtRest_bump.
  - exists s1. split; [exact E1|]. unfold build. rewrite E1. split; [reflexivity|].
    split; [now apply Good_commit|]. split; [|exact P1].
    pose proof (ensure_frame rules env F order fuel [] (bump_epoch s) k) as Hf. rewrite E1 in Hf.
    destruct Hf as [_ Hd]. destruct G1 as (_ & _ & _ & _ & Hcur & _). apply (Hcur k Hd).
Qed.

Theorem c01_no_cycle_when_ranked_thm : forall fuel s k, (rank k < fuel)%nat -> AR s ->
  exists s', build rules env F order fuel s k = Ok s'.
Proof.
  intros fuel s k Hk HR. destruct (build_good fuel s k Hk HR) as (s1 & _ & Hb & _). eauto.
Qed.

Theorem c01_incremental_eq_clean_thm : forall fuel s k s', (rank k < fuel)%nat -> AR s ->
  build rules env F order fuel s k = Ok s' -> result_of s' k = cv rules env F fuel k.
Proof.
  intros fuel s k s' Hk HR Hb. destruct (build_good fuel s k Hk HR) as (s1 & _ & Hb1 & _ & Hres & _).
  rewrite Hb1 in Hb. inversion Hb; subst s'. rewrite Hres. symmetry. now apply cv_cvk.
Qed.

Theorem c01_build_preserves_thm : forall fuel s k s', (rank k < fuel)%nat -> AR s ->
  build rules env F order fuel s k = Ok s' -> AR s'.
Proof.
  intros fuel s k s' Hk HR Hb. destruct (build_good fuel s k Hk HR) as (s1 & _ & Hb1 & HR1 & _).
  rewrite Hb1 in Hb. now inversion Hb; subst s'.
Qed.

Theorem c01_fresh_thm : forall fuel k s', (rank k < fuel)%nat ->
  build rules env F order fuel init_state k = Ok s' -> result_of s' k = cv rules env F fuel k.
Proof. intros fuel k s' Hk. apply c01_incremental_eq_clean_thm; [exact Hk | apply AtRest_init]. Qed.

(* every value handed to a task during the build is the clean value of that input *)
Theorem c01_inputs_current_thm : forall fuel s k s', (rank k < fuel)%nat -> AR s ->
  build rules env F order fuel s k = Ok s' ->
  exists l, st_log s' = l ++ st_log s /\
    forall k0 slot d v f, In (EProvide k0 slot d v) l -> (rank d < f)%nat -> v = cv rules env F f d.
Proof.
  intros fuel s k s' Hk HR Hb. destruct (build_good fuel s k Hk HR) as (s1 & _ & Hb1 & _ & _ & [l [Hl Hall]]).
  rewrite Hb1 in Hb. inversion Hb; subst s'. exists l. split; [exact Hl|].
  intros k0 slot d v f Hin Hf. rewrite Forall_forall in Hall. specialize (Hall _ Hin). cbn in Hall.
  rewrite Hall. symmetry. now apply cv_cvk.
Qed.

End Rest.

(* ---------- histories over a fixed rule table ---------- *)

Definition no_rule_op (o : op) : Prop := match o with ORule _ _ => False | _ => True end.
Definition build_ranked (rank : key -> nat) (fuel : nat) (o : op) : Prop :=
  match o with OBuild k => (rank k < fuel)%nat | _ => True end.

(* the engine instance sees the table tbl, no edit is pending, and the state satisfies the invariant *)
Definition fixedR (rules : key -> rule) : key -> N -> rule := fun k _ => rules k.
Lemma fixedR_ok : forall rules, table_ok rules (fixedR rules).
Proof. intros rules k. reflexivity. Qed.

Corollary c01_fresh_plain : forall rules env F order rank,
  wf_rank rules rank -> wf_disc rules -> wf_order order ->
  forall fuel k s', (rank k < fuel)%nat ->
  build rules env F order fuel init_state k = Ok s' -> result_of s' k = cv rules env F fuel k.
Proof. intros rules env F order rank. exact (c01_fresh_thm rules env F order rank (fixedR rules) (fixedR_ok rules)). Qed.

Definition HInv (tbl : list (key * rule)) (F : key -> N -> list value -> list N -> N -> N) (h : hstate) : Prop :=
  h_rules h = tbl /\ h_pending h = tbl /\ AtRest F (fixedR (rules_of tbl)) (h_st h).

Section Hist.
Variable F : key -> N -> list value -> list N -> N -> N.
Variable order : N -> key -> list dep -> list dep.
Variable fuel : nat.
Variable rank : key -> nat.
Variable tbl : list (key * rule).
Hypothesis Hrank : wf_rank (rules_of tbl) rank.
Hypothesis Hdisc : wf_disc (rules_of tbl).
Hypothesis Horder : wf_order order.

Lemma hstep_build : forall h k, HInv tbl F h -> (rank k < fuel)%nat ->
  exists s1, build (rules_of tbl) (env_of (h_env h)) F order fuel (emit (h_st h) (EBuildStart k)) k = Ok s1 /\
    AtRest F (fixedR (rules_of tbl)) s1 /\
    hstep F order fuel h (OBuild k) =
      mkH (emit s1 (EResult (cv (rules_of tbl) (env_of (h_env h)) F fuel k) false)) (h_env h) (h_rules h) (h_pending h).
Proof.
  intros h k (Hr & Hp & HR) Hk.
  assert (HR0 : AtRest F (fixedR (rules_of tbl)) (emit (h_st h) (EBuildStart k))) by now apply AtRest_emit.
  destruct (c01_no_cycle_when_ranked_thm _ (env_of (h_env h)) F order rank _ (fixedR_ok _) Hrank Hdisc Horder fuel _ k Hk HR0) as [s1 Hb].
  exists s1. split; [exact Hb|]. split.
  - eapply (c01_build_preserves_thm _ (env_of (h_env h)) F order rank _ (fixedR_ok _) Hrank Hdisc Horder); eauto.
  - unfold hstep. rewrite Hr, Hb. f_equal. f_equal. f_equal.
    eapply (c01_incremental_eq_clean_thm _ (env_of (h_env h)) F order rank _ (fixedR_ok _) Hrank Hdisc Horder); eauto.
Qed.

Lemma hstep_inv : forall h o, HInv tbl F h -> no_rule_op o -> build_ranked rank fuel o ->
  HInv tbl F (hstep F order fuel h o).
Proof.
  intros h o HI Hno Hbr. destruct o as [k n'|k r|db|k]; cbn in Hno, Hbr.
  - destruct HI as (Hr & Hp & HR). unfold hstep, HInv; cbn [h_rules h_pending h_st]. auto.
  - contradiction.
  - destruct HI as (Hr & Hp & HR). unfold hstep, HInv; cbn [h_rules h_pending h_st]. rewrite Hp.
    split; [reflexivity|]. split; [reflexivity|]. apply AtRest_emit. destruct db; [now apply AtRest_restart | apply AtRest_restart_nodb].
  - destruct (hstep_build h k HI Hbr) as (s1 & _ & HR1 & ->). destruct HI as (Hr & Hp & _).
    unfold HInv; cbn [h_rules h_pending h_st]. split; [exact Hr|]. split; [exact Hp|]. now apply AtRest_emit.
Qed.

Theorem c01_history_thm : forall ops h, Forall no_rule_op ops -> Forall (build_ranked rank fuel) ops ->
  HInv tbl F h -> HInv tbl F (fold_left (hstep F order fuel) ops h).
Proof.
  induction ops as [|o ops IH]; intros h Hno Hbr HI; cbn [fold_left]; [exact HI|].
  inversion Hno; subst. inversion Hbr; subst. apply IH; auto. now apply hstep_inv.
Qed.

(* every build in any history over the fixed table returns the clean value for the environment of that moment *)
Theorem c01_every_build_clean_thm : forall ops k h0, Forall no_rule_op ops -> Forall (build_ranked rank fuel) ops ->
  HInv tbl F h0 -> (rank k < fuel)%nat ->
  let h := fold_left (hstep F order fuel) ops h0 in
  exists s1, h_st (hstep F order fuel h (OBuild k)) =
             emit s1 (EResult (cv (rules_of tbl) (env_of (h_env h)) F fuel k) false).
Proof.
  intros ops k h0 Hno Hbr HI Hk h.
  destruct (hstep_build h k (c01_history_thm ops h0 Hno Hbr HI) Hk) as (s1 & _ & _ & ->). now exists s1.
Qed.

End Hist.

(* ---------- the same over [run_history]: define the rules, start an engine, then any rule-edit-free history ---------- *)

Definition rule_ops (l : list (key * rule)) : list op := map (fun p => ORule (fst p) (snd p)) l.

Section RunHistory.
Variable F : key -> N -> list value -> list N -> N -> N.
Variable order : N -> key -> list dep -> list dep.
Variable fuel : nat.

Lemma fold_rule_ops : forall l h, fold_left (hstep F order fuel) (rule_ops l) h =
  mkH (h_st h) (h_env h) (h_rules h) (rev l ++ h_pending h).
Proof.
  induction l as [|[k r] l IH]; intros h; cbn [rule_ops map fold_left rev app].
  - now destruct h.
  - fold (rule_ops l). rewrite IH. cbn. now rewrite <- app_assoc.
Qed.

Lemma run_history_start : forall defs db,
  HInv (rev defs) F (fold_left (hstep F order fuel) (rule_ops defs ++ [ORestart db]) init_h).
Proof.
  intros defs db. rewrite fold_left_app, fold_rule_ops. cbn. rewrite app_nil_r.
  unfold HInv; cbn [h_rules h_pending h_st]. split; [reflexivity|]. split; [reflexivity|].
  apply AtRest_emit. destruct db.
  - apply AtRest_restart. apply AtRest_init.
  - apply AtRest_restart_nodb.
Qed.

Theorem c01_run_history_thm : forall rank defs db ops k,
  wf_rank (rules_of (rev defs)) rank -> wf_disc (rules_of (rev defs)) -> wf_order order ->
  Forall no_rule_op ops -> Forall (build_ranked rank fuel) ops -> (rank k < fuel)%nat ->
  let h := run_history F order fuel (rule_ops defs ++ ORestart db :: ops) in
  exists s1, h_st (run_history F order fuel (rule_ops defs ++ ORestart db :: ops ++ [OBuild k])) =
             emit s1 (EResult (cv (rules_of (rev defs)) (env_of (h_env h)) F fuel k) false).
Proof.
  intros rank defs db ops k Hrank Hdisc Horder Hno Hbr Hk h. subst h. unfold run_history.
  replace (rule_ops defs ++ ORestart db :: ops ++ [OBuild k])
     with ((rule_ops defs ++ [ORestart db]) ++ ops ++ [OBuild k]) by (now rewrite <- app_assoc).
  replace (rule_ops defs ++ ORestart db :: ops)
     with ((rule_ops defs ++ [ORestart db]) ++ ops) by (now rewrite <- app_assoc).
  pose proof (run_history_start defs db) as Hstart. set (pre := rule_ops defs ++ [ORestart db]) in *.
  rewrite (fold_left_app _ pre (ops ++ [OBuild k])), (fold_left_app _ pre ops), (fold_left_app _ ops [OBuild k]).
  cbn [fold_left].
  apply c01_every_build_clean_thm with (rank := rank) (tbl := rev defs); auto.
Qed.

End RunHistory.

(* ---------- histories WITH rule edits ---------- *)

(* R k sg is the one rule of key k with signature sg: the premise "two different rules for the same key never
   share a signature" is [table_ok (rules_of tbl) R] for every table tbl an engine instance is started with *)
Section Edits.
Variable F : key -> N -> list value -> list N -> N -> N.
Variable order : N -> key -> list dep -> list dep.
Variable fuel : nat.
Variable R : key -> N -> rule.
Hypothesis Horder : wf_order order.

(* what a build needs of the table tbl the engine instance currently sees *)
Definition table_build_ok (tbl : list (key * rule)) (k : key) : Prop :=
  table_ok (rules_of tbl) R /\ wf_disc (rules_of tbl) /\
  exists rank, wf_rank (rules_of tbl) rank /\ (rank k < fuel)%nat.
Definition build_ok (h : hstate) (k : key) : Prop := table_build_ok (h_rules h) k.
Definition op_ok (h : hstate) (o : op) : Prop := match o with OBuild k => build_ok h k | _ => True end.

(* the premise about the history, in terms of the rule tables only: rl = the table the current engine instance sees,
   pd = the table as edited so far *)
Definition next_rl (o : op) (rl pd : list (key * rule)) := match o with ORestart _ => pd | _ => rl end.
Definition next_pd (o : op) (pd : list (key * rule)) := match o with ORule k r => (k, r) :: pd | _ => pd end.
Fixpoint tables_ok (ops : list op) (rl pd : list (key * rule)) : Prop :=
  match ops with
  | [] => True
  | o :: t => match o with OBuild k => table_build_ok rl k | _ => True end /\ tables_ok t (next_rl o rl pd) (next_pd o pd)
  end.

Fixpoint hist_ok (ops : list op) (h : hstate) : Prop :=
  match ops with
  | [] => True
  | o :: t => op_ok h o /\ hist_ok t (hstep F order fuel h o)
  end.

Lemma hstep_tables : forall h o,
  h_rules (hstep F order fuel h o) = next_rl o (h_rules h) (h_pending h) /\
  h_pending (hstep F order fuel h o) = next_pd o (h_pending h).
Proof.
  intros h o. destruct o as [k n'|k r|db|k]; cbn [hstep next_rl next_pd h_rules h_pending]; auto.
  destruct (build _ _ _ _ _ _ _); auto.
Qed.

Lemma tables_hist_ok : forall ops h, tables_ok ops (h_rules h) (h_pending h) -> hist_ok ops h.
Proof.
  induction ops as [|o ops IH]; intros h H; cbn [tables_ok hist_ok] in *; [exact I|].
  destruct H as [Ho H]. split.
  - destruct o; auto.
  - apply IH. destruct (hstep_tables h o) as [-> ->]. exact H.
Qed.

Lemma hstep_edit_build : forall h k, AtRest F R (h_st h) -> build_ok h k ->
  exists s1, AtRest F R s1 /\
    hstep F order fuel h (OBuild k) =
      mkH (emit s1 (EResult (cv (rules_of (h_rules h)) (env_of (h_env h)) F fuel k) false)) (h_env h) (h_rules h) (h_pending h).
Proof.
  intros h k HA (Htab & Hdisc & rank & Hrank & Hk).
  assert (HA0 : AtRest F R (emit (h_st h) (EBuildStart k))) by now apply AtRest_emit.
  destruct (c01_no_cycle_when_ranked_thm _ (env_of (h_env h)) F order rank R Htab Hrank Hdisc Horder fuel _ k Hk HA0) as [s1 Hb].
  exists s1. split.
  - eapply (c01_build_preserves_thm _ (env_of (h_env h)) F order rank R Htab Hrank Hdisc Horder); eauto.
  - unfold hstep. rewrite Hb. f_equal. f_equal. f_equal.
    eapply (c01_incremental_eq_clean_thm _ (env_of (h_env h)) F order rank R Htab Hrank Hdisc Horder); eauto.
Qed.

Lemma hstep_edit_inv : forall h o, AtRest F R (h_st h) -> op_ok h o -> AtRest F R (h_st (hstep F order fuel h o)).
Proof.
  intros h o HA Hok. destruct o as [k n'|k r|db|k]; cbn [op_ok] in Hok.
  - exact HA.
  - exact HA.
  - unfold hstep; cbn [h_st]. apply AtRest_emit. destruct db; [now apply AtRest_restart | apply AtRest_restart_nodb].
  - destruct (hstep_edit_build h k HA Hok) as (s1 & HA1 & ->). cbn [h_st]. now apply AtRest_emit.
Qed.

Theorem c01_history_with_rule_edits_thm : forall ops h, AtRest F R (h_st h) -> hist_ok ops h ->
  AtRest F R (h_st (fold_left (hstep F order fuel) ops h)).
Proof.
  induction ops as [|o ops IH]; intros h HA Hok; cbn [fold_left]; [exact HA|].
  destruct Hok as [Ho Hrest]. apply IH; [|exact Hrest]. now apply hstep_edit_inv.
Qed.

Lemma hist_ok_app : forall ops1 ops2 h, hist_ok (ops1 ++ ops2) h ->
  hist_ok ops1 h /\ hist_ok ops2 (fold_left (hstep F order fuel) ops1 h).
Proof.
  induction ops1 as [|o ops1 IH]; intros ops2 h H; cbn [app hist_ok fold_left] in *; [tauto|].
  destruct H as [Ho H]. apply IH in H. tauto.
Qed.

(* every build of a history with rule edits returns the clean value under the table its engine instance sees *)
Theorem c01_every_build_clean_with_rule_edits_thm : forall ops k h0, AtRest F R (h_st h0) ->
  hist_ok (ops ++ [OBuild k]) h0 ->
  let h := fold_left (hstep F order fuel) ops h0 in
  exists s1, h_st (hstep F order fuel h (OBuild k)) =
             emit s1 (EResult (cv (rules_of (h_rules h)) (env_of (h_env h)) F fuel k) false).
Proof.
  intros ops k h0 HA Hok h. apply hist_ok_app in Hok. destruct Hok as [H1 [H2 _]].
  destruct (hstep_edit_build h k (c01_history_with_rule_edits_thm ops h0 HA H1) H2) as (s1 & _ & ->).
  now exists s1.
Qed.

(* from the very beginning, with the premise stated over the tables only *)
Theorem c01_run_history_with_rule_edits_thm : forall ops k, tables_ok (ops ++ [OBuild k]) [] [] ->
  let h := run_history F order fuel ops in
  AtRest F R (h_st h) /\
  exists s1, h_st (run_history F order fuel (ops ++ [OBuild k])) =
             emit s1 (EResult (cv (rules_of (h_rules h)) (env_of (h_env h)) F fuel k) false).
Proof.
  intros ops k Hok h. subst h. unfold run_history.
  pose proof (tables_hist_ok (ops ++ [OBuild k]) init_h Hok) as Hh.
  assert (HA : AtRest F R (h_st init_h)) by apply AtRest_init. split.
  - apply c01_history_with_rule_edits_thm; [exact HA|]. now apply hist_ok_app in Hh.
  - rewrite fold_left_app. cbn [fold_left]. now apply c01_every_build_clean_with_rule_edits_thm.
Qed.

End Edits.

(* ---------- decidable versions of the hypotheses for rule tables ---------- *)

Definition rank_of (l : list (key * nat)) (k : key) : nat := match alookup l k with Some n => n | None => O end.
Definition wf_rank_b (tbl : list (key * rule)) (rank : key -> nat) : bool :=
  forallb (fun p => forallb (fun x => Nat.ltb (rank x) (rank (fst p))) (mentioned (snd p))) tbl.
Definition wf_disc_b (tbl : list (key * rule)) : bool :=
  forallb (fun p => forallb (fun d => r_obs (rules_of tbl d)) (r_disc (snd p))) tbl.

Lemma alookup_in : forall {A} (m : list (N * A)) k a, alookup m k = Some a -> In (k, a) m.
Proof.
  intros A m k a. induction m as [|[k' a'] t IH]; cbn [alookup]; [discriminate|].
  destruct (N.eqb k k') eqn:E.
  - apply N.eqb_eq in E. subst k'. intros H. inversion H. now left.
  - intros H. right. now apply IH.
Qed.

Lemma rules_of_cases : forall tbl k, rules_of tbl k = default_rule \/ In (k, rules_of tbl k) tbl.
Proof.
  intros tbl k. unfold rules_of. destruct (alookup tbl k) as [r|] eqn:E; [right | now left].
  now apply alookup_in.
Qed.

Lemma wf_rank_b_sound : forall tbl rank, wf_rank_b tbl rank = true -> wf_rank (rules_of tbl) rank.
Proof.
  intros tbl rank H k x Hx. destruct (rules_of_cases tbl k) as [Hd|Hin].
  - rewrite Hd in Hx. contradiction Hx.
  - unfold wf_rank_b in H. rewrite forallb_forall in H. specialize (H _ Hin). cbn [fst snd] in H.
    rewrite forallb_forall in H. specialize (H x Hx). now apply Nat.ltb_lt in H.
Qed.

Lemma wf_disc_b_sound : forall tbl, wf_disc_b tbl = true -> wf_disc (rules_of tbl).
Proof.
  intros tbl H k d Hd. destruct (rules_of_cases tbl k) as [Hdf|Hin].
  - rewrite Hdf in Hd. contradiction Hd.
  - unfold wf_disc_b in H. rewrite forallb_forall in H. specialize (H _ Hin). cbn [fst snd] in H.
    rewrite forallb_forall in H. now apply H.
Qed.

Lemma wf_order_id : wf_order (fun _ _ l => l).
Proof. intros e k l. apply Permutation_refl. Qed.

Lemma wf_order_rev : wf_order (fun _ _ l => rev l).
Proof. intros e k l. apply Permutation_rev. Qed.

(* ---------- a non-trivial instance ---------- *)

(* 1,2,3,5,7: leaves observing external state; 4 requests 1 and 2 and then 3 or 5 depending on the parity of slot 0;
   6 requests 4, requests 2 single-use, must follow 5, and reports the discovered dependency 7; 8 requests 6 and 1 *)
Definition ex_defs : list (key * rule) :=
  [ (1, mkRule 10 true [] [] [] None []);
    (2, mkRule 20 true [] [] [] None []);
    (3, mkRule 30 true [] [] [] None []);
    (5, mkRule 50 true [] [] [] None []);
    (7, mkRule 70 true [] [] [] None []);
    (4, mkRule 40 false [1; 2] [] [] (Some (0%nat, [3], [5])) []);
    (6, mkRule 60 false [4] [2] [5] None [7]);
    (8, mkRule 80 true [6; 1] [] [] None []) ].
Definition ex_rank : key -> nat := rank_of [(4, 1%nat); (6, 2%nat); (8, 3%nat)].
Definition ex_order (e : N) (k : key) (l : list dep) : list dep := if N.even e then rev l else l.

Lemma ex_wf_rank : wf_rank (rules_of (rev ex_defs)) ex_rank.
Proof. apply wf_rank_b_sound. vm_compute. reflexivity. Qed.
Lemma ex_wf_disc : wf_disc (rules_of (rev ex_defs)).
Proof. apply wf_disc_b_sound. vm_compute. reflexivity. Qed.
Lemma ex_wf_order : wf_order ex_order.
Proof. intros e k l. unfold ex_order. destruct (N.even e); [apply Permutation_rev | apply Permutation_refl]. Qed.

(* a history: external changes, builds of several targets, a restart over the database *)
Definition ex_ops : list op :=
  [OSet 1 5; OSet 2 7; OBuild 6; OSet 1 6; OBuild 8; OSet 7 3; OBuild 4; ORestart true; OSet 2 1; OBuild 8;
   OSet 3 9; OBuild 6; OBuild 8].
Definition ex_history : list op := rule_ops ex_defs ++ ORestart false :: ex_ops.

(* for every prefix that ends with a build: does the stored result equal the clean value for the environment then? *)
Definition ex_build_checks : list bool :=
  flat_map (fun n =>
    match nth_error ex_history n with
    | Some (OBuild k) =>
        let h := run_history mixF ex_order 5 (firstn (S n) ex_history) in
        [match result_of (h_st h) k, cv (rules_of (rev ex_defs)) (env_of (h_env h)) mixF 5 k with
         | Some a, Some b => value_eqb a b | _, _ => false end]
    | _ => []
    end) (seq 0 (length ex_history)).

Lemma ex_history_clean : ex_build_checks = [true; true; true; true; true; true].
Proof. vm_compute. reflexivity. Qed.

Lemma ex_ops_ok : Forall no_rule_op ex_ops /\ Forall (build_ranked ex_rank 5) ex_ops.
Proof. split; repeat constructor. Qed.

(* ---------- constructing R from the list of all rules ever defined ---------- *)

Definition R_of (all : list (key * rule)) (k : key) (sg : N) : rule :=
  match find (fun p => N.eqb (fst p) k && N.eqb (r_sig (snd p)) sg) all with
  | Some p => snd p
  | None => default_rule
  end.

(* H_sig: no two listed rules of one key share a signature (the (key, signature) pairs are pairwise distinct) *)
Definition sig_unique (all : list (key * rule)) : Prop :=
  forall p1 p2, In p1 all -> In p2 all -> fst p1 = fst p2 -> r_sig (snd p1) = r_sig (snd p2) -> p1 = p2.

Fixpoint nodup_b (l : list (N * N)) : bool :=
  match l with
  | [] => true
  | x :: t => negb (existsb (fun y => N.eqb (fst x) (fst y) && N.eqb (snd x) (snd y)) t) && nodup_b t
  end.
Definition sig_unique_b (all : list (key * rule)) : bool := nodup_b (map (fun p => (fst p, r_sig (snd p))) all).

Lemma nodup_b_inj : forall {A} (f : A -> N * N) l, nodup_b (map f l) = true ->
  forall a b, In a l -> In b l -> f a = f b -> a = b.
Proof.
  intros A f l. induction l as [|x t IH]; intros H a b Ha Hb Hf; [contradiction Ha|].
  cbn [map nodup_b] in H. apply andb_true_iff in H. destruct H as [Hx Ht]. apply negb_true_iff in Hx.
  assert (Hnot : forall y, In y t -> f x <> f y).
  { intros y Hy Heq. assert (Hex : existsb (fun z => N.eqb (fst (f x)) (fst z) && N.eqb (snd (f x)) (snd z)) (map f t) = true).
    { apply existsb_exists. exists (f y). split; [now apply in_map|]. rewrite Heq. now rewrite !N.eqb_refl. }
    congruence. }
  destruct Ha as [<-|Ha], Hb as [<-|Hb]; auto.
  - exfalso. now apply (Hnot b Hb).
  - exfalso. apply (Hnot a Ha). now symmetry.
Qed.

Lemma sig_unique_b_sound : forall all, sig_unique_b all = true -> sig_unique all.
Proof.
  intros all H p1 p2 H1 H2 Hk Hs. apply (nodup_b_inj _ all H); auto. now rewrite Hk, Hs.
Qed.

Lemma R_of_table_ok : forall all tbl,
  (forall p, In p all -> r_sig (snd p) <> 0) -> sig_unique all -> (forall p, In p tbl -> In p all) ->
  table_ok (rules_of tbl) (R_of all).
Proof.
  intros all tbl Hnz Huniq Hsub k. unfold R_of.
  set (pred := fun p : key * rule => N.eqb (fst p) k && N.eqb (r_sig (snd p)) (r_sig (rules_of tbl k))).
  change (match find pred all with Some p => snd p | None => default_rule end = rules_of tbl k).
  destruct (find pred all) as [p'|] eqn:Ef.
  - apply find_some in Ef. destruct Ef as [Hin Hp]. unfold pred in Hp. apply andb_true_iff in Hp.
    destruct Hp as [Hk Hs]. apply N.eqb_eq in Hk, Hs.
    destruct (rules_of_cases tbl k) as [Hd|Hin'].
    + exfalso. apply (Hnz p' Hin). rewrite Hs, Hd. reflexivity.
    + assert (p' = (k, rules_of tbl k)) as -> by (apply Huniq; auto). reflexivity.
  - destruct (rules_of_cases tbl k) as [Hd|Hin']; [now symmetry|].
    exfalso. pose proof (find_none _ _ Ef _ (Hsub _ Hin')) as Hp. unfold pred in Hp. cbn [fst snd] in Hp.
    now rewrite !N.eqb_refl in Hp.
Qed.

Definition sigs_nonzero_b (all : list (key * rule)) : bool := forallb (fun p => negb (N.eqb (r_sig (snd p)) 0)) all.
Lemma sigs_nonzero_b_sound : forall all, sigs_nonzero_b all = true -> forall p, In p all -> r_sig (snd p) <> 0.
Proof.
  intros all H p Hp. unfold sigs_nonzero_b in H. rewrite forallb_forall in H. specialize (H p Hp).
  apply negb_true_iff in H. now apply N.eqb_neq in H.
Qed.

(* ---------- a non-trivial instance with a rule edit ---------- *)

(* rule 4 is redefined (new signature, no branch any more, must follow 5), then a new engine over the same database *)
Definition ex_rule4b : rule := mkRule 41 false [1; 2] [] [5] None [].
Definition ex_all : list (key * rule) := (4, ex_rule4b) :: ex_defs.
Definition ex_tbl2 : list (key * rule) := (4, ex_rule4b) :: rev ex_defs.
Definition ex_edit_history : list op :=
  ex_history ++ [ORule 4 ex_rule4b; ORestart true; OBuild 8; OSet 1 9; OBuild 6; OBuild 8].

Lemma ex_tb1 : forall k, (ex_rank k < 5)%nat -> table_build_ok 5 (R_of ex_all) (rev ex_defs) k.
Proof.
  intros k Hk. split; [|split; [exact ex_wf_disc | exists ex_rank; split; [exact ex_wf_rank | exact Hk]]].
  apply R_of_table_ok.
  - apply sigs_nonzero_b_sound. vm_compute. reflexivity.
  - apply sig_unique_b_sound. vm_compute. reflexivity.
  - intros p Hp. apply in_rev in Hp. now right.
Qed.

Lemma ex_tb2 : forall k, (ex_rank k < 5)%nat -> table_build_ok 5 (R_of ex_all) ex_tbl2 k.
Proof.
  intros k Hk. split; [|split; [|exists ex_rank; split; [|exact Hk]]].
  - apply R_of_table_ok.
    + apply sigs_nonzero_b_sound. vm_compute. reflexivity.
    + apply sig_unique_b_sound. vm_compute. reflexivity.
    + intros p [<-|Hp]; [now left | apply in_rev in Hp; now right].
  - apply wf_disc_b_sound. vm_compute. reflexivity.
  - apply wf_rank_b_sound. vm_compute. reflexivity.
Qed.

Lemma ex_edit_tables_ok : tables_ok 5 (R_of ex_all) ex_edit_history [] [].
Proof.
  unfold ex_edit_history, ex_history, ex_ops, rule_ops, ex_defs.
  cbn [app map fst snd tables_ok next_rl next_pd].
  repeat match goal with
  | |- True => exact I
  | |- table_build_ok _ _ _ _ => first [apply ex_tb1; vm_compute; lia | apply ex_tb2; vm_compute; lia]
  | |- _ /\ _ => split
  end.
Qed.

(* every build of the edited history returns the clean value under the table its engine instance sees *)
Definition ex_edit_checks : list bool :=
  flat_map (fun n =>
    match nth_error ex_edit_history n with
    | Some (OBuild k) =>
        let h := run_history mixF ex_order 5 (firstn (S n) ex_edit_history) in
        [match result_of (h_st h) k, cv (rules_of (h_rules h)) (env_of (h_env h)) mixF 5 k with
         | Some a, Some b => value_eqb a b | _, _ => false end]
    | _ => []
    end) (seq 0 (length ex_edit_history)).

Lemma ex_edit_history_clean : ex_edit_checks = [true; true; true; true; true; true; true; true; true].
Proof. vm_compute. reflexivity. Qed.
