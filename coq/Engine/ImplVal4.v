(* P19b - values, part 4: delivering one finished input request (provideValue, the branch request) keeps the value invariant. *)
From LLB Require Import Engine.Rules Engine.Spec Engine.SpecInv1 Engine.Impl Engine.ImplProofs Engine.ImplProofsSticky Engine.ImplProofsMono Engine.ImplProofsInv
  Engine.ImplProofsInv2 Engine.ImplProofsInv3 Engine.ImplProofsInv6 Engine.ImplProofsInv7 Engine.ImplProofsInv8 Engine.ImplProofsInv9 Engine.ImplProofsAvail
  Engine.ImplProofsProto Engine.ImplVal1 Engine.ImplVal2 Engine.ImplVal3.
From Coq Require Import Arith Lia.
Local Open Scope N_scope.

Lemma length_set_nth {A} (l : list A) n a : length (set_nth l n a) = length l.
Proof. revert n. induction l as [|x l IH]; intros [|n]; cbn [set_nth length]; auto. Qed.
Lemma nth_error_set_nth {A} (l : list A) n a i : (n < length l)%nat ->
  nth_error (set_nth l n a) i = if Nat.eqb i n then Some a else nth_error l i.
Proof.
  revert n i. induction l as [|x l IH]; intros n i Hn; [cbn in Hn; lia|]. destruct n as [|n]; destruct i as [|i]; cbn [set_nth nth_error Nat.eqb]; auto.
  apply IH. cbn in Hn. lia.
Qed.
Lemma nth_error_repeat_none {A} (a : A) n i : (i < n)%nat -> nth_error (repeat a n) i = Some a.
Proof. revert i. induction n as [|n IH]; intros i H; [lia|]. destruct i; cbn [repeat nth_error]; auto. apply IH. lia. Qed.

Lemma in_mk_reqs t ks : forall slot sg j x, nth_error ks j = Some x -> In (mkIReq (Some t) (slot + j) x false sg) (mk_reqs t ks slot sg).
Proof.
  induction ks as [|y ks IH]; intros slot sg j x H; [now destruct j|]. destruct j as [|j]; cbn [nth_error mk_reqs] in *.
  - inversion H. subst. rewrite Nat.add_0_r. now left.
  - right. rewrite <- Nat.add_succ_comm. now apply IH.
Qed.
Lemma mk_reqs_inv t ks : forall slot sg rq, In rq (mk_reqs t ks slot sg) ->
  exists j x, nth_error ks j = Some x /\ rq = mkIReq (Some t) (slot + j) x false sg.
Proof.
  induction ks as [|y ks IH]; intros slot sg rq H; [destruct H|]. cbn [mk_reqs] in H. destruct H as [H|H].
  - exists 0%nat, y. rewrite Nat.add_0_r. auto.
  - destruct (IH _ _ _ H) as (j & x & Hj & Hr). exists (S j), x. rewrite <- Nat.add_succ_comm. auto.
Qed.

(* decrementTaskWaitCount leaves the views of the value invariant alone *)
Lemma decrement_wait_views s t : nf (decrement_wait s t) ->
  (forall k, rinfo_of (decrement_wait s t) k = rinfo_of s k) /\ (forall t0, tcore (decrement_wait s t) t0 = tcore s t0) /\
  (forall t0, t0 <> t -> task_of (decrement_wait s t) t0 = task_of s t0) /\
  is_inreq (decrement_wait s t) = is_inreq s /\ is_fininreq (decrement_wait s t) = is_fininreq s /\ is_fintasks (decrement_wait s t) = is_fintasks s /\
  is_toscan (decrement_wait s t) = is_toscan s /\ is_usedb (decrement_wait s t) = is_usedb s /\ is_epoch (decrement_wait s t) = is_epoch s.
Proof.
  unfold decrement_wait. destruct (aget (is_tasks s) t) as [ti|] eqn:Hg; [|intros H; now apply nf_fault in H].
  destruct (ti_wait ti); [intros H; now apply nf_fault in H|]. cbn zeta. intros _.
  assert (Hc : forall t0, tcore (set_ti s t (ti_with_wait n ti)) t0 = tcore s t0).
  { intros t0. unfold tcore, task_of. autorewrite with iv. rewrite aget_aset. destruct (N.eqb t0 t) eqn:E; auto. apply N.eqb_eq in E. subst. now rewrite Hg. }
  assert (Hx : forall t0, t0 <> t -> task_of (set_ti s t (ti_with_wait n ti)) t0 = task_of s t0).
  { intros t0 Hne. unfold task_of. autorewrite with iv. rewrite aget_aset. apply N.eqb_neq in Hne. now rewrite Hne. }
  destruct (Nat.eqb n 0); repeat split; auto; intros; autorewrite with iv; auto.
Qed.

Section Val.
Variable rules : key -> rule.
Variable env : key -> N.
Variable F : key -> N -> list value -> list N -> N -> N.
Variable rank : key -> nat.
Hypothesis Hrank : wf_rank rules rank.
Notation cvK := (cvK rules env F rank).
Notation bkK := (bkK rules env F rank).
Notation n1 := (n1 rules).
Notation n2 := (n2 rules).
Notation key_of_slot := (key_of_slot rules env F rank).
Notation task_ok := (task_ok rules env F rank).
Notation VInv := (VInv rules env F rank).
Notation rq_wf := (rq_wf rules env F rank).

Lemma cvK_some x : exists v, cvK x = Some v.
Proof. apply (cvk_some rules env F rank Hrank). Qed.

(* what the delivery of a (non order-only) request looks like to the value invariant *)
Record delivered (s s' : istate) (rq : ireq) (rest : list ireq) (t : key) (ti ti' : tinfo) (ks : list key) : Prop := {
  dl_fin : is_fininreq s = rq :: rest;
  dl_rinfo : forall k, rinfo_of s' k = rinfo_of s k;
  dl_other : forall t0, t0 <> t -> task_of s' t0 = task_of s t0;
  dl_self : task_of s' t = Some ti';
  dl_slots : ti_slots ti' = set_nth (ti_slots ti) (iq_slot rq) (cvK (iq_input rq)) ++ repeat None (length ks);
  dl_pend : ti_pending ti' = ti_pending ti;
  dl_reqby : ti_reqby ti' = ti_reqby ti;
  dl_inreq : is_inreq s' = is_inreq s ++ mk_reqs t ks (length (ti_slots ti)) false;
  dl_fin' : is_fininreq s' = rest;
  dl_ft : is_fintasks s' = is_fintasks s;
  dl_ts : is_toscan s' = is_toscan s;
  dl_udb : is_usedb s' = is_usedb s;
  dl_ep : is_epoch s' = is_epoch s;
  dl_fire : (ti_branched ti = false /\ ti_branched ti' = true /\ ks = bkK t /\ exists a b, r_br (rules t) = Some (iq_slot rq, a, b) /\ (iq_slot rq < n1 t)%nat)
            \/ (ks = [] /\ ti_branched ti' = ti_branched ti /\
                (ti_branched ti = false -> forall i a b, r_br (rules t) = Some (i, a, b) -> (i < n1 t)%nat -> i <> iq_slot rq))
}.

Lemma VInv_delivered root s s' rq rest t ti ti' ks : VInv root s -> iq_task rq = Some t -> iq_order rq = false -> task_of s t = Some ti ->
  delivered s s' rq rest t ti ti' ks -> VInv root s'.
Proof.
  intros [V1 V2 V3 V4 V5 V6 V7 V8 V9 V10] Ht Hord Hg [D1 D2 D3 D4 D5 D6 D7 D8 D9 D10 D11 D12 D13 D14].
  set (slot := iq_slot rq) in *. set (inp := iq_input rq) in *. set (sl := ti_slots ti) in *.
  assert (Hrq : Oreq s rq) by (right; right; rewrite D1; now left).
  destruct (V6 rq Hrq t Ht Hord) as (Hkey & ti0 & Hg0 & Hsl). rewrite Hg in Hg0. inversion Hg0. subst ti0. fold slot inp sl in Hkey, Hsl.
  destruct (cvK_some inp) as (cv0 & Hcv).
  destruct (V8 t ti Hg) as [K1 K2 K3 K4 K5 K6]. fold sl in K1, K2, K3, K4.
  assert (Hlen' : length (ti_slots ti') = (length sl + length ks)%nat) by (rewrite D5, app_length, length_set_nth, repeat_length; reflexivity).
  assert (Hnth : forall i, (i < length sl)%nat -> nth_error (ti_slots ti') i = if Nat.eqb i slot then Some (cvK inp) else nth_error sl i).
  { intros i Hi. rewrite D5, nth_error_app1 by (rewrite length_set_nth; exact Hi). now apply nth_error_set_nth. }
  assert (Hnth2 : forall i, (length sl <= i)%nat -> (i < length sl + length ks)%nat -> nth_error (ti_slots ti') i = Some None).
  { intros i H1 H2. rewrite D5, nth_error_app2 by (rewrite length_set_nth; exact H1). rewrite length_set_nth. apply nth_error_repeat_none. lia. }
  assert (HK : forall k, kind_of s' k = kind_of s k) by (intros; unfold kind_of; now rewrite D2).
  assert (HR : forall k, res_of s' k = res_of s k) by (intros; unfold res_of; now rewrite D2).
  assert (O1 : forall x, Oreq s x -> x <> rq -> Oreq s' x).
  { intros x [H|[(t0 & y & Hy & Hin)|H]] Hne.
    - left. rewrite D8. apply in_or_app. now left.
    - right. left. destruct (N.eq_dec t0 t) as [->|Hn0].
      + rewrite Hg in Hy. inversion Hy. subst y. exists t, ti'. split; auto. now rewrite D7.
      + exists t0, y. rewrite (D3 t0 Hn0). auto.
    - right. right. rewrite D9. rewrite D1 in H. destruct H as [H|H]; [congruence|auto]. }
  assert (O2 : forall x, Oreq s' x -> Oreq s x \/ In x (mk_reqs t ks (length sl) false)).
  { intros x [H|[(t0 & y & Hy & Hin)|H]].
    - rewrite D8 in H. apply in_app_or in H. destruct H; [left; now left|now right].
    - left. right. left. destruct (N.eq_dec t0 t) as [->|Hn0].
      + rewrite D4 in Hy. inversion Hy. subst y. exists t, ti. split; auto. now rewrite <- D7.
      + exists t0, y. rewrite <- (D3 t0 Hn0). auto.
    - left. right. right. rewrite D1. right. now rewrite <- D9. }
  assert (Hexists : forall t0 x, task_of s t0 = Some x -> exists y, task_of s' t0 = Some y /\ (length (ti_slots x) <= length (ti_slots y))%nat).
  { intros t0 x Hx. destruct (N.eq_dec t0 t) as [->|Hn0].
    - rewrite Hg in Hx. inversion Hx. subst x. exists ti'. split; auto. fold sl. lia.
    - exists x. rewrite (D3 t0 Hn0). auto. }
  constructor.
  - congruence.
  - congruence.
  - intros k. rewrite HK. apply V3.
  - intros k. rewrite HK, HR. apply V4.
  - intros k. rewrite HK, HR, D13. apply V5.
  - intros x Ho. destruct (O2 x Ho) as [Hold|Hnew].
    + apply (rq_wf_sub rules env F rank s s'); auto.
    + destruct (mk_reqs_inv _ _ _ _ _ Hnew) as (j & y & Hj & ->). intros t0 Ht0 _. cbn [iq_task iq_slot iq_input] in *. inversion Ht0. subst t0.
      destruct D14 as [(Hb & Hb' & Hks & a & b & Hbr & Hlt)|(Hks & _)]; [|subst ks; now destruct j].
      assert (Hsl0 : length sl = (n1 t + n2 t)%nat) by (rewrite K1, Hb; lia).
      split.
      * unfold ImplVal1.key_of_slot. fold (n1 t) (n2 t). rewrite Hsl0.
        assert (E1 : Nat.ltb (n1 t + n2 t + j) (n1 t) = false) by (apply Nat.ltb_ge; lia).
        assert (E2 : Nat.ltb (n1 t + n2 t + j) (n1 t + n2 t) = false) by (apply Nat.ltb_ge; lia).
        rewrite E1, E2. replace (n1 t + n2 t + j - n1 t - n2 t)%nat with j by lia. now rewrite <- Hks.
      * exists ti'. split; auto. rewrite Hlen'. apply nth_error_Some_lt in Hj || (assert (j < length ks)%nat by (apply nth_error_Some; congruence); lia).
  - intros x Hin. rewrite HK. apply V7. rewrite D1. right. now rewrite <- D9.
  - intros t0 y Hy. destruct (N.eq_dec t0 t) as [->|Hn0].
    + rewrite D4 in Hy. inversion Hy. subst y. constructor.
      * rewrite Hlen', K1. destruct D14 as [(Hb & Hb' & Hks & _)|(Hks & Hb' & _)]; rewrite Hb'; [rewrite Hb, Hks; lia|rewrite Hks; cbn [length]; lia].
      * intros i v x Hv Hx. destruct (Nat.lt_ge_cases i (length sl)) as [Hi|Hi].
        -- rewrite (Hnth i Hi) in Hv. destruct (Nat.eqb i slot) eqn:E; [|eauto]. apply Nat.eqb_eq in E. subst i.
           rewrite Hkey in Hx. inversion Hx. subst x. now inversion Hv.
        -- destruct (Nat.lt_ge_cases i (length sl + length ks)) as [Hi2|Hi2]; [rewrite (Hnth2 i Hi Hi2) in Hv; discriminate|].
           assert (Hn : nth_error (ti_slots ti') i = None) by (apply nth_error_None; lia). congruence.
      * intros i Hu Hn. destruct (Nat.lt_ge_cases i (length sl)) as [Hi|Hi].
        -- rewrite (Hnth i Hi) in Hn. destruct (Nat.eqb i slot) eqn:E; [rewrite Hcv in Hn; discriminate|]. apply Nat.eqb_neq in E.
           destruct (K3 i Hu Hn) as (x & Hox & Hxt & Hxo & Hxs). exists x. repeat split; auto. apply O1; auto. intros ->. fold slot in Hxs. congruence.
        -- assert (Hi2 : (i < length sl + length ks)%nat) by (rewrite <- Hlen'; apply nth_error_Some; congruence).
           assert (Hj : exists x, nth_error ks (i - length sl) = Some x).
           { destruct (nth_error ks (i - length sl)) eqn:E; [eauto|]. apply nth_error_None in E. lia. }
           destruct Hj as (x & Hx). exists (mkIReq (Some t) (length sl + (i - length sl)) x false false). cbn [iq_task iq_order iq_slot]. repeat split; auto; [|lia].
           left. rewrite D8. apply in_or_app. right. now apply in_mk_reqs.
      * intros Hb' i a b Hbr Hlt. destruct D14 as [(_ & Hb'' & _)|(Hks & Hbeq & Hne)]; [congruence|].
        rewrite Hbeq in Hb'. assert (Hi : (i < length sl)%nat) by (rewrite K1; fold (n1 t); lia).
        rewrite (Hnth i Hi). pose proof (Hne Hb' i a b Hbr Hlt) as Hns. apply Nat.eqb_neq in Hns. fold slot in Hns. rewrite Hns. now apply (K4 Hb' i a b).
      * intros v. rewrite D6. apply K5.
      * rewrite D10, HR. apply K6.
    + rewrite (D3 t0 Hn0) in Hy. destruct (V8 t0 y Hy) as [J1 J2 J3 J4 J5 J6]. constructor; auto.
      * intros i Hu Hn. destruct (J3 i Hu Hn) as (x & Hox & Hxt & Hx'). exists x. repeat split; auto; try apply Hx'. apply O1; auto. intros ->. congruence.
      * rewrite D10, HR. exact J6.
  - destruct V9 as [H|[H|H]]; [left; rewrite D8; apply in_or_app; now left| |].
    + right. left. now rewrite (in_progress_of_kind s s' root (HK root)).
    + right. right. now rewrite HK.
  - now rewrite D13.
Qed.

Lemma branch_fire_bkK t ti slot inp cv0 ks : key_of_slot t slot = Some inp -> cvK inp = Some cv0 -> (slot < n1 t)%nat ->
  branch_fire rules t ti slot (Some cv0) = Some ks -> ks = bkK t /\ ti_branched ti = false /\ exists a b, r_br (rules t) = Some (slot, a, b).
Proof.
  intros Hkey Hcv Hlt. unfold branch_fire, ImplVal1.bkK, branch_keys. destruct (r_br (rules t)) as [[[i a] b]|]; [|discriminate].
  destruct (ti_branched ti); [discriminate|]. cbn [negb andb]. destruct (Nat.eqb slot i) eqn:E; [|discriminate]. apply Nat.eqb_eq in E. subst i.
  cbn [andb]. destruct (Nat.ltb slot (length (r_req (rules t)))) eqn:El; [|discriminate]. intros H. inversion H. subst ks.
  unfold ImplVal1.key_of_slot, ImplVal1.n1 in Hkey. rewrite El in Hkey.
  rewrite nth_error_map, Hkey. cbn [option_map]. rewrite Hcv. cbn [payload_of]. split; [reflexivity|]. split; eauto.
Qed.

Lemma branch_fire_none t ti slot v : branch_fire rules t ti slot v = None ->
  ti_branched ti = false -> forall i a b, r_br (rules t) = Some (i, a, b) -> (i < n1 t)%nat -> i <> slot.
Proof.
  unfold branch_fire. intros H Hb i a b Hbr Hlt. rewrite Hbr, Hb in H. cbn [negb andb] in H. intros ->.
  rewrite Nat.eqb_refl in H. apply Nat.ltb_lt in Hlt. unfold ImplVal1.n1 in Hlt. rewrite Hlt in H. discriminate.
Qed.

Lemma store_slot_in_range slot v ti : (slot < length (ti_slots ti))%nat -> store_slot slot v ti = ti_with_slots (set_nth (ti_slots ti) slot v) ti.
Proof. intros H. unfold store_slot. apply Nat.ltb_lt in H. now rewrite H. Qed.

Lemma step_fininreq_delivered root s rq rest t ti : Inv rules ctx0 s -> VInv root s -> is_fininreq s = rq :: rest -> iq_task rq = Some t ->
  iq_order rq = false -> task_of s t = Some ti -> nf (step_fininreq rules s) ->
  exists ti' ks, delivered s (step_fininreq rules s) rq rest t ti ti' ks.
Proof.
  intros HI HV Hq Ht Hord Hg Hn. unfold step_fininreq in *. rewrite Hq in *. unfold deliver in *. rewrite Ht, Hord in *. cbn zeta in *.
  set (s0 := upd_fininreq s rest) in *. set (slot := iq_slot rq). set (inp := iq_input rq).
  assert (Hrq : Oreq s rq) by (right; right; rewrite Hq; now left).
  destruct (v_req _ _ _ _ _ _ HV rq Hrq t Ht Hord) as (Hkey & ti0 & Hg0 & Hsl). rewrite Hg in Hg0. inversion Hg0. subst ti0. fold slot inp in Hkey, Hsl.
  assert (Hc : kind_of s inp = KComplete) by (apply (v_fin _ _ _ _ _ _ HV); rewrite Hq; now left).
  destruct (v_complete _ _ _ _ _ _ HV inp Hc) as [_ Hval]. destruct (cvK_some inp) as (cv0 & Hcv).
  fold inp slot in Hn |- *. assert (Hv0 : res_value (res_of s0 inp) = cvK inp) by exact Hval. rewrite Hv0 in *.
  set (s1 := provide_value rules s0 t slot inp (cvK inp)) in *.
  assert (Hn1 : nf s1) by (eapply sticky_decrement_wait; eauto).
  destruct (decrement_wait_views s1 t Hn) as (W1 & W2 & Wx & W3 & W4 & W5 & W6 & W7 & W8).
  (* provideValue *)
  set (tis := ti_with_slots (set_nth (ti_slots ti) slot (cvK inp)) ti) in *.
  set (se := iemit s0 (EProvide t slot inp (cvK inp))) in *.
  assert (Hs1 : s1 = match branch_fire rules t ti slot (cvK inp) with
                     | None => set_ti se t tis
                     | Some ks => branch_reqs (set_ti se t (ti_with_branched true tis)) t ks end).
  { unfold s1, provide_value. cbn zeta. fold se. change (aget (is_tasks se) t) with (aget (is_tasks s) t). unfold task_of in Hg. rewrite Hg.
    now rewrite (store_slot_in_range slot (cvK inp) ti Hsl). }
  clearbody s1.
  destruct (branch_fire rules t ti slot (cvK inp)) as [ks|] eqn:Ef; subst s1.
  - (* the branch fires *)
    rewrite Hcv in Ef.
    assert (Hlt : (slot < n1 t)%nat).
    { unfold branch_fire in Ef. destruct (r_br (rules t)) as [[[i a] b]|]; [|discriminate]. destruct (negb (ti_branched ti) && Nat.eqb slot i) eqn:E1; [|discriminate].
      apply Bool.andb_true_iff in E1. destruct E1 as [_ E1]. apply Nat.eqb_eq in E1. subst i. cbn [andb] in Ef.
      destruct (Nat.ltb slot (length (r_req (rules t)))) eqn:E2; [|discriminate]. now apply Nat.ltb_lt in E2. }
    destruct (branch_fire_bkK t ti slot inp cv0 ks Hkey Hcv Hlt Ef) as (Hks & Hb & a & b & Hbr).
    set (sb := set_ti se t (ti_with_branched true tis)) in *.
    assert (Hgb : task_of sb t = Some (ti_with_branched true tis)) by (unfold sb, task_of; autorewrite with iv; now rewrite aget_aset_same).
    pose proof (issues_branch_reqs ks sb t _ Hgb Hn1) as [A1 A2 A3 A4 A5 A6 A7 A8 A9 A10].
    destruct (A4 _ Hgb) as (n & Hg1). set (s1 := branch_reqs sb t ks) in *.
    destruct (tcore_task s1 (decrement_wait s1 t) t _ (W2 t) Hg1) as (y & Hy & Hcc). apply core_fields in Hcc. destruct Hcc as (C1 & C2 & C3 & C4).
    cbn [ti_with_wait ti_with_slots ti_with_branched ti_slots ti_branched ti_pending ti_reqby tis] in C1, C2, C3, C4.
    exists y, ks. constructor.
    + exact Hq.
    + intros k. rewrite W1, A1. reflexivity.
    + intros t0 Hne. rewrite (Wx t0 Hne), (A3 t0 Hne). unfold sb, se, task_of. autorewrite with iv. rewrite aget_aset. apply N.eqb_neq in Hne. now rewrite Hne.
    + exact Hy.
    + exact C1.
    + exact C3.
    + exact C4.
    + rewrite W3, A2. cbn [ti_with_branched tis ti_with_slots ti_slots]. now rewrite length_set_nth.
    + rewrite W4, A5. reflexivity.
    + rewrite W5, A6. reflexivity.
    + rewrite W6, A7. reflexivity.
    + rewrite W7, A9. reflexivity.
    + rewrite W8, A8. reflexivity.
    + left. fold slot. repeat split; auto. exists a, b. auto.
  - (* no branch request *)
    set (s1 := set_ti se t tis) in *.
    assert (Hg1 : task_of s1 t = Some tis) by (unfold s1, task_of; autorewrite with iv; now rewrite aget_aset_same).
    destruct (tcore_task s1 (decrement_wait s1 t) t _ (W2 t) Hg1) as (y & Hy & Hcc). apply core_fields in Hcc. destruct Hcc as (C1 & C2 & C3 & C4).
    cbn [tis ti_with_slots ti_slots ti_branched ti_pending ti_reqby] in C1, C2, C3, C4.
    exists y, []. constructor.
    + exact Hq.
    + intros k. rewrite W1. unfold s1. now autorewrite with iv.
    + intros t0 Hne. rewrite (Wx t0 Hne). unfold s1, se, task_of. autorewrite with iv. rewrite aget_aset. apply N.eqb_neq in Hne. now rewrite Hne.
    + exact Hy.
    + cbn [repeat length]. now rewrite app_nil_r.
    + exact C3.
    + exact C4.
    + rewrite W3. unfold s1. autorewrite with iv. cbn [mk_reqs]. now rewrite app_nil_r.
    + rewrite W4. unfold s1. now autorewrite with iv.
    + rewrite W5. unfold s1. now autorewrite with iv.
    + rewrite W6. unfold s1. now autorewrite with iv.
    + rewrite W7. unfold s1. now autorewrite with iv.
    + rewrite W8. unfold s1. now autorewrite with iv.
    + right. repeat split; auto. fold slot. now apply (branch_fire_none t ti slot (cvK inp)).
Qed.

(* an order-only request leaves finishedInputRequests: nothing the values depend on changes *)
Lemma VInv_drop_order root s s' rq rest : VInv root s -> is_fininreq s = rq :: rest -> iq_order rq = true ->
  (forall k, rinfo_of s' k = rinfo_of s k) -> (forall t, tcore s' t = tcore s t) -> is_inreq s' = is_inreq s -> is_fininreq s' = rest ->
  is_fintasks s' = is_fintasks s -> is_toscan s' = is_toscan s -> is_usedb s' = is_usedb s -> is_epoch s' = is_epoch s -> VInv root s'.
Proof.
  intros [V1 V2 V3 V4 V5 V6 V7 V8 V9 V10] Hq Hord Hr Ht Hi Hf Hft Hts Hu He.
  assert (HK : forall k, kind_of s' k = kind_of s k) by (intros; unfold kind_of; now rewrite Hr).
  assert (HR : forall k, res_of s' k = res_of s k) by (intros; unfold res_of; now rewrite Hr).
  assert (O1 : forall x, Oreq s x -> x <> rq -> Oreq s' x).
  { intros x [H|[(t0 & y & Hy & Hin)|H]] Hne.
    - left. congruence.
    - right. left. destruct (tcore_task s s' t0 y (Ht t0) Hy) as (z & Hz & Hc). apply core_fields in Hc. exists t0, z. split; auto. destruct Hc as (_ & _ & _ & ->). auto.
    - right. right. rewrite Hf. rewrite Hq in H. destruct H; [congruence|auto]. }
  assert (O2 : forall x, Oreq s' x -> Oreq s x).
  { intros x [H|[(t0 & y & Hy & Hin)|H]].
    - left. congruence.
    - right. left. destruct (tcore_some s s' t0 y (Ht t0) Hy) as (z & Hz & Hc). apply core_fields in Hc. exists t0, z. split; auto. destruct Hc as (_ & _ & _ & ->). auto.
    - right. right. rewrite Hq. right. congruence. }
  constructor.
  - congruence.
  - congruence.
  - intros k. rewrite HK. apply V3.
  - intros k. rewrite HK, HR. apply V4.
  - intros k. rewrite HK, HR, He. apply V5.
  - intros x Ho. apply (rq_wf_frame rules env F rank s s'); auto.
  - intros x Hin. rewrite HK. apply V7. rewrite Hq. right. congruence.
  - intros t0 y Hy. destruct (tcore_some s s' t0 y (Ht t0) Hy) as (z & Hz & Hc). destruct (V8 t0 z Hz) as [K1 K2 K3 K4 K5 K6].
    apply core_fields in Hc. destruct Hc as (C1 & C2 & C3 & C4). constructor; rewrite <- ?C1, <- ?C2, <- ?C3; auto.
    + intros i Hu' Hn. destruct (K3 i Hu' Hn) as (x & Hox & Hxt & Hxo & Hxs). exists x. repeat split; auto. apply O1; auto. intros ->. congruence.
    + rewrite Hft, HR. exact K6.
  - rewrite Hi, HK, (in_progress_of_kind s s' root (HK root)). exact V9.
  - now rewrite He.
Qed.

Lemma VInv_step_fininreq root s : Inv rules ctx0 s -> VInv root s -> nf (step_fininreq rules s) -> VInv root (step_fininreq rules s).
Proof.
  intros HI HV Hn. destruct (is_fininreq s) as [|rq rest] eqn:Hq; [unfold step_fininreq; now rewrite Hq|].
  assert (Hnd : iq_task rq <> None). { destruct HI as (_ & _ & HI' & _). apply (i_fin_nd rules ctx0 s HI'). rewrite Hq. now left. }
  destruct (iq_task rq) as [t|] eqn:Et; [|contradiction].
  pose proof (Inv_pop_fininreq rules ctx0 s rq rest Hq HI) as HI1.
  destruct (waiting_of_request rules (cx_set_fi ctx0 (rq :: cx_fi ctx0)) (upd_fininreq s rest) t rq (cx_fi ctx0) eq_refl Et HI1) as (ti & Hg & _).
  change (aget (is_tasks (upd_fininreq s rest)) t) with (task_of s t) in Hg.
  destruct (iq_order rq) eqn:Eo.
  - unfold step_fininreq in *. rewrite Hq in *. unfold deliver in *. rewrite Et, Eo in *. cbn zeta in *.
    destruct (decrement_wait_views (upd_fininreq s rest) t Hn) as (W1 & W2 & Wx & W3 & W4 & W5 & W6 & W7 & W8).
    apply (VInv_drop_order root s _ rq rest HV Hq Eo); auto.
  - destruct (step_fininreq_delivered root s rq rest t ti HI HV Hq Et Eo Hg Hn) as (ti' & ks & HD).
    eapply VInv_delivered; eauto.
Qed.
End Val.
