(* P19 - part 14: the stalled engine.  Every task or scanning rule waits on a task or scanning rule (an edge of findCycle's
   successor graph), so the graph has no dead end below a live root; every edge is a request of the rule set or a recorded
   dependency. *)
From LLB Require Import Engine.Rules Engine.Spec Engine.Impl Engine.ImplProofs Engine.ImplProofsSticky Engine.ImplProofsInv Engine.ImplProofsInv2
  Engine.ImplProofsInv3 Engine.ImplProofsInv4 Engine.ImplProofsInv5 Engine.ImplProofsInv6 Engine.ImplProofsInv7 Engine.ImplProofsInv8 Engine.ImplProofsInv9.
From LLB Require Engine.FindCycle Engine.FindCycleProofs.
From Coq Require Import Arith Lia.
Local Open Scope N_scope.

(* a node of the wait-for graph that is still unfinished: it has a task, or it is being scanned *)
Definition live (s : istate) (k : key) : Prop := aget (is_tasks s) k <> None \/ kind_of s k = KScanning.

(* ---------- membership in the graph ---------- *)
Lemma in_task_edges_reqby e rq t : In rq (ti_reqby (snd e)) -> iq_task rq = Some t -> In (fst e, t) (task_edges e).
Proof.
  intros Hin Ht. unfold task_edges. apply in_or_app. left. apply in_map. apply in_flat_map. exists rq. split; auto.
  unfold req_task_key. rewrite Ht. now left.
Qed.
Lemma in_task_edges_deferred e rq : In rq (ti_deferred (snd e)) -> In (fst e, sq_rule rq) (task_edges e).
Proof. intros Hin. unfold task_edges. apply in_or_app. right. apply (in_map (fun rq => (fst e, sq_rule rq))). exact Hin. Qed.
Lemma in_scan_edges_paused e rq t : ri_kind (snd e) = KScanning -> In rq (ri_paused (snd e)) -> iq_task rq = Some t -> In (iq_input rq, t) (scan_edges e).
Proof.
  intros Hk Hin Ht. unfold scan_edges. rewrite Hk. apply in_or_app. left. apply in_flat_map. exists rq. split; auto.
  unfold req_task_key. rewrite Ht. now left.
Qed.
Lemma in_scan_edges_deferred e rq i : ri_kind (snd e) = KScanning -> In rq (ri_deferred (snd e)) -> sq_input rq = Some i -> In (i, sq_rule rq) (scan_edges e).
Proof.
  intros Hk Hin Hi. unfold scan_edges. rewrite Hk. apply in_or_app. right.
  apply in_map_iff. exists rq. split; auto. now rewrite Hi.
Qed.

Lemma in_graph_task s t ti x : In (t, ti) (is_tasks s) -> In x (task_edges (t, ti)) -> In x (wait_graph s).
Proof. intros H1 H2. unfold wait_graph. apply in_or_app. left. apply in_flat_map. eauto. Qed.
Lemma in_graph_rule s k ri x : In (k, ri) (is_rules s) -> In x (scan_edges (k, ri)) -> In x (wait_graph s).
Proof. intros H1 H2. unfold wait_graph. apply in_or_app. right. apply in_flat_map. eauto. Qed.

Lemma cnt_s_pos_in k l : (0 < cnt_s k l)%nat -> exists rq, In rq l /\ sq_rule rq = k.
Proof.
  induction l as [|rq l IH]; [cbn; lia|]. rewrite cnt_s_cons. unfold for_rule at 1. destruct (N.eqb k (sq_rule rq)) eqn:E.
  - apply N.eqb_eq in E. intros _. exists rq. split; [now left|auto].
  - intros H. destruct IH as (x & Hin & Hx); [lia|]. exists x. split; [now right|auto].
Qed.

Definition idle_queues (s : istate) : Prop :=
  is_toscan s = [] /\ is_inreq s = [] /\ is_fininreq s = [] /\ is_ready s = [] /\ is_fintasks s = [] /\ is_outstanding s = 0%nat.

Lemma n_computing_zero s t ti : n_computing s = 0%nat -> aget (is_tasks s) t = Some ti -> kind_of s t <> KComputing.
Proof.
  unfold n_computing. intros H Hg Hk. apply aget_in in Hg.
  assert (Hin : In (t, ti) (filter (fun e => kind_eqb (kind_of s (fst e)) KComputing) (is_tasks s))).
  { apply filter_In. split; auto. cbn [fst]. rewrite Hk. reflexivity. }
  destruct (filter _ _); [destruct Hin|cbn in H; lia].
Qed.

(* every unfinished node waits on an unfinished node *)
Lemma live_waits rules s k : Inv rules ctx0 s -> idle_queues s -> live s k -> exists p, In (p, k) (wait_graph s) /\ live s p.
Proof.
  intros (Hn & HT & HI & HS) (Q1 & Q2 & Q3 & Q4 & Q5 & Q6) [Hl|Hl].
  - (* a task: it is waiting, with a request paused on a scanning rule or registered with a task *)
    destruct (aget (is_tasks s) k) as [ti|] eqn:Hg; [|contradiction].
    assert (Hnc : kind_of s k <> KComputing).
    { apply (n_computing_zero s k ti); auto. pose proof (t_out ctx0 s HT) as Ho. rewrite Q6 in Ho. cbn in Ho. now rewrite <- Ho. }
    assert (Hw : kind_of s k = KWaiting).
    { assert (Hip : is_in_progress s k = true) by (apply (t_tk ctx0 s HT); congruence). apply in_progress_iff in Hip. destruct Hip; [auto|contradiction]. }
    assert (Hpos : (0 < ti_wait ti)%nat).
    { destruct (ti_wait ti) eqn:E; [|lia]. destruct (t_rd2 ctx0 s HT k ti Hg Hw E) as [H|H]; [rewrite Q4 in H; destruct H|discriminate]. }
    rewrite (i_wc rules ctx0 s HI k ti Hg) in Hpos. unfold outstanding_count in Hpos. rewrite Q2, Q3 in Hpos. cbn [ctx0 cx_fi cnt_i filter length] in Hpos.
    destruct (Nat.eq_dec (asum (fun ri => cnt_i k (ri_paused ri)) (is_rules s)) 0) as [E|E].
    + destruct (asum_pos (fun ti => cnt_i k (ti_reqby ti)) (is_tasks s)) as (t' & ti' & Hin & Hc); [lia|].
      destruct (cnt_i_pos_in k _ Hc) as (rq & Hrq & Htk).
      exists t'. split.
      * apply (in_graph_task s t' ti'); auto. apply (in_task_edges_reqby (t', ti') rq k); auto.
      * left. rewrite (in_aget_nodup _ _ _ (t_nd_tasks ctx0 s HT) Hin). discriminate.
    + destruct (asum_pos (fun ri => cnt_i k (ri_paused ri)) (is_rules s)) as (k' & ri & Hin & Hc); [lia|].
      destruct (cnt_i_pos_in k _ Hc) as (rq & Hrq & Htk).
      pose proof (rinfo_of_some s k' ri (in_aget_nodup _ _ _ (t_nd_rules ctx0 s HT) Hin)) as Hri.
      assert (Hks : kind_of s k' = KScanning).
      { destruct (kind_eqb (kind_of s k') KScanning) eqn:E2; [now apply kind_eqb_eq|]. apply kind_eqb_neq in E2.
        pose proof (i_hyg rules ctx0 s HI k' E2) as Hp. rewrite Hri in Hp. rewrite Hp in Hrq. destruct Hrq. }
      assert (Hinp : iq_input rq = k') by (apply (i_pl_paused rules ctx0 s HI); now rewrite Hri).
      exists k'. split; [|now right].
      apply (in_graph_rule s k' ri); auto. rewrite <- Hinp at 1. apply (in_scan_edges_paused (k', ri) rq k); auto.
      cbn [snd]. unfold kind_of in Hks. now rewrite Hri in Hks.
  - (* a scanning rule: its scan request is deferred on a scanning rule or on a task *)
    pose proof (s_cnt ctx0 s HS k) as Hc. rewrite Hl in Hc. cbn [ctx0 cx_fs cnt_s filter length kind_eqb] in Hc.
    unfold scan_count in Hc. rewrite Q1 in Hc. cbn [cnt_s filter length] in Hc.
    destruct (Nat.eq_dec (asum (fun ri => cnt_s k (ri_deferred ri)) (is_rules s)) 0) as [E|E].
    + destruct (asum_pos (fun ti => cnt_s k (ti_deferred ti)) (is_tasks s)) as (t' & ti' & Hin & Hp); [lia|].
      destruct (cnt_s_pos_in k _ Hp) as (rq & Hrq & Hrk).
      exists t'. split.
      * apply (in_graph_task s t' ti'); auto. rewrite <- Hrk. apply (in_task_edges_deferred (t', ti') rq); auto.
      * left. rewrite (in_aget_nodup _ _ _ (t_nd_tasks ctx0 s HT) Hin). discriminate.
    + destruct (asum_pos (fun ri => cnt_s k (ri_deferred ri)) (is_rules s)) as (k' & ri & Hin & Hp); [lia|].
      destruct (cnt_s_pos_in k _ Hp) as (rq & Hrq & Hrk).
      pose proof (rinfo_of_some s k' ri (in_aget_nodup _ _ _ (t_nd_rules ctx0 s HT) Hin)) as Hri.
      assert (Hks : kind_of s k' = KScanning).
      { destruct (kind_eqb (kind_of s k') KScanning) eqn:E2; [now apply kind_eqb_eq|]. apply kind_eqb_neq in E2.
        pose proof (s_hyg ctx0 s HS k' E2) as Hd. rewrite Hri in Hd. rewrite Hd in Hrq. destruct Hrq. }
      assert (Hinp : sq_input rq = Some k') by (apply (s_pl_rdef ctx0 s HS); now rewrite Hri).
      exists k'. split; [|now right].
      apply (in_graph_rule s k' ri); auto. rewrite <- Hrk. apply (in_scan_edges_deferred (k', ri) rq k'); auto.
      cbn [snd]. unfold kind_of in Hks. now rewrite Hri in Hks.
Qed.

(* every edge (a, b) "b waits on a": a is unfinished, and a is a key the rule of b requests or a recorded dependency of b *)
Lemma edge_facts rules s a b : Inv rules ctx0 s -> In (a, b) (wait_graph s) ->
  live s a /\ (In a (requestable (rules b)) \/ In a (map d_key (res_deps (res_of s b)))).
Proof.
  intros (Hn & HT & HI & HS) Hin. unfold wait_graph in Hin. apply in_app_or in Hin. destruct Hin as [Hin|Hin]; apply in_flat_map in Hin.
  - destruct Hin as ([t ti] & Hent & He). pose proof (in_aget_nodup _ _ _ (t_nd_tasks ctx0 s HT) Hent) as Hg.
    unfold task_edges in He. cbn [fst snd] in He. apply in_app_or in He. destruct He as [He|He]; apply in_map_iff in He.
    + destruct He as (x & Hx & Hxin). inversion Hx. subst a x. apply in_flat_map in Hxin. destruct Hxin as (rq & Hrq & Hk).
      unfold req_task_key in Hk. destruct (iq_task rq) as [t'|] eqn:Et; [|destruct Hk]. destruct Hk as [Hk|[]]. subst t'.
      split; [left; congruence|]. left.
      pose proof (i_ok_reqby rules ctx0 s HI t ti Hg) as Hok. rewrite Forall_forall in Hok. destruct (Hok rq Hrq b Et) as [_ Hreq].
      destruct (i_pl_reqby rules ctx0 s HI t ti rq Hg Hrq) as [Hinp _]. now rewrite Hinp in Hreq.
    + destruct He as (rq & Hx & Hrq). inversion Hx. subst a b. split; [left; congruence|]. right.
      pose proof (s_ok_tdef ctx0 s HS t ti Hg) as Hok. rewrite Forall_forall in Hok. destruct (Hok rq Hrq) as (_ & _ & H3).
      destruct (H3 t (s_pl_tdef ctx0 s HS t ti rq Hg Hrq)) as (d & Hd & Hdk). apply nth_error_In in Hd. rewrite <- Hdk. now apply in_map.
  - destruct Hin as ([k ri] & Hent & He). pose proof (rinfo_of_some s k ri (in_aget_nodup _ _ _ (t_nd_rules ctx0 s HT) Hent)) as Hri.
    unfold scan_edges in He. cbn [fst snd] in He. destruct (ri_kind ri) eqn:Ek; try destruct He.
    assert (Hks : kind_of s k = KScanning) by (unfold kind_of; now rewrite Hri).
    apply in_app_or in He. destruct He as [He|He].
    + apply in_flat_map in He. destruct He as (rq & Hrq & Hx). apply in_map_iff in Hx. destruct Hx as (t' & Hx & Hk). inversion Hx. subst a t'.
      unfold req_task_key in Hk. destruct (iq_task rq) as [t'|] eqn:Et; [|destruct Hk]. destruct Hk as [Hk|[]]. subst t'.
      rewrite <- Hri in Hrq. rewrite (i_pl_paused rules ctx0 s HI k rq Hrq). split; [now right|]. left.
      pose proof (i_ok_paused rules ctx0 s HI k) as Hok. rewrite Forall_forall in Hok. destruct (Hok rq Hrq b Et) as [_ Hreq].
      now rewrite (i_pl_paused rules ctx0 s HI k rq Hrq) in Hreq.
    + apply in_map_iff in He. destruct He as (rq & Hx & Hrq). rewrite <- Hri in Hrq.
      pose proof (s_pl_rdef ctx0 s HS k rq Hrq) as Hinp. rewrite Hinp in Hx. inversion Hx. subst a b. split; [now right|]. right.
      pose proof (s_ok_rdef ctx0 s HS k) as Hok. rewrite Forall_forall in Hok. destruct (Hok rq Hrq) as (_ & _ & H3).
      destruct (H3 k Hinp) as (d & Hd & Hdk). apply nth_error_In in Hd. rewrite <- Hdk. now apply in_map.
Qed.

(* ---------- no dead end below a live root ---------- *)
Lemma chain_last_live rules s : Inv rules ctx0 s -> forall w x, live s x -> FindCycle.chain (wait_graph s) (x :: w) -> live s (last (x :: w) x).
Proof.
  intros HI. induction w as [|y w IH]; intros x Hx Hc; [exact Hx|].
  cbn [FindCycle.chain] in Hc. destruct Hc as [Hd Hc]. unfold FindCycle.dep in Hd.
  destruct (edge_facts rules s y x HI Hd) as [Hy _].
  change (last (x :: y :: w) x) with (last (y :: w) x).
  assert (E : last (y :: w) x = last (y :: w) y) by (clear; revert y; induction w as [|z w IHw]; intros y; [reflexivity|]; cbn [last] in *; destruct w; [reflexivity|apply IHw]).
  rewrite E. apply IH; auto.
Qed.

Theorem stall_no_dead_end rules s root : Inv rules ctx0 s -> idle_queues s -> live s root -> FindCycle.no_dead_end (wait_graph s) root.
Proof.
  intros HI Hq Hr w Hc. pose proof (chain_last_live rules s HI w root Hr Hc) as Hl.
  destruct (live_waits rules s _ HI Hq Hl) as (p & Hp & _). exists p. exact Hp.
Qed.

(* ---------- an iteration that does no work ---------- *)
Lemma drain_idle step ne fuel s : ne s = false -> drain step ne fuel s = s.
Proof. destruct fuel; cbn [drain]; now intros ->. Qed.

Lemma nonnil_false {A} (l : list A) : nonnil l = false -> l = [].
Proof. destruct l; [auto|discriminate]. Qed.

Lemma loop_iteration_no_work rules env F ord syncp stalled fuel s comps s' st :
  loop_iteration_gen rules env F ord syncp stalled fuel s comps = (s', st) -> st <> StWork ->
  s' = fold_left (task_finish rules) comps s /\
  is_toscan s' = [] /\ is_inreq s' = [] /\ is_fininreq s' = [] /\ is_ready s' = [] /\ is_fintasks s' = [] /\
  (st = StWait -> is_outstanding s' <> 0%nat) /\
  (st = StStall -> is_outstanding s' = 0%nat /\ stalled s' = true) /\
  (st = StDone -> is_outstanding s' = 0%nat /\ stalled s' = false).
Proof.
  unfold loop_iteration_gen. cbn zeta. set (s0 := fold_left (task_finish rules) comps s).
  destruct (nonnil (is_toscan s0)) eqn:E1.
  { cbn [orb]. intros H. inversion H. subst. intros Hne. now contradiction Hne. }
  rewrite (drain_idle _ _ fuel s0 E1).
  destruct (nonnil (is_inreq s0)) eqn:E2.
  { cbn [orb]. intros H. inversion H. subst. intros Hne. now contradiction Hne. }
  rewrite (drain_idle _ _ fuel s0 E2).
  destruct (nonnil (is_fininreq s0)) eqn:E3.
  { cbn [orb]. intros H. inversion H. subst. intros Hne. now contradiction Hne. }
  rewrite (drain_idle _ _ fuel s0 E3).
  destruct (nonnil (is_ready s0)) eqn:E4.
  { cbn [orb]. intros H. inversion H. subst. intros Hne. now contradiction Hne. }
  rewrite (drain_idle _ _ fuel s0 E4).
  destruct (nonnil (is_fintasks s0)) eqn:E5.
  { cbn [orb]. intros H. inversion H. subst. intros Hne. now contradiction Hne. }
  rewrite (drain_idle _ _ fuel s0 E5). cbn [orb].
  apply nonnil_false in E1, E2, E3, E4, E5.
  destruct (Nat.eqb (is_outstanding s0) 0) eqn:Eo; cbn [negb].
  - apply Nat.eqb_eq in Eo. destruct (stalled s0) eqn:Es; intros H; inversion H; subst; intros _; repeat split; auto; try discriminate.
  - apply Nat.eqb_neq in Eo. intros H; inversion H; subst; intros _; repeat split; auto; try discriminate.
Qed.

Lemma nodup_length_le (l : list N) : (length (nodup N.eq_dec l) <= length l)%nat.
Proof. induction l as [|x l IH]; [cbn; lia|]. simpl nodup. destruct (in_dec N.eq_dec x l); simpl length; lia. Qed.

Lemma fc_linear_fuel_enough (g : list (key * key)) root : (S (length (FindCycle.fc_nodes g root)) <= fc_linear_fuel g)%nat.
Proof.
  unfold FindCycle.fc_nodes, fc_linear_fuel. pose proof (nodup_length_le (root :: map fst g ++ map snd g)) as H.
  eapply Nat.le_trans; [apply le_n_S, H|]. cbn [length]. rewrite app_length, !map_length. lia.
Qed.

Section Theorems.
Variable rules : key -> rule.
Variable env : key -> N.
Variable F : key -> N -> list value -> list N -> N -> N.
Variable ord : key -> list rkind.
Variable syncp : key -> bool.
Notation in_build := (in_build rules env F ord syncp).

Lemma in_build_finish_all s0 root s comps : in_build s0 root s -> in_build s0 root (fold_left (task_finish rules) comps s).
Proof.
  intros [Q M]. split; auto. revert s M. induction comps as [|t l IH]; intros s M; cbn [fold_left]; auto.
  apply IH. eapply mss_step; [exact M|apply ms_finish].
Qed.

(* the stalled engine: if an iteration does no work, nothing is computing and the stall test fires, then below an unfinished requested key
   every node of findCycle's graph waits on something, and findCycle reports a non-empty cycle *)
Theorem stall_finds_cycle stalled s0 root s fuel comps s' :
  in_build s0 root s -> loop_iteration_gen rules env F ord syncp stalled fuel s comps = (s', StStall) -> live s' root ->
  FindCycle.no_dead_end (wait_graph s') root /\
  exists l, FindCycle.findcycle_names (wait_graph s') root (fc_linear_fuel (wait_graph s')) = FindCycle.FcDone l /\ l <> [].
Proof.
  intros Hb Hrun Hlive. destruct (loop_iteration_no_work _ _ _ _ _ _ _ _ _ _ _ Hrun) as (Hs' & Q1 & Q2 & Q3 & Q4 & Q5 & _ & Hst & _); [discriminate|].
  destruct (Hst eq_refl) as [Q6 _].
  assert (HI : Inv rules ctx0 s') by (rewrite Hs'; eapply in_build_Inv; apply in_build_finish_all; eauto).
  assert (Hnd : FindCycle.no_dead_end (wait_graph s') root) by (apply (stall_no_dead_end rules); auto; repeat split; auto).
  split; auto. apply FindCycleProofs.fc_stall_linear; auto. apply fc_linear_fuel_enough.
Qed.

(* every edge of the graph is a request the rule set allows, or a recorded dependency *)
Theorem edges_real s0 root s a b : in_build s0 root s -> In (a, b) (wait_graph s) ->
  In a (requestable (rules b)) \/ In a (map d_key (res_deps (res_of s b))).
Proof. intros Hb Hin. apply (in_build_Inv rules env F ord syncp) in Hb. now destruct (edge_facts rules s a b Hb Hin). Qed.

(* when executeTasks returns true the engine is quiescent again (repaired stall test) *)
Theorem done_quiescent s0 root s fuel comps s' :
  in_build s0 root s -> loop_iteration rules env F ord syncp fuel s comps = (s', StDone) -> quiescent s'.
Proof.
  intros Hb Hrun. destruct (loop_iteration_no_work _ _ _ _ _ _ _ _ _ _ _ Hrun) as (Hs' & Q1 & Q2 & Q3 & Q4 & Q5 & _ & _ & Hst); [discriminate|].
  destruct (Hst eq_refl) as [Q6 Hns]. unfold stall_test in Hns. apply Bool.orb_false_iff in Hns. destruct Hns as [Hnt Hsc]. apply nonnil_false in Hnt.
  assert (HI : Inv rules ctx0 s') by (rewrite Hs'; eapply in_build_Inv; apply in_build_finish_all; eauto).
  destruct HI as (Hn & HT & HI & HS).
  assert (Hnoscan : forall k, kind_of s' k <> KScanning).
  { intros k Hk. destruct (scanning_loaded s' k Hk) as (ri & Hri & Hr). apply aget_in in Hri.
    assert (Hex : existsb (fun e => kind_eqb (ri_kind (snd e)) KScanning) (is_rules s') = true).
    { apply existsb_exists. exists (k, ri). split; auto. cbn [snd]. unfold kind_of in Hk. rewrite Hr in Hk. rewrite Hk. reflexivity. }
    unfold any_scanning in Hsc. congruence. }
  repeat split; auto; try apply HT.
  - intros Hw. assert (Hip : is_in_progress s' k = true) by (apply in_progress_iff; now left). apply (t_tk ctx0 s' HT) in Hip. rewrite Hnt in Hip. now apply Hip.
  - intros Hw. assert (Hip : is_in_progress s' k = true) by (apply in_progress_iff; now right). apply (t_tk ctx0 s' HT) in Hip. rewrite Hnt in Hip. now apply Hip.
  - now apply (i_hyg rules ctx0 s' HI).
  - now apply (s_hyg ctx0 s' HS).
Qed.
End Theorems.
