(* The concrete task computation used by the correspondence check (the same arithmetic as
   harness/cpp/engine_driver.cpp) and histories of operations over the specification engine. Definitions only. *)
From LLB Require Import Engine.Rules Engine.Spec.
Local Open Scope N_scope.

Definition MIXM : N := 1000003.
Definition mix (h x : N) : N :=
  (N.lxor h ((x + 11400714819323198485 + N.shiftl h 6 + N.shiftr h 2) mod 18446744073709551616)) mod MIXM.

Definition mixF (k sg : N) (used : list value) (disc : list N) (ob : N) : N :=
  let h := (k + sg * 7) mod MIXM in
  let h := fold_left (fun h v => mix (mix h (fst v)) (snd v)) used h in
  let h := fold_left (fun h d => mix h (d + 1)) disc h in
  let h := mix h ob in
  if N.eqb (k mod 3) 0 then h mod 2 else h.

(* ---- histories ---- *)

Definition default_rule : rule := mkRule 0 true [] [] [] None [].

Fixpoint alookup {A} (m : list (N * A)) (k : N) : option A :=
  match m with [] => None | (k', a) :: t => if N.eqb k k' then Some a else alookup t k end.
Definition rules_of (m : list (key * rule)) (k : key) : rule := match alookup m k with Some r => r | None => default_rule end.
Definition env_of (m : list (key * N)) (k : key) : N := match alookup m k with Some n => n | None => 0 end.

Inductive op :=
| OSet (k : key) (n : N)            (* mutate external state *)
| ORule (k : key) (r : rule)        (* (re)define a rule; seen by engine instances created afterwards *)
| ORestart (db : bool)              (* new engine instance, over the same database iff db *)
| OBuild (k : key).

Record hstate := mkH {
  h_st : state;
  h_env : list (key * N);
  h_rules : list (key * rule);          (* the rule table the current engine instance sees *)
  h_pending : list (key * rule)         (* the rule table as edited so far *)
}.
Definition init_h : hstate := mkH init_state [] [] [].

Section History.
Variable F : key -> N -> list value -> list N -> N -> N.
Variable order : N -> key -> list dep -> list dep.
Variable fuel : nat.

Definition hstep (h : hstate) (o : op) : hstate :=
  match o with
  | OSet k n => mkH (h_st h) ((k, n) :: h_env h) (h_rules h) (h_pending h)
  | ORule k r => mkH (h_st h) (h_env h) (h_rules h) ((k, r) :: h_pending h)
  | ORestart db => mkH (emit (if db then restart (h_st h) else restart_nodb (h_st h)) ERestart) (h_env h) (h_pending h) (h_pending h)
  | OBuild k =>
    let s0 := emit (h_st h) (EBuildStart k) in
    match build (rules_of (h_rules h)) (env_of (h_env h)) F order fuel s0 k with
    | Ok s1 => mkH (emit s1 (EResult (result_of s1 k) false)) (h_env h) (h_rules h) (h_pending h)
    | Cycle s1 p => mkH (emit (emit s1 (ECycleReported p)) (EResult None true)) (h_env h) (h_rules h) (h_pending h)
    | OutOfFuel => mkH (emit s0 (EResult None true)) (h_env h) (h_rules h) (h_pending h)
    end
  end.

Definition run_history (ops : list op) : hstate := fold_left hstep ops init_h.
End History.
