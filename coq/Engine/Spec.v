(* Big-step specification engine (DESIGN.md section 3.2): mirrors scanRule / processRuleScanRequest /
   demandRule / taskIsComplete / finished-task processing of lib/Core/BuildEngine.cpp for one build,
   deterministic given a dependency-order oracle.  Definitions only.

   Structure: the pieces of one `ensure` step (requests, follows, run, scan) are top-level functions over a
   Section variable `ens` standing for the recursive call at smaller fuel; `ensure` ties the knot by
   recursion on fuel.  This keeps every piece nameable in proofs. *)
From LLB Require Import Engine.Rules.
Local Open Scope N_scope.

Record state := mkSt {
  st_mem : alist;              (* RuleInfo::result of every rule this engine instance has looked up *)
  st_epoch : N;                (* currentEpoch *)
  st_db : alist;               (* rule_results table of the attached database *)
  st_db_epoch : N;             (* info.iteration *)
  st_flag : list key;          (* rules whose task was interrupted by a cancelled build (taskWasCancelled: re-run when next scanned) *)
  st_log : list event          (* ghost: everything observed, most recent first *)
}.
Definition init_state : state := mkSt [] 0 [] 0 [] [].

Inductive outcome :=
| Ok (s : state)
| Cycle (s : state) (path : list key)     (* a key was demanded while it is itself being scanned / in progress *)
| OutOfFuel.

Definition emit (s : state) (e : event) : state :=
  mkSt (st_mem s) (st_epoch s) (st_db s) (st_db_epoch s) (st_flag s) (e :: st_log s).
Definition set_mem (s : state) (k : key) (r : result) : state :=
  mkSt (update (st_mem s) k r) (st_epoch s) (st_db s) (st_db_epoch s) (st_flag s) (st_log s).
Definition set_db (s : state) (k : key) (r : result) : state :=
  mkSt (st_mem s) (st_epoch s) (update (st_db s) k r) (st_db_epoch s) (st_flag s) (st_log s).
Definition unflag (s : state) (k : key) : state :=
  mkSt (st_mem s) (st_epoch s) (st_db s) (st_db_epoch s) (filter (fun x => negb (N.eqb x k)) (st_flag s)) (st_log s).
Definition flagged (s : state) (k : key) : bool := existsb (N.eqb k) (st_flag s).

Definition drop_single (l : list dep) : list dep := filter (fun d => negb (d_single d)) l.
Definition payload_of (v : option value) : value := match v with Some x => x | None => (0, 0) end.

(* the keys a task requests once the branch slot is known *)
Definition branch_keys (r : rule) (slots : list (option value)) : list key :=
  match r_br r with
  | Some (i, a, b) => match nth_error slots i with
                      | Some (Some v) => if (Nat.ltb i (length (r_req r))) then (if is_even v then a else b) else []
                      | Some None => if (Nat.ltb i (length (r_req r))) then a else []    (* empty value: payload read as 0 *)
                      | None => []
                      end
  | None => []
  end.

(* the dependency list a task has requested, in request order *)
Definition requested_deps (rl : rule) (bk : list key) : list dep :=
  map (fun x => mkDep x false false) (r_req rl) ++ map (fun x => mkDep x false true) (r_single rl)
  ++ map (fun x => mkDep x true false) (r_follow rl) ++ map (fun x => mkDep x false false) bk.

Section Spec.
Variable rules : key -> rule.
Variable env : key -> N.
(* the task's computation: key, signature, values of the used slots in slot order, observations of the discovered
   dependencies, own observation -> payload *)
Variable F : key -> N -> list value -> list N -> N -> N.
(* dependency-order oracle: the engine records requested dependencies in an order that is a permutation of the
   request order (it depends on scan timing); every theorem quantifies over all oracles. epoch, key, request order *)
Variable order : N -> key -> list dep -> list dep.

Definition obs (k : key) : N := if r_obs (rules k) then env k else 0.

Definition valid (k : key) (r : result) : bool :=
  if r_obs (rules k) then match res_value r with Some v => N.eqb (snd v) (env k) | None => false end else true.

Section Step.
(* the recursive call: bring a key up to date, given the stack of keys being brought up to date *)
Variable ens : list key -> state -> key -> outcome.

(* requests of task k: ensure each key, bind its value to the next slot *)
Fixpoint requests (k : key) (stack : list key) (ks : list key) (slot : nat) (s : state) (acc : list (option value))
  : outcome * list (option value) :=
  match ks with
  | [] => (Ok s, acc)
  | x :: ks' =>
    match ens (k :: stack) s x with
    | Ok s1 => let v := res_value (get (st_mem s1) x) in
               requests k stack ks' (S slot) (emit s1 (EProvide k slot x v)) (acc ++ [v])
    | other => (other, acc)
    end
  end.

(* must-follow keys and discovered dependencies: brought up to date, no value delivered *)
Fixpoint follows (k : key) (stack : list key) (ks : list key) (s : state) : outcome :=
  match ks with
  | [] => Ok s
  | x :: ks' => match ens (k :: stack) s x with Ok s1 => follows k stack ks' s1 | other => other end
  end.

(* the value a task computes from the slots it was given *)
Definition task_value (k : key) (rl : rule) (slots1 slots3 : list (option value)) : value :=
  (F k (r_sig rl) (map payload_of (slots1 ++ slots3)) (map env (r_disc rl)) (obs k), obs k).

(* taskIsComplete + finished-task processing: r is the result the rule had when the task was created *)
Definition complete (s : state) (k : key) (rl : rule) (r : result) (bk : list key) (v : value) : state :=
  let s := emit s (EComplete k v) in
  let deps := order (st_epoch s) k (requested_deps rl bk) ++ map (fun x => mkDep x false false) (r_disc rl) in
  let changed := match res_value r with Some old => negb (value_eqb old v) | None => true end in
  let r' := mkRes (Some v) (r_sig rl) (if changed then st_epoch s else res_computedAt r) (st_epoch s) deps in
  set_db (set_mem (unflag s k) k r') k r'.

(* demandRule on a rule that needs to run: r is its (single-use-cleaned) result *)
Definition run (k : key) (stack : list key) (r : result) (s : state) : outcome :=
  let rl := rules k in
  let s := emit (emit s (ECreate k)) (EStart k) in
  let s := if negb (N.eqb (res_builtAt r) 0) && N.eqb (r_sig rl) (res_sig r) then emit s (EPrior k (res_value r)) else s in
  match requests k stack (r_req rl) 0%nat s [] with
  | (Ok s1, slots1) =>
    match requests k stack (r_single rl) (length slots1) s1 [] with
    | (Ok s2, slots2) =>
      match follows k stack (r_follow rl) s2 with
      | Ok s3 =>
        let bk := branch_keys rl slots1 in
        match requests k stack bk (length slots1 + length slots2)%nat s3 [] with
        | (Ok s4, slots3) =>
          let s5 := emit s4 (EAvail k) in
          let s6 := complete s5 k rl r bk (task_value k rl slots1 slots3) in
          (* discovered dependencies are brought up to date after the task finished *)
          follows k stack (r_disc rl) s6
        | (other, _) => other
        end
      | other => other
      end
    | (other, _) => other
    end
  | (other, _) => other
  end.

(* processRuleScanRequest: the recorded dependencies in order; the first changed non-order-only one triggers a run *)
Fixpoint scan (k : key) (stack : list key) (r : result) (ds : list dep) (s : state) : outcome :=
  match ds with
  | [] => (* DoesNotNeedToRun: marked complete in memory only *)
          Ok (set_mem s k (mkRes (res_value r) (res_sig r) (res_computedAt r) (st_epoch s) (res_deps r)))
  | d :: ds' =>
    match ens (k :: stack) s (d_key d) with
    | Ok s1 =>
      if negb (d_order d) && (res_builtAt r <? res_computedAt (get (st_mem s1) (d_key d)))
      then run k stack r (emit s1 (ENeed k InputRebuilt (Some (d_key d))))
      else scan k stack r ds' s1
    | other => other
    end
  end.

Definition ensure_body (stack : list key) (s : state) (k : key) : outcome :=
  if existsb (N.eqb k) stack then Cycle s (k :: stack) else
  let r0 := get (st_mem s) k in
  if N.eqb (res_builtAt r0) (st_epoch s) then Ok s else     (* complete in this epoch *)
  (* scanRule: single-use dependencies are cleaned first *)
  let r := mkRes (res_value r0) (res_sig r0) (res_computedAt r0) (res_builtAt r0) (drop_single (res_deps r0)) in
  let s := set_mem s k r in
  if N.eqb (res_builtAt r) 0 then run k stack r (emit s (ENeed k NeverBuilt None))
  else if flagged s k then run k stack r (emit s (ENeed k Forced None))
  else if negb (N.eqb (r_sig (rules k)) (res_sig r)) then run k stack r (emit s (ENeed k SignatureChanged None))
  else if negb (valid k r) then run k stack r (emit (emit s (EValid k false)) (ENeed k InvalidValue None))
  else scan k stack r (res_deps r) (emit s (EValid k true)).

End Step.

Fixpoint ensure (fuel : nat) (stack : list key) (s : state) (k : key) {struct fuel} : outcome :=
  match fuel with
  | O => OutOfFuel
  | S f => ensure_body (ensure f) stack s k
  end.

Definition bump_epoch (s : state) : state :=
  mkSt (st_mem s) (st_epoch s + 1) (st_db s) (st_db_epoch s) (st_flag s) (st_log s).
Definition commit_epoch (s : state) : state :=
  mkSt (st_mem s) (st_epoch s) (st_db s) (st_epoch s) (st_flag s) (st_log s).

(* one build of key k: the epoch is incremented first; afterwards the database iteration is updated *)
Definition build (fuel : nat) (s : state) (k : key) : outcome :=
  match ensure fuel [] (bump_epoch s) k with
  | Ok s1 => Ok (commit_epoch s1)
  | Cycle s1 p => Cycle (commit_epoch s1) p
  | OutOfFuel => OutOfFuel
  end.

Definition result_of (s : state) (k : key) : option value := res_value (get (st_mem s) k).

(* the clean-world value of a key: what a brand-new engine computes (no state at all) *)
Fixpoint cv (fuel : nat) (k : key) : option value :=
  match fuel with
  | O => None
  | S f =>
    let rl := rules k in
    match map_opt (cv f) (r_req rl), map_opt (cv f) (r_single rl), map_opt (cv f) (r_follow rl) with
    | Some slots1, Some _, Some _ =>
      let bk := branch_keys rl (map Some slots1) in
      match map_opt (cv f) bk with
      | Some slots3 => Some (F k (r_sig rl) (slots1 ++ slots3) (map env (r_disc rl)) (obs k), obs k)
      | None => None
      end
    | _, _, _ => None
    end
  end.

End Spec.

(* a new engine instance over the same database: memory is what the database holds (loaded lazily on
   first lookup, which is unobservable), the epoch is the stored iteration, interruption flags are gone *)
Definition restart (s : state) : state :=
  mkSt (st_db s) (st_db_epoch s) (st_db s) (st_db_epoch s) [] (st_log s).

(* a new engine without database *)
Definition restart_nodb (s : state) : state := mkSt [] 0 [] 0 [] (st_log s).
