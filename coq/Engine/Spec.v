(* Big-step specification engine (DESIGN.md section 3.2): mirrors scanRule / processRuleScanRequest /
   demandRule / taskIsComplete / finished-task processing of lib/Core/BuildEngine.cpp for one build,
   deterministic given a dependency-order oracle.  Definitions only. *)
From LLB Require Import Engine.Rules.
Local Open Scope N_scope.

Record state := mkSt {
  st_mem : alist;              (* RuleInfo::result of every rule this engine instance has looked up *)
  st_epoch : N;                (* currentEpoch *)
  st_db : alist;               (* rule_results table of the attached database *)
  st_db_epoch : N;             (* info.iteration *)
  st_flag : list key;          (* rules whose task was interrupted by a cancelled build (re-run when next scanned) *)
  st_log : list event          (* ghost: everything observed, most recent first *)
}.
Definition init_state : state := mkSt [] 0 [] 0 [] [].

Inductive outcome :=
| Ok (s : state)
| Cycle (s : state) (path : list key)     (* a key was demanded while it is itself being scanned / in progress *)
| OutOfFuel.

Definition emit (s : state) (e : event) : state :=
  mkSt (st_mem s) (st_epoch s) (st_db s) (st_db_epoch s) (st_flag s) (e :: st_log s).
Definition set_mem (s : state) (k : key) (r : result) : state :=
  mkSt (update (st_mem s) k r) (st_epoch s) (st_db s) (st_db_epoch s) (st_flag s) (st_log s).
Definition set_db (s : state) (k : key) (r : result) : state :=
  mkSt (st_mem s) (st_epoch s) (update (st_db s) k r) (st_db_epoch s) (st_flag s) (st_log s).
Definition unflag (s : state) (k : key) : state :=
  mkSt (st_mem s) (st_epoch s) (st_db s) (st_db_epoch s) (filter (fun x => negb (N.eqb x k)) (st_flag s)) (st_log s).
Definition flagged (s : state) (k : key) : bool := existsb (N.eqb k) (st_flag s).

Section Spec.
Variable rules : key -> rule.
Variable env : key -> N.
(* the task's computation: key, signature, values of the used slots in slot order, observations of the discovered
   dependencies, own observation -> payload *)
Variable F : key -> N -> list value -> list N -> N -> N.
(* dependency-order oracle: the engine records requested dependencies in an order that is a permutation of the
   request order (it depends on scan timing); every theorem quantifies over all oracles. epoch, key, request order *)
Variable order : N -> key -> list dep -> list dep.

Definition obs (k : key) : N := if r_obs (rules k) then env k else 0.

Definition valid (k : key) (r : result) : bool :=
  if r_obs (rules k) then match res_value r with Some v => N.eqb (snd v) (env k) | None => false end else true.

Definition drop_single (l : list dep) : list dep := filter (fun d => negb (d_single d)) l.

(* the keys a task requests once the branch slot is known *)
Definition branch_keys (r : rule) (slots : list (option value)) : list key :=
  match r_br r with
  | Some (i, a, b) => match nth_error slots i with
                      | Some (Some v) => if (Nat.ltb i (length (r_req r))) then (if is_even v then a else b) else []
                      | Some None => if (Nat.ltb i (length (r_req r))) then a else []    (* empty value: payload read as 0 *)
                      | None => []
                      end
  | None => []
  end.

Definition payload_of (v : option value) : value := match v with Some x => x | None => (0, 0) end.

Fixpoint ensure (fuel : nat) (stack : list key) (s : state) (k : key) {struct fuel} : outcome :=
  match fuel with
  | O => OutOfFuel
  | S f =>
    if existsb (N.eqb k) stack then Cycle s (k :: stack) else
    let r0 := get (st_mem s) k in
    if N.eqb (res_builtAt r0) (st_epoch s) then Ok s else     (* complete in this epoch *)
    (* scanRule: single-use dependencies are cleaned first *)
    let r := mkRes (res_value r0) (res_sig r0) (res_computedAt r0) (res_builtAt r0) (drop_single (res_deps r0)) in
    let s := set_mem s k r in
    let rl := rules k in
    (* requests: ensure each key, bind its value to the next slot *)
    let requests := fix requests (ks : list key) (single : bool) (slot : nat) (s : state) (acc : list (option value))
                        : outcome * list (option value) :=
      match ks with
      | [] => (Ok s, acc)
      | x :: ks' =>
        match ensure f (k :: stack) s x with
        | Ok s1 => let v := res_value (get (st_mem s1) x) in
                   requests ks' single (S slot) (emit s1 (EProvide k slot x v)) (acc ++ [v])
        | other => (other, acc)
        end
      end in
    let follows := fix follows (ks : list key) (s : state) : outcome :=
      match ks with
      | [] => Ok s
      | x :: ks' => match ensure f (k :: stack) s x with Ok s1 => follows ks' s1 | other => other end
      end in
    let run := fun (s : state) =>
      let s := emit (emit s (ECreate k)) (EStart k) in
      let s := if negb (N.eqb (res_builtAt r) 0) && N.eqb (r_sig rl) (res_sig r) then emit s (EPrior k (res_value r)) else s in
      match requests (r_req rl) false 0%nat s [] with
      | (Ok s1, slots1) =>
        match requests (r_single rl) true (length slots1) s1 [] with
        | (Ok s2, slots2) =>
          match follows (r_follow rl) s2 with
          | Ok s3 =>
            let bk := branch_keys rl slots1 in
            match requests bk false (length slots1 + length slots2)%nat s3 [] with
            | (Ok s4, slots3) =>
              let s5 := emit s4 (EAvail k) in
              let used := map payload_of (slots1 ++ slots3) in
              let v : value := (F k (r_sig rl) used (map env (r_disc rl)) (obs k), obs k) in
              let s5 := emit s5 (EComplete k v) in
              let requested := map (fun x => mkDep x false false) (r_req rl) ++ map (fun x => mkDep x false true) (r_single rl)
                               ++ map (fun x => mkDep x true false) (r_follow rl) ++ map (fun x => mkDep x false false) bk in
              let deps := order (st_epoch s5) k requested ++ map (fun x => mkDep x false false) (r_disc rl) in
              let changed := match res_value r with Some old => negb (value_eqb old v) | None => true end in
              let r' := mkRes (Some v) (r_sig rl) (if changed then st_epoch s5 else res_computedAt r) (st_epoch s5) deps in
              let s6 := set_db (set_mem (unflag s5 k) k r') k r' in
              (* discovered dependencies are brought up to date after the task finished *)
              follows (r_disc rl) s6
            | (other, _) => other
            end
          | other => other
          end
        | (other, _) => other
        end
      | (other, _) => other
      end in
    if N.eqb (res_builtAt r) 0 then run (emit s (ENeed k NeverBuilt None))
    else if flagged s k then run (emit s (ENeed k Forced None))
    else if negb (N.eqb (r_sig rl) (res_sig r)) then run (emit s (ENeed k SignatureChanged None))
    else if negb (valid k r) then run (emit (emit s (EValid k false)) (ENeed k InvalidValue None))
    else
      let s := emit s (EValid k true) in
      let scan := fix scan (ds : list dep) (s : state) : outcome :=
        match ds with
        | [] => (* DoesNotNeedToRun: marked complete in memory only *)
                Ok (set_mem s k (mkRes (res_value r) (res_sig r) (res_computedAt r) (st_epoch s) (res_deps r)))
        | d :: ds' =>
          match ensure f (k :: stack) s (d_key d) with
          | Ok s1 =>
            if negb (d_order d) && (res_builtAt r <? res_computedAt (get (st_mem s1) (d_key d)))
            then run (emit s1 (ENeed k InputRebuilt (Some (d_key d))))
            else scan ds' s1
          | other => other
          end
        end in
      scan (res_deps r) s
  end.

(* one build of key k: the epoch is incremented first; afterwards the database iteration is updated *)
Definition build (fuel : nat) (s : state) (k : key) : outcome :=
  let s := mkSt (st_mem s) (st_epoch s + 1) (st_db s) (st_db_epoch s) (st_flag s) (st_log s) in
  match ensure fuel [] s k with
  | Ok s1 => Ok (mkSt (st_mem s1) (st_epoch s1) (st_db s1) (st_epoch s1) (st_flag s1) (st_log s1))
  | Cycle s1 p => Cycle (mkSt (st_mem s1) (st_epoch s1) (st_db s1) (st_epoch s1) (st_flag s1) (st_log s1)) p
  | OutOfFuel => OutOfFuel
  end.

Definition result_of (s : state) (k : key) : option value := res_value (get (st_mem s) k).

(* the clean-world value of a key: what a brand-new engine computes (no state at all) *)
Fixpoint cv (fuel : nat) (k : key) : option value :=
  match fuel with
  | O => None
  | S f =>
    let rl := rules k in
    match map_opt (cv f) (r_req rl), map_opt (cv f) (r_single rl), map_opt (cv f) (r_follow rl) with
    | Some slots1, Some _, Some _ =>
      let bk := branch_keys rl (map Some slots1) in
      match map_opt (cv f) bk with
      | Some slots3 => Some (F k (r_sig rl) (slots1 ++ slots3) (map env (r_disc rl)) (obs k), obs k)
      | None => None
      end
    | _, _, _ => None
    end
  end.

End Spec.

(* a new engine instance over the same database: memory is what the database holds (loaded lazily on
   first lookup, which is unobservable), the epoch is the stored iteration, interruption flags are gone *)
Definition restart (s : state) : state :=
  mkSt (st_db s) (st_db_epoch s) (st_db s) (st_db_epoch s) [] (st_log s).

(* a new engine without database *)
Definition restart_nodb (s : state) : state := mkSt [] 0 [] 0 [] (st_log s).
