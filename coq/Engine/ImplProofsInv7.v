(* P19 - part 11: the invariant under complete() (task_finish) and under the processing of one ready task. *)
From LLB Require Import Engine.Rules Engine.Spec Engine.Impl Engine.ImplProofs Engine.ImplProofsSticky Engine.ImplProofsInv Engine.ImplProofsInv2
  Engine.ImplProofsInv3 Engine.ImplProofsInv4 Engine.ImplProofsInv5 Engine.ImplProofsInv6.
From Coq Require Import Arith Lia.
Local Open Scope N_scope.

(* the pending value of a task is taken (the driver calls complete) or set (inputsAvailable computed it) *)
Lemma InvT_set_pending c s t ti p : aget (is_tasks s) t = Some ti -> (p <> None -> kind_of s t = KComputing /\ ~ In t (is_fintasks s)) ->
  (p = None \/ ~ In t (is_fintasks s)) -> InvT c s -> InvT c (set_ti s t (ti_with_pending p ti)).
Proof.
  intros Hg Hp Hp2 [A1 A2 A3 A4 A5 A6 A7 A8 A9 A10 A11].
  constructor; autorewrite with iv; auto.
  - now apply nodup_aset.
  - intros t'. rewrite (aget_aset_exists _ _ _ _ _ Hg). apply A5.
  - intros t' x. rewrite aget_aset. destruct (N.eqb t' t) eqn:E; [|apply A6].
    apply N.eqb_eq in E. subst t'. intros Hx. inversion Hx. subst x. cbn [ti_with_pending ti_wait]. now apply A6.
  - intros t' Hin. destruct (A7 t' Hin) as (x & Hx & Hk & Hw). rewrite aget_aset. destruct (N.eqb t' t) eqn:E; [|eauto].
    apply N.eqb_eq in E. subst t'. rewrite Hg in Hx. inversion Hx. subst x. exists (ti_with_pending p ti). auto.
  - intros t' x. rewrite aget_aset. destruct (N.eqb t' t) eqn:E; [|apply A8].
    apply N.eqb_eq in E. subst t'. intros Hx. inversion Hx. subst x. cbn [ti_with_pending ti_wait]. now apply A8.
  - intros t' Hin. destruct (A9 t' Hin) as (x & Hx & Hk & Hpn). rewrite aget_aset. destruct (N.eqb t' t) eqn:E; [|eauto].
    apply N.eqb_eq in E. subst t'. rewrite Hg in Hx. inversion Hx. subst x. exists (ti_with_pending p ti). repeat split; auto.
    cbn [ti_with_pending ti_pending]. destruct Hp2 as [H|H]; [auto|contradiction].
  - intros t' x. rewrite aget_aset. destruct (N.eqb t' t) eqn:E; [|apply A10].
    apply N.eqb_eq in E. subst t'. intros Hx. inversion Hx. subst x. cbn [ti_with_pending ti_pending]. auto.
  - rewrite A11. unfold n_computing. autorewrite with iv. symmetry.
    apply (filter_keys_aset (fun k => kind_eqb (kind_of s k) KComputing) (is_tasks s) t ti _ Hg).
Qed.

Lemma Inv_set_pending rules c s t ti p : aget (is_tasks s) t = Some ti -> (p <> None -> kind_of s t = KComputing /\ ~ In t (is_fintasks s)) ->
  (p = None \/ ~ In t (is_fintasks s)) -> Inv rules c s -> Inv rules c (set_ti s t (ti_with_pending p ti)).
Proof.
  intros Hg Hp Hp2 (Hn & HT & HI & HS). split; [now apply nf_set_ti|]. split; [now apply InvT_set_pending|].
  split; [eapply InvI_set_ti; eauto|eapply InvS_set_ti; eauto].
Qed.

(* taskDiscoveredDependency *)
Lemma Inv_discovered rules c s t d : aget (is_tasks s) t <> None -> kind_of s t = KComputing -> Inv rules c s -> Inv rules c (discovered s t d).
Proof.
  intros Hex Hk HI. unfold discovered. destruct (aget (is_tasks s) t) as [ti|] eqn:Hg; [|contradiction]. rewrite Hk. cbn [kind_eqb negb].
  rewrite (mod_ti_some _ _ _ _ Hg). apply Inv_set_ti_cosmetic with (ti := ti); auto.
Qed.
Lemma keeps_fault s cd : keeps s (fault s cd). Proof. repeat split; auto. Qed.
Lemma keeps_discovered s t d : keeps s (discovered s t d).
Proof. unfold discovered. destruct (aget _ _); [|apply keeps_fault]. destruct (negb _); [apply keeps_fault|apply keeps_mod_ti]. Qed.

Lemma Inv_fold_discovered rules c t ds : forall s, aget (is_tasks s) t <> None -> kind_of s t = KComputing -> Inv rules c s ->
  Inv rules c (fold_left (fun s d => discovered s t d) ds s).
Proof.
  induction ds as [|d ds IH]; intros s Hex Hk HI; cbn [fold_left]; auto.
  pose proof (keeps_discovered s t d) as K. apply IH.
  - destruct K as (_ & _ & K3 & _). auto.
  - now rewrite (keeps_kind _ _ t K).
  - now apply Inv_discovered.
Qed.

(* the result of a rule that is not being scanned changes *)
Lemma Inv_set_res_unscanned rules c s t r : kind_of s t <> KScanning -> Inv rules c s -> Inv rules c (set_res s t r).
Proof.
  intros Hns (Hn & HT & HI & HS). unfold set_res.
  assert (HK : forall k, kind_of (mod_ri s t (ri_with_res r)) k = kind_of s k).
  { intros k. rewrite kind_of_mod_ri. destruct (N.eqb k t) eqn:E; auto. apply N.eqb_eq in E. now subst. }
  split; [now apply nf_mod_ri|]. split; [|split].
  - apply (InvT_frame c s); auto. apply nodup_rules_set_ri, HT.
  - apply (InvI_frame rules c s); auto.
    + intros k. autorewrite with iv. destruct (N.eqb k t) eqn:E; auto. apply N.eqb_eq in E. now subst.
    + intros t0. now apply asum_rules_mod_ri_same.
  - apply (InvS_frame c s); auto.
    + intros k Hk. rewrite res_of_mod_ri. destruct (N.eqb k t) eqn:E; auto. apply N.eqb_eq in E. subst. contradiction.
    + intros k. autorewrite with iv. destruct (N.eqb k t) eqn:E; auto. apply N.eqb_eq in E. now subst.
    + intros t0. now apply asum_rules_mod_ri_same.
Qed.

Lemma InvT_push_fin c s t ti : aget (is_tasks s) t = Some ti -> kind_of s t = KComputing -> ti_pending ti = None -> ~ In t (is_fintasks s) ->
  InvT c s -> InvT c (upd_fintasks s (t :: is_fintasks s)).
Proof.
  intros Hg Hk Hp Hni [A1 A2 A3 A4 A5 A6 A7 A8 A9 A10 A11].
  constructor; autorewrite with iv; auto.
  - constructor; auto.
  - intros t' [Hin|Hin]; [subst t'; eauto|now apply A9].
  - intros t' x Hx Hpx. destruct (A10 t' x Hx Hpx) as [H1 H2]. split; auto. intros [Hin|Hin]; [|contradiction].
    subst t'. rewrite Hg in Hx. inversion Hx. subst x. contradiction.
Qed.

Lemma Inv_task_is_complete rules c s t v ti : aget (is_tasks s) t = Some ti -> kind_of s t = KComputing -> ti_pending ti = None ->
  ~ In t (is_fintasks s) -> Inv rules c s -> Inv rules c (task_is_complete rules s t v).
Proof.
  intros Hg Hk Hp Hni HI. unfold task_is_complete. rewrite Hk. cbn [kind_eqb negb]. cbn zeta.
  assert (Hns : kind_of s t <> KScanning) by (rewrite Hk; discriminate).
  apply (Inv_set_res_unscanned rules c s t (completed_result (r_sig (rules t)) (is_epoch s) (res_of s t) v) Hns) in HI.
  set (s1 := set_res s t _) in *. destruct HI as (Hn & HT & HI & HS).
  split; [unfold nf; now autorewrite with iv|]. split; [|split].
  - apply (InvT_push_fin c s1 t ti); auto. unfold s1, set_res. rewrite kind_of_mod_ri, N.eqb_refl. exact Hk.
  - now apply InvI_upd_fintasks.
  - now apply InvS_upd_fintasks.
Qed.

Lemma discovered_pending s t d t' x : aget (is_tasks (discovered s t d)) t' = Some x ->
  exists y, aget (is_tasks s) t' = Some y /\ ti_pending x = ti_pending y.
Proof.
  unfold discovered. destruct (aget (is_tasks s) t) as [ti|] eqn:Hg; [|eauto]. destruct (negb _); [eauto|].
  rewrite (mod_ti_some _ _ _ _ Hg). autorewrite with iv. rewrite aget_aset. destruct (N.eqb t' t) eqn:E; [|eauto].
  apply N.eqb_eq in E. subst t'. intros Hx. inversion Hx. subst x. exists ti. auto.
Qed.
Lemma fold_discovered_pending t ds : forall s t' x, aget (is_tasks (fold_left (fun s d => discovered s t d) ds s)) t' = Some x ->
  exists y, aget (is_tasks s) t' = Some y /\ ti_pending x = ti_pending y.
Proof.
  induction ds as [|d ds IH]; intros s t' x; cbn [fold_left]; [eauto|]. intros Hx.
  destruct (IH _ _ _ Hx) as (y & Hy & Hp). destruct (discovered_pending _ _ _ _ _ Hy) as (z & Hz & Hp2). exists z. split; auto. congruence.
Qed.

Lemma Inv_task_finish rules c s t : Inv rules c s -> Inv rules c (task_finish rules s t).
Proof.
  intros HI. unfold task_finish. destruct (aget (is_tasks s) t) as [ti|] eqn:Hg; auto. destruct (ti_pending ti) as [v|] eqn:Hp; auto.
  assert (Hpd : kind_of s t = KComputing /\ ~ In t (is_fintasks s)).
  { destruct HI as (_ & HT & _). apply (t_pd c s HT t ti Hg). rewrite Hp. discriminate. }
  destruct Hpd as [Hk Hni].
  set (s1 := set_ti s t (ti_with_pending None ti)).
  assert (HI1 : Inv rules c s1) by (apply Inv_set_pending; auto; intros H; now contradiction H).
  assert (Hex1 : aget (is_tasks s1) t <> None) by (unfold s1; autorewrite with iv; rewrite aget_aset_same; discriminate).
  pose proof (Inv_fold_discovered rules c t (r_disc (rules t)) s1 Hex1 Hk HI1) as HI2.
  pose proof (keeps_fold (fun s d => discovered s t d) (fun s d => keeps_discovered s t d) (r_disc (rules t)) s1) as K.
  set (s2 := fold_left _ _ s1) in *.
  destruct K as (K1 & K2 & K3 & K4 & _).
  destruct (aget (is_tasks s2) t) as [ti2|] eqn:Hg2; [|exfalso; now apply (K3 t Hex1)].
  apply (Inv_task_is_complete rules c (iemit s2 (EComplete t v)) t v ti2); auto.
  - unfold kind_of. change (rinfo_of (iemit s2 (EComplete t v)) t) with (rinfo_of s2 t). rewrite K2. exact Hk.
  - (* the pending value stays None through discoveredDependency *)
    destruct (fold_discovered_pending t (r_disc (rules t)) s1 t ti2 Hg2) as (y & Hy & Hpy). rewrite Hpy.
    unfold s1 in Hy. autorewrite with iv in Hy. rewrite aget_aset_same in Hy. inversion Hy. reflexivity.
  - change (is_fintasks (iemit s2 (EComplete t v))) with (is_fintasks s2). rewrite K4. exact Hni.
  - now apply Inv_iemit.
Qed.

(* ---------- one ready task: setComputing ---------- *)
Lemma filter_len_flip {A} (p q : A -> bool) (l : list A) x : NoDup l -> In x l -> p x = false -> q x = true -> (forall y, In y l -> y <> x -> q y = p y) ->
  length (filter q l) = S (length (filter p l)).
Proof.
  induction l as [|y l IH]; [intros _ []|]. intros Hnd Hin Hp Hq Hoth. inversion Hnd as [|z l' Hy Hl]. subst z l'. cbn [filter]. destruct Hin as [Hin|Hin].
  - subst y. rewrite Hp, Hq. cbn [length]. f_equal. apply filter_ext_len. intros z Hz. apply Hoth; [now right|]. intros E. subst. contradiction.
  - assert (Hne : y <> x) by (intros E; subst; contradiction). rewrite (Hoth y (or_introl eq_refl) Hne).
    assert (Hoth' : forall z, In z l -> z <> x -> q z = p z) by (intros; apply Hoth; auto; now right).
    destruct (p y); cbn [length]; rewrite (IH Hl Hin Hp Hq Hoth'); auto.
Qed.

Lemma n_computing_set s t ti : NoDup (map fst (is_tasks s)) -> aget (is_tasks s) t = Some ti -> kind_of s t = KWaiting ->
  n_computing (set_kind s t KComputing) = S (n_computing s).
Proof.
  intros Hnd Hg Hk. unfold n_computing. change (is_tasks (set_kind s t KComputing)) with (is_tasks s).
  assert (Hnd' : NoDup (is_tasks s)) by (eapply NoDup_map_inv; eauto).
  apply (filter_len_flip _ _ _ (t, ti) Hnd' (aget_in _ _ _ Hg)); cbn [fst].
  - now rewrite Hk.
  - unfold set_kind. now rewrite kind_of_mod_ri, N.eqb_refl.
  - intros [k x] Hin Hne. cbn [fst]. unfold set_kind. rewrite kind_of_mod_ri. destruct (N.eqb k t) eqn:E; auto.
    apply N.eqb_eq in E. subst k. exfalso. apply Hne. pose proof (in_aget_nodup _ _ _ Hnd Hin) as H. rewrite Hg in H. now inversion H.
Qed.

Lemma InvT_compute c s t rest : is_ready s = t :: rest -> InvT c s ->
  InvT (cx_set_slack c (S (cx_slack c))) (set_kind (upd_ready s rest) t KComputing).
Proof.
  intros Hq [A1 A2 A3 A4 A5 A6 A7 A8 A9 A10 A11]. rewrite Hq in *.
  destruct (A7 t (or_introl eq_refl)) as (ti & Hg & Hk & Hw).
  inversion A3 as [|x l Hnt Hnr]. subst x l.
  set (s' := set_kind (upd_ready s rest) t KComputing).
  assert (HK : forall k, kind_of s' k = if N.eqb k t then KComputing else kind_of s k).
  { intros k. unfold s', set_kind. rewrite kind_of_mod_ri. reflexivity. }
  constructor; cbn [cx_ex cx_slack cx_set_slack].
  - unfold s', set_kind. apply nodup_rules_set_ri. exact A1.
  - exact A2.
  - exact Hnr.
  - exact A4.
  - intros t'. unfold is_in_progress. rewrite HK. destruct (N.eqb t' t) eqn:E; [|apply A5].
    apply N.eqb_eq in E. subst t'. change (is_tasks s') with (is_tasks s). rewrite Hg. split; [reflexivity|discriminate].
  - intros t' x Hx. rewrite HK. destruct (N.eqb t' t) eqn:E; [|now apply A6].
    apply N.eqb_eq in E. subst t'. change (is_tasks s') with (is_tasks s) in Hx. rewrite Hg in Hx. inversion Hx. now subst x.
  - intros t' Hin. change (is_ready s') with rest in Hin. rewrite HK. destruct (A7 t' (or_intror Hin)) as (x & Hx & Hkk & Hww).
    destruct (N.eqb t' t) eqn:E; [|eauto]. apply N.eqb_eq in E. subst t'. contradiction.
  - intros t' x Hx. rewrite HK. destruct (N.eqb t' t) eqn:E; [discriminate|]. intros Hkk Hww.
    destruct (A8 t' x Hx Hkk Hww) as [[H|H]|H]; auto. subst t'. rewrite N.eqb_refl in E. discriminate.
  - intros t' Hin. rewrite HK. destruct (A9 t' Hin) as (x & Hx & Hkk & Hp). destruct (N.eqb t' t) eqn:E; eauto.
  - intros t' x Hx Hp. rewrite HK. destruct (A10 t' x Hx Hp) as [H1 H2]. destruct (N.eqb t' t); auto.
  - unfold s'. change (is_outstanding (set_kind (upd_ready s rest) t KComputing)) with (is_outstanding s).
    rewrite (n_computing_set (upd_ready s rest) t ti); auto. change (n_computing (upd_ready s rest)) with (n_computing s). lia.
Qed.

Lemma Inv_compute rules c s t rest : is_ready s = t :: rest -> Inv rules c s ->
  Inv rules (cx_set_slack c (S (cx_slack c))) (set_kind (upd_ready s rest) t KComputing).
Proof.
  intros Hq (Hn & HT & HI & HS).
  destruct (t_rd1 c s HT t) as (ti & Hg & Hk & Hw); [rewrite Hq; now left|].
  assert (HK : forall k kd, kd = KScanning -> (kind_of (set_kind (upd_ready s rest) t KComputing) k = kd <-> kind_of s k = kd)).
  { intros k kd Hkd. unfold set_kind. rewrite kind_of_mod_ri. change (kind_of (upd_ready s rest) k) with (kind_of s k).
    destruct (N.eqb k t) eqn:E; [|tauto]. apply N.eqb_eq in E. subst k kd. cbn [ri_with_kind ri_kind]. rewrite Hk. split; discriminate. }
  set (s' := set_kind (upd_ready s rest) t KComputing) in *.
  assert (P1 : forall k, kind_of s k = KScanning -> kind_of s' k = KScanning) by (intros k Hks; now apply HK).
  assert (P1' : forall k, kind_of s' k = KScanning <-> kind_of s k = KScanning) by (intros k; now apply HK).
  assert (P2 : forall k, rinfo_of s' k = if N.eqb k t then ri_with_kind KComputing (rinfo_of s t) else rinfo_of s k).
  { intros k. unfold s', set_kind. now autorewrite with iv. }
  assert (P3 : forall k, ri_paused (rinfo_of s' k) = ri_paused (rinfo_of s k)).
  { intros k. rewrite P2. destruct (N.eqb k t) eqn:E; auto. apply N.eqb_eq in E. now subst. }
  assert (P4 : forall k, ri_deferred (rinfo_of s' k) = ri_deferred (rinfo_of s k)).
  { intros k. rewrite P2. destruct (N.eqb k t) eqn:E; auto. apply N.eqb_eq in E. now subst. }
  assert (P5 : forall k, kind_of s k = KScanning -> res_deps (res_of s' k) = res_deps (res_of s k)).
  { intros k _. unfold res_of. rewrite P2. destruct (N.eqb k t) eqn:E; auto. apply N.eqb_eq in E. now subst. }
  assert (P6 : forall g : rinfo -> nat, (forall r, g (new_rinfo r) = 0%nat) -> (forall ri, g (ri_with_kind KComputing ri) = g ri) -> asum g (is_rules s') = asum g (is_rules s)).
  { intros g Hz Hg'. unfold s', set_kind. change (is_rules (mod_ri (upd_ready s rest) t (ri_with_kind KComputing))) with (is_rules (mod_ri s t (ri_with_kind KComputing))).
    apply asum_rules_mod_ri_same; auto. }
  split; [unfold nf, s'; now autorewrite with iv|]. split; [now apply InvT_compute|]. split.
  - apply (InvI_ctx rules c); auto. apply (InvI_frame_k rules c s); auto; try (intros t0; apply P6; auto).
  - apply (InvS_ctx c); auto. apply (InvS_frame_k c s); auto; try (intros t0; apply P6; auto).
Qed.

Lemma Inv_avail_body rules env F syncp c s t : aget (is_tasks s) t <> None -> kind_of s t = KComputing -> ~ In t (is_fintasks s) ->
  Inv rules c s -> Inv rules c (avail_body rules env F syncp s t).
Proof.
  intros Hex Hk Hni HI. unfold avail_body. destruct (aget (is_tasks s) t) as [ti|] eqn:Hg; [|contradiction]. cbn zeta.
  assert (HI1 : Inv rules c (set_ti s t (ti_with_pending (Some (task_value rules env F t ti)) ti))).
  { apply Inv_set_pending; auto. }
  destruct (syncp t); auto. now apply Inv_task_finish.
Qed.

Lemma Inv_inc_outstanding rules c s : Inv rules (cx_set_slack c (S (cx_slack c))) s -> Inv rules c (upd_outstanding s (S (is_outstanding s))).
Proof.
  intros (Hn & HT & HI & HS). split; [exact Hn|]. split; [|split].
  - destruct HT as [A1 A2 A3 A4 A5 A6 A7 A8 A9 A10 A11]. constructor; autorewrite with iv; auto.
    cbn [cx_slack cx_set_slack] in A11. change (n_computing (upd_outstanding s (S (is_outstanding s)))) with (n_computing s). lia.
  - apply InvI_upd_outstanding. now apply (InvI_ctx rules (cx_set_slack c (S (cx_slack c)))).
  - apply InvS_upd_outstanding. now apply (InvS_ctx (cx_set_slack c (S (cx_slack c)))).
Qed.

Lemma Inv_step_ready rules env F syncp c s : Inv rules c s -> Inv rules c (step_ready rules env F syncp s).
Proof.
  intros HI. unfold step_ready. destruct (is_ready s) as [|t rest] eqn:Hq; auto.
  pose proof HI as (_ & HT & _).
  destruct (t_rd1 c s HT t) as (ti & Hg & Hk & Hw); [rewrite Hq; now left|].
  assert (Hnf : ~ In t (is_fintasks s)).
  { intros Hin. destruct (t_ft c s HT t Hin) as (_ & _ & Hkc & _). congruence. }
  unfold run_ready. cbn zeta. change (kind_of (upd_ready s rest) t) with (kind_of s t). rewrite Hk. cbn [kind_eqb check].
  apply Inv_inc_outstanding. unfold inputs_available.
  pose proof (Inv_compute rules c s t rest Hq HI) as HI1. set (s1 := set_kind (upd_ready s rest) t KComputing) in *.
  apply Inv_avail_body.
  - change (aget (is_tasks (iemit s1 (EAvail t))) t) with (aget (is_tasks s) t). congruence.
  - change (kind_of (iemit s1 (EAvail t)) t) with (kind_of s1 t). unfold s1, set_kind. now rewrite kind_of_mod_ri, N.eqb_refl.
  - exact Hnf.
  - now apply Inv_iemit.
Qed.
