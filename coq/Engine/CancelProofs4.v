(* C05 - proofs about cancellation, part 4: what a flag does in later traversals (`ensure`, `ensure_c`):
   a flagged key that is reached runs with reason Forced and loses its flag by completing; reason Forced is given to
   flagged keys only; an unflagged key whose signature and value are valid runs only because an input was rebuilt. *)
From LLB Require Import Engine.Rules Engine.Spec Engine.Exec Engine.Cancel Engine.CancelProofs Engine.CancelProofs2
  Engine.CancelProofs3.
From Coq Require Import List NArith Bool Lia Arith.
Local Open Scope N_scope.

Lemma bind1_ok : forall o f s', bind1 o f = Ok s' -> exists s1, o = Ok s1 /\ f s1 = Ok s'.
Proof. intros o f s' H. destruct o as [s1|s1 p|]; cbn [bind1] in H; try discriminate H. eauto. Qed.

Lemma bind2_ok : forall (A : Type) (p : outcome * A) f s', bind2 p f = Ok s' -> exists s1, fst p = Ok s1 /\ f s1 (snd p) = Ok s'.
Proof.
  intros A [o a] f s' H. unfold bind2 in H. cbn [fst snd] in *. destruct o as [s1|s1 q|]; try discriminate H. eauto.
Qed.

Lemma not_in_existsb : forall k (l : list key), ~ In k l -> existsb (N.eqb k) l = false.
Proof.
  intros k l H. destruct (existsb (N.eqb k) l) eqn:E; [|reflexivity].
  exfalso. apply H. apply existsb_exists in E. destruct E as [x [Hin Hx]]. apply N.eqb_eq in Hx. now subst.
Qed.

Lemma has_state_grows : forall s o s', grows s o -> has_state o s' -> ext s s'.
Proof. intros s o s' Hg [E|[p E]]; subst o; exact Hg. Qed.

Lemma has_state_inv : forall rules order st s o s', inv_o rules order st s o -> has_state o s' ->
  exists l, cinv rules order st s s' l.
Proof. intros rules order st s o s' Hi [E|[p E]]; subst o; exact Hi. Qed.

Lemma ext_unique : forall s s' l1 l2, st_log s' = l1 ++ st_log s -> st_log s' = l2 ++ st_log s -> l1 = l2.
Proof. intros s s' l1 l2 H1 H2. rewrite H1 in H2. now apply app_inv_tail in H2. Qed.

Section Later.
Variable rules : key -> rule.
Variable env : key -> N.
Variable F : key -> N -> list value -> list N -> N -> N.
Variable order : N -> key -> list dep -> list dep.

Section LaterStep.
Variable ens : list key -> state -> key -> outcome.
Hypothesis Hinv : forall st s k, inv_o rules order st s (ens st s k).

(* whatever happens, a run starts by creating the task *)
Lemma run_starts : forall k stack r s0 o s', run rules env F order ens k stack r s0 = o -> has_state o s' ->
  exists l, st_log s' = l ++ ECreate k :: st_log s0.
Proof.
  intros k stack r s0 o s' Hr Hs. rewrite run_T in Hr.
  assert (G : grows (run_pre rules k r s0) o).
  { subst o. apply grows_bind2; [apply (requests_grows rules order ens Hinv) | intros; apply (T1_grows rules env F order ens Hinv)]. }
  destruct (has_state_grows _ _ _ G Hs) as [l Hl]. rewrite Hl. unfold run_pre.
  destruct (negb (N.eqb (res_builtAt r) 0) && N.eqb (r_sig (rules k)) (res_sig r)); cbn [emit st_log].
  - exists (l ++ [EPrior k (res_value r); EStart k]). now rewrite <- app_assoc.
  - exists (l ++ [EStart k]). now rewrite <- app_assoc.
Qed.

Lemma complete_unflags : forall s k r bk v, flagged (complete order s k (rules k) r bk v) k = false.
Proof.
  intros s k r bk v. unfold complete.
  change (flagged (unflag (emit s (EComplete k v)) k) k = false).
  rewrite flagged_unflag_c, N.eqb_refl. apply andb_false_r.
Qed.

Lemma grows_ok : forall s o s1, grows s o -> o = Ok s1 -> ext s s1.
Proof. intros s o s1 H E. subst o. exact H. Qed.

(* a run that ends well has completed its key, which is then not flagged *)
Lemma run_ok : forall k stack r s0 s', run rules env F order ens k stack r s0 = Ok s' ->
  exists l v, st_log s' = l ++ st_log s0 /\ In (EComplete k v) l /\ flagged s' k = false.
Proof.
  intros k stack r s0 s' Hr. rewrite run_T in Hr.
  apply bind2_ok in Hr. destruct Hr as [s1 [E1 Hr]]. unfold T1 in Hr.
  apply bind2_ok in Hr. destruct Hr as [s2 [E2 Hr]]. unfold T2 in Hr.
  apply bind1_ok in Hr. destruct Hr as [s3 [E3 Hr]]. unfold T3 in Hr.
  apply bind2_ok in Hr. destruct Hr as [s4 [E4 Hr]]. unfold T4 in Hr.
  pose proof (grows_ok _ _ _ (requests_grows rules order ens Hinv _ _ _ _ _ _) E1) as X1.
  pose proof (grows_ok _ _ _ (requests_grows rules order ens Hinv _ _ _ _ _ _) E2) as X2.
  pose proof (grows_ok _ _ _ (follows_grows rules order ens Hinv _ _ _ _) E3) as X3.
  pose proof (grows_ok _ _ _ (requests_grows rules order ens Hinv _ _ _ _ _ _) E4) as X4.
  pose proof (ext_trans _ _ _ (ext_trans _ _ _ (ext_trans _ _ _ (ext_trans _ _ _ (run_pre_ext rules k r s0) X1) X2) X3) X4) as [l4 L4].
  match type of Hr with follows _ _ _ _ ?x = _ => set (sc := x) in * end.
  pose proof (follows_inv rules order ens Hinv k stack (r_disc (rules k)) sc) as Hi. rewrite Hr in Hi.
  destruct Hi as [l2 Hi].
  match goal with sc0 := complete _ _ _ _ _ _ ?v |- _ => exists (l2 ++ EComplete k v :: EAvail k :: l4), v end.
  split; [|split].
  - rewrite (ci_log _ _ _ _ _ _ Hi). subst sc. unfold complete. cbn [set_db set_mem unflag emit st_log].
    rewrite L4. rewrite <- app_assoc. reflexivity.
  - apply in_or_app. right. now left.
  - rewrite (ci_flag _ _ _ _ _ _ Hi). subst sc. now rewrite complete_unflags.
Qed.

Lemma run_after_need : forall k stack r s0 rs o s',
  run rules env F order ens k stack r (emit s0 (ENeed k rs None)) = o -> has_state o s' ->
  exists l, st_log s' = l ++ ECreate k :: ENeed k rs None :: st_log s0 /\
            (o = Ok s' -> flagged s' k = false /\ exists v, In (EComplete k v) l).
Proof.
  intros k stack r s0 rs o s' Hr Hs. destruct (run_starts _ _ _ _ _ _ Hr Hs) as [l Hl]. exists l.
  split; [exact Hl|]. intros E. rewrite E in Hr. destruct (run_ok _ _ _ _ _ Hr) as [l' [v [Hl' [Hin Hf]]]].
  split; [exact Hf|]. exists v.
  assert (E' : l' = l ++ [ECreate k]).
  { eapply ext_unique; [exact Hl'|]. rewrite Hl. now rewrite <- app_assoc. }
  subst l'. apply in_app_or in Hin. destruct Hin as [Hin|[Hin|[]]]; [exact Hin | discriminate Hin].
Qed.

(* c05_flagged_reruns, first half, for one step over any recursive call that has the invariant *)
Lemma flagged_reruns_body : forall stack s k o s',
  ensure_body rules env F order ens stack s k = o -> has_state o s' ->
  flagged s k = true -> res_builtAt (get (st_mem s) k) <> st_epoch s -> ~ In k stack ->
  exists l, st_log s' = l ++ ECreate k :: ENeed k (if N.eqb (res_builtAt (get (st_mem s) k)) 0 then NeverBuilt else Forced) None :: st_log s /\
            (o = Ok s' -> flagged s' k = false /\ exists v, In (EComplete k v) l).
Proof.
  intros stack s k o s' Hb Hs Hf Hnd Hk. unfold ensure_body in Hb.
  rewrite (not_in_existsb _ _ Hk) in Hb. apply N.eqb_neq in Hnd. rewrite Hnd in Hb.
  cbn [res_builtAt res_sig] in Hb. set (r := mkRes _ _ _ _ _) in *.
  destruct (N.eqb (res_builtAt (get (st_mem s) k)) 0).
  - exact (run_after_need _ _ _ (set_mem s k r) _ _ _ Hb Hs).
  - change (flagged (set_mem s k r) k) with (flagged s k) in Hb. rewrite Hf in Hb.
    exact (run_after_need _ _ _ (set_mem s k r) _ _ _ Hb Hs).
Qed.

(* during the scan of k's recorded dependencies, k is started only through `InputRebuilt` *)
Lemma scan_create : forall k stack r ds s o s' l, ~ In k stack ->
  scan rules env F order ens k stack r ds s = o -> has_state o s' -> st_log s' = l ++ st_log s ->
  In (ECreate k) l ->
  exists d, In d ds /\ d_order d = false /\ In (ENeed k InputRebuilt (Some (d_key d))) l.
Proof.
  intros k stack r ds. induction ds as [|d t IH]; intros s o s' l Hk Hsc Hs Hl Hin.
  - cbn [scan] in Hsc. subst o. destruct Hs as [E|[p E]]; [|discriminate E]. inversion E. subst s'.
    cbn [set_mem st_log] in Hl. assert (E0 : l = []) by (eapply ext_unique; [exact Hl | reflexivity]).
    subst l. destruct Hin.
  - rewrite scan_cons in Hsc. pose proof (Hinv (k :: stack) s (d_key d)) as Hi.
    destruct (ens (k :: stack) s (d_key d)) as [s1|s1 p|]; cbn [bind1] in Hsc.
    + destruct Hi as [l1 Hi]. pose proof (ci_log _ _ _ _ _ _ Hi) as L1.
      assert (Hn1 : ~ In (ECreate k) l1) by (apply (ci_stack _ _ _ _ _ _ Hi); now left).
      destruct (negb (d_order d) && (res_builtAt r <? res_computedAt (get (st_mem s1) (d_key d)))) eqn:Ec.
      * exists d. split; [now left|]. apply andb_true_iff in Ec. destruct Ec as [Eo _].
        split; [now apply negb_true_iff in Eo|].
        destruct (run_starts _ _ _ _ _ _ Hsc Hs) as [l2 L2]. cbn [emit st_log] in L2. rewrite L1 in L2.
        assert (E : l = l2 ++ ECreate k :: ENeed k InputRebuilt (Some (d_key d)) :: l1).
        { eapply ext_unique; [exact Hl|]. rewrite L2. rewrite <- app_assoc. reflexivity. }
        subst l. apply in_or_app. right. right. now left.
      * assert (G : grows s1 o).
        { subst o. eapply inv_grows. apply scan_inv; [exact Hinv | exact Hk]. }
        destruct (has_state_grows _ _ _ G Hs) as [l2 L2].
        assert (E : l = l2 ++ l1).
        { eapply ext_unique; [exact Hl|]. rewrite L2, L1. now rewrite app_assoc. }
        subst l. apply in_app_or in Hin. destruct Hin as [Hin|Hin]; [|contradiction].
        destruct (IH s1 o s' l2 Hk Hsc Hs L2 Hin) as [d' [Hd [Ho Hn]]].
        exists d'. split; [now right|]. split; [exact Ho|]. apply in_or_app. now left.
    + subst o. destruct Hs as [E|[q E]]; [discriminate E|]. inversion E. subst s1 q.
      destruct Hi as [l1 Hi]. pose proof (ci_log _ _ _ _ _ _ Hi) as L1.
      assert (E0 : l = l1) by (eapply ext_unique; eassumption). subst l.
      exfalso. apply (ci_stack _ _ _ _ _ _ Hi k); [now left | exact Hin].
    + subst o. destruct Hs as [E|[q E]]; discriminate E.
Qed.

(* c05_flagged_reruns, second half: no spurious work.  A key that is not flagged, has been built, whose signature
   is unchanged and whose value is valid is started only because a recorded input was rebuilt. *)
Lemma unflagged_body : forall stack s k o s' l,
  ensure_body rules env F order ens stack s k = o -> has_state o s' -> st_log s' = l ++ st_log s ->
  flagged s k = false -> res_builtAt (get (st_mem s) k) <> 0 ->
  r_sig (rules k) = res_sig (get (st_mem s) k) -> valid rules env k (get (st_mem s) k) = true ->
  In (ECreate k) l ->
  exists d, In d (drop_single (res_deps (get (st_mem s) k))) /\ d_order d = false /\
            In (ENeed k InputRebuilt (Some (d_key d))) l.
Proof.
  intros stack s k o s' l Hb Hs Hl Hf Hnb Hsig Hv Hin. unfold ensure_body in Hb.
  assert (Nil : s' = s -> False).
  { intros E. subst s'. assert (E0 : l = []) by (eapply ext_unique; [exact Hl | reflexivity]). subst l. destruct Hin. }
  destruct (existsb (N.eqb k) stack) eqn:Est.
  { exfalso. apply Nil. subst o. destruct Hs as [E|[q E]]; inversion E; reflexivity. }
  pose proof (existsb_eqb_false _ _ Est) as Hk.
  destruct (N.eqb (res_builtAt (get (st_mem s) k)) (st_epoch s)).
  { exfalso. apply Nil. subst o. destruct Hs as [E|[q E]]; inversion E; reflexivity. }
  cbn [res_builtAt res_sig res_deps] in Hb. set (r := mkRes _ _ _ _ _) in *.
  apply N.eqb_neq in Hnb. rewrite Hnb in Hb.
  change (flagged (set_mem s k r) k) with (flagged s k) in Hb. rewrite Hf in Hb.
  rewrite Hsig, N.eqb_refl in Hb. cbn [negb] in Hb.
  change (valid rules env k r) with (valid rules env k (get (st_mem s) k)) in Hb. rewrite Hv in Hb. cbn [negb] in Hb.
  assert (G : grows (emit (set_mem s k r) (EValid k true)) o).
  { subst o. eapply inv_grows. apply scan_inv; [exact Hinv | exact Hk]. }
  destruct (has_state_grows _ _ _ G Hs) as [l2 L2].
  assert (E : l = l2 ++ [EValid k true]).
  { eapply ext_unique; [exact Hl|]. rewrite L2. cbn [emit set_mem st_log]. now rewrite <- app_assoc. }
  subst l. apply in_app_or in Hin. destruct Hin as [Hin|[Hin|[]]]; [|discriminate Hin].
  destruct (scan_create _ _ _ _ _ _ _ _ Hk Hb Hs L2 Hin) as [d [Hd [Ho Hn]]].
  exists d. split; [exact Hd|]. split; [exact Ho|]. apply in_or_app. now left.
Qed.

End LaterStep.

(* ---------- lifted to ensure and ensure_c ---------- *)

Theorem flagged_reruns : forall fuel stack s k o s',
  ensure rules env F order fuel stack s k = o -> has_state o s' ->
  flagged s k = true -> res_builtAt (get (st_mem s) k) <> st_epoch s -> ~ In k stack ->
  exists l, st_log s' = l ++ ECreate k :: ENeed k (if N.eqb (res_builtAt (get (st_mem s) k)) 0 then NeverBuilt else Forced) None :: st_log s /\
            (o = Ok s' -> flagged s' k = false /\ exists v, In (EComplete k v) l).
Proof.
  intros fuel stack s k o s' He. destruct fuel as [|f]; cbn [ensure] in He.
  - subst o. intros [E|[p E]]; discriminate E.
  - apply (flagged_reruns_body (ensure rules env F order f) (ensure_inv rules env F order f) _ _ _ _ _ He).
Qed.

Theorem flagged_reruns_c : forall n base fuel stack s k o s',
  ensure_c rules env F order n base fuel stack s k = o -> has_state o s' -> budget_reached n base s = false ->
  flagged s k = true -> res_builtAt (get (st_mem s) k) <> st_epoch s -> ~ In k stack ->
  exists l, st_log s' = l ++ ECreate k :: ENeed k (if N.eqb (res_builtAt (get (st_mem s) k)) 0 then NeverBuilt else Forced) None :: st_log s /\
            (o = Ok s' -> flagged s' k = false /\ exists v, In (EComplete k v) l).
Proof.
  intros n base fuel stack s k o s' He Hs Hb. destruct fuel as [|f]; cbn [ensure_c] in He.
  - subst o. destruct Hs as [E|[p E]]; discriminate E.
  - rewrite Hb in He.
    apply (flagged_reruns_body (ensure_c rules env F order n base f) (ensure_c_inv rules env F order n base f) _ _ _ _ _ He Hs).
Qed.

Theorem forced_only_flagged : forall fuel stack s k o s' l,
  ensure rules env F order fuel stack s k = o -> has_state o s' -> st_log s' = l ++ st_log s ->
  forall x inp, In (ENeed x Forced inp) l -> flagged s x = true.
Proof.
  intros fuel stack s k o s' l He Hs Hl x inp Hin.
  pose proof (ensure_inv rules env F order fuel stack s k) as Hi. rewrite He in Hi.
  destruct (has_state_inv _ _ _ _ _ _ Hi Hs) as [l' Hi'].
  assert (E : l = l') by (eapply ext_unique; [exact Hl | apply (ci_log _ _ _ _ _ _ Hi')]). subst l'.
  exact (ci_forced _ _ _ _ _ _ Hi' x inp Hin).
Qed.

Theorem forced_only_flagged_c : forall n base fuel stack s k o s' l,
  ensure_c rules env F order n base fuel stack s k = o -> has_state o s' -> st_log s' = l ++ st_log s ->
  forall x inp, In (ENeed x Forced inp) l -> flagged s x = true.
Proof.
  intros n base fuel stack s k o s' l He Hs Hl x inp Hin.
  pose proof (ensure_c_inv rules env F order n base fuel stack s k) as Hi. rewrite He in Hi.
  destruct (has_state_inv _ _ _ _ _ _ Hi Hs) as [l' Hi'].
  assert (E : l = l') by (eapply ext_unique; [exact Hl | apply (ci_log _ _ _ _ _ _ Hi')]). subst l'.
  exact (ci_forced _ _ _ _ _ _ Hi' x inp Hin).
Qed.

Theorem unflagged_runs_only_for_input : forall fuel stack s k o s' l,
  ensure rules env F order fuel stack s k = o -> has_state o s' -> st_log s' = l ++ st_log s ->
  flagged s k = false -> res_builtAt (get (st_mem s) k) <> 0 ->
  r_sig (rules k) = res_sig (get (st_mem s) k) -> valid rules env k (get (st_mem s) k) = true ->
  In (ECreate k) l ->
  exists d, In d (drop_single (res_deps (get (st_mem s) k))) /\ d_order d = false /\
            In (ENeed k InputRebuilt (Some (d_key d))) l.
Proof.
  intros fuel stack s k o s' l He Hs. destruct fuel as [|f]; cbn [ensure] in He.
  - subst o. destruct Hs as [E|[p E]]; discriminate E.
  - apply (unflagged_body (ensure rules env F order f) (ensure_inv rules env F order f) _ _ _ _ _ _ He Hs).
Qed.

End Later.
