(* C01 - the main induction: one [ensure] step preserves the invariant, makes its key complete and never
   cycles or runs out of fuel, given that the recursive calls do (for keys of smaller rank). *)
From LLB Require Import Engine.Rules Engine.Spec Engine.SpecFrame Engine.SpecInv1 Engine.SpecInv2.
From Coq Require Import List NArith Bool Lia Arith Permutation.
Local Open Scope N_scope.

Section Main.
Variable rules : key -> rule.
Variable env : key -> N.
Variable F : key -> N -> list value -> list N -> N -> N.
Variable order : N -> key -> list dep -> list dep.
Variable rank : key -> nat.
Variable R : key -> N -> rule.
Hypothesis HR : table_ok rules R.
Hypothesis Hrank : wf_rank rules rank.
Hypothesis Hdisc : wf_disc rules.
Hypothesis Horder : wf_order order.

Local Notation G := (Good rules env F rank R).
Local Notation cvk := (cvk rules env F rank).
Local Notation provs_ok := (provs_ok rules env F rank).

Variable ens : list key -> state -> key -> outcome.
Variable n : nat.
Hypothesis HensF : forall stack s k, frame_o stack s k (ens stack s k).
Hypothesis HensG : forall E stack s x, (rank x < n)%nat -> (forall y, In y stack -> (rank x < rank y)%nat) ->
  G E s -> exists s', ens stack s x = Ok s' /\ G E s' /\ provs_ok s s'.

Lemma requests_good : forall E k stack ks slot s acc,
  (forall x, In x ks -> (rank x < n)%nat /\ (rank x < rank k)%nat) ->
  (forall y, In y stack -> (rank k < rank y)%nat) -> G E s ->
  exists s', requests ens k stack ks slot s acc = (Ok s', acc ++ map cvk ks) /\ G E s' /\ provs_ok s s'.
Proof.
  intros E k stack ks. induction ks as [|x ks IH]; intros slot s acc Hks Hst HG; cbn [requests map].
  - exists s. rewrite app_nil_r. split; [reflexivity|]. split; [exact HG | apply provs_refl].
  - destruct (Hks x (or_introl eq_refl)) as [Hxn Hxk].
    destruct (HensG E (k :: stack) s x Hxn) as (s1 & E1 & G1 & P1); [|exact HG|].
    { intros y [<-|Hy]; [exact Hxk | specialize (Hst y Hy); lia]. }
    pose proof (HensF (k :: stack) s x) as Hf. rewrite E1 in Hf. destruct Hf as [_ Hdx].
    rewrite E1.
    assert (Hv : stored (st_mem s1) x = cvk x) by (apply G1; exact Hdx).
    unfold stored in Hv. rewrite Hv.
    destruct (IH (S slot) (emit s1 (EProvide k slot x (cvk x))) (acc ++ [cvk x])) as (s' & E2 & G2 & P2).
    + intros y Hy. apply Hks. now right.
    + exact Hst.
    + now apply Good_emit.
    + exists s'. split; [rewrite E2; now rewrite <- app_assoc|]. split; [exact G2|].
      eapply provs_trans; [exact P1|]. eapply provs_trans; [|exact P2]. apply provs_emit. reflexivity.
Qed.

Lemma follows_good : forall E k stack ks s,
  (forall x, In x ks -> (rank x < n)%nat /\ (rank x < rank k)%nat) ->
  (forall y, In y stack -> (rank k < rank y)%nat) -> G E s ->
  exists s', follows ens k stack ks s = Ok s' /\ G E s' /\ provs_ok s s'.
Proof.
  intros E k stack ks. induction ks as [|x ks IH]; intros s Hks Hst HG; cbn [follows].
  - exists s. split; [reflexivity|]. split; [exact HG | apply provs_refl].
  - destruct (Hks x (or_introl eq_refl)) as [Hxn Hxk].
    destruct (HensG E (k :: stack) s x Hxn) as (s1 & E1 & G1 & P1); [|exact HG|].
    { intros y [<-|Hy]; [exact Hxk | specialize (Hst y Hy); lia]. }
    rewrite E1. destruct (IH s1) as (s' & E2 & G2 & P2); auto.
    { intros y Hy. apply Hks. now right. }
    exists s'. split; [exact E2|]. split; [exact G2|]. eapply provs_trans; eauto.
Qed.

Lemma run_pre_good : forall E k r s, G E s -> G E (run_pre rules k r s) /\ provs_ok s (run_pre rules k r s).
Proof.
  intros E k r s HG. unfold run_pre.
  destruct (negb (N.eqb (res_builtAt r) 0) && N.eqb (r_sig (rules k)) (res_sig r)).
  - split; [now repeat apply Good_emit|].
    exists [EPrior k (res_value r); EStart k; ECreate k]. split; [reflexivity|]. repeat constructor.
  - split; [now repeat apply Good_emit|].
    exists [EStart k; ECreate k]. split; [reflexivity|]. repeat constructor.
Qed.

Lemma task_value_clean : forall k,
  Some (task_value rules env F k (rules k) (map cvk (r_req (rules k)))
          (map cvk (branch_keys (rules k) (map cvk (r_req (rules k)))))) = cvk k.
Proof. intros k. rewrite (cvk_value rules env F rank Hrank k). reflexivity. Qed.

(* requests from a good state: the equation plus everything the frame gives *)
Lemma requests_step : forall E k stack ks slot s,
  (forall x, In x ks -> (rank x < n)%nat /\ (rank x < rank k)%nat) ->
  (forall y, In y stack -> (rank k < rank y)%nat) -> G E s ->
  exists s', requests ens k stack ks slot s [] = (Ok s', map cvk ks) /\ G E s' /\ provs_ok s s' /\
             frame_st (k :: stack) s s' /\ (forall x, In x ks -> done s' x).
Proof.
  intros E k stack ks slot s Hks Hst HG.
  destruct (requests_good E k stack ks slot s [] Hks Hst HG) as (s' & Eq & G' & P').
  exists s'. cbn [app] in Eq. split; [exact Eq|]. split; [exact G'|]. split; [exact P'|].
  apply (requests_frame ens HensF) in Eq. destruct Eq as [Hf Hd]. split; [exact Hf|]. now apply Hd.
Qed.

Lemma follows_step : forall E k stack ks s,
  (forall x, In x ks -> (rank x < n)%nat /\ (rank x < rank k)%nat) ->
  (forall y, In y stack -> (rank k < rank y)%nat) -> G E s ->
  exists s', follows ens k stack ks s = Ok s' /\ G E s' /\ provs_ok s s' /\
             frame_st (k :: stack) s s' /\ (forall x, In x ks -> done s' x).
Proof.
  intros E k stack ks s Hks Hst HG.
  destruct (follows_good E k stack ks s Hks Hst HG) as (s' & Eq & G' & P').
  exists s'. split; [exact Eq|]. split; [exact G'|]. split; [exact P'|].
  apply (follows_frame ens HensF) in Eq. destruct Eq as [Hf Hd]. split; [exact Hf|]. now apply Hd.
Qed.

Lemma run_good : forall E k stack r s,
  (rank k <= n)%nat -> (forall y, In y stack -> (rank k < rank y)%nat) ->
  G E s -> get (st_mem s) k = r -> ~ done s k ->
  exists s', run rules env F order ens k stack r s = Ok s' /\ G E s' /\ provs_ok s s'.
Proof.
  intros E k stack r s Hkn Hst HG Hr Hnd.
  assert (Hnst : ~ In k stack) by (intros Hin; specialize (Hst k Hin); lia).
  assert (Hlt : forall l, (forall x, In x l -> (rank x < rank k)%nat) ->
                forall x, In x l -> (rank x < n)%nat /\ (rank x < rank k)%nat).
  { intros l Hl x Hx. specialize (Hl x Hx). lia. }
  unfold run. fold (run_pre rules k r s).
  destruct (run_pre_good E k r s HG) as [G0 P0].
  pose proof (run_pre_frame rules (k :: stack) k r s) as F0.
  set (s0 := run_pre rules k r s) in *.
  destruct (requests_step E k stack (r_req (rules k)) 0 s0 (Hlt _ (rank_req rules env F rank Hrank k)) Hst G0)
    as (s1 & E1 & G1 & P1 & F1 & D1).
  rewrite E1.
  destruct (requests_step E k stack (r_single (rules k)) (length (map cvk (r_req (rules k)))) s1
              (Hlt _ (rank_single rules env F rank Hrank k)) Hst G1) as (s2 & E2 & G2 & P2 & F2 & D2).
  rewrite E2.
  destruct (follows_step E k stack (r_follow (rules k)) s2 (Hlt _ (rank_follow rules env F rank Hrank k)) Hst G2)
    as (s3 & E3 & G3 & P3 & F3 & D3).
  rewrite E3.
  set (bk := branch_keys (rules k) (map cvk (r_req (rules k)))).
  destruct (requests_step E k stack bk (length (map cvk (r_req (rules k))) + length (map cvk (r_single (rules k)))) s3
              (Hlt _ (rank_branch rules env F rank Hrank k _)) Hst G3) as (s4 & E4 & G4 & P4 & F4 & D4).
  rewrite E4.
  set (s5 := emit s4 (EAvail k)).
  assert (F5 : frame_st (k :: stack) s s5).
  { eapply frame_trans; [exact F0|]. eapply frame_trans; [exact F1|]. eapply frame_trans; [exact F2|].
    eapply frame_trans; [exact F3|]. eapply frame_trans; [exact F4 | apply frame_emit]. }
  assert (G5 : G E s5) by now apply Good_emit.
  assert (Hr5 : get (st_mem s5) k = r).
  { rewrite <- Hr. apply F5. left. now left. }
  pose proof (frame_notdone _ _ _ _ F5 Hnd) as Hnd5.
  set (v := task_value rules env F k (rules k) (map cvk (r_req (rules k))) (map cvk bk)).
  assert (Hv : Some v = cvk k) by apply task_value_clean.
  pose proof (Good_complete rules env F order rank R E s5 k r bk v G5 Hr5 Hnd5 Hv) as G6.
  pose proof (complete_frame rules env F order stack s5 k (rules k) r bk v Hnst Hnd5) as F6.
  set (s6 := complete order s5 k (rules k) r bk v) in *.
  destruct (follows_step (fun x => x = k \/ E x) k stack (r_disc (rules k)) s6
              (Hlt _ (rank_disc rules env F rank Hrank k)) Hst G6) as (s7 & E7 & G7 & P7 & F7 & D7).
  exists s7. split; [exact E7|].
  assert (M45 : forall x, done s4 x -> done s7 x).
  { intros x Hx. eapply frame_done_mono; [exact F7|]. eapply frame_done_mono; [exact F6|]. now apply done_emit. }
  split.
  - apply Good_close with (order := order) (k := k) (r := r) (v := v); auto.
    + destruct F7 as (He7 & _ & _ & _ & Hm7 & _). rewrite Hm7 by (left; now left).
      rewrite He7. unfold s6, complete; cbn [st_mem set_db set_mem]. rewrite get_update_same. reflexivity.
    + fold bk. intros x Hx. rewrite !in_app_iff in Hx. destruct Hx as [Hx|[Hx|Hx]].
      * apply M45. eapply frame_done_mono; [exact F4|]. eapply frame_done_mono; [exact F3|].
        eapply frame_done_mono; [exact F2|]. now apply D1.
      * apply M45. now apply D4.
      * now apply D7.
  - eapply provs_trans; [exact P0|]. eapply provs_trans; [exact P1|]. eapply provs_trans; [exact P2|].
    eapply provs_trans; [exact P3|]. eapply provs_trans; [exact P4|].
    eapply provs_trans; [|exact P7]. exists [EComplete k v; EAvail k]. split; [reflexivity|]. repeat constructor.
Qed.

Lemma scan_good : forall E k stack r ds s,
  (rank k <= n)%nat -> (forall y, In y stack -> (rank k < rank y)%nat) ->
  res_builtAt r <> 0 -> res_sig r = r_sig (rules k) -> valid rules env k r = true ->
  G E s -> get (st_mem s) k = r -> ~ done s k ->
  (forall d, In d ds -> (rank (d_key d) < rank k)%nat) ->
  (forall d, In d (cdeps r) -> In d ds \/
      (done s (d_key d) /\ res_computedAt (get (st_mem s) (d_key d)) <= res_builtAt r)) ->
  exists s', scan rules env F order ens k stack r ds s = Ok s' /\ G E s' /\ provs_ok s s'.
Proof.
  intros E k stack r ds. induction ds as [|d ds IH]; intros s Hkn Hst Hb Hs Hval HG Hr Hnd Hrk Hproc; cbn [scan].
  - eexists. split; [reflexivity|]. split; [|now apply provs_same_log].
    apply Good_mark; auto.
    + intros d Hd. destruct (Hproc d Hd) as [[]|[_ H]]. exact H.
    + intros d Hd. destruct (Hproc d Hd) as [[]|[H _]]. exact H.
  - assert (Hdn : (rank (d_key d) < n)%nat) by (specialize (Hrk d (or_introl eq_refl)); lia).
    destruct (HensG E (k :: stack) s (d_key d) Hdn) as (s1 & E1 & G1 & P1); [|exact HG|].
    { intros y [<-|Hy]; [apply Hrk; now left | specialize (Hst y Hy); specialize (Hrk d (or_introl eq_refl)); lia]. }
    pose proof (HensF (k :: stack) s (d_key d)) as Hf. rewrite E1 in Hf. destruct Hf as [F1 Hdd].
    rewrite E1.
    assert (Hr1 : get (st_mem s1) k = r).
    { rewrite <- Hr. apply F1. left. now left. }
    pose proof (frame_notdone _ _ _ _ F1 Hnd) as Hnd1.
    destruct (negb (d_order d) && (res_builtAt r <? res_computedAt (get (st_mem s1) (d_key d)))) eqn:Ec.
    + destruct (run_good E k stack r (emit s1 (ENeed k InputRebuilt (Some (d_key d)))) Hkn Hst) as (s' & E2 & G2 & P2).
      * now apply Good_emit.
      * exact Hr1.
      * intros H. apply Hnd1. now apply done_emit in H.
      * exists s'. split; [exact E2|]. split; [exact G2|]. eapply provs_trans; [exact P1|].
        eapply provs_trans; [|exact P2]. now apply provs_emit.
    + destruct (IH s1) as (s' & E2 & G2 & P2); auto.
      * intros d' Hd'. apply Hrk. now right.
      * intros d' Hd'. destruct (Hproc d' Hd') as [[<-|Hin]|[Hdone Hle]].
        -- right. split; [exact Hdd|]. apply in_cdeps in Hd'. destruct Hd' as (_ & Ho & _).
           rewrite Ho in Ec. cbn in Ec. apply N.ltb_ge in Ec. exact Ec.
        -- now left.
        -- right. destruct F1 as (_ & _ & _ & _ & Hm1 & _). split.
           ++ eapply frame_done_mono; [|exact Hdone]. pose proof (HensF (k :: stack) s (d_key d)) as Hf.
              rewrite E1 in Hf. apply Hf.
           ++ rewrite Hm1 by now right. exact Hle.
      * exists s'. split; [exact E2|]. split; [exact G2|]. eapply provs_trans; eauto.
Qed.

Lemma ensure_body_good : forall E stack s k,
  (rank k <= n)%nat -> (forall y, In y stack -> (rank k < rank y)%nat) -> G E s ->
  exists s', ensure_body rules env F order ens stack s k = Ok s' /\ G E s' /\ provs_ok s s'.
Proof.
  intros E stack s k Hkn Hst HG. unfold ensure_body.
  assert (Hnst : ~ In k stack) by (intros Hin; specialize (Hst k Hin); lia).
  apply existsb_eqb_nIn in Hnst. rewrite Hnst.
  destruct (N.eqb (res_builtAt (get (st_mem s) k)) (st_epoch s)) eqn:Ed.
  { exists s. split; [reflexivity|]. split; [exact HG | apply provs_refl]. }
  apply N.eqb_neq in Ed. fold (done s k) in Ed.
  set (r0 := get (st_mem s) k) in *.
  set (r := mkRes (res_value r0) (res_sig r0) (res_computedAt r0) (res_builtAt r0) (drop_single (res_deps r0))).
  cbn [res_builtAt r].
  assert (G1 : G E (set_mem s k r)).
  { apply Good_set_mem_quiet; auto. cbn. apply drop_single_idem. }
  assert (Hr1 : get (st_mem (set_mem s k r)) k = r) by (unfold set_mem; cbn; apply get_update_same).
  assert (Hnd1 : ~ done (set_mem s k r) k).
  { unfold done. rewrite Hr1. cbn. exact Ed. }
  set (s1 := set_mem s k r) in *.
  assert (Hrun : forall s2, G E s2 -> get (st_mem s2) k = r -> ~ done s2 k -> provs_ok s s2 ->
            exists s', run rules env F order ens k stack r s2 = Ok s' /\ G E s' /\ provs_ok s s').
  { intros s2 G2 Hr2 Hnd2 P2. destruct (run_good E k stack r s2 Hkn Hst G2 Hr2 Hnd2) as (s' & E' & G' & P').
    exists s'. split; [exact E'|]. split; [exact G'|]. eapply provs_trans; eauto. }
  assert (Hemit : forall e, prov_ok rules env F rank e ->
            G E (emit s1 e) /\ get (st_mem (emit s1 e)) k = r /\ ~ done (emit s1 e) k /\ provs_ok s (emit s1 e)).
  { intros e He. split; [now apply Good_emit|]. split; [exact Hr1|]. split.
    - intros H. apply Hnd1. now apply done_emit in H.
    - exists [e]. split; [reflexivity | now constructor]. }
  destruct (N.eqb (res_builtAt r0) 0) eqn:Eb.
  { destruct (Hemit (ENeed k NeverBuilt None) I) as (A & B & C & D). now apply Hrun. }
  destruct (flagged s1 k).
  { destruct (Hemit (ENeed k Forced None) I) as (A & B & C & D). now apply Hrun. }
  destruct (negb (N.eqb (r_sig (rules k)) (res_sig r))) eqn:Es.
  { destruct (Hemit (ENeed k SignatureChanged None) I) as (A & B & C & D). now apply Hrun. }
  destruct (negb (valid rules env k r)) eqn:Ev.
  { destruct (Hemit (EValid k false) I) as (A & B & C & D). apply Hrun.
    - now apply Good_emit.
    - exact B.
    - intros H. apply C. now apply done_emit in H.
    - eapply provs_trans; [exact D|]. now apply provs_emit. }
  apply N.eqb_neq in Eb. apply negb_false_iff in Es, Ev. apply N.eqb_eq in Es.
  destruct (Hemit (EValid k true) I) as (A & B & C & D).
  assert (HkE : ~ E k). { intros H. apply Ed. now apply HG. }
  assert (Hdeps : forall d, In d (res_deps r) -> (rank (d_key d) < rank k)%nat).
  { intros d Hd. destruct G1 as (_ & _ & Hrows & _). specialize (Hrows k HkE). rewrite Hr1 in Hrows.
    destruct Hrows as (v & _ & _ & Hm & _); [exact Eb|].
    rewrite <- Es, (HR k) in Hm. apply Hrank. apply Hm. cbn [res_deps r]. now rewrite drop_single_idem. }
  destruct (scan_good E k stack r (res_deps r) (emit s1 (EValid k true))) as (s' & E' & G' & P'); auto.
  - intros d Hd. left. now apply in_cdeps in Hd.
  - exists s'. split; [exact E'|]. split; [exact G'|]. eapply provs_trans; eauto.
Qed.

End Main.

Section Lift.
Variable rules : key -> rule.
Variable env : key -> N.
Variable F : key -> N -> list value -> list N -> N -> N.
Variable order : N -> key -> list dep -> list dep.
Variable rank : key -> nat.
Variable R : key -> N -> rule.
Hypothesis HR : table_ok rules R.
Hypothesis Hrank : wf_rank rules rank.
Hypothesis Hdisc : wf_disc rules.
Hypothesis Horder : wf_order order.

Theorem ensure_good : forall fuel E stack s k,
  (rank k < fuel)%nat -> (forall y, In y stack -> (rank k < rank y)%nat) -> Good rules env F rank R E s ->
  exists s', ensure rules env F order fuel stack s k = Ok s' /\ Good rules env F rank R E s' /\
             provs_ok rules env F rank s s'.
Proof.
  induction fuel as [|f IH]; intros E stack s k Hk Hst HG; [lia|]. cbn [ensure].
  apply ensure_body_good with (n := f); auto.
  - intros st s0 k0. apply ensure_frame.
  - lia.
Qed.

End Lift.
