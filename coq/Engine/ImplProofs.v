(* P19 - proofs about the small-step engine-loop model Impl.v, part 1: association lists, how every view of the state
   (rule record, task record, queues, log) changes under the basic updates, fault stickiness. *)
From LLB Require Import Engine.Rules Engine.Spec Engine.Impl.
From Coq Require Import Arith.
Local Open Scope N_scope.

(* ---------- association lists ---------- *)
Lemma aget_aset_same {A} (m : list (N * A)) k a : aget (aset m k a) k = Some a.
Proof.
  induction m as [|[k' a'] t IH]; cbn [aset aget].
  - now rewrite N.eqb_refl.
  - destruct (N.eqb k k') eqn:E; cbn [aget]; rewrite ?N.eqb_refl, ?E; auto.
Qed.

Lemma aget_aset_other {A} (m : list (N * A)) k k' a : k' <> k -> aget (aset m k a) k' = aget m k'.
Proof.
  intros Hne. induction m as [|[k0 a0] t IH]; cbn [aset aget].
  - destruct (N.eqb k' k) eqn:E; auto. apply N.eqb_eq in E. contradiction.
  - destruct (N.eqb k k0) eqn:E; cbn [aget].
    + apply N.eqb_eq in E. subst k0. destruct (N.eqb k' k) eqn:E2; auto. apply N.eqb_eq in E2. contradiction.
    + destruct (N.eqb k' k0); auto.
Qed.

Lemma aget_aset {A} (m : list (N * A)) k k' a : aget (aset m k a) k' = if N.eqb k' k then Some a else aget m k'.
Proof.
  destruct (N.eqb k' k) eqn:E.
  - apply N.eqb_eq in E. subst. apply aget_aset_same.
  - apply N.eqb_neq in E. now apply aget_aset_other.
Qed.

Lemma aget_adel {A} (m : list (N * A)) k k' : aget (adel m k) k' = if N.eqb k' k then None else aget m k'.
Proof.
  induction m as [|[k0 a0] t IH]; cbn [adel aget].
  - now destruct (N.eqb k' k).
  - destruct (N.eqb k k0) eqn:E.
    + rewrite IH. apply N.eqb_eq in E. subst k0. now destruct (N.eqb k' k).
    + cbn [aget]. rewrite IH. destruct (N.eqb k' k0) eqn:E2; auto.
      apply N.eqb_eq in E2. subst k0. destruct (N.eqb k' k) eqn:E3; auto.
      apply N.eqb_eq in E3. subst. rewrite N.eqb_refl in E. discriminate.
Qed.

Lemma aget_in {A} (m : list (N * A)) k a : aget m k = Some a -> In (k, a) m.
Proof.
  induction m as [|[k0 a0] t IH]; cbn [aget]; [discriminate|].
  destruct (N.eqb k k0) eqn:E; intros H.
  - apply N.eqb_eq in E. inversion H. subst. now left.
  - right. auto.
Qed.

Lemma aget_none_notin {A} (m : list (N * A)) k : aget m k = None -> ~ In k (map fst m).
Proof.
  induction m as [|[k0 a0] t IH]; cbn [aget map fst]; [tauto|].
  destruct (N.eqb k k0) eqn:E; [discriminate|]. intros H [H1|H1].
  - subst. rewrite N.eqb_refl in E. discriminate.
  - now apply IH.
Qed.

Lemma in_aget_nodup {A} (m : list (N * A)) k a : NoDup (map fst m) -> In (k, a) m -> aget m k = Some a.
Proof.
  induction m as [|[k0 a0] t IH]; cbn [aget map fst In]; [tauto|].
  intros Hnd [H|H].
  - inversion H. subst. now rewrite N.eqb_refl.
  - inversion Hnd as [|x l Hni Hnd']. subst. destruct (N.eqb k k0) eqn:E.
    + apply N.eqb_eq in E. subst. exfalso. apply Hni. change k0 with (fst (k0, a)). now apply in_map.
    + auto.
Qed.

Lemma keys_aset {A} (m : list (N * A)) k a :
  map fst (aset m k a) = if existsb (N.eqb k) (map fst m) then map fst m else map fst m ++ [k].
Proof.
  induction m as [|[k0 a0] t IH]; cbn [aset map fst existsb app]; auto.
  destruct (N.eqb k k0) eqn:E; cbn [map fst orb].
  - apply N.eqb_eq in E. now subst.
  - rewrite IH. now destruct (existsb (N.eqb k) (map fst t)).
Qed.

Lemma in_keys_aset {A} (m : list (N * A)) k a x : In x (map fst (aset m k a)) -> x = k \/ In x (map fst m).
Proof.
  induction m as [|[k0 a0] t IH]; cbn [aset map fst In].
  - intros [H|[]]; auto.
  - destruct (N.eqb k k0) eqn:E; cbn [map fst In].
    + intros [H|H]; auto.
    + intros [H|H]; auto. destruct (IH H); auto.
Qed.

Lemma nodup_aset {A} (m : list (N * A)) k a : NoDup (map fst m) -> NoDup (map fst (aset m k a)).
Proof.
  induction m as [|[k0 a0] t IH]; cbn [aset map fst]; intros H.
  - constructor; [tauto|constructor].
  - inversion H as [|x l Hni Hnd]. subst. destruct (N.eqb k k0) eqn:E; cbn [map fst].
    + apply N.eqb_eq in E. subst. now constructor.
    + constructor; auto. intros Hin. apply in_keys_aset in Hin. destruct Hin as [Hin|Hin]; auto.
      subst. rewrite N.eqb_refl in E. discriminate.
Qed.

Lemma in_keys_adel {A} (m : list (N * A)) k x : In x (map fst (adel m k)) -> In x (map fst m).
Proof.
  induction m as [|[k0 a0] t IH]; cbn [adel map fst In]; auto.
  destruct (N.eqb k k0); cbn [map fst In]; intros H; auto. destruct H; auto.
Qed.

Lemma nodup_adel {A} (m : list (N * A)) k : NoDup (map fst m) -> NoDup (map fst (adel m k)).
Proof.
  induction m as [|[k0 a0] t IH]; cbn [adel map fst]; intros H; auto.
  inversion H as [|x l Hni Hnd]. subst. destruct (N.eqb k k0); cbn [map fst]; auto.
  constructor; auto. intros Hin. apply Hni. eapply in_keys_adel; eauto.
Qed.

Lemma kind_eqb_eq a b : kind_eqb a b = true <-> a = b.
Proof. split; [destruct a, b; cbn; congruence|intros ->; destruct b; reflexivity]. Qed.
Lemma kind_eqb_refl a : kind_eqb a a = true.
Proof. now destruct a. Qed.
Lemma kind_eqb_neq a b : kind_eqb a b = false <-> a <> b.
Proof. split; [intros H E; subst; rewrite kind_eqb_refl in H; discriminate|destruct a, b; cbn; congruence]. Qed.

(* ---------- frame lemmas (generated by _work/dbg-P19/genviews.py): every projection under every basic update ---------- *)
Lemma is_rules_upd_rules s m : is_rules (upd_rules s m) = m. Proof. reflexivity. Qed.
Lemma is_tasks_upd_rules s m : is_tasks (upd_rules s m) = is_tasks s. Proof. reflexivity. Qed.
Lemma is_toscan_upd_rules s m : is_toscan (upd_rules s m) = is_toscan s. Proof. reflexivity. Qed.
Lemma is_inreq_upd_rules s m : is_inreq (upd_rules s m) = is_inreq s. Proof. reflexivity. Qed.
Lemma is_fininreq_upd_rules s m : is_fininreq (upd_rules s m) = is_fininreq s. Proof. reflexivity. Qed.
Lemma is_ready_upd_rules s m : is_ready (upd_rules s m) = is_ready s. Proof. reflexivity. Qed.
Lemma is_fintasks_upd_rules s m : is_fintasks (upd_rules s m) = is_fintasks s. Proof. reflexivity. Qed.
Lemma is_outstanding_upd_rules s m : is_outstanding (upd_rules s m) = is_outstanding s. Proof. reflexivity. Qed.
Lemma is_epoch_upd_rules s m : is_epoch (upd_rules s m) = is_epoch s. Proof. reflexivity. Qed.
Lemma is_usedb_upd_rules s m : is_usedb (upd_rules s m) = is_usedb s. Proof. reflexivity. Qed.
Lemma is_db_upd_rules s m : is_db (upd_rules s m) = is_db s. Proof. reflexivity. Qed.
Lemma is_db_epoch_upd_rules s m : is_db_epoch (upd_rules s m) = is_db_epoch s. Proof. reflexivity. Qed.
Lemma is_fault_upd_rules s m : is_fault (upd_rules s m) = is_fault s. Proof. reflexivity. Qed.
Lemma is_log_upd_rules s m : is_log (upd_rules s m) = is_log s. Proof. reflexivity. Qed.
Lemma is_rules_upd_tasks s m : is_rules (upd_tasks s m) = is_rules s. Proof. reflexivity. Qed.
Lemma is_tasks_upd_tasks s m : is_tasks (upd_tasks s m) = m. Proof. reflexivity. Qed.
Lemma is_toscan_upd_tasks s m : is_toscan (upd_tasks s m) = is_toscan s. Proof. reflexivity. Qed.
Lemma is_inreq_upd_tasks s m : is_inreq (upd_tasks s m) = is_inreq s. Proof. reflexivity. Qed.
Lemma is_fininreq_upd_tasks s m : is_fininreq (upd_tasks s m) = is_fininreq s. Proof. reflexivity. Qed.
Lemma is_ready_upd_tasks s m : is_ready (upd_tasks s m) = is_ready s. Proof. reflexivity. Qed.
Lemma is_fintasks_upd_tasks s m : is_fintasks (upd_tasks s m) = is_fintasks s. Proof. reflexivity. Qed.
Lemma is_outstanding_upd_tasks s m : is_outstanding (upd_tasks s m) = is_outstanding s. Proof. reflexivity. Qed.
Lemma is_epoch_upd_tasks s m : is_epoch (upd_tasks s m) = is_epoch s. Proof. reflexivity. Qed.
Lemma is_usedb_upd_tasks s m : is_usedb (upd_tasks s m) = is_usedb s. Proof. reflexivity. Qed.
Lemma is_db_upd_tasks s m : is_db (upd_tasks s m) = is_db s. Proof. reflexivity. Qed.
Lemma is_db_epoch_upd_tasks s m : is_db_epoch (upd_tasks s m) = is_db_epoch s. Proof. reflexivity. Qed.
Lemma is_fault_upd_tasks s m : is_fault (upd_tasks s m) = is_fault s. Proof. reflexivity. Qed.
Lemma is_log_upd_tasks s m : is_log (upd_tasks s m) = is_log s. Proof. reflexivity. Qed.
Lemma is_rules_upd_toscan s q : is_rules (upd_toscan s q) = is_rules s. Proof. reflexivity. Qed.
Lemma is_tasks_upd_toscan s q : is_tasks (upd_toscan s q) = is_tasks s. Proof. reflexivity. Qed.
Lemma is_toscan_upd_toscan s q : is_toscan (upd_toscan s q) = q. Proof. reflexivity. Qed.
Lemma is_inreq_upd_toscan s q : is_inreq (upd_toscan s q) = is_inreq s. Proof. reflexivity. Qed.
Lemma is_fininreq_upd_toscan s q : is_fininreq (upd_toscan s q) = is_fininreq s. Proof. reflexivity. Qed.
Lemma is_ready_upd_toscan s q : is_ready (upd_toscan s q) = is_ready s. Proof. reflexivity. Qed.
Lemma is_fintasks_upd_toscan s q : is_fintasks (upd_toscan s q) = is_fintasks s. Proof. reflexivity. Qed.
Lemma is_outstanding_upd_toscan s q : is_outstanding (upd_toscan s q) = is_outstanding s. Proof. reflexivity. Qed.
Lemma is_epoch_upd_toscan s q : is_epoch (upd_toscan s q) = is_epoch s. Proof. reflexivity. Qed.
Lemma is_usedb_upd_toscan s q : is_usedb (upd_toscan s q) = is_usedb s. Proof. reflexivity. Qed.
Lemma is_db_upd_toscan s q : is_db (upd_toscan s q) = is_db s. Proof. reflexivity. Qed.
Lemma is_db_epoch_upd_toscan s q : is_db_epoch (upd_toscan s q) = is_db_epoch s. Proof. reflexivity. Qed.
Lemma is_fault_upd_toscan s q : is_fault (upd_toscan s q) = is_fault s. Proof. reflexivity. Qed.
Lemma is_log_upd_toscan s q : is_log (upd_toscan s q) = is_log s. Proof. reflexivity. Qed.
Lemma is_rules_upd_inreq s q : is_rules (upd_inreq s q) = is_rules s. Proof. reflexivity. Qed.
Lemma is_tasks_upd_inreq s q : is_tasks (upd_inreq s q) = is_tasks s. Proof. reflexivity. Qed.
Lemma is_toscan_upd_inreq s q : is_toscan (upd_inreq s q) = is_toscan s. Proof. reflexivity. Qed.
Lemma is_inreq_upd_inreq s q : is_inreq (upd_inreq s q) = q. Proof. reflexivity. Qed.
Lemma is_fininreq_upd_inreq s q : is_fininreq (upd_inreq s q) = is_fininreq s. Proof. reflexivity. Qed.
Lemma is_ready_upd_inreq s q : is_ready (upd_inreq s q) = is_ready s. Proof. reflexivity. Qed.
Lemma is_fintasks_upd_inreq s q : is_fintasks (upd_inreq s q) = is_fintasks s. Proof. reflexivity. Qed.
Lemma is_outstanding_upd_inreq s q : is_outstanding (upd_inreq s q) = is_outstanding s. Proof. reflexivity. Qed.
Lemma is_epoch_upd_inreq s q : is_epoch (upd_inreq s q) = is_epoch s. Proof. reflexivity. Qed.
Lemma is_usedb_upd_inreq s q : is_usedb (upd_inreq s q) = is_usedb s. Proof. reflexivity. Qed.
Lemma is_db_upd_inreq s q : is_db (upd_inreq s q) = is_db s. Proof. reflexivity. Qed.
Lemma is_db_epoch_upd_inreq s q : is_db_epoch (upd_inreq s q) = is_db_epoch s. Proof. reflexivity. Qed.
Lemma is_fault_upd_inreq s q : is_fault (upd_inreq s q) = is_fault s. Proof. reflexivity. Qed.
Lemma is_log_upd_inreq s q : is_log (upd_inreq s q) = is_log s. Proof. reflexivity. Qed.
Lemma is_rules_upd_fininreq s q : is_rules (upd_fininreq s q) = is_rules s. Proof. reflexivity. Qed.
Lemma is_tasks_upd_fininreq s q : is_tasks (upd_fininreq s q) = is_tasks s. Proof. reflexivity. Qed.
Lemma is_toscan_upd_fininreq s q : is_toscan (upd_fininreq s q) = is_toscan s. Proof. reflexivity. Qed.
Lemma is_inreq_upd_fininreq s q : is_inreq (upd_fininreq s q) = is_inreq s. Proof. reflexivity. Qed.
Lemma is_fininreq_upd_fininreq s q : is_fininreq (upd_fininreq s q) = q. Proof. reflexivity. Qed.
Lemma is_ready_upd_fininreq s q : is_ready (upd_fininreq s q) = is_ready s. Proof. reflexivity. Qed.
Lemma is_fintasks_upd_fininreq s q : is_fintasks (upd_fininreq s q) = is_fintasks s. Proof. reflexivity. Qed.
Lemma is_outstanding_upd_fininreq s q : is_outstanding (upd_fininreq s q) = is_outstanding s. Proof. reflexivity. Qed.
Lemma is_epoch_upd_fininreq s q : is_epoch (upd_fininreq s q) = is_epoch s. Proof. reflexivity. Qed.
Lemma is_usedb_upd_fininreq s q : is_usedb (upd_fininreq s q) = is_usedb s. Proof. reflexivity. Qed.
Lemma is_db_upd_fininreq s q : is_db (upd_fininreq s q) = is_db s. Proof. reflexivity. Qed.
Lemma is_db_epoch_upd_fininreq s q : is_db_epoch (upd_fininreq s q) = is_db_epoch s. Proof. reflexivity. Qed.
Lemma is_fault_upd_fininreq s q : is_fault (upd_fininreq s q) = is_fault s. Proof. reflexivity. Qed.
Lemma is_log_upd_fininreq s q : is_log (upd_fininreq s q) = is_log s. Proof. reflexivity. Qed.
Lemma is_rules_upd_ready s q : is_rules (upd_ready s q) = is_rules s. Proof. reflexivity. Qed.
Lemma is_tasks_upd_ready s q : is_tasks (upd_ready s q) = is_tasks s. Proof. reflexivity. Qed.
Lemma is_toscan_upd_ready s q : is_toscan (upd_ready s q) = is_toscan s. Proof. reflexivity. Qed.
Lemma is_inreq_upd_ready s q : is_inreq (upd_ready s q) = is_inreq s. Proof. reflexivity. Qed.
Lemma is_fininreq_upd_ready s q : is_fininreq (upd_ready s q) = is_fininreq s. Proof. reflexivity. Qed.
Lemma is_ready_upd_ready s q : is_ready (upd_ready s q) = q. Proof. reflexivity. Qed.
Lemma is_fintasks_upd_ready s q : is_fintasks (upd_ready s q) = is_fintasks s. Proof. reflexivity. Qed.
Lemma is_outstanding_upd_ready s q : is_outstanding (upd_ready s q) = is_outstanding s. Proof. reflexivity. Qed.
Lemma is_epoch_upd_ready s q : is_epoch (upd_ready s q) = is_epoch s. Proof. reflexivity. Qed.
Lemma is_usedb_upd_ready s q : is_usedb (upd_ready s q) = is_usedb s. Proof. reflexivity. Qed.
Lemma is_db_upd_ready s q : is_db (upd_ready s q) = is_db s. Proof. reflexivity. Qed.
Lemma is_db_epoch_upd_ready s q : is_db_epoch (upd_ready s q) = is_db_epoch s. Proof. reflexivity. Qed.
Lemma is_fault_upd_ready s q : is_fault (upd_ready s q) = is_fault s. Proof. reflexivity. Qed.
Lemma is_log_upd_ready s q : is_log (upd_ready s q) = is_log s. Proof. reflexivity. Qed.
Lemma is_rules_upd_fintasks s q : is_rules (upd_fintasks s q) = is_rules s. Proof. reflexivity. Qed.
Lemma is_tasks_upd_fintasks s q : is_tasks (upd_fintasks s q) = is_tasks s. Proof. reflexivity. Qed.
Lemma is_toscan_upd_fintasks s q : is_toscan (upd_fintasks s q) = is_toscan s. Proof. reflexivity. Qed.
Lemma is_inreq_upd_fintasks s q : is_inreq (upd_fintasks s q) = is_inreq s. Proof. reflexivity. Qed.
Lemma is_fininreq_upd_fintasks s q : is_fininreq (upd_fintasks s q) = is_fininreq s. Proof. reflexivity. Qed.
Lemma is_ready_upd_fintasks s q : is_ready (upd_fintasks s q) = is_ready s. Proof. reflexivity. Qed.
Lemma is_fintasks_upd_fintasks s q : is_fintasks (upd_fintasks s q) = q. Proof. reflexivity. Qed.
Lemma is_outstanding_upd_fintasks s q : is_outstanding (upd_fintasks s q) = is_outstanding s. Proof. reflexivity. Qed.
Lemma is_epoch_upd_fintasks s q : is_epoch (upd_fintasks s q) = is_epoch s. Proof. reflexivity. Qed.
Lemma is_usedb_upd_fintasks s q : is_usedb (upd_fintasks s q) = is_usedb s. Proof. reflexivity. Qed.
Lemma is_db_upd_fintasks s q : is_db (upd_fintasks s q) = is_db s. Proof. reflexivity. Qed.
Lemma is_db_epoch_upd_fintasks s q : is_db_epoch (upd_fintasks s q) = is_db_epoch s. Proof. reflexivity. Qed.
Lemma is_fault_upd_fintasks s q : is_fault (upd_fintasks s q) = is_fault s. Proof. reflexivity. Qed.
Lemma is_log_upd_fintasks s q : is_log (upd_fintasks s q) = is_log s. Proof. reflexivity. Qed.
Lemma is_rules_upd_outstanding s n : is_rules (upd_outstanding s n) = is_rules s. Proof. reflexivity. Qed.
Lemma is_tasks_upd_outstanding s n : is_tasks (upd_outstanding s n) = is_tasks s. Proof. reflexivity. Qed.
Lemma is_toscan_upd_outstanding s n : is_toscan (upd_outstanding s n) = is_toscan s. Proof. reflexivity. Qed.
Lemma is_inreq_upd_outstanding s n : is_inreq (upd_outstanding s n) = is_inreq s. Proof. reflexivity. Qed.
Lemma is_fininreq_upd_outstanding s n : is_fininreq (upd_outstanding s n) = is_fininreq s. Proof. reflexivity. Qed.
Lemma is_ready_upd_outstanding s n : is_ready (upd_outstanding s n) = is_ready s. Proof. reflexivity. Qed.
Lemma is_fintasks_upd_outstanding s n : is_fintasks (upd_outstanding s n) = is_fintasks s. Proof. reflexivity. Qed.
Lemma is_outstanding_upd_outstanding s n : is_outstanding (upd_outstanding s n) = n. Proof. reflexivity. Qed.
Lemma is_epoch_upd_outstanding s n : is_epoch (upd_outstanding s n) = is_epoch s. Proof. reflexivity. Qed.
Lemma is_usedb_upd_outstanding s n : is_usedb (upd_outstanding s n) = is_usedb s. Proof. reflexivity. Qed.
Lemma is_db_upd_outstanding s n : is_db (upd_outstanding s n) = is_db s. Proof. reflexivity. Qed.
Lemma is_db_epoch_upd_outstanding s n : is_db_epoch (upd_outstanding s n) = is_db_epoch s. Proof. reflexivity. Qed.
Lemma is_fault_upd_outstanding s n : is_fault (upd_outstanding s n) = is_fault s. Proof. reflexivity. Qed.
Lemma is_log_upd_outstanding s n : is_log (upd_outstanding s n) = is_log s. Proof. reflexivity. Qed.
Lemma is_rules_upd_db s d : is_rules (upd_db s d) = is_rules s. Proof. reflexivity. Qed.
Lemma is_tasks_upd_db s d : is_tasks (upd_db s d) = is_tasks s. Proof. reflexivity. Qed.
Lemma is_toscan_upd_db s d : is_toscan (upd_db s d) = is_toscan s. Proof. reflexivity. Qed.
Lemma is_inreq_upd_db s d : is_inreq (upd_db s d) = is_inreq s. Proof. reflexivity. Qed.
Lemma is_fininreq_upd_db s d : is_fininreq (upd_db s d) = is_fininreq s. Proof. reflexivity. Qed.
Lemma is_ready_upd_db s d : is_ready (upd_db s d) = is_ready s. Proof. reflexivity. Qed.
Lemma is_fintasks_upd_db s d : is_fintasks (upd_db s d) = is_fintasks s. Proof. reflexivity. Qed.
Lemma is_outstanding_upd_db s d : is_outstanding (upd_db s d) = is_outstanding s. Proof. reflexivity. Qed.
Lemma is_epoch_upd_db s d : is_epoch (upd_db s d) = is_epoch s. Proof. reflexivity. Qed.
Lemma is_usedb_upd_db s d : is_usedb (upd_db s d) = is_usedb s. Proof. reflexivity. Qed.
Lemma is_db_upd_db s d : is_db (upd_db s d) = d. Proof. reflexivity. Qed.
Lemma is_db_epoch_upd_db s d : is_db_epoch (upd_db s d) = is_db_epoch s. Proof. reflexivity. Qed.
Lemma is_fault_upd_db s d : is_fault (upd_db s d) = is_fault s. Proof. reflexivity. Qed.
Lemma is_log_upd_db s d : is_log (upd_db s d) = is_log s. Proof. reflexivity. Qed.
Lemma is_rules_iemit s e : is_rules (iemit s e) = is_rules s. Proof. reflexivity. Qed.
Lemma is_tasks_iemit s e : is_tasks (iemit s e) = is_tasks s. Proof. reflexivity. Qed.
Lemma is_toscan_iemit s e : is_toscan (iemit s e) = is_toscan s. Proof. reflexivity. Qed.
Lemma is_inreq_iemit s e : is_inreq (iemit s e) = is_inreq s. Proof. reflexivity. Qed.
Lemma is_fininreq_iemit s e : is_fininreq (iemit s e) = is_fininreq s. Proof. reflexivity. Qed.
Lemma is_ready_iemit s e : is_ready (iemit s e) = is_ready s. Proof. reflexivity. Qed.
Lemma is_fintasks_iemit s e : is_fintasks (iemit s e) = is_fintasks s. Proof. reflexivity. Qed.
Lemma is_outstanding_iemit s e : is_outstanding (iemit s e) = is_outstanding s. Proof. reflexivity. Qed.
Lemma is_epoch_iemit s e : is_epoch (iemit s e) = is_epoch s. Proof. reflexivity. Qed.
Lemma is_usedb_iemit s e : is_usedb (iemit s e) = is_usedb s. Proof. reflexivity. Qed.
Lemma is_db_iemit s e : is_db (iemit s e) = is_db s. Proof. reflexivity. Qed.
Lemma is_db_epoch_iemit s e : is_db_epoch (iemit s e) = is_db_epoch s. Proof. reflexivity. Qed.
Lemma is_fault_iemit s e : is_fault (iemit s e) = is_fault s. Proof. reflexivity. Qed.
Lemma is_log_iemit s e : is_log (iemit s e) = e :: is_log s. Proof. reflexivity. Qed.
Lemma is_rules_fault s c : is_rules (fault s c) = is_rules s. Proof. reflexivity. Qed.
Lemma is_tasks_fault s c : is_tasks (fault s c) = is_tasks s. Proof. reflexivity. Qed.
Lemma is_toscan_fault s c : is_toscan (fault s c) = is_toscan s. Proof. reflexivity. Qed.
Lemma is_inreq_fault s c : is_inreq (fault s c) = is_inreq s. Proof. reflexivity. Qed.
Lemma is_fininreq_fault s c : is_fininreq (fault s c) = is_fininreq s. Proof. reflexivity. Qed.
Lemma is_ready_fault s c : is_ready (fault s c) = is_ready s. Proof. reflexivity. Qed.
Lemma is_fintasks_fault s c : is_fintasks (fault s c) = is_fintasks s. Proof. reflexivity. Qed.
Lemma is_outstanding_fault s c : is_outstanding (fault s c) = is_outstanding s. Proof. reflexivity. Qed.
Lemma is_epoch_fault s c : is_epoch (fault s c) = is_epoch s. Proof. reflexivity. Qed.
Lemma is_usedb_fault s c : is_usedb (fault s c) = is_usedb s. Proof. reflexivity. Qed.
Lemma is_db_fault s c : is_db (fault s c) = is_db s. Proof. reflexivity. Qed.
Lemma is_db_epoch_fault s c : is_db_epoch (fault s c) = is_db_epoch s. Proof. reflexivity. Qed.
Lemma is_fault_fault s c : is_fault (fault s c) = match is_fault s with Some c0 => Some c0 | None => Some c end. Proof. reflexivity. Qed.
Lemma is_log_fault s c : is_log (fault s c) = is_log s. Proof. reflexivity. Qed.
Lemma is_rules_set_ri s k ri : is_rules (set_ri s k ri) = aset (is_rules s) k ri. Proof. reflexivity. Qed.
Lemma is_tasks_set_ri s k ri : is_tasks (set_ri s k ri) = is_tasks s. Proof. reflexivity. Qed.
Lemma is_toscan_set_ri s k ri : is_toscan (set_ri s k ri) = is_toscan s. Proof. reflexivity. Qed.
Lemma is_inreq_set_ri s k ri : is_inreq (set_ri s k ri) = is_inreq s. Proof. reflexivity. Qed.
Lemma is_fininreq_set_ri s k ri : is_fininreq (set_ri s k ri) = is_fininreq s. Proof. reflexivity. Qed.
Lemma is_ready_set_ri s k ri : is_ready (set_ri s k ri) = is_ready s. Proof. reflexivity. Qed.
Lemma is_fintasks_set_ri s k ri : is_fintasks (set_ri s k ri) = is_fintasks s. Proof. reflexivity. Qed.
Lemma is_outstanding_set_ri s k ri : is_outstanding (set_ri s k ri) = is_outstanding s. Proof. reflexivity. Qed.
Lemma is_epoch_set_ri s k ri : is_epoch (set_ri s k ri) = is_epoch s. Proof. reflexivity. Qed.
Lemma is_usedb_set_ri s k ri : is_usedb (set_ri s k ri) = is_usedb s. Proof. reflexivity. Qed.
Lemma is_db_set_ri s k ri : is_db (set_ri s k ri) = is_db s. Proof. reflexivity. Qed.
Lemma is_db_epoch_set_ri s k ri : is_db_epoch (set_ri s k ri) = is_db_epoch s. Proof. reflexivity. Qed.
Lemma is_fault_set_ri s k ri : is_fault (set_ri s k ri) = is_fault s. Proof. reflexivity. Qed.
Lemma is_log_set_ri s k ri : is_log (set_ri s k ri) = is_log s. Proof. reflexivity. Qed.
Lemma is_rules_set_ti s k ti : is_rules (set_ti s k ti) = is_rules s. Proof. reflexivity. Qed.
Lemma is_tasks_set_ti s k ti : is_tasks (set_ti s k ti) = aset (is_tasks s) k ti. Proof. reflexivity. Qed.
Lemma is_toscan_set_ti s k ti : is_toscan (set_ti s k ti) = is_toscan s. Proof. reflexivity. Qed.
Lemma is_inreq_set_ti s k ti : is_inreq (set_ti s k ti) = is_inreq s. Proof. reflexivity. Qed.
Lemma is_fininreq_set_ti s k ti : is_fininreq (set_ti s k ti) = is_fininreq s. Proof. reflexivity. Qed.
Lemma is_ready_set_ti s k ti : is_ready (set_ti s k ti) = is_ready s. Proof. reflexivity. Qed.
Lemma is_fintasks_set_ti s k ti : is_fintasks (set_ti s k ti) = is_fintasks s. Proof. reflexivity. Qed.
Lemma is_outstanding_set_ti s k ti : is_outstanding (set_ti s k ti) = is_outstanding s. Proof. reflexivity. Qed.
Lemma is_epoch_set_ti s k ti : is_epoch (set_ti s k ti) = is_epoch s. Proof. reflexivity. Qed.
Lemma is_usedb_set_ti s k ti : is_usedb (set_ti s k ti) = is_usedb s. Proof. reflexivity. Qed.
Lemma is_db_set_ti s k ti : is_db (set_ti s k ti) = is_db s. Proof. reflexivity. Qed.
Lemma is_db_epoch_set_ti s k ti : is_db_epoch (set_ti s k ti) = is_db_epoch s. Proof. reflexivity. Qed.
Lemma is_fault_set_ti s k ti : is_fault (set_ti s k ti) = is_fault s. Proof. reflexivity. Qed.
Lemma is_log_set_ti s k ti : is_log (set_ti s k ti) = is_log s. Proof. reflexivity. Qed.
Lemma is_tasks_set_kind s k kd : is_tasks (set_kind s k kd) = is_tasks s. Proof. reflexivity. Qed.
Lemma is_toscan_set_kind s k kd : is_toscan (set_kind s k kd) = is_toscan s. Proof. reflexivity. Qed.
Lemma is_inreq_set_kind s k kd : is_inreq (set_kind s k kd) = is_inreq s. Proof. reflexivity. Qed.
Lemma is_fininreq_set_kind s k kd : is_fininreq (set_kind s k kd) = is_fininreq s. Proof. reflexivity. Qed.
Lemma is_ready_set_kind s k kd : is_ready (set_kind s k kd) = is_ready s. Proof. reflexivity. Qed.
Lemma is_fintasks_set_kind s k kd : is_fintasks (set_kind s k kd) = is_fintasks s. Proof. reflexivity. Qed.
Lemma is_outstanding_set_kind s k kd : is_outstanding (set_kind s k kd) = is_outstanding s. Proof. reflexivity. Qed.
Lemma is_epoch_set_kind s k kd : is_epoch (set_kind s k kd) = is_epoch s. Proof. reflexivity. Qed.
Lemma is_usedb_set_kind s k kd : is_usedb (set_kind s k kd) = is_usedb s. Proof. reflexivity. Qed.
Lemma is_db_set_kind s k kd : is_db (set_kind s k kd) = is_db s. Proof. reflexivity. Qed.
Lemma is_db_epoch_set_kind s k kd : is_db_epoch (set_kind s k kd) = is_db_epoch s. Proof. reflexivity. Qed.
Lemma is_fault_set_kind s k kd : is_fault (set_kind s k kd) = is_fault s. Proof. reflexivity. Qed.
Lemma is_log_set_kind s k kd : is_log (set_kind s k kd) = is_log s. Proof. reflexivity. Qed.
Lemma is_tasks_set_res s k r : is_tasks (set_res s k r) = is_tasks s. Proof. reflexivity. Qed.
Lemma is_toscan_set_res s k r : is_toscan (set_res s k r) = is_toscan s. Proof. reflexivity. Qed.
Lemma is_inreq_set_res s k r : is_inreq (set_res s k r) = is_inreq s. Proof. reflexivity. Qed.
Lemma is_fininreq_set_res s k r : is_fininreq (set_res s k r) = is_fininreq s. Proof. reflexivity. Qed.
Lemma is_ready_set_res s k r : is_ready (set_res s k r) = is_ready s. Proof. reflexivity. Qed.
Lemma is_fintasks_set_res s k r : is_fintasks (set_res s k r) = is_fintasks s. Proof. reflexivity. Qed.
Lemma is_outstanding_set_res s k r : is_outstanding (set_res s k r) = is_outstanding s. Proof. reflexivity. Qed.
Lemma is_epoch_set_res s k r : is_epoch (set_res s k r) = is_epoch s. Proof. reflexivity. Qed.
Lemma is_usedb_set_res s k r : is_usedb (set_res s k r) = is_usedb s. Proof. reflexivity. Qed.
Lemma is_db_set_res s k r : is_db (set_res s k r) = is_db s. Proof. reflexivity. Qed.
Lemma is_db_epoch_set_res s k r : is_db_epoch (set_res s k r) = is_db_epoch s. Proof. reflexivity. Qed.
Lemma is_fault_set_res s k r : is_fault (set_res s k r) = is_fault s. Proof. reflexivity. Qed.
Lemma is_log_set_res s k r : is_log (set_res s k r) = is_log s. Proof. reflexivity. Qed.
Lemma is_tasks_touch s k : is_tasks (touch s k) = is_tasks s. Proof. unfold touch; destruct (aget (is_rules s) k); reflexivity. Qed.
Lemma is_toscan_touch s k : is_toscan (touch s k) = is_toscan s. Proof. unfold touch; destruct (aget (is_rules s) k); reflexivity. Qed.
Lemma is_inreq_touch s k : is_inreq (touch s k) = is_inreq s. Proof. unfold touch; destruct (aget (is_rules s) k); reflexivity. Qed.
Lemma is_fininreq_touch s k : is_fininreq (touch s k) = is_fininreq s. Proof. unfold touch; destruct (aget (is_rules s) k); reflexivity. Qed.
Lemma is_ready_touch s k : is_ready (touch s k) = is_ready s. Proof. unfold touch; destruct (aget (is_rules s) k); reflexivity. Qed.
Lemma is_fintasks_touch s k : is_fintasks (touch s k) = is_fintasks s. Proof. unfold touch; destruct (aget (is_rules s) k); reflexivity. Qed.
Lemma is_outstanding_touch s k : is_outstanding (touch s k) = is_outstanding s. Proof. unfold touch; destruct (aget (is_rules s) k); reflexivity. Qed.
Lemma is_epoch_touch s k : is_epoch (touch s k) = is_epoch s. Proof. unfold touch; destruct (aget (is_rules s) k); reflexivity. Qed.
Lemma is_usedb_touch s k : is_usedb (touch s k) = is_usedb s. Proof. unfold touch; destruct (aget (is_rules s) k); reflexivity. Qed.
Lemma is_db_touch s k : is_db (touch s k) = is_db s. Proof. unfold touch; destruct (aget (is_rules s) k); reflexivity. Qed.
Lemma is_db_epoch_touch s k : is_db_epoch (touch s k) = is_db_epoch s. Proof. unfold touch; destruct (aget (is_rules s) k); reflexivity. Qed.
Lemma is_fault_touch s k : is_fault (touch s k) = is_fault s. Proof. unfold touch; destruct (aget (is_rules s) k); reflexivity. Qed.
Lemma is_log_touch s k : is_log (touch s k) = is_log s. Proof. unfold touch; destruct (aget (is_rules s) k); reflexivity. Qed.
Lemma is_tasks_mod_ri s k f : is_tasks (mod_ri s k f) = is_tasks s. Proof. reflexivity. Qed.
Lemma is_toscan_mod_ri s k f : is_toscan (mod_ri s k f) = is_toscan s. Proof. reflexivity. Qed.
Lemma is_inreq_mod_ri s k f : is_inreq (mod_ri s k f) = is_inreq s. Proof. reflexivity. Qed.
Lemma is_fininreq_mod_ri s k f : is_fininreq (mod_ri s k f) = is_fininreq s. Proof. reflexivity. Qed.
Lemma is_ready_mod_ri s k f : is_ready (mod_ri s k f) = is_ready s. Proof. reflexivity. Qed.
Lemma is_fintasks_mod_ri s k f : is_fintasks (mod_ri s k f) = is_fintasks s. Proof. reflexivity. Qed.
Lemma is_outstanding_mod_ri s k f : is_outstanding (mod_ri s k f) = is_outstanding s. Proof. reflexivity. Qed.
Lemma is_epoch_mod_ri s k f : is_epoch (mod_ri s k f) = is_epoch s. Proof. reflexivity. Qed.
Lemma is_usedb_mod_ri s k f : is_usedb (mod_ri s k f) = is_usedb s. Proof. reflexivity. Qed.
Lemma is_db_mod_ri s k f : is_db (mod_ri s k f) = is_db s. Proof. reflexivity. Qed.
Lemma is_db_epoch_mod_ri s k f : is_db_epoch (mod_ri s k f) = is_db_epoch s. Proof. reflexivity. Qed.
Lemma is_fault_mod_ri s k f : is_fault (mod_ri s k f) = is_fault s. Proof. reflexivity. Qed.
Lemma is_log_mod_ri s k f : is_log (mod_ri s k f) = is_log s. Proof. reflexivity. Qed.
Lemma is_rules_push_inreq s rq : is_rules (push_inreq s rq) = is_rules s. Proof. reflexivity. Qed.
Lemma is_tasks_push_inreq s rq : is_tasks (push_inreq s rq) = is_tasks s. Proof. reflexivity. Qed.
Lemma is_toscan_push_inreq s rq : is_toscan (push_inreq s rq) = is_toscan s. Proof. reflexivity. Qed.
Lemma is_inreq_push_inreq s rq : is_inreq (push_inreq s rq) = is_inreq s ++ [rq]. Proof. reflexivity. Qed.
Lemma is_fininreq_push_inreq s rq : is_fininreq (push_inreq s rq) = is_fininreq s. Proof. reflexivity. Qed.
Lemma is_ready_push_inreq s rq : is_ready (push_inreq s rq) = is_ready s. Proof. reflexivity. Qed.
Lemma is_fintasks_push_inreq s rq : is_fintasks (push_inreq s rq) = is_fintasks s. Proof. reflexivity. Qed.
Lemma is_outstanding_push_inreq s rq : is_outstanding (push_inreq s rq) = is_outstanding s. Proof. reflexivity. Qed.
Lemma is_epoch_push_inreq s rq : is_epoch (push_inreq s rq) = is_epoch s. Proof. reflexivity. Qed.
Lemma is_usedb_push_inreq s rq : is_usedb (push_inreq s rq) = is_usedb s. Proof. reflexivity. Qed.
Lemma is_db_push_inreq s rq : is_db (push_inreq s rq) = is_db s. Proof. reflexivity. Qed.
Lemma is_db_epoch_push_inreq s rq : is_db_epoch (push_inreq s rq) = is_db_epoch s. Proof. reflexivity. Qed.
Lemma is_fault_push_inreq s rq : is_fault (push_inreq s rq) = is_fault s. Proof. reflexivity. Qed.
Lemma is_log_push_inreq s rq : is_log (push_inreq s rq) = is_log s. Proof. reflexivity. Qed.
Lemma is_tasks_set_complete s k : is_tasks (set_complete s k) = is_tasks s. Proof. reflexivity. Qed.
Lemma is_toscan_set_complete s k : is_toscan (set_complete s k) = is_toscan s. Proof. reflexivity. Qed.
Lemma is_inreq_set_complete s k : is_inreq (set_complete s k) = is_inreq s. Proof. reflexivity. Qed.
Lemma is_fininreq_set_complete s k : is_fininreq (set_complete s k) = is_fininreq s. Proof. reflexivity. Qed.
Lemma is_ready_set_complete s k : is_ready (set_complete s k) = is_ready s. Proof. reflexivity. Qed.
Lemma is_fintasks_set_complete s k : is_fintasks (set_complete s k) = is_fintasks s. Proof. reflexivity. Qed.
Lemma is_outstanding_set_complete s k : is_outstanding (set_complete s k) = is_outstanding s. Proof. reflexivity. Qed.
Lemma is_epoch_set_complete s k : is_epoch (set_complete s k) = is_epoch s. Proof. reflexivity. Qed.
Lemma is_usedb_set_complete s k : is_usedb (set_complete s k) = is_usedb s. Proof. reflexivity. Qed.
Lemma is_db_set_complete s k : is_db (set_complete s k) = is_db s. Proof. reflexivity. Qed.
Lemma is_db_epoch_set_complete s k : is_db_epoch (set_complete s k) = is_db_epoch s. Proof. reflexivity. Qed.
Lemma is_fault_set_complete s k : is_fault (set_complete s k) = is_fault s. Proof. reflexivity. Qed.
Lemma is_log_set_complete s k : is_log (set_complete s k) = is_log s. Proof. reflexivity. Qed.
#[export] Hint Rewrite is_rules_upd_rules is_tasks_upd_rules is_toscan_upd_rules is_inreq_upd_rules is_fininreq_upd_rules is_ready_upd_rules is_fintasks_upd_rules is_outstanding_upd_rules is_epoch_upd_rules is_usedb_upd_rules is_db_upd_rules is_db_epoch_upd_rules is_fault_upd_rules is_log_upd_rules is_rules_upd_tasks is_tasks_upd_tasks is_toscan_upd_tasks is_inreq_upd_tasks is_fininreq_upd_tasks is_ready_upd_tasks is_fintasks_upd_tasks is_outstanding_upd_tasks is_epoch_upd_tasks is_usedb_upd_tasks is_db_upd_tasks is_db_epoch_upd_tasks is_fault_upd_tasks is_log_upd_tasks is_rules_upd_toscan is_tasks_upd_toscan is_toscan_upd_toscan is_inreq_upd_toscan is_fininreq_upd_toscan is_ready_upd_toscan is_fintasks_upd_toscan is_outstanding_upd_toscan is_epoch_upd_toscan is_usedb_upd_toscan is_db_upd_toscan is_db_epoch_upd_toscan is_fault_upd_toscan is_log_upd_toscan is_rules_upd_inreq is_tasks_upd_inreq is_toscan_upd_inreq is_inreq_upd_inreq is_fininreq_upd_inreq is_ready_upd_inreq is_fintasks_upd_inreq is_outstanding_upd_inreq is_epoch_upd_inreq is_usedb_upd_inreq is_db_upd_inreq is_db_epoch_upd_inreq is_fault_upd_inreq is_log_upd_inreq is_rules_upd_fininreq is_tasks_upd_fininreq is_toscan_upd_fininreq is_inreq_upd_fininreq is_fininreq_upd_fininreq is_ready_upd_fininreq is_fintasks_upd_fininreq is_outstanding_upd_fininreq is_epoch_upd_fininreq is_usedb_upd_fininreq is_db_upd_fininreq is_db_epoch_upd_fininreq is_fault_upd_fininreq is_log_upd_fininreq is_rules_upd_ready is_tasks_upd_ready is_toscan_upd_ready is_inreq_upd_ready is_fininreq_upd_ready is_ready_upd_ready is_fintasks_upd_ready is_outstanding_upd_ready is_epoch_upd_ready is_usedb_upd_ready is_db_upd_ready is_db_epoch_upd_ready is_fault_upd_ready is_log_upd_ready is_rules_upd_fintasks is_tasks_upd_fintasks is_toscan_upd_fintasks is_inreq_upd_fintasks is_fininreq_upd_fintasks is_ready_upd_fintasks is_fintasks_upd_fintasks is_outstanding_upd_fintasks is_epoch_upd_fintasks is_usedb_upd_fintasks is_db_upd_fintasks is_db_epoch_upd_fintasks is_fault_upd_fintasks is_log_upd_fintasks is_rules_upd_outstanding is_tasks_upd_outstanding is_toscan_upd_outstanding is_inreq_upd_outstanding is_fininreq_upd_outstanding is_ready_upd_outstanding is_fintasks_upd_outstanding is_outstanding_upd_outstanding is_epoch_upd_outstanding is_usedb_upd_outstanding is_db_upd_outstanding is_db_epoch_upd_outstanding is_fault_upd_outstanding is_log_upd_outstanding is_rules_upd_db is_tasks_upd_db is_toscan_upd_db is_inreq_upd_db is_fininreq_upd_db is_ready_upd_db is_fintasks_upd_db is_outstanding_upd_db is_epoch_upd_db is_usedb_upd_db is_db_upd_db is_db_epoch_upd_db is_fault_upd_db is_log_upd_db is_rules_iemit is_tasks_iemit is_toscan_iemit is_inreq_iemit is_fininreq_iemit is_ready_iemit is_fintasks_iemit is_outstanding_iemit is_epoch_iemit is_usedb_iemit is_db_iemit is_db_epoch_iemit is_fault_iemit is_log_iemit is_rules_fault is_tasks_fault is_toscan_fault is_inreq_fault is_fininreq_fault is_ready_fault is_fintasks_fault is_outstanding_fault is_epoch_fault is_usedb_fault is_db_fault is_db_epoch_fault is_fault_fault is_log_fault is_rules_set_ri is_tasks_set_ri is_toscan_set_ri is_inreq_set_ri is_fininreq_set_ri is_ready_set_ri is_fintasks_set_ri is_outstanding_set_ri is_epoch_set_ri is_usedb_set_ri is_db_set_ri is_db_epoch_set_ri is_fault_set_ri is_log_set_ri is_rules_set_ti is_tasks_set_ti is_toscan_set_ti is_inreq_set_ti is_fininreq_set_ti is_ready_set_ti is_fintasks_set_ti is_outstanding_set_ti is_epoch_set_ti is_usedb_set_ti is_db_set_ti is_db_epoch_set_ti is_fault_set_ti is_log_set_ti is_tasks_set_kind is_toscan_set_kind is_inreq_set_kind is_fininreq_set_kind is_ready_set_kind is_fintasks_set_kind is_outstanding_set_kind is_epoch_set_kind is_usedb_set_kind is_db_set_kind is_db_epoch_set_kind is_fault_set_kind is_log_set_kind is_tasks_set_res is_toscan_set_res is_inreq_set_res is_fininreq_set_res is_ready_set_res is_fintasks_set_res is_outstanding_set_res is_epoch_set_res is_usedb_set_res is_db_set_res is_db_epoch_set_res is_fault_set_res is_log_set_res is_tasks_touch is_toscan_touch is_inreq_touch is_fininreq_touch is_ready_touch is_fintasks_touch is_outstanding_touch is_epoch_touch is_usedb_touch is_db_touch is_db_epoch_touch is_fault_touch is_log_touch is_tasks_mod_ri is_toscan_mod_ri is_inreq_mod_ri is_fininreq_mod_ri is_ready_mod_ri is_fintasks_mod_ri is_outstanding_mod_ri is_epoch_mod_ri is_usedb_mod_ri is_db_mod_ri is_db_epoch_mod_ri is_fault_mod_ri is_log_mod_ri is_rules_push_inreq is_tasks_push_inreq is_toscan_push_inreq is_inreq_push_inreq is_fininreq_push_inreq is_ready_push_inreq is_fintasks_push_inreq is_outstanding_push_inreq is_epoch_push_inreq is_usedb_push_inreq is_db_push_inreq is_db_epoch_push_inreq is_fault_push_inreq is_log_push_inreq is_tasks_set_complete is_toscan_set_complete is_inreq_set_complete is_fininreq_set_complete is_ready_set_complete is_fintasks_set_complete is_outstanding_set_complete is_epoch_set_complete is_usedb_set_complete is_db_set_complete is_db_epoch_set_complete is_fault_set_complete is_log_set_complete : iv.

(* ---------- the rule record under the basic updates ---------- *)
Lemma rinfo_of_set_ri s k ri k' : rinfo_of (set_ri s k ri) k' = if N.eqb k' k then ri else rinfo_of s k'.
Proof. unfold rinfo_of, set_ri. cbn [is_rules is_usedb is_db upd_rules]. rewrite aget_aset. now destruct (N.eqb k' k). Qed.

Lemma rinfo_of_touch s k k' : rinfo_of (touch s k) k' = rinfo_of s k'.
Proof.
  unfold touch. destruct (aget (is_rules s) k) eqn:E; auto.
  unfold rinfo_of at 1. cbn [is_rules is_usedb is_db upd_rules]. rewrite aget_aset.
  destruct (N.eqb k' k) eqn:E2; auto. apply N.eqb_eq in E2. subst. reflexivity.
Qed.

Lemma rinfo_of_mod_ri s k f k' : rinfo_of (mod_ri s k f) k' = if N.eqb k' k then f (rinfo_of s k) else rinfo_of s k'.
Proof. unfold mod_ri. apply rinfo_of_set_ri. Qed.
Lemma rinfo_of_set_kind s k kd k' : rinfo_of (set_kind s k kd) k' = if N.eqb k' k then ri_with_kind kd (rinfo_of s k) else rinfo_of s k'.
Proof. apply rinfo_of_mod_ri. Qed.
Lemma rinfo_of_set_res s k r k' : rinfo_of (set_res s k r) k' = if N.eqb k' k then ri_with_res r (rinfo_of s k) else rinfo_of s k'.
Proof. apply rinfo_of_mod_ri. Qed.
Lemma rinfo_of_set_complete s k k' : rinfo_of (set_complete s k) k' = if N.eqb k' k then ri_complete (is_epoch s) (rinfo_of s k) else rinfo_of s k'.
Proof. apply rinfo_of_mod_ri. Qed.

Lemma rinfo_of_upd_tasks s m k : rinfo_of (upd_tasks s m) k = rinfo_of s k. Proof. reflexivity. Qed.
Lemma rinfo_of_upd_toscan s m k : rinfo_of (upd_toscan s m) k = rinfo_of s k. Proof. reflexivity. Qed.
Lemma rinfo_of_upd_inreq s m k : rinfo_of (upd_inreq s m) k = rinfo_of s k. Proof. reflexivity. Qed.
Lemma rinfo_of_upd_fininreq s m k : rinfo_of (upd_fininreq s m) k = rinfo_of s k. Proof. reflexivity. Qed.
Lemma rinfo_of_upd_ready s m k : rinfo_of (upd_ready s m) k = rinfo_of s k. Proof. reflexivity. Qed.
Lemma rinfo_of_upd_fintasks s m k : rinfo_of (upd_fintasks s m) k = rinfo_of s k. Proof. reflexivity. Qed.
Lemma rinfo_of_upd_outstanding s m k : rinfo_of (upd_outstanding s m) k = rinfo_of s k. Proof. reflexivity. Qed.
Lemma rinfo_of_iemit s e k : rinfo_of (iemit s e) k = rinfo_of s k. Proof. reflexivity. Qed.
Lemma rinfo_of_fault s c k : rinfo_of (fault s c) k = rinfo_of s k. Proof. reflexivity. Qed.
Lemma rinfo_of_set_ti s t ti k : rinfo_of (set_ti s t ti) k = rinfo_of s k. Proof. reflexivity. Qed.
Lemma rinfo_of_push_inreq s rq k : rinfo_of (push_inreq s rq) k = rinfo_of s k. Proof. reflexivity. Qed.
#[export] Hint Rewrite rinfo_of_set_ri rinfo_of_touch rinfo_of_mod_ri rinfo_of_set_kind rinfo_of_set_res rinfo_of_set_complete rinfo_of_upd_tasks rinfo_of_upd_toscan
  rinfo_of_upd_inreq rinfo_of_upd_fininreq rinfo_of_upd_ready rinfo_of_upd_fintasks rinfo_of_upd_outstanding rinfo_of_iemit
  rinfo_of_fault rinfo_of_set_ti rinfo_of_push_inreq : iv.

(* a database write is seen by rules that are not loaded yet: only their stored result changes *)
Lemma rinfo_of_upd_db_loaded s d k ri : aget (is_rules s) k = Some ri -> rinfo_of (upd_db s d) k = rinfo_of s k.
Proof. intros H. unfold rinfo_of. cbn [is_rules upd_db]. now rewrite H. Qed.
Lemma rinfo_kind_upd_db s d k : ri_kind (rinfo_of (upd_db s d) k) = ri_kind (rinfo_of s k).
Proof. unfold rinfo_of. cbn [is_rules upd_db]. now destruct (aget (is_rules s) k). Qed.
Lemma rinfo_paused_upd_db s d k : ri_paused (rinfo_of (upd_db s d) k) = ri_paused (rinfo_of s k).
Proof. unfold rinfo_of. cbn [is_rules upd_db]. now destruct (aget (is_rules s) k). Qed.
Lemma rinfo_deferred_upd_db s d k : ri_deferred (rinfo_of (upd_db s d) k) = ri_deferred (rinfo_of s k).
Proof. unfold rinfo_of. cbn [is_rules upd_db]. now destruct (aget (is_rules s) k). Qed.

Definition nf (s : istate) : Prop := is_fault s = None.
Lemma nf_fault s c : ~ nf (fault s c).
Proof. unfold nf, fault. cbn [is_fault]. destruct (is_fault s); discriminate. Qed.

(* ---------- check / mod_ti ---------- *)
Lemma check_true s c : check s true c = s. Proof. reflexivity. Qed.
Lemma nf_check s b c : nf (check s b c) -> nf s /\ b = true.
Proof. destruct b; cbn [check]; [auto|intros H; now apply nf_fault in H]. Qed.
Lemma mod_ti_some s t f ti : aget (is_tasks s) t = Some ti -> mod_ti s t f = set_ti s t (f ti).
Proof. unfold mod_ti. now intros ->. Qed.
Lemma nf_mod_ti s t f : nf (mod_ti s t f) -> nf s /\ exists ti, aget (is_tasks s) t = Some ti.
Proof.
  unfold mod_ti. destruct (aget (is_tasks s) t) as [ti|]; intros H.
  - split; [|eauto]. unfold nf in *. now autorewrite with iv in H.
  - now apply nf_fault in H.
Qed.
