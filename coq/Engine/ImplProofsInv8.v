(* P19 - part 12: the invariant under the processing of one finished task. *)
From LLB Require Import Engine.Rules Engine.Spec Engine.Impl Engine.ImplProofs Engine.ImplProofsSticky Engine.ImplProofsInv Engine.ImplProofsInv2
  Engine.ImplProofsInv3 Engine.ImplProofsInv4 Engine.ImplProofsInv5 Engine.ImplProofsInv6 Engine.ImplProofsInv7.
From Coq Require Import Arith Lia.
Local Open Scope N_scope.

Lemma cnt_i_zero_notin t l : cnt_i t l = 0%nat -> forall x, In x l -> iq_task x <> Some t.
Proof.
  induction l as [|y l IH]; [intros _ x []|]. rewrite cnt_i_cons. unfold for_task at 1. intros H x [Hx|Hx].
  - subst y. intros E. rewrite E, N.eqb_refl in H. lia.
  - apply IH; auto. lia.
Qed.

(* a task whose waitCount is 0 has no request anywhere *)
Lemma no_ireq_of s t l : (cnt_i t l + outstanding_count s t = 0)%nat -> NoDup (map fst (is_rules s)) -> NoDup (map fst (is_tasks s)) ->
  (forall x, In x l -> iq_task x <> Some t) /\ (forall x, In x (is_inreq s) -> iq_task x <> Some t) /\
  (forall k x, In x (ri_paused (rinfo_of s k)) -> iq_task x <> Some t) /\
  (forall t' ti x, aget (is_tasks s) t' = Some ti -> In x (ti_reqby ti) -> iq_task x <> Some t) /\
  (forall x, In x (is_fininreq s) -> iq_task x <> Some t).
Proof.
  unfold outstanding_count. intros H Hnr Hnt. repeat split.
  - apply cnt_i_zero_notin. lia.
  - apply cnt_i_zero_notin. lia.
  - intros k x Hin. destruct (aget (is_rules s) k) as [ri|] eqn:E.
    + rewrite (rinfo_of_some s k ri E) in Hin. apply aget_in in E.
      pose proof (asum_in_le (fun ri => cnt_i t (ri_paused ri)) (is_rules s) k ri E) as Hle. cbn beta in Hle.
      apply (cnt_i_zero_notin t (ri_paused ri)); auto. lia.
    + destruct (rinfo_of_none s k E) as [r Hr]. rewrite Hr in Hin. destruct Hin.
  - intros t' ti x Hg Hin. apply aget_in in Hg.
    pose proof (asum_in_le (fun ti => cnt_i t (ti_reqby ti)) (is_tasks s) t' ti Hg) as Hle. cbn beta in Hle.
    apply (cnt_i_zero_notin t (ti_reqby ti)); auto. lia.
  - apply cnt_i_zero_notin. lia.
Qed.

Lemma adel_none {A} (m : list (N * A)) k : aget m k = None -> adel m k = m.
Proof.
  induction m as [|[k1 a1] tl IH]; auto. cbn [aget adel]. destruct (N.eqb k k1); [discriminate|]. intros H. now rewrite IH.
Qed.

Lemma filter_adel_count {A} (p : N -> bool) (m : list (N * A)) k a : NoDup (map fst m) -> aget m k = Some a -> p k = true ->
  length (filter (fun e => p (fst e)) m) = S (length (filter (fun e => p (fst e)) (adel m k))).
Proof.
  induction m as [|[k0 a0] tl IH]; cbn [aget adel map fst]; [discriminate|]. intros Hnd Hg Hp. inversion Hnd as [|x l Hni Hnd']. subst x l.
  destruct (N.eqb k k0) eqn:E.
  - apply N.eqb_eq in E. subst k0. cbn [filter fst]. rewrite Hp. cbn [length]. f_equal.
    assert (Hno : aget tl k = None). { destruct (aget tl k) eqn:E2; auto. exfalso. apply Hni. apply aget_in in E2. change k with (fst (k, a1)). now apply in_map. }
    now rewrite (adel_none tl k Hno).
  - cbn [filter fst]. destruct (p k0); cbn [length]; rewrite (IH Hnd' Hg Hp); auto.
Qed.

Lemma filter_adel_other {A} (p q : N -> bool) (m : list (N * A)) k : (forall k', k' <> k -> q k' = p k') ->
  length (filter (fun e => q (fst e)) (adel m k)) = length (filter (fun e => p (fst e)) (adel m k)).
Proof.
  intros H. induction m as [|[k0 a0] tl IH]; auto. cbn [adel]. destruct (N.eqb k k0) eqn:E; auto.
  cbn [filter fst]. apply N.eqb_neq in E. rewrite (H k0); [|auto]. destruct (p k0); cbn [length]; now rewrite IH.
Qed.

Lemma n_computing_adel s s' t ti : NoDup (map fst (is_tasks s)) -> aget (is_tasks s) t = Some ti -> kind_of s t = KComputing ->
  is_tasks s' = adel (is_tasks s) t -> (forall k', k' <> t -> kind_of s' k' = kind_of s k') -> n_computing s = S (n_computing s').
Proof.
  intros Hnd Hg Hk Ht Hko. unfold n_computing. rewrite Ht.
  etransitivity; [apply (filter_adel_count (fun k => kind_eqb (kind_of s k) KComputing) (is_tasks s) t ti Hnd Hg); now rewrite Hk|].
  f_equal. symmetry. apply (filter_adel_other (fun k => kind_eqb (kind_of s k) KComputing) (fun k => kind_eqb (kind_of s' k) KComputing)).
  intros k' Hne. now rewrite (Hko k' Hne).
Qed.

(* What the state looks like after one finished task has been processed, in terms of the state before. *)
Record retired (s s' : istate) (t : key) (ti : tinfo) (rest : list key) (dummies : list ireq) : Prop := {
  rt_nd : NoDup (map fst (is_rules s'));
  rt_kind : forall k, kind_of s' k = if N.eqb k t then KComplete else kind_of s k;
  rt_paused : forall k, ri_paused (rinfo_of s' k) = ri_paused (rinfo_of s k);
  rt_deferred : forall k, ri_deferred (rinfo_of s' k) = ri_deferred (rinfo_of s k);
  rt_deps : forall k, kind_of s k = KScanning -> res_deps (res_of s' k) = res_deps (res_of s k);
  rt_sum_p : forall t0, asum (fun ri => cnt_i t0 (ri_paused ri)) (is_rules s') = asum (fun ri => cnt_i t0 (ri_paused ri)) (is_rules s);
  rt_sum_d : forall k, asum (fun ri => cnt_s k (ri_deferred ri)) (is_rules s') = asum (fun ri => cnt_s k (ri_deferred ri)) (is_rules s);
  rt_tasks : is_tasks s' = adel (is_tasks s) t;
  rt_toscan : is_toscan s' = rev (ti_deferred ti) ++ is_toscan s;
  rt_fininreq : is_fininreq s' = rev (ti_reqby ti) ++ is_fininreq s;
  rt_inreq : is_inreq s' = is_inreq s ++ dummies;
  rt_dummies : forall x, In x dummies -> iq_task x = None;
  rt_ready : is_ready s' = is_ready s;
  rt_fintasks : is_fintasks s = t :: rest /\ is_fintasks s' = rest;
  rt_out : is_outstanding s' = pred (is_outstanding s);
  rt_nf : nf s'
}.

Lemma InvT_retired c s s' t ti rest dummies : cx_slack c = 0%nat -> retired s s' t ti rest dummies ->
  aget (is_tasks s) t = Some ti -> kind_of s t = KComputing -> InvT c s -> InvT c s'.
Proof.
  intros Hsl R Hg Hk [A1 A2 A3 A4 A5 A6 A7 A8 A9 A10 A11]. destruct R. destruct rt_fintasks0 as [Hf1 Hf2].
  rewrite Hf1 in *. inversion A4 as [|x l Hnt Hnr]. subst x l.
  assert (Hag : forall t' x, aget (is_tasks s') t' = Some x -> t' <> t /\ aget (is_tasks s) t' = Some x).
  { intros t' x. rewrite rt_tasks0, aget_adel. destruct (N.eqb t' t) eqn:E; [discriminate|]. apply N.eqb_neq in E. auto. }
  assert (HKo : forall t', t' <> t -> kind_of s' t' = kind_of s t').
  { intros t' Hne. rewrite rt_kind0. apply N.eqb_neq in Hne. now rewrite Hne. }
  constructor.
  - exact rt_nd0.
  - rewrite rt_tasks0. now apply nodup_adel.
  - now rewrite rt_ready0.
  - now rewrite Hf2.
  - intros t'. unfold is_in_progress. rewrite rt_kind0, rt_tasks0, aget_adel. destruct (N.eqb t' t) eqn:E; [split; [intros H; now contradiction H|discriminate]|apply A5].
  - intros t' x Hx. destruct (Hag t' x Hx) as [Hne Hx']. rewrite (HKo t' Hne). now apply A6.
  - intros t' Hin. rewrite rt_ready0 in Hin. destruct (A7 t' Hin) as (x & Hx & Hkk & Hw).
    assert (Hne : t' <> t) by (intros E; subst; congruence).
    exists x. rewrite rt_tasks0, aget_adel, (HKo t' Hne). apply N.eqb_neq in Hne. rewrite Hne. auto.
  - intros t' x Hx. destruct (Hag t' x Hx) as [Hne Hx']. rewrite (HKo t' Hne), rt_ready0. now apply A8.
  - intros t' Hin. rewrite Hf2 in Hin. destruct (A9 t' (or_intror Hin)) as (x & Hx & Hkk & Hp).
    assert (Hne : t' <> t) by (intros E; subst; contradiction).
    exists x. rewrite rt_tasks0, aget_adel, (HKo t' Hne). apply N.eqb_neq in Hne. rewrite Hne. auto.
  - intros t' x Hx Hp. destruct (Hag t' x Hx) as [Hne Hx']. rewrite (HKo t' Hne), Hf2. destruct (A10 t' x Hx' Hp) as [H1 H2].
    split; auto. intros Hin. apply H2. now right.
  - rewrite rt_out0, Hsl. rewrite Hsl in A11. rewrite (n_computing_adel s s' t ti A2 Hg Hk rt_tasks0 HKo) in A11. lia.
Qed.

Lemma cnt_i_dummies t l : (forall x, In x l -> iq_task x = None) -> cnt_i t l = 0%nat.
Proof. intros H. apply cnt_i_zero_forall. intros rq Hin E. rewrite (H rq Hin) in E. discriminate. Qed.

Lemma InvI_retired rules c s s' t ti rest dummies : retired s s' t ti rest dummies ->
  aget (is_tasks s) t = Some ti -> kind_of s t = KComputing -> InvT c s -> InvI rules c s -> InvI rules c s'.
Proof.
  intros R Hg Hk HT [B1 B2 B3 B4 B5 B6 B7 B8 B9 B10]. destruct R.
  pose proof (t_nd_rules c s HT) as Hnr. pose proof (t_nd_tasks c s HT) as Hnt.
  (* the finished task has no request left *)
  assert (Hw0 : ti_wait ti = 0%nat) by (apply (t_cw c s HT t ti Hg Hk)).
  assert (Hz : (cnt_i t (cx_fi c) + outstanding_count s t = 0)%nat) by (rewrite <- (B1 t ti Hg); exact Hw0).
  destruct (no_ireq_of s t (cx_fi c) Hz Hnr Hnt) as (Z1 & Z2 & Z3 & Z4 & Z5).
  assert (Hag : forall t' x, aget (is_tasks s') t' = Some x -> t' <> t /\ aget (is_tasks s) t' = Some x).
  { intros t' x. rewrite rt_tasks0, aget_adel. destruct (N.eqb t' t) eqn:E; [discriminate|]. apply N.eqb_neq in E. auto. }
  assert (Hok : forall x, iq_task x <> Some t -> ireq_ok rules s x -> ireq_ok rules s' x).
  { intros x Hne H t' Ht'. destruct (H t' Ht') as [H1 H2]. split; auto. rewrite rt_tasks0, aget_adel.
    destruct (N.eqb t' t) eqn:E; auto. apply N.eqb_eq in E. subst t'. contradiction. }
  assert (HF : forall l, Forall (ireq_ok rules s) l -> (forall x, In x l -> iq_task x <> Some t) -> Forall (ireq_ok rules s') l).
  { intros l Hl Hne. rewrite Forall_forall in *. intros x Hx. apply Hok; auto. }
  constructor.
  - intros t' x Hx. destruct (Hag t' x Hx) as [Hne Hx']. rewrite (B1 t' x Hx'). unfold outstanding_count.
    rewrite rt_inreq0, rt_fininreq0, rt_sum_p0, rt_tasks0, !cnt_i_app, cnt_i_rev, (cnt_i_dummies t' dummies rt_dummies0).
    pose proof (asum_adel (fun ti => cnt_i t' (ti_reqby ti)) (is_tasks s) t Hnt) as Ha. rewrite Hg in Ha. lia.
  - apply HF; auto.
  - rewrite rt_inreq0. apply Forall_app. split; [apply HF; auto|].
    rewrite Forall_forall. intros x Hx t' Ht'. rewrite (rt_dummies0 x Hx) in Ht'. discriminate.
  - intros k. rewrite rt_paused0. apply HF; auto. intros x Hx. eapply Z3; eauto.
  - intros t' x Hx. destruct (Hag t' x Hx) as [Hne Hx']. apply HF; eauto.
  - rewrite rt_fininreq0. apply Forall_app. split; [|apply HF; auto].
    apply HF; [apply Forall_rev; eauto|]. intros x Hx. apply in_rev in Hx. eapply Z4; eauto.
  - intros k. rewrite rt_kind0, rt_paused0. destruct (N.eqb k t) eqn:E; [|apply B7].
    apply N.eqb_eq in E. subst k. intros _. apply B7. rewrite Hk. discriminate.
  - intros k x. rewrite rt_paused0. apply B8.
  - intros t' x y Hx. destruct (Hag t' x Hx) as [Hne Hx']. now apply B9.
  - intros x. rewrite rt_fininreq0. intros Hx. apply in_app_or in Hx. destruct Hx as [Hx|Hx]; [|now apply B10].
    apply in_rev in Hx. now apply (B9 t ti x Hg Hx).
Qed.

Lemma InvS_retired c s s' t ti rest dummies : retired s s' t ti rest dummies ->
  aget (is_tasks s) t = Some ti -> kind_of s t = KComputing -> InvT c s -> InvS c s -> InvS c s'.
Proof.
  intros R Hg Hk HT [C1 C2 C3 C4 C5 C6 C7 C8]. destruct R.
  pose proof (t_nd_tasks c s HT) as Hnt.
  assert (Hag : forall t' x, aget (is_tasks s') t' = Some x -> t' <> t /\ aget (is_tasks s) t' = Some x).
  { intros t' x. rewrite rt_tasks0, aget_adel. destruct (N.eqb t' t) eqn:E; [discriminate|]. apply N.eqb_neq in E. auto. }
  assert (Hok : forall x, sreq_ok s x -> sreq_ok s' x).
  { intros x (H1 & H2 & H3). unfold sreq_ok. rewrite rt_kind0, (rt_deps0 _ H1).
    destruct (N.eqb (sq_rule x) t) eqn:E; auto. apply N.eqb_eq in E. rewrite E in H1. congruence. }
  constructor.
  - intros k. rewrite rt_kind0. specialize (C1 k). unfold scan_count in *. rewrite rt_toscan0, rt_sum_d0, rt_tasks0, cnt_s_app, cnt_s_rev.
    pose proof (asum_adel (fun ti => cnt_s k (ti_deferred ti)) (is_tasks s) t Hnt) as Ha. rewrite Hg in Ha.
    destruct (N.eqb k t) eqn:E; [|lia]. apply N.eqb_eq in E. subst k. rewrite Hk in C1. cbn [kind_eqb] in *. lia.
  - eapply Forall_impl; [apply Hok|auto].
  - rewrite rt_toscan0. apply Forall_app. split; eapply Forall_impl; try apply Hok; auto. apply Forall_rev. eauto.
  - intros k. rewrite rt_deferred0. eapply Forall_impl; [apply Hok|auto].
  - intros t' x Hx. destruct (Hag t' x Hx) as [Hne Hx']. eapply Forall_impl; [apply Hok|eauto].
  - intros k. rewrite rt_kind0, rt_deferred0. destruct (N.eqb k t) eqn:E; [|apply C6].
    apply N.eqb_eq in E. subst k. intros _. apply C6. rewrite Hk. discriminate.
  - intros k x. rewrite rt_deferred0. apply C7.
  - intros t' x y Hx. destruct (Hag t' x Hx) as [Hne Hx']. now apply C8.
Qed.

Lemma Inv_retired rules c s s' t ti rest dummies : cx_slack c = 0%nat -> retired s s' t ti rest dummies ->
  aget (is_tasks s) t = Some ti -> kind_of s t = KComputing -> Inv rules c s -> Inv rules c s'.
Proof.
  intros Hsl R Hg Hk (Hn & HT & HI & HS). split; [apply R|]. split; [eapply InvT_retired; eauto|].
  split; [eapply InvI_retired; eauto|eapply InvS_retired; eauto].
Qed.

(* ---------- finish_task produces such a state ---------- *)
Definition dummy_of (d : dep) : ireq := mkIReq None 0%nat (d_key d) (d_order d) (d_single d).
Definition loaded (s : istate) (k : key) : Prop := aget (is_rules s) k <> None.

Lemma loaded_set_ri s k ri k' : loaded s k' -> loaded (set_ri s k ri) k'.
Proof. unfold loaded. cbn [set_ri is_rules upd_rules]. rewrite aget_aset. now destruct (N.eqb k' k). Qed.
Lemma loaded_touch s k k' : loaded s k' -> loaded (touch s k) k'.
Proof. unfold touch. destruct (aget (is_rules s) k) eqn:E; auto. intros H. unfold loaded. cbn [is_rules upd_rules]. rewrite aget_aset. now destruct (N.eqb k' k). Qed.

Lemma push_dummies_views ds : forall s,
  (forall k, rinfo_of (push_dummies s ds) k = rinfo_of s k) /\
  (forall g : rinfo -> nat, (forall r, g (new_rinfo r) = 0%nat) -> asum g (is_rules (push_dummies s ds)) = asum g (is_rules s)) /\
  (NoDup (map fst (is_rules s)) -> NoDup (map fst (is_rules (push_dummies s ds)))) /\
  (forall k, loaded s k -> loaded (push_dummies s ds) k) /\
  is_inreq (push_dummies s ds) = is_inreq s ++ map dummy_of ds /\
  is_tasks (push_dummies s ds) = is_tasks s /\ is_toscan (push_dummies s ds) = is_toscan s /\ is_fininreq (push_dummies s ds) = is_fininreq s /\
  is_ready (push_dummies s ds) = is_ready s /\ is_fintasks (push_dummies s ds) = is_fintasks s /\ is_outstanding (push_dummies s ds) = is_outstanding s /\
  is_usedb (push_dummies s ds) = is_usedb s /\ is_db (push_dummies s ds) = is_db s /\ is_fault (push_dummies s ds) = is_fault s /\
  is_epoch (push_dummies s ds) = is_epoch s.
Proof.
  induction ds as [|d ds IH]; intros s; cbn [push_dummies map].
  - rewrite app_nil_r. repeat split; auto.
  - destruct (IH (push_inreq (touch s (d_key d)) (dummy_of d))) as (I1 & I2 & I3 & I4 & I5 & I6 & I7 & I8 & I9 & I10 & I11 & I12 & I13 & I14 & I15).
    fold (dummy_of d). repeat split.
    + intros k. rewrite I1. now autorewrite with iv.
    + intros g Hz. rewrite (I2 g Hz). autorewrite with iv. now apply asum_rules_touch.
    + intros Hnd. apply I3. autorewrite with iv. now apply nodup_rules_touch.
    + intros k Hl. apply I4. unfold loaded. autorewrite with iv. now apply loaded_touch.
    + rewrite I5. autorewrite with iv. now rewrite <- app_assoc.
    + rewrite I6. now autorewrite with iv.
    + rewrite I7. now autorewrite with iv.
    + rewrite I8. now autorewrite with iv.
    + rewrite I9. now autorewrite with iv.
    + rewrite I10. now autorewrite with iv.
    + rewrite I11. now autorewrite with iv.
    + rewrite I12. now autorewrite with iv.
    + rewrite I13. now autorewrite with iv.
    + rewrite I14. now autorewrite with iv.
    + rewrite I15. now autorewrite with iv.
Qed.

Lemma db_write_kind s t k : ri_kind (rinfo_of (db_write s t) k) = ri_kind (rinfo_of s k).
Proof. unfold db_write. destruct (is_usedb s); auto. apply rinfo_kind_upd_db. Qed.
Lemma db_write_paused s t k : ri_paused (rinfo_of (db_write s t) k) = ri_paused (rinfo_of s k).
Proof. unfold db_write. destruct (is_usedb s); auto. apply rinfo_paused_upd_db. Qed.
Lemma db_write_deferred s t k : ri_deferred (rinfo_of (db_write s t) k) = ri_deferred (rinfo_of s k).
Proof. unfold db_write. destruct (is_usedb s); auto. apply rinfo_deferred_upd_db. Qed.
Lemma db_write_loaded s t k : loaded s k -> rinfo_of (db_write s t) k = rinfo_of s k.
Proof.
  unfold db_write, loaded. destruct (is_usedb s); auto. destruct (aget (is_rules s) k) as [ri|] eqn:E; [|intros H; now contradiction H].
  intros _. eapply rinfo_of_upd_db_loaded; eauto.
Qed.
Lemma db_write_fields s t :
  is_rules (db_write s t) = is_rules s /\ is_tasks (db_write s t) = is_tasks s /\ is_toscan (db_write s t) = is_toscan s /\
  is_inreq (db_write s t) = is_inreq s /\ is_fininreq (db_write s t) = is_fininreq s /\ is_ready (db_write s t) = is_ready s /\
  is_fintasks (db_write s t) = is_fintasks s /\ is_outstanding (db_write s t) = is_outstanding s /\ is_fault (db_write s t) = is_fault s.
Proof. unfold db_write. destruct (is_usedb s); repeat split; reflexivity. Qed.

Lemma finish_task_retired s t rest ti : is_fintasks s = t :: rest -> aget (is_tasks s) t = Some ti -> kind_of s t = KComputing ->
  nf s -> NoDup (map fst (is_rules s)) -> (forall k, kind_of s k <> KScanning \/ k <> t) ->
  retired s (finish_task (upd_fintasks s rest) t) t ti rest (map dummy_of (ti_disc ti)).
Proof.
  intros Hq Hg Hk Hn Hnd _. unfold finish_task. change (aget (is_tasks (upd_fintasks s rest)) t) with (aget (is_tasks s) t). rewrite Hg. cbn zeta.
  change (kind_of (upd_fintasks s rest) t) with (kind_of s t). rewrite Hk. cbn [kind_eqb check].
  set (s0 := upd_fintasks s rest).
  set (s2 := mod_ri (set_complete s0 t) t (ri_append_deps (ti_disc ti))).
  destruct (push_dummies_views (ti_disc ti) s2) as (P1 & P2 & P3 & P4 & P5 & P6 & P7 & P8 & P9 & P10 & P11 & P12 & P13 & P14 & P15).
  set (s3 := push_dummies s2 (ti_disc ti)) in *.
  destruct (db_write_fields s3 t) as (D1 & D2 & D3 & D4 & D5 & D6 & D7 & D8 & D9).
  set (s4 := db_write s3 t) in *.
  assert (R2 : forall k, rinfo_of s2 k = if N.eqb k t then ri_append_deps (ti_disc ti) (ri_complete (is_epoch s) (rinfo_of s t)) else rinfo_of s k).
  { intros k. unfold s2, set_complete. autorewrite with iv. rewrite N.eqb_refl. destruct (N.eqb k t); reflexivity. }
  assert (Rfin : forall k, rinfo_of (retire_task (wake_task_waiters s4 ti) t) k = rinfo_of s4 k) by reflexivity.
  assert (A2 : forall g : rinfo -> nat, (forall r, g (new_rinfo r) = 0%nat) -> (forall f ri, g (ri_with_kind f ri) = g ri) -> (forall r ri, g (ri_with_res r ri) = g ri) ->
               asum g (is_rules s2) = asum g (is_rules s)).
  { intros g Hz Hg1 Hg2. unfold s2, set_complete.
    rewrite asum_rules_mod_ri_same; auto; [|unfold ri_append_deps; now rewrite Hg2].
    rewrite asum_rules_mod_ri_same; auto. unfold ri_complete. now rewrite Hg1, Hg2. }
  constructor.
  - change (is_rules (retire_task (wake_task_waiters s4 ti) t)) with (is_rules s4). rewrite D1. apply P3.
    unfold s2, set_complete. apply nodup_rules_set_ri, nodup_rules_set_ri. exact Hnd.
  - intros k. unfold kind_of. rewrite Rfin. unfold s4. rewrite db_write_kind, P1, R2. destruct (N.eqb k t); reflexivity.
  - intros k. rewrite Rfin. unfold s4. rewrite db_write_paused, P1, R2. destruct (N.eqb k t) eqn:E; auto. apply N.eqb_eq in E. now subst.
  - intros k. rewrite Rfin. unfold s4. rewrite db_write_deferred, P1, R2. destruct (N.eqb k t) eqn:E; auto. apply N.eqb_eq in E. now subst.
  - intros k Hks. unfold res_of. rewrite Rfin. unfold s4. rewrite db_write_loaded.
    + rewrite P1, R2. destruct (N.eqb k t) eqn:E; auto. apply N.eqb_eq in E. subst k. congruence.
    + apply P4. unfold s2, set_complete, mod_ri. apply loaded_set_ri, loaded_set_ri. destruct (scanning_loaded s k Hks) as (ri & Hri & _).
      unfold loaded. change (is_rules s0) with (is_rules s). congruence.
  - intros t0. change (is_rules (retire_task (wake_task_waiters s4 ti) t)) with (is_rules s4). rewrite D1, (P2 _ (fun _ => eq_refl)). apply A2; auto.
  - intros k. change (is_rules (retire_task (wake_task_waiters s4 ti) t)) with (is_rules s4). rewrite D1, (P2 _ (fun _ => eq_refl)). apply A2; auto.
  - unfold retire_task, wake_task_waiters. autorewrite with iv. rewrite D2, P6. reflexivity.
  - unfold retire_task, wake_task_waiters. autorewrite with iv. rewrite D3, P7. reflexivity.
  - unfold retire_task, wake_task_waiters. autorewrite with iv. rewrite D5, P8. reflexivity.
  - unfold retire_task, wake_task_waiters. autorewrite with iv. rewrite D4, P5. reflexivity.
  - intros x Hx. apply in_map_iff in Hx. destruct Hx as (d & <- & _). reflexivity.
  - unfold retire_task, wake_task_waiters. autorewrite with iv. rewrite D6, P9. reflexivity.
  - split; auto. unfold retire_task, wake_task_waiters. autorewrite with iv. rewrite D7, P10. reflexivity.
  - unfold retire_task, wake_task_waiters. autorewrite with iv. rewrite D8, P11. reflexivity.
  - unfold nf, retire_task, wake_task_waiters. autorewrite with iv. rewrite D9, P14. exact Hn.
Qed.
