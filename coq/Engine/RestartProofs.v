(* C03 - proofs of the restart simulation (definitions: Restart.v). *)
From LLB Require Import Engine.Rules Engine.Spec Engine.Exec Engine.SpecOnceFrame Engine.Restart.
From Coq Require Import List NArith Bool Lia Arith.
Local Open Scope N_scope.

(* ---------- why insertion points must have no pending rule edit ---------- *)

Definition ord_id (e k : N) (l : list dep) : list dep := l.

(* The literal statement "inserting ORestart true at any build boundary leaves the observed events unchanged" is
   false for Exec.hstep: a restart also activates pending rule edits.  (A fact about the history model - rule
   tables are per engine instance - not about the database.) *)
Lemma restart_with_pending_edit_refuted :
  exists ops ops',
    ops = [ORule 1 (mkRule 5 false [] [] [] None []); OBuild 1] /\
    ops' = [ORule 1 (mkRule 5 false [] [] [] None []); ORestart true; OBuild 1] /\
    observed (run_history mixF ord_id 10 ops) <> observed (run_history mixF ord_id 10 ops').
Proof.
  eexists. eexists. split; [reflexivity|]. split; [reflexivity|]. vm_compute. discriminate.
Qed.

(* ---------- small facts ---------- *)

Lemma drop_single_idem l : drop_single (drop_single l) = drop_single l.
Proof.
  unfold drop_single. induction l as [|d l IH]; [reflexivity|]. cbn [filter].
  destruct (negb (d_single d)) eqn:E; [cbn [filter]; rewrite E, IH; reflexivity | exact IH].
Qed.

Lemma rel_refl r : rel r r.
Proof. unfold rel. repeat split; try reflexivity; try lia; auto. Qed.

Lemma samelog_refl s1 s2 : samelog s1 s2 s1 s2.
Proof. exists []. split; reflexivity. Qed.

Lemma samelog_trans s1 s2 a b c d : samelog s1 s2 a b -> samelog a b c d -> samelog s1 s2 c d.
Proof.
  intros [l [H1 H2]] [l' [H3 H4]]. exists (l' ++ l). rewrite H3, H4, H1, H2, !app_assoc. split; reflexivity.
Qed.

Lemma samelog_emit s1 s2 a b e : samelog s1 s2 a b -> samelog s1 s2 (emit a e) (emit b e).
Proof. intros [l [H1 H2]]. exists (e :: l). cbn [emit st_log]. rewrite H1, H2. split; reflexivity. Qed.

Lemma samelog_new_log s1 s2 a b : samelog s1 s2 a b -> new_log s1 a = new_log s2 b.
Proof. intros [l [H1 H2]]. rewrite (new_log_intro _ _ _ H1), (new_log_intro _ _ _ H2). reflexivity. Qed.

Lemma osim_base s1 s2 a b o1 o2 : samelog s1 s2 a b -> osim a b o1 o2 -> osim s1 s2 o1 o2.
Proof.
  intros HL H. destruct o1 as [x|x p|], o2 as [y|y q|]; cbn [osim] in *; try exact H.
  - destruct H as [HR H]. split; [exact HR | eapply samelog_trans; eassumption].
  - destruct H as [Hp [HR H]]. split; [exact Hp|]. split; [exact HR | eapply samelog_trans; eassumption].
Qed.

(* ---------- R / Rb under the elementary state updates ---------- *)

Lemma done_emit s e k : done (emit s e) k <-> done s k.
Proof. unfold done. cbn [emit st_mem st_epoch]. tauto. Qed.

Lemma Rb_emit s1 s2 e1 e2 : Rb s1 s2 -> Rb (emit s1 e1) (emit s2 e2).
Proof. intros H. exact H. Qed.

Lemma bA_update_same m k r : bA (update m k r) k = res_builtAt r.
Proof. unfold bA. rewrite get_update_same. reflexivity. Qed.
Lemma bA_update_other m k x r : x <> k -> bA (update m k r) x = bA m x.
Proof. intros H. unfold bA. rewrite get_update_other by exact H. reflexivity. Qed.
Lemma cA_update_same m k r : cA (update m k r) k = res_computedAt r.
Proof. unfold cA. rewrite get_update_same. reflexivity. Qed.
Lemma cA_update_other m k x r : x <> k -> cA (update m k r) x = cA m x.
Proof. intros H. unfold cA. rewrite get_update_other by exact H. reflexivity. Qed.

(* the general update lemma: both sides store related results for k *)
Lemma Rb_set_mem s1 s2 k r1 r2 :
  Rb s1 s2 -> rel r1 r2 ->
  res_builtAt r1 <= st_epoch s1 ->
  (res_builtAt r1 = st_epoch s1 -> res_builtAt r2 = st_epoch s1) ->
  (res_computedAt r1 = cA (st_mem s1) k \/ res_computedAt r1 = st_epoch s1) ->
  (res_builtAt r2 = res_builtAt r1 \/
   (drop_single (res_deps r1) = drop_single (res_deps (get (st_mem s1) k)) /\
    res_builtAt r1 = bA (st_mem s1) k /\ res_builtAt r2 = bA (st_mem s2) k /\
    res_computedAt r1 = cA (st_mem s1) k)) ->
  Rb (set_mem s1 k r1) (set_mem s2 k r2).
Proof.
  intros [[Hdb [Hde [He [Hf1 [Hf2 [[Hrel Hgap] Hbd]]]]]] Hdone] Hr Hb Hd Hc Hown.
  assert (Hcnew : forall x, cA (update (st_mem s1) k r1) x = cA (st_mem s1) x \/
                            (x = k /\ cA (update (st_mem s1) k r1) x = st_epoch s1)).
  { intros x. destruct (N.eq_dec x k) as [->|Hx].
    - rewrite cA_update_same. destruct Hc as [Hc|Hc]; [left; exact Hc | right; split; [reflexivity | exact Hc]].
    - left. apply cA_update_other. exact Hx. }
  split.
  - unfold R. cbn [set_mem st_db st_db_epoch st_epoch st_flag st_mem].
    split; [exact Hdb|]. split; [exact Hde|]. split; [exact He|]. split; [exact Hf1|]. split; [exact Hf2|].
    split; [split|].
    + intros x. destruct (N.eq_dec x k) as [->|Hx].
      * rewrite !get_update_same. exact Hr.
      * rewrite !get_update_other by exact Hx. apply Hrel.
    + intros x d Hin Hord [G1 G2].
      destruct (N.eq_dec x k) as [->|Hx].
      * rewrite get_update_same in Hin. rewrite bA_update_same in G1, G2.
        destruct Hown as [Hown|[Hdeps [Hb1 [Hb2 Hc1]]]]; [lia|].
        rewrite Hdeps in Hin. apply (Hgap k d Hin Hord).
        destruct (Hcnew (d_key d)) as [E|[E1 E2]].
        -- rewrite E in G1, G2. lia.
        -- rewrite E1 in *. rewrite cA_update_same in G1, G2. lia.
      * rewrite get_update_other in Hin by exact Hx. rewrite bA_update_other in G1, G2 by exact Hx.
        destruct (Hcnew (d_key d)) as [E|[E1 E2]].
        -- rewrite E in G1, G2. apply (Hgap x d Hin Hord). lia.
        -- rewrite E2 in G1, G2. pose proof (Hbd x) as Hbx.
           assert (Hdx : done s1 x) by (unfold done; fold (bA (st_mem s1) x); lia).
           apply Hdone in Hdx. unfold done in Hdx. fold (bA (st_mem s2) x) in Hdx. lia.
    + intros x. destruct (N.eq_dec x k) as [->|Hx].
      * rewrite bA_update_same. exact Hb.
      * rewrite bA_update_other by exact Hx. apply Hbd.
  - intros x. unfold done. cbn [set_mem st_mem st_epoch]. destruct (N.eq_dec x k) as [->|Hx].
    + rewrite !get_update_same. rewrite <- He. exact Hd.
    + rewrite !get_update_other by exact Hx. apply Hdone.
Qed.
