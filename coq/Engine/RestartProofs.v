(* C03 - proofs of the restart simulation (definitions: Restart.v). *)
From LLB Require Import Engine.Rules Engine.Spec Engine.Exec Engine.SpecOnceFrame Engine.Restart.
From Coq Require Import List NArith Bool Lia Arith.
Local Open Scope N_scope.

(* ---------- why insertion points must have no pending rule edit ---------- *)

Definition ord_id (e k : N) (l : list dep) : list dep := l.

(* The literal statement "inserting ORestart true at any build boundary leaves the observed events unchanged" is
   false for Exec.hstep: a restart also activates pending rule edits.  (A fact about the history model - rule
   tables are per engine instance - not about the database.) *)
Lemma restart_with_pending_edit_refuted :
  exists ops ops',
    ops = [ORule 1 (mkRule 5 false [] [] [] None []); OBuild 1] /\
    ops' = [ORule 1 (mkRule 5 false [] [] [] None []); ORestart true; OBuild 1] /\
    observed (run_history mixF ord_id 10 ops) <> observed (run_history mixF ord_id 10 ops').
Proof.
  eexists. eexists. split; [reflexivity|]. split; [reflexivity|]. vm_compute. discriminate.
Qed.

(* ---------- small facts ---------- *)

Lemma drop_single_idem l : drop_single (drop_single l) = drop_single l.
Proof.
  unfold drop_single. induction l as [|d l IH]; [reflexivity|]. cbn [filter].
  destruct (negb (d_single d)) eqn:E; [cbn [filter]; rewrite E, IH; reflexivity | exact IH].
Qed.

Lemma rel_refl r : rel r r.
Proof. unfold rel. repeat split; try reflexivity; try lia; auto. Qed.

Lemma samelog_refl s1 s2 : samelog s1 s2 s1 s2.
Proof. exists []. split; reflexivity. Qed.

Lemma samelog_trans s1 s2 a b c d : samelog s1 s2 a b -> samelog a b c d -> samelog s1 s2 c d.
Proof.
  intros [l [H1 H2]] [l' [H3 H4]]. exists (l' ++ l). rewrite H3, H4, H1, H2, !app_assoc. split; reflexivity.
Qed.

Lemma samelog_emit s1 s2 a b e : samelog s1 s2 a b -> samelog s1 s2 (emit a e) (emit b e).
Proof. intros [l [H1 H2]]. exists (e :: l). cbn [emit st_log]. rewrite H1, H2. split; reflexivity. Qed.

Lemma samelog_new_log s1 s2 a b : samelog s1 s2 a b -> new_log s1 a = new_log s2 b.
Proof. intros [l [H1 H2]]. rewrite (new_log_intro _ _ _ H1), (new_log_intro _ _ _ H2). reflexivity. Qed.

Lemma osim_base s1 s2 a b o1 o2 : samelog s1 s2 a b -> osim a b o1 o2 -> osim s1 s2 o1 o2.
Proof.
  intros HL H. destruct o1 as [x|x p|], o2 as [y|y q|]; cbn [osim] in *; try exact H.
  - destruct H as [HR H]. split; [exact HR | eapply samelog_trans; eassumption].
  - destruct H as [Hp [HR H]]. split; [exact Hp|]. split; [exact HR | eapply samelog_trans; eassumption].
Qed.

(* ---------- R / Rb under the elementary state updates ---------- *)

Lemma done_emit s e k : done (emit s e) k <-> done s k.
Proof. unfold done. cbn [emit st_mem st_epoch]. tauto. Qed.

Lemma Rb_emit s1 s2 e1 e2 : Rb s1 s2 -> Rb (emit s1 e1) (emit s2 e2).
Proof. intros H. exact H. Qed.

Lemma bA_update_same m k r : bA (update m k r) k = res_builtAt r.
Proof. unfold bA. rewrite get_update_same. reflexivity. Qed.
Lemma bA_update_other m k x r : x <> k -> bA (update m k r) x = bA m x.
Proof. intros H. unfold bA. rewrite get_update_other by exact H. reflexivity. Qed.
Lemma cA_update_same m k r : cA (update m k r) k = res_computedAt r.
Proof. unfold cA. rewrite get_update_same. reflexivity. Qed.
Lemma cA_update_other m k x r : x <> k -> cA (update m k r) x = cA m x.
Proof. intros H. unfold cA. rewrite get_update_other by exact H. reflexivity. Qed.

(* the general update lemma: both sides store related results for k *)
Lemma Rb_set_mem s1 s2 k r1 r2 :
  Rb s1 s2 -> rel r1 r2 ->
  res_builtAt r1 <= st_epoch s1 ->
  (res_builtAt r1 = st_epoch s1 -> res_builtAt r2 = st_epoch s1) ->
  (res_computedAt r1 = cA (st_mem s1) k \/ res_computedAt r1 = st_epoch s1) ->
  (res_builtAt r2 = res_builtAt r1 \/
   (drop_single (res_deps r1) = drop_single (res_deps (get (st_mem s1) k)) /\
    res_builtAt r1 = bA (st_mem s1) k /\ res_builtAt r2 = bA (st_mem s2) k /\
    res_computedAt r1 = cA (st_mem s1) k)) ->
  Rb (set_mem s1 k r1) (set_mem s2 k r2).
Proof.
  intros [[Hdb [Hde [He [Hf1 [Hf2 [[Hrel Hgap] Hbd]]]]]] Hdone] Hr Hb Hd Hc Hown.
  assert (Hcnew : forall x, cA (update (st_mem s1) k r1) x = cA (st_mem s1) x \/
                            (x = k /\ cA (update (st_mem s1) k r1) x = st_epoch s1)).
  { intros x. destruct (N.eq_dec x k) as [->|Hx].
    - rewrite cA_update_same. destruct Hc as [Hc|Hc]; [left; exact Hc | right; split; [reflexivity | exact Hc]].
    - left. apply cA_update_other. exact Hx. }
  split.
  - unfold R. cbn [set_mem st_db st_db_epoch st_epoch st_flag st_mem].
    split; [exact Hdb|]. split; [exact Hde|]. split; [exact He|]. split; [exact Hf1|]. split; [exact Hf2|].
    split; [split|].
    + intros x. destruct (N.eq_dec x k) as [->|Hx].
      * rewrite !get_update_same. exact Hr.
      * rewrite !get_update_other by exact Hx. apply Hrel.
    + intros x d Hin Hord [G1 G2].
      destruct (N.eq_dec x k) as [->|Hx].
      * rewrite get_update_same in Hin. rewrite bA_update_same in G1, G2.
        destruct Hown as [Hown|[Hdeps [Hb1 [Hb2 Hc1]]]]; [lia|].
        rewrite Hdeps in Hin. apply (Hgap k d Hin Hord).
        destruct (Hcnew (d_key d)) as [E|[E1 E2]].
        -- rewrite E in G1, G2. lia.
        -- rewrite E1 in *. rewrite cA_update_same in G1, G2. lia.
      * rewrite get_update_other in Hin by exact Hx. rewrite bA_update_other in G1, G2 by exact Hx.
        destruct (Hcnew (d_key d)) as [E|[E1 E2]].
        -- rewrite E in G1, G2. apply (Hgap x d Hin Hord). lia.
        -- rewrite E2 in G1, G2. pose proof (Hbd x) as Hbx.
           assert (Hdx : done s1 x) by (unfold done; fold (bA (st_mem s1) x); lia).
           apply Hdone in Hdx. unfold done in Hdx. fold (bA (st_mem s2) x) in Hdx. lia.
    + intros x. destruct (N.eq_dec x k) as [->|Hx].
      * rewrite bA_update_same. exact Hb.
      * rewrite bA_update_other by exact Hx. apply Hbd.
  - intros x. unfold done. cbn [set_mem st_mem st_epoch]. destruct (N.eq_dec x k) as [->|Hx].
    + rewrite !get_update_same. rewrite <- He. exact Hd.
    + rewrite !get_update_other by exact Hx. apply Hdone.
Qed.

Lemma Rb_rel s1 s2 k : Rb s1 s2 -> rel (get (st_mem s1) k) (get (st_mem s2) k).
Proof. intros [[_ [_ [_ [_ [_ [[H _] _]]]]]] _]. apply H. Qed.

Lemma Rb_epoch s1 s2 : Rb s1 s2 -> st_epoch s1 = st_epoch s2.
Proof. intros [[_ [_ [H _]]] _]. exact H. Qed.

Lemma Rb_bound s1 s2 k : Rb s1 s2 -> res_builtAt (get (st_mem s1) k) <= st_epoch s1.
Proof. intros [[_ [_ [_ [_ [_ [_ H]]]]]] _]. apply H. Qed.

Lemma Rb_done_iff s1 s2 k : Rb s1 s2 -> (done s1 k <-> done s2 k).
Proof.
  intros H. split; [apply H|]. intros Hd. unfold done in *.
  pose proof (Rb_rel _ _ k H) as [_ [_ [_ [_ [Hle _]]]]]. pose proof (Rb_bound _ _ k H) as Hb.
  rewrite <- (Rb_epoch _ _ H) in Hd. lia.
Qed.

Lemma Rb_flagged1 s1 s2 k : Rb s1 s2 -> flagged s1 k = false.
Proof. intros [[_ [_ [_ [H _]]]] _]. unfold flagged. rewrite H. reflexivity. Qed.
Lemma Rb_flagged2 s1 s2 k : Rb s1 s2 -> flagged s2 k = false.
Proof. intros [[_ [_ [_ [_ [H _]]]]] _]. unfold flagged. rewrite H. reflexivity. Qed.

Lemma Rb_gap s1 s2 k d : Rb s1 s2 -> In d (drop_single (res_deps (get (st_mem s1) k))) -> d_order d = false ->
  ~ (bA (st_mem s2) k < cA (st_mem s1) (d_key d) /\ cA (st_mem s1) (d_key d) <= bA (st_mem s1) k).
Proof. intros [[_ [_ [_ [_ [_ [[_ H] _]]]]]] _]. apply H. Qed.

Lemma Rb_set_db s1 s2 k r : Rb s1 s2 -> Rb (set_db s1 k r) (set_db s2 k r).
Proof.
  intros [[Hdb [Hde [He [Hf1 [Hf2 [Hm Hbd]]]]]] Hdone]. split; [|exact Hdone].
  unfold R. cbn [set_db st_db st_db_epoch st_epoch st_flag st_mem]. rewrite Hdb.
  repeat (split; [assumption || reflexivity|]). exact Hbd.
Qed.

Lemma Rb_unflag s1 s2 k : Rb s1 s2 -> Rb (unflag s1 k) (unflag s2 k).
Proof.
  intros [[Hdb [Hde [He [Hf1 [Hf2 [Hm Hbd]]]]]] Hdone]. split; [|exact Hdone].
  unfold R. cbn [unflag st_db st_db_epoch st_epoch st_flag st_mem]. rewrite Hf1, Hf2. cbn [filter].
  repeat (split; [assumption || reflexivity|]). exact Hbd.
Qed.

Section Sim.
Variable rules : key -> rule.
Variable env : key -> N.
Variable F : key -> N -> list value -> list N -> N -> N.
Variable order : N -> key -> list dep -> list dep.

(* taskIsComplete on both sides: the same result is stored in memory and in the database *)
Lemma complete_sim s1 s2 k rl r1 r2 bk v :
  Rb s1 s2 -> rel r1 r2 -> res_computedAt r1 = cA (st_mem s1) k ->
  Rb (complete order s1 k rl r1 bk v) (complete order s2 k rl r2 bk v) /\
  samelog s1 s2 (complete order s1 k rl r1 bk v) (complete order s2 k rl r2 bk v).
Proof.
  intros HR Hr Hc1. pose proof (Rb_epoch _ _ HR) as He.
  destruct Hr as [Hv [Hs [Hc _]]].
  unfold complete. cbn [emit st_epoch]. rewrite <- He, <- Hv, <- Hc.
  set (r' := mkRes (Some v) (r_sig rl) _ (st_epoch s1) _).
  split.
  - apply Rb_set_db. apply Rb_set_mem.
    + apply Rb_unflag. apply (Rb_emit s1 s2 (EComplete k v) (EComplete k v)). exact HR.
    + apply rel_refl.
    + cbn. lia.
    + intros _. reflexivity.
    + subst r'. cbn [res_computedAt unflag emit st_mem st_epoch].
      destruct (match res_value r1 with Some old => negb (value_eqb old v) | None => true end);
        [right; reflexivity | left; exact Hc1].
    + left. reflexivity.
  - exists [EComplete k v]. split; reflexivity.
Qed.

(* ---------- one step, generically over the recursive call ---------- *)
Variable ens : list key -> state -> key -> outcome.
Hypothesis Hsim : forall stack s1 s2 k, Rb s1 s2 -> osim s1 s2 (ens stack s1 k) (ens stack s2 k).
Hypothesis Hfr : forall stack s k, frame stack s k (ens stack s k).

Lemma requests_sim ks : forall k stack slot s1 s2 acc, Rb s1 s2 ->
  osim s1 s2 (fst (requests ens k stack ks slot s1 acc)) (fst (requests ens k stack ks slot s2 acc)) /\
  snd (requests ens k stack ks slot s1 acc) = snd (requests ens k stack ks slot s2 acc).
Proof.
  induction ks as [|x ks IH]; intros k stack slot s1 s2 acc HR; cbn [requests].
  - cbn [fst snd osim]. split; [split; [exact HR | apply samelog_refl] | reflexivity].
  - pose proof (Hsim (k :: stack) s1 s2 x HR) as H.
    destruct (ens (k :: stack) s1 x) as [a|a p|], (ens (k :: stack) s2 x) as [b|b q|]; cbn [osim] in H;
      try contradiction; cbn [fst snd].
    + destruct H as [HR' HL]. pose proof (Rb_rel _ _ x HR') as [Hv _]. rewrite <- Hv.
      set (v := res_value (get (st_mem a) x)).
      destruct (IH k stack (S slot) (emit a (EProvide k slot x v)) (emit b (EProvide k slot x v)) (acc ++ [v])
                  (Rb_emit _ _ _ _ HR')) as [I1 I2].
      split; [|exact I2]. eapply osim_base; [|exact I1]. apply samelog_emit. exact HL.
    + split; [exact H | reflexivity].
    + split; [exact I | reflexivity].
Qed.

Lemma follows_sim ks : forall k stack s1 s2, Rb s1 s2 ->
  osim s1 s2 (follows ens k stack ks s1) (follows ens k stack ks s2).
Proof.
  induction ks as [|x ks IH]; intros k stack s1 s2 HR; cbn [follows].
  - cbn [osim]. split; [exact HR | apply samelog_refl].
  - pose proof (Hsim (k :: stack) s1 s2 x HR) as H.
    destruct (ens (k :: stack) s1 x) as [a|a p|], (ens (k :: stack) s2 x) as [b|b q|]; cbn [osim] in H;
      try contradiction.
    + destruct H as [HR' HL]. eapply osim_base; [exact HL|]. apply IH. exact HR'.
    + exact H.
    + exact I.
Qed.

(* a key on the stack keeps its memory entry across nested calls *)
Lemma requests_frozen k stack ks slot s acc a acc' :
  requests ens k stack ks slot s acc = (Ok a, acc') ->
  get (st_mem a) k = get (st_mem s) k /\ st_epoch a = st_epoch s.
Proof.
  intros H. apply requests_seg in H. apply (seg_frame ens Hfr) in H. destruct H as [H _]. cbn [frame_o] in H.
  split; [apply (fr_stack _ _ _ _ _ H); left; reflexivity | apply (fr_epoch _ _ _ _ _ H)].
Qed.

Lemma follows_frozen k stack ks s a :
  follows ens k stack ks s = Ok a ->
  get (st_mem a) k = get (st_mem s) k /\ st_epoch a = st_epoch s.
Proof.
  intros H. apply follows_seg in H. apply (seg_frame ens Hfr) in H. destruct H as [H _]. cbn [frame_o] in H.
  split; [apply (fr_stack _ _ _ _ _ H); left; reflexivity | apply (fr_epoch _ _ _ _ _ H)].
Qed.

Lemma run_pre_sim k r1 r2 s1 s2 : Rb s1 s2 -> rel r1 r2 ->
  Rb (run_pre rules k r1 s1) (run_pre rules k r2 s2) /\
  samelog s1 s2 (run_pre rules k r1 s1) (run_pre rules k r2 s2).
Proof.
  intros HR [Hv [Hs [_ [_ [Hle H0]]]]]. unfold run_pre. rewrite <- Hs, <- Hv.
  assert (E : N.eqb (res_builtAt r1) 0 = N.eqb (res_builtAt r2) 0).
  { destruct (N.eqb_spec (res_builtAt r1) 0) as [A|A], (N.eqb_spec (res_builtAt r2) 0) as [B|B]; try reflexivity; lia. }
  rewrite <- E.
  destruct (negb (N.eqb (res_builtAt r1) 0) && N.eqb (r_sig (rules k)) (res_sig r1)).
  - split; [exact HR|]. do 3 apply samelog_emit. apply samelog_refl.
  - split; [exact HR|]. do 2 apply samelog_emit. apply samelog_refl.
Qed.

Lemma run_pre_cA k r s x : cA (st_mem (run_pre rules k r s)) x = cA (st_mem s) x.
Proof. rewrite run_pre_mem. reflexivity. Qed.

Ltac stage S HL :=
  match type of S with
  | osim _ _ ?o1 ?o2 =>
    destruct o1 as [?a|?a ?p|], o2 as [?b|?b ?q|]; cbn [osim] in S; try contradiction;
    [ | eapply osim_base; [exact HL | exact S] | exact I]
  end.

Lemma run_sim k stack r1 r2 s1 s2 :
  Rb s1 s2 -> rel r1 r2 -> res_computedAt r1 = cA (st_mem s1) k ->
  osim s1 s2 (run rules env F order ens k stack r1 s1) (run rules env F order ens k stack r2 s2).
Proof.
  intros HR Hr Hc. unfold run. fold (run_pre rules k r1 s1). fold (run_pre rules k r2 s2).
  destruct (run_pre_sim k r1 r2 s1 s2 HR Hr) as [HR0 HL0].
  rewrite <- (run_pre_cA k r1 s1 k) in Hc.
  set (a0 := run_pre rules k r1 s1) in *. set (b0 := run_pre rules k r2 s2) in *.
  (* requested keys *)
  destruct (requests_sim (r_req (rules k)) k stack 0%nat a0 b0 [] HR0) as [S1 A1].
  destruct (requests ens k stack (r_req (rules k)) 0 a0 []) as [o1 slots1] eqn:E1.
  destruct (requests ens k stack (r_req (rules k)) 0 b0 []) as [o1' slots1'] eqn:E1'.
  cbn [fst snd] in S1, A1. subst slots1'. stage S1 HL0.
  destruct S1 as [HR1 HL1]. pose proof (samelog_trans _ _ _ _ _ _ HL0 HL1) as HL01.
  destruct (requests_frozen _ _ _ _ _ _ _ _ E1) as [F1 _].
  (* single-use keys *)
  destruct (requests_sim (r_single (rules k)) k stack (length slots1) a b [] HR1) as [S2 A2].
  destruct (requests ens k stack (r_single (rules k)) (length slots1) a []) as [o2 slots2] eqn:E2.
  destruct (requests ens k stack (r_single (rules k)) (length slots1) b []) as [o2' slots2'] eqn:E2'.
  cbn [fst snd] in S2, A2. subst slots2'. stage S2 HL01.
  destruct S2 as [HR2 HL2]. pose proof (samelog_trans _ _ _ _ _ _ HL01 HL2) as HL02.
  destruct (requests_frozen _ _ _ _ _ _ _ _ E2) as [F2 _].
  (* must-follow keys *)
  pose proof (follows_sim (r_follow (rules k)) k stack a1 b1 HR2) as S3.
  destruct (follows ens k stack (r_follow (rules k)) a1) as [a2|a2 p2|] eqn:E3;
    destruct (follows ens k stack (r_follow (rules k)) b1) as [b2|b2 q2|] eqn:E3'; cbn [osim] in S3; try contradiction;
    [ | eapply osim_base; [exact HL02 | exact S3] | exact I].
  destruct S3 as [HR3 HL3]. pose proof (samelog_trans _ _ _ _ _ _ HL02 HL3) as HL03.
  destruct (follows_frozen _ _ _ _ _ E3) as [F3 _].
  (* branch keys *)
  set (bk := branch_keys (rules k) slots1).
  destruct (requests_sim bk k stack (length slots1 + length slots2)%nat a2 b2 [] HR3) as [S4 A4].
  destruct (requests ens k stack bk (length slots1 + length slots2) a2 []) as [o4 slots3] eqn:E4.
  destruct (requests ens k stack bk (length slots1 + length slots2) b2 []) as [o4' slots3'] eqn:E4'.
  cbn [fst snd] in S4, A4. subst slots3'. stage S4 HL03.
  destruct S4 as [HR4 HL4]. pose proof (samelog_trans _ _ _ _ _ _ HL03 HL4) as HL04.
  destruct (requests_frozen _ _ _ _ _ _ _ _ E4) as [F4 _].
  (* completion, then the discovered dependencies *)
  assert (Hc4 : res_computedAt r1 = cA (st_mem (emit a3 (EAvail k))) k).
  { cbn [emit st_mem]. unfold cA in *. rewrite F4, F3, F2, F1. exact Hc. }
  destruct (complete_sim (emit a3 (EAvail k)) (emit b3 (EAvail k)) k (rules k) r1 r2 bk
              (task_value rules env F k (rules k) slots1 slots3)
              (Rb_emit _ _ _ _ HR4) Hr Hc4) as [HR5 HL5].
  eapply osim_base; [|apply follows_sim; exact HR5].
  eapply samelog_trans; [|exact HL5]. apply samelog_emit. exact HL04.
Qed.

Lemma ens_frozen k stack s x a : ens (k :: stack) s x = Ok a ->
  get (st_mem a) k = get (st_mem s) k /\ st_epoch a = st_epoch s.
Proof.
  intros E. destruct (Hfr (k :: stack) s x) as [H _]. rewrite E in H. cbn [frame_o] in H.
  split; [apply (fr_stack _ _ _ _ _ H); left; reflexivity | apply (fr_epoch _ _ _ _ _ H)].
Qed.

(* processRuleScanRequest on both sides *)
Lemma scan_sim ds : forall k stack r1 r2 s1 s2,
  Rb s1 s2 -> rel r1 r2 -> get (st_mem s1) k = r1 -> get (st_mem s2) k = r2 ->
  (forall d, In d ds -> In d (drop_single (res_deps r1))) ->
  osim s1 s2 (scan rules env F order ens k stack r1 ds s1) (scan rules env F order ens k stack r2 ds s2).
Proof.
  induction ds as [|d ds IH]; intros k stack r1 r2 s1 s2 HR Hr G1 G2 Hsub; cbn [scan].
  - cbn [osim]. split; [|exists []; split; reflexivity].
    pose proof (Rb_epoch _ _ HR) as He. destruct Hr as [Hv [Hs [Hc [Hd _]]]].
    apply Rb_set_mem; try exact HR; cbn [res_builtAt res_computedAt res_deps].
    + unfold rel. cbn. repeat split; try assumption; lia.
    + lia.
    + intros _. symmetry. exact He.
    + left. unfold cA. rewrite G1. reflexivity.
    + left. symmetry. exact He.
  - pose proof (Hsim (k :: stack) s1 s2 (d_key d) HR) as H.
    destruct (ens (k :: stack) s1 (d_key d)) as [a|a p|] eqn:E1;
      destruct (ens (k :: stack) s2 (d_key d)) as [b|b q|] eqn:E2; cbn [osim] in H; try contradiction;
      [ | exact H | exact I].
    destruct H as [HR' HL].
    destruct (ens_frozen _ _ _ _ _ E1) as [Fa _]. destruct (ens_frozen _ _ _ _ _ E2) as [Fb _].
    rewrite G1 in Fa. rewrite G2 in Fb.
    pose proof (Rb_rel _ _ (d_key d) HR') as [_ [_ [Hcd _]]]. rewrite <- Hcd.
    assert (Hcond : negb (d_order d) && (res_builtAt r2 <? res_computedAt (get (st_mem a) (d_key d))) =
                    negb (d_order d) && (res_builtAt r1 <? res_computedAt (get (st_mem a) (d_key d)))).
    { destruct (d_order d) eqn:Eo; [reflexivity|]. cbn [negb andb].
      destruct Hr as [_ [_ [_ [_ [Hle _]]]]].
      destruct (N.ltb_spec (res_builtAt r1) (res_computedAt (get (st_mem a) (d_key d)))) as [L|L];
        destruct (N.ltb_spec (res_builtAt r2) (res_computedAt (get (st_mem a) (d_key d)))) as [L'|L'];
        try reflexivity; try lia.
      exfalso. apply (Rb_gap a b k d HR'); [rewrite Fa; apply Hsub; left; reflexivity | exact Eo|].
      unfold bA, cA. rewrite Fa, Fb. split; assumption. }
    rewrite Hcond.
    destruct (negb (d_order d) && (res_builtAt r1 <? res_computedAt (get (st_mem a) (d_key d)))).
    + eapply osim_base; [apply samelog_emit; exact HL|].
      apply run_sim; [apply Rb_emit; exact HR' | exact Hr|].
      cbn [emit st_mem]. unfold cA. rewrite Fa. reflexivity.
    + eapply osim_base; [exact HL|]. apply IH; try assumption.
      intros d' Hd'. apply Hsub. right. exact Hd'.
Qed.

Lemma valid_rel k r1 r2 : res_value r1 = res_value r2 -> valid rules env k r1 = valid rules env k r2.
Proof. intros H. unfold valid. rewrite H. reflexivity. Qed.

Definition clean (r0 : result) : result :=
  mkRes (res_value r0) (res_sig r0) (res_computedAt r0) (res_builtAt r0) (drop_single (res_deps r0)).

Lemma clean_sim s1 s2 k : Rb s1 s2 ->
  Rb (set_mem s1 k (clean (get (st_mem s1) k))) (set_mem s2 k (clean (get (st_mem s2) k))) /\
  rel (clean (get (st_mem s1) k)) (clean (get (st_mem s2) k)).
Proof.
  intros HR. pose proof (Rb_rel _ _ k HR) as [Hv [Hs [Hc [Hd [Hle H0]]]]].
  assert (Hr : rel (clean (get (st_mem s1) k)) (clean (get (st_mem s2) k))).
  { unfold rel, clean. cbn. rewrite !drop_single_idem. repeat split; assumption. }
  split; [|exact Hr].
  apply Rb_set_mem; try assumption; cbn [clean res_builtAt res_computedAt res_deps].
  - apply (Rb_bound _ _ k HR).
  - intros E. pose proof (proj1 (Rb_done_iff _ _ k HR) E) as D. unfold done in D.
    rewrite (Rb_epoch _ _ HR). exact D.
  - left. reflexivity.
  - right. rewrite drop_single_idem. repeat split; reflexivity.
Qed.

Lemma ensure_body_sim stack s1 s2 k : Rb s1 s2 ->
  osim s1 s2 (ensure_body rules env F order ens stack s1 k) (ensure_body rules env F order ens stack s2 k).
Proof.
  intros HR. unfold ensure_body.
  destruct (existsb (N.eqb k) stack).
  { cbn [osim]. split; [reflexivity|]. split; [exact HR | apply samelog_refl]. }
  assert (Ed : N.eqb (res_builtAt (get (st_mem s1) k)) (st_epoch s1) =
               N.eqb (res_builtAt (get (st_mem s2) k)) (st_epoch s2)).
  { pose proof (Rb_done_iff _ _ k HR) as D. unfold done in D.
    destruct (N.eqb_spec (res_builtAt (get (st_mem s1) k)) (st_epoch s1)) as [A|A];
      destruct (N.eqb_spec (res_builtAt (get (st_mem s2) k)) (st_epoch s2)) as [B|B]; try reflexivity; tauto. }
  rewrite <- Ed. destruct (N.eqb (res_builtAt (get (st_mem s1) k)) (st_epoch s1)).
  { cbn [osim]. split; [exact HR | apply samelog_refl]. }
  fold (clean (get (st_mem s1) k)). fold (clean (get (st_mem s2) k)).
  destruct (clean_sim s1 s2 k HR) as [HR' Hr].
  set (r1 := clean (get (st_mem s1) k)) in *. set (r2 := clean (get (st_mem s2) k)) in *.
  set (a := set_mem s1 k r1) in *. set (b := set_mem s2 k r2) in *.
  assert (HL : samelog s1 s2 a b) by (exists []; split; reflexivity).
  assert (Hca : forall e, res_computedAt r1 = cA (st_mem (emit a e)) k).
  { intros e. cbn [emit st_mem]. subst a. cbn [set_mem st_mem]. rewrite cA_update_same. reflexivity. }
  pose proof Hr as [Hv [Hs [_ [Hdeps [Hle H0]]]]].
  assert (E0 : N.eqb (res_builtAt r1) 0 = N.eqb (res_builtAt r2) 0).
  { destruct (N.eqb_spec (res_builtAt r1) 0) as [A|A], (N.eqb_spec (res_builtAt r2) 0) as [B|B]; try reflexivity; lia. }
  rewrite <- E0. destruct (N.eqb (res_builtAt r1) 0).
  { eapply osim_base; [apply samelog_emit; exact HL|]. apply run_sim; [apply Rb_emit; exact HR' | exact Hr | apply Hca]. }
  rewrite (Rb_flagged1 _ _ k HR'), (Rb_flagged2 _ _ k HR'). rewrite <- Hs.
  destruct (negb (N.eqb (r_sig (rules k)) (res_sig r1))).
  { eapply osim_base; [apply samelog_emit; exact HL|]. apply run_sim; [apply Rb_emit; exact HR' | exact Hr | apply Hca]. }
  rewrite <- (valid_rel k r1 r2 Hv). destruct (negb (valid rules env k r1)).
  { eapply osim_base; [do 2 apply samelog_emit; exact HL|].
    apply run_sim; [do 2 apply Rb_emit; exact HR' | exact Hr | apply (Hca (EValid k false))]. }
  eapply osim_base; [apply samelog_emit; exact HL|].
  assert (Hd12 : res_deps r2 = res_deps r1).
  { unfold r1, r2, clean. cbn [res_deps]. destruct (Rb_rel _ _ k HR) as [_ [_ [_ [Hd0 _]]]]. symmetry. exact Hd0. }
  rewrite Hd12.
  apply scan_sim; [apply Rb_emit; exact HR' | exact Hr | | |].
  - cbn [emit st_mem]. subst a. cbn [set_mem st_mem]. apply get_update_same.
  - cbn [emit st_mem]. subst b. cbn [set_mem st_mem]. apply get_update_same.
  - intros d Hd. subst r1. cbn [clean res_deps] in *. rewrite drop_single_idem. exact Hd.
Qed.

End Sim.

(* ---------- lifted to ensure and build ---------- *)

Section Lift.
Variable rules : key -> rule.
Variable env : key -> N.
Variable F : key -> N -> list value -> list N -> N -> N.
Variable order : N -> key -> list dep -> list dep.

Theorem ensure_sim fuel : forall stack s1 s2 k, Rb s1 s2 ->
  osim s1 s2 (ensure rules env F order fuel stack s1 k) (ensure rules env F order fuel stack s2 k).
Proof.
  induction fuel as [|f IH]; intros stack s1 s2 k HR; cbn [ensure]; [exact I|].
  apply ensure_body_sim; [exact IH | apply ensure_frame | exact HR].
Qed.

(* the statement in the form of the task: same outcome, related final states, the same new events *)
Theorem ensure_simulation fuel stack s1 s2 k : Rb s1 s2 ->
  (forall s1', ensure rules env F order fuel stack s1 k = Ok s1' ->
     exists s2', ensure rules env F order fuel stack s2 k = Ok s2' /\ Rb s1' s2' /\ new_log s1 s1' = new_log s2 s2') /\
  (forall s1' p, ensure rules env F order fuel stack s1 k = Cycle s1' p ->
     exists s2', ensure rules env F order fuel stack s2 k = Cycle s2' p /\ Rb s1' s2' /\ new_log s1 s1' = new_log s2 s2') /\
  (ensure rules env F order fuel stack s1 k = OutOfFuel -> ensure rules env F order fuel stack s2 k = OutOfFuel).
Proof.
  intros HR. pose proof (ensure_sim fuel stack s1 s2 k HR) as H.
  destruct (ensure rules env F order fuel stack s1 k) as [a|a p|];
    destruct (ensure rules env F order fuel stack s2 k) as [b|b q|]; cbn [osim] in H; try contradiction.
  - destruct H as [HR' HL]. split; [|split]; [|intros ? ? E; discriminate | intros E; discriminate].
    intros s1' E. inversion E; subst. exists b. split; [reflexivity|]. split; [exact HR' | apply samelog_new_log; exact HL].
  - destruct H as [-> [HR' HL]]. split; [|split]; [intros ? E; discriminate | | intros E; discriminate].
    intros s1' p' E. inversion E; subst. exists b. split; [reflexivity|]. split; [exact HR' | apply samelog_new_log; exact HL].
  - split; [|split]; [intros ? E; discriminate | intros ? ? E; discriminate | reflexivity].
Qed.

Lemma R_bump s1 s2 : R s1 s2 -> Rb (bump_epoch s1) (bump_epoch s2).
Proof.
  intros [Hdb [Hde [He [Hf1 [Hf2 [Hm Hbd]]]]]]. split.
  - unfold R. cbn [bump_epoch st_db st_db_epoch st_epoch st_flag st_mem]. rewrite He.
    repeat (split; [assumption || reflexivity|]). intros k. specialize (Hbd k). lia.
  - intros k Hd. unfold done in Hd. cbn [bump_epoch st_mem st_epoch] in Hd. specialize (Hbd k). unfold bA in Hbd. lia.
Qed.

Lemma Rb_commit s1 s2 : Rb s1 s2 -> R (commit_epoch s1) (commit_epoch s2).
Proof.
  intros [[Hdb [Hde [He [Hf1 [Hf2 [Hm Hbd]]]]]] _].
  unfold R. cbn [commit_epoch st_db st_db_epoch st_epoch st_flag st_mem].
  repeat (split; [assumption || reflexivity|]). exact Hbd.
Qed.

Theorem build_sim fuel s1 s2 k : R s1 s2 ->
  osimR s1 s2 (build rules env F order fuel s1 k) (build rules env F order fuel s2 k).
Proof.
  intros HR. unfold build. pose proof (ensure_sim fuel [] _ _ k (R_bump _ _ HR)) as H.
  destruct (ensure rules env F order fuel [] (bump_epoch s1) k) as [a|a p|];
    destruct (ensure rules env F order fuel [] (bump_epoch s2) k) as [b|b q|]; cbn [osim] in H; try contradiction;
    cbn [osimR].
  - destruct H as [HR' HL]. split; [apply Rb_commit; exact HR' | exact HL].
  - destruct H as [Hp [HR' HL]]. split; [exact Hp|]. split; [apply Rb_commit; exact HR' | exact HL].
  - exact I.
Qed.

End Lift.

(* ---------- database consistency of one engine ---------- *)

Lemma DbIn_emit s e : DbIn s -> DbIn (emit s e).
Proof. intros H. exact H. Qed.

Lemma done_set_mem_other s k r x : x <> k -> (done (set_mem s k r) x <-> done s x).
Proof. intros H. unfold done. cbn [set_mem st_mem st_epoch]. rewrite get_update_other by exact H. tauto. Qed.

Lemma done_set_mem_same s k r : done (set_mem s k r) k <-> res_builtAt r = st_epoch s.
Proof. unfold done. cbn [set_mem st_mem st_epoch]. rewrite get_update_same. tauto. Qed.

(* a memory-only update of k (scanRule's cleaning, or marking k complete after a scan) *)
Lemma DbIn_set_mem s k r :
  DbIn s -> rel r (get (st_db s) k) -> res_builtAt r <= st_epoch s ->
  res_computedAt r = cA (st_mem s) k ->
  (forall d, In d (drop_single (res_deps r)) -> d_order d = false ->
     ~ (bA (st_db s) k < cA (st_mem s) (d_key d) /\ cA (st_mem s) (d_key d) <= res_builtAt r)) ->
  (res_builtAt r = st_epoch s -> bA (st_db s) k <> st_epoch s ->
     forall d, In d (drop_single (res_deps r)) -> done (set_mem s k r) (d_key d)) ->
  (done s k -> res_builtAt r = st_epoch s) ->
  DbIn (set_mem s k r).
Proof.
  intros [Hf [[Hrel Hgap] [Hbd Hsc]]] Hr Hb Hc Hown Hscan Hmono.
  assert (HcA : forall x, cA (update (st_mem s) k r) x = cA (st_mem s) x).
  { intros x. destruct (N.eq_dec x k) as [->|Hx]; [rewrite cA_update_same; exact Hc | apply cA_update_other; exact Hx]. }
  assert (Hdm : forall x, done s x -> done (set_mem s k r) x).
  { intros x Hd. destruct (N.eq_dec x k) as [->|Hx]; [apply done_set_mem_same, Hmono, Hd | apply done_set_mem_other; assumption]. }
  unfold DbIn. cbn [set_mem st_flag st_mem st_db st_epoch].
  split; [exact Hf|]. split; [split|]; [| |split].
  - intros x. destruct (N.eq_dec x k) as [->|Hx]; [rewrite get_update_same; exact Hr|].
    rewrite get_update_other by exact Hx. apply Hrel.
  - intros x d Hin Hord. rewrite HcA. destruct (N.eq_dec x k) as [->|Hx].
    + rewrite get_update_same in Hin. rewrite bA_update_same. apply Hown; assumption.
    + rewrite get_update_other in Hin by exact Hx. rewrite bA_update_other by exact Hx. apply Hgap; assumption.
  - intros x. destruct (N.eq_dec x k) as [->|Hx]; [rewrite bA_update_same; exact Hb|].
    rewrite bA_update_other by exact Hx. apply Hbd.
  - intros x d Hd Hdb Hin. cbn [set_mem st_db st_epoch] in Hdb. destruct (N.eq_dec x k) as [->|Hx].
    + apply done_set_mem_same in Hd. cbn [set_mem st_mem] in Hin. rewrite get_update_same in Hin.
      apply Hscan; assumption.
    + apply (done_set_mem_other s k r x Hx) in Hd. cbn [set_mem st_mem] in Hin.
      rewrite get_update_other in Hin by exact Hx. apply Hdm. apply (Hsc x d Hd Hdb Hin).
Qed.

(* taskIsComplete: the same result goes to memory and to the database; computedAt of k may become the epoch *)
Lemma DbIn_complete order s k rl r bk v :
  DbIn s -> ~ done s k -> res_computedAt r = cA (st_mem s) k ->
  DbIn (complete order s k rl r bk v).
Proof.
  intros [Hf [[Hrel Hgap] [Hbd Hsc]]] Hnd Hc. unfold complete.
  set (r' := mkRes (Some v) (r_sig rl) _ (st_epoch (emit s (EComplete k v))) _).
  assert (Hb' : res_builtAt r' = st_epoch s) by reflexivity.
  assert (Hc' : res_computedAt r' = cA (st_mem s) k \/ res_computedAt r' = st_epoch s).
  { subst r'. cbn [res_computedAt emit st_epoch].
    destruct (match res_value r with Some old => negb (value_eqb old v) | None => true end);
      [right; reflexivity | left; exact Hc]. }
  clearbody r'.
  unfold DbIn, scanned_deps_done. cbn [set_db set_mem unflag emit st_flag st_mem st_db st_epoch].
  rewrite Hf. cbn [filter]. split; [reflexivity|]. split; [split|]; [| |split].
  - intros x. destruct (N.eq_dec x k) as [->|Hx]; [rewrite !get_update_same; apply rel_refl|].
    rewrite !get_update_other by exact Hx. apply Hrel.
  - intros x d Hin Hord [G1 G2]. destruct (N.eq_dec x k) as [->|Hx].
    + rewrite !bA_update_same in *. lia.
    + rewrite get_update_other in Hin by exact Hx. rewrite !bA_update_other in * by exact Hx.
      destruct (N.eq_dec (d_key d) k) as [Ek|Ek].
      * rewrite Ek in G1, G2. rewrite cA_update_same in G1, G2.
        destruct Hc' as [Hc'|Hc']; rewrite Hc' in G1, G2.
        -- apply (Hgap x d Hin Hord). rewrite Ek. lia.
        -- pose proof (Hbd x) as Hbx. assert (Hdx : done s x) by (unfold done; fold (bA (st_mem s) x); lia).
           apply Hnd. rewrite <- Ek. apply (Hsc x d Hdx); [lia | exact Hin].
      * rewrite cA_update_other in G1, G2 by exact Ek. apply (Hgap x d Hin Hord). lia.
  - intros x. destruct (N.eq_dec x k) as [->|Hx]; [rewrite bA_update_same; lia|].
    rewrite bA_update_other by exact Hx. apply Hbd.
  - intros x d Hd Hdb Hin. destruct (N.eq_dec x k) as [->|Hx].
    + exfalso. apply Hdb. rewrite bA_update_same. exact Hb'.
    + unfold done in Hd. cbn [set_db set_mem unflag emit st_mem st_epoch] in Hd. rewrite get_update_other in Hd by exact Hx.
      rewrite bA_update_other in Hdb by exact Hx. rewrite get_update_other in Hin by exact Hx.
      pose proof (Hsc x d Hd Hdb Hin) as Hdd. unfold done in *. cbn [set_db set_mem unflag emit st_mem st_epoch].
      destruct (N.eq_dec (d_key d) k) as [Ek|Ek]; [rewrite Ek, get_update_same; exact Hb'|].
      rewrite get_update_other by exact Ek. exact Hdd.
Qed.

Section Inv.
Variable rules : key -> rule.
Variable env : key -> N.
Variable F : key -> N -> list value -> list N -> N -> N.
Variable order : N -> key -> list dep -> list dep.
Variable ens : list key -> state -> key -> outcome.
Hypothesis Hinv : forall stack s k, DbIn s -> oinv DbIn (ens stack s k).
Hypothesis Hfr : forall stack s k, frame stack s k (ens stack s k).

Lemma seg_inv st ks s o : seg ens st ks s o -> DbIn s -> oinv DbIn o.
Proof.
  intros H. induction H as [s|ks s e o Hp H IH|ks s x s1 o Hc H IH|ks s x o Hc Hn]; intros HD.
  - exact HD.
  - apply IH. apply DbIn_emit. exact HD.
  - apply IH. pose proof (Hinv st s x HD) as H1. rewrite Hc in H1. exact H1.
  - rewrite <- Hc. apply Hinv. exact HD.
Qed.

Lemma run_pre_DbIn k r s : DbIn s -> DbIn (run_pre rules k r s).
Proof. intros H. unfold run_pre. destruct (_ && _); exact H. Qed.

Lemma run_inv k stack r s : DbIn s -> ~ done s k -> res_computedAt r = cA (st_mem s) k ->
  oinv DbIn (run rules env F order ens k stack r s).
Proof.
  intros HD Hnd Hc.
  destruct (run_cases rules env F order ens k stack r s _ eq_refl) as [[s4 [sl1 [sl3 [G1 G2]]]]|[_ [ks G]]].
  - pose proof (seg_inv _ _ _ _ G1 (run_pre_DbIn k r s HD)) as HD4. cbn [oinv] in HD4.
    destruct (seg_frame ens Hfr _ _ _ _ G1) as [Fr _]. cbn [frame_o] in Fr.
    pose proof (fr_stack _ _ _ _ _ Fr k (or_introl eq_refl)) as Fk. rewrite run_pre_mem in Fk.
    pose proof (fr_epoch _ _ _ _ _ Fr) as Fe. rewrite run_pre_epoch in Fe.
    eapply seg_inv; [exact G2|]. apply DbIn_complete.
    + apply DbIn_emit. exact HD4.
    + unfold done. cbn [emit st_mem st_epoch]. rewrite Fk, Fe. exact Hnd.
    + cbn [emit st_mem]. unfold cA. rewrite Fk. exact Hc.
  - eapply seg_inv; [exact G | apply run_pre_DbIn; exact HD].
Qed.

Lemma scan_inv ds : forall k stack r s pre,
  DbIn s -> get (st_mem s) k = r -> ~ done s k -> res_builtAt r <> 0 ->
  drop_single (res_deps r) = res_deps r -> res_deps r = pre ++ ds ->
  (forall d, In d pre -> done s (d_key d) /\ (d_order d = false -> cA (st_mem s) (d_key d) <= res_builtAt r)) ->
  oinv DbIn (scan rules env F order ens k stack r ds s).
Proof.
  induction ds as [|d ds IH]; intros k stack r s pre HD G Hnd Hb0 Hcl Hpre Hchk; cbn [scan].
  - cbn [oinv]. rewrite app_nil_r in Hpre. pose proof HD as [Hf [[Hrel Hgap] [Hbd Hsc]]].
    pose proof (Hrel k) as Hrk. rewrite G in Hrk. destruct Hrk as [Hv [Hs [Hc [Hdp [Hle H0]]]]].
    pose proof (Hbd k) as Hbk. unfold bA in Hbk. rewrite G in Hbk.
    apply DbIn_set_mem; try exact HD; cbn [res_builtAt res_computedAt res_deps].
    + unfold rel. cbn. repeat split; try assumption; [lia | intros E; exfalso; apply Hb0, H0, E].
    + lia.
    + unfold cA. rewrite G. reflexivity.
    + intros d Hin Hord [G1 G2]. rewrite Hcl, Hpre in Hin. destruct (Hchk d Hin) as [_ Hcd].
      specialize (Hcd Hord). apply (Hgap k d); [rewrite G, Hcl, Hpre; exact Hin | exact Hord|].
      unfold bA at 2. rewrite G. split; [exact G1 | exact Hcd].
    + intros _ _ d Hin. rewrite Hcl, Hpre in Hin. destruct (Hchk d Hin) as [Hdd _].
      destruct (N.eq_dec (d_key d) k) as [Ek|Ek]; [rewrite Ek; apply done_set_mem_same; reflexivity|].
      apply done_set_mem_other; assumption.
    + intros Hd. contradiction.
  - pose proof (Hinv (k :: stack) s (d_key d) HD) as H1. destruct (Hfr (k :: stack) s (d_key d)) as [Fr Fd].
    destruct (ens (k :: stack) s (d_key d)) as [s1|s1 p|] eqn:E; cbn [oinv] in H1; [|exact H1|exact I].
    cbn [frame_o] in Fr. pose proof (fr_stack _ _ _ _ _ Fr k (or_introl eq_refl)) as Fk.
    pose proof (fr_epoch _ _ _ _ _ Fr) as Fe. specialize (Fd s1 eq_refl).
    assert (Hnd1 : ~ done s1 k) by (unfold done; rewrite Fk, Fe; exact Hnd).
    assert (G1 : get (st_mem s1) k = r) by (rewrite Fk; exact G).
    destruct (negb (d_order d) && (res_builtAt r <? res_computedAt (get (st_mem s1) (d_key d)))) eqn:Ec.
    + apply run_inv; [apply DbIn_emit; exact H1 | exact Hnd1|].
      cbn [emit st_mem]. unfold cA. rewrite G1. reflexivity.
    + apply (IH k stack r s1 (pre ++ [d])); try assumption.
      * rewrite <- app_assoc. exact Hpre.
      * intros d' Hin. apply in_app_or in Hin. destruct Hin as [Hin|[<-|[]]].
        -- destruct (Hchk d' Hin) as [Hdd Hcd]. split; [eapply frame_done_mono; eassumption|].
           unfold cA. rewrite (fr_frozen _ _ _ _ _ Fr _ Hdd). exact Hcd.
        -- split; [exact Fd|]. intros Ho. rewrite Ho in Ec. cbn [negb andb] in Ec.
           apply N.ltb_ge in Ec. exact Ec.
Qed.

Lemma clean_DbIn s k : DbIn s -> ~ done s k -> DbIn (set_mem s k (clean (get (st_mem s) k))).
Proof.
  intros HD Hnd. pose proof HD as [Hf [[Hrel Hgap] [Hbd Hsc]]].
  destruct (Hrel k) as [Hv [Hs [Hc [Hdp [Hle H0]]]]].
  apply DbIn_set_mem; try exact HD; cbn [clean res_builtAt res_computedAt res_deps].
  - unfold rel, clean. cbn. rewrite drop_single_idem. repeat split; assumption.
  - apply Hbd.
  - reflexivity.
  - intros d Hin Hord. rewrite drop_single_idem in Hin. apply (Hgap k d Hin Hord).
  - intros E. contradiction.
  - intros Hd. contradiction.
Qed.

Lemma ensure_body_inv stack s k : DbIn s -> oinv DbIn (ensure_body rules env F order ens stack s k).
Proof.
  intros HD. unfold ensure_body.
  destruct (existsb (N.eqb k) stack); [exact HD|].
  destruct (N.eqb_spec (res_builtAt (get (st_mem s) k)) (st_epoch s)) as [Ed|Ed]; [exact HD|].
  fold (clean (get (st_mem s) k)). pose proof (clean_DbIn s k HD Ed) as HD'.
  set (r := clean (get (st_mem s) k)) in *. set (a := set_mem s k r) in *.
  assert (Hnd : forall e, ~ done (emit a e) k).
  { intros e Hd. apply done_emit in Hd. apply done_set_mem_same in Hd. apply Ed. exact Hd. }
  assert (Hnd2 : forall e e', ~ done (emit (emit a e) e') k).
  { intros e e' Hd. apply done_emit in Hd. exact (Hnd e Hd). }
  assert (Hca : forall e, res_computedAt r = cA (st_mem (emit a e)) k).
  { intros e. cbn [emit st_mem]. subst a. cbn [set_mem st_mem]. rewrite cA_update_same. reflexivity. }
  destruct (N.eqb_spec (res_builtAt r) 0) as [E0|E0].
  { apply run_inv; [apply DbIn_emit; exact HD' | apply Hnd | apply Hca]. }
  destruct (flagged a k).
  { apply run_inv; [apply DbIn_emit; exact HD' | apply Hnd | apply Hca]. }
  destruct (negb (N.eqb (r_sig (rules k)) (res_sig r))).
  { apply run_inv; [apply DbIn_emit; exact HD' | apply Hnd | apply Hca]. }
  destruct (negb (valid rules env k r)).
  { apply run_inv; [do 2 apply DbIn_emit; exact HD' | apply Hnd2 | apply (Hca (EValid k false))]. }
  apply (scan_inv (res_deps r) k stack r (emit a (EValid k true)) []).
  - apply DbIn_emit. exact HD'.
  - cbn [emit st_mem]. subst a. cbn [set_mem st_mem]. apply get_update_same.
  - apply Hnd.
  - exact E0.
  - subst r. cbn [clean res_deps]. apply drop_single_idem.
  - reflexivity.
  - intros d [].
Qed.

End Inv.

Section LiftInv.
Variable rules : key -> rule.
Variable env : key -> N.
Variable F : key -> N -> list value -> list N -> N -> N.
Variable order : N -> key -> list dep -> list dep.

Theorem ensure_inv fuel : forall stack s k, DbIn s -> oinv DbIn (ensure rules env F order fuel stack s k).
Proof.
  induction fuel as [|f IH]; intros stack s k HD; cbn [ensure]; [exact I|].
  apply ensure_body_inv; [exact IH | apply ensure_frame | exact HD].
Qed.

Lemma DbOk_bump s : DbOk s -> DbIn (bump_epoch s).
Proof.
  intros [He [Hf [Hm Hbd]]]. unfold DbIn, scanned_deps_done. cbn [bump_epoch st_flag st_mem st_db st_epoch].
  split; [exact Hf|]. split; [exact Hm|]. split; [intros k; specialize (Hbd k); lia|].
  intros k d Hd. unfold done in Hd. cbn [bump_epoch st_mem st_epoch] in Hd. specialize (Hbd k). unfold bA in Hbd. lia.
Qed.

Lemma DbIn_commit s : DbIn s -> DbOk (commit_epoch s).
Proof.
  intros [Hf [Hm [Hbd _]]]. unfold DbOk. cbn [commit_epoch st_epoch st_db_epoch st_flag st_mem st_db].
  split; [reflexivity|]. split; [exact Hf|]. split; [exact Hm | exact Hbd].
Qed.

(* DbOk is preserved by every build that returns *)
Theorem build_DbOk fuel s k : DbOk s -> oinv DbOk (build rules env F order fuel s k).
Proof.
  intros HD. unfold build. pose proof (ensure_inv fuel [] _ k (DbOk_bump s HD)) as H.
  destruct (ensure rules env F order fuel [] (bump_epoch s) k) as [a|a p|]; cbn [oinv] in *;
    [apply DbIn_commit; exact H | apply DbIn_commit; exact H | exact I].
Qed.

End LiftInv.

(* ---------- restarts ---------- *)

Lemma mem_rel_refl m : mem_rel m m.
Proof. split; [intros k; apply rel_refl|]. intros k d _ _ [G1 G2]. lia. Qed.

Theorem DbOk_init : DbOk init_state.
Proof.
  unfold DbOk, init_state. cbn [st_epoch st_db_epoch st_flag st_mem st_db].
  split; [reflexivity|]. split; [reflexivity|]. split; [apply mem_rel_refl|]. intros k. cbn. lia.
Qed.

Lemma DbOk_db_bound s k : DbOk s -> bA (st_db s) k <= st_db_epoch s.
Proof.
  intros [He [_ [[Hrel _] Hbd]]]. destruct (Hrel k) as [_ [_ [_ [_ [Hle _]]]]]. specialize (Hbd k).
  unfold bA in *. lia.
Qed.

Theorem DbOk_restart s : DbOk s -> DbOk (restart s).
Proof.
  intros HD. unfold DbOk, restart. cbn [st_epoch st_db_epoch st_flag st_mem st_db].
  split; [reflexivity|]. split; [reflexivity|]. split; [apply mem_rel_refl|].
  intros k. apply DbOk_db_bound. exact HD.
Qed.

Lemma DbOk_restart_nodb s : DbOk (restart_nodb s).
Proof. exact DbOk_init. Qed.

(* the engine restarted from the database simulates the long-lived one *)
Theorem restart_R s : DbOk s -> R s (restart s).
Proof.
  intros [He [Hf [Hm Hbd]]]. unfold R, restart. cbn [st_epoch st_db_epoch st_flag st_mem st_db].
  repeat (split; [assumption || reflexivity|]). exact Hbd.
Qed.

Lemma R_restart_right s1 s2 : R s1 s2 -> DbOk s1 -> R s1 (restart s2).
Proof.
  intros [Hdb [Hde [He [Hf1 [Hf2 [Hm Hbd]]]]]] [He1 [_ [Hm1 _]]].
  unfold R, restart. cbn [st_epoch st_db_epoch st_flag st_mem st_db]. rewrite <- Hdb, <- Hde.
  repeat (split; [assumption || reflexivity|]). exact Hbd.
Qed.

Lemma R_restart_both s1 s2 : R s1 s2 -> DbOk s1 -> R (restart s1) (restart s2).
Proof.
  intros [Hdb [Hde _]] HD. unfold R, restart. cbn [st_epoch st_db_epoch st_flag st_mem st_db]. rewrite <- Hdb, <- Hde.
  repeat (split; [reflexivity|]). split; [apply mem_rel_refl|]. intros k. apply DbOk_db_bound. exact HD.
Qed.

Lemma R_restart_nodb s1 s2 : R (restart_nodb s1) (restart_nodb s2).
Proof.
  unfold R, restart_nodb. cbn [st_epoch st_db_epoch st_flag st_mem st_db].
  repeat (split; [reflexivity|]). split; [apply mem_rel_refl|]. intros k. cbn. lia.
Qed.

Lemma R_result_of s1 s2 k : R s1 s2 -> result_of s1 k = result_of s2 k.
Proof. intros [_ [_ [_ [_ [_ [[H _] _]]]]]]. unfold result_of. apply H. Qed.

(* ---------- histories ---------- *)

Section Hist.
Variable F : key -> N -> list value -> list N -> N -> N.
Variable order : N -> key -> list dep -> list dep.
Variable fuel : nat.

Lemma filter_samelog s1 s2 a b : samelog s1 s2 a b ->
  filter not_restart (st_log s1) = filter not_restart (st_log s2) ->
  filter not_restart (st_log a) = filter not_restart (st_log b).
Proof. intros [l [H1 H2]] H. rewrite H1, H2, !filter_app, H. reflexivity. Qed.

Lemma step_build d a b k : Hrel d a b -> Hrel d (hstep F order fuel a (OBuild k)) (hstep F order fuel b (OBuild k)).
Proof.
  intros [HR [HD [Henv [Hrules [Hpend [Hdirty Hlog]]]]]]. cbn [hstep]. rewrite <- Henv, <- Hrules.
  set (rl := rules_of (h_rules a)). set (ev := env_of (h_env a)).
  set (a0 := emit (h_st a) (EBuildStart k)). set (b0 := emit (h_st b) (EBuildStart k)).
  assert (HR0 : R a0 b0) by exact HR. assert (HD0 : DbOk a0) by exact HD.
  assert (Hlog0 : filter not_restart (st_log a0) = filter not_restart (st_log b0)).
  { subst a0 b0. cbn [emit st_log filter not_restart]. rewrite Hlog. reflexivity. }
  pose proof (build_sim rl ev F order fuel a0 b0 k HR0) as HS.
  pose proof (build_DbOk rl ev F order fuel a0 k HD0) as HK.
  destruct (build rl ev F order fuel a0 k) as [a1|a1 p|]; destruct (build rl ev F order fuel b0 k) as [b1|b1 q|];
    cbn [osimR] in HS; try contradiction; cbn [oinv] in HK; unfold Hrel; cbn [h_st h_env h_rules h_pending].
  - destruct HS as [HR1 HL]. rewrite (R_result_of _ _ k HR1).
    split; [exact HR1|]. split; [exact HK|]. repeat (split; [assumption || reflexivity|]).
    cbn [emit st_log filter not_restart]. rewrite (filter_samelog _ _ _ _ HL Hlog0). reflexivity.
  - destruct HS as [-> [HR1 HL]].
    split; [exact HR1|]. split; [exact HK|]. repeat (split; [assumption || reflexivity|]).
    cbn [emit st_log filter not_restart]. rewrite (filter_samelog _ _ _ _ HL Hlog0). reflexivity.
  - split; [exact HR0|]. split; [exact HD0|]. repeat (split; [assumption || reflexivity|]).
    cbn [emit st_log filter not_restart]. rewrite Hlog0. reflexivity.
Qed.

Lemma step_restart d a b db : Hrel d a b ->
  Hrel false (hstep F order fuel a (ORestart db)) (hstep F order fuel b (ORestart db)).
Proof.
  intros [HR [HD [Henv [Hrules [Hpend [Hdirty Hlog]]]]]]. unfold Hrel. cbn [hstep h_st h_env h_rules h_pending].
  destruct db.
  - split; [exact (R_restart_both _ _ HR HD)|]. split; [exact (DbOk_restart _ HD)|].
    repeat (split; [assumption || reflexivity|]). cbn [emit restart st_log filter not_restart]. exact Hlog.
  - split; [exact (R_restart_nodb _ _)|]. split; [exact (DbOk_restart_nodb _)|].
    repeat (split; [assumption || reflexivity|]). cbn [emit restart_nodb st_log filter not_restart]. exact Hlog.
Qed.

Lemma step_extra_restart a b : Hrel false a b -> Hrel false a (hstep F order fuel b (ORestart true)).
Proof.
  intros [HR [HD [Henv [Hrules [Hpend [Hdirty Hlog]]]]]]. unfold Hrel. cbn [hstep h_st h_env h_rules h_pending].
  split; [exact (R_restart_right _ _ HR HD)|]. split; [exact HD|]. split; [exact Henv|].
  split; [rewrite <- Hpend; symmetry; apply Hdirty; reflexivity|]. split; [exact Hpend|]. split; [exact Hdirty|].
  cbn [emit restart st_log filter not_restart]. exact Hlog.
Qed.

Theorem ins_Hrel : forall d ops ops', ins d ops ops' -> forall a b, Hrel d a b ->
  exists d', Hrel d' (fold_left (hstep F order fuel) ops a) (fold_left (hstep F order fuel) ops' b).
Proof.
  intros d ops ops' H. induction H as [d|l l' H IH|d k n l l' H IH|d k r l l' H IH|d db l l' H IH|d k l l' H IH];
    intros a b HH; cbn [fold_left].
  - exists d. exact HH.
  - apply IH. apply step_extra_restart. exact HH.
  - apply IH. destruct HH as [HR [HD [Henv [Hrules [Hpend [Hdirty Hlog]]]]]]. unfold Hrel. cbn [hstep h_st h_env h_rules h_pending].
    rewrite Henv. repeat (split; [assumption || reflexivity|]). exact Hlog.
  - apply IH. destruct HH as [HR [HD [Henv [Hrules [Hpend [Hdirty Hlog]]]]]]. unfold Hrel. cbn [hstep h_st h_env h_rules h_pending].
    rewrite Hpend. repeat (split; [assumption || reflexivity|]). split; [discriminate | exact Hlog].
  - apply IH. eapply step_restart. exact HH.
  - apply IH. apply step_build. exact HH.
Qed.

Lemma Hrel_init : Hrel false init_h init_h.
Proof.
  unfold Hrel, init_h. cbn [h_st h_env h_rules h_pending].
  split; [|split; [exact DbOk_init|repeat (split; try reflexivity)]].
  unfold R, init_state. cbn [st_epoch st_db_epoch st_flag st_mem st_db].
  repeat (split; [reflexivity|]). split; [apply mem_rel_refl|]. intros k. cbn. lia.
Qed.

(* C03: restarts inserted at any positions without a pending rule edit are unobservable *)
Theorem restart_transparent ops ops' : ins false ops ops' ->
  observed (run_history F order fuel ops') = observed (run_history F order fuel ops).
Proof.
  intros H. destruct (ins_Hrel _ _ _ H _ _ Hrel_init) as [d' [_ [_ [_ [_ [_ [_ Hlog]]]]]]].
  unfold observed, run_history. rewrite Hlog. reflexivity.
Qed.

End Hist.

Lemma ins_refl ops : forall d, ins d ops ops.
Proof.
  induction ops as [|o ops IH]; intros d; [constructor|].
  destruct o; constructor; apply IH.
Qed.

(* every state a history reaches is database-consistent, hence simulated by its own restart *)
Theorem history_DbOk F order fuel ops : DbOk (h_st (run_history F order fuel ops)).
Proof.
  destruct (ins_Hrel F order fuel _ _ _ (ins_refl ops false) _ _ Hrel_init) as [d' [_ [HD _]]]. exact HD.
Qed.

Theorem history_restart_R F order fuel ops :
  R (h_st (run_history F order fuel ops)) (restart (h_st (run_history F order fuel ops))).
Proof. apply restart_R. apply history_DbOk. Qed.

(* ---------- non-vacuity ---------- *)

(* 1 requests 2 and single-use 3; 2 and 3 observe external state.  Build 1; build 1 again (validated by the scan
   without running: memory builtAt moves ahead of the database row, single-use entry dropped in memory only);
   change 2; build 1 (reruns because its input was rebuilt).  With restarts before the 2nd and 3rd build the
   observations are identical. *)
Definition ex_setup : list op :=
  [ORule 1 (mkRule 0 false [2] [3] [] None []); ORule 2 (mkRule 0 true [] [] [] None []);
   ORule 3 (mkRule 0 true [] [] [] None []); ORestart true].
Definition ex_ops : list op := ex_setup ++ [OBuild 1; OBuild 1; OSet 2 5; OBuild 1].
Definition ex_ops' : list op :=
  ex_setup ++ [OBuild 1; ORestart true; OBuild 1; OSet 2 5; ORestart true; OBuild 1; ORestart true].

Example ex_ins : ins false ex_ops ex_ops'.
Proof. unfold ex_ops, ex_ops', ex_setup. cbn [app]. repeat constructor. Qed.

Example ex_transparent :
  observed (run_history mixF ord_id 20 ex_ops') = observed (run_history mixF ord_id 20 ex_ops) /\
  In (EValid 1 true) (observed (run_history mixF ord_id 20 ex_ops)) /\
  In (ENeed 1 InputRebuilt (Some 2)) (observed (run_history mixF ord_id 20 ex_ops)) /\
  length (filter (fun e => match e with ECreate 1 => true | _ => false end)
                 (observed (run_history mixF ord_id 20 ex_ops))) = 2%nat.
Proof.
  split; [vm_compute; reflexivity|]. split; [vm_compute; tauto|]. split; [vm_compute; tauto|].
  vm_compute. reflexivity.
Qed.

(* the related states of the example really differ: after the second build the memory builtAt of rule 1 is 2
   while the database row still says 1, and memory has dropped the single-use dependency on 3 *)
Example ex_states_differ :
  let s := h_st (run_history mixF ord_id 20 (ex_setup ++ [OBuild 1; OBuild 1])) in
  bA (st_mem s) 1 = 2 /\ bA (st_db s) 1 = 1 /\
  length (res_deps (get (st_mem s) 1)) = 1%nat /\ length (res_deps (get (st_db s) 1)) = 2%nat /\
  R s (restart s).
Proof.
  cbv zeta. split; [vm_compute; reflexivity|]. split; [vm_compute; reflexivity|].
  split; [vm_compute; reflexivity|]. split; [vm_compute; reflexivity|]. apply history_restart_R.
Qed.
