(* C03 - proofs of the restart simulation (definitions: Restart.v). *)
From LLB Require Import Engine.Rules Engine.Spec Engine.Exec Engine.SpecOnceFrame Engine.Restart.
From Coq Require Import List NArith Bool Lia Arith.
Local Open Scope N_scope.

(* ---------- why insertion points must have no pending rule edit ---------- *)

Definition ord_id (e k : N) (l : list dep) : list dep := l.

(* The literal statement "inserting ORestart true at any build boundary leaves the observed events unchanged" is
   false for Exec.hstep: a restart also activates pending rule edits.  (A fact about the history model - rule
   tables are per engine instance - not about the database.) *)
Lemma restart_with_pending_edit_refuted :
  exists ops ops',
    ops = [ORule 1 (mkRule 5 false [] [] [] None []); OBuild 1] /\
    ops' = [ORule 1 (mkRule 5 false [] [] [] None []); ORestart true; OBuild 1] /\
    observed (run_history mixF ord_id 10 ops) <> observed (run_history mixF ord_id 10 ops').
Proof.
  eexists. eexists. split; [reflexivity|]. split; [reflexivity|]. vm_compute. discriminate.
Qed.

(* ---------- small facts ---------- *)

Lemma drop_single_idem l : drop_single (drop_single l) = drop_single l.
Proof.
  unfold drop_single. induction l as [|d l IH]; [reflexivity|]. cbn [filter].
  destruct (negb (d_single d)) eqn:E; [cbn [filter]; rewrite E, IH; reflexivity | exact IH].
Qed.

Lemma rel_refl r : rel r r.
Proof. unfold rel. repeat split; try reflexivity; try lia; auto. Qed.

Lemma samelog_refl s1 s2 : samelog s1 s2 s1 s2.
Proof. exists []. split; reflexivity. Qed.

Lemma samelog_trans s1 s2 a b c d : samelog s1 s2 a b -> samelog a b c d -> samelog s1 s2 c d.
Proof.
  intros [l [H1 H2]] [l' [H3 H4]]. exists (l' ++ l). rewrite H3, H4, H1, H2, !app_assoc. split; reflexivity.
Qed.

Lemma samelog_emit s1 s2 a b e : samelog s1 s2 a b -> samelog s1 s2 (emit a e) (emit b e).
Proof. intros [l [H1 H2]]. exists (e :: l). cbn [emit st_log]. rewrite H1, H2. split; reflexivity. Qed.

Lemma samelog_new_log s1 s2 a b : samelog s1 s2 a b -> new_log s1 a = new_log s2 b.
Proof. intros [l [H1 H2]]. rewrite (new_log_intro _ _ _ H1), (new_log_intro _ _ _ H2). reflexivity. Qed.

Lemma osim_base s1 s2 a b o1 o2 : samelog s1 s2 a b -> osim a b o1 o2 -> osim s1 s2 o1 o2.
Proof.
  intros HL H. destruct o1 as [x|x p|], o2 as [y|y q|]; cbn [osim] in *; try exact H.
  - destruct H as [HR H]. split; [exact HR | eapply samelog_trans; eassumption].
  - destruct H as [Hp [HR H]]. split; [exact Hp|]. split; [exact HR | eapply samelog_trans; eassumption].
Qed.

(* ---------- R / Rb under the elementary state updates ---------- *)

Lemma done_emit s e k : done (emit s e) k <-> done s k.
Proof. unfold done. cbn [emit st_mem st_epoch]. tauto. Qed.

Lemma Rb_emit s1 s2 e1 e2 : Rb s1 s2 -> Rb (emit s1 e1) (emit s2 e2).
Proof. intros H. exact H. Qed.

Lemma bA_update_same m k r : bA (update m k r) k = res_builtAt r.
Proof. unfold bA. rewrite get_update_same. reflexivity. Qed.
Lemma bA_update_other m k x r : x <> k -> bA (update m k r) x = bA m x.
Proof. intros H. unfold bA. rewrite get_update_other by exact H. reflexivity. Qed.
Lemma cA_update_same m k r : cA (update m k r) k = res_computedAt r.
Proof. unfold cA. rewrite get_update_same. reflexivity. Qed.
Lemma cA_update_other m k x r : x <> k -> cA (update m k r) x = cA m x.
Proof. intros H. unfold cA. rewrite get_update_other by exact H. reflexivity. Qed.

(* the general update lemma: both sides store related results for k *)
Lemma Rb_set_mem s1 s2 k r1 r2 :
  Rb s1 s2 -> rel r1 r2 ->
  res_builtAt r1 <= st_epoch s1 ->
  (res_builtAt r1 = st_epoch s1 -> res_builtAt r2 = st_epoch s1) ->
  (res_computedAt r1 = cA (st_mem s1) k \/ res_computedAt r1 = st_epoch s1) ->
  (res_builtAt r2 = res_builtAt r1 \/
   (drop_single (res_deps r1) = drop_single (res_deps (get (st_mem s1) k)) /\
    res_builtAt r1 = bA (st_mem s1) k /\ res_builtAt r2 = bA (st_mem s2) k /\
    res_computedAt r1 = cA (st_mem s1) k)) ->
  Rb (set_mem s1 k r1) (set_mem s2 k r2).
Proof.
  intros [[Hdb [Hde [He [Hf1 [Hf2 [[Hrel Hgap] Hbd]]]]]] Hdone] Hr Hb Hd Hc Hown.
  assert (Hcnew : forall x, cA (update (st_mem s1) k r1) x = cA (st_mem s1) x \/
                            (x = k /\ cA (update (st_mem s1) k r1) x = st_epoch s1)).
  { intros x. destruct (N.eq_dec x k) as [->|Hx].
    - rewrite cA_update_same. destruct Hc as [Hc|Hc]; [left; exact Hc | right; split; [reflexivity | exact Hc]].
    - left. apply cA_update_other. exact Hx. }
  split.
  - unfold R. cbn [set_mem st_db st_db_epoch st_epoch st_flag st_mem].
    split; [exact Hdb|]. split; [exact Hde|]. split; [exact He|]. split; [exact Hf1|]. split; [exact Hf2|].
    split; [split|].
    + intros x. destruct (N.eq_dec x k) as [->|Hx].
      * rewrite !get_update_same. exact Hr.
      * rewrite !get_update_other by exact Hx. apply Hrel.
    + intros x d Hin Hord [G1 G2].
      destruct (N.eq_dec x k) as [->|Hx].
      * rewrite get_update_same in Hin. rewrite bA_update_same in G1, G2.
        destruct Hown as [Hown|[Hdeps [Hb1 [Hb2 Hc1]]]]; [lia|].
        rewrite Hdeps in Hin. apply (Hgap k d Hin Hord).
        destruct (Hcnew (d_key d)) as [E|[E1 E2]].
        -- rewrite E in G1, G2. lia.
        -- rewrite E1 in *. rewrite cA_update_same in G1, G2. lia.
      * rewrite get_update_other in Hin by exact Hx. rewrite bA_update_other in G1, G2 by exact Hx.
        destruct (Hcnew (d_key d)) as [E|[E1 E2]].
        -- rewrite E in G1, G2. apply (Hgap x d Hin Hord). lia.
        -- rewrite E2 in G1, G2. pose proof (Hbd x) as Hbx.
           assert (Hdx : done s1 x) by (unfold done; fold (bA (st_mem s1) x); lia).
           apply Hdone in Hdx. unfold done in Hdx. fold (bA (st_mem s2) x) in Hdx. lia.
    + intros x. destruct (N.eq_dec x k) as [->|Hx].
      * rewrite bA_update_same. exact Hb.
      * rewrite bA_update_other by exact Hx. apply Hbd.
  - intros x. unfold done. cbn [set_mem st_mem st_epoch]. destruct (N.eq_dec x k) as [->|Hx].
    + rewrite !get_update_same. rewrite <- He. exact Hd.
    + rewrite !get_update_other by exact Hx. apply Hdone.
Qed.

Lemma Rb_rel s1 s2 k : Rb s1 s2 -> rel (get (st_mem s1) k) (get (st_mem s2) k).
Proof. intros [[_ [_ [_ [_ [_ [[H _] _]]]]]] _]. apply H. Qed.

Lemma Rb_epoch s1 s2 : Rb s1 s2 -> st_epoch s1 = st_epoch s2.
Proof. intros [[_ [_ [H _]]] _]. exact H. Qed.

Lemma Rb_bound s1 s2 k : Rb s1 s2 -> res_builtAt (get (st_mem s1) k) <= st_epoch s1.
Proof. intros [[_ [_ [_ [_ [_ [_ H]]]]]] _]. apply H. Qed.

Lemma Rb_done_iff s1 s2 k : Rb s1 s2 -> (done s1 k <-> done s2 k).
Proof.
  intros H. split; [apply H|]. intros Hd. unfold done in *.
  pose proof (Rb_rel _ _ k H) as [_ [_ [_ [_ [Hle _]]]]]. pose proof (Rb_bound _ _ k H) as Hb.
  rewrite <- (Rb_epoch _ _ H) in Hd. lia.
Qed.

Lemma Rb_flagged1 s1 s2 k : Rb s1 s2 -> flagged s1 k = false.
Proof. intros [[_ [_ [_ [H _]]]] _]. unfold flagged. rewrite H. reflexivity. Qed.
Lemma Rb_flagged2 s1 s2 k : Rb s1 s2 -> flagged s2 k = false.
Proof. intros [[_ [_ [_ [_ [H _]]]]] _]. unfold flagged. rewrite H. reflexivity. Qed.

Lemma Rb_gap s1 s2 k d : Rb s1 s2 -> In d (drop_single (res_deps (get (st_mem s1) k))) -> d_order d = false ->
  ~ (bA (st_mem s2) k < cA (st_mem s1) (d_key d) /\ cA (st_mem s1) (d_key d) <= bA (st_mem s1) k).
Proof. intros [[_ [_ [_ [_ [_ [[_ H] _]]]]]] _]. apply H. Qed.

Lemma Rb_set_db s1 s2 k r : Rb s1 s2 -> Rb (set_db s1 k r) (set_db s2 k r).
Proof.
  intros [[Hdb [Hde [He [Hf1 [Hf2 [Hm Hbd]]]]]] Hdone]. split; [|exact Hdone].
  unfold R. cbn [set_db st_db st_db_epoch st_epoch st_flag st_mem]. rewrite Hdb.
  repeat (split; [assumption || reflexivity|]). exact Hbd.
Qed.

Lemma Rb_unflag s1 s2 k : Rb s1 s2 -> Rb (unflag s1 k) (unflag s2 k).
Proof.
  intros [[Hdb [Hde [He [Hf1 [Hf2 [Hm Hbd]]]]]] Hdone]. split; [|exact Hdone].
  unfold R. cbn [unflag st_db st_db_epoch st_epoch st_flag st_mem]. rewrite Hf1, Hf2. cbn [filter].
  repeat (split; [assumption || reflexivity|]). exact Hbd.
Qed.

Section Sim.
Variable rules : key -> rule.
Variable env : key -> N.
Variable F : key -> N -> list value -> list N -> N -> N.
Variable order : N -> key -> list dep -> list dep.

(* taskIsComplete on both sides: the same result is stored in memory and in the database *)
Lemma complete_sim s1 s2 k rl r1 r2 bk v :
  Rb s1 s2 -> rel r1 r2 -> res_computedAt r1 = cA (st_mem s1) k ->
  Rb (complete order s1 k rl r1 bk v) (complete order s2 k rl r2 bk v) /\
  samelog s1 s2 (complete order s1 k rl r1 bk v) (complete order s2 k rl r2 bk v).
Proof.
  intros HR Hr Hc1. pose proof (Rb_epoch _ _ HR) as He.
  destruct Hr as [Hv [Hs [Hc _]]].
  unfold complete. cbn [emit st_epoch]. rewrite <- He, <- Hv, <- Hc.
  set (r' := mkRes (Some v) (r_sig rl) _ (st_epoch s1) _).
  split.
  - apply Rb_set_db. apply Rb_set_mem.
    + apply Rb_unflag. apply (Rb_emit s1 s2 (EComplete k v) (EComplete k v)). exact HR.
    + apply rel_refl.
    + cbn. lia.
    + intros _. reflexivity.
    + subst r'. cbn [res_computedAt unflag emit st_mem st_epoch].
      destruct (match res_value r1 with Some old => negb (value_eqb old v) | None => true end);
        [right; reflexivity | left; exact Hc1].
    + left. reflexivity.
  - exists [EComplete k v]. split; reflexivity.
Qed.

(* ---------- one step, generically over the recursive call ---------- *)
Variable ens : list key -> state -> key -> outcome.
Hypothesis Hsim : forall stack s1 s2 k, Rb s1 s2 -> osim s1 s2 (ens stack s1 k) (ens stack s2 k).
Hypothesis Hfr : forall stack s k, frame stack s k (ens stack s k).

Lemma requests_sim ks : forall k stack slot s1 s2 acc, Rb s1 s2 ->
  osim s1 s2 (fst (requests ens k stack ks slot s1 acc)) (fst (requests ens k stack ks slot s2 acc)) /\
  snd (requests ens k stack ks slot s1 acc) = snd (requests ens k stack ks slot s2 acc).
Proof.
  induction ks as [|x ks IH]; intros k stack slot s1 s2 acc HR; cbn [requests].
  - cbn [fst snd osim]. split; [split; [exact HR | apply samelog_refl] | reflexivity].
  - pose proof (Hsim (k :: stack) s1 s2 x HR) as H.
    destruct (ens (k :: stack) s1 x) as [a|a p|], (ens (k :: stack) s2 x) as [b|b q|]; cbn [osim] in H;
      try contradiction; cbn [fst snd].
    + destruct H as [HR' HL]. pose proof (Rb_rel _ _ x HR') as [Hv _]. rewrite <- Hv.
      set (v := res_value (get (st_mem a) x)).
      destruct (IH k stack (S slot) (emit a (EProvide k slot x v)) (emit b (EProvide k slot x v)) (acc ++ [v])
                  (Rb_emit _ _ _ _ HR')) as [I1 I2].
      split; [|exact I2]. eapply osim_base; [|exact I1]. apply samelog_emit. exact HL.
    + split; [exact H | reflexivity].
    + split; [exact I | reflexivity].
Qed.

Lemma follows_sim ks : forall k stack s1 s2, Rb s1 s2 ->
  osim s1 s2 (follows ens k stack ks s1) (follows ens k stack ks s2).
Proof.
  induction ks as [|x ks IH]; intros k stack s1 s2 HR; cbn [follows].
  - cbn [osim]. split; [exact HR | apply samelog_refl].
  - pose proof (Hsim (k :: stack) s1 s2 x HR) as H.
    destruct (ens (k :: stack) s1 x) as [a|a p|], (ens (k :: stack) s2 x) as [b|b q|]; cbn [osim] in H;
      try contradiction.
    + destruct H as [HR' HL]. eapply osim_base; [exact HL|]. apply IH. exact HR'.
    + exact H.
    + exact I.
Qed.

(* a key on the stack keeps its memory entry across nested calls *)
Lemma requests_frozen k stack ks slot s acc a acc' :
  requests ens k stack ks slot s acc = (Ok a, acc') ->
  get (st_mem a) k = get (st_mem s) k /\ st_epoch a = st_epoch s.
Proof.
  intros H. apply requests_seg in H. apply (seg_frame ens Hfr) in H. destruct H as [H _]. cbn [frame_o] in H.
  split; [apply (fr_stack _ _ _ _ _ H); left; reflexivity | apply (fr_epoch _ _ _ _ _ H)].
Qed.

Lemma follows_frozen k stack ks s a :
  follows ens k stack ks s = Ok a ->
  get (st_mem a) k = get (st_mem s) k /\ st_epoch a = st_epoch s.
Proof.
  intros H. apply follows_seg in H. apply (seg_frame ens Hfr) in H. destruct H as [H _]. cbn [frame_o] in H.
  split; [apply (fr_stack _ _ _ _ _ H); left; reflexivity | apply (fr_epoch _ _ _ _ _ H)].
Qed.

Lemma run_pre_sim k r1 r2 s1 s2 : Rb s1 s2 -> rel r1 r2 ->
  Rb (run_pre rules k r1 s1) (run_pre rules k r2 s2) /\
  samelog s1 s2 (run_pre rules k r1 s1) (run_pre rules k r2 s2).
Proof.
  intros HR [Hv [Hs [_ [_ [Hle H0]]]]]. unfold run_pre. rewrite <- Hs, <- Hv.
  assert (E : N.eqb (res_builtAt r1) 0 = N.eqb (res_builtAt r2) 0).
  { destruct (N.eqb_spec (res_builtAt r1) 0) as [A|A], (N.eqb_spec (res_builtAt r2) 0) as [B|B]; try reflexivity; lia. }
  rewrite <- E.
  destruct (negb (N.eqb (res_builtAt r1) 0) && N.eqb (r_sig (rules k)) (res_sig r1)).
  - split; [exact HR|]. do 3 apply samelog_emit. apply samelog_refl.
  - split; [exact HR|]. do 2 apply samelog_emit. apply samelog_refl.
Qed.

Lemma run_pre_cA k r s x : cA (st_mem (run_pre rules k r s)) x = cA (st_mem s) x.
Proof. rewrite run_pre_mem. reflexivity. Qed.

Ltac stage S HL :=
  match type of S with
  | osim _ _ ?o1 ?o2 =>
    destruct o1 as [?a|?a ?p|], o2 as [?b|?b ?q|]; cbn [osim] in S; try contradiction;
    [ | eapply osim_base; [exact HL | exact S] | exact I]
  end.

Lemma run_sim k stack r1 r2 s1 s2 :
  Rb s1 s2 -> rel r1 r2 -> res_computedAt r1 = cA (st_mem s1) k ->
  osim s1 s2 (run rules env F order ens k stack r1 s1) (run rules env F order ens k stack r2 s2).
Proof.
  intros HR Hr Hc. unfold run. fold (run_pre rules k r1 s1). fold (run_pre rules k r2 s2).
  destruct (run_pre_sim k r1 r2 s1 s2 HR Hr) as [HR0 HL0].
  rewrite <- (run_pre_cA k r1 s1 k) in Hc.
  set (a0 := run_pre rules k r1 s1) in *. set (b0 := run_pre rules k r2 s2) in *.
  (* requested keys *)
  destruct (requests_sim (r_req (rules k)) k stack 0%nat a0 b0 [] HR0) as [S1 A1].
  destruct (requests ens k stack (r_req (rules k)) 0 a0 []) as [o1 slots1] eqn:E1.
  destruct (requests ens k stack (r_req (rules k)) 0 b0 []) as [o1' slots1'] eqn:E1'.
  cbn [fst snd] in S1, A1. subst slots1'. stage S1 HL0.
  destruct S1 as [HR1 HL1]. pose proof (samelog_trans _ _ _ _ _ _ HL0 HL1) as HL01.
  destruct (requests_frozen _ _ _ _ _ _ _ _ E1) as [F1 _].
  (* single-use keys *)
  destruct (requests_sim (r_single (rules k)) k stack (length slots1) a b [] HR1) as [S2 A2].
  destruct (requests ens k stack (r_single (rules k)) (length slots1) a []) as [o2 slots2] eqn:E2.
  destruct (requests ens k stack (r_single (rules k)) (length slots1) b []) as [o2' slots2'] eqn:E2'.
  cbn [fst snd] in S2, A2. subst slots2'. stage S2 HL01.
  destruct S2 as [HR2 HL2]. pose proof (samelog_trans _ _ _ _ _ _ HL01 HL2) as HL02.
  destruct (requests_frozen _ _ _ _ _ _ _ _ E2) as [F2 _].
  (* must-follow keys *)
  pose proof (follows_sim (r_follow (rules k)) k stack a1 b1 HR2) as S3.
  destruct (follows ens k stack (r_follow (rules k)) a1) as [a2|a2 p2|] eqn:E3;
    destruct (follows ens k stack (r_follow (rules k)) b1) as [b2|b2 q2|] eqn:E3'; cbn [osim] in S3; try contradiction;
    [ | eapply osim_base; [exact HL02 | exact S3] | exact I].
  destruct S3 as [HR3 HL3]. pose proof (samelog_trans _ _ _ _ _ _ HL02 HL3) as HL03.
  destruct (follows_frozen _ _ _ _ _ E3) as [F3 _].
  (* branch keys *)
  set (bk := branch_keys (rules k) slots1).
  destruct (requests_sim bk k stack (length slots1 + length slots2)%nat a2 b2 [] HR3) as [S4 A4].
  destruct (requests ens k stack bk (length slots1 + length slots2) a2 []) as [o4 slots3] eqn:E4.
  destruct (requests ens k stack bk (length slots1 + length slots2) b2 []) as [o4' slots3'] eqn:E4'.
  cbn [fst snd] in S4, A4. subst slots3'. stage S4 HL03.
  destruct S4 as [HR4 HL4]. pose proof (samelog_trans _ _ _ _ _ _ HL03 HL4) as HL04.
  destruct (requests_frozen _ _ _ _ _ _ _ _ E4) as [F4 _].
  (* completion, then the discovered dependencies *)
  assert (Hc4 : res_computedAt r1 = cA (st_mem (emit a3 (EAvail k))) k).
  { cbn [emit st_mem]. unfold cA in *. rewrite F4, F3, F2, F1. exact Hc. }
  destruct (complete_sim (emit a3 (EAvail k)) (emit b3 (EAvail k)) k (rules k) r1 r2 bk
              (task_value rules env F k (rules k) slots1 slots3)
              (Rb_emit _ _ _ _ HR4) Hr Hc4) as [HR5 HL5].
  eapply osim_base; [|apply follows_sim; exact HR5].
  eapply samelog_trans; [|exact HL5]. apply samelog_emit. exact HL04.
Qed.

Lemma ens_frozen k stack s x a : ens (k :: stack) s x = Ok a ->
  get (st_mem a) k = get (st_mem s) k /\ st_epoch a = st_epoch s.
Proof.
  intros E. destruct (Hfr (k :: stack) s x) as [H _]. rewrite E in H. cbn [frame_o] in H.
  split; [apply (fr_stack _ _ _ _ _ H); left; reflexivity | apply (fr_epoch _ _ _ _ _ H)].
Qed.

(* processRuleScanRequest on both sides *)
Lemma scan_sim ds : forall k stack r1 r2 s1 s2,
  Rb s1 s2 -> rel r1 r2 -> get (st_mem s1) k = r1 -> get (st_mem s2) k = r2 ->
  (forall d, In d ds -> In d (drop_single (res_deps r1))) ->
  osim s1 s2 (scan rules env F order ens k stack r1 ds s1) (scan rules env F order ens k stack r2 ds s2).
Proof.
  induction ds as [|d ds IH]; intros k stack r1 r2 s1 s2 HR Hr G1 G2 Hsub; cbn [scan].
  - cbn [osim]. split; [|exists []; split; reflexivity].
    pose proof (Rb_epoch _ _ HR) as He. destruct Hr as [Hv [Hs [Hc [Hd _]]]].
    apply Rb_set_mem; try exact HR; cbn [res_builtAt res_computedAt res_deps].
    + unfold rel. cbn. repeat split; try assumption; lia.
    + lia.
    + intros _. symmetry. exact He.
    + left. unfold cA. rewrite G1. reflexivity.
    + left. symmetry. exact He.
  - pose proof (Hsim (k :: stack) s1 s2 (d_key d) HR) as H.
    destruct (ens (k :: stack) s1 (d_key d)) as [a|a p|] eqn:E1;
      destruct (ens (k :: stack) s2 (d_key d)) as [b|b q|] eqn:E2; cbn [osim] in H; try contradiction;
      [ | exact H | exact I].
    destruct H as [HR' HL].
    destruct (ens_frozen _ _ _ _ _ E1) as [Fa _]. destruct (ens_frozen _ _ _ _ _ E2) as [Fb _].
    rewrite G1 in Fa. rewrite G2 in Fb.
    pose proof (Rb_rel _ _ (d_key d) HR') as [_ [_ [Hcd _]]]. rewrite <- Hcd.
    assert (Hcond : negb (d_order d) && (res_builtAt r2 <? res_computedAt (get (st_mem a) (d_key d))) =
                    negb (d_order d) && (res_builtAt r1 <? res_computedAt (get (st_mem a) (d_key d)))).
    { destruct (d_order d) eqn:Eo; [reflexivity|]. cbn [negb andb].
      destruct Hr as [_ [_ [_ [_ [Hle _]]]]].
      destruct (N.ltb_spec (res_builtAt r1) (res_computedAt (get (st_mem a) (d_key d)))) as [L|L];
        destruct (N.ltb_spec (res_builtAt r2) (res_computedAt (get (st_mem a) (d_key d)))) as [L'|L'];
        try reflexivity; try lia.
      exfalso. apply (Rb_gap a b k d HR'); [rewrite Fa; apply Hsub; left; reflexivity | exact Eo|].
      unfold bA, cA. rewrite Fa, Fb. split; assumption. }
    rewrite Hcond.
    destruct (negb (d_order d) && (res_builtAt r1 <? res_computedAt (get (st_mem a) (d_key d)))).
    + eapply osim_base; [apply samelog_emit; exact HL|].
      apply run_sim; [apply Rb_emit; exact HR' | exact Hr|].
      cbn [emit st_mem]. unfold cA. rewrite Fa. reflexivity.
    + eapply osim_base; [exact HL|]. apply IH; try assumption.
      intros d' Hd'. apply Hsub. right. exact Hd'.
Qed.

Lemma valid_rel k r1 r2 : res_value r1 = res_value r2 -> valid rules env k r1 = valid rules env k r2.
Proof. intros H. unfold valid. rewrite H. reflexivity. Qed.

Definition clean (r0 : result) : result :=
  mkRes (res_value r0) (res_sig r0) (res_computedAt r0) (res_builtAt r0) (drop_single (res_deps r0)).

Lemma clean_sim s1 s2 k : Rb s1 s2 ->
  Rb (set_mem s1 k (clean (get (st_mem s1) k))) (set_mem s2 k (clean (get (st_mem s2) k))) /\
  rel (clean (get (st_mem s1) k)) (clean (get (st_mem s2) k)).
Proof.
  intros HR. pose proof (Rb_rel _ _ k HR) as [Hv [Hs [Hc [Hd [Hle H0]]]]].
  assert (Hr : rel (clean (get (st_mem s1) k)) (clean (get (st_mem s2) k))).
  { unfold rel, clean. cbn. rewrite !drop_single_idem. repeat split; assumption. }
  split; [|exact Hr].
  apply Rb_set_mem; try assumption; cbn [clean res_builtAt res_computedAt res_deps].
  - apply (Rb_bound _ _ k HR).
  - intros E. pose proof (proj1 (Rb_done_iff _ _ k HR) E) as D. unfold done in D.
    rewrite (Rb_epoch _ _ HR). exact D.
  - left. reflexivity.
  - right. rewrite drop_single_idem. repeat split; reflexivity.
Qed.

Lemma ensure_body_sim stack s1 s2 k : Rb s1 s2 ->
  osim s1 s2 (ensure_body rules env F order ens stack s1 k) (ensure_body rules env F order ens stack s2 k).
Proof.
  intros HR. unfold ensure_body.
  destruct (existsb (N.eqb k) stack).
  { cbn [osim]. split; [reflexivity|]. split; [exact HR | apply samelog_refl]. }
  assert (Ed : N.eqb (res_builtAt (get (st_mem s1) k)) (st_epoch s1) =
               N.eqb (res_builtAt (get (st_mem s2) k)) (st_epoch s2)).
  { pose proof (Rb_done_iff _ _ k HR) as D. unfold done in D.
    destruct (N.eqb_spec (res_builtAt (get (st_mem s1) k)) (st_epoch s1)) as [A|A];
      destruct (N.eqb_spec (res_builtAt (get (st_mem s2) k)) (st_epoch s2)) as [B|B]; try reflexivity; tauto. }
  rewrite <- Ed. destruct (N.eqb (res_builtAt (get (st_mem s1) k)) (st_epoch s1)).
  { cbn [osim]. split; [exact HR | apply samelog_refl]. }
  fold (clean (get (st_mem s1) k)). fold (clean (get (st_mem s2) k)).
  destruct (clean_sim s1 s2 k HR) as [HR' Hr].
  set (r1 := clean (get (st_mem s1) k)) in *. set (r2 := clean (get (st_mem s2) k)) in *.
  set (a := set_mem s1 k r1) in *. set (b := set_mem s2 k r2) in *.
  assert (HL : samelog s1 s2 a b) by (exists []; split; reflexivity).
  assert (Hca : forall e, res_computedAt r1 = cA (st_mem (emit a e)) k).
  { intros e. cbn [emit st_mem]. subst a. cbn [set_mem st_mem]. rewrite cA_update_same. reflexivity. }
  pose proof Hr as [Hv [Hs [_ [Hdeps [Hle H0]]]]].
  assert (E0 : N.eqb (res_builtAt r1) 0 = N.eqb (res_builtAt r2) 0).
  { destruct (N.eqb_spec (res_builtAt r1) 0) as [A|A], (N.eqb_spec (res_builtAt r2) 0) as [B|B]; try reflexivity; lia. }
  rewrite <- E0. destruct (N.eqb (res_builtAt r1) 0).
  { eapply osim_base; [apply samelog_emit; exact HL|]. apply run_sim; [apply Rb_emit; exact HR' | exact Hr | apply Hca]. }
  rewrite (Rb_flagged1 _ _ k HR'), (Rb_flagged2 _ _ k HR'). rewrite <- Hs.
  destruct (negb (N.eqb (r_sig (rules k)) (res_sig r1))).
  { eapply osim_base; [apply samelog_emit; exact HL|]. apply run_sim; [apply Rb_emit; exact HR' | exact Hr | apply Hca]. }
  rewrite <- (valid_rel k r1 r2 Hv). destruct (negb (valid rules env k r1)).
  { eapply osim_base; [do 2 apply samelog_emit; exact HL|].
    apply run_sim; [do 2 apply Rb_emit; exact HR' | exact Hr | apply (Hca (EValid k false))]. }
  eapply osim_base; [apply samelog_emit; exact HL|].
  assert (Hd12 : res_deps r2 = res_deps r1).
  { unfold r1, r2, clean. cbn [res_deps]. destruct (Rb_rel _ _ k HR) as [_ [_ [_ [Hd0 _]]]]. symmetry. exact Hd0. }
  rewrite Hd12.
  apply scan_sim; [apply Rb_emit; exact HR' | exact Hr | | |].
  - cbn [emit st_mem]. subst a. cbn [set_mem st_mem]. apply get_update_same.
  - cbn [emit st_mem]. subst b. cbn [set_mem st_mem]. apply get_update_same.
  - intros d Hd. subst r1. cbn [clean res_deps] in *. rewrite drop_single_idem. exact Hd.
Qed.

End Sim.

(* ---------- lifted to ensure and build ---------- *)

Section Lift.
Variable rules : key -> rule.
Variable env : key -> N.
Variable F : key -> N -> list value -> list N -> N -> N.
Variable order : N -> key -> list dep -> list dep.

Theorem ensure_sim fuel : forall stack s1 s2 k, Rb s1 s2 ->
  osim s1 s2 (ensure rules env F order fuel stack s1 k) (ensure rules env F order fuel stack s2 k).
Proof.
  induction fuel as [|f IH]; intros stack s1 s2 k HR; cbn [ensure]; [exact I|].
  apply ensure_body_sim; [exact IH | apply ensure_frame | exact HR].
Qed.

(* the statement in the form of the task: same outcome, related final states, the same new events *)
Theorem ensure_simulation fuel stack s1 s2 k : Rb s1 s2 ->
  (forall s1', ensure rules env F order fuel stack s1 k = Ok s1' ->
     exists s2', ensure rules env F order fuel stack s2 k = Ok s2' /\ Rb s1' s2' /\ new_log s1 s1' = new_log s2 s2') /\
  (forall s1' p, ensure rules env F order fuel stack s1 k = Cycle s1' p ->
     exists s2', ensure rules env F order fuel stack s2 k = Cycle s2' p /\ Rb s1' s2' /\ new_log s1 s1' = new_log s2 s2') /\
  (ensure rules env F order fuel stack s1 k = OutOfFuel -> ensure rules env F order fuel stack s2 k = OutOfFuel).
Proof.
  intros HR. pose proof (ensure_sim fuel stack s1 s2 k HR) as H.
  destruct (ensure rules env F order fuel stack s1 k) as [a|a p|];
    destruct (ensure rules env F order fuel stack s2 k) as [b|b q|]; cbn [osim] in H; try contradiction.
  - destruct H as [HR' HL]. split; [|split]; [|intros ? ? E; discriminate | intros E; discriminate].
    intros s1' E. inversion E; subst. exists b. split; [reflexivity|]. split; [exact HR' | apply samelog_new_log; exact HL].
  - destruct H as [-> [HR' HL]]. split; [|split]; [intros ? E; discriminate | | intros E; discriminate].
    intros s1' p' E. inversion E; subst. exists b. split; [reflexivity|]. split; [exact HR' | apply samelog_new_log; exact HL].
  - split; [|split]; [intros ? E; discriminate | intros ? ? E; discriminate | reflexivity].
Qed.

Lemma R_bump s1 s2 : R s1 s2 -> Rb (bump_epoch s1) (bump_epoch s2).
Proof.
  intros [Hdb [Hde [He [Hf1 [Hf2 [Hm Hbd]]]]]]. split.
  - unfold R. cbn [bump_epoch st_db st_db_epoch st_epoch st_flag st_mem]. rewrite He.
    repeat (split; [assumption || reflexivity|]). intros k. specialize (Hbd k). lia.
  - intros k Hd. unfold done in Hd. cbn [bump_epoch st_mem st_epoch] in Hd. specialize (Hbd k). unfold bA in Hbd. lia.
Qed.

Lemma Rb_commit s1 s2 : Rb s1 s2 -> R (commit_epoch s1) (commit_epoch s2).
Proof.
  intros [[Hdb [Hde [He [Hf1 [Hf2 [Hm Hbd]]]]]] _].
  unfold R. cbn [commit_epoch st_db st_db_epoch st_epoch st_flag st_mem].
  repeat (split; [assumption || reflexivity|]). exact Hbd.
Qed.

Theorem build_sim fuel s1 s2 k : R s1 s2 ->
  osimR s1 s2 (build rules env F order fuel s1 k) (build rules env F order fuel s2 k).
Proof.
  intros HR. unfold build. pose proof (ensure_sim fuel [] _ _ k (R_bump _ _ HR)) as H.
  destruct (ensure rules env F order fuel [] (bump_epoch s1) k) as [a|a p|];
    destruct (ensure rules env F order fuel [] (bump_epoch s2) k) as [b|b q|]; cbn [osim] in H; try contradiction;
    cbn [osimR].
  - destruct H as [HR' HL]. split; [apply Rb_commit; exact HR' | exact HL].
  - destruct H as [Hp [HR' HL]]. split; [exact Hp|]. split; [apply Rb_commit; exact HR' | exact HL].
  - exact I.
Qed.

End Lift.
