(* C01 - preservation of the invariant by the elementary state changes of one [ensure] step
   (cleaning of single-use dependencies, marking complete after a scan, [complete], closing the window). *)
From LLB Require Import Engine.Rules Engine.Spec Engine.SpecFrame Engine.SpecInv1.
From Coq Require Import List NArith Bool Lia Arith Permutation.
Local Open Scope N_scope.

Section Rows.
Variable R : key -> N -> rule.
Variable F : key -> N -> list value -> list N -> N -> N.

Local Notation rok := (row_ok F R).
Local Notation rcl := (row_concl F).

(* the conclusion of a row only looks at the stored values of its recorded inputs *)
Lemma row_concl_transfer : forall rl m m' x r v,
  rcl rl m x r v ->
  (forall y, In (mkDep y false false) (cdeps r) -> stored m' y = stored m y) ->
  rcl rl m' x r v.
Proof.
  intros rl m m' x r v [Hv Hin] Hst. unfold row_concl in *. cbn zeta in *.
  assert (H1 : map (stored m') (r_req rl) = map (stored m) (r_req rl)).
  { apply map_ext_in. intros y Hy. apply Hst, Hin. apply in_or_app. now left. }
  rewrite H1.
  set (bk := branch_keys rl (map (stored m) (r_req rl))) in *.
  assert (H2 : map (stored m') bk = map (stored m) bk).
  { apply map_ext_in. intros y Hy. apply Hst, Hin. apply in_or_app. right. apply in_or_app. now left. }
  assert (H3 : map (stamp_of m') (r_disc rl) = map (stamp_of m) (r_disc rl)).
  { apply map_ext_in. intros y Hy. unfold stamp_of. rewrite Hst; [reflexivity|].
    apply Hin. apply in_or_app. right. apply in_or_app. now right. }
  rewrite H2, H3. split; assumption.
Qed.

Lemma fresh_deps_ext : forall m m' r,
  (forall d, In d (cdeps r) -> res_computedAt (get m' (d_key d)) = res_computedAt (get m (d_key d))) ->
  fresh_deps m r -> fresh_deps m' r.
Proof. intros m m' r H Hf d Hd. rewrite H by exact Hd. now apply Hf. Qed.

(* A: the memory changes, but no stored value and no computedAt does *)
Lemma row_ok_quiet : forall m m' x r,
  (forall y, stored m' y = stored m y) ->
  (forall y, res_computedAt (get m' y) = res_computedAt (get m y)) ->
  rok m x r -> rok m' x r.
Proof.
  intros m m' x r Hst Hc Hok. unfold row_ok in *. intros Hb. destruct (Hok Hb) as (v & Hv & Ho & Hd & Hcl).
  exists v. split; [exact Hv|]. split; [exact Ho|]. split; [exact Hd|]. intros Hf.
  apply row_concl_transfer with (m := m); [|intros; apply Hst].
  apply Hcl. apply fresh_deps_ext with (m := m'); [|exact Hf]. intros; symmetry; apply Hc.
Qed.

(* B: only key k changes, and either k is not a checked dependency of the row or it is now newer than the row *)
Lemma row_ok_changed : forall m m' k x r,
  (forall y, y <> k -> get m' y = get m y) ->
  (In k (map d_key (cdeps r)) -> res_builtAt r < res_computedAt (get m' k)) ->
  rok m x r -> rok m' x r.
Proof.
  intros m m' k x r Hoth Hnew Hok. unfold row_ok in *. intros Hb. destruct (Hok Hb) as (v & Hv & Ho & Hd & Hcl).
  exists v. split; [exact Hv|]. split; [exact Ho|]. split; [exact Hd|]. intros Hf.
  destruct (in_dec N.eq_dec k (map d_key (cdeps r))) as [Hin|Hnin].
  - exfalso. specialize (Hnew Hin). apply in_map_iff in Hin. destruct Hin as [d [Hk Hd']]. subst k.
    specialize (Hf d Hd'). lia.
  - assert (Hne : forall d, In d (cdeps r) -> d_key d <> k).
    { intros d Hd' Heq. apply Hnin. apply in_map_iff. now exists d. }
    apply row_concl_transfer with (m := m).
    + apply Hcl. apply fresh_deps_ext with (m := m'); [|exact Hf]. intros d Hd'. now rewrite Hoth by auto.
    + intros y Hy. unfold stored. rewrite Hoth; [reflexivity|]. apply (Hne _ Hy).
Qed.

End Rows.

Lemma drop_single_idem : forall l, drop_single (drop_single l) = drop_single l.
Proof.
  induction l as [|d l IH]; [reflexivity|]. unfold drop_single in *. cbn [filter].
  destruct (negb (d_single d)) eqn:E; cbn [filter]; [rewrite E; now f_equal | exact IH].
Qed.

Lemma cdeps_drop : forall r, cdeps r = filter (fun d => negb (d_order d)) (drop_single (res_deps r)).
Proof.
  intros r. unfold cdeps, drop_single. induction (res_deps r) as [|d l IH]; [reflexivity|]. cbn [filter].
  destruct d as [dk [|] [|]]; cbn in *; rewrite ?IH; reflexivity.
Qed.

Lemma cdeps_eq : forall r r', drop_single (res_deps r') = drop_single (res_deps r) -> cdeps r' = cdeps r.
Proof. intros r r' H. rewrite !cdeps_drop. now rewrite H. Qed.

Lemma in_cdeps : forall r d, In d (cdeps r) <-> In d (res_deps r) /\ d_order d = false /\ d_single d = false.
Proof.
  intros r d. unfold cdeps. rewrite filter_In. rewrite andb_true_iff, !negb_true_iff. tauto.
Qed.

Lemma in_drop_single : forall l d, In d (drop_single l) <-> In d l /\ d_single d = false.
Proof. intros l d. unfold drop_single. rewrite filter_In, negb_true_iff. tauto. Qed.

Lemma stored_update_quiet : forall m k r' y, res_value r' = res_value (get m k) -> stored (update m k r') y = stored m y.
Proof.
  intros m k r' y H. unfold stored. destruct (N.eq_dec y k) as [->|Hne].
  - now rewrite get_update_same.
  - now rewrite get_update_other.
Qed.

Lemma computed_update_quiet : forall m k r' y, res_computedAt r' = res_computedAt (get m k) ->
  res_computedAt (get (update m k r') y) = res_computedAt (get m y).
Proof.
  intros m k r' y H. destruct (N.eq_dec y k) as [->|Hne].
  - now rewrite get_update_same.
  - now rewrite get_update_other.
Qed.

Section RowExt.
Variable R : key -> N -> rule.
Variable F : key -> N -> list value -> list N -> N -> N.

(* a row only matters through its value, signature, builtAt and non-single-use dependencies *)
Lemma row_ok_row_ext : forall m x r r',
  res_value r' = res_value r -> res_sig r' = res_sig r -> res_builtAt r' = res_builtAt r ->
  drop_single (res_deps r') = drop_single (res_deps r) ->
  row_ok F R m x r -> row_ok F R m x r'.
Proof.
  intros m x r r' Hv Hs Hb Hd Hok. unfold row_ok in *. rewrite Hv, Hs, Hb, Hd.
  intros H1. destruct (Hok H1) as (v & Hv' & Ho & Hdd & Hcl). exists v.
  split; [exact Hv'|]. split; [exact Ho|]. split; [exact Hdd|].
  pose proof (cdeps_eq r r' Hd) as Hc.
  unfold fresh_deps, row_concl in *. rewrite Hc, Hb. exact Hcl.
Qed.
End RowExt.

Section St.
Variable rules : key -> rule.
Variable env : key -> N.
Variable F : key -> N -> list value -> list N -> N -> N.
Variable order : N -> key -> list dep -> list dep.
Variable rank : key -> nat.
Variable R : key -> N -> rule.
Hypothesis HR : table_ok rules R.
Hypothesis Hrank : wf_rank rules rank.
Hypothesis Hdisc : wf_disc rules.
Hypothesis Horder : wf_order order.

Local Notation G := (Good rules env F rank R).
Local Notation cvk := (cvk rules env F rank).

(* L2: replacing a memory row by an equivalent one (the single-use cleaning of scanRule) *)
Lemma Good_set_mem_quiet : forall E s k r',
  res_value r' = res_value (get (st_mem s) k) -> res_sig r' = res_sig (get (st_mem s) k) ->
  res_computedAt r' = res_computedAt (get (st_mem s) k) -> res_builtAt r' = res_builtAt (get (st_mem s) k) ->
  drop_single (res_deps r') = drop_single (res_deps (get (st_mem s) k)) ->
  G E s -> G E (set_mem s k r').
Proof.
  intros E s k r' Hv Hs Hc Hb Hd (Hbnd & Hsync & Hrows & Hcl & Hcur & Hex).
  assert (Hdone : forall x, done (set_mem s k r') x <-> done s x).
  { intros x. unfold done, set_mem; cbn. destruct (N.eq_dec x k) as [->|Hne].
    - rewrite get_update_same. now rewrite Hb.
    - now rewrite get_update_other. }
  assert (Hcd : forall x, cdeps (get (update (st_mem s) k r') x) = cdeps (get (st_mem s) x)).
  { intros x. destruct (N.eq_dec x k) as [->|Hne].
    - rewrite get_update_same. now apply cdeps_eq.
    - now rewrite get_update_other. }
  unfold Good. repeat apply conj.
  - intros x. unfold set_mem; cbn. specialize (Hbnd x). destruct (N.eq_dec x k) as [->|Hne].
    + rewrite get_update_same. now rewrite Hc, Hb.
    + now rewrite get_update_other.
  - intros x. unfold set_mem; cbn. specialize (Hsync x). cbn zeta in Hsync. destruct (N.eq_dec x k) as [->|Hne].
    + rewrite get_update_same. now rewrite Hv, Hs, Hc, Hb, Hd.
    + now rewrite get_update_other.
  - intros x Hx. unfold set_mem; cbn. specialize (Hrows x Hx).
    apply row_ok_quiet with (m := st_mem s).
    + intros y. now apply stored_update_quiet.
    + intros y. now apply computed_update_quiet.
    + destruct (N.eq_dec x k) as [->|Hne].
      * rewrite get_update_same. now apply row_ok_row_ext with (r := get (st_mem s) k).
      * now rewrite get_update_other.
  - intros x Hx Hdx d Hin. apply Hdone. apply Hdone in Hdx. unfold set_mem in Hin; cbn in Hin.
    rewrite Hcd in Hin. now apply (Hcl x Hx Hdx).
  - intros x Hdx. apply Hdone in Hdx. unfold set_mem; cbn. rewrite stored_update_quiet by exact Hv. now apply Hcur.
  - intros x Hx. apply Hdone. now apply Hex.
Qed.

(* ---------- complete inputs hold clean values ---------- *)

Lemma stored_clean : forall s l, current rules env F rank s -> (forall x, In x l -> done s x) ->
  map (stored (st_mem s)) l = map cvk l.
Proof. intros s l Hcur Hl. apply map_ext_in. intros x Hx. apply Hcur. now apply Hl. Qed.

Lemma cvk_stamp : forall x, r_obs (rules x) = true -> snd (payload_of (cvk x)) = env x.
Proof.
  intros x Ho. pose proof (cvk_unfold rules env F rank Hrank x) as H. cbn zeta in H. rewrite H. cbn.
  unfold obs. now rewrite Ho.
Qed.

Lemma stamps_clean : forall s l, current rules env F rank s -> (forall x, In x l -> done s x) ->
  (forall x, In x l -> r_obs (rules x) = true) -> map (stamp_of (st_mem s)) l = map env l.
Proof.
  intros s l Hcur Hl Ho. apply map_ext_in. intros x Hx. unfold stamp_of. rewrite (Hcur x) by now apply Hl.
  apply cvk_stamp. now apply Ho.
Qed.

Lemma cvk_value : forall k,
  let rl := rules k in
  let bk := branch_keys rl (map cvk (r_req rl)) in
  cvk k = Some (F k (r_sig rl) (map payload_of (map cvk (r_req rl) ++ map cvk bk)) (map env (r_disc rl)) (obs rules env k),
                obs rules env k).
Proof.
  intros k rl bk. pose proof (cvk_unfold rules env F rank Hrank k) as H. cbn zeta in H. fold rl in H. fold bk in H.
  rewrite H. rewrite map_app, !map_map. reflexivity.
Qed.

(* a row whose recorded inputs are all complete, and whose conclusion holds, stores the clean value *)
Lemma concl_clean : forall s k r v, current rules env F rank s ->
  row_concl F (rules k) (st_mem s) k r v ->
  (forall d, In d (cdeps r) -> done s (d_key d)) ->
  snd v = obs rules env k -> Some v = cvk k.
Proof.
  intros s k r v Hcur [Hv Hin] Hd Hsnd. cbn zeta in *.
  assert (Hdone : forall x, In x (r_req (rules k) ++
                    branch_keys (rules k) (map (stored (st_mem s)) (r_req (rules k))) ++ r_disc (rules k)) -> done s x).
  { intros x Hx. apply (Hd _ (Hin x Hx)). }
  rewrite (stored_clean s (r_req (rules k))) in * by (auto; intros x Hx; apply Hdone, in_or_app; now left).
  set (bk := branch_keys (rules k) (map cvk (r_req (rules k)))) in *.
  rewrite (stored_clean s bk) in Hv by (auto; intros x Hx; apply Hdone, in_or_app; right; apply in_or_app; now left).
  rewrite (stamps_clean s (r_disc (rules k))) in Hv; auto.
  - rewrite cvk_value. fold bk. rewrite <- Hsnd, <- Hv. now destruct v.
  - intros x Hx. apply Hdone, in_or_app; right; apply in_or_app; now right.
  - intros x Hx. now apply (Hdisc k).
Qed.

(* conversely: a row that stores the clean value and records its inputs, all complete, satisfies the conclusion *)
Lemma concl_of_clean : forall s k r v, current rules env F rank s ->
  let bk := branch_keys (rules k) (map cvk (r_req (rules k))) in
  (forall x, In x (r_req (rules k) ++ bk ++ r_disc (rules k)) -> done s x) ->
  (forall x, In x (r_req (rules k) ++ bk ++ r_disc (rules k)) -> In (mkDep x false false) (cdeps r)) ->
  Some v = cvk k ->
  row_concl F (rules k) (st_mem s) k r v.
Proof.
  intros s k r v Hcur bk Hdone Hin Hv. unfold row_concl. cbn zeta.
  rewrite (stored_clean s (r_req (rules k))) by (auto; intros x Hx; apply Hdone, in_or_app; now left).
  fold bk.
  rewrite (stored_clean s bk) by (auto; intros x Hx; apply Hdone, in_or_app; right; apply in_or_app; now left).
  rewrite (stamps_clean s (r_disc (rules k))); auto.
  - split; [|exact Hin]. rewrite cvk_value in Hv. fold bk in Hv. inversion Hv. reflexivity.
  - intros x Hx. apply Hdone, in_or_app; right; apply in_or_app; now right.
  - intros x Hx. now apply (Hdisc k).
Qed.

Lemma valid_stamp : forall k r v, valid rules env k r = true -> res_value r = Some v ->
  (r_obs (rules k) = false -> snd v = 0) -> snd v = obs rules env k.
Proof.
  intros k r v Hval Hv Ho. unfold valid in Hval. unfold obs. destruct (r_obs (rules k)).
  - rewrite Hv in Hval. now apply N.eqb_eq in Hval.
  - now apply Ho.
Qed.

Lemma row_concl_row_ext : forall rl m k r r' v, cdeps r' = cdeps r ->
  row_concl F rl m k r v -> row_concl F rl m k r' v.
Proof. intros rl m k r r' v Hc H. unfold row_concl in *. now rewrite Hc. Qed.

(* L3: a scan that found nothing to do marks the key complete, in memory only *)
Lemma Good_mark : forall E s k r,
  G E s -> get (st_mem s) k = r -> ~ done s k ->
  res_builtAt r <> 0 -> res_sig r = r_sig (rules k) -> valid rules env k r = true ->
  fresh_deps (st_mem s) r -> (forall d, In d (cdeps r) -> done s (d_key d)) ->
  G E (set_mem s k (mkRes (res_value r) (res_sig r) (res_computedAt r) (st_epoch s) (res_deps r))).
Proof.
  intros E s k r (Hbnd & Hsync & Hrows & Hcl & Hcur & Hex) Hr Hnd Hb Hs Hval Hfresh Hdeps.
  set (r' := mkRes _ _ _ _ _).
  assert (HkE : ~ E k) by (intros H; apply Hnd; now apply Hex).
  assert (Hdone : forall x, done (set_mem s k r') x <-> x = k \/ done s x).
  { intros x. unfold done, set_mem; cbn. destruct (N.eq_dec x k) as [->|Hne].
    - rewrite get_update_same. cbn. tauto.
    - rewrite get_update_other by exact Hne. tauto. }
  assert (Hcd : cdeps r' = cdeps r) by reflexivity.
  destruct (Hrows k HkE) as (v & Hv & Ho & Hdd & Hconcl); [now rewrite Hr |].
  rewrite Hr in *. rewrite Hs, (HR k) in Ho, Hdd, Hconcl. specialize (Hconcl Hfresh).
  assert (Hclean : Some v = cvk k).
  { apply concl_clean with (s := s) (r := r); auto. now apply valid_stamp with (r := r). }
  assert (Hst : forall y, stored (update (st_mem s) k r') y = stored (st_mem s) y).
  { intros y. apply stored_update_quiet. now rewrite Hr. }
  assert (Hca : forall y, res_computedAt (get (update (st_mem s) k r') y) = res_computedAt (get (st_mem s) y)).
  { intros y. apply computed_update_quiet. now rewrite Hr. }
  unfold Good. repeat apply conj.
  - intros x. unfold set_mem; cbn. specialize (Hbnd x). destruct (N.eq_dec x k) as [->|Hne].
    + rewrite get_update_same. rewrite Hr in Hbnd. cbn. lia.
    + now rewrite get_update_other.
  - intros x. unfold set_mem; cbn. specialize (Hsync x). cbn zeta in Hsync. destruct (N.eq_dec x k) as [->|Hne].
    + rewrite get_update_same. rewrite Hr in Hsync. cbn. specialize (Hbnd k). rewrite Hr in Hbnd.
      repeat split; try tauto. lia.
    + now rewrite get_update_other.
  - intros x Hx. unfold set_mem; cbn. destruct (N.eq_dec x k) as [->|Hne].
    + rewrite get_update_same. intros _. cbn [res_sig r']. rewrite Hs, (HR k).
      exists v. split; [exact Hv|]. split; [exact Ho|]. split; [exact Hdd|].
      intros _. apply row_concl_row_ext with (r := r); [exact Hcd|].
      apply row_concl_transfer with (m := st_mem s); [exact Hconcl | intros; apply Hst].
    + rewrite get_update_other by exact Hne. apply row_ok_quiet with (m := st_mem s); auto.
  - intros x Hx Hdx d Hin. apply Hdone. unfold set_mem in Hin; cbn in Hin. destruct (N.eq_dec x k) as [->|Hne].
    + rewrite get_update_same in Hin. right. now apply Hdeps.
    + rewrite get_update_other in Hin by exact Hne. right. apply (Hcl x Hx); [|exact Hin].
      apply Hdone in Hdx. tauto.
  - intros x Hdx. unfold set_mem; cbn. rewrite Hst. apply Hdone in Hdx. destruct Hdx as [->|Hdx].
    + unfold stored. now rewrite Hr, Hv.
    + now apply Hcur.
  - intros x Hx. apply Hdone. right. now apply Hex.
Qed.

(* ---------- complete ---------- *)

Definition complete_row (e : N) (k : key) (rl : rule) (r : result) (bk : list key) (v : value) : result :=
  mkRes (Some v) (r_sig rl)
        (if match res_value r with Some old => negb (value_eqb old v) | None => true end then e else res_computedAt r)
        e (order e k (requested_deps rl bk) ++ map (fun x => mkDep x false false) (r_disc rl)).

Lemma complete_mem : forall s k rl r bk v,
  st_mem (complete order s k rl r bk v) = update (st_mem s) k (complete_row (st_epoch s) k rl r bk v).
Proof. reflexivity. Qed.
Lemma complete_db : forall s k rl r bk v,
  st_db (complete order s k rl r bk v) = update (st_db s) k (complete_row (st_epoch s) k rl r bk v).
Proof. reflexivity. Qed.

(* the computedAt of a completed row: unchanged value => unchanged, else the current epoch *)
Lemma complete_row_cases : forall e k rl r bk v,
  let r' := complete_row e k rl r bk v in
  (res_value r' = res_value r /\ res_computedAt r' = res_computedAt r) \/ res_computedAt r' = e.
Proof.
  intros e k rl r bk v. cbn. destruct (res_value r) as [old|]; [|now right].
  destruct (value_eqb old v) eqn:Ev; cbn; [left | now right].
  apply value_eqb_eq in Ev. now subst.
Qed.

Lemma complete_row_computed_le : forall e k rl r bk v, res_computedAt r <= e ->
  res_computedAt (complete_row e k rl r bk v) <= e.
Proof.
  intros e k rl r bk v H. cbn. destruct (match res_value r with Some old => negb (value_eqb old v) | None => true end); lia.
Qed.

(* L4: the task of k finished; k enters its window (exempt from [rows] and [closed]) *)
Lemma Good_complete : forall E s k r bk v,
  G E s -> get (st_mem s) k = r -> ~ done s k -> Some v = cvk k ->
  G (fun x => x = k \/ E x) (complete order s k (rules k) r bk v).
Proof.
  intros E s k r bk v (Hbnd & Hsync & Hrows & Hcl & Hcur & Hex) Hr Hnd Hv.
  set (s6 := complete order s k (rules k) r bk v).
  set (r' := complete_row (st_epoch s) k (rules k) r bk v).
  assert (Hm : st_mem s6 = update (st_mem s) k r') by reflexivity.
  assert (Hdb : st_db s6 = update (st_db s) k r') by reflexivity.
  assert (He : st_epoch s6 = st_epoch s) by reflexivity.
  assert (Hdone : forall x, done s6 x <-> x = k \/ done s x).
  { intros x. unfold done. rewrite Hm, He. destruct (N.eq_dec x k) as [->|Hne].
    - rewrite get_update_same. cbn. tauto.
    - rewrite get_update_other by exact Hne. tauto. }
  assert (Hrle : res_computedAt r <= st_epoch s) by (specialize (Hbnd k); rewrite Hr in Hbnd; lia).
  unfold Good. repeat apply conj.
  - intros x. rewrite Hm, Hdb, He. specialize (Hbnd x). destruct (N.eq_dec x k) as [->|Hne].
    + rewrite !get_update_same. pose proof (complete_row_computed_le (st_epoch s) k (rules k) r bk v Hrle) as Hle.
      fold r' in Hle. assert (res_builtAt r' = st_epoch s) by reflexivity. lia.
    + now rewrite !get_update_other.
  - intros x. rewrite Hm, Hdb. specialize (Hsync x). cbn zeta in *. destruct (N.eq_dec x k) as [->|Hne].
    + rewrite !get_update_same. repeat split; auto. lia.
    + now rewrite !get_update_other.
  - intros x Hx. assert (Hne : x <> k) by tauto. assert (HxE : ~ E x) by tauto.
    rewrite Hm. rewrite get_update_other by exact Hne. specialize (Hrows x HxE).
    pose proof (complete_row_cases (st_epoch s) k (rules k) r bk v) as Hcase. cbn zeta in Hcase. fold r' in Hcase.
    destruct Hcase as [[Hv1 Hc1]|Hc2].
    + apply row_ok_quiet with (m := st_mem s); auto.
      * intros y. apply stored_update_quiet. now rewrite Hr.
      * intros y. apply computed_update_quiet. now rewrite Hr.
    + apply row_ok_changed with (m := st_mem s) (k := k); auto.
      * intros y Hy. now apply get_update_other.
      * intros Hin. rewrite get_update_same, Hc2. apply in_map_iff in Hin. destruct Hin as [d [Hdk Hd]].
        destruct (done_dec s x) as [Hdx|Hndx].
        -- exfalso. apply Hnd. rewrite <- Hdk. now apply (Hcl x HxE Hdx).
        -- unfold done in Hndx. specialize (Hbnd x). lia.
  - intros x Hx Hdx d Hin. assert (Hne : x <> k) by tauto. assert (HxE : ~ E x) by tauto.
    rewrite Hm in Hin. rewrite get_update_other in Hin by exact Hne. apply Hdone. right.
    apply (Hcl x HxE); [|exact Hin]. apply Hdone in Hdx. tauto.
  - intros x Hdx. rewrite Hm. apply Hdone in Hdx. unfold stored. destruct (N.eq_dec x k) as [->|Hne].
    + rewrite get_update_same. cbn. exact Hv.
    + rewrite get_update_other by exact Hne. apply Hcur. tauto.
  - intros x [->|Hx]; apply Hdone; [now left | right; now apply Hex].
Qed.

(* ---------- the dependencies recorded by complete ---------- *)

Lemma in_complete_deps : forall e k rl r bk v d,
  In d (res_deps (complete_row e k rl r bk v)) <->
  In d (requested_deps rl bk) \/ In d (map (fun x => mkDep x false false) (r_disc rl)).
Proof.
  intros e k rl r bk v d. cbn [complete_row res_deps]. rewrite in_app_iff.
  pose proof (Horder e k (requested_deps rl bk)) as Hp. split; intros [H|H]; auto; left.
  - eapply Permutation_in; [apply Permutation_sym; exact Hp | exact H].
  - eapply Permutation_in; [exact Hp | exact H].
Qed.

Lemma in_requested_deps : forall rl bk d, In d (requested_deps rl bk) <->
  (exists x, In x (r_req rl) /\ d = mkDep x false false) \/ (exists x, In x (r_single rl) /\ d = mkDep x false true) \/
  (exists x, In x (r_follow rl) /\ d = mkDep x true false) \/ (exists x, In x bk /\ d = mkDep x false false).
Proof.
  intros rl bk d. unfold requested_deps. rewrite !in_app_iff, !in_map_iff.
  split.
  - intros [H|[H|[H|H]]]; destruct H as [x [Hx1 Hx2]]; [left|right;left|right;right;left|right;right;right];
      exists x; (split; [exact Hx2 | symmetry; exact Hx1]).
  - intros [H|[H|[H|H]]]; destruct H as [x [Hx1 Hx2]]; [left|right;left|right;right;left|right;right;right];
      exists x; (split; [symmetry; exact Hx2 | exact Hx1]).
Qed.

Lemma complete_cdeps_keys : forall e k rl r bk v d, In d (cdeps (complete_row e k rl r bk v)) ->
  In (d_key d) (r_req rl ++ bk ++ r_disc rl).
Proof.
  intros e k rl r bk v d Hd. apply in_cdeps in Hd. destruct Hd as (Hin & Ho & Hs).
  apply in_complete_deps in Hin. rewrite !in_app_iff. destruct Hin as [Hin|Hin].
  - apply in_requested_deps in Hin. destruct Hin as [H|[H|[H|H]]]; destruct H as [x [Hx ->]]; cbn in *;
      try discriminate; tauto.
  - apply in_map_iff in Hin. destruct Hin as [x [<- Hx]]. cbn. tauto.
Qed.

Lemma complete_inputs_recorded : forall e k rl r bk v x, In x (r_req rl ++ bk ++ r_disc rl) ->
  In (mkDep x false false) (cdeps (complete_row e k rl r bk v)).
Proof.
  intros e k rl r bk v x Hx. apply in_cdeps. split; [|split; reflexivity].
  apply in_complete_deps. rewrite !in_app_iff in Hx. destruct Hx as [Hx|[Hx|Hx]].
  - left. apply in_requested_deps. left. now exists x.
  - left. apply in_requested_deps. right; right; right. now exists x.
  - right. apply in_map_iff. now exists x.
Qed.

Lemma complete_deps_mentioned : forall e k rl r bk v d, (forall x, In x bk -> In x (br_keys rl)) ->
  In d (res_deps (complete_row e k rl r bk v)) -> In (d_key d) (mentioned rl).
Proof.
  intros e k rl r bk v d Hbk Hin. apply in_mentioned. apply in_complete_deps in Hin. destruct Hin as [Hin|Hin].
  - apply in_requested_deps in Hin. destruct Hin as [H|[H|[H|H]]]; destruct H as [x [Hx ->]]; cbn; auto.
    right; right; right; left. now apply Hbk.
  - apply in_map_iff in Hin. destruct Hin as [x [<- Hx]]. cbn. tauto.
Qed.

(* L5: all discovered dependencies are complete: the window of k closes *)
Lemma Good_close : forall E s k r v,
  let bk := branch_keys (rules k) (map cvk (r_req (rules k))) in
  G (fun x => x = k \/ E x) s ->
  get (st_mem s) k = complete_row (st_epoch s) k (rules k) r bk v ->
  Some v = cvk k ->
  (forall x, In x (r_req (rules k) ++ bk ++ r_disc (rules k)) -> done s x) ->
  G E s.
Proof.
  intros E s k r v bk (Hbnd & Hsync & Hrows & Hcl & Hcur & Hex) Hr Hv Hdone.
  unfold Good. repeat apply conj; auto.
  - intros x Hx. destruct (N.eq_dec x k) as [->|Hne]; [|apply Hrows; tauto].
    rewrite Hr. intros _. cbn [res_sig complete_row]. rewrite (HR k). exists v. split; [reflexivity|]. split; [|split].
    + intros Ho. rewrite cvk_value in Hv. inversion Hv. cbn. unfold obs. now rewrite Ho.
    + intros d Hd. apply in_drop_single in Hd. destruct Hd as [Hd _].
      apply complete_deps_mentioned in Hd; [exact Hd|]. intros y. apply branch_keys_incl.
    + intros _. apply concl_of_clean; auto. intros y Hy. now apply complete_inputs_recorded.
  - intros x Hx Hdx d Hd. destruct (N.eq_dec x k) as [->|Hne]; [|apply (Hcl x); tauto].
    rewrite Hr in Hd. apply complete_cdeps_keys in Hd. now apply Hdone.
Qed.

End St.
