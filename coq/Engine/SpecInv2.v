(* C01 - preservation of the invariant by the elementary state changes of one [ensure] step
   (cleaning of single-use dependencies, marking complete after a scan, [complete], closing the window). *)
From LLB Require Import Engine.Rules Engine.Spec Engine.SpecFrame Engine.SpecInv1.
From Coq Require Import List NArith Bool Lia Arith Permutation.
Local Open Scope N_scope.

Section Rows.
Variable rules : key -> rule.
Variable F : key -> N -> list value -> list N -> N -> N.

Local Notation rok := (row_ok rules F).
Local Notation rcl := (row_concl rules F).

(* the conclusion of a row only looks at the stored values of its recorded inputs *)
Lemma row_concl_transfer : forall m m' x r v,
  rcl m x r v ->
  (forall y, In (mkDep y false false) (cdeps r) -> stored m' y = stored m y) ->
  rcl m' x r v.
Proof.
  intros m m' x r v [Hv Hin] Hst. unfold row_concl in *. cbn zeta in *.
  assert (H1 : map (stored m') (r_req (rules x)) = map (stored m) (r_req (rules x))).
  { apply map_ext_in. intros y Hy. apply Hst, Hin. apply in_or_app. now left. }
  rewrite H1.
  set (bk := branch_keys (rules x) (map (stored m) (r_req (rules x)))) in *.
  assert (H2 : map (stored m') bk = map (stored m) bk).
  { apply map_ext_in. intros y Hy. apply Hst, Hin. apply in_or_app. right. apply in_or_app. now left. }
  assert (H3 : map (stamp_of m') (r_disc (rules x)) = map (stamp_of m) (r_disc (rules x))).
  { apply map_ext_in. intros y Hy. unfold stamp_of. rewrite Hst; [reflexivity|].
    apply Hin. apply in_or_app. right. apply in_or_app. now right. }
  rewrite H2, H3. split; assumption.
Qed.

Lemma fresh_deps_ext : forall m m' r,
  (forall d, In d (cdeps r) -> res_computedAt (get m' (d_key d)) = res_computedAt (get m (d_key d))) ->
  fresh_deps m r -> fresh_deps m' r.
Proof. intros m m' r H Hf d Hd. rewrite H by exact Hd. now apply Hf. Qed.

(* A: the memory changes, but no stored value and no computedAt does *)
Lemma row_ok_quiet : forall m m' x r,
  (forall y, stored m' y = stored m y) ->
  (forall y, res_computedAt (get m' y) = res_computedAt (get m y)) ->
  rok m x r -> rok m' x r.
Proof.
  intros m m' x r Hst Hc Hok. unfold row_ok in *. intros Hb Hs. destruct (Hok Hb Hs) as (v & Hv & Ho & Hd & Hcl).
  exists v. split; [exact Hv|]. split; [exact Ho|]. split; [exact Hd|]. intros Hf.
  apply row_concl_transfer with (m := m); [|intros; apply Hst].
  apply Hcl. apply fresh_deps_ext with (m := m'); [|exact Hf]. intros; symmetry; apply Hc.
Qed.

(* B: only key k changes, and either k is not a checked dependency of the row or it is now newer than the row *)
Lemma row_ok_changed : forall m m' k x r,
  (forall y, y <> k -> get m' y = get m y) ->
  (In k (map d_key (cdeps r)) -> res_builtAt r < res_computedAt (get m' k)) ->
  rok m x r -> rok m' x r.
Proof.
  intros m m' k x r Hoth Hnew Hok. unfold row_ok in *. intros Hb Hs. destruct (Hok Hb Hs) as (v & Hv & Ho & Hd & Hcl).
  exists v. split; [exact Hv|]. split; [exact Ho|]. split; [exact Hd|]. intros Hf.
  destruct (in_dec N.eq_dec k (map d_key (cdeps r))) as [Hin|Hnin].
  - exfalso. specialize (Hnew Hin). apply in_map_iff in Hin. destruct Hin as [d [Hk Hd']]. subst k.
    specialize (Hf d Hd'). lia.
  - assert (Hne : forall d, In d (cdeps r) -> d_key d <> k).
    { intros d Hd' Heq. apply Hnin. apply in_map_iff. now exists d. }
    apply row_concl_transfer with (m := m).
    + apply Hcl. apply fresh_deps_ext with (m := m'); [|exact Hf]. intros d Hd'. now rewrite Hoth by auto.
    + intros y Hy. unfold stored. rewrite Hoth; [reflexivity|]. apply (Hne _ Hy).
Qed.

End Rows.
