(* C02, part 10: the null build across a restart.  An invariant of the states between builds relates the database rows
   to the memory results; it holds initially and is preserved by builds (successful or not) and restarts.  With it,
   the rules brought up to date by a successful build are settled in the database too, so a new engine instance
   over the same database executes nothing when it builds them again. *)
From LLB Require Import Engine.Rules Engine.Spec Engine.SpecOnceFrame Engine.SpecOnce1 Engine.SpecOnce2 Engine.SpecOnce3
  Engine.SpecOnce6 Engine.SpecOnce7 Engine.SpecOnce8 Engine.SpecOnce9.
From Coq Require Import List NArith Bool Lia Arith.
Local Open Scope N_scope.

Definition mem_db_agree (s : state) : Prop :=
  forall x, let m := get (st_mem s) x in let b := get (st_db s) x in
    res_value b = res_value m /\ res_sig b = res_sig m /\ res_computedAt b = res_computedAt m /\
    drop_single (res_deps b) = drop_single (res_deps m) /\ res_builtAt b <= res_builtAt m /\
    (res_builtAt b = 0 -> res_builtAt m = 0).

(* a recorded dependency of a database row was not computed after the row was written, unless the rule is
   already known (in memory) to be older than the dependency, i.e. it will re-run when next scanned *)
Definition db_quiet (s : state) : Prop :=
  forall x d, In d (drop_single (res_deps (get (st_db s) x))) -> d_order d = false ->
    res_computedAt (get (st_mem s) (d_key d)) <= res_builtAt (get (st_mem s) x) ->
    res_computedAt (get (st_mem s) (d_key d)) <= res_builtAt (get (st_db s) x).

Definition dbinv (s : state) : Prop :=
  bounded s /\ st_db_epoch s = st_epoch s /\ mem_db_agree s /\ db_quiet s.

Lemma get_nil : forall x, get [] x = empty_result.
Proof. reflexivity. Qed.

Lemma dbinv_empty : forall l, dbinv (mkSt [] 0 [] 0 [] l).
Proof.
  intros l. unfold dbinv, bounded, mem_db_agree, db_quiet. cbn [st_mem st_db st_epoch st_db_epoch].
  split; [intros x; rewrite get_nil; cbn; lia|]. split; [reflexivity|].
  split; [intros x; rewrite get_nil; cbn; repeat split; try reflexivity; lia|].
  intros x d Hd. rewrite get_nil in Hd. destruct Hd.
Qed.

Lemma dbinv_init : dbinv init_state.
Proof. apply dbinv_empty. Qed.

Lemma dbinv_restart_nodb : forall s, dbinv (restart_nodb s).
Proof. intros s. apply dbinv_empty. Qed.

Lemma dbinv_restart : forall s, dbinv s -> dbinv (restart s).
Proof.
  intros s (Hb & He & Ha & Hq). unfold dbinv, bounded, mem_db_agree, db_quiet, restart. cbn [st_mem st_db st_epoch st_db_epoch].
  split.
  - intros x. destruct (Ha x) as (_ & _ & A3 & _ & A5 & _). destruct (Hb x) as [B1 B2]. rewrite He. split; lia.
  - split; [reflexivity|]. split; [intros x; repeat split; try reflexivity; lia|]. intros x d _ _ H. exact H.
Qed.

Lemma dbinv_log : forall s e, dbinv s -> dbinv (emit s e).
Proof. intros s e H. exact H. Qed.

Section Restart.
Variable rules : key -> rule.
Variable env : key -> N.
Variable F : key -> N -> list value -> list N -> N -> N.
Variable order : N -> key -> list dep -> list dep.

Lemma key_trans_computedAt : forall ok x e r r' cr, key_trans rules env order ok x e r r' cr ->
  res_computedAt r' = res_computedAt r \/ res_computedAt r' = e.
Proof.
  intros ok x e r r' cr [[_ [->|[->|[_ ->]]]]|[_ [(v & bk & _ & ->)|[_ ->]]]]; cbn; try (now left).
  destruct (changed_b r v); [now right | now left].
Qed.

Lemma db_l_weaken : forall s s' l, db_l true s s' l -> db_l false s s' l.
Proof. intros s s' l H x Hx. destruct (H x Hx) as [Q|(Q & _)]; [now left | discriminate]. Qed.

Theorem dbinv_build : forall fuel s k s1, dbinv s -> ostate (build rules env F order fuel s k) = Some s1 -> dbinv s1.
Proof.
  intros fuel s k s1 Inv E. pose proof Inv as (Hb & He & Ha & Hq).
  pose proof (build_bounded rules env F order _ _ _ _ E Hb) as Hb1.
  destruct (build_new_log rules env F order _ _ _ _ E) as (t & Et & -> & _).
  set (s0 := bump_epoch s) in *. set (e := st_epoch s0).
  assert (Hee : e = st_epoch s + 1) by reflexivity.
  destruct (ensure_frame rules env F order fuel [] s0 k) as [A0 _].
  pose proof (frame_o_st _ _ _ _ A0 Et) as A.
  assert (T : trans_l rules env order false s0 t (new_log s0 t)).
  { pose proof (ensure_trans rules env order F fuel [] s0 k) as T.
    destruct (ensure rules env F order fuel [] s0 k) as [t'|t' p|]; cbn [ostate] in Et; inversion Et; subst t'; cbn [trans_o] in T;
      [intros x; apply key_trans_weaken; apply T | exact T]. }
  assert (DB : db_l false s0 t (new_log s0 t)).
  { destruct (ensure_db_vq rules env F order fuel [] s0 k) as [DB _].
    destruct (ensure rules env F order fuel [] s0 k) as [t'|t' p|]; cbn [ostate] in Et; inversion Et; subst t'; cbn [db_o] in DB;
      [now apply db_l_weaken | exact DB]. }
  assert (VQ : vq_l s0 t (new_log s0 t)).
  { destruct (ensure_db_vq rules env F order fuel [] s0 k) as [_ VQ]. now apply VQ. }
  set (l := new_log s0 t) in *.
  assert (Hnd0 : forall x, ~ done s0 x).
  { intros x C. unfold done, s0 in C. cbn [bump_epoch st_mem st_epoch] in C. destruct (Hb x) as [_ B]. lia. }
  assert (Het : st_epoch t = e) by exact (fr_epoch _ _ _ _ _ A).
  (* the three shapes of what happened to one rule *)
  assert (Shape : forall x,
     (get (st_db t) x = get (st_mem t) x /\ res_builtAt (get (st_mem t) x) = e)
     \/ (get (st_db t) x = get (st_db s) x /\
         (get (st_mem t) x = get (st_mem s) x \/ get (st_mem t) x = clean (get (st_mem s) x)))
     \/ (get (st_db t) x = get (st_db s) x /\ get (st_mem t) x = validated e (get (st_mem s) x) /\
         res_builtAt (get (st_mem s) x) <> 0 /\
         forall d, In d (drop_single (res_deps (get (st_mem s) x))) -> dep_quiet t (get (st_mem s) x) d)).
  { intros x. destruct (in_dec N.eq_dec x (creates l)) as [C|C].
    - destruct (DB x C) as [[Q1 Q2]|(_ & Q2 & Q3)].
      + left. split; [exact Q1|]. unfold done in Q2. now rewrite Q2.
      + right; left. split; [exact Q2|]. right. exact Q3.
    - pose proof (fr_db_keep _ _ _ _ _ A x C) as Kd. change (st_db s0) with (st_db s) in Kd.
      destruct (T x) as [[_ [Q|[Q|[_ Q]]]]|[C' _]]; [| | |contradiction].
      + right; left. split; [exact Kd|]. left. exact Q.
      + right; right. split; [exact Kd|]. split; [exact Q|]. exact (VQ x C (Hnd0 x) Q).
      + right; left. split; [exact Kd|]. right. exact Q. }
  assert (Comp : forall y, res_computedAt (get (st_mem t) y) = res_computedAt (get (st_mem s) y)
                        \/ res_computedAt (get (st_mem t) y) = e).
  { intros y. exact (key_trans_computedAt _ _ _ _ _ _ (T y)). }
  unfold dbinv. split; [exact Hb1|]. split; [reflexivity|]. unfold mem_db_agree, db_quiet. cbn [commit_epoch st_mem st_db st_epoch].
  split.
  - intros x. cbv zeta. destruct (Ha x) as (A1 & A2 & A3 & A4 & A5 & A6). destruct (Hb x) as [B1 B2].
    destruct (Shape x) as [[Q1 _]|[(Q1 & [Q2|Q2])|(Q1 & Q2 & Q3 & _)]]; rewrite Q1.
    + repeat split; try reflexivity; try lia; try tauto.
    + rewrite Q2. repeat split; assumption.
    + rewrite Q2. unfold clean. cbn [res_value res_sig res_computedAt res_deps res_builtAt].
      rewrite drop_single_idem. repeat split; assumption.
    + rewrite Q2. unfold validated. cbn [res_value res_sig res_computedAt res_deps res_builtAt].
      rewrite drop_single_idem. repeat split; try assumption; [lia|]. intros Z. exfalso. apply Q3. now apply A6.
  - intros x d Hd Ho Hp. destruct (Hb x) as [_ B2]. destruct (Ha x) as (_ & _ & _ & A4 & _).
    destruct (Shape x) as [[Q1 _]|[(Q1 & Q2)|(Q1 & Q2 & Q3 & Q4)]].
    + rewrite Q1. exact Hp.
    + rewrite Q1 in Hd |- *.
      assert (Hbx : res_builtAt (get (st_mem t) x) = res_builtAt (get (st_mem s) x)) by (destruct Q2 as [->| ->]; reflexivity).
      rewrite Hbx in Hp. destruct (Comp (d_key d)) as [Cd|Cd]; [|lia].
      rewrite Cd in *. now apply Hq.
    + rewrite Q1 in Hd |- *. rewrite A4 in Hd. destruct (Q4 d Hd) as [_ [Qo|Qc]]; [congruence|].
      destruct (Comp (d_key d)) as [Cd|Cd]; [|lia].
      rewrite Cd in *. apply Hq; [now rewrite A4 | exact Ho | exact Qc].
Qed.

Hypothesis Horder : forall e k l d, In d (order e k l) -> In d l.

(* the rules complete at the end of a successful build are settled for a new engine instance over the database *)
Lemma build_settles_db : forall fuel s k s1 t, dbinv s -> build rules env F order fuel s k = Ok s1 ->
  st_mem t = st_db s1 -> st_epoch t = st_db_epoch s1 -> st_flag t = [] ->
  settled rules env (fun x => res_builtAt (get (st_mem s1) x) = st_epoch s1) (bump_epoch t).
Proof.
  intros fuel s k s1 t Inv E Mt Et Ft.
  assert (E' : ostate (build rules env F order fuel s k) = Some s1) by now rewrite E.
  pose proof (dbinv_build _ _ _ _ Inv E') as (Hb1 & He1 & Ha1 & Hq1).
  destruct Inv as (Hb & _).
  unfold build in E.
  destruct (ensure rules env F order fuel [] (bump_epoch s) k) as [s1'|s1' p|] eqn:E1; inversion E. subst s1. clear E.
  assert (G0 : good_done rules env [] (bump_epoch s)).
  { intros x Hx _. exfalso. unfold done in Hx. cbn [bump_epoch st_mem st_epoch] in Hx. destruct (Hb x) as [_ B]. lia. }
  pose proof (ensure_good rules env F order Horder _ _ _ _ _ E1 G0) as G.
  destruct (ensure_frame rules env F order fuel [] (bump_epoch s) k) as [A _]. rewrite E1 in A. cbn [frame_o] in A.
  assert (Hep : st_epoch s1' = st_epoch s + 1) by exact (fr_epoch _ _ _ _ _ A).
  cbn [commit_epoch st_mem st_db st_epoch st_db_epoch] in *.
  intros x Hx. destruct (G x Hx (fun C => C)) as (Q1 & Q2 & Q3 & Q4).
  destruct (Ha1 x) as (A1 & A2 & A3 & A4 & A5 & A6). cbn [commit_epoch st_mem st_db] in A1, A2, A3, A4, A5, A6.
  unfold settled_at. cbn [bump_epoch st_mem st_epoch]. rewrite Mt, Et.
  split; [intros Z; apply A6 in Z; lia|].
  split; [unfold flagged; cbn [bump_epoch st_flag]; now rewrite Ft|].
  split; [now rewrite A2|]. split; [unfold valid in *; now rewrite A1|]. split; [lia|].
  intros d Hd. pose proof Hd as Hd'. rewrite A4 in Hd'. apply filter_In in Hd'. destruct Hd' as [Hd' _].
  specialize (Q4 d Hd'). split; [exact Q4|].
  destruct (d_order d) eqn:Eo; [now left | right].
  destruct (Ha1 (d_key d)) as (_ & _ & C3 & _). cbn [commit_epoch st_mem st_db] in C3. rewrite C3.
  apply (Hq1 x d Hd Eo). cbn [commit_epoch st_mem]. destruct (Hb1 (d_key d)) as [B _]. cbn [commit_epoch st_mem st_epoch] in B. lia.
Qed.

Theorem null_build_after_restart_gen : forall fuel1 fuel2 s k s1 t k' s2, dbinv s ->
  build rules env F order fuel1 s k = Ok s1 ->
  st_mem t = st_db s1 -> st_epoch t = st_db_epoch s1 -> st_flag t = [] ->
  res_builtAt (get (st_mem s1) k') = st_epoch s1 ->
  ostate (build rules env F order fuel2 t k') = Some s2 ->
  creates (new_log t s2) = [].
Proof.
  intros fuel1 fuel2 s k s1 t k' s2 Inv E1 Mt Et Ft Hk' E2.
  pose proof (build_settles_db _ _ _ _ t Inv E1 Mt Et Ft) as St.
  destruct (build_new_log rules env F order _ _ _ _ E2) as (u & Eu & _ & ->).
  destruct (ensure_null rules env _ F order fuel2 [] (bump_epoch t) k' Hk' St u Eu) as (l & L & C & _).
  now rewrite (new_log_intro _ _ _ L).
Qed.

Theorem null_build_after_restart : forall fuel1 fuel2 s k s1 k' s2, dbinv s ->
  build rules env F order fuel1 s k = Ok s1 ->
  res_builtAt (get (st_mem s1) k') = st_epoch s1 ->
  ostate (build rules env F order fuel2 (restart s1) k') = Some s2 ->
  creates (new_log (restart s1) s2) = [].
Proof.
  intros fuel1 fuel2 s k s1 k' s2 Inv E1 Hk' E2.
  eapply null_build_after_restart_gen; try eassumption; reflexivity.
Qed.

End Restart.
