(* P19 - part 4: the loop (loop_iteration, run_loop) is a sequence of the steps [mstep]; so what is proved for all step
   sequences holds for the loop under every schedule. *)
From LLB Require Import Engine.Rules Engine.Spec Engine.Impl Engine.ImplProofs Engine.ImplProofsSticky.
From Coq Require Import Arith Lia.
Local Open Scope N_scope.

Section Loop.
Variable rules : key -> rule.
Variable env : key -> N.
Variable F : key -> N -> list value -> list N -> N -> N.
Variable ord : key -> list rkind.
Variable syncp : key -> bool.
Notation mstep := (mstep rules env F ord syncp).
Notation msteps := (msteps rules env F ord syncp).

Lemma msteps_trans s1 s2 s3 : msteps s1 s2 -> msteps s2 s3 -> msteps s1 s3.
Proof. intros H12 H23. induction H23 as [|a b c Hab IH Hbc]; [exact H12|]. eapply mss_step; [apply IH; exact H12|exact Hbc]. Qed.
Lemma msteps_one s s' : mstep s s' -> msteps s s'.
Proof. intros H. eapply mss_step; [apply mss_refl|exact H]. Qed.

Lemma msteps_finish_all comps : forall s, msteps s (fold_left (task_finish rules) comps s).
Proof.
  induction comps as [|t l IH]; intros s; cbn [fold_left]; [apply mss_refl|].
  eapply msteps_trans; [apply msteps_one, ms_finish|apply IH].
Qed.

Lemma msteps_drain step ne (Hs : forall s, mstep s (step s)) fuel : forall s, nf (drain step ne fuel s) -> msteps s (drain step ne fuel s).
Proof.
  induction fuel as [|f IH]; intros s; cbn [drain]; destruct (ne s); intros H; try apply mss_refl.
  - now apply nf_fault in H.
  - eapply msteps_trans; [apply msteps_one, Hs|apply IH, H].
Qed.

Lemma sticky_mstep s s' : mstep s s' -> nf s' -> nf s.
Proof.
  intros H. destruct H; [apply sticky_task_finish|apply sticky_step_scan|apply sticky_step_inreq|apply sticky_step_fininreq
                         |apply sticky_step_ready|apply sticky_step_fintask].
Qed.
Lemma sticky_msteps s s' : msteps s s' -> nf s' -> nf s.
Proof. induction 1; auto. intros H2. eauto using sticky_mstep. Qed.

Lemma loop_iteration_msteps stalled fuel s comps :
  nf (fst (loop_iteration_gen rules env F ord syncp stalled fuel s comps)) ->
  msteps s (fst (loop_iteration_gen rules env F ord syncp stalled fuel s comps)).
Proof.
  unfold loop_iteration_gen. cbn zeta.
  set (s0 := fold_left (task_finish rules) comps s).
  set (s1 := drain (step_scan rules env ord) _ fuel s0).
  set (s2 := drain (step_inreq rules env ord) _ fuel s1).
  set (s3 := drain (step_fininreq rules) _ fuel s2).
  set (s4 := drain (step_ready rules env F syncp) _ fuel s3).
  set (s5 := drain step_fintask _ fuel s4).
  assert (Hfst : forall b1 b2 b3 : bool, fst (if b1 then (s5, StWork) else if b2 then (s5, StWait) else if b3 then (s5, StStall) else (s5, StDone)) = s5)
    by (intros [] [] []; reflexivity).
  rewrite Hfst. intros H5.
  assert (M5 : msteps s4 s5) by (apply msteps_drain; [apply ms_fintask|exact H5]).
  pose proof (sticky_msteps _ _ M5 H5) as H4.
  assert (M4 : msteps s3 s4) by (apply msteps_drain; [apply ms_ready|exact H4]).
  pose proof (sticky_msteps _ _ M4 H4) as H3.
  assert (M3 : msteps s2 s3) by (apply msteps_drain; [apply ms_fininreq|exact H3]).
  pose proof (sticky_msteps _ _ M3 H3) as H2.
  assert (M2 : msteps s1 s2) by (apply msteps_drain; [apply ms_inreq|exact H2]).
  pose proof (sticky_msteps _ _ M2 H2) as H1.
  assert (M1 : msteps s0 s1) by (apply msteps_drain; [apply ms_scan|exact H1]).
  eapply msteps_trans; [apply msteps_finish_all|].
  repeat (eapply msteps_trans; [eassumption|]). apply mss_refl.
Qed.
End Loop.
