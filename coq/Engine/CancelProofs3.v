(* C05 - proofs about cancellation, part 3: theorems about one cancelled build. *)
From LLB Require Import Engine.Rules Engine.Spec Engine.Exec Engine.Cancel Engine.CancelProofs Engine.CancelProofs2.
From Coq Require Import List NArith Bool Lia Arith.
Local Open Scope N_scope.

(* ---------- a real cycle path is never empty ---------- *)

Definition real_o (o : outcome) : Prop := match o with Cycle _ [] => False | _ => True end.

Lemma real_bind1 : forall o f, real_o o -> (forall s1, real_o (f s1)) -> real_o (bind1 o f).
Proof. intros o f Ho Hf. destruct o as [s1|s1 p|]; cbn [bind1]; [apply Hf | exact Ho | exact I]. Qed.

Lemma real_bind2 : forall (A : Type) (p : outcome * A) f, real_o (fst p) -> (forall s1 a, real_o (f s1 a)) -> real_o (bind2 p f).
Proof. intros A [o a] f Ho Hf. unfold bind2. cbn [fst snd] in *. destruct o as [s1|s1 q|]; [apply Hf | exact Ho | exact I]. Qed.

Section Real.
Variable rules : key -> rule.
Variable env : key -> N.
Variable F : key -> N -> list value -> list N -> N -> N.
Variable order : N -> key -> list dep -> list dep.

Section RealStep.
Variable ens : list key -> state -> key -> outcome.
Hypothesis Hreal : forall st s k, real_o (ens st s k).

Lemma requests_real : forall k stack ks slot s acc, real_o (fst (requests ens k stack ks slot s acc)).
Proof.
  intros k stack ks. induction ks as [|x t IH]; intros slot s acc; cbn [requests]; [exact I|].
  pose proof (Hreal (k :: stack) s x) as H.
  destruct (ens (k :: stack) s x) as [s1|s1 p|]; cbn [fst]; [apply IH | exact H | exact I].
Qed.

Lemma follows_real : forall k stack ks s, real_o (follows ens k stack ks s).
Proof.
  intros k stack ks. induction ks as [|x t IH]; intros s; [exact I|].
  rewrite follows_cons. apply real_bind1; [apply Hreal | intros; apply IH].
Qed.

Lemma run_real : forall k stack r s, real_o (run rules env F order ens k stack r s).
Proof.
  intros. rewrite run_bind.
  apply real_bind2; [apply requests_real|]. intros s1 slots1.
  apply real_bind2; [apply requests_real|]. intros s2 slots2.
  apply real_bind1; [apply follows_real|]. intros s3.
  apply real_bind2; [apply requests_real|]. intros s4 slots3. apply follows_real.
Qed.

Lemma scan_real : forall k stack r ds s, real_o (scan rules env F order ens k stack r ds s).
Proof.
  intros k stack r ds. induction ds as [|d t IH]; intros s; [exact I|].
  rewrite scan_cons. apply real_bind1; [apply Hreal|]. intros s1.
  destruct (negb (d_order d) && (res_builtAt r <? res_computedAt (get (st_mem s1) (d_key d)))); [apply run_real | apply IH].
Qed.

Lemma ensure_body_real : forall stack s k, real_o (ensure_body rules env F order ens stack s k).
Proof.
  intros stack s k. unfold ensure_body.
  destruct (existsb (N.eqb k) stack); [exact I|].
  destruct (N.eqb (res_builtAt (get (st_mem s) k)) (st_epoch s)); [exact I|].
  cbn [res_builtAt res_sig]. set (r := mkRes _ _ _ _ _).
  destruct (N.eqb (res_builtAt (get (st_mem s) k)) 0); [apply run_real|].
  destruct (flagged (set_mem s k r) k); [apply run_real|].
  destruct (negb (N.eqb (r_sig (rules k)) (res_sig (get (st_mem s) k)))); [apply run_real|].
  destruct (negb (valid rules env k r)); [apply run_real | apply scan_real].
Qed.

End RealStep.

Theorem ensure_real : forall fuel stack s k, real_o (ensure rules env F order fuel stack s k).
Proof.
  induction fuel as [|f IH]; intros stack s k; cbn [ensure]; [exact I|]. apply ensure_body_real. exact IH.
Qed.

End Real.

(* ---------- c05_returns_failure ---------- *)

(* number of events a state has logged beyond a log of length base *)
Definition events_since (base : nat) (s : state) : nat := (length (st_log s) - base)%nat.
Definition events_of (base : nat) (o : outcome) : nat :=
  match o with Ok s' | Cycle s' _ => events_since base s' | OutOfFuel => 0%nat end.

Section Build.
Variable rules : key -> rule.
Variable env : key -> N.
Variable F : key -> N -> list value -> list N -> N -> N.
Variable order : N -> key -> list dep -> list dep.

Let buildc := build_cancel rules env F order.
Let buildp := build rules env F order.

(* Either the cancellation request came too late to be seen (same outcome as the plain build), or the build fails:
   it stopped at a state s1 the plain build passes through, where at least n events had been logged. *)
Theorem returns_failure : forall n fuel s k,
  buildc n fuel s k = buildp fuel s k \/
  exists s1, buildc n fuel s k = Cycle (commit_epoch (cancel_reset s1 (length (st_log s)))) [] /\
             (n <= events_since (length (st_log s)) s1)%nat /\
             ext s s1 /\ st_epoch s1 = st_epoch s + 1 /\ grows s1 (buildp fuel s k).
Proof.
  intros n fuel s k. unfold buildc, buildp, build_cancel, build_cancel_with, build.
  destruct (ensure_c_sim rules env F order n (length (st_log s)) fuel [] (bump_epoch s) k) as [E|[s1 [E [Hb Hg]]]].
  - left. rewrite E. pose proof (ensure_real rules env F order fuel [] (bump_epoch s) k) as Hr.
    destruct (ensure rules env F order fuel [] (bump_epoch s) k) as [s1|s1 p|]; try reflexivity.
    destruct p; [contradiction Hr | reflexivity].
  - right. exists s1. pose proof (ensure_c_inv rules env F order n (length (st_log s)) fuel [] (bump_epoch s) k) as Hi.
    rewrite E in *. split; [reflexivity|]. split; [apply Nat.leb_le; exact Hb|].
    destruct Hi as [l Hi]. split; [exists l; apply (ci_log _ _ _ _ _ _ Hi)|].
    split; [apply (ci_epoch _ _ _ _ _ _ Hi)|].
    destruct (ensure rules env F order fuel [] (bump_epoch s) k) as [s2|s2 p|]; cbn [grows] in *; try exact Hg.
Qed.

(* a request that arrives after the last event of the build changes nothing *)
Theorem cancel_after_end : forall n fuel s k o, buildp fuel s k = o -> o <> OutOfFuel ->
  (events_of (length (st_log s)) o < n)%nat -> buildc n fuel s k = o.
Proof.
  intros n fuel s k o Ho Hne Hlt. destruct (returns_failure n fuel s k) as [E|[s1 [_ [Hn [_ [_ Hg]]]]]].
  - now rewrite E.
  - exfalso. rewrite Ho in Hg. unfold events_since in *.
    destruct o as [s2|s2 p|]; cbn [grows events_of] in *; [| |now apply Hne];
      destruct Hg as [l Hl]; unfold events_since in Hlt; rewrite Hl, app_length in Hlt; lia.
Qed.

(* a request already pending at the first test stops the build before anything happens *)
Theorem cancel_at_once : forall fuel s k,
  buildc 0 (S fuel) s k = Cycle (commit_epoch (bump_epoch s)) [].
Proof.
  intros fuel s k. unfold buildc, build_cancel, build_cancel_with. cbn [ensure_c].
  unfold budget_reached. cbn [Nat.leb]. f_equal.
  unfold cancel_reset, build_log. cbn [bump_epoch st_log]. rewrite Nat.sub_diag. cbn [firstn in_progress created_keys filter app].
  reflexivity.
Qed.

End Build.

(* The literal reading "a budget smaller than the number of events of the full build aborts" is false of this model
   (and of the engine): the request is only noticed at the next test, and after the last test the build runs to its
   end.  One rule without inputs: 5 events, the only test happens before the first one. *)
Definition ord_id (_ : N) (_ : key) (l : list dep) : list dep := l.
Definition lit_rules : key -> rule := fun _ => default_rule.
Definition lit_env : key -> N := fun _ => 0.
Definition state_of (o : outcome) : state := match o with Ok s | Cycle s _ => s | OutOfFuel => init_state end.

Theorem returns_failure_literal_refuted :
  exists rules env F order n fuel s k s',
    build rules env F order fuel s k = Ok s' /\ (n < events_of (length (st_log s)) (Ok s'))%nat /\
    build_cancel rules env F order n fuel s k = Ok s'.
Proof.
  exists lit_rules, lit_env, mixF, ord_id, 1%nat, 3%nat, init_state, 1.
  exists (state_of (build lit_rules lit_env mixF ord_id 3 init_state 1)).
  split; [vm_compute; reflexivity|]. split; [vm_compute; lia | vm_compute; reflexivity].
Qed.

(* ---------- the state a (possibly cancelled) build leaves behind ---------- *)

Definition has_state (o : outcome) (s' : state) : Prop := o = Ok s' \/ exists p, o = Cycle s' p.

Lemma build_log_ext : forall s s' l, st_log s' = l ++ st_log s -> build_log s' (length (st_log s)) = l.
Proof.
  intros s s' l H. unfold build_log. rewrite H, app_length.
  replace (length l + length (st_log s) - length (st_log s))%nat with (length l) by lia.
  rewrite firstn_app, firstn_all, Nat.sub_diag. cbn [firstn]. apply app_nil_r.
Qed.

Section After.
Variable rules : key -> rule.
Variable env : key -> N.
Variable F : key -> N -> list value -> list N -> N -> N.
Variable order : N -> key -> list dep -> list dep.

(* s1: the state when the traversal ended or was stopped; l: the events of this build *)
Definition left_behind (s : state) (o : outcome) (s' : state) (s1 : state) (l : list event) : Prop :=
  cinv rules order [] (bump_epoch s) s1 l /\
  st_log s' = st_log s1 /\ st_mem s' = st_mem s1 /\ st_db s' = st_db s1 /\
  st_epoch s' = st_epoch s + 1 /\ st_db_epoch s' = st_epoch s + 1 /\
  ((o <> Cycle s' [] /\ st_flag s' = st_flag s1) \/ (o = Cycle s' [] /\ st_flag s' = in_progress l ++ st_flag s1)).

Lemma build_cancel_left_behind : forall n fuel s k o s',
  build_cancel rules env F order n fuel s k = o -> has_state o s' -> exists s1 l, left_behind s o s' s1 l.
Proof.
  intros n fuel s k o s' Hb Hs. unfold build_cancel, build_cancel_with in Hb.
  pose proof (ensure_c_inv rules env F order n (length (st_log s)) fuel [] (bump_epoch s) k) as Hi.
  destruct (ensure_c rules env F order n (length (st_log s)) fuel [] (bump_epoch s) k) as [s1|s1 p|].
  - destruct Hi as [l Hi]. exists s1, l. subst o. destruct Hs as [E|[p E]]; [|discriminate E]. inversion E. subst s'.
    pose proof (ci_epoch _ _ _ _ _ _ Hi) as He. cbn [bump_epoch st_epoch] in He.
    unfold left_behind. cbn [commit_epoch st_log st_mem st_db st_epoch st_db_epoch st_flag].
    refine (conj Hi (conj eq_refl (conj eq_refl (conj eq_refl (conj He (conj He _)))))). left. split; [intros C; discriminate C | reflexivity].
  - destruct Hi as [l Hi]. exists s1, l.
    pose proof (ci_epoch _ _ _ _ _ _ Hi) as He. cbn [bump_epoch st_epoch] in He.
    pose proof (ci_log _ _ _ _ _ _ Hi) as Hl. cbn [bump_epoch st_log] in Hl.
    destruct p as [|x p].
    + subst o. destruct Hs as [E|[p E]]; [discriminate E|]. inversion E. subst s' p.
      unfold left_behind. cbn [commit_epoch cancel_reset st_log st_mem st_db st_epoch st_db_epoch st_flag].
      refine (conj Hi (conj eq_refl (conj eq_refl (conj eq_refl (conj He (conj He _)))))). right. split; [reflexivity|]. now rewrite (build_log_ext _ _ _ Hl).
    + subst o. destruct Hs as [E|[q E]]; [discriminate E|]. inversion E. subst s' q.
      unfold left_behind. cbn [commit_epoch st_log st_mem st_db st_epoch st_db_epoch st_flag].
      refine (conj Hi (conj eq_refl (conj eq_refl (conj eq_refl (conj He (conj He _)))))). left. split; [intros C; discriminate C | reflexivity].
  - subst o. destruct Hs as [E|[p E]]; discriminate E.
Qed.

Lemma existsb_filter_key : forall (f : key -> bool) ks x,
  existsb (N.eqb x) (filter f ks) = existsb (N.eqb x) ks && f x.
Proof.
  intros f ks x. induction ks as [|y t IH]; [reflexivity|]. cbn [filter existsb].
  destruct (N.eqb x y) eqn:E.
  - apply N.eqb_eq in E. subst y. destruct (f x) eqn:Ef; cbn [existsb orb andb].
    + now rewrite N.eqb_refl.
    + rewrite IH. apply andb_false_r.
  - destruct (f y); cbn [existsb orb]; rewrite ?E; exact IH.
Qed.

Lemma existsb_created_keys : forall l x, existsb (N.eqb x) (created_keys l) = created_in l x.
Proof.
  intros l x. unfold created_in. induction l as [|e t IH]; [reflexivity|].
  destruct e; cbn [created_keys existsb is_create orb]; try exact IH.
  rewrite IH. now rewrite (N.eqb_sym x k).
Qed.

Lemma in_progress_spec : forall l x,
  existsb (N.eqb x) (in_progress l) = created_in l x && negb (completed_in l x).
Proof. intros. unfold in_progress. now rewrite existsb_filter_key, existsb_created_keys. Qed.

Lemma created_in_true : forall l x, created_in l x = true <-> In (ECreate x) l.
Proof.
  intros l x. unfold created_in. rewrite existsb_exists. split.
  - intros [e [Hin He]]. destruct e; cbn [is_create] in He; try discriminate.
    apply N.eqb_eq in He. subst. exact Hin.
  - intros Hin. exists (ECreate x). split; [exact Hin|]. cbn [is_create]. apply N.eqb_refl.
Qed.

(* c05_persisted_only_completed *)
Theorem persisted_only_completed : forall n fuel s k o s',
  build_cancel rules env F order n fuel s k = o -> has_state o s' ->
  (forall x, get (st_db s') x = get (st_db s) x \/
             exists v, In (EComplete x v) (build_log s' (length (st_log s))) /\
                       row_of_completion rules order (st_epoch s + 1) x v (get (st_db s') x)) /\
  (forall x, completed_in (build_log s' (length (st_log s))) x = false -> get (st_db s') x = get (st_db s) x).
Proof.
  intros n fuel s k o s' Hb Hs. destruct (build_cancel_left_behind _ _ _ _ _ _ Hb Hs) as [s1 [l [Hi [Hl [_ [Hdb _]]]]]].
  pose proof (ci_log _ _ _ _ _ _ Hi) as Hl1. cbn [bump_epoch st_log] in Hl1. rewrite <- Hl in Hl1.
  rewrite (build_log_ext _ _ _ Hl1), Hdb.
  assert (A : forall x, get (st_db s1) x = get (st_db s) x \/
             exists v, In (EComplete x v) l /\ row_of_completion rules order (st_epoch s + 1) x v (get (st_db s1) x)).
  { intros x. exact (ci_db _ _ _ _ _ _ Hi x). }
  split; [exact A|]. intros x Hc. destruct (A x) as [E|[v [Hin _]]]; [exact E|].
  exfalso. exact (completed_in_false _ _ _ Hc Hin).
Qed.

(* c05_flags_exact *)
Theorem flags_exact : forall n fuel s k s',
  build_cancel rules env F order n fuel s k = Cycle s' [] ->
  forall x, flagged s' x =
            (flagged s x || created_in (build_log s' (length (st_log s))) x)
            && negb (completed_in (build_log s' (length (st_log s))) x).
Proof.
  intros n fuel s k s' Hb x.
  assert (Hs : has_state (Cycle s' []) s') by (right; eexists; reflexivity).
  destruct (build_cancel_left_behind _ _ _ _ _ _ Hb Hs) as [s1 [l [Hi [Hl [_ [_ [_ [_ Hf]]]]]]]].
  pose proof (ci_log _ _ _ _ _ _ Hi) as Hl1. cbn [bump_epoch st_log] in Hl1. rewrite <- Hl in Hl1.
  rewrite (build_log_ext _ _ _ Hl1).
  destruct Hf as [[C _]|[_ Hf]]; [exfalso; now apply C|].
  unfold flagged at 1. rewrite Hf, existsb_app, in_progress_spec.
  change (existsb (N.eqb x) (st_flag s1)) with (flagged s1 x). rewrite (ci_flag _ _ _ _ _ _ Hi x).
  change (flagged (bump_epoch s) x) with (flagged s x).
  destruct (flagged s x), (created_in l x), (completed_in l x); reflexivity.
Qed.

End After.

Theorem flags_exact_iff : forall rules env F order n fuel s k s',
  build_cancel rules env F order n fuel s k = Cycle s' [] ->
  forall x, let l := build_log s' (length (st_log s)) in
  flagged s' x = true <->
  (flagged s x = true /\ ~ (exists v, In (EComplete x v) l)) \/
  (In (ECreate x) l /\ ~ (exists v, In (EComplete x v) l)).
Proof.
  intros rules env F order n fuel s k s' Hb x l. rewrite (flags_exact _ _ _ _ _ _ _ _ _ Hb x). fold l.
  rewrite andb_true_iff, orb_true_iff, negb_true_iff, created_in_true.
  assert (C : completed_in l x = false <-> ~ (exists v, In (EComplete x v) l)).
  { rewrite <- completed_in_true. destruct (completed_in l x).
    - split; [intros H; discriminate H | intros H; exfalso; now apply H].
    - split; [intros _ H; discriminate H | reflexivity]. }
  rewrite C. tauto.
Qed.
