(* ImplGen.v: the value invariants (P19b) are preserved by the steps under ANY queue discipline; the values of a run of general steps
   that ends in a state at rest. *)
From LLB Require Import Engine.Rules Engine.Spec Engine.SpecInv1 Engine.Impl Engine.ImplProofs Engine.ImplProofsSticky Engine.ImplProofsInv Engine.ImplProofsInv2
  Engine.ImplProofsInv3 Engine.ImplProofsInv9 Engine.ImplVal1 Engine.ImplVal2 Engine.ImplInc1 Engine.ImplInc2 Engine.ImplInc3 Engine.ImplInc9 Engine.ImplInc12 Engine.ImplInc13
  Engine.ImplGen Engine.ImplGenProofs Engine.ImplGenInv.
From Coq Require Import List NArith Arith Lia Permutation.
Import ListNotations.
Local Open Scope N_scope.

Section Val.
Variable rules : key -> rule.
Variable env : key -> N.
Variable F : key -> N -> list value -> list N -> N -> N.
Variable rank : key -> nat.
Variable R : key -> N -> rule.
Notation BInv := (BInv rules env F rank R).

(* the invariant looks at the queues as sets *)
Lemma BInv_members root x s s' : (forall k, rinfo_of s' k = rinfo_of s k) -> is_tasks s' = is_tasks s ->
  (forall rq, In rq (is_inreq s') <-> In rq (is_inreq s)) -> (forall rq, In rq (is_fininreq s') <-> In rq (is_fininreq s)) ->
  (forall t, In t (is_fintasks s') <-> In t (is_fintasks s)) -> (forall rq, In rq (is_toscan s') <-> In rq (is_toscan s)) ->
  is_epoch s' = is_epoch s -> sreq_scanning s -> BInv root x s -> BInv root x s'.
Proof.
  intros HR Ht Hi Hf Hft Hts He Hss (HT & HC & HS).
  assert (HK : forall k, kind_of s' k = kind_of s k) by (intros; unfold kind_of; now rewrite HR).
  assert (HRes : forall k, res_of s' k = res_of s k) by (intros; unfold res_of; now rewrite HR).
  assert (Htk : forall t, task_of s' t = task_of s t) by (intros; unfold task_of; now rewrite Ht).
  assert (Hcurk : forall k, curk s' k <-> curk s k) by (intros; now apply curk_same).
  assert (HU : forall rq, Unrouted s rq <-> Unrouted s' rq).
  { intros rq. unfold Unrouted. rewrite Hi. split; intros [H|(k & H)]; auto; right; exists k; [rewrite HR|rewrite <- HR]; auto. }
  assert (HO : forall rq, Oreq2 s' rq <-> Oreq2 s rq).
  { intros rq. unfold Oreq2. rewrite Hf. rewrite <- (HU rq). split; intros [H|[(t0 & y & Hy & H)|H]]; auto; right; left; exists t0, y; [rewrite <- Htk|rewrite Htk]; auto. }
  split; [|split].
  - destruct HT as [T2 T3 T4 T5 T6 T7]. constructor.
    + congruence.
    + intros k Hc. unfold stored. rewrite HRes. now apply T3, Hcurk.
    + intros rq Ho. apply HO in Ho. destruct (T4 rq Ho) as [Hw Hsg]. split; auto. intros t Hk Hor. destruct (Hw t Hk Hor) as (H1 & ti & Hg & Hl). split; auto. exists ti. now rewrite Htk.
    + intros rq Hin. apply Hf in Hin. now apply Hcurk, T5.
    + intros t ti. rewrite Htk. intros Hg. destruct (T6 t ti Hg) as [K1 K2 K3 K4 K5 K6 K7 K8 K9 K10 K11].
      assert (Hd : deps s' t = deps s t) by (unfold deps; now rewrite HRes).
      constructor; auto.
      * intros i Hu' Hn0. destruct (K3 i Hu' Hn0) as (rq & H1 & H2). exists rq. split; auto. now apply HO.
      * intros Hin. apply Hft in Hin. unfold stored. rewrite HRes. now apply K6.
      * intros i y Hu0 Hi' Hy. rewrite Hd. destruct (K7 i y Hu0 Hi' Hy) as [(rq & H1 & H2)|H]; [left; exists rq; split; [now apply HU|auto]|now right].
      * intros d. rewrite Hd. intros Hin. destruct (K8 d Hin) as [H|(rq & H1 & H2)]; [left; now apply Hcurk|right; exists rq; split; auto; now apply HO].
      * intros d. rewrite Hd. apply K9.
      * destruct K10 as (D1 & D2 & D3). repeat split.
        -- intros H. now apply D1, Hft.
        -- intros H. apply D2. intros H'. now apply H, Hft.
        -- intros Hp H. apply (D3 Hp). now apply Hft.
      * intros Hin. apply Hft in Hin. rewrite HRes. now apply K11.
    + rewrite (in_progress_of_kind s s' root (HK root)). destruct T7 as [H|[(k & H)|[H|H]]]; [left; now apply Hi|right; left; exists k; now rewrite HR|auto|right; right; right; now apply Hcurk].
  - apply (BC_change rules F R (fun _ => false) s s'); auto; try discriminate; [intros k; rewrite HR; apply HC|].
    intros y (rq & Hu' & H1' & H2'). left. exists rq. split; auto. now apply HU.
  - apply (BS_change rules env F R rank (fun _ => false) x s s'); auto; try discriminate.
    + intros rq [H|[(k & H)|(t0 & z & Hz & H)]]; [left; now apply Hts|right; left; exists k; now rewrite <- HR|right; right; exists t0, z; now rewrite <- Htk].
    + intros k _. now rewrite HR.
    + intros k _ [(rq & H1 & H2)|(rq & H1 & H2)]; [left; exists rq; split; auto; now apply Hts|right; exists rq; split; auto; now apply Hi].
Qed.

Lemma BInv_qperm root x s sp : qperm s sp -> sreq_scanning s -> BInv root x s -> BInv root x sp.
Proof.
  intros H Hss HB. assert (Hperm : forall {A} (l l' : list A), Permutation l l' -> forall y, In y l' <-> In y l).
  { intros A l l' Hp y. split; intros Hy; [apply Permutation_sym in Hp|]; now apply (Permutation_in y Hp). }
  destruct H as [l Hp|l Hp|l Hp|l Hp|l Hp]; apply (BInv_members root x s); auto; autorewrite with iv; try reflexivity; try (intros; reflexivity); try (now apply Hperm).
Qed.
End Val.

Section Run.
Variable rules : key -> rule.
Variable F : key -> N -> list value -> list N -> N -> N.
Variable rank : key -> nat.
Variable R : key -> N -> rule.
Variable ord : key -> list rkind.
Variable syncp : key -> bool.
Hypothesis Hrank : wf_rank rules rank.
Hypothesis Hwfd : wf_disc rules.
Hypothesis HRt : table_ok rules R.
Hypothesis Hord : forall k, In RReq (ord k).
Variable env : key -> N.
Notation BInv := (BInv rules env F rank R).
Notation HInv := (HInv F R).
Notation DBI := (DBI R).

Lemma BInv_mstep_gen root s s' : Inv rules ctx0 s -> BInv root None s -> mstep_gen rules env F ord syncp s s' -> nf s' -> BInv root None s'.
Proof.
  intros HI HB H Hn. destruct (mstep_gen_head rules env F ord syncp s s' H) as (sp & [->|Hq] & Hs).
  - now apply (BInv_mstep rules F rank R ord syncp Hrank Hwfd HRt Hord env root s s').
  - apply (BInv_mstep rules F rank R ord syncp Hrank Hwfd HRt Hord env root sp s'); auto; [now apply (Inv_qperm rules ctx0 s sp Hq)|].
    apply (BInv_qperm rules env F rank R root None s sp Hq); auto. now apply (Inv_sreq_scanning rules ctx0).
Qed.

Lemma BInv_in_build_gen s0 root s : HInv s0 -> in_build_gen rules env F ord syncp s0 root s -> BInv root None s.
Proof.
  intros Hh [Q M]. pose proof (Inv_start rules s0 root Q) as HI0. pose proof (BInv_start rules F rank R env s0 root Hh) as HB0.
  induction M as [|s s' s'' M IH Hs]; auto.
  pose proof (Inv_msteps_gen rules env F ord syncp _ _ M HI0) as HI.
  apply (BInv_mstep_gen root s' s''); auto. exact (proj1 (Inv_mstep_gen rules env F ord syncp _ _ Hs HI)).
Qed.

(* Any run of general steps (any queue discipline, any schedule of completions) from the start of a build that reaches a state at
   rest has stored the clean value for the requested key and for every key completed in this epoch, and that state satisfies the
   invariant of the states at rest. *)
Theorem run_gen_values_clean cfuel s0 root sf : HInv s0 -> in_build_gen rules env F ord syncp s0 root sf -> quiescent sf ->
  ((rank root < cfuel)%nat -> res_value (res_of sf root) = cv rules env F cfuel root) /\ HInv sf /\
  forall k, kind_of sf k = KComplete -> res_builtAt (res_of sf k) = is_epoch sf -> (rank k < cfuel)%nat -> res_value (res_of sf k) = cv rules env F cfuel k.
Proof.
  intros Hh Hb Q. pose proof (BInv_in_build_gen s0 root sf Hh Hb) as HB.
  destruct (HInv_done rules F rank R syncp Hrank Hwfd HRt env root sf HB Q) as (Hh' & Hc & Hv).
  split; [|split; [exact Hh'|]].
  - intros Hlt. change (res_value (res_of sf root)) with (stored sf root). rewrite Hv. unfold ImplVal1.cvK. symmetry. now apply (cv_cvk rules env F rank Hrank).
  - intros k Hk Hbe Hlt. destruct HB as (HT & _). change (res_value (res_of sf k)) with (stored sf k).
    rewrite (b_cur _ _ _ _ _ _ HT k (conj Hk Hbe)). unfold ImplVal1.cvK. symmetry. now apply (cv_cvk rules env F rank Hrank).
Qed.

(* engines with a database: memory and database stay in step under any discipline *)
Lemma DBI_qperm s sp : qperm s sp -> DBI s -> DBI sp.
Proof. intros H [D1 D2 D3]. destruct H; constructor; auto. Qed.
Lemma usedb_qperm s sp : qperm s sp -> is_usedb sp = is_usedb s.
Proof. intros H. destruct H; reflexivity. Qed.
Lemma DBI_mstep_gen root s s' : Inv rules ctx0 s -> BInv root None s -> is_usedb s = true -> DBI s -> mstep_gen rules env F ord syncp s s' -> nf s' ->
  DBI s' /\ is_usedb s' = true.
Proof.
  intros HI HB Hu HD H Hn. destruct (mstep_gen_head rules env F ord syncp s s' H) as (sp & Hsp & Hs).
  assert (HIp : Inv rules ctx0 sp) by (destruct Hsp as [->|Hq]; [exact HI|now apply (Inv_qperm rules ctx0 s sp Hq)]).
  assert (HBp : BInv root None sp).
  { destruct Hsp as [->|Hq]; [exact HB|]. apply (BInv_qperm rules env F rank R root None s sp Hq); auto. now apply (Inv_sreq_scanning rules ctx0). }
  assert (HDp : DBI sp) by (destruct Hsp as [->|Hq]; [exact HD|now apply (DBI_qperm s sp Hq)]).
  assert (Hup : is_usedb sp = true) by (destruct Hsp as [->|Hq]; [exact Hu|now rewrite (usedb_qperm s sp Hq)]).
  split; [now apply (DBI_mstep rules F rank R ord syncp HRt env root sp s')|].
  rewrite (usedb_mstep rules F rank R ord syncp env root sp s' HIp HBp Hs Hn). exact Hup.
Qed.
Theorem run_gen_DBI s0 root sf : HInv s0 -> is_usedb s0 = true -> DBI s0 -> in_build_gen rules env F ord syncp s0 root sf -> DBI sf /\ is_usedb sf = true.
Proof.
  intros Hh Hu HD [Q M]. pose proof (Inv_start rules s0 root Q) as HI0. pose proof (BInv_start rules F rank R env s0 root Hh) as HB0.
  pose proof (DBI_start R s0 root HD) as HD0.
  assert (Hu0 : is_usedb (start_build (iemit (bump s0) (EBuildStart root)) root) = true) by (unfold start_build; autorewrite with iv; exact Hu).
  assert (Hall : BInv root None sf /\ DBI sf /\ is_usedb sf = true).
  { induction M as [|s s' s'' M IH Hs]; [auto|].
    destruct (IH HI0 HB0 HD0 Hu0) as (HB & HD' & Hu').
    pose proof (Inv_msteps_gen rules env F ord syncp _ _ M HI0) as HI.
    pose proof (proj1 (Inv_mstep_gen rules env F ord syncp _ _ Hs HI)) as Hn.
    split; [now apply (BInv_mstep_gen root s' s'')|]. now apply (DBI_mstep_gen root s' s''). }
  tauto.
Qed.
End Run.
