(* C02, part 11: the theorems in their final form, at the level of [build] and of histories (Exec.v). *)
From LLB Require Import Engine.Rules Engine.Spec Engine.Exec Engine.SpecOnceFrame Engine.SpecOnce1 Engine.SpecOnce2
  Engine.SpecOnce3 Engine.SpecOnce4 Engine.SpecOnce5 Engine.SpecOnce6 Engine.SpecOnce7 Engine.SpecOnce8
  Engine.SpecOnce9 Engine.SpecOnce10.
From Coq Require Import List NArith Bool Lia Arith.
Local Open Scope N_scope.

Section Final.
Variable rules : key -> rule.
Variable env : key -> N.
Variable F : key -> N -> list value -> list N -> N -> N.
Variable order : N -> key -> list dep -> list dep.

(* ---- one reason per execution ---- *)
Theorem build_create_has_reason : forall fuel s k s',
  ostate (build rules env F order fuel s k) = Some s' ->
  let l := new_log s s' in
  (forall l1 x l2, l = l1 ++ ECreate x :: l2 -> exists rs inp l3, l2 = ENeed x rs inp :: l3) /\
  (forall l1 x rs inp l2, l = l1 ++ ENeed x rs inp :: l2 -> exists l0, l1 = l0 ++ [ECreate x]) /\
  needs l = creates l /\ NoDup (needs l).
Proof.
  intros fuel s k s' E l. pose proof (build_paired rules env F order _ _ _ _ E) as P. fold l in P.
  split; [exact (paired_create_preceded l P)|]. split; [exact (paired_need_followed l P)|].
  split; [exact (paired_needs_creates l P)|]. rewrite (paired_needs_creates l P).
  exact (build_at_most_once rules env F order _ _ _ _ E).
Qed.

(* ---- the reported reason is true ---- *)
Theorem build_reason_true : forall fuel s k s',
  ostate (build rules env F order fuel s k) = Some s' ->
  forall x rs inp, In (ENeed x rs inp) (new_log s s') ->
  reason_holds rules env (get (st_mem s) x) (flagged s x) s' x rs inp.
Proof.
  intros fuel s k s' E x rs inp Hx.
  destruct (build_new_log rules env F order _ _ _ _ E) as (s1 & E1 & -> & L). rewrite L in Hx.
  pose proof (ensure_reason rules env F order fuel [] (bump_epoch s) k s1 E1 x rs inp Hx) as R.
  unfold reason_ok in R. exact R.
Qed.

(* ---- executed only for a reason ---- *)
Theorem build_only_if_not_created : forall fuel s k s' x,
  ostate (build rules env F order fuel s k) = Some s' -> no_reason rules env s s' x ->
  ~ In x (creates (new_log s s')).
Proof.
  intros fuel s k s' x E H.
  destruct (build_new_log rules env F order _ _ _ _ E) as (s1 & E1 & -> & L). rewrite L.
  eapply ensure_only_if_not_created; [exact E1 | exact H].
Qed.

Theorem build_only_if : forall fuel s k s' x,
  build rules env F order fuel s k = Ok s' -> no_reason rules env s s' x ->
  ~ In x (creates (new_log s s')) /\
  (get (st_mem s') x = get (st_mem s) x \/ get (st_mem s') x = validated (st_epoch s') (get (st_mem s) x)).
Proof.
  intros fuel s k s' x E H.
  assert (E' : ostate (build rules env F order fuel s k) = Some s') by now rewrite E.
  pose proof (build_only_if_not_created _ _ _ _ _ E' H) as N. split; [exact N|].
  unfold build in E. destruct (ensure rules env F order fuel [] (bump_epoch s) k) as [s1|s1 p|] eqn:E1; inversion E. subst s'.
  pose proof (ensure_trans rules env order F fuel [] (bump_epoch s) k) as T. rewrite E1 in T. cbn [trans_o] in T.
  destruct (ensure_frame rules env F order fuel [] (bump_epoch s) k) as [A _]. rewrite E1 in A. cbn [frame_o] in A.
  change (new_log s (commit_epoch s1)) with (new_log (bump_epoch s) s1) in N.
  destruct (key_trans_not_created rules env F order _ _ _ _ _ (T x) N) as [Q|Q]; [now left | right].
  cbn [commit_epoch st_mem st_epoch]. rewrite (fr_epoch _ _ _ _ _ A). exact Q.
Qed.

(* ---- what an execution leaves behind; computedAt moves iff the value changed ---- *)
Theorem build_created_ran : forall fuel s k s' x,
  build rules env F order fuel s k = Ok s' -> In x (creates (new_log s s')) ->
  ran rules env order x (st_epoch s') (get (st_mem s) x) (get (st_mem s') x).
Proof.
  intros fuel s k s' x E C.
  unfold build in E. destruct (ensure rules env F order fuel [] (bump_epoch s) k) as [s1|s1 p|] eqn:E1; inversion E. subst s'.
  pose proof (ensure_trans rules env order F fuel [] (bump_epoch s) k) as T. rewrite E1 in T. cbn [trans_o] in T.
  destruct (ensure_frame rules env F order fuel [] (bump_epoch s) k) as [A _]. rewrite E1 in A. cbn [frame_o] in A.
  change (new_log s (commit_epoch s1)) with (new_log (bump_epoch s) s1) in C.
  cbn [commit_epoch st_mem st_epoch]. rewrite (fr_epoch _ _ _ _ _ A).
  destruct (T x) as [[N _]|[_ [R|[R _]]]]; [contradiction | exact R | discriminate].
Qed.

Theorem build_value_computedAt : forall fuel s k s',
  ostate (build rules env F order fuel s k) = Some s' ->
  forall x, res_value (get (st_mem s') x) = res_value (get (st_mem s) x) ->
            res_computedAt (get (st_mem s') x) = res_computedAt (get (st_mem s) x).
Proof.
  intros fuel s k s' E x. destruct (build_new_log rules env F order _ _ _ _ E) as (s1 & E1 & -> & _).
  exact (ensure_value_computedAt rules env F order _ _ _ _ _ E1 x).
Qed.

Theorem build_computedAt_moves_only_to_now : forall fuel s k s',
  ostate (build rules env F order fuel s k) = Some s' ->
  forall x, res_computedAt (get (st_mem s') x) = res_computedAt (get (st_mem s) x) \/
            (res_computedAt (get (st_mem s') x) = st_epoch s' /\ res_value (get (st_mem s') x) <> res_value (get (st_mem s) x)).
Proof.
  intros fuel s k s' E x.
  destruct (N.eq_dec (res_computedAt (get (st_mem s') x)) (res_computedAt (get (st_mem s) x))) as [Q|Q]; [now left | right].
  split.
  - destruct (build_new_log rules env F order _ _ _ _ E) as (s1 & E1 & -> & _).
    pose proof (ensure_trans rules env order F fuel [] (bump_epoch s) k) as T.
    destruct (ensure_frame rules env F order fuel [] (bump_epoch s) k) as [A0 _].
    pose proof (frame_o_st _ _ _ _ A0 E1) as A.
    cbn [commit_epoch st_mem st_epoch] in *. rewrite (fr_epoch _ _ _ _ _ A).
    destruct (ensure rules env F order fuel [] (bump_epoch s) k) as [t|t p|]; cbn [ostate] in E1; inversion E1; subst t;
      cbn [trans_o] in T; destruct (key_trans_computedAt rules env order _ _ _ _ _ _ (T x)) as [C|C]; try contradiction; exact C.
  - intros C. apply Q. eapply build_value_computedAt; eassumption.
Qed.

(* ---- identical recomputation of dependencies does not re-run the dependent ---- *)
Theorem build_identical_recompute_no_rerun : forall fuel s k s' x,
  ostate (build rules env F order fuel s k) = Some s' ->
  let r0 := get (st_mem s) x in
  res_builtAt r0 <> 0 -> flagged s x = false -> r_sig (rules x) = res_sig r0 -> valid rules env x r0 = true ->
  (forall d, In d (drop_single (res_deps r0)) -> d_order d = false ->
     res_computedAt (get (st_mem s) (d_key d)) <= res_builtAt r0 /\
     res_value (get (st_mem s') (d_key d)) = res_value (get (st_mem s) (d_key d))) ->
  ~ In x (creates (new_log s s')).
Proof.
  intros fuel s k s' x E r0 H1 H2 H3 H4 H5. eapply build_only_if_not_created; [exact E|].
  repeat (split; [assumption|]). intros d Hd Ho. destruct (H5 d Hd Ho) as [A B].
  now rewrite (build_value_computedAt _ _ _ _ E _ B).
Qed.

(* ---- order-only dependencies never trigger ---- *)
Definition same_log (o1 o2 : outcome) : Prop :=
  match ostate o1, ostate o2 with
  | Some s', Some t' => st_log s' = st_log t'
  | None, None => True
  | _, _ => False
  end.

Lemma sim_o_same_log : forall D o1 o2, sim_o D o1 o2 -> same_log o1 o2.
Proof.
  intros D [s1|s1 p|] [t1|t1 q|] H; cbn [sim_o] in H; try contradiction; unfold same_log; cbn [ostate]; try exact I.
  - destruct H as (_ & _ & L & _). exact L.
  - destruct H as (_ & _ & _ & L & _). exact L.
Qed.

Definition with_computedAt (r : result) (c : N) : result :=
  mkRes (res_value r) (res_sig r) c (res_builtAt r) (res_deps r).

Theorem build_order_only_never_triggers : forall fuel s k d c,
  (forall x dd, In dd (drop_single (res_deps (get (st_mem s) x))) -> d_key dd = d -> d_order dd = true) ->
  same_log (build rules env F order fuel s k)
           (build rules env F order fuel (set_mem s d (with_computedAt (get (st_mem s) d) c)) k).
Proof.
  intros fuel s k d c H. apply (sim_o_same_log (fun x => x = d)). apply build_sim.
  - repeat split; cbn [set_mem st_epoch st_flag st_log st_mem]; try reflexivity;
      destruct (N.eq_dec x d) as [->|Hx]; rewrite ?get_update_same, ?get_update_other by exact Hx; try reflexivity;
      [now left | now right].
  - intros x _ dd Hd HD. exact (H x dd Hd HD).
Qed.

(* ---- null builds ---- *)
Hypothesis Horder : forall e k l d, In d (order e k l) -> In d l.

Theorem null_build_gen : forall fuel1 fuel2 s k s1 t k' s2, bounded s ->
  build rules env F order fuel1 s k = Ok s1 ->
  st_mem t = st_mem s1 -> st_epoch t = st_epoch s1 -> st_flag t = st_flag s1 ->
  res_builtAt (get (st_mem s1) k') = st_epoch s1 ->
  ostate (build rules env F order fuel2 t k') = Some s2 ->
  creates (new_log t s2) = [].
Proof.
  intros fuel1 fuel2 s k s1 t k' s2 Hb E1 Mt Et Ft Hk' E2.
  pose proof (build_settles rules env F order Horder _ _ _ _ Hb E1) as St.
  assert (St' : settled rules env (fun x => res_builtAt (get (st_mem s1) x) = st_epoch s1) (bump_epoch t)).
  { eapply settled_same; [| | |exact St]; cbn [bump_epoch st_mem st_epoch st_flag]; congruence. }
  destruct (build_new_log rules env F order _ _ _ _ E2) as (u & Eu & _ & ->).
  destruct (ensure_null rules env _ F order fuel2 [] (bump_epoch t) k' Hk' St' u Eu) as (l & L & C & _).
  now rewrite (new_log_intro _ _ _ L).
Qed.

End Final.

(* ---- histories: the invariant holds in every state any history reaches ---- *)
Section History.
Variable F : key -> N -> list value -> list N -> N -> N.
Variable order : N -> key -> list dep -> list dep.
Variable fuel : nat.

Lemma dbinv_hstep : forall h o, dbinv (h_st h) -> dbinv (h_st (hstep F order fuel h o)).
Proof.
  intros h o H. destruct o as [k n|k r|db|k]; cbn [hstep h_st]; try exact H.
  - destruct db; [apply (dbinv_restart _ H) | apply dbinv_restart_nodb].
  - set (s0 := emit (h_st h) (EBuildStart k)).
    pose proof (dbinv_build (rules_of (h_rules h)) (env_of (h_env h)) F order fuel s0 k) as B.
    destruct (build (rules_of (h_rules h)) (env_of (h_env h)) F order fuel s0 k) as [s1|s1 p|]; cbn [h_st].
    + exact (B s1 H eq_refl).
    + exact (B s1 H eq_refl).
    + exact H.
Qed.

Theorem history_dbinv : forall ops, dbinv (h_st (run_history F order fuel ops)).
Proof.
  intros ops. unfold run_history.
  assert (G : forall h, dbinv (h_st h) -> dbinv (h_st (fold_left (hstep F order fuel) ops h))).
  { induction ops as [|o ops IH]; intros h H; cbn [fold_left]; [exact H|]. apply IH. now apply dbinv_hstep. }
  apply G. exact dbinv_init.
Qed.

Theorem history_bounded : forall ops, bounded (h_st (run_history F order fuel ops)).
Proof. intros ops. destruct (history_dbinv ops) as [H _]. exact H. Qed.

Hypothesis Horder : forall e k l d, In d (order e k l) -> In d l.

(* after ANY history: a successful build of k followed by a build of k again executes nothing *)
Theorem history_null_build : forall ops k s1 s2,
  let h := run_history F order fuel ops in
  let rules := rules_of (h_rules h) in let env := env_of (h_env h) in
  build rules env F order fuel (emit (h_st h) (EBuildStart k)) k = Ok s1 ->
  let t := emit (emit s1 (EResult (result_of s1 k) false)) (EBuildStart k) in
  ostate (build rules env F order fuel t k) = Some s2 ->
  creates (new_log t s2) = [].
Proof.
  intros ops k s1 s2 h rules env E1 t E2.
  eapply (null_build_gen rules env F order Horder fuel fuel (emit (h_st h) (EBuildStart k)) k s1 t k s2);
    try reflexivity; try eassumption.
  - exact (history_bounded ops).
  - eapply build_target_complete; eassumption.
Qed.

(* ... and also when a new engine instance is created over the database in between *)
Theorem history_null_build_after_restart : forall ops k s1 s2,
  let h := run_history F order fuel ops in
  let rules := rules_of (h_rules h) in let env := env_of (h_env h) in
  build rules env F order fuel (emit (h_st h) (EBuildStart k)) k = Ok s1 ->
  let t := emit (emit (restart (emit s1 (EResult (result_of s1 k) false))) ERestart) (EBuildStart k) in
  ostate (build rules env F order fuel t k) = Some s2 ->
  creates (new_log t s2) = [].
Proof.
  intros ops k s1 s2 h rules env E1 t E2.
  eapply (null_build_after_restart_gen rules env F order Horder fuel fuel (emit (h_st h) (EBuildStart k)) k s1 t k s2);
    try reflexivity; try eassumption.
  - exact (history_dbinv ops).
  - eapply build_target_complete; eassumption.
Qed.

End History.
