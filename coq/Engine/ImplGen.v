(* The small-step engine with a queue DISCIPLINE left open: each of the five queue steps may take ANY element of its queue
   (position i), not only the head.  Definitions only; the loop of Impl.v (heads of the queues) is the special case i = 0:
   step_scan_at 0 = step_scan etc. (ImplGenProofs.v).  [enabled_gen]: a computable list of all enabled steps of a state. *)
From LLB Require Import Engine.Rules Engine.Spec Engine.Impl.
From Coq Require Import List NArith.
Import ListNotations.
Local Open Scope N_scope.

(* the element at position i and the list without it *)
Fixpoint pick {A} (i : nat) (l : list A) {struct l} : option (A * list A) :=
  match l with
  | [] => None
  | x :: r =>
    match i with
    | O => Some (x, r)
    | S j => match pick j r with Some (y, r') => Some (y, x :: r') | None => None end
    end
  end.

Inductive glabel :=
| GScan (i : nat) | GInreq (i : nat) | GFinInreq (i : nat) | GReady (i : nat) | GFinTask (i : nat)
| GFinish (t : key).      (* a completion arriving from task t *)

Section Gen.
Variable rules : key -> rule.
Variable env : key -> N.
Variable F : key -> N -> list value -> list N -> N -> N.
Variable ord : key -> list rkind.
Variable syncp : key -> bool.

(* one item, at position i, of each of the five queues *)
Definition step_scan_at (i : nat) (s : istate) : istate :=
  match pick i (is_toscan s) with
  | None => s
  | Some (rq, rest) => process_scan_request rules env ord (upd_toscan s rest) rq
  end.
Definition step_inreq_at (i : nat) (s : istate) : istate :=
  match pick i (is_inreq s) with
  | None => s
  | Some (rq, rest) => process_input_request rules env ord (upd_inreq s rest) rq
  end.
Definition step_fininreq_at (i : nat) (s : istate) : istate :=
  match pick i (is_fininreq s) with
  | None => s
  | Some (rq, rest) => deliver rules (upd_fininreq s rest) rq
  end.
Definition step_ready_at (i : nat) (s : istate) : istate :=
  match pick i (is_ready s) with
  | None => s
  | Some (t, rest) => run_ready rules env F syncp (upd_ready s rest) t
  end.
Definition step_fintask_at (i : nat) (s : istate) : istate :=
  match pick i (is_fintasks s) with
  | None => s
  | Some (t, rest) => finish_task (upd_fintasks s rest) t
  end.

(* the steps: a completion arriving from a task, or one item - ANY item - of one of the five queues *)
Inductive mstep_gen : istate -> istate -> Prop :=
| ms_finish_gen s t : mstep_gen s (task_finish rules s t)
| ms_scan_at s i : pick i (is_toscan s) <> None -> mstep_gen s (step_scan_at i s)
| ms_inreq_at s i : pick i (is_inreq s) <> None -> mstep_gen s (step_inreq_at i s)
| ms_fininreq_at s i : pick i (is_fininreq s) <> None -> mstep_gen s (step_fininreq_at i s)
| ms_ready_at s i : pick i (is_ready s) <> None -> mstep_gen s (step_ready_at i s)
| ms_fintask_at s i : pick i (is_fintasks s) <> None -> mstep_gen s (step_fintask_at i s).
Inductive msteps_gen : istate -> istate -> Prop :=
| msg_refl s : msteps_gen s s
| msg_step s s' s'' : msteps_gen s s' -> mstep_gen s' s'' -> msteps_gen s s''.

(* every enabled step of a state, with its label: each position of each queue, and a completion for every task that is computing
   and has a value pending (the tasks task_finish acts on) *)
Definition positions {A} (l : list A) : list nat := seq 0 (length l).
Definition can_finish (s : istate) (e : key * tinfo) : bool :=
  kind_eqb (kind_of s (fst e)) KComputing && match ti_pending (snd e) with Some _ => true | None => false end.
Definition enabled_gen (s : istate) : list (glabel * istate) :=
  map (fun i => (GScan i, step_scan_at i s)) (positions (is_toscan s)) ++
  map (fun i => (GInreq i, step_inreq_at i s)) (positions (is_inreq s)) ++
  map (fun i => (GFinInreq i, step_fininreq_at i s)) (positions (is_fininreq s)) ++
  map (fun i => (GReady i, step_ready_at i s)) (positions (is_ready s)) ++
  map (fun i => (GFinTask i, step_fintask_at i s)) (positions (is_fintasks s)) ++
  map (fun e => (GFinish (fst e), task_finish rules s (fst e))) (filter (can_finish s) (is_tasks s)).

(* the statement of soundness of the enumerator (proved in ImplGenProofs.v: enabled_gen_sound) *)
Definition enabled_gen_sound_statement : Prop :=
  forall s l s', In (l, s') (enabled_gen s) -> mstep_gen s s'.

(* the states of a build under any queue discipline *)
Definition in_build_gen (s0 : istate) (root : key) (s : istate) : Prop :=
  quiescent s0 /\ msteps_gen (start_build (iemit (bump s0) (EBuildStart root)) root) s.
End Gen.
