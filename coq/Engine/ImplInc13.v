(* P19b stage 3b-3, part 2: the database of an engine instance stays in step with its memory; a new instance started over the same
   database (irestart true: memory reloaded lazily from is_db) is in a state at rest. *)
From LLB Require Import Engine.Rules Engine.Spec Engine.SpecFrame Engine.SpecInv1 Engine.Impl Engine.ImplProofs Engine.ImplProofsSticky Engine.ImplProofsInv
  Engine.ImplProofsInv2 Engine.ImplProofsInv3 Engine.ImplProofsInv8 Engine.ImplProofsInv9 Engine.ImplProofsStall Engine.ImplProofsRun
  Engine.ImplVal1 Engine.ImplVal2 Engine.ImplVal6 Engine.ImplInc1 Engine.ImplInc2 Engine.ImplInc3 Engine.ImplInc5 Engine.ImplInc6 Engine.ImplInc9 Engine.ImplInc12.
From Coq Require Import Arith Lia.
Local Open Scope N_scope.

Definition dbrow (s : istate) (k : key) : result := get (is_db s) k.
(* memory row m, database row r: equal but for the builtAt stamp (a rule found not to need to run is stamped in memory only) and
   the single-use dependencies (dropped in memory when the rule is scanned) *)
Definition rsync (ep : N) (m r : result) : Prop :=
  res_value r = res_value m /\ res_sig r = res_sig m /\ res_computedAt r = res_computedAt m /\
  res_builtAt r <= res_builtAt m /\ res_builtAt m <= ep /\ (res_deps m = res_deps r \/ res_deps m = drop_single (res_deps r)).

Section DB.
Variable R : key -> N -> rule.
Record DBI (s : istate) : Prop := {
  d_sync : forall k, is_in_progress s k = true \/ rsync (is_epoch s) (res_of s k) (dbrow s k);
  d_wf : forall k, res_computedAt (dbrow s k) <= res_builtAt (dbrow s k);
  d_men : forall k d, In d (res_deps (dbrow s k)) ->
            In (d_key d) (requestable (R k (res_sig (dbrow s k))) ++ r_disc (R k (res_sig (dbrow s k))))
}.

Lemma rsync_evres ep m m' r : rsync ep m r -> evres ep m m' -> rsync ep m' r.
Proof.
  intros (A1 & A2 & A3 & A4 & A5 & A6) (B1 & B2 & B3 & B4 & B5). unfold rsync. repeat split; try congruence.
  - destruct B4 as [->| ->]; lia.
  - destruct B4 as [->| ->]; lia.
  - destruct B5 as [->| ->]; auto. destruct A6 as [->| ->]; auto. right. apply drop_single_idem.
Qed.

Lemma DBI_EV s s' : DBI s -> EV s s' -> nf s' -> DBI s'.
Proof.
  intros [D1 D2 D3] HE Hn. destruct (HE Hn) as (_ & Hd & Hu & He & Hr).
  assert (Hrow : forall k, dbrow s' k = dbrow s k) by (intros; unfold dbrow; now rewrite Hd).
  constructor.
  - intros k. rewrite Hrow, He. destruct (Hr k) as [H|(H1 & H2)]; [left; exact H|].
    destruct (D1 k) as [H|H]; [rewrite ipk_in_progress in H; unfold kind_of in H; congruence|]. right. eapply rsync_evres; eauto.
  - intros k. rewrite Hrow. apply D2.
  - intros k d. rewrite Hrow. apply D3.
Qed.

Lemma finish_task_db s t rest ti : aget (is_tasks s) t = Some ti -> kind_of s t = KComputing -> is_usedb s = true ->
  let s' := finish_task (upd_fintasks s rest) t in is_db s' = update (is_db s) t (res_of s' t).
Proof.
  intros Hg Hk Hu. cbn zeta. unfold res_of. rewrite (finish_task_rinfo s t rest ti t Hg Hk), N.eqb_refl.
  unfold finish_task. change (aget (is_tasks (upd_fintasks s rest)) t) with (aget (is_tasks s) t). rewrite Hg. cbn zeta.
  change (kind_of (upd_fintasks s rest) t) with (kind_of s t). rewrite Hk. cbn [kind_eqb check].
  set (s2 := mod_ri (set_complete (upd_fintasks s rest) t) t (ri_append_deps (ti_disc ti))).
  destruct (push_dummies_views (ti_disc ti) s2) as (P1 & _ & _ & _ & _ & _ & _ & _ & _ & _ & _ & P12 & P13 & _).
  unfold retire_task, wake_task_waiters. autorewrite with iv. unfold db_write. rewrite P12.
  assert (Hu2 : is_usedb s2 = true) by (unfold s2, set_complete; autorewrite with iv; exact Hu). rewrite Hu2. autorewrite with iv.
  rewrite P13. unfold res_of. rewrite P1. unfold s2, set_complete. autorewrite with iv. rewrite N.eqb_refl. reflexivity.
Qed.
End DB.

Section Build.
Variable rules : key -> rule.
Variable F : key -> N -> list value -> list N -> N -> N.
Variable rank : key -> nat.
Variable R : key -> N -> rule.
Variable ord : key -> list rkind.
Variable syncp : key -> bool.
Hypothesis Hrank : wf_rank rules rank.
Hypothesis Hwfd : wf_disc rules.
Hypothesis HRt : table_ok rules R.
Hypothesis Hord : forall k, In RReq (ord k).
Notation DBI := (DBI R).
Notation HInv := (HInv F R).

Section OneBuild.
Variable env : key -> N.
Notation BInv := (BInv rules env F rank R).

(* a finished task is retired: its result is written to the database *)
Lemma DBI_step_fintask root x s : Inv rules ctx0 s -> BInv root x s -> is_usedb s = true -> DBI s -> DBI (step_fintask s).
Proof.
  intros HI HB Hu [D1 D2 D3]. pose proof (BInv_step_fintask rules env F rank R root x s HI HB) as HB'.
  destruct (is_fintasks s) as [|t rest] eqn:Hq; [unfold step_fintask; rewrite Hq; now constructor|].
  destruct (step_fintask_eff rules env F rank R root x s t rest HI HB Hq) as (ti & E).
  unfold step_fintask in *. rewrite Hq in *. set (s' := finish_task (upd_fintasks s rest) t) in *.
  pose proof (finish_task_db s t rest ti (fe_g _ _ _ _ _ _ E) (fe_k _ _ _ _ _ _ E) Hu) as Hdb. cbn zeta in Hdb. fold s' in Hdb.
  assert (Hrow_t : dbrow s' t = res_of s' t) by (unfold dbrow; rewrite Hdb; apply get_update_same).
  assert (Hrow_o : forall k, k <> t -> dbrow s' k = dbrow s k) by (intros k Hne; unfold dbrow; rewrite Hdb; now apply get_update_other).
  destruct HB' as (_ & HC' & _). destruct (fe_self _ _ _ _ _ _ E) as (F1 & F2 & F3 & F4 & F5).
  constructor.
  - intros k. destruct (N.eq_dec k t) as [->|Hne].
    + right. rewrite Hrow_t. unfold rsync. repeat split; auto; try lia. apply (b_le _ _ _ _ HC' t).
    + rewrite (Hrow_o k Hne), (fe_ep _ _ _ _ _ _ E), (fe_res _ _ _ _ _ _ E k Hne). unfold is_in_progress. rewrite (fe_kind _ _ _ _ _ _ E).
      apply N.eqb_neq in Hne. rewrite Hne. apply D1.
  - intros k. destruct (N.eq_dec k t) as [->|Hne]; [|rewrite (Hrow_o k Hne); apply D2].
    rewrite Hrow_t. fold (cAt s' t) (bAt s' t). rewrite F3, <- (fe_ep _ _ _ _ _ _ E). apply (b_le _ _ _ _ HC' t).
  - intros k d. destruct (N.eq_dec k t) as [->|Hne]; [|rewrite (Hrow_o k Hne); apply D3].
    rewrite Hrow_t. intros Hd. assert (Hc : curk s' t) by (apply (fe_curk_t rules s s' t ti rest E)).
    destruct (b_cstr _ _ _ _ HC' t Hc) as (S0 & _ & _ & S3). rewrite S0, (HRt t). apply (S3 d Hd).
Qed.

Lemma DBI_mstep root s s' : Inv rules ctx0 s -> BInv root None s -> is_usedb s = true -> DBI s -> mstep rules env F ord syncp s s' -> nf s' -> DBI s'.
Proof.
  intros HI HB Hu HD Hs Hn. destruct (EV_mstep rules env F ord syncp s s' HI Hs) as [->|HE]; [now apply (DBI_step_fintask root None)|].
  now apply (DBI_EV R s s').
Qed.

Lemma usedb_mstep root s s' : Inv rules ctx0 s -> BInv root None s -> mstep rules env F ord syncp s s' -> nf s' -> is_usedb s' = is_usedb s.
Proof.
  intros HI HB Hs Hn. destruct (EV_mstep rules env F ord syncp s s' HI Hs) as [->|HE]; [|now destruct (HE Hn) as (_ & _ & Hu & _)].
  destruct (is_fintasks s) as [|t rest] eqn:Hq; [unfold step_fintask; now rewrite Hq|].
  destruct (step_fintask_eff rules env F rank R root None s t rest HI HB Hq) as (ti & E). apply (fe_udb _ _ _ _ _ _ E).
Qed.

Lemma DBI_start s0 root : DBI s0 -> DBI (start_build (iemit (bump s0) (EBuildStart root)) root).
Proof.
  intros [D1 D2 D3]. set (st := start_build _ root).
  assert (HR : forall k, rinfo_of st k = rinfo_of s0 k) by (intros k; unfold st, start_build; now autorewrite with iv).
  assert (Hrow : forall k, dbrow st k = dbrow s0 k) by (intros k; unfold dbrow, st, start_build; now autorewrite with iv).
  assert (HE : is_epoch st = is_epoch s0 + 1) by (unfold st, start_build; now autorewrite with iv).
  constructor.
  - intros k. rewrite Hrow, HE. unfold is_in_progress, kind_of, res_of. rewrite HR. destruct (D1 k) as [H|(A1 & A2 & A3 & A4 & A5 & A6)]; [now left|right].
    unfold rsync, res_of in *. repeat split; auto. lia.
  - intros k. rewrite Hrow. apply D2.
  - intros k d. rewrite Hrow. apply D3.
Qed.

Lemma DBI_in_build s0 root s : HInv s0 -> is_usedb s0 = true -> DBI s0 -> in_build rules env F ord syncp s0 root s -> DBI s /\ is_usedb s = true.
Proof.
  intros Hh Hu HD [Q M]. pose proof (Inv_start rules s0 root Q) as HI0. pose proof (BInv_start rules F rank R env s0 root Hh) as HB0.
  pose proof (DBI_start s0 root HD) as HD0.
  assert (Hu0 : is_usedb (start_build (iemit (bump s0) (EBuildStart root)) root) = true) by (unfold start_build; autorewrite with iv; exact Hu).
  assert (Hall : BInv root None s /\ DBI s /\ is_usedb s = true).
  { induction M as [|s s' s'' M IH Hs]; [auto|].
    destruct (IH HI0 HB0 HD0 Hu0) as (HB & HD' & Hu').
    pose proof (Inv_msteps rules env F ord syncp _ _ M HI0) as HI.
    pose proof (proj1 (Inv_mstep rules env F ord syncp _ _ Hs HI)) as Hn.
    split; [now apply (BInv_mstep rules F rank R ord syncp Hrank Hwfd HRt Hord env root s' s'')|].
    split; [now apply (DBI_mstep root s' s'')|]. rewrite (usedb_mstep root s' s'' HI HB Hs Hn). exact Hu'. }
  tauto.
Qed.
End OneBuild.

(* a build of an engine with a database leaves memory and database in step, and the database stamped with the epoch *)
Theorem build_DBI env fuel pfuel s0 root sched sf m : HInv s0 -> is_usedb s0 = true -> DBI s0 ->
  ibuild rules env F ord syncp fuel pfuel s0 root sched = (RDone sf, m) -> is_fault sf = None ->
  DBI sf /\ is_usedb sf = true /\ is_db_epoch sf = is_epoch sf.
Proof.
  intros Hh Hu HD Hrun Hn. unfold ibuild, ibuild_gen in Hrun. cbn zeta in Hrun.
  destruct (run_build_gen rules env F ord syncp stall_test fuel pfuel root (iemit (bump s0) (EBuildStart root)) sched) as [r mm] eqn:Hr.
  destruct r; inversion Hrun. subst sf m. clear Hrun.
  assert (Hn' : nf s) by (unfold nf in *; now autorewrite with iv in Hn).
  unfold run_build_gen in Hr.
  assert (Hb0 : in_build rules env F ord syncp s0 root (start_build (iemit (bump s0) (EBuildStart root)) root)) by (split; [apply (h_q _ _ _ Hh)|apply mss_refl]).
  destruct (run_loop_final rules env ord F syncp fuel pfuel root s0 _ sched [] s mm Hb0 Hr Hn') as (Hb & _).
  destruct (DBI_in_build env s0 root s Hh Hu HD Hb) as [[D1 D2 D3] Hus].
  split; [|split].
  - constructor; [exact D1|exact D2|exact D3].
  - exact Hus.
  - cbn. now rewrite Hus.
Qed.

(* a new engine instance over the same database *)
Theorem restart_HInv s : HInv s -> DBI s -> is_usedb s = true -> is_db_epoch s = is_epoch s ->
  HInv (irestart true s) /\ DBI (irestart true s) /\ is_usedb (irestart true s) = true /\ is_db_epoch (irestart true s) = is_epoch (irestart true s).
Proof.
  intros [Q H3 H4 H5 H7] [D1 D2 D3] Hu Hde. pose proof Q as (Q1 & Q2 & Q3 & Q4 & Q5 & Q6 & Q7 & Q8 & Q9).
  set (s' := irestart true s).
  assert (HR : forall k, rinfo_of s' k = new_rinfo (dbrow s k)) by reflexivity.
  assert (Hres : forall k, res_of s' k = dbrow s k) by reflexivity.
  assert (He : is_epoch s' = is_epoch s) by (cbn; exact Hde).
  assert (Hsy : forall k, rsync (is_epoch s) (res_of s k) (dbrow s k)).
  { intros k. destruct (D1 k) as [H|H]; auto. exfalso. unfold is_in_progress in H. destruct (Q9 k) as (_ & A1 & A2 & _). destruct (kind_of s k); try discriminate; contradiction. }
  assert (Hst : forall k, stored s' k = stored s k) by (intros k; unfold stored; rewrite Hres; apply (Hsy k)).
  assert (Hca : forall k, cAt s' k = cAt s k) by (intros k; unfold cAt; rewrite Hres; apply (Hsy k)).
  assert (Hdin : forall k d, In d (deps s k) -> In d (deps s' k)).
  { intros k d. unfold deps. rewrite Hres. destruct (Hsy k) as (_ & _ & _ & _ & _ & [->| ->]); auto. intros H. now apply in_drop_single in H. }
  split; [|split; [|split]].
  - constructor.
    + unfold quiescent. cbn. repeat split; auto; try constructor; try discriminate.
    + intros k. reflexivity.
    + intros k. cbn. discriminate.
    + intros k. unfold cAt, bAt. rewrite Hres, He. destruct (Hsy k) as (_ & _ & _ & A4 & A5 & _). split; [apply D2|lia].
    + intros k. unfold bAt. rewrite Hres. intros Hb. destruct (Hsy k) as (_ & A2 & _ & A4 & _).
      assert (Hb0 : bAt s k <> 0) by (unfold bAt; lia).
      assert (Hsg : res_sig (res_of s' k) = res_sig (res_of s k)) by (rewrite Hres; exact A2).
      assert (Erl : rule_of R s' k = rule_of R s k) by (unfold rule_of; now rewrite Hsg).
      destruct (H7 k Hb0) as (v & Hv & Ho & Hm & Hc). exists v. split; [now rewrite Hst|]. split; [rewrite Erl; exact Ho|]. split.
      * unfold deps, rule_of. rewrite Hres. apply D3.
      * intros Hf. apply (concl_same_gen F R s s' k v Hsg); [intros x Hx; split; [now apply Hdin|apply Hst]|].
        apply Hc. intros d Hd Hor Hsi. rewrite <- Hca. transitivity (bAt s' k); [apply Hf; auto|]. unfold bAt. rewrite Hres. exact A4.
  - constructor.
    + intros k. right. rewrite He, Hres. change (dbrow s' k) with (dbrow s k). destruct (Hsy k) as (_ & _ & _ & A4 & A5 & _). unfold rsync. repeat split; auto; lia.
    + intros k. apply D2.
    + intros k d. apply D3.
  - reflexivity.
  - reflexivity.
Qed.

(* a new engine instance without a database starts from nothing *)
Theorem restart_nodb_HInv s : is_fault s = None -> HInv (irestart false s).
Proof.
  intros Hn. constructor.
  - unfold quiescent. cbn. repeat split; auto; try constructor; discriminate.
  - intros k. reflexivity.
  - intros k. cbn. discriminate.
  - intros k. cbn. split; lia.
  - intros k Hb. now contradiction Hb.
Qed.

(* ---------- histories of builds and restarts of an engine with a database ---------- *)
Inductive hop := HBuild (b : bspec) | HRestart.
Definition hop_roots (ops : list hop) : list bspec := flat_map (fun o => match o with HBuild b => [b] | HRestart => [] end) ops.
Fixpoint run_hops (s : istate) (ops : list hop) : option (istate * list (option value)) :=
  match ops with
  | [] => Some (s, [])
  | HRestart :: ops' => run_hops (irestart true s) ops'
  | HBuild b :: ops' =>
    match ibuild rules (bs_env b) F ord syncp (bs_fuel b) (bs_pfuel b) s (bs_root b) (bs_sched b) with
    | (RDone s', _) =>
      match is_fault s' with
      | None => match run_hops s' ops' with Some (sf, vs) => Some (sf, res_value (res_of s' (bs_root b)) :: vs) | None => None end
      | Some _ => None
      end
    | _ => None
    end
  end.

(* the invariant of the states at rest of an engine with a database *)
Definition DInv (s : istate) : Prop := HInv s /\ DBI s /\ is_usedb s = true /\ is_db_epoch s = is_epoch s.

Lemma DInv_new : DInv (irestart true init_istate).
Proof.
  split; [|split; [|split; reflexivity]].
  - constructor.
    + unfold quiescent. cbn. repeat split; auto; try constructor; discriminate.
    + intros k. reflexivity.
    + intros k. cbn. discriminate.
    + intros k. cbn. split; lia.
    + intros k Hb. now contradiction Hb.
  - constructor.
    + intros k. right. cbn. unfold rsync. cbn. repeat split; auto; lia.
    + intros k. cbn. lia.
    + intros k d H. destruct H.
Qed.

(* one build of an engine with a database: the clean value, and memory and database in step again *)
Theorem build_DInv env fuel pfuel cfuel s0 root sched sf m : DInv s0 ->
  ibuild rules env F ord syncp fuel pfuel s0 root sched = (RDone sf, m) -> is_fault sf = None ->
  ((rank root < cfuel)%nat -> res_value (res_of sf root) = cv rules env F cfuel root) /\ DInv sf.
Proof.
  intros (Hh & HD & Hu & Hde) Hb Hf.
  destruct (build_values_clean rules F rank R ord syncp Hrank Hwfd HRt Hord env fuel pfuel cfuel s0 root sched sf m Hh Hb Hf) as [Hv Hh'].
  destruct (build_DBI env fuel pfuel s0 root sched sf m Hh Hu HD Hb Hf) as (HD' & Hu' & Hde'). split; [exact Hv|]. exact (conj Hh' (conj HD' (conj Hu' Hde'))).
Qed.
Theorem restart_DInv s : DInv s -> DInv (irestart true s).
Proof. intros (Hh & HD & Hu & Hde). destruct (restart_HInv s Hh HD Hu Hde) as (A1 & A2 & A3 & A4). exact (conj A1 (conj A2 (conj A3 A4))). Qed.

Theorem hops_values_clean cfuel ops : forall s sf vs, DInv s -> run_hops s ops = Some (sf, vs) ->
  (forall b, In b (hop_roots ops) -> (rank (bs_root b) < cfuel)%nat) ->
  vs = map (fun b => cv rules (bs_env b) F cfuel (bs_root b)) (hop_roots ops) /\ DInv sf.
Proof.
  induction ops as [|o ops IH]; intros s sf vs HJ Hrun Hrk; cbn [run_hops] in Hrun.
  - inversion Hrun. subst. auto.
  - destruct o as [b|].
    + destruct (ibuild rules (bs_env b) F ord syncp (bs_fuel b) (bs_pfuel b) s (bs_root b) (bs_sched b)) as [r m] eqn:Hb.
      destruct r as [s'| | |]; try discriminate. destruct (is_fault s') eqn:Hf; [discriminate|].
      destruct (run_hops s' ops) as [[sf' vs']|] eqn:Hrest; [|discriminate]. inversion Hrun. subst sf vs.
      destruct HJ as (Hh & HD & Hu & Hde).
      destruct (build_values_clean rules F rank R ord syncp Hrank Hwfd HRt Hord (bs_env b) (bs_fuel b) (bs_pfuel b) cfuel s (bs_root b) (bs_sched b) s' m Hh Hb Hf) as [Hv Hh'].
      destruct (build_DBI (bs_env b) (bs_fuel b) (bs_pfuel b) s (bs_root b) (bs_sched b) s' m Hh Hu HD Hb Hf) as (HD' & Hu' & Hde').
      destruct (IH s' sf' vs' (conj Hh' (conj HD' (conj Hu' Hde'))) Hrest) as [Hvs HJf]; [intros b' Hb'; apply Hrk; cbn [hop_roots flat_map]; apply in_or_app; now right|].
      split; auto. cbn [hop_roots flat_map app map]. rewrite Hv by (apply Hrk; cbn [hop_roots flat_map]; apply in_or_app; left; now left). now rewrite Hvs.
    + destruct HJ as (Hh & HD & Hu & Hde). destruct (restart_HInv s Hh HD Hu Hde) as (A1 & A2 & A3 & A4).
      apply (IH (irestart true s) sf vs); auto. split; auto.
Qed.
End Build.
