(* P19b - values, part 1: vocabulary (the clean value under a rank, slot/key correspondence of a task) and what the functions that
   issue requests do to the views the value invariant looks at. *)
From LLB Require Import Engine.Rules Engine.Spec Engine.SpecInv1 Engine.Impl Engine.ImplProofs Engine.ImplProofsSticky Engine.ImplProofsInv
  Engine.ImplProofsInv2.
From Coq Require Import Arith Lia.
Local Open Scope N_scope.

(* the views of the state the values depend on *)
Definition task_of (s : istate) (t : key) : option tinfo := aget (is_tasks s) t.

(* [f] issues requests of task t: rule records unchanged; every other task record unchanged; the record of t keeps everything but
   waitCount and its slots, which become [g slots]; inputRequests grows at the tail by [new]; the other queues stay *)
Definition slotfun := list (option value) -> list (option value).
Record issues (s s' : istate) (t : key) (g : slotfun) (new : list ireq) : Prop := {
  is_rinfo : forall k, rinfo_of s' k = rinfo_of s k;
  is_inreq_app : is_inreq s' = is_inreq s ++ new;
  is_other : forall t', t' <> t -> task_of s' t' = task_of s t';
  is_self : forall ti, task_of s t = Some ti -> exists n, task_of s' t = Some (ti_with_wait n (ti_with_slots (g (ti_slots ti)) ti));
  is_fin : is_fininreq s' = is_fininreq s;
  is_ft : is_fintasks s' = is_fintasks s;
  is_ts : is_toscan s' = is_toscan s;
  is_ep : is_epoch s' = is_epoch s;
  is_udb : is_usedb s' = is_usedb s;
  is_rdy : is_ready s' = is_ready s
}.

Lemma issues_refl s t : issues s s t (fun l => l) [].
Proof.
  constructor; auto; try (now rewrite app_nil_r).
  intros ti Hg. exists (ti_wait ti). rewrite Hg. now destruct ti.
Qed.

Lemma issues_trans s1 s2 s3 t g1 g2 a b : issues s1 s2 t g1 a -> issues s2 s3 t g2 b -> issues s1 s3 t (fun l => g2 (g1 l)) (a ++ b).
Proof.
  intros [A1 A2 A3 A4 A5 A6 A7 A8 A9 A10] [B1 B2 B3 B4 B5 B6 B7 B8 B9 B10]. constructor.
  - intros k. now rewrite B1.
  - now rewrite B2, A2, app_assoc.
  - intros t' Hne. now rewrite B3, A3.
  - intros ti Hg. destruct (A4 ti Hg) as (n & Hn). destruct (B4 _ Hn) as (m & Hm). exists m. rewrite Hm. reflexivity.
  - congruence.
  - congruence.
  - congruence.
  - congruence.
  - congruence.
  - congruence.
Qed.

Lemma issues_add_request s t inp slot o sg : nf (add_request s t inp slot o sg) ->
  issues s (add_request s t inp slot o sg) t (fun l => l) [mkIReq (Some t) slot inp o sg].
Proof.
  unfold add_request. destruct (aget (is_tasks s) t) as [ti|] eqn:Hg; [|intros H; now apply nf_fault in H].
  destruct (negb _); [intros H; now apply nf_fault in H|]. intros _.
  assert (Hg1 : aget (is_tasks (push_inreq (touch s inp) (mkIReq (Some t) slot inp o sg))) t = Some ti) by now autorewrite with iv.
  rewrite (mod_ti_some _ _ _ _ Hg1). constructor; unfold task_of; autorewrite with iv; auto.
  - intros k. now autorewrite with iv.
  - intros t' Hne. rewrite aget_aset. apply N.eqb_neq in Hne. now rewrite Hne.
  - intros ti0 Hg0. rewrite Hg in Hg0. inversion Hg0. subst ti0. exists (S (ti_wait ti)). rewrite aget_aset_same. now destruct ti.
Qed.

(* a task record of t is replaced by one that differs in its slots only *)
Lemma issues_set_slots s t ti g : task_of s t = Some ti -> issues s (set_ti s t (ti_with_slots (g (ti_slots ti)) ti)) t g [].
Proof.
  intros Hg. constructor; unfold task_of in *; autorewrite with iv; auto.
  - now rewrite app_nil_r.
  - intros t' Hne. rewrite aget_aset. apply N.eqb_neq in Hne. now rewrite Hne.
  - intros ti0 Hg0. rewrite Hg in Hg0. inversion Hg0. subst ti0. exists (ti_wait ti). now rewrite aget_aset_same.
Qed.

(* the requests a list of keys gives rise to *)
Fixpoint mk_reqs (t : key) (ks : list key) (slot : nat) (sg : bool) : list ireq :=
  match ks with [] => [] | x :: r => mkIReq (Some t) slot x false sg :: mk_reqs t r (S slot) sg end.
Definition mk_follows (t : key) (ks : list key) : list ireq := map (fun x => mkIReq (Some t) 0%nat x true false) ks.

Lemma issues_add_reqs ks : forall s t slot sg, nf (add_reqs s t ks slot sg) -> issues s (add_reqs s t ks slot sg) t (fun l => l) (mk_reqs t ks slot sg).
Proof.
  induction ks as [|x ks IH]; intros s t slot sg Hn; cbn [add_reqs mk_reqs]; [apply issues_refl|].
  cbn [add_reqs] in Hn. pose proof (IH _ _ _ _ Hn) as H2. pose proof (sticky_add_reqs _ _ _ _ _ Hn) as Hn1.
  exact (issues_trans _ _ _ _ _ _ _ _ (issues_add_request s t x slot false sg Hn1) H2).
Qed.
Lemma issues_add_follows ks : forall s t, nf (add_follows s t ks) -> issues s (add_follows s t ks) t (fun l => l) (mk_follows t ks).
Proof.
  induction ks as [|x ks IH]; intros s t Hn; cbn [add_follows mk_follows map]; [apply issues_refl|].
  cbn [add_follows] in Hn. pose proof (IH _ _ Hn) as H2. pose proof (sticky_add_follows _ _ _ Hn) as Hn1.
  exact (issues_trans _ _ _ _ _ _ _ _ (issues_add_request s t x 0%nat true false Hn1) H2).
Qed.

Definition group_reqs (rules : key -> rule) (t : key) (c : rkind) : list ireq :=
  match c with
  | RReq => mk_reqs t (r_req (rules t)) 0%nat false
  | RSingle => mk_reqs t (r_single (rules t)) (length (r_req (rules t))) true
  | RFollow => mk_follows t (r_follow (rules t))
  end.
Lemma issues_start_group rules s t c : nf (start_group rules s t c) -> issues s (start_group rules s t c) t (fun l => l) (group_reqs rules t c).
Proof. unfold start_group, group_reqs. destruct c; [apply issues_add_reqs|apply issues_add_reqs|apply issues_add_follows]. Qed.

Lemma issues_fold_groups rules t l : forall s, nf (fold_left (fun s c => start_group rules s t c) l s) ->
  issues s (fold_left (fun s c => start_group rules s t c) l s) t (fun l => l) (flat_map (group_reqs rules t) l).
Proof.
  induction l as [|c l IH]; intros s Hn; cbn [fold_left flat_map]; [apply issues_refl|]. cbn [fold_left] in Hn.
  pose proof (IH _ Hn) as H2.
  assert (Hn1 : nf (start_group rules s t c)) by (eapply sticky_fold; [|exact Hn]; intros; eapply sticky_start_group; eauto).
  exact (issues_trans _ _ _ _ _ _ _ _ (issues_start_group rules s t c Hn1) H2).
Qed.

(* DTask::start *)
Lemma issues_task_start rules ord s t ti : task_of s t = Some ti -> nf (task_start rules ord s t) ->
  issues s (task_start rules ord s t) t (fun _ => initial_slots (rules t)) (flat_map (group_reqs rules t) (ord t)).
Proof.
  intros Hg Hn. unfold task_start in *. cbn zeta in *.
  assert (Hg1 : aget (is_tasks (iemit s (EStart t))) t = Some ti) by exact Hg.
  rewrite (mod_ti_some _ _ _ _ Hg1) in *.
  pose proof (issues_fold_groups rules t (ord t) _ Hn) as H2.
  pose proof (issues_set_slots (iemit s (EStart t)) t ti (fun _ => initial_slots (rules t)) Hg1) as H1.
  pose proof (issues_trans _ _ _ _ _ _ _ _ H1 H2) as H. cbn [app] in H.
  destruct H as [A1 A2 A3 A4 A5 A6 A7 A8 A9 A10]. constructor; auto.
Qed.

(* DTask::req: branch requests get new slots at the end *)
Lemma issues_branch_reqs ks : forall s t ti, task_of s t = Some ti -> nf (branch_reqs s t ks) ->
  issues s (branch_reqs s t ks) t (fun l => l ++ repeat None (length ks)) (mk_reqs t ks (length (ti_slots ti)) false).
Proof.
  induction ks as [|x ks IH]; intros s t ti Hg Hn; cbn [branch_reqs mk_reqs repeat length].
  - pose proof (issues_refl s t) as [A1 A2 A3 A4 A5 A6 A7 A8 A9 A10]. constructor; auto.
    intros ti0 Hg0. destruct (A4 ti0 Hg0) as (n & Hn0). exists n. now rewrite app_nil_r.
  - cbn [branch_reqs] in Hn. unfold task_of in Hg. rewrite Hg in *.
    set (s1 := set_ti s t (ti_new_slot ti)) in *.
    set (s2 := add_request s1 t x (length (ti_slots ti)) false false) in *.
    assert (Hn2 : nf s2) by (eapply sticky_branch_reqs; eauto).
    pose proof (issues_set_slots s t ti (fun l => l ++ [None]) Hg) as H1. fold (ti_new_slot ti) in H1. fold s1 in H1.
    pose proof (issues_add_request s1 t x (length (ti_slots ti)) false false Hn2) as H2. fold s2 in H2.
    pose proof (issues_trans _ _ _ _ _ _ _ _ H1 H2) as H12.
    destruct (is_self _ _ _ _ _ H12 ti Hg) as (n & Hg2).
    pose proof (IH s2 t _ Hg2 Hn) as H3. cbn [ti_with_wait ti_with_slots ti_slots] in H3. rewrite app_length in H3. cbn [length] in H3.
    rewrite Nat.add_1_r in H3.
    pose proof (issues_trans _ _ _ _ _ _ _ _ H12 H3) as H. cbn [app] in H.
    destruct H as [A1 A2 A3 A4 A5 A6 A7 A8 A9 A10]. constructor; auto.
    intros ti0 Hg0. destruct (A4 ti0 Hg0) as (m & Hm). exists m. rewrite Hm. now rewrite <- app_assoc.
Qed.

(* ---------- the value invariant of a first build ---------- *)
Section Val.
Variable rules : key -> rule.
Variable env : key -> N.
Variable F : key -> N -> list value -> list N -> N -> N.
Variable rank : key -> nat.

Definition cvK (k : key) : option value := cvk rules env F rank k.
(* the keys the branch of task t requests, as the clean values of its inputs decide *)
Definition bkK (t : key) : list key := branch_keys (rules t) (map cvK (r_req (rules t))).
Definition n1 (t : key) : nat := length (r_req (rules t)).
Definition n2 (t : key) : nat := length (r_single (rules t)).
(* the key whose value goes into slot i of task t *)
Definition key_of_slot (t : key) (i : nat) : option key :=
  if Nat.ltb i (n1 t) then nth_error (r_req (rules t)) i
  else if Nat.ltb i (n1 t + n2 t) then nth_error (r_single (rules t)) (i - n1 t)
  else nth_error (bkK t) (i - n1 t - n2 t).
(* slots whose values the task uses *)
Definition used (t : key) (i : nat) : Prop := (i < n1 t \/ n1 t + n2 t <= i)%nat.

(* a request that is outstanding (between steps: nothing is in flight, nothing is paused in a first build) *)
Definition Oreq (s : istate) (rq : ireq) : Prop :=
  In rq (is_inreq s) \/ (exists t' ti', task_of s t' = Some ti' /\ In rq (ti_reqby ti')) \/ In rq (is_fininreq s).

Definition rq_wf (s : istate) (rq : ireq) : Prop :=
  forall t, iq_task rq = Some t -> iq_order rq = false ->
    key_of_slot t (iq_slot rq) = Some (iq_input rq) /\ exists ti, task_of s t = Some ti /\ (iq_slot rq < length (ti_slots ti))%nat.

Record task_ok (s : istate) (t : key) (ti : tinfo) : Prop := {
  k_len : length (ti_slots ti) = (n1 t + n2 t + if ti_branched ti then length (bkK t) else 0)%nat;
  k_val : forall i v x, nth_error (ti_slots ti) i = Some (Some v) -> key_of_slot t i = Some x -> Some v = cvK x;
  k_wit : forall i, used t i -> nth_error (ti_slots ti) i = Some None ->
            exists rq, Oreq s rq /\ iq_task rq = Some t /\ iq_order rq = false /\ iq_slot rq = i;
  k_br : ti_branched ti = false -> forall i a b, r_br (rules t) = Some (i, a, b) -> (i < n1 t)%nat -> nth_error (ti_slots ti) i = Some None;
  k_pend : forall v, ti_pending ti = Some v -> Some v = cvK t;
  k_fin : In t (is_fintasks s) -> res_value (res_of s t) = cvK t
}.

Definition dummy_root (root : key) : ireq := mkIReq None 0%nat root false false.

Record VInv (root : key) (s : istate) : Prop := {
  v_ts : is_toscan s = [];
  v_udb : is_usedb s = false;
  v_kind : forall k, kind_of s k <> KScanning /\ kind_of s k <> KDoesNotNeedToRun;
  v_built : forall k, kind_of s k <> KComplete -> res_builtAt (res_of s k) = 0;
  v_complete : forall k, kind_of s k = KComplete -> res_builtAt (res_of s k) = is_epoch s /\ res_value (res_of s k) = cvK k;
  v_req : forall rq, Oreq s rq -> rq_wf s rq;
  v_fin : forall rq, In rq (is_fininreq s) -> kind_of s (iq_input rq) = KComplete;
  v_task : forall t ti, task_of s t = Some ti -> task_ok s t ti;
  v_root : In (dummy_root root) (is_inreq s) \/ is_in_progress s root = true \/ kind_of s root = KComplete;
  v_ep : is_epoch s <> 0
}.
End Val.
