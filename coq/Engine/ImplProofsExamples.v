(* P19 - part 15: concrete runs (vm_compute): non-vacuity examples and the witnesses of the two statements that are false. *)
From LLB Require Import Engine.Rules Engine.Spec Engine.Exec Engine.Impl Engine.ImplProofs Engine.ImplProofsLoop Engine.ImplProofsRun.
From LLB Require Engine.FindCycle.
Local Open Scope N_scope.

Definition ord0 (k : key) : list rkind := [RReq; RSingle; RFollow].
Definition all_sync (k : key) : bool := true.
Definition none_sync (k : key) : bool := false.

(* ---------- a 6-rule set: inputs 0 1, 2 = f(0,1), 3 = f(2) follows 1 and branches on 2, 4 = f(3,2) single-use 1, 5 = f(4) discovers 0 ---------- *)
Definition R6 : key -> rule := rules_of
  [(0, mkRule 0 true [] [] [] None []); (1, mkRule 0 true [] [] [] None []);
   (2, mkRule 1 false [0; 1] [] [] None []);
   (3, mkRule 1 false [2] [] [1] (Some (0%nat, [0], [1])) [0]);
   (4, mkRule 2 false [3; 2] [1] [] None []);
   (5, mkRule 3 false [4] [] [] None [0])].
Definition E6 : key -> N := env_of [(0, 1); (1, 2)].
Definition ord6 (k : key) : list rkind := if N.eqb k 4 then [RSingle; RReq; RFollow] else ord0 k.

Definition values_of (r : run_result * list mark) : list (option value) :=
  map (fun k => res_value (res_of (final_state (fst r)) k)) [0; 1; 2; 3; 4; 5].
Definition is_done (r : run_result * list mark) : bool := match fst r with RDone _ => true | _ => false end.

(* schedule A: every task completes inside inputsAvailable *)
Definition runA := ibuild R6 E6 mixF ord6 all_sync 200 200 init_istate 5 [].
(* schedule B: no task completes by itself; whenever the engine blocks, every pending task completes, highest key first *)
Definition schedB : list sched_item := repeat ([], [5; 4; 3; 2; 1; 0]) 40.
Definition runB := ibuild R6 E6 mixF ord6 none_sync 200 200 init_istate 5 schedB.
(* schedule C: one completion per blocking wait, lowest key first, and some completions at the top of an iteration *)
Definition schedC : list sched_item := repeat ([0], [1]) 6 ++ repeat ([2; 3], [4; 5; 0; 1; 2; 3]) 40.
Definition runC := ibuild R6 E6 mixF ord6 none_sync 200 200 init_istate 5 schedC.

Example runA_done : is_done runA = true. Proof. vm_compute. reflexivity. Qed.
Example runB_done : is_done runB = true. Proof. vm_compute. reflexivity. Qed.
Example runC_done : is_done runC = true. Proof. vm_compute. reflexivity. Qed.
Example same_values_AB : values_of runA = values_of runB. Proof. vm_compute. reflexivity. Qed.
Example same_values_AC : values_of runA = values_of runC. Proof. vm_compute. reflexivity. Qed.
Example values_A_defined : forallb (fun v => match v with Some _ => true | None => false end) (values_of runA) = true.
Proof. vm_compute. reflexivity. Qed.
(* the schedules really differ: the logs are different *)
Example logs_differ : is_log (final_state (fst runA)) <> is_log (final_state (fst runB)).
Proof. vm_compute. discriminate. Qed.
(* no fault, every queue empty at the end *)
Example runB_clean : is_fault (final_state (fst runB)) = None /\ has_work (final_state (fst runB)) = false.
Proof. vm_compute. split; reflexivity. Qed.

(* ---------- witness 1: a stall whose graph has a dead end at the requested key (known finding C07 disc-cycle-empty-list) ----------
   key 4 completes and DISCOVERS the derived key 5, which must follow itself: the dummy request for 5 has no requester, so the
   wait-for graph 5>5 is not connected to the requested key 4 and findCycle returns the empty list. *)
Definition Rw1 : key -> rule := rules_of
  [(1, mkRule 0 true [] [] [] None []); (2, mkRule 2 false [1] [] [] None []);
   (4, mkRule 3 false [2] [] [] None [5]); (5, mkRule 0 true [4] [] [5] None [])].
Definition Ew1 : key -> N := env_of [(1, 0); (5, 4)].
Definition runW1 := ibuild Rw1 Ew1 mixF ord0 all_sync 200 200 init_istate 4 [].

Example stall_dead_end_witness :
  match fst runW1 with
  | RCycle s g (FindCycle.FcDone l) => g = [(5, 5)] /\ l = [] /\ kind_of s 4 = KComplete
  | _ => False
  end.
Proof. vm_compute. repeat split; reflexivity. Qed.

Example dead_end_graph : ~ FindCycle.no_dead_end [(5, 5)] 4.
Proof.
  intros H. destruct (H [] I) as [p Hp]. cbn in Hp. unfold FindCycle.dep in Hp. destruct Hp as [Hp|[]]. inversion Hp.
Qed.

(* ---------- witness 2: the stall test before commit e39d106 (requested rule only) returns success with rules left IsScanning ----------
   build 2 records 2:[3], 3:[0,2]; build 5 runs 5, whose discovered dependency 2 starts the scan cycle 2 -> 3 -> 2 *)
Definition Rw2 : key -> rule := rules_of
  [(0, mkRule 0 true [] [] [] None []); (2, mkRule 0 false [3] [] [] None []);
   (3, mkRule 0 false [0] [] [] None [2]); (5, mkRule 0 true [] [] [] None [2])].
Definition Ew2 : key -> N := env_of [(0, 1); (5, 1)].
Definition w2_after_first := final_state (fst (ibuild Rw2 Ew2 mixF ord0 all_sync 200 200 init_istate 2 [])).
Definition runW2_v0 := ibuild_v0 Rw2 Ew2 mixF ord0 all_sync 200 200 w2_after_first 5 [].
Definition runW2 := ibuild Rw2 Ew2 mixF ord0 all_sync 200 200 w2_after_first 5 [].

Example first_build_quiescent_enough : is_done (ibuild Rw2 Ew2 mixF ord0 all_sync 200 200 init_istate 2 []) = true /\ any_scanning w2_after_first = false.
Proof. vm_compute. split; reflexivity. Qed.

Example done_quiescent_v0_refuted :
  match fst runW2_v0 with
  | RDone s => any_scanning s = true /\ kind_of s 2 = KScanning /\ kind_of s 3 = KScanning /\ is_fault s = None
  | _ => False
  end.
Proof. vm_compute. repeat split; reflexivity. Qed.

(* the repaired test reports the stall (with the empty list of witness 1) and resets the scanning rules *)
Example repaired_reports_stall :
  match fst runW2 with
  | RCycle s g (FindCycle.FcDone l) => g = [(2, 3); (3, 2)] /\ l = [] /\ any_scanning s = false
  | _ => False
  end.
Proof. vm_compute. repeat split; reflexivity. Qed.

Definition w1_state := final_state (fst runW1).
Lemma w1_eq : fst (ibuild Rw1 Ew1 mixF ord0 all_sync 200 200 init_istate 4 []) = RCycle w1_state [(5, 5)] (FindCycle.FcDone []).
Proof. vm_compute. reflexivity. Qed.
Theorem stall_no_dead_end_refuted :
  exists rules env root s g, fst (ibuild rules env mixF ord0 all_sync 200 200 init_istate root []) = RCycle s g (FindCycle.FcDone [])
                             /\ ~ FindCycle.no_dead_end g root.
Proof. exists Rw1, Ew1, 4, w1_state, [(5, 5)]. split; [exact w1_eq|exact dead_end_graph]. Qed.

Lemma quiescent_init : quiescent init_istate.
Proof. unfold quiescent. cbn. repeat split; auto; try constructor; discriminate. Qed.

Definition first_run := ibuild Rw2 Ew2 mixF ord0 all_sync 200 200 init_istate 2 [].
Lemma first_run_eq : first_run = (RDone w2_after_first, snd first_run).
Proof. vm_compute. reflexivity. Qed.
Lemma first_run_nf : is_fault w2_after_first = None.
Proof. vm_compute. reflexivity. Qed.
Lemma w2_after_first_quiescent : quiescent w2_after_first.
Proof.
  apply (build_done_quiescent Rw2 Ew2 mixF ord0 all_sync 200%nat 200%nat init_istate 2 [] w2_after_first (snd first_run)).
  - exact quiescent_init.
  - vm_compute. reflexivity.
  - vm_compute. reflexivity.
Qed.

Definition w2_final := final_state (fst runW2_v0).
Lemma w2_done : fst (ibuild_v0 Rw2 Ew2 mixF ord0 all_sync 200 200 w2_after_first 5 []) = RDone w2_final.
Proof. vm_compute. reflexivity. Qed.
Lemma w2_final_scanning : kind_of w2_final 2 = KScanning.
Proof. vm_compute. reflexivity. Qed.

Theorem done_quiescent_v0_refuted_ex :
  exists rules env s0 root s, quiescent s0 /\ fst (ibuild_v0 rules env mixF ord0 all_sync 200 200 s0 root []) = RDone s /\ ~ quiescent s.
Proof.
  exists Rw2, Ew2, w2_after_first, 5, w2_final. split; [exact w2_after_first_quiescent|]. split; [exact w2_done|].
  intros (_ & _ & _ & _ & _ & _ & _ & _ & Q). destruct (Q 2) as (Hq & _). apply Hq. exact w2_final_scanning.
Qed.

(* ---------- non-vacuity of [in_build] and of the stall theorem ---------- *)
Definition st0 := start_build (iemit (bump init_istate) (EBuildStart 5)) 5.
Definition st1 := fst (loop_iteration R6 E6 mixF ord6 none_sync 100 st0 []).
(* after the first iteration of the 6-rule build (no task completes by itself): six tasks exist, two are computing, four wait *)
Example in_build_nonvacuous :
  in_build R6 E6 mixF ord6 none_sync init_istate 5 st1 /\ length (is_tasks st1) = 6%nat /\ is_outstanding st1 = 2%nat /\
  map (fun e => ti_wait (snd e)) (is_tasks st1) = [1; 3; 0; 2; 2; 0]%nat.
Proof.
  split; [split; [exact quiescent_init|]|vm_compute; repeat split; reflexivity].
  apply (loop_iteration_msteps R6 E6 mixF ord6 none_sync stall_test 100 st0 []). vm_compute. reflexivity.
Qed.

(* a static cycle 1 -> 2 -> 1: the engine stalls with the requested key unfinished and reports the cycle 1 2 1 *)
Definition Rc : key -> rule := rules_of [(1, mkRule 0 false [2] [] [] None []); (2, mkRule 0 false [1] [] [] None [])].
Definition runCyc := ibuild Rc (env_of []) mixF ord0 all_sync 100 100 init_istate 1 [].
Example stall_nonvacuous :
  match fst runCyc with
  | RCycle s g (FindCycle.FcDone l) => g = [(1, 2); (2, 1)] /\ l = [1; 2; 1] /\ any_scanning s = false /\ is_tasks s = []
  | _ => False
  end.
Proof. vm_compute. repeat split; reflexivity. Qed.

(* ---------- (stretch, instances only) the values of the small-step engine are those of the big-step specification ---------- *)
Definition spec_values : list (option value) :=
  match Spec.build R6 E6 mixF (fun _ _ l => l) 50 Spec.init_state 5 with
  | Spec.Ok s => map (fun k => Spec.result_of s k) [0; 1; 2; 3; 4; 5]
  | _ => []
  end.
Example refines_spec_values_instance : values_of runA = spec_values /\ values_of runB = spec_values /\ values_of runC = spec_values.
Proof. vm_compute. repeat split; reflexivity. Qed.
