(* P19 - part 17: inputsAvailable is delivered only by the ready-queue step, to the head of readyTaskInfos, whose waitCount is 0
   and which has no outstanding request. *)
From LLB Require Import Engine.Rules Engine.Spec Engine.Impl Engine.ImplProofs Engine.ImplProofsSticky Engine.ImplProofsInv Engine.ImplProofsInv9.
From Coq Require Import Arith Lia.
Local Open Scope N_scope.

Definition not_avail (e : event) : Prop := match e with EAvail _ => False | _ => True end.
(* the log grows by events that are not inputsAvailable *)
Definition NA (s s' : istate) : Prop := exists l, is_log s' = l ++ is_log s /\ Forall not_avail l.

Lemma NA_refl s : NA s s. Proof. exists []. split; auto. Qed.
Lemma NA_trans s1 s2 s3 : NA s1 s2 -> NA s2 s3 -> NA s1 s3.
Proof. intros (l1 & H1 & F1) (l2 & H2 & F2). exists (l2 ++ l1). split; [rewrite H2, H1; now rewrite app_assoc|apply Forall_app; auto]. Qed.
Lemma NA_frame s s' : is_log s' = is_log s -> NA s s'. Proof. intros H. exists []. split; auto. Qed.
Lemma NA_iemit s e : not_avail e -> NA s (iemit s e). Proof. intros H. exists [e]. split; [reflexivity|constructor; auto]. Qed.

Ltac naf := apply NA_frame; now autorewrite with iv.
Ltac nas L := eapply NA_trans; [|apply L].

Lemma NA_fault s c : NA s (fault s c). Proof. naf. Qed.
Lemma NA_check s b c : NA s (check s b c). Proof. destruct b; [apply NA_refl|apply NA_fault]. Qed.
Lemma NA_touch s k : NA s (touch s k). Proof. naf. Qed.
Lemma NA_set_ti s t ti : NA s (set_ti s t ti). Proof. naf. Qed.
Lemma NA_mod_ri s k f : NA s (mod_ri s k f). Proof. naf. Qed.
Lemma NA_mod_ti s t f : NA s (mod_ti s t f). Proof. unfold mod_ti. destruct (aget _ _); [apply NA_set_ti|apply NA_fault]. Qed.
Lemma NA_push_inreq s rq : NA s (push_inreq s rq). Proof. naf. Qed.

Lemma NA_add_request s t inp slot o sg : NA s (add_request s t inp slot o sg).
Proof.
  unfold add_request. destruct (aget _ _); [|apply NA_fault]. destruct (negb _); [apply NA_fault|].
  nas NA_mod_ti. nas NA_push_inreq. apply NA_touch.
Qed.
Lemma NA_add_reqs ks : forall s t slot sg, NA s (add_reqs s t ks slot sg).
Proof. induction ks as [|x ks IH]; intros; cbn [add_reqs]; [apply NA_refl|]. eapply NA_trans; [apply NA_add_request|apply IH]. Qed.
Lemma NA_add_follows ks : forall s t, NA s (add_follows s t ks).
Proof. induction ks as [|x ks IH]; intros; cbn [add_follows]; [apply NA_refl|]. eapply NA_trans; [apply NA_add_request|apply IH]. Qed.
Lemma NA_start_group rules s t c : NA s (start_group rules s t c).
Proof. unfold start_group. destruct c; [apply NA_add_reqs|apply NA_add_reqs|apply NA_add_follows]. Qed.
Lemma NA_fold {A} (f : istate -> A -> istate) (Hf : forall s a, NA s (f s a)) l : forall s, NA s (fold_left f l s).
Proof. induction l as [|a l IH]; intros s; cbn [fold_left]; [apply NA_refl|]. eapply NA_trans; [apply Hf|apply IH]. Qed.
Lemma NA_task_start rules ord s t : NA s (task_start rules ord s t).
Proof.
  unfold task_start. cbn zeta. eapply NA_trans; [|apply NA_fold; intros; apply NA_start_group].
  nas NA_mod_ti. now apply NA_iemit.
Qed.
Lemma NA_branch_reqs ks : forall s t, NA s (branch_reqs s t ks).
Proof.
  induction ks as [|x ks IH]; intros; cbn [branch_reqs]; [apply NA_refl|].
  destruct (aget _ _); [|apply NA_fault]. eapply NA_trans; [|apply IH]. nas NA_add_request. apply NA_set_ti.
Qed.
Lemma NA_provide_value rules s t slot inp v : NA s (provide_value rules s t slot inp v).
Proof.
  unfold provide_value. cbn zeta. apply NA_trans with (iemit s (EProvide t slot inp v)); [now apply NA_iemit|].
  destruct (aget _ _) as [ti|]; [|apply NA_fault]. destruct (branch_fire _ _ _ _ _); [|apply NA_set_ti]. nas NA_branch_reqs. apply NA_set_ti.
Qed.
Lemma NA_discovered s t d : NA s (discovered s t d).
Proof. unfold discovered. destruct (aget _ _); [|apply NA_fault]. destruct (negb _); [apply NA_fault|apply NA_mod_ti]. Qed.
Lemma NA_task_is_complete rules s t v : NA s (task_is_complete rules s t v).
Proof. unfold task_is_complete. destruct (negb _); [apply NA_fault|]. cbn zeta. naf. Qed.
Lemma NA_task_finish rules s t : NA s (task_finish rules s t).
Proof.
  unfold task_finish. destruct (aget _ _) as [ti|]; [|apply NA_refl]. destruct (ti_pending ti); [|apply NA_refl]. cbn zeta.
  nas NA_task_is_complete. eapply NA_trans; [|now apply NA_iemit]. eapply NA_trans; [|apply NA_fold; intros; apply NA_discovered]. apply NA_set_ti.
Qed.

Lemma NA_need s k r i : NA s (need s k r i).
Proof. unfold need. eapply NA_trans; [|now apply NA_iemit]. unfold set_kind. apply NA_mod_ri. Qed.
Lemma NA_scan_rule rules env s k : NA s (snd (scan_rule rules env s k)).
Proof.
  unfold scan_rule. destruct (is_scanned s k); [apply NA_refl|]. destruct (kind_eqb _ _); [apply NA_refl|]. cbn zeta.
  assert (Hc : NA s (mod_ri s k ri_clean_single)) by apply NA_mod_ri.
  destruct (N.eqb _ 0); [cbn [snd]; nas NA_need; exact Hc|].
  destruct (ri_cancelled _); [cbn [snd]; nas NA_need; exact Hc|].
  destruct (negb (N.eqb _ _)); [cbn [snd]; nas NA_need; exact Hc|].
  destruct (negb (valid _ _ _ _)); [cbn [snd]; nas NA_need; eapply NA_trans; [exact Hc|now apply NA_iemit]|].
  destruct (res_deps _); cbn [snd].
  - eapply NA_trans; [exact Hc|]. apply NA_trans with (iemit (mod_ri s k ri_clean_single) (EValid k true)); [now apply NA_iemit|]. unfold set_kind. apply NA_mod_ri.
  - eapply NA_trans; [exact Hc|]. apply NA_trans with (iemit (mod_ri s k ri_clean_single) (EValid k true)); [now apply NA_iemit|]. naf.
Qed.
Lemma NA_create_task rules ord s k : NA s (create_task rules ord s k).
Proof.
  unfold create_task. cbn zeta. set (s0 := check s (kind_eqb (kind_of s k) KNeedsToRun) FDemandUnscanned).
  apply NA_trans with s0; [apply NA_check|].
  apply NA_trans with (begin_task s0 k); [exists [ECreate k]; split; [reflexivity|constructor; [exact I|constructor]]|].
  apply NA_trans with (task_start rules ord (begin_task s0 k) k); [apply NA_task_start|].
  set (s2 := task_start rules ord (begin_task s0 k) k).
  apply NA_trans with (prior_value rules s2 k).
  - unfold prior_value. cbn zeta. destruct (_ && _); [now apply NA_iemit|apply NA_refl].
  - unfold ready_if_nowait. destruct (aget _ _); [destruct (Nat.eqb _ _); [naf|apply NA_refl]|apply NA_fault].
Qed.
Lemma NA_demand_rule rules ord s k : NA s (snd (demand_rule rules ord s k)).
Proof.
  unfold demand_rule. destruct (is_complete s k); [apply NA_refl|]. destruct (is_in_progress s k); [apply NA_refl|].
  destruct (kind_eqb _ _); cbn [snd]; [unfold set_complete; apply NA_mod_ri|apply NA_create_task].
Qed.
Lemma NA_finish_scan s k kd : NA s (finish_scan s k kd).
Proof. unfold finish_scan. cbn zeta. eapply NA_trans; [apply NA_check|]. unfold wake_scan_record. naf. Qed.
Lemma NA_defer_on_rule s inp rq : NA s (defer_on_rule s inp rq).
Proof. unfold defer_on_rule. nas NA_mod_ri. apply NA_check. Qed.
Lemma NA_pause_on_rule s inp rq : NA s (pause_on_rule s inp rq).
Proof. unfold pause_on_rule. nas NA_mod_ri. apply NA_check. Qed.
Lemma NA_route_request s t rq avail : NA s (route_request s t rq avail).
Proof. unfold route_request. cbn zeta. destruct avail; [naf|nas NA_mod_ti; apply NA_mod_ri]. Qed.
Lemma NA_scan_inputs rules env ord ds : forall s rq, NA s (scan_inputs rules env ord s rq ds).
Proof.
  induction ds as [|d ds IH]; intros s rq; cbn [scan_inputs]; [apply NA_fault|]. cbn zeta.
  pose proof (NA_scan_rule rules env (touch s (request_input rq d)) (request_input rq d)) as H1.
  destruct (scan_rule rules env (touch s (request_input rq d)) (request_input rq d)) as [b1 s1]. cbn [snd] in H1.
  assert (H1' : NA s s1) by (eapply NA_trans; [apply NA_touch|exact H1]).
  destruct b1; [|eapply NA_trans; [exact H1'|apply NA_defer_on_rule]].
  pose proof (NA_demand_rule rules ord s1 (request_input rq d)) as H2.
  destruct (demand_rule rules ord s1 (request_input rq d)) as [b2 s2]. cbn [snd] in H2.
  assert (H2' : NA s s2) by (eapply NA_trans; eauto).
  destruct b2; [|eapply NA_trans; [exact H2'|apply NA_mod_ti]].
  destruct (_ && _).
  - eapply NA_trans; [exact H2'|]. eapply NA_trans; [apply NA_finish_scan|now apply NA_iemit].
  - destruct ds; (eapply NA_trans; [exact H2'|]); [apply NA_finish_scan|apply IH].
Qed.
Lemma NA_step_scan rules env ord s : NA s (step_scan rules env ord s).
Proof.
  unfold step_scan. destruct (is_toscan s); [apply NA_refl|]. unfold process_scan_request.
  destruct (negb _); [naf|]. eapply NA_trans; [|apply NA_scan_inputs]. naf.
Qed.
Lemma NA_step_inreq rules env ord s : NA s (step_inreq rules env ord s).
Proof.
  unfold step_inreq. destruct (is_inreq s) as [|rq rest]; [apply NA_refl|]. unfold process_input_request.
  assert (H0 : NA s (upd_inreq s rest)) by naf.
  pose proof (NA_scan_rule rules env (upd_inreq s rest) (iq_input rq)) as H1.
  destruct (scan_rule rules env (upd_inreq s rest) (iq_input rq)) as [b1 s1]. cbn [snd] in H1.
  destruct b1; [|eapply NA_trans; [exact H0|]; eapply NA_trans; [exact H1|apply NA_pause_on_rule]].
  pose proof (NA_demand_rule rules ord s1 (iq_input rq)) as H2.
  destruct (demand_rule rules ord s1 (iq_input rq)) as [b2 s2]. cbn [snd] in H2.
  assert (H2' : NA s s2) by (eapply NA_trans; [exact H0|]; eapply NA_trans; eauto).
  destruct (iq_task rq); auto. eapply NA_trans; [exact H2'|apply NA_route_request].
Qed.
Lemma NA_step_fininreq rules s : NA s (step_fininreq rules s).
Proof.
  unfold step_fininreq. destruct (is_fininreq s) as [|rq rest]; [apply NA_refl|]. unfold deliver.
  destruct (iq_task rq); [|naf]. cbn zeta. eapply NA_trans; [|unfold decrement_wait].
  2:{ destruct (aget _ _) as [ti|]; [|apply NA_fault]. destruct (ti_wait ti); [apply NA_fault|]. cbn zeta. destruct (Nat.eqb _ _); naf. }
  destruct (iq_order rq); [naf|]. eapply NA_trans; [|apply NA_provide_value]. naf.
Qed.
Lemma push_dummies_log ds : forall s, is_log (push_dummies s ds) = is_log s.
Proof. induction ds as [|d ds IH]; intros s; cbn [push_dummies]; auto. rewrite IH. now autorewrite with iv. Qed.

Lemma NA_step_fintask s : NA s (step_fintask s).
Proof.
  unfold step_fintask. destruct (is_fintasks s) as [|t rest]; [apply NA_refl|]. unfold finish_task.
  change (aget (is_tasks (upd_fintasks s rest)) t) with (aget (is_tasks s) t). destruct (aget _ _) as [ti|]; [|naf]. cbn zeta.
  apply NA_frame. unfold retire_task, wake_task_waiters, db_write.
  match goal with |- context [if ?b then _ else _] => destruct b end; autorewrite with iv; rewrite push_dummies_log; autorewrite with iv;
  unfold check; destruct (kind_eqb _ _); now autorewrite with iv.
Qed.

Lemma NA_avail_body rules env F syncp s t : NA s (avail_body rules env F syncp s t).
Proof.
  unfold avail_body. destruct (aget _ _); [|apply NA_fault]. cbn zeta. destruct (syncp t); [nas NA_task_finish|]; apply NA_set_ti.
Qed.

Lemma NA_no_avail s s' l k : NA s s' -> is_log s' = l ++ is_log s -> ~ In (EAvail k) l.
Proof.
  intros (l' & H & Hf) Hl Hin. rewrite H in Hl. apply app_inv_tail in Hl. subst l'. rewrite Forall_forall in Hf. exact (Hf _ Hin).
Qed.

Section Avail.
Variable rules : key -> rule.
Variable env : key -> N.
Variable F : key -> N -> list value -> list N -> N -> N.
Variable ord : key -> list rkind.
Variable syncp : key -> bool.

(* inputsAvailable is only delivered by the ready-queue step, to the head of readyTaskInfos *)
Lemma avail_only_ready s s' l k : mstep rules env F ord syncp s s' -> is_log s' = l ++ is_log s -> In (EAvail k) l ->
  exists rest, is_ready s = k :: rest.
Proof.
  intros H Hl Hin. destruct H.
  - exfalso. exact (NA_no_avail _ _ _ _ (NA_task_finish rules s t) Hl Hin).
  - exfalso. exact (NA_no_avail _ _ _ _ (NA_step_scan rules env ord s) Hl Hin).
  - exfalso. exact (NA_no_avail _ _ _ _ (NA_step_inreq rules env ord s) Hl Hin).
  - exfalso. exact (NA_no_avail _ _ _ _ (NA_step_fininreq rules s) Hl Hin).
  - unfold step_ready in Hl. destruct (is_ready s) as [|t rest] eqn:Hq.
    + exfalso. exact (NA_no_avail _ _ _ _ (NA_refl s) Hl Hin).
    + exists rest. f_equal. unfold run_ready, inputs_available in Hl. cbn zeta in Hl.
      set (s1 := set_kind (check (upd_ready s rest) _ FNotWaiting) t KComputing) in Hl.
      destruct (NA_avail_body rules env F syncp (iemit s1 (EAvail t)) t) as (l2 & H2 & F2).
      assert (Hl1 : is_log (iemit s1 (EAvail t)) = EAvail t :: is_log s).
      { unfold s1, check. destruct (kind_eqb _ _); now autorewrite with iv. }
      rewrite is_log_upd_outstanding, H2, Hl1 in Hl. change (l2 ++ EAvail t :: is_log s) with (l2 ++ [EAvail t] ++ is_log s) in Hl.
      rewrite app_assoc in Hl. apply app_inv_tail in Hl. subst l. apply in_app_or in Hin. destruct Hin as [Hin|[Hin|[]]].
      * rewrite Forall_forall in F2. destruct (F2 _ Hin).
      * now inversion Hin.
  - exfalso. exact (NA_no_avail _ _ _ _ (NA_step_fintask s) Hl Hin).
Qed.

(* ... hence only when the task's waitCount is 0 and none of its requests is outstanding anywhere *)
Theorem inputs_available_at_zero s0 root s s' l k :
  in_build rules env F ord syncp s0 root s -> mstep rules env F ord syncp s s' -> is_log s' = l ++ is_log s -> In (EAvail k) l ->
  exists ti, aget (is_tasks s) k = Some ti /\ kind_of s k = KWaiting /\ ti_wait ti = 0%nat /\ outstanding_count s k = 0%nat.
Proof.
  intros Hb Hm Hl Hin. destruct (avail_only_ready s s' l k Hm Hl Hin) as (rest & Hq).
  pose proof (in_build_Inv rules env F ord syncp s0 root s Hb) as (_ & HT & _).
  destruct (t_rd1 ctx0 s HT k) as (ti & Hg & Hk & Hw); [rewrite Hq; now left|].
  exists ti. repeat split; auto. rewrite <- (waitcount rules env F ord syncp s0 root s Hb k ti Hg). exact Hw.
Qed.
End Avail.
