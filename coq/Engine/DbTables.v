(* The SQLite build database as data (/repo/lib/Core/SQLiteBuildDB.cpp).  Definitions only.

   Tables:  info(id, version, client_version, iteration)       - one row
            key_names(id INTEGER PRIMARY KEY, key TEXT UNIQUE) - ids handed out by SQLite's rowid rule: max(id)+1
            rule_results(key_id INTEGER PRIMARY KEY, value BLOB, signature, built_at, computed_at, start, end,
                         dependencies BLOB)                     - INSERT OR REPLACE keyed by key_id
   plus the two in-process caches of SQLiteBuildDB (engineKeyIDs : DBKeyID -> KeyID, dbKeyIDs : KeyID -> DBKeyID).
   The engine's KeyIDs are in bijection with key byte strings (BuildEngine's key table), so the model identifies an
   engine KeyID with the key's bytes.  The `start`/`end` wall-clock columns are not part of the property and are
   omitted.

   Keys are ARBITRARY byte lists (NUL bytes, the empty string, strings that look like numbers).  In this model
   key_names is compared with [bytes_eqb], i.e. it is injective on byte strings BY CONSTRUCTION.  Whether SQLite
   honours this for the column type the schema declares is exactly what the harness checks on the real file (it did
   not before fix 61b11d1: the column had NUMERIC affinity, so "1" and "1.0" or "01" collided). *)
From LLB Require Import Base.Bytes Base.LE Codec.DepBlob.
Local Open Scope N_scope.

Record row := mkRow {
  row_value : bytes; row_sig : N; row_builtAt : N; row_computedAt : N; row_depblob : bytes }.

(* a dependency as the engine hands it over: key (name), orderOnly, singleUse *)
Definition ndep := (bytes * bool * bool)%type.

(* Core::Result as seen through the BuildDB interface *)
Record dbresult := mkDbRes {
  dr_value : bytes; dr_sig : N; dr_builtAt : N; dr_computedAt : N; dr_deps : list ndep }.

Record tables := mkT {
  key_names : list (N * bytes);
  rule_results : list (N * row);
  info : N * N * N;                    (* schema version, client version, iteration *)
  cache_ids : list (bytes * N);        (* dbKeyIDs: most recent assignment first *)
  cache_names : list (N * bytes)       (* engineKeyIDs *)
}.

Definition empty_tables (schema client : N) : tables := mkT [] [] (schema, client, 0) [] [].

(* ---- key_names ---- *)

(* SELECT id FROM key_names WHERE key == ? LIMIT 1 *)
Fixpoint find_id (kn : list (N * bytes)) (k : bytes) : option N :=
  match kn with [] => None | (id, k') :: t => if bytes_eqb k k' then Some id else find_id t k end.

(* SELECT key FROM key_names WHERE id == ? LIMIT 1 *)
Fixpoint find_name (kn : list (N * bytes)) (id : N) : option bytes :=
  match kn with [] => None | (id', k) :: t => if N.eqb id id' then Some k else find_name t id end.

Fixpoint max_id (kn : list (N * bytes)) : N :=
  match kn with [] => 0 | (id, _) :: t => N.max id (max_id t) end.

(* getKeyIDFromDB: look the key up, else INSERT and take sqlite3_last_insert_rowid (= max+1; the first id is 1) *)
Definition intern (kn : list (N * bytes)) (k : bytes) : list (N * bytes) :=
  match find_id kn k with Some _ => kn | None => kn ++ [(max_id kn + 1, k)] end.

Definition id_after_intern (kn : list (N * bytes)) (k : bytes) : N :=
  match find_id kn k with Some id => id | None => max_id kn + 1 end.

(* ---- the caches ---- *)

Fixpoint cache_find_id (c : list (bytes * N)) (k : bytes) : option N :=
  match c with [] => None | (k', id) :: t => if bytes_eqb k k' then Some id else cache_find_id t k end.

Definition set_key_names (t : tables) (kn : list (N * bytes)) : tables :=
  mkT kn (rule_results t) (info t) (cache_ids t) (cache_names t).

(* engineKeyIDs[dbKeyID] = keyID; dbKeyIDs[keyID] = dbKeyID; *)
Definition cache_both (t : tables) (id : N) (k : bytes) : tables :=
  mkT (key_names t) (rule_results t) (info t) ((k, id) :: cache_ids t) ((id, k) :: cache_names t).

(* getKeyID: cache, else getKeyIDFromDB; a result of 0 (the error value) is not cached *)
Definition get_key_id (t : tables) (k : bytes) : tables * N :=
  match cache_find_id (cache_ids t) k with
  | Some id => (t, id)
  | None =>
    let id := id_after_intern (key_names t) k in
    let t1 := set_key_names t (intern (key_names t) k) in
    if N.eqb id 0 then (t1, id) else (cache_both t1 id k, id)
  end.

(* getKeyIDForID: cache, else the table (and then cached); None = "no such id" error *)
Definition get_key_name (t : tables) (id : N) : tables * option bytes :=
  match find_name (cache_names t) id with
  | Some k => (t, Some k)
  | None =>
    match find_name (key_names t) id with
    | Some k => (cache_both t id k, Some k)
    | None => (t, None)
    end
  end.

(* ---- rule_results ---- *)

Fixpoint find_row (rr : list (N * row)) (id : N) : option row :=
  match rr with [] => None | (id', r) :: t => if N.eqb id id' then Some r else find_row t id end.

(* INSERT OR REPLACE keyed by key_id *)
Fixpoint put_row (rr : list (N * row)) (id : N) (r : row) : list (N * row) :=
  match rr with
  | [] => [(id, r)]
  | (id', r') :: t => if N.eqb id id' then (id, r) :: t else (id', r') :: put_row t id r
  end.

Definition set_rows (t : tables) (rr : list (N * row)) : tables :=
  mkT (key_names t) rr (info t) (cache_ids t) (cache_names t).

(* the loop of setRuleResult mapping each dependency key to its database id, in request order *)
Fixpoint map_key_ids (t : tables) (ds : list ndep) : tables * list dbdep :=
  match ds with
  | [] => (t, [])
  | (k, oo, su) :: ds' =>
    let (t1, id) := get_key_id t k in
    let (t2, out) := map_key_ids t1 ds' in
    (t2, (id, oo, su) :: out)
  end.

(* setRuleResult: the rule's own id first, then the dependencies, then the row *)
Definition set_rule_result (t : tables) (k : bytes) (r : dbresult) : tables :=
  let (t1, id) := get_key_id t k in
  let (t2, ds) := map_key_ids t1 (dr_deps r) in
  set_rows t2 (put_row (rule_results t2) id
                 (mkRow (dr_value r) (dr_sig r) (dr_builtAt r) (dr_computedAt r) (encode_deps ds))).

Inductive lres :=
| Found (r : dbresult)
| NotFound                      (* lookupRuleResult returns false, no error: the rule has no stored result *)
| LookupError.                  (* returns false with an error message: the engine cancels the build *)

(* the loop of lookupRuleResult mapping ids back to keys; stops at the first unknown id *)
Fixpoint map_key_names (t : tables) (ds : list dbdep) : tables * option (list ndep) :=
  match ds with
  | [] => (t, Some [])
  | (id, oo, su) :: ds' =>
    match get_key_name t id with
    | (t1, Some k) =>
      match map_key_names t1 ds' with
      | (t2, Some out) => (t2, Some ((k, oo, su) :: out))
      | (t2, None) => (t2, None)
      end
    | (t1, None) => (t1, None)
    end
  end.

Definition decode_row (t : tables) (r : row) : tables * lres :=
  match decode_deps (row_depblob r) with
  | None => (t, LookupError)
  | Some ds =>
    match map_key_names t ds with
    | (t1, Some nds) => (t1, Found (mkDbRes (row_value r) (row_sig r) (row_builtAt r) (row_computedAt r) nds))
    | (t1, None) => (t1, LookupError)
    end
  end.

(* lookupRuleResult: fast path by cached id, else the join on the key (which then caches the mapping) *)
Definition lookup_rule_result_st (t : tables) (k : bytes) : tables * lres :=
  match cache_find_id (cache_ids t) k with
  | Some id =>
    match find_row (rule_results t) id with
    | None => (t, NotFound)
    | Some r => decode_row t r
    end
  | None =>
    match find_id (key_names t) k with
    | None => (t, NotFound)
    | Some id =>
      match find_row (rule_results t) id with
      | None => (t, NotFound)
      | Some r => decode_row (cache_both t id k) r
      end
    end
  end.

Definition lookup_rule_result (t : tables) (k : bytes) : lres := snd (lookup_rule_result_st t k).

(* setCurrentIteration / getCurrentEpoch *)
Definition set_iteration (t : tables) (n : N) : tables :=
  mkT (key_names t) (rule_results t) (fst (fst (info t)), snd (fst (info t)), n) (cache_ids t) (cache_names t).
Definition iteration (t : tables) : N := snd (info t).

(* ---- open(): the version gate ----
   stored = what "SELECT version,client_version FROM info LIMIT 1" yields: None when the table or its row is missing
   (a new file), in which case the code sets version = -1, which equals no current schema version.
   The test is  version != currentSchemaVersion || clientVersion != clientSchemaVersion.
   [stored] holds the two numbers AS READ (sqlite3_column_int, i.e. after truncation to 32 bits; the code itself
   only ever writes values that fit, via "%d" of an int / uint32_t, and reads them back to the same bit pattern). *)
Inductive open_dec := UseStored | Recreate | Reject.

Definition versions_match (stored : option (N * N)) (cur : N * N) : bool :=
  match stored with
  | None => false
  | Some (sv, cv) => N.eqb sv (fst cur) && N.eqb cv (snd cur)
  end.

Definition open_decision (stored : option (N * N)) (cur : N * N) (recreate : bool) : open_dec :=
  if versions_match stored cur then UseStored else if recreate then Recreate else Reject.

(* what a process that has just opened the file sees: the file's tables, empty caches *)
Definition fresh_process (t : tables) : tables := mkT (key_names t) (rule_results t) (info t) [] [].

Definition stored_versions (file : option tables) : option (N * N) :=
  match file with Some t => Some (fst (info t)) | None => None end.

(* the tables the process works on after open(); None = open() failed with "Version mismatch" *)
Definition open_db (file : option tables) (cur : N * N) (recreate : bool) : option tables :=
  match open_decision (stored_versions file) cur recreate with
  | UseStored => match file with Some t => Some (fresh_process t) | None => None end
  | Recreate => Some (empty_tables (fst cur) (snd cur))      (* unlink, CREATE TABLEs, INSERT INTO info (0, cur, cur, 0) *)
  | Reject => None
  end.

(* ---- the file lock ----
   buildStarted executes BEGIN EXCLUSIVE and fails (after the busy timeout, or at once when the same connection is
   already inside a transaction) unless nobody holds the file; buildComplete (only called by the engine after a
   successful buildStarted) executes END and closes the connection.  While a connection holds the exclusive
   transaction every statement of another connection fails with SQLITE_BUSY. *)
Definition conn := N.
Definition lock_state := list conn.          (* the connections inside BEGIN EXCLUSIVE ... END *)

Definition build_started (l : lock_state) (c : conn) : lock_state * bool :=
  match l with [] => ([c], true) | _ :: _ => (l, false) end.

Definition build_complete (l : lock_state) (c : conn) : lock_state :=
  filter (fun x => negb (N.eqb x c)) l.

Definition may_write (l : lock_state) (c : conn) : bool := forallb (N.eqb c) l.

(* setRuleResult issued by connection c; None = error, nothing written *)
Definition db_write (l : lock_state) (c : conn) (t : tables) (k : bytes) (r : dbresult) : option tables :=
  if may_write l c then Some (set_rule_result t k r) else None.

Inductive lock_op := LStart (c : conn) | LComplete (c : conn).

Definition lock_step (l : lock_state) (o : lock_op) : lock_state :=
  match o with LStart c => fst (build_started l c) | LComplete c => build_complete l c end.

Definition lock_run (ops : list lock_op) : lock_state := fold_left lock_step ops [].

(* ---- operation sequences (for the invariant theorems) ---- *)
Inductive db_op :=
| DSet (k : bytes) (r : dbresult)
| DLookup (k : bytes)
| DIter (n : N)
| DReopen.                                  (* the process ends; the next one starts with empty caches *)

Definition db_step (t : tables) (o : db_op) : tables :=
  match o with
  | DSet k r => set_rule_result t k r
  | DLookup k => fst (lookup_rule_result_st t k)
  | DIter n => set_iteration t n
  | DReopen => fresh_process t
  end.

Definition db_run (t : tables) (ops : list db_op) : tables := fold_left db_step ops t.
