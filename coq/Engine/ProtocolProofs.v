(* C06 - characterisation of the task protocol automaton (Protocol.v) for ALL event lists and ALL request multisets. *)
From Coq Require Import List Arith Bool Lia Permutation.
From LLB Require Import Engine.Protocol.
Import ListNotations.

Lemma remove1_perm : forall s l l', remove1 s l = Some l' -> Permutation l (s :: l').
Proof.
  intros s l. induction l as [|x t IH]; intros l' H; cbn [remove1] in H; [discriminate|].
  destruct (Nat.eqb x s) eqn:E.
  - apply Nat.eqb_eq in E. inversion H; subst. apply Permutation_refl.
  - destruct (remove1 s t) as [t'|]; [|discriminate]. inversion H; subst.
    eapply perm_trans; [apply perm_skip, IH; reflexivity | apply perm_swap].
Qed.

Lemma remove1_in : forall s l, In s l -> exists l', remove1 s l = Some l'.
Proof.
  intros s l. induction l as [|x t IH]; intros Hin; [now elim Hin|].
  cbn [remove1]. destruct (Nat.eqb x s) eqn:E; [eexists; reflexivity|].
  destruct Hin as [Hx|Hin]; [subst; rewrite Nat.eqb_refl in E; discriminate|].
  destruct (IH Hin) as [t' Ht]. rewrite Ht. eexists; reflexivity.
Qed.

Lemma run_app : forall req a b st,
  proto_run req st (a ++ b) = match proto_run req st a with Some st' => proto_run req st' b | None => None end.
Proof.
  intros req a. induction a as [|e t IH]; intros b st; [reflexivity|].
  cbn [app proto_run]. destruct (proto_step req st e); [apply IH|reflexivity].
Qed.

Lemma finished_run : forall req t st, proto_run req PSFinished t = Some st -> t = [] /\ st = PSFinished.
Proof.
  intros req t st H. destruct t as [|e t]; [inversion H; now split|].
  cbn [proto_run proto_step] in H. destruct e; discriminate.
Qed.

Lemma computing_run : forall req t, proto_run req PSComputing t = Some PSFinished -> t = [PComplete].
Proof.
  intros req t H. destruct t as [|e t]; [discriminate|].
  cbn [proto_run proto_step] in H. destruct e; try discriminate.
  apply finished_run in H. destruct H as [-> _]. reflexivity.
Qed.

Lemma started_run : forall req evs b p,
  proto_run req (PSStarted b p) evs = Some PSFinished ->
  exists pr ps, evs = pr ++ map PProvide ps ++ [PAvail; PComplete] /\
                (pr = [] \/ (b = true /\ pr = [PPrior])) /\ Permutation ps p.
Proof.
  intros req evs. induction evs as [|e t IH]; intros b p H; [discriminate|].
  cbn [proto_run proto_step] in H. destruct e as [| |s| |].
  - discriminate.
  - destruct b; [|discriminate].
    destruct (IH false p H) as (pr & ps & Ht & Hpr & Hperm).
    destruct Hpr as [->|[Hb _]]; [|discriminate].
    exists [PPrior], ps. split; [now rewrite Ht|]. split; [right; now split|exact Hperm].
  - destruct (remove1 s p) as [p'|] eqn:Hrem; [|discriminate].
    destruct (IH false p' H) as (pr & ps & Ht & Hpr & Hperm).
    destruct Hpr as [->|[Hb _]]; [|discriminate].
    exists [], (s :: ps). split; [now rewrite Ht|]. split; [now left|].
    apply Permutation_sym. eapply perm_trans; [apply (remove1_perm s p p' Hrem)|]. apply perm_skip. now apply Permutation_sym.
  - destruct p; [|discriminate]. apply computing_run in H. subst t.
    exists [], []. split; [reflexivity|]. split; [now left|apply perm_nil].
  - discriminate.
Qed.

Lemma provides_run : forall req ps b p, Permutation ps p ->
  proto_run req (PSStarted b p) (map PProvide ps ++ [PAvail; PComplete]) = Some PSFinished.
Proof.
  intros req ps. induction ps as [|s ps' IH]; intros b p Hperm.
  - apply Permutation_nil in Hperm. subst p. reflexivity.
  - assert (Hin : In s p) by (apply (Permutation_in s Hperm); now left).
    destruct (remove1_in s p Hin) as [p' Hrem].
    cbn [map app proto_run proto_step]. rewrite Hrem. apply IH.
    apply (Permutation_cons_inv (a := s)). eapply perm_trans; [exact Hperm|]. apply (remove1_perm s p p' Hrem).
Qed.

(* The language of the automaton, exactly. *)
Theorem proto_accepts_iff : forall req evs,
  proto_accepts req evs = true <->
  exists pr ps, evs = PStart :: pr ++ map PProvide ps ++ [PAvail; PComplete] /\
                (pr = [] \/ pr = [PPrior]) /\ Permutation ps req.
Proof.
  intros req evs. unfold proto_accepts. split.
  - intro H. destruct evs as [|e t]; [discriminate|].
    cbn [proto_run] in H. destruct e; cbn [proto_step] in H; try discriminate.
    destruct (proto_run req (PSStarted true req) t) as [st|] eqn:Hr; [|discriminate].
    destruct st; try discriminate.
    destruct (started_run req t true req Hr) as (pr & ps & Ht & Hpr & Hperm).
    exists pr, ps. split; [now rewrite Ht|]. split; [|exact Hperm].
    destruct Hpr as [->|[_ ->]]; [now left|now right].
  - intros (pr & ps & -> & Hpr & Hperm). cbn [proto_run proto_step].
    destruct Hpr as [->| ->].
    + cbn [app]. now rewrite (provides_run req ps true req Hperm).
    + cbn [app proto_run proto_step]. now rewrite (provides_run req ps false req Hperm).
Qed.

(* ---- the individual clauses of the property, for ALL event lists *)

Lemma in_map_provide : forall e ps, In e (map PProvide ps) -> exists s, e = PProvide s.
Proof. intros e ps H. apply in_map_iff in H. destruct H as (s & <- & _). now exists s. Qed.

(* exactly one start, and it comes first *)
Theorem accepts_start_first : forall req evs, proto_accepts req evs = true ->
  exists rest, evs = PStart :: rest /\ ~ In PStart rest.
Proof.
  intros req evs H. apply proto_accepts_iff in H. destruct H as (pr & ps & -> & Hpr & _).
  eexists; split; [reflexivity|]. intro Hin.
  apply in_app_or in Hin. destruct Hin as [Hin|Hin].
  - destruct Hpr as [->| ->]; [now elim Hin|]. destruct Hin as [E|[]]; discriminate.
  - apply in_app_or in Hin. destruct Hin as [Hin|Hin].
    + apply in_map_provide in Hin. destruct Hin as [s E]; discriminate.
    + destruct Hin as [E|[E|[]]]; discriminate.
Qed.

(* the prior value is only ever delivered directly after start *)
Theorem accepts_prior_position : forall req evs, proto_accepts req evs = true ->
  forall n, nth_error evs n = Some PPrior -> n = 1.
Proof.
  intros req evs H n Hn. apply proto_accepts_iff in H. destruct H as (pr & ps & -> & Hpr & _).
  destruct n as [|n]; [discriminate|]. cbn [nth_error] in Hn.
  assert (Hno : forall k, nth_error (map PProvide ps ++ [PAvail; PComplete]) k <> Some PPrior).
  { intros k Hk. apply nth_error_In in Hk. apply in_app_or in Hk. destruct Hk as [Hk|Hk].
    - apply in_map_provide in Hk. destruct Hk as [s E]; discriminate.
    - destruct Hk as [E|[E|[]]]; discriminate. }
  destruct Hpr as [->| ->].
  - now elim (Hno n).
  - destruct n as [|n]; [reflexivity|]. cbn [app nth_error] in Hn. now elim (Hno n).
Qed.

Lemma count_nat_perm : forall s l l', Permutation l l' -> count_nat s l = count_nat s l'.
Proof.
  intros s l l' H. induction H; cbn [count_nat]; lia.
Qed.

Lemma count_provide_app : forall s a b, count_provide s (a ++ b) = count_provide s a + count_provide s b.
Proof. intros s a b. induction a as [|e t IH]; cbn [app count_provide]; [reflexivity|]. rewrite IH. lia. Qed.

Lemma count_provide_map : forall s ps, count_provide s (map PProvide ps) = count_nat s ps.
Proof. intros s ps. induction ps as [|x t IH]; cbn [map count_provide count_nat is_provide]; [reflexivity|]. now rewrite IH. Qed.

(* every requested slot is provided exactly as often as it was requested (once, when the ids are distinct) *)
Theorem accepts_provided_exactly : forall req evs, proto_accepts req evs = true ->
  forall s, count_provide s evs = count_nat s req.
Proof.
  intros req evs H s. apply proto_accepts_iff in H. destruct H as (pr & ps & -> & Hpr & Hperm).
  cbn [count_provide is_provide]. rewrite !count_provide_app, count_provide_map.
  rewrite (count_nat_perm s ps req Hperm).
  destruct Hpr as [->| ->]; cbn; lia.
Qed.

(* inputs-available exactly once, after every provide; complete exactly once, directly after it, and last *)
Theorem accepts_avail_complete : forall req evs, proto_accepts req evs = true ->
  exists pre, evs = pre ++ [PAvail; PComplete] /\ ~ In PAvail pre /\ ~ In PComplete pre /\
              forall s, count_provide s pre = count_nat s req.
Proof.
  intros req evs H. pose proof (accepts_provided_exactly req evs H) as Hcnt.
  apply proto_accepts_iff in H. destruct H as (pr & ps & -> & Hpr & Hperm).
  exists (PStart :: pr ++ map PProvide ps).
  split; [cbn [app]; now rewrite <- app_assoc|].
  assert (Hno : forall e, (e = PAvail \/ e = PComplete) -> ~ In e (PStart :: pr ++ map PProvide ps)).
  { intros e He [E|Hin]; [destruct He; subst; discriminate|].
    apply in_app_or in Hin. destruct Hin as [Hin|Hin].
    - destruct Hpr as [->| ->]; [now elim Hin|]. destruct Hin as [E|[]]. destruct He; subst; discriminate.
    - apply in_map_provide in Hin. destruct Hin as [s E]. destruct He; subst; discriminate. }
  split; [apply Hno; now left|]. split; [apply Hno; now right|].
  intro s. specialize (Hcnt s). cbn [count_provide is_provide] in *.
  rewrite !count_provide_app in Hcnt. rewrite count_provide_app. cbn in Hcnt. lia.
Qed.

(* prefixes: what a task of a cancelled build has seen is an initial part of an accepted life *)
Theorem prefix_ok_iff : forall req evs,
  proto_prefix_ok req evs = true <-> exists rest, proto_accepts req (evs ++ rest) = true.
Proof.
  intros req evs. unfold proto_prefix_ok, proto_accepts. split.
  - intro H. destruct (proto_run req PSInit evs) as [st|] eqn:Hr; [|discriminate].
    destruct st as [|b p| |].
    + destruct evs as [|e t].
      * exists (PStart :: map PProvide req ++ [PAvail; PComplete]). cbn [app proto_run proto_step].
        now rewrite (provides_run req req true req (Permutation_refl _)).
      * cbn [proto_run] in Hr. destruct e; cbn [proto_step] in Hr; try discriminate.
        exfalso. clear H. revert Hr. generalize true, req at 2. induction t as [|e t IH]; intros b p Hr; [discriminate|].
        cbn [proto_run] in Hr. destruct (proto_step req (PSStarted b p) e) as [st|] eqn:Hs; [|discriminate].
        destruct st as [|b' p'| |].
        -- cbn [proto_step] in Hs. destruct e; try discriminate.
           ++ destruct b; discriminate.
           ++ destruct (remove1 slot p); discriminate.
           ++ destruct p; discriminate.
        -- now apply (IH b' p').
        -- destruct t as [|e' t']; [discriminate|]. cbn [proto_run proto_step] in Hr. destruct e'; try discriminate.
           destruct t' as [|e2 t2]; [discriminate|]. cbn [proto_run proto_step] in Hr. discriminate.
        -- destruct t as [|e' t']; [discriminate|]. cbn [proto_run proto_step] in Hr. discriminate.
    + exists (map PProvide p ++ [PAvail; PComplete]). rewrite run_app, Hr.
      now rewrite (provides_run req p b p (Permutation_refl _)).
    + exists [PComplete]. rewrite run_app, Hr. reflexivity.
    + exists []. rewrite run_app, Hr. reflexivity.
  - intros [rest H]. rewrite run_app in H. destruct (proto_run req PSInit evs); [reflexivity|discriminate].
Qed.

(* so no slot is ever delivered more often than it was requested, and inputs-available closes the delivery *)
Theorem prefix_provided_at_most : forall req evs, proto_prefix_ok req evs = true ->
  forall s, count_provide s evs <= count_nat s req.
Proof.
  intros req evs H s. apply prefix_ok_iff in H. destruct H as [rest H].
  pose proof (accepts_provided_exactly req _ H s) as Hc. rewrite count_provide_app in Hc. lia.
Qed.

Theorem prefix_avail_after_all : forall req evs, proto_prefix_ok req evs = true -> In PAvail evs ->
  forall s, count_provide s evs = count_nat s req.
Proof.
  intros req evs H Hin s. apply prefix_ok_iff in H. destruct H as [rest H].
  destruct (accepts_avail_complete req _ H) as (pre & Heq & Hna & _ & Hcnt).
  (* evs ++ rest = pre ++ [PAvail; PComplete], and PAvail is in evs but not in pre: evs = pre ++ l with l ++ rest = [PAvail; PComplete] *)
  apply app_eq_app in Heq. destruct Heq as [l [[He Hr]|[Hp Hr]]].
  - subst evs. rewrite count_provide_app, Hcnt.
    assert (Hz : count_provide s (l ++ rest) = 0) by (rewrite <- Hr; reflexivity).
    rewrite count_provide_app in Hz. lia.
  - exfalso. apply Hna. rewrite Hp. apply in_or_app. now left.
Qed.
