(* C01 - the invariant of the specification engine: definitions, the clean value [cv] under a rank function,
   and the elementary preservation lemmas.  See SpecInv2.v for the main induction. *)
From LLB Require Import Engine.Rules Engine.Spec Engine.SpecFrame.
From Coq Require Import List NArith Bool Lia Arith Permutation.
Local Open Scope N_scope.

(* every key a rule can ever request *)
Definition br_keys (rl : rule) : list key := match r_br rl with Some (_, a, b) => a ++ b | None => [] end.
Definition mentioned (rl : rule) : list key := r_req rl ++ r_single rl ++ r_follow rl ++ br_keys rl ++ r_disc rl.

(* the recorded dependencies whose computedAt is compared during a scan and that survive the single-use cleaning *)
Definition cdeps (r : result) : list dep := filter (fun d => negb (d_order d) && negb (d_single d)) (res_deps r).

Definition stored (m : alist) (x : key) : option value := res_value (get m x).
Definition stamp_of (m : alist) (x : key) : N := snd (payload_of (stored m x)).

Section Inv.
Variable rules : key -> rule.
Variable env : key -> N.
Variable F : key -> N -> list value -> list N -> N -> N.
Variable order : N -> key -> list dep -> list dep.
Variable rank : key -> nat.
Variable R : key -> N -> rule.

(* hypotheses of the theorems *)
Definition wf_rank : Prop := forall k x, In x (mentioned (rules k)) -> (rank x < rank k)%nat.
Definition wf_disc : Prop := forall k d, In d (r_disc (rules k)) -> r_obs (rules d) = true.
Definition wf_order : Prop := forall e k l, Permutation l (order e k l).
Definition table_ok : Prop := forall k, R k (r_sig (rules k)) = rules k.

(* the clean value with the canonical sufficient fuel *)
Definition cvk (k : key) : option value := cv rules env F (S (rank k)) k.

(* no checked dependency was recomputed after the row was last built *)
Definition fresh_deps (m : alist) (r : result) : Prop :=
  forall d, In d (cdeps r) -> res_computedAt (get m (d_key d)) <= res_builtAt r.

(* the stored value is the task function (of rule rl) of the CURRENT stored inputs, and those inputs are recorded *)
Definition row_concl (rl : rule) (m : alist) (k : key) (r : result) (v : value) : Prop :=
  let slots1 := map (stored m) (r_req rl) in
  let bk := branch_keys rl slots1 in
  fst v = F k (r_sig rl) (map payload_of (slots1 ++ map (stored m) bk)) (map (stamp_of m) (r_disc rl)) (snd v)
  /\ forall x, In x (r_req rl ++ bk ++ r_disc rl) -> In (mkDep x false false) (cdeps r).

(* R k sg: THE rule of key k that has signature sg (two different rules of a key never share a signature);
   for a fixed rule table take R := fun k _ => rules k *)
Definition row_ok (m : alist) (k : key) (r : result) : Prop :=
  res_builtAt r <> 0 ->
  let rl := R k (res_sig r) in
  exists v, res_value r = Some v /\ (r_obs rl = false -> snd v = 0) /\
    (forall d, In d (drop_single (res_deps r)) -> In (d_key d) (mentioned rl)) /\
    (fresh_deps m r -> row_concl rl m k r v).

Definition bnd (s : state) : Prop :=
  forall k, res_computedAt (get (st_mem s) k) <= res_builtAt (get (st_mem s) k) /\
            res_builtAt (get (st_mem s) k) <= st_epoch s /\
            res_computedAt (get (st_db s) k) <= res_builtAt (get (st_db s) k).

(* the database row of a key is its memory row, except that a scan marks completion in memory only *)
Definition sync (s : state) : Prop :=
  forall k, let a := get (st_mem s) k in let b := get (st_db s) k in
    res_value a = res_value b /\ res_sig a = res_sig b /\ res_computedAt a = res_computedAt b /\
    res_builtAt b <= res_builtAt a /\ (res_builtAt a <> 0 -> res_builtAt b <> 0) /\
    drop_single (res_deps a) = drop_single (res_deps b).

Definition closed (E : key -> Prop) (s : state) : Prop :=
  forall k, ~ E k -> done s k -> forall d, In d (cdeps (get (st_mem s) k)) -> done s (d_key d).

Definition current (s : state) : Prop := forall k, done s k -> stored (st_mem s) k = cvk k.

Definition rows (E : key -> Prop) (s : state) : Prop := forall k, ~ E k -> row_ok (st_mem s) k (get (st_mem s) k).

(* E: the keys inside the window of [run] between [complete] and the end of the discovered dependencies *)
Definition Good (E : key -> Prop) (s : state) : Prop :=
  bnd s /\ sync s /\ rows E s /\ closed E s /\ current s /\ (forall k, E k -> done s k).

(* every value handed to a task is the clean value of the input *)
Definition prov_ok (e : event) : Prop :=
  match e with EProvide _ _ d v => v = cvk d | _ => True end.
Definition provs_ok (s s' : state) : Prop := exists l, st_log s' = l ++ st_log s /\ Forall prov_ok l.

(* between builds: nothing that mentions the environment *)
Definition AtRest (s : state) : Prop :=
  bnd s /\ sync s /\ rows (fun _ => False) s /\ st_db_epoch s = st_epoch s.

End Inv.

(* ---------- lists ---------- *)

Lemma map_opt_ext : forall {A B} (f g : A -> option B) l,
  (forall x, In x l -> f x = g x) -> map_opt f l = map_opt g l.
Proof.
  intros A B f g l. induction l as [|x t IH]; intros H; cbn [map_opt]; [reflexivity|].
  rewrite (H x) by now left. rewrite IH; [reflexivity|]. intros y Hy. apply H. now right.
Qed.

Lemma map_opt_some : forall {A B} (f : A -> option B) (g : A -> B) l,
  (forall x, In x l -> f x = Some (g x)) -> map_opt f l = Some (map g l).
Proof.
  intros A B f g l. induction l as [|x t IH]; intros H; cbn [map_opt map]; [reflexivity|].
  rewrite (H x) by now left. rewrite IH; [reflexivity|]. intros y Hy. apply H. now right.
Qed.

Lemma branch_keys_incl : forall rl slots x, In x (branch_keys rl slots) -> In x (br_keys rl).
Proof.
  intros rl slots x. unfold branch_keys, br_keys. destruct (r_br rl) as [[[i a] b]|]; [|intros []].
  destruct (nth_error slots i) as [[v|]|]; [| |intros []].
  - destruct (Nat.ltb i (length (r_req rl))); [|intros []].
    destruct (is_even v); intros H; apply in_or_app; tauto.
  - destruct (Nat.ltb i (length (r_req rl))); [|intros []]. intros H; apply in_or_app; tauto.
Qed.

Lemma in_mentioned : forall rl x,
  In x (mentioned rl) <-> In x (r_req rl) \/ In x (r_single rl) \/ In x (r_follow rl) \/ In x (br_keys rl) \/ In x (r_disc rl).
Proof. intros rl x. unfold mentioned. rewrite !in_app_iff. tauto. Qed.

Lemma value_eqb_eq : forall a b, value_eqb a b = true -> a = b.
Proof.
  intros [a1 a2] [b1 b2] H. unfold value_eqb in H; cbn in H. apply andb_true_iff in H. destruct H as [H1 H2].
  apply N.eqb_eq in H1, H2. now subst.
Qed.

(* ---------- the clean value under a rank ---------- *)

Section CV.
Variable rules : key -> rule.
Variable env : key -> N.
Variable F : key -> N -> list value -> list N -> N -> N.
Variable rank : key -> nat.
Hypothesis Hrank : wf_rank rules rank.

Let cvf := cv rules env F.
Let cvK := cvk rules env F rank.

Lemma rank_req : forall k x, In x (r_req (rules k)) -> (rank x < rank k)%nat.
Proof. intros k x H. apply Hrank, in_mentioned. tauto. Qed.
Lemma rank_single : forall k x, In x (r_single (rules k)) -> (rank x < rank k)%nat.
Proof. intros k x H. apply Hrank, in_mentioned. tauto. Qed.
Lemma rank_follow : forall k x, In x (r_follow (rules k)) -> (rank x < rank k)%nat.
Proof. intros k x H. apply Hrank, in_mentioned. tauto. Qed.
Lemma rank_branch : forall k slots x, In x (branch_keys (rules k) slots) -> (rank x < rank k)%nat.
Proof. intros k slots x H. apply Hrank, in_mentioned. apply branch_keys_incl in H. tauto. Qed.
Lemma rank_disc : forall k x, In x (r_disc (rules k)) -> (rank x < rank k)%nat.
Proof. intros k x H. apply Hrank, in_mentioned. tauto. Qed.

Lemma cv_fuel_some : forall f1 k, (rank k < f1)%nat ->
  (exists v, cvf f1 k = Some v) /\ forall f2, (rank k < f2)%nat -> cvf f2 k = cvf f1 k.
Proof.
  induction f1 as [|f1 IH]; intros k Hk; [lia|].
  assert (Hsub : forall l, (forall x, In x l -> (rank x < rank k)%nat) ->
            map_opt (cvf f1) l = Some (map (fun x => payload_of (cvf f1 x)) l) /\
            forall f2, (rank k <= f2)%nat -> map_opt (cvf f2) l = map_opt (cvf f1) l).
  { intros l Hl. split.
    - apply map_opt_some. intros x Hx. destruct (IH x) as [[v Hv] _]; [specialize (Hl x Hx); lia|].
      now rewrite Hv.
    - intros f2 Hf2. apply map_opt_ext. intros x Hx. specialize (Hl x Hx).
      destruct (IH x) as [_ H2]; [lia|]. apply H2. lia. }
  destruct (Hsub _ (rank_req k)) as [Hq1 Hq2].
  destruct (Hsub _ (rank_single k)) as [Hs1 Hs2].
  destruct (Hsub _ (rank_follow k)) as [Hf1 Hf2].
  split.
  - unfold cvf. cbn [cv]. fold cvf. rewrite Hq1, Hs1, Hf1.
    destruct (Hsub _ (rank_branch k (map Some (map (fun x => payload_of (cvf f1 x)) (r_req (rules k)))))) as [Hb1 _].
    rewrite Hb1. eauto.
  - intros [|f2] Hf; [lia|]. unfold cvf. cbn [cv]. fold cvf.
    rewrite (Hq2 f2), (Hs2 f2), (Hf2 f2) by lia. rewrite Hq1, Hs1, Hf1.
    destruct (Hsub _ (rank_branch k (map Some (map (fun x => payload_of (cvf f1 x)) (r_req (rules k)))))) as [_ Hb2].
    now rewrite (Hb2 f2) by lia.
Qed.

Lemma cv_cvk : forall f k, (rank k < f)%nat -> cvf f k = cvK k.
Proof. intros f k H. unfold cvK, cvk. fold cvf. apply (cv_fuel_some (S (rank k)) k); lia. Qed.

Lemma cvk_some : forall k, exists v, cvK k = Some v.
Proof. intros k. apply (cv_fuel_some (S (rank k)) k). lia. Qed.

Definition cvp (x : key) : value := payload_of (cvK x).

Lemma cvk_cvp : forall x, cvK x = Some (cvp x).
Proof. intros x. unfold cvp. destruct (cvk_some x) as [v ->]. reflexivity. Qed.

Lemma cvk_unfold : forall k,
  let rl := rules k in
  let bk := branch_keys rl (map cvK (r_req rl)) in
  cvK k = Some (F k (r_sig rl) (map cvp (r_req rl) ++ map cvp bk) (map env (r_disc rl)) (obs rules env k), obs rules env k).
Proof.
  intros k rl bk. subst rl.
  assert (Hsub : forall l, (forall x, In x l -> (rank x < rank k)%nat) -> map_opt (cvf (rank k)) l = Some (map cvp l)).
  { intros l Hl. apply map_opt_some. intros x Hx. rewrite cv_cvk by auto. apply cvk_cvp. }
  assert (Hm : map Some (map cvp (r_req (rules k))) = map cvK (r_req (rules k))).
  { rewrite map_map. apply map_ext. intros x. symmetry. apply cvk_cvp. }
  unfold cvK at 1, cvk. cbn [cv]. fold cvf.
  rewrite (Hsub _ (rank_req k)), (Hsub _ (rank_single k)), (Hsub _ (rank_follow k)).
  rewrite Hm. fold bk. rewrite (Hsub bk) by (apply rank_branch). reflexivity.
Qed.

End CV.

(* ---------- elementary preservation ---------- *)

Section Pres.
Variable rules : key -> rule.
Variable env : key -> N.
Variable F : key -> N -> list value -> list N -> N -> N.
Variable rank : key -> nat.
Variable R : key -> N -> rule.

Local Notation G := (Good rules env F rank R).
Local Notation provs_ok := (provs_ok rules env F rank).

Lemma Good_ext : forall E s s', st_mem s' = st_mem s -> st_epoch s' = st_epoch s -> st_db s' = st_db s ->
  G E s -> G E s'.
Proof.
  intros E s s' Hm He Hd H.
  unfold Good, bnd, sync, rows, closed, current, done in *. rewrite Hm, He, Hd. exact H.
Qed.

Lemma Good_emit : forall E s e, G E s -> G E (emit s e).
Proof. intros E s e. apply Good_ext; reflexivity. Qed.

Lemma provs_refl : forall s, provs_ok s s.
Proof. intros s. exists []. split; [reflexivity | constructor]. Qed.

Lemma provs_trans : forall s s1 s2, provs_ok s s1 -> provs_ok s1 s2 -> provs_ok s s2.
Proof.
  intros s s1 s2 [l1 [H1 F1]] [l2 [H2 F2]]. exists (l2 ++ l1). split.
  - rewrite H2, H1. now rewrite app_assoc.
  - apply Forall_app. now split.
Qed.

Lemma provs_emit : forall s e, prov_ok rules env F rank e -> provs_ok s (emit s e).
Proof. intros s e H. exists [e]. split; [reflexivity | now constructor]. Qed.

Lemma provs_same_log : forall s s', st_log s' = st_log s -> provs_ok s s'.
Proof. intros s s' H. exists []. split; [exact H | constructor]. Qed.

End Pres.
