(* C01 - the invariant of the specification engine: definitions, the clean value [cv] under a rank function,
   and the elementary preservation lemmas.  See SpecInv2.v for the main induction. *)
From LLB Require Import Engine.Rules Engine.Spec Engine.SpecFrame.
From Coq Require Import List NArith Bool Lia Arith Permutation.
Local Open Scope N_scope.

(* every key a rule can ever request *)
Definition br_keys (rl : rule) : list key := match r_br rl with Some (_, a, b) => a ++ b | None => [] end.
Definition mentioned (rl : rule) : list key := r_req rl ++ r_single rl ++ r_follow rl ++ br_keys rl ++ r_disc rl.

(* the recorded dependencies whose computedAt is compared during a scan and that survive the single-use cleaning *)
Definition cdeps (r : result) : list dep := filter (fun d => negb (d_order d) && negb (d_single d)) (res_deps r).

Definition stored (m : alist) (x : key) : option value := res_value (get m x).
Definition stamp_of (m : alist) (x : key) : N := snd (payload_of (stored m x)).

Section Inv.
Variable rules : key -> rule.
Variable env : key -> N.
Variable F : key -> N -> list value -> list N -> N -> N.
Variable order : N -> key -> list dep -> list dep.
Variable rank : key -> nat.

(* hypotheses of the theorems *)
Definition wf_rank : Prop := forall k x, In x (mentioned (rules k)) -> (rank x < rank k)%nat.
Definition wf_disc : Prop := forall k d, In d (r_disc (rules k)) -> r_obs (rules d) = true.
Definition wf_order : Prop := forall e k l, Permutation l (order e k l).

(* the clean value with the canonical sufficient fuel *)
Definition cvk (k : key) : option value := cv rules env F (S (rank k)) k.

(* no checked dependency was recomputed after the row was last built *)
Definition fresh_deps (m : alist) (r : result) : Prop :=
  forall d, In d (cdeps r) -> res_computedAt (get m (d_key d)) <= res_builtAt r.

(* the stored value is the task function of the CURRENT stored inputs, and those inputs are recorded *)
Definition row_concl (m : alist) (k : key) (r : result) (v : value) : Prop :=
  let rl := rules k in
  let slots1 := map (stored m) (r_req rl) in
  let bk := branch_keys rl slots1 in
  fst v = F k (r_sig rl) (map payload_of (slots1 ++ map (stored m) bk)) (map (stamp_of m) (r_disc rl)) (snd v)
  /\ forall x, In x (r_req rl ++ bk ++ r_disc rl) -> In (mkDep x false false) (cdeps r).

Definition row_ok (m : alist) (k : key) (r : result) : Prop :=
  res_builtAt r <> 0 -> res_sig r = r_sig (rules k) ->
  exists v, res_value r = Some v /\ (r_obs (rules k) = false -> snd v = 0) /\
    (forall d, In d (drop_single (res_deps r)) -> In (d_key d) (mentioned (rules k))) /\
    (fresh_deps m r -> row_concl m k r v).

Definition bnd (s : state) : Prop :=
  forall k, res_computedAt (get (st_mem s) k) <= res_builtAt (get (st_mem s) k) /\
            res_builtAt (get (st_mem s) k) <= st_epoch s /\
            res_computedAt (get (st_db s) k) <= res_builtAt (get (st_db s) k).

(* the database row of a key is its memory row, except that a scan marks completion in memory only *)
Definition sync (s : state) : Prop :=
  forall k, let a := get (st_mem s) k in let b := get (st_db s) k in
    res_value a = res_value b /\ res_sig a = res_sig b /\ res_computedAt a = res_computedAt b /\
    res_builtAt b <= res_builtAt a /\ (res_builtAt a <> 0 -> res_builtAt b <> 0) /\
    drop_single (res_deps a) = drop_single (res_deps b).

Definition closed (E : key -> Prop) (s : state) : Prop :=
  forall k, ~ E k -> done s k -> forall d, In d (cdeps (get (st_mem s) k)) -> done s (d_key d).

Definition current (s : state) : Prop := forall k, done s k -> stored (st_mem s) k = cvk k.

Definition rows (E : key -> Prop) (s : state) : Prop := forall k, ~ E k -> row_ok (st_mem s) k (get (st_mem s) k).

(* E: the keys inside the window of [run] between [complete] and the end of the discovered dependencies *)
Definition Good (E : key -> Prop) (s : state) : Prop :=
  bnd s /\ sync s /\ rows E s /\ closed E s /\ current s.

(* between builds: nothing that mentions the environment *)
Definition AtRest (s : state) : Prop :=
  bnd s /\ sync s /\ rows (fun _ => False) s /\ st_db_epoch s = st_epoch s.

End Inv.
