(* P24 - glue of the acceptance check (ocaml/vmodel_implacc.ml, harness/py/props/implacc.py): the state a build starts in and
   the way a build ends, written with the functions of Impl.v exactly as ibuild_gen / run_loop_gen / loop_iteration_gen use
   them.  Definitions only, nothing is proved about them (they are listed as trusted by the check); the steps BETWEEN the two
   are those of ImplGen.enabled_gen (ImplGenProofs.enabled_gen_sound: each is an mstep_gen). *)
From LLB Require Import Engine.Rules Engine.Spec Engine.Impl Engine.ImplGen.
From LLB Require Engine.FindCycle.
From Coq Require Import List NArith.
Import ListNotations.
Local Open Scope N_scope.

(* BuildEngine::build up to the loop of executeTasks: ++currentEpoch, the dummy input request for the key to build
   (ibuild_gen: s0 := iemit (bump s) (EBuildStart root); run_build_gen: start_build s0 root) *)
Definition acc_begin (s : istate) (root : key) : istate :=
  start_build (iemit (bump s) (EBuildStart root)) root.

(* how the loop is left *)
Inductive acc_end :=
| AccDone (s : istate)                                                   (* executeTasks returned true; s after the db epoch commit *)
| AccCycle (s : istate) (g : list (key * key)) (c : FindCycle.fc_result)  (* stalled: successor graph at the stall, findCycle's answer;
                                                                            s after cancelRemainingTasks and the commit *)
| AccWorking                                                             (* some queue is not empty: the loop goes on *)
| AccBlocked.                                                            (* no queue item but tasks are computing: the engine waits *)

(* loop_iteration_gen with nothing to do (did = false), then the StStall / StDone arms of run_loop_gen and the
   RCycle / RDone arms of ibuild_gen *)
Definition acc_finish (s : istate) (root : key) : acc_end :=
  if has_work s then AccWorking
  else if negb (Nat.eqb (is_outstanding s) 0) then AccBlocked
  else if stall_test s then
    let g := wait_graph s in
    let c := FindCycle.findcycle_names g root (fc_linear_fuel g) in
    let s' := match c with FindCycle.FcDone p => iemit s (ECycleReported p) | FindCycle.FcOutOfFuel => s end in
    AccCycle (iemit (commit (cancel_remaining s')) (EResult None true)) g c
  else AccDone (iemit (commit s) (EResult (res_value (res_of s root)) false)).

(* the build's answer in the AccDone case (what BuildEngine::build returns) *)
Definition acc_result (s : istate) (root : key) : option value := res_value (res_of s root).
