(* C02, part 5: order-only dependencies never trigger a re-run.  Two states that differ only in the
   computedAt of keys in a set D, where every recorded (non-single-use) dependency of an incomplete rule on a
   key of D is order-only, produce the same log (hence the same executions), call by call. *)
From LLB Require Import Engine.Rules Engine.Spec Engine.SpecOnceFrame Engine.SpecOnce1 Engine.SpecOnce3.
From Coq Require Import List NArith Bool Lia Arith.
Local Open Scope N_scope.

Section Sim.
Variable D : key -> Prop.

Definition req (x : key) (r1 r2 : result) : Prop :=
  res_value r1 = res_value r2 /\ res_sig r1 = res_sig r2 /\ res_builtAt r1 = res_builtAt r2 /\
  res_deps r1 = res_deps r2 /\ (D x \/ res_computedAt r1 = res_computedAt r2).

Definition sim (s t : state) : Prop :=
  st_epoch s = st_epoch t /\ st_flag s = st_flag t /\ st_log s = st_log t /\
  forall x, req x (get (st_mem s) x) (get (st_mem t) x).

Definition safe (s : state) : Prop :=
  forall x, ~ done s x -> forall d, In d (drop_single (res_deps (get (st_mem s) x))) -> D (d_key d) -> d_order d = true.

Definition sim_o (o1 o2 : outcome) : Prop :=
  match o1, o2 with
  | Ok s', Ok t' => sim s' t'
  | Cycle s' p, Cycle t' q => p = q /\ sim s' t'
  | OutOfFuel, OutOfFuel => True
  | _, _ => False
  end.

Lemma sim_emit : forall s t e, sim s t -> sim (emit s e) (emit t e).
Proof. intros s t e (A & B & C & E). repeat split; cbn [emit st_epoch st_flag st_log st_mem]; try assumption; try apply E. now rewrite C. Qed.

Lemma sim_set_mem : forall s t k r1 r2, sim s t -> req k r1 r2 -> sim (set_mem s k r1) (set_mem t k r2).
Proof.
  intros s t k r1 r2 (A & B & C & E) R. repeat split; cbn [set_mem st_epoch st_flag st_log st_mem]; try assumption.
  all: destruct (N.eq_dec x k) as [->|Hx]; [rewrite !get_update_same; apply R | rewrite !get_update_other by exact Hx; apply E].
Qed.

Lemma sim_flagged : forall s t x, sim s t -> flagged s x = flagged t x.
Proof. intros s t x (_ & B & _). unfold flagged. now rewrite B. Qed.

Lemma safe_frame : forall st s s' l, frame_st st s s' true l -> safe s -> safe s'.
Proof.
  intros st s s' l A S x Hx d Hd HD.
  destruct (fr_touch _ _ _ _ _ A eq_refl x) as [E|[_ Q]]; [|contradiction].
  rewrite E in Hd. eapply S; [|exact Hd | exact HD].
  intros C. apply Hx. unfold done in *. rewrite E, (fr_epoch _ _ _ _ _ A). exact C.
Qed.

Lemma safe_same_mem : forall s s', st_mem s' = st_mem s -> st_epoch s' = st_epoch s -> safe s -> safe s'.
Proof. intros s s' M E S x Hx d Hd HD. unfold done in Hx. rewrite M in *. rewrite E in Hx. eapply S; eassumption. Qed.

Section Step.
Variable rules : key -> rule.
Variable env : key -> N.
Variable F : key -> N -> list value -> list N -> N -> N.
Variable order : N -> key -> list dep -> list dep.
Variable ens : list key -> state -> key -> outcome.
Hypothesis Hens : forall stack s k, frame stack s k (ens stack s k).
Hypothesis Hsim : forall stack s t k, sim s t -> safe s -> sim_o (ens stack s k) (ens stack t k).

Lemma ens_ok_safe : forall stack s k s1, ens stack s k = Ok s1 -> safe s -> safe s1.
Proof.
  intros stack s k s1 E S. destruct (Hens stack s k) as [A _]. rewrite E in A. cbn [frame_o] in A.
  eapply safe_frame; eassumption.
Qed.

Lemma requests_sim : forall k stack ks slot s t acc, sim s t -> safe s ->
  sim_o (fst (requests ens k stack ks slot s acc)) (fst (requests ens k stack ks slot t acc)) /\
  snd (requests ens k stack ks slot s acc) = snd (requests ens k stack ks slot t acc) /\
  (forall s', fst (requests ens k stack ks slot s acc) = Ok s' -> safe s').
Proof.
  intros k stack ks. induction ks as [|x ks IH]; intros slot s t acc HS Sf; cbn [requests].
  - cbn [fst snd sim_o]. split; [exact HS|]. split; [reflexivity|]. intros s' E. inversion E. now subst.
  - pose proof (Hsim (k :: stack) s t x HS Sf) as H1.
    destruct (ens (k :: stack) s x) as [s1|s1 p|] eqn:E1; destruct (ens (k :: stack) t x) as [t1|t1 q|] eqn:E2;
      cbn [sim_o] in H1; try contradiction.
    + assert (Ev : res_value (get (st_mem s1) x) = res_value (get (st_mem t1) x)) by (destruct H1 as (_ & _ & _ & H1); apply H1).
      rewrite Ev. apply IH.
      * now apply sim_emit.
      * apply (safe_same_mem s1); [reflexivity | reflexivity |]. eapply ens_ok_safe; eassumption.
    + cbn [fst snd sim_o]. split; [exact H1|]. split; [reflexivity|]. intros s' C. discriminate.
    + cbn [fst snd sim_o]. split; [exact I|]. split; [reflexivity|]. intros s' C. discriminate.
Qed.

Lemma follows_sim : forall k stack ks s t, sim s t -> safe s ->
  sim_o (follows ens k stack ks s) (follows ens k stack ks t) /\
  (forall s', follows ens k stack ks s = Ok s' -> safe s').
Proof.
  intros k stack ks. induction ks as [|x ks IH]; intros s t HS Sf; cbn [follows].
  - cbn [sim_o]. split; [exact HS|]. intros s' E. inversion E. now subst.
  - pose proof (Hsim (k :: stack) s t x HS Sf) as H1.
    destruct (ens (k :: stack) s x) as [s1|s1 p|] eqn:E1; destruct (ens (k :: stack) t x) as [t1|t1 q|] eqn:E2;
      cbn [sim_o] in H1; try contradiction.
    + apply IH; [exact H1|]. eapply ens_ok_safe; eassumption.
    + cbn [sim_o]. split; [exact H1|]. intros s' C. discriminate.
    + cbn [sim_o]. split; [exact I|]. intros s' C. discriminate.
Qed.

Lemma sim_complete : forall s t k rl r1 r2 bk v, sim s t -> req k r1 r2 ->
  sim (complete order s k rl r1 bk v) (complete order t k rl r2 bk v).
Proof.
  intros s t k rl r1 r2 bk v (A & B & C & E) (R1 & R2 & R3 & R4 & R5).
  unfold complete. unfold sim. cbn [set_db set_mem unflag emit st_epoch st_flag st_log st_mem].
  split; [exact A|]. split; [now rewrite B|]. split; [now rewrite C|].
  intros x. destruct (N.eq_dec x k) as [->|Hx]; [|rewrite !get_update_other by exact Hx; apply E].
  rewrite !get_update_same. unfold req. cbn [res_value res_sig res_builtAt res_deps res_computedAt].
  rewrite A, R1. repeat split.
  destruct (match res_value r2 with Some old => negb (value_eqb old v) | None => true end); [now right | exact R5].
Qed.

Lemma safe_complete : forall s k rl r bk v, safe s -> safe (complete order s k rl r bk v).
Proof.
  intros s k rl r bk v S x Hx d Hd HD.
  assert (x <> k).
  { intros ->. apply Hx. unfold done. now rewrite complete_mem_same. }
  rewrite complete_mem_other in Hd by assumption. eapply S; [|exact Hd | exact HD].
  intros C. apply Hx. unfold done in *. rewrite complete_mem_other by assumption. exact C.
Qed.

Lemma run_sim : forall k stack r1 r2 s t, sim s t -> safe s -> req k r1 r2 ->
  sim_o (run rules env F order ens k stack r1 s) (run rules env F order ens k stack r2 t).
Proof.
  intros k stack r1 r2 s t HS Sf R. unfold run.
  destruct R as (R1 & R2 & R3 & R4 & R5).
  fold (run_pre rules k r1 s). fold (run_pre rules k r2 t).
  set (s0 := run_pre rules k r1 s). set (t0 := run_pre rules k r2 t).
  assert (HS0 : sim s0 t0).
  { unfold s0, t0, run_pre. rewrite R1, R2, R3. destruct (_ && _); repeat apply sim_emit; exact HS. }
  assert (Sf0 : safe s0).
  { apply (safe_same_mem s); [apply run_pre_mem | apply run_pre_epoch | exact Sf]. }
  clearbody s0 t0.
  destruct (requests_sim k stack (r_req (rules k)) 0 s0 t0 [] HS0 Sf0) as (Q1 & Q2 & Q3).
  destruct (requests ens k stack (r_req (rules k)) 0 s0 []) as [o1 slots1].
  destruct (requests ens k stack (r_req (rules k)) 0 t0 []) as [o1' slots1'].
  cbn [fst snd] in Q1, Q2, Q3. subst slots1'.
  destruct o1 as [s1|s1 p|]; destruct o1' as [t1|t1 q|]; cbn [sim_o] in Q1; try contradiction; try exact Q1.
  specialize (Q3 s1 eq_refl).
  destruct (requests_sim k stack (r_single (rules k)) (length slots1) s1 t1 [] Q1 Q3) as (U1 & U2 & U3).
  destruct (requests ens k stack (r_single (rules k)) (length slots1) s1 []) as [o2 slots2].
  destruct (requests ens k stack (r_single (rules k)) (length slots1) t1 []) as [o2' slots2'].
  cbn [fst snd] in U1, U2, U3. subst slots2'.
  destruct o2 as [s2|s2 p|]; destruct o2' as [t2|t2 q|]; cbn [sim_o] in U1; try contradiction; try exact U1.
  specialize (U3 s2 eq_refl).
  destruct (follows_sim k stack (r_follow (rules k)) s2 t2 U1 U3) as (V1 & V3).
  destruct (follows ens k stack (r_follow (rules k)) s2) as [s3|s3 p|];
    destruct (follows ens k stack (r_follow (rules k)) t2) as [t3|t3 q|]; cbn [sim_o] in V1; try contradiction; try exact V1.
  specialize (V3 s3 eq_refl).
  destruct (requests_sim k stack (branch_keys (rules k) slots1) (length slots1 + length slots2) s3 t3 [] V1 V3) as (W1 & W2 & W3).
  destruct (requests ens k stack (branch_keys (rules k) slots1) (length slots1 + length slots2) s3 []) as [o4 slots3].
  destruct (requests ens k stack (branch_keys (rules k) slots1) (length slots1 + length slots2) t3 []) as [o4' slots3'].
  cbn [fst snd] in W1, W2, W3. subst slots3'.
  destruct o4 as [s4|s4 p|]; destruct o4' as [t4|t4 q|]; cbn [sim_o] in W1; try contradiction; try exact W1.
  specialize (W3 s4 eq_refl).
  apply follows_sim.
  - apply sim_complete; [now apply sim_emit|]. repeat split; assumption.
  - apply safe_complete. apply (safe_same_mem s4); [reflexivity | reflexivity | exact W3].
Qed.

Lemma scan_sim : forall k stack r1 r2 ds s t, sim s t -> safe s -> req k r1 r2 ->
  ~ done s k -> ~ In k stack ->
  (forall d, In d ds -> D (d_key d) -> d_order d = true) ->
  sim_o (scan rules env F order ens k stack r1 ds s) (scan rules env F order ens k stack r2 ds t).
Proof.
  intros k stack r1 r2 ds. induction ds as [|d ds IH]; intros s t HS Sf R Hnd Hns Hds; cbn [scan].
  - cbn [sim_o]. destruct R as (R1 & R2 & R3 & R4 & R5). destruct HS as (A & HS').
    rewrite A. apply sim_set_mem; [split; [exact A | exact HS']|]. repeat split; cbn; assumption.
  - pose proof (Hsim (k :: stack) s t (d_key d) HS Sf) as H1.
    destruct (Hens (k :: stack) s (d_key d)) as [A _].
    destruct (ens (k :: stack) s (d_key d)) as [s1|s1 p|] eqn:E1; destruct (ens (k :: stack) t (d_key d)) as [t1|t1 q|] eqn:E2;
      cbn [sim_o] in H1; try contradiction; try exact H1.
    cbn [frame_o] in A.
    assert (Sf1 : safe s1) by (eapply safe_frame; eassumption).
    assert (Hnd1 : ~ done s1 k).
    { unfold done. rewrite (fr_stack _ _ _ _ _ A k) by now left. now rewrite (fr_epoch _ _ _ _ _ A). }
    assert (Ec : negb (d_order d) && (res_builtAt r1 <? res_computedAt (get (st_mem s1) (d_key d)))
               = negb (d_order d) && (res_builtAt r2 <? res_computedAt (get (st_mem t1) (d_key d)))).
    { destruct (d_order d) eqn:Eo; [reflexivity|]. cbn [negb andb].
      destruct R as (_ & _ & R3 & _). rewrite R3.
      destruct H1 as (_ & _ & _ & H1). destruct (H1 (d_key d)) as (_ & _ & _ & _ & [HD|Q]); [|now rewrite Q].
      rewrite (Hds d (or_introl eq_refl) HD) in Eo. discriminate. }
    rewrite Ec. clear Ec.
    destruct (negb (d_order d) && (res_builtAt r2 <? res_computedAt (get (st_mem t1) (d_key d)))).
    + apply run_sim; [now apply sim_emit | apply (safe_same_mem s1); [reflexivity | reflexivity | exact Sf1] | exact R].
    + apply IH; try assumption. intros d' Hd'. apply Hds. now right.
Qed.

Lemma ensure_body_sim : forall stack s t k, sim s t -> safe s ->
  sim_o (ensure_body rules env F order ens stack s k) (ensure_body rules env F order ens stack t k).
Proof.
  intros stack s t k HS Sf. unfold ensure_body.
  destruct (existsb (N.eqb k) stack) eqn:Est; [cbn [sim_o]; split; [reflexivity | exact HS]|].
  assert (Hns : ~ In k stack).
  { intros C. assert (existsb (N.eqb k) stack = true); [|congruence].
    apply existsb_exists. exists k. split; [exact C | apply N.eqb_refl]. }
  pose proof HS as (A & B & C & E). pose proof (E k) as (R1 & R2 & R3 & R4 & R5).
  replace (N.eqb (res_builtAt (get (st_mem t) k)) (st_epoch t)) with (N.eqb (res_builtAt (get (st_mem s) k)) (st_epoch s))
    by (rewrite R3, A; reflexivity).
  destruct (N.eqb (res_builtAt (get (st_mem s) k)) (st_epoch s)) eqn:Ed; [exact HS|].
  assert (Hnd : ~ done s k) by (now apply N.eqb_neq in Ed).
  set (r0 := get (st_mem s) k) in *. set (q0 := get (st_mem t) k) in *.
  set (r := mkRes (res_value r0) (res_sig r0) (res_computedAt r0) (res_builtAt r0) (drop_single (res_deps r0))).
  set (q := mkRes (res_value q0) (res_sig q0) (res_computedAt q0) (res_builtAt q0) (drop_single (res_deps q0))).
  assert (Rq : req k r q) by (unfold r, q; repeat split; cbn; try assumption; now rewrite R4).
  assert (HS1 : sim (set_mem s k r) (set_mem t k q)) by now apply sim_set_mem.
  assert (Sf1 : safe (set_mem s k r)).
  { intros x Hx d Hd HD. destruct (N.eq_dec x k) as [->|Hxk].
    - cbn [set_mem st_mem] in Hd. rewrite get_update_same in Hd. unfold r in Hd. cbn [res_deps] in Hd.
      rewrite drop_single_idem in Hd. eapply Sf; eassumption.
    - cbn [set_mem st_mem] in Hd. rewrite get_update_other in Hd by exact Hxk. eapply Sf; [|exact Hd | exact HD].
      intros Cx. apply Hx. unfold done in *. cbn [set_mem st_mem st_epoch]. now rewrite get_update_other. }
  assert (Hnd1 : ~ done (set_mem s k r) k) by (unfold done; cbn [set_mem st_mem st_epoch]; now rewrite get_update_same).
  set (s1 := set_mem s k r) in *. set (t1 := set_mem t k q) in *.
  assert (Sfe : forall e, safe (emit s1 e)) by (intros e; apply (safe_same_mem s1); [reflexivity | reflexivity | exact Sf1]).
  replace (res_builtAt q) with (res_builtAt r) by exact R3.
  destruct (N.eqb (res_builtAt r) 0).
  { apply run_sim; [now apply sim_emit | apply Sfe | exact Rq]. }
  rewrite <- (sim_flagged s1 t1 k HS1).
  destruct (flagged s1 k).
  { apply run_sim; [now apply sim_emit | apply Sfe | exact Rq]. }
  replace (res_sig q) with (res_sig r) by exact R2.
  destruct (negb (N.eqb (r_sig (rules k)) (res_sig r))).
  { apply run_sim; [now apply sim_emit | apply Sfe | exact Rq]. }
  assert (Ev : valid rules env k q = valid rules env k r) by (unfold valid, r, q; cbn [res_value]; now rewrite R1).
  rewrite Ev.
  destruct (negb (valid rules env k r)).
  { apply run_sim; [now repeat apply sim_emit | apply (safe_same_mem s1); [reflexivity | reflexivity | exact Sf1] | exact Rq]. }
  replace (res_deps q) with (res_deps r) by (unfold r, q; cbn [res_deps]; now rewrite R4).
  apply scan_sim; [now apply sim_emit | apply Sfe | exact Rq | exact Hnd1 | exact Hns |].
  intros d Hd HD. eapply Sf; [exact Hnd | exact Hd | exact HD].
Qed.

End Step.

Section Lift.
Variable rules : key -> rule.
Variable env : key -> N.
Variable F : key -> N -> list value -> list N -> N -> N.
Variable order : N -> key -> list dep -> list dep.

Theorem ensure_sim : forall fuel stack s t k, sim s t -> safe s ->
  sim_o (ensure rules env F order fuel stack s k) (ensure rules env F order fuel stack t k).
Proof.
  induction fuel as [|f IH]; intros stack s t k HS Sf; cbn [ensure].
  - exact I.
  - apply ensure_body_sim; try assumption. apply ensure_frame.
Qed.

Lemma sim_bump : forall s t, sim s t -> sim (bump_epoch s) (bump_epoch t).
Proof. intros s t (A & B & C & E). repeat split; cbn [bump_epoch st_epoch st_flag st_log st_mem]; try assumption; try apply E. now rewrite A. Qed.
Lemma sim_commit : forall s t, sim s t -> sim (commit_epoch s) (commit_epoch t).
Proof. intros s t (A & B & C & E). repeat split; cbn [commit_epoch st_epoch st_flag st_log st_mem]; try assumption; apply E. Qed.

Theorem build_sim : forall fuel s t k, sim s t -> safe (bump_epoch s) ->
  sim_o (build rules env F order fuel s k) (build rules env F order fuel t k).
Proof.
  intros fuel s t k HS Sf. unfold build.
  pose proof (ensure_sim fuel [] _ _ k (sim_bump _ _ HS) Sf) as H.
  destruct (ensure rules env F order fuel [] (bump_epoch s) k) as [s1|s1 p|];
    destruct (ensure rules env F order fuel [] (bump_epoch t) k) as [t1|t1 q|]; cbn [sim_o] in *; try contradiction; try exact I.
  - now apply sim_commit.
  - destruct H as [-> H]. split; [reflexivity | now apply sim_commit].
Qed.

End Lift.
End Sim.
