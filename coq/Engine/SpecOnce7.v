(* C02, part 7: after a successful call every complete rule is unflagged, has the current signature, is valid in the
   current environment, and all its recorded dependencies are complete.  With the bounds on computedAt this makes
   the complete rules a settled set for the next build: the null build executes nothing. *)
From LLB Require Import Engine.Rules Engine.Spec Engine.SpecOnceFrame Engine.SpecOnce1 Engine.SpecOnce3 Engine.SpecOnce6.
From Coq Require Import List NArith Bool Lia Arith.
Local Open Scope N_scope.

Section Good.
Variable rules : key -> rule.
Variable env : key -> N.
Variable F : key -> N -> list value -> list N -> N -> N.
Variable order : N -> key -> list dep -> list dep.
Hypothesis Horder : forall e k l d, In d (order e k l) -> In d l.

Definition good_at (s : state) (x : key) : Prop :=
  let r := get (st_mem s) x in
  flagged s x = false /\ r_sig (rules x) = res_sig r /\ valid rules env x r = true /\
  forall d, In d (res_deps r) -> done s (d_key d).

Definition good_done (stack : list key) (s : state) : Prop :=
  forall x, done s x -> ~ In x stack -> good_at s x.

Lemma good_done_same : forall st s s', st_mem s' = st_mem s -> st_epoch s' = st_epoch s -> st_flag s' = st_flag s ->
  good_done st s -> good_done st s'.
Proof.
  intros st s s' M E Fl H x Hx Hst.
  assert (Hd : forall y, done s' y <-> done s y) by (intros y; unfold done; rewrite M, E; tauto).
  destruct (H x (proj1 (Hd x) Hx) Hst) as (Q1 & Q2 & Q3 & Q4). unfold good_at, flagged in *. rewrite M, Fl.
  split; [exact Q1|]. split; [exact Q2|]. split; [exact Q3|]. intros d Hd'. apply Hd. now apply Q4.
Qed.

Lemma good_done_weaken : forall k st s, good_done st s -> good_done (k :: st) s.
Proof. intros k st s H x Hx Hst. apply H; [exact Hx|]. intros C. apply Hst. now right. Qed.

Lemma requested_deps_keys : forall rl bk d, In d (requested_deps rl bk) ->
  In (d_key d) (r_req rl ++ r_single rl ++ r_follow rl ++ bk).
Proof.
  intros rl bk d H. unfold requested_deps in H. rewrite !in_app_iff in *. rewrite !in_map_iff in H.
  destruct H as [(y & <- & H)|[(y & <- & H)|[(y & <- & H)|(y & <- & H)]]]; cbn [d_key]; tauto.
Qed.

Section Step.
Variable ens : list key -> state -> key -> outcome.
Hypothesis Hens : forall stack s k, frame stack s k (ens stack s k).
Hypothesis Hgood : forall stack s k s1, ens stack s k = Ok s1 -> good_done stack s -> good_done stack s1.

Lemma seg_good : forall st ks s o, seg ens st ks s o -> forall s', o = Ok s' -> good_done st s -> good_done st s'.
Proof.
  intros st ks s o H. induction H as [s|ks s e o Hp H IH|ks s x s1 o Hc H IH|ks s x o Hc Hn]; intros s' E G.
  - inversion E. now subst.
  - apply (IH s' E). eapply good_done_same; [| | |exact G]; reflexivity.
  - apply (IH s' E). eapply Hgood; eassumption.
  - exfalso. now apply (Hn s').
Qed.

Lemma run_good : forall k stack r s s', ~ done s k -> ~ In k stack ->
  run rules env F order ens k stack r s = Ok s' -> good_done stack s -> good_done stack s'.
Proof.
  intros k stack r s s' Hnd Hns E G.
  destruct (run_cases rules env F order ens k stack r s _ eq_refl)
    as [(s4 & slots1 & slots3 & GA & GB) | (Hno & _)]; [|exfalso; now apply (Hno s')].
  rewrite E in GB.
  destruct (seg_frame ens Hens _ _ _ _ GA) as [A DA]. destruct (seg_frame ens Hens _ _ _ _ GB) as [B DB].
  cbn [frame_o] in A, B. specialize (DA s4 eq_refl). specialize (DB s' eq_refl).
  set (bk := branch_keys (rules k) slots1) in *. set (v := task_value rules env F k (rules k) slots1 slots3) in *.
  set (s6 := complete order (emit s4 (EAvail k)) k (rules k) r bk v) in *.
  set (s0 := run_pre rules k r s) in *.
  assert (G0 : good_done (k :: stack) s0).
  { apply good_done_weaken. eapply good_done_same; [| | |exact G]; [apply run_pre_mem | apply run_pre_epoch | apply run_pre_flag]. }
  pose proof (seg_good _ _ _ _ GA s4 eq_refl G0) as G4.
  assert (Hnd4 : ~ done s4 k).
  { unfold done. rewrite (fr_stack _ _ _ _ _ A k) by now left. rewrite (fr_epoch _ _ _ _ _ A).
    unfold s0. now rewrite run_pre_mem, run_pre_epoch. }
  assert (H6other : forall x, x <> k -> get (st_mem s6) x = get (st_mem s4) x)
    by (intros x Hx; unfold s6; now rewrite complete_mem_other).
  assert (Hd46 : forall x, done s4 x -> done s6 x).
  { intros x Hx. assert (x <> k) by (intros ->; contradiction). unfold done in *. now rewrite H6other. }
  assert (G6 : good_done (k :: stack) s6).
  { intros x Hx Hst. assert (Hxk : x <> k) by (intros ->; apply Hst; now left).
    assert (D4 : done s4 x) by (unfold done in *; now rewrite H6other in Hx).
    destruct (G4 x D4 Hst) as (Q1 & Q2 & Q3 & Q4). unfold good_at. rewrite H6other by exact Hxk.
    split; [|split; [exact Q2|split; [exact Q3|]]].
    - unfold s6. rewrite complete_flagged. change (flagged (emit s4 (EAvail k)) x) with (flagged s4 x). now rewrite Q1.
    - intros d Hd. apply Hd46. now apply Q4. }
  pose proof (seg_good _ _ _ _ GB s' eq_refl G6) as G'.
  intros x Hx Hst. destruct (N.eq_dec x k) as [->|Hxk]; [|apply G'; [exact Hx | intros [C|C]; [now subst | contradiction]]].
  assert (D6 : done s6 k) by (unfold done, s6; now rewrite complete_mem_same).
  unfold good_at. rewrite (fr_frozen _ _ _ _ _ B k D6). unfold s6 at 1 2 3. rewrite complete_mem_k.
  cbn [res_sig res_deps]. split; [|split; [reflexivity|split]].
  - destruct (flagged s' k) eqn:Fk; [|reflexivity]. apply (fr_flag _ _ _ _ _ B) in Fk.
    unfold s6 in Fk. rewrite complete_flagged, N.eqb_refl, andb_false_r in Fk. discriminate.
  - unfold valid. cbn [res_value]. unfold v, task_value. cbn [snd]. unfold obs.
    destruct (r_obs (rules k)); [apply N.eqb_refl | reflexivity].
  - intros d Hd. apply in_app_iff in Hd. destruct Hd as [Hd|Hd].
    + apply Horder, requested_deps_keys in Hd. eapply frame_done_mono; [exact B|]. apply Hd46. now apply DA.
    + apply in_map_iff in Hd. destruct Hd as (y & <- & Hy). cbn [d_key]. now apply DB.
Qed.

Lemma scan_good : forall k stack r ds pre s s', res_deps r = pre ++ ds ->
  ~ done s k -> ~ In k stack -> flagged s k = false -> r_sig (rules k) = res_sig r -> valid rules env k r = true ->
  (forall d, In d pre -> done s (d_key d)) ->
  scan rules env F order ens k stack r ds s = Ok s' -> good_done (k :: stack) s -> good_done stack s'.
Proof.
  intros k stack r ds. induction ds as [|d ds IH]; intros pre s s' Hdeps Hnd Hns Hfl Hsig Hval Hpre E G; cbn [scan] in E.
  - inversion E. subst s'. clear E. set (r' := mkRes _ _ _ _ _).
    assert (Hother : forall x, x <> k -> get (st_mem (set_mem s k r')) x = get (st_mem s) x)
      by (intros x Hx; cbn [set_mem st_mem]; now apply get_update_other).
    assert (Hd : forall x, done s x -> done (set_mem s k r') x).
    { intros x Hx. assert (x <> k) by (intros ->; contradiction). unfold done in *. now rewrite Hother. }
    intros x Hx Hst. destruct (N.eq_dec x k) as [->|Hxk].
    + unfold good_at. cbn [set_mem st_mem]. rewrite get_update_same. unfold r'. cbn [res_sig res_deps].
      split; [exact Hfl|]. split; [exact Hsig|]. split; [exact Hval|].
      intros d Hd'. apply Hd. apply Hpre. rewrite Hdeps, app_nil_r in Hd'. exact Hd'.
    + assert (D : done s x) by (unfold done in *; now rewrite Hother in Hx).
      assert (Hst' : ~ In x (k :: stack)) by (intros [C|C]; [now subst | contradiction]).
      destruct (G x D Hst') as (Q1 & Q2 & Q3 & Q4). unfold good_at. rewrite Hother by exact Hxk.
      split; [exact Q1|]. split; [exact Q2|]. split; [exact Q3|]. intros d Hd'. apply Hd. now apply Q4.
  - destruct (Hens (k :: stack) s (d_key d)) as [A DA].
    destruct (ens (k :: stack) s (d_key d)) as [s1|s1 p|] eqn:Ec; [|discriminate..].
    cbn [frame_o] in A. specialize (DA s1 eq_refl).
    pose proof (Hgood _ _ _ _ Ec G) as G1.
    assert (Hnd1 : ~ done s1 k).
    { unfold done. rewrite (fr_stack _ _ _ _ _ A k) by now left. now rewrite (fr_epoch _ _ _ _ _ A). }
    assert (Hfl1 : flagged s1 k = false).
    { destruct (flagged s1 k) eqn:Fk; [|reflexivity]. apply (fr_flag _ _ _ _ _ A) in Fk. congruence. }
    destruct (negb (d_order d) && (res_builtAt r <? res_computedAt (get (st_mem s1) (d_key d)))).
    + eapply run_good; [| |exact E|].
      * exact Hnd1.
      * exact Hns.
      * eapply good_done_same; [| | |]; try reflexivity.
        intros x Hx Hst. apply G1; [exact Hx|]. intros [C|C]; [subst; contradiction | contradiction].
    + eapply (IH (pre ++ [d])); try eassumption.
      * rewrite <- app_assoc. exact Hdeps.
      * intros d' Hd'. apply in_app_iff in Hd'. destruct Hd' as [Hd'|[<-|[]]]; [|exact DA].
        eapply frame_done_mono; [exact A|]. now apply Hpre.
Qed.

Lemma ensure_body_good : forall stack s k s',
  ensure_body rules env F order ens stack s k = Ok s' -> good_done stack s -> good_done stack s'.
Proof.
  intros stack s k s' E G. unfold ensure_body in E.
  destruct (existsb (N.eqb k) stack) eqn:Est; [discriminate|].
  assert (Hns : ~ In k stack).
  { intros C. assert (existsb (N.eqb k) stack = true); [|congruence].
    apply existsb_exists. exists k. split; [exact C | apply N.eqb_refl]. }
  destruct (N.eqb (res_builtAt (get (st_mem s) k)) (st_epoch s)) eqn:Ed; [inversion E; now subst|].
  assert (Hnd : ~ done s k) by (now apply N.eqb_neq in Ed).
  set (r0 := get (st_mem s) k) in *. fold (clean r0) in E. set (r := clean r0) in *. set (s1 := set_mem s k r) in *.
  assert (Hnd1 : ~ done s1 k) by (unfold done, s1; cbn [set_mem st_mem st_epoch]; now rewrite get_update_same).
  assert (Hother : forall x, x <> k -> get (st_mem s1) x = get (st_mem s) x)
    by (intros x Hx; unfold s1; cbn [set_mem st_mem]; now apply get_update_other).
  assert (G1 : good_done stack s1).
  { intros x Hx Hst. assert (Hxk : x <> k) by (intros ->; contradiction).
    assert (D : done s x) by (unfold done in *; now rewrite Hother in Hx).
    destruct (G x D Hst) as (Q1 & Q2 & Q3 & Q4). unfold good_at. rewrite Hother by exact Hxk.
    split; [exact Q1|]. split; [exact Q2|]. split; [exact Q3|]. intros d Hd'.
    specialize (Q4 d Hd'). assert (d_key d <> k) by (intros C; rewrite C in Q4; contradiction).
    unfold done in *. now rewrite Hother. }
  assert (RUN : forall e, run rules env F order ens k stack r (emit s1 e) = Ok s' -> good_done stack s').
  { intros e Er. eapply run_good; [| |exact Er|]; [exact Hnd1 | exact Hns |].
    eapply good_done_same; [| | |exact G1]; reflexivity. }
  destruct (N.eqb (res_builtAt r) 0); [now apply (RUN _ E)|].
  destruct (flagged s1 k) eqn:Efl; [now apply (RUN _ E)|].
  destruct (negb (N.eqb (r_sig (rules k)) (res_sig r))) eqn:Esig; [now apply (RUN _ E)|].
  destruct (negb (valid rules env k r)) eqn:Ev.
  { eapply run_good; [| |exact E|]; [exact Hnd1 | exact Hns |]. eapply good_done_same; [| | |exact G1]; reflexivity. }
  apply negb_false_iff in Ev. apply negb_false_iff, N.eqb_eq in Esig.
  eapply (scan_good k stack r (res_deps r) []); [reflexivity | | exact Hns | | exact Esig | exact Ev | intros ? [] | exact E |].
  - exact Hnd1.
  - exact Efl.
  - apply good_done_weaken. eapply good_done_same; [| | |exact G1]; reflexivity.
Qed.

End Step.

Theorem ensure_good : forall fuel stack s k s',
  ensure rules env F order fuel stack s k = Ok s' -> good_done stack s -> good_done stack s'.
Proof.
  induction fuel as [|f IH]; intros stack s k s' E G; cbn [ensure] in E; [discriminate|].
  eapply ensure_body_good; [apply ensure_frame | exact IH | exact E | exact G].
Qed.

End Good.
