(* C01 - frame lemmas about the specification engine (Spec.v), proved once, generically over the recursive
   call [ens] of one [ensure] step, then lifted to [ensure] by induction on fuel.

   [frame_st stack s s']: the epochs are unchanged, interruption flags only shrink, the log only grows, and the
   memory and database rows of keys that are on the stack or complete ("done") in [s] are unchanged.
   [frame_o stack s k o]: what an outcome [o] of bringing [k] up to date from [s] guarantees. *)
From LLB Require Import Engine.Rules Engine.Spec.
From Coq Require Import List NArith Bool Lia Arith.
Local Open Scope N_scope.

(* ---------- get / update ---------- *)

Lemma lookup_update_same : forall m k r, lookup (update m k r) k = Some r.
Proof.
  induction m as [|[k' r'] t IH]; intros k r; cbn [update lookup].
  - now rewrite N.eqb_refl.
  - destruct (N.eqb k k') eqn:E; cbn [lookup].
    + now rewrite N.eqb_refl.
    + rewrite E. apply IH.
Qed.

Lemma lookup_update_other : forall m k x r, x <> k -> lookup (update m k r) x = lookup m x.
Proof.
  induction m as [|[k' r'] t IH]; intros k x r Hne; cbn [update lookup].
  - apply N.eqb_neq in Hne. now rewrite Hne.
  - destruct (N.eqb k k') eqn:E; cbn [lookup].
    + apply N.eqb_eq in E. subst k'. apply N.eqb_neq in Hne. now rewrite Hne.
    + destruct (N.eqb x k'); [reflexivity | now apply IH].
Qed.

Lemma get_update_same : forall m k r, get (update m k r) k = r.
Proof. intros. unfold get. now rewrite lookup_update_same. Qed.

Lemma get_update_other : forall m k x r, x <> k -> get (update m k r) x = get m x.
Proof. intros. unfold get. now rewrite lookup_update_other. Qed.

Lemma existsb_eqb_In : forall (k : key) l, existsb (N.eqb k) l = true <-> In k l.
Proof.
  intros k l. rewrite existsb_exists. split.
  - intros [x [Hin He]]. apply N.eqb_eq in He. now subst x.
  - intros Hin. exists k. split; [assumption | apply N.eqb_refl].
Qed.

Lemma existsb_eqb_nIn : forall (k : key) l, existsb (N.eqb k) l = false <-> ~ In k l.
Proof.
  intros k l. rewrite <- existsb_eqb_In. destruct (existsb (N.eqb k) l).
  - split; [discriminate | intros H; exfalso; now apply H].
  - split; [intros _ H; discriminate | reflexivity].
Qed.

(* ---------- done, frame ---------- *)

Definition done (s : state) (x : key) : Prop := res_builtAt (get (st_mem s) x) = st_epoch s.

Lemma done_dec : forall s x, {done s x} + {~ done s x}.
Proof. intros s x. unfold done. apply N.eq_dec. Qed.

Definition frame_st (stack : list key) (s s' : state) : Prop :=
  st_epoch s' = st_epoch s /\ st_db_epoch s' = st_db_epoch s /\
  (forall x, In x (st_flag s') -> In x (st_flag s)) /\
  (exists l, st_log s' = l ++ st_log s) /\
  (forall x, In x stack \/ done s x -> get (st_mem s') x = get (st_mem s) x) /\
  (forall x, In x stack \/ done s x -> get (st_db s') x = get (st_db s) x).

Definition frame_o (stack : list key) (s : state) (k : key) (o : outcome) : Prop :=
  match o with
  | Ok s' => frame_st stack s s' /\ done s' k
  | Cycle s' _ => frame_st stack s s'
  | OutOfFuel => True
  end.

Lemma frame_refl : forall st s, frame_st st s s.
Proof.
  intros st s. unfold frame_st. repeat split; auto. now exists [].
Qed.

Lemma frame_done_mono : forall st s s' x, frame_st st s s' -> done s x -> done s' x.
Proof.
  intros st s s' x (He & _ & _ & _ & Hm & _) Hd. unfold done in *.
  rewrite Hm by (now right). now rewrite He.
Qed.

Lemma frame_trans : forall st s s1 s2, frame_st st s s1 -> frame_st st s1 s2 -> frame_st st s s2.
Proof.
  intros st s s1 s2 H1 H2.
  assert (Hmono : forall x, done s x -> done s1 x) by (intros x; now apply frame_done_mono with (st := st)).
  destruct H1 as (He1 & Hd1 & Hf1 & [l1 Hl1] & Hm1 & Hb1).
  destruct H2 as (He2 & Hd2 & Hf2 & [l2 Hl2] & Hm2 & Hb2).
  unfold frame_st. repeat split.
  - congruence.
  - congruence.
  - auto.
  - exists (l2 ++ l1). rewrite Hl2, Hl1. now rewrite app_assoc.
  - intros x Hx. rewrite Hm2, Hm1; auto. destruct Hx as [Hx|Hx]; [now left | right; now apply Hmono].
  - intros x Hx. rewrite Hb2, Hb1; auto. destruct Hx as [Hx|Hx]; [now left | right; now apply Hmono].
Qed.

Lemma frame_weaken_stack : forall k st s s', frame_st (k :: st) s s' -> frame_st st s s'.
Proof.
  intros k st s s' (He & Hd & Hf & Hl & Hm & Hb). unfold frame_st. repeat split; auto.
  - intros x [Hx|Hx]; apply Hm; [left; now right | now right].
  - intros x [Hx|Hx]; apply Hb; [left; now right | now right].
Qed.

Lemma frame_emit : forall st s e, frame_st st s (emit s e).
Proof.
  intros st s e. unfold frame_st, emit; cbn. repeat split; auto. now exists [e].
Qed.

(* changing the rows of a key that is neither on the stack nor complete *)
Lemma frame_set_mem : forall st s k r, ~ In k st -> ~ done s k -> frame_st st s (set_mem s k r).
Proof.
  intros st s k r Hst Hnd. unfold frame_st, set_mem; cbn. repeat split; auto.
  - now exists [].
  - intros x Hx. apply get_update_other. intros ->. destruct Hx; contradiction.
Qed.

Lemma frame_set_db : forall st s k r, ~ In k st -> ~ done s k -> frame_st st s (set_db s k r).
Proof.
  intros st s k r Hst Hnd. unfold frame_st, set_db; cbn. repeat split; auto.
  - now exists [].
  - intros x Hx. apply get_update_other. intros ->. destruct Hx; contradiction.
Qed.

Lemma frame_unflag : forall st s k, frame_st st s (unflag s k).
Proof.
  intros st s k. unfold frame_st, unflag; cbn. repeat split; auto.
  - intros x Hx. apply filter_In in Hx. tauto.
  - now exists [].
Qed.

Lemma done_emit : forall s e x, done (emit s e) x <-> done s x.
Proof. intros. unfold done, emit; cbn. tauto. Qed.

(* the state part of an outcome *)
Definition frame_any (st : list key) (s : state) (o : outcome) : Prop :=
  match o with Ok s' => frame_st st s s' | Cycle s' _ => frame_st st s s' | OutOfFuel => True end.

Lemma frame_o_any : forall st s k o, frame_o st s k o -> frame_any st s o.
Proof. intros st s k o H. destruct o; cbn in *; tauto. Qed.

Lemma frame_any_trans : forall st s s1 o, frame_st st s s1 -> frame_any st s1 o -> frame_any st s o.
Proof. intros st s s1 o H1 H2. destruct o; cbn in *; auto; eapply frame_trans; eauto. Qed.

Lemma frame_any_weaken : forall k st s o, frame_any (k :: st) s o -> frame_any st s o.
Proof. intros k st s o H. destruct o; cbn in *; auto; eapply frame_weaken_stack; eauto. Qed.

Section Frame.
Variable rules : key -> rule.
Variable env : key -> N.
Variable F : key -> N -> list value -> list N -> N -> N.
Variable order : N -> key -> list dep -> list dep.
Variable ens : list key -> state -> key -> outcome.
Hypothesis Hens : forall stack s k, frame_o stack s k (ens stack s k).

Lemma requests_frame : forall k stack ks slot s acc o acc',
  requests ens k stack ks slot s acc = (o, acc') ->
  frame_any (k :: stack) s o /\ (forall s', o = Ok s' -> forall x, In x ks -> done s' x).
Proof.
  intros k stack ks. induction ks as [|x ks IH]; intros slot s acc o acc' H; cbn [requests] in H.
  - inversion H; subst. split; [apply frame_refl | intros s' _ x []].
  - pose proof (Hens (k :: stack) s x) as Hx.
    destruct (ens (k :: stack) s x) as [s1| s1 p|] eqn:E.
    + destruct Hx as [Hf Hd]. apply IH in H. destruct H as [H1 H2]. split.
      * eapply frame_any_trans; [|exact H1]. eapply frame_trans; [exact Hf | apply frame_emit].
      * intros s' -> y [<-|Hy]; [|now apply (H2 s' eq_refl)].
        cbn in H1. eapply frame_done_mono; [exact H1|]. now apply done_emit.
    + inversion H; subst. split; [exact Hx | discriminate].
    + inversion H; subst. split; [exact I | discriminate].
Qed.

Lemma follows_frame : forall k stack ks s o,
  follows ens k stack ks s = o ->
  frame_any (k :: stack) s o /\ (forall s', o = Ok s' -> forall x, In x ks -> done s' x).
Proof.
  intros k stack ks. induction ks as [|x ks IH]; intros s o H; cbn [follows] in H.
  - subst o. split; [apply frame_refl | intros s' _ x []].
  - pose proof (Hens (k :: stack) s x) as Hx.
    destruct (ens (k :: stack) s x) as [s1| s1 p|] eqn:E.
    + destruct Hx as [Hf Hd]. apply IH in H. destruct H as [H1 H2]. split.
      * eapply frame_any_trans; [exact Hf | exact H1].
      * intros s' -> y [<-|Hy]; [|now apply (H2 s' eq_refl)].
        cbn in H1. eapply frame_done_mono; [exact H1 | exact Hd].
    + subst o. split; [exact Hx | discriminate].
    + subst o. split; [exact I | discriminate].
Qed.

Lemma frame_notdone : forall k st a b, frame_st (k :: st) a b -> ~ done a k -> ~ done b k.
Proof.
  intros k st a b (He & _ & _ & _ & Hm & _) Hn Hd. apply Hn. unfold done in *.
  rewrite <- He, <- Hd. f_equal. symmetry. apply Hm. left. now left.
Qed.

Lemma complete_epoch : forall s k rl r bk v, st_epoch (complete order s k rl r bk v) = st_epoch s.
Proof. reflexivity. Qed.

Lemma complete_mem_other : forall s k rl r bk v x, x <> k ->
  get (st_mem (complete order s k rl r bk v)) x = get (st_mem s) x.
Proof. intros. unfold complete; cbn. now apply get_update_other. Qed.

Lemma complete_db_other : forall s k rl r bk v x, x <> k ->
  get (st_db (complete order s k rl r bk v)) x = get (st_db s) x.
Proof. intros. unfold complete; cbn. now apply get_update_other. Qed.

Lemma complete_done : forall s k rl r bk v, done (complete order s k rl r bk v) k.
Proof. intros. unfold done, complete; cbn. now rewrite get_update_same. Qed.

Lemma complete_frame : forall st s k rl r bk v, ~ In k st -> ~ done s k ->
  frame_st st s (complete order s k rl r bk v).
Proof.
  intros st s k rl r bk v Hst Hnd. unfold frame_st. repeat split.
  - unfold complete; cbn. intros x Hx. apply filter_In in Hx. tauto.
  - unfold complete; cbn. now exists [EComplete k v].
  - intros x Hx. apply complete_mem_other. intros ->. destruct Hx; contradiction.
  - intros x Hx. apply complete_db_other. intros ->. destruct Hx; contradiction.
Qed.

(* the state in which the requests of a run start *)
Definition run_pre (k : key) (r : result) (s : state) : state :=
  let s := emit (emit s (ECreate k)) (EStart k) in
  if negb (N.eqb (res_builtAt r) 0) && N.eqb (r_sig (rules k)) (res_sig r) then emit s (EPrior k (res_value r)) else s.

Lemma run_pre_frame : forall st k r s, frame_st st s (run_pre k r s).
Proof.
  intros st k r s. unfold run_pre.
  assert (H2 : frame_st st s (emit (emit s (ECreate k)) (EStart k))).
  { eapply frame_trans; apply frame_emit. }
  destruct (negb (N.eqb (res_builtAt r) 0) && N.eqb (r_sig (rules k)) (res_sig r)); [|exact H2].
  eapply frame_trans; [exact H2 | apply frame_emit].
Qed.

Lemma run_frame : forall k stack r s, ~ done s k -> ~ In k stack ->
  frame_o stack s k (run rules env F order ens k stack r s).
Proof.
  intros k stack r s Hnd Hst. unfold run. fold (run_pre k r s).
  pose proof (run_pre_frame (k :: stack) k r s) as H0. set (s0 := run_pre k r s) in *.
  destruct (requests ens k stack (r_req (rules k)) 0 s0 []) as [o1 slots1] eqn:E1.
  apply requests_frame in E1. destruct E1 as [F1 _].
  pose proof (frame_any_trans _ _ _ _ H0 F1) as G1.
  destruct o1 as [s1|s1 p|]; [| cbn; now apply frame_weaken_stack in G1 | exact I].
  destruct (requests ens k stack (r_single (rules k)) (length slots1) s1 []) as [o2 slots2] eqn:E2.
  apply requests_frame in E2. destruct E2 as [F2 _].
  pose proof (frame_any_trans _ _ _ _ G1 F2) as G2.
  destruct o2 as [s2|s2 p|]; [| cbn; now apply frame_weaken_stack in G2 | exact I].
  destruct (follows ens k stack (r_follow (rules k)) s2) as [s3|s3 p|] eqn:E3;
    apply follows_frame in E3; destruct E3 as [F3 _]; pose proof (frame_any_trans _ _ _ _ G2 F3) as G3;
    [| cbn; now apply frame_weaken_stack in G3 | exact I].
  destruct (requests ens k stack (branch_keys (rules k) slots1) (length slots1 + length slots2) s3 [])
    as [o4 slots3] eqn:E4.
  apply requests_frame in E4. destruct E4 as [F4 _].
  pose proof (frame_any_trans _ _ _ _ G3 F4) as G4.
  destruct o4 as [s4|s4 p|]; [| cbn; now apply frame_weaken_stack in G4 | exact I].
  cbn in G4.
  assert (G5 : frame_st (k :: stack) s (emit s4 (EAvail k))) by (eapply frame_trans; [exact G4 | apply frame_emit]).
  set (s5 := emit s4 (EAvail k)) in *.
  pose proof (frame_notdone _ _ _ _ G5 Hnd) as Hnd5.
  set (v := task_value rules env F k (rules k) slots1 slots3).
  set (s6 := complete order s5 k (rules k) r (branch_keys (rules k) slots1) v).
  assert (G6 : frame_st stack s s6).
  { eapply frame_trans; [eapply frame_weaken_stack; exact G5 | now apply complete_frame]. }
  destruct (follows ens k stack (r_disc (rules k)) s6) as [s7|s7 p|] eqn:E7;
    apply follows_frame in E7; destruct E7 as [F7 _]; [| |exact I].
  - cbn in F7. split.
    + eapply frame_trans; [exact G6 | eapply frame_weaken_stack; exact F7].
    + eapply frame_done_mono; [exact F7 | apply complete_done].
  - cbn in F7 |- *. eapply frame_trans; [exact G6 | eapply frame_weaken_stack; exact F7].
Qed.

Lemma frame_o_trans : forall st s s1 k o, frame_st st s s1 -> frame_o st s1 k o -> frame_o st s k o.
Proof.
  intros st s s1 k o H1 H2. destruct o; cbn in *; auto.
  - destruct H2 as [H2 Hd]. split; [eapply frame_trans; eauto | exact Hd].
  - eapply frame_trans; eauto.
Qed.

Lemma scan_frame : forall k stack r ds s, ~ done s k -> ~ In k stack ->
  frame_o stack s k (scan rules env F order ens k stack r ds s).
Proof.
  intros k stack r ds. induction ds as [|d ds IH]; intros s Hnd Hst; cbn [scan].
  - split; [now apply frame_set_mem|]. unfold done, set_mem; cbn. now rewrite get_update_same.
  - pose proof (Hens (k :: stack) s (d_key d)) as Hd.
    destruct (ens (k :: stack) s (d_key d)) as [s1|s1 p|] eqn:E; [| cbn in *; now apply frame_weaken_stack in Hd | exact I].
    destruct Hd as [Hf _].
    pose proof (frame_notdone _ _ _ _ Hf Hnd) as Hnd1.
    apply frame_weaken_stack in Hf.
    destruct (negb (d_order d) && (res_builtAt r <? res_computedAt (get (st_mem s1) (d_key d)))).
    + eapply frame_o_trans; [eapply frame_trans; [exact Hf | apply frame_emit] |].
      apply run_frame; [|exact Hst]. intros H. apply Hnd1. now apply done_emit in H.
    + eapply frame_o_trans; [exact Hf | now apply IH].
Qed.

Lemma ensure_body_frame : forall stack s k, frame_o stack s k (ensure_body rules env F order ens stack s k).
Proof.
  intros stack s k. unfold ensure_body.
  destruct (existsb (N.eqb k) stack) eqn:Est; [cbn; apply frame_refl|].
  apply existsb_eqb_nIn in Est.
  destruct (N.eqb (res_builtAt (get (st_mem s) k)) (st_epoch s)) eqn:Ed.
  { apply N.eqb_eq in Ed. split; [apply frame_refl | exact Ed]. }
  apply N.eqb_neq in Ed. fold (done s k) in Ed.
  set (r := mkRes _ _ _ _ _). cbn [res_builtAt r].
  assert (H0 : frame_st stack s (set_mem s k r)) by now apply frame_set_mem.
  assert (Hnd : ~ done (set_mem s k r) k).
  { unfold done, set_mem; cbn. rewrite get_update_same. exact Ed. }
  assert (Hrun : forall e, frame_o stack s k (run rules env F order ens k stack r (emit (set_mem s k r) e))).
  { intros e. eapply frame_o_trans; [eapply frame_trans; [exact H0 | apply frame_emit]|].
    apply run_frame; [|exact Est]. intros H. apply Hnd. now apply done_emit in H. }
  destruct (N.eqb (res_builtAt (get (st_mem s) k)) 0); [apply Hrun|].
  destruct (flagged (set_mem s k r) k); [apply Hrun|].
  destruct (negb (N.eqb (r_sig (rules k)) (res_sig r))); [apply Hrun|].
  destruct (negb (valid rules env k r)).
  - eapply frame_o_trans; [eapply frame_trans; [eapply frame_trans; [exact H0 | apply frame_emit] | apply frame_emit]|].
    apply run_frame; [|exact Est]. intros H. apply Hnd. now apply done_emit, done_emit in H.
  - eapply frame_o_trans; [eapply frame_trans; [exact H0 | apply frame_emit]|].
    apply scan_frame; [|exact Est]. intros H. apply Hnd. now apply done_emit in H.
Qed.

End Frame.

Section Lift.
Variable rules : key -> rule.
Variable env : key -> N.
Variable F : key -> N -> list value -> list N -> N -> N.
Variable order : N -> key -> list dep -> list dep.

Theorem ensure_frame : forall fuel stack s k, frame_o stack s k (ensure rules env F order fuel stack s k).
Proof.
  induction fuel as [|f IH]; intros stack s k; cbn [ensure].
  - exact I.
  - apply ensure_body_frame. exact IH.
Qed.

(* the individual facts, in the form the task statement lists them *)
Corollary ensure_epoch : forall f stack s k s', ensure rules env F order f stack s k = Ok s' -> st_epoch s' = st_epoch s.
Proof. intros f stack s k s' H. pose proof (ensure_frame f stack s k) as Hf. rewrite H in Hf. apply Hf. Qed.

Corollary ensure_db_epoch : forall f stack s k s', ensure rules env F order f stack s k = Ok s' -> st_db_epoch s' = st_db_epoch s.
Proof. intros f stack s k s' H. pose proof (ensure_frame f stack s k) as Hf. rewrite H in Hf. apply Hf. Qed.

Corollary ensure_flag : forall f stack s k s' x, ensure rules env F order f stack s k = Ok s' ->
  In x (st_flag s') -> In x (st_flag s).
Proof. intros f stack s k s' x H. pose proof (ensure_frame f stack s k) as Hf. rewrite H in Hf. apply Hf. Qed.

Corollary ensure_log : forall f stack s k s', ensure rules env F order f stack s k = Ok s' ->
  exists l, st_log s' = l ++ st_log s.
Proof. intros f stack s k s' H. pose proof (ensure_frame f stack s k) as Hf. rewrite H in Hf. apply Hf. Qed.

Corollary ensure_frozen : forall f stack s k s' x, ensure rules env F order f stack s k = Ok s' ->
  res_builtAt (get (st_mem s) x) = st_epoch s -> get (st_mem s') x = get (st_mem s) x.
Proof.
  intros f stack s k s' x H Hd. pose proof (ensure_frame f stack s k) as Hf. rewrite H in Hf.
  destruct Hf as [(_ & _ & _ & _ & Hm & _) _]. apply Hm. now right.
Qed.

Corollary ensure_stack_unchanged : forall f stack s k s' x, ensure rules env F order f stack s k = Ok s' ->
  In x stack -> get (st_mem s') x = get (st_mem s) x.
Proof.
  intros f stack s k s' x H Hd. pose proof (ensure_frame f stack s k) as Hf. rewrite H in Hf.
  destruct Hf as [(_ & _ & _ & _ & Hm & _) _]. apply Hm. now left.
Qed.

Corollary ensure_done : forall f stack s k s', ensure rules env F order f stack s k = Ok s' ->
  res_builtAt (get (st_mem s') k) = st_epoch s.
Proof.
  intros f stack s k s' H. pose proof (ensure_frame f stack s k) as Hf. rewrite H in Hf.
  destruct Hf as [(He & _) Hd]. unfold done in Hd. congruence.
Qed.

Corollary ensure_cycle_frame : forall f stack s k s' p, ensure rules env F order f stack s k = Cycle s' p ->
  frame_st stack s s'.
Proof. intros f stack s k s' p H. pose proof (ensure_frame f stack s k) as Hf. rewrite H in Hf. exact Hf. Qed.

End Lift.

(* ---------- fuel monotonicity: more fuel never changes an outcome other than OutOfFuel ---------- *)

Section Mono.
Variable rules : key -> rule.
Variable env : key -> N.
Variable F : key -> N -> list value -> list N -> N -> N.
Variable order : N -> key -> list dep -> list dep.
Variable ens1 ens2 : list key -> state -> key -> outcome.
Hypothesis Hmono : forall stack s k, ens1 stack s k <> OutOfFuel -> ens2 stack s k = ens1 stack s k.

Lemma requests_mono : forall k stack ks slot s acc,
  fst (requests ens1 k stack ks slot s acc) <> OutOfFuel ->
  requests ens2 k stack ks slot s acc = requests ens1 k stack ks slot s acc.
Proof.
  intros k stack ks. induction ks as [|x ks IH]; intros slot s acc H; cbn [requests] in *; [reflexivity|].
  pose proof (Hmono (k :: stack) s x) as Hx.
  destruct (ens1 (k :: stack) s x) as [s1|s1 p|] eqn:E.
  - rewrite Hx by discriminate. now apply IH.
  - rewrite Hx by discriminate. reflexivity.
  - cbn in H. now contradiction H.
Qed.

Lemma follows_mono : forall k stack ks s,
  follows ens1 k stack ks s <> OutOfFuel -> follows ens2 k stack ks s = follows ens1 k stack ks s.
Proof.
  intros k stack ks. induction ks as [|x ks IH]; intros s H; cbn [follows] in *; [reflexivity|].
  pose proof (Hmono (k :: stack) s x) as Hx.
  destruct (ens1 (k :: stack) s x) as [s1|s1 p|] eqn:E.
  - rewrite Hx by discriminate. now apply IH.
  - rewrite Hx by discriminate. reflexivity.
  - now contradiction H.
Qed.

Lemma run_mono : forall k stack r s,
  run rules env F order ens1 k stack r s <> OutOfFuel ->
  run rules env F order ens2 k stack r s = run rules env F order ens1 k stack r s.
Proof.
  intros k stack r s H. unfold run in *. fold (run_pre rules k r s) in *. set (s0 := run_pre rules k r s) in *.
  destruct (requests ens1 k stack (r_req (rules k)) 0 s0 []) as [o1 sl1] eqn:E1.
  rewrite requests_mono by (rewrite E1; cbn; intros ->; now apply H). rewrite E1.
  destruct o1 as [s1|s1 p|]; [|reflexivity|reflexivity].
  destruct (requests ens1 k stack (r_single (rules k)) (length sl1) s1 []) as [o2 sl2] eqn:E2.
  rewrite requests_mono by (rewrite E2; cbn; intros ->; now apply H). rewrite E2.
  destruct o2 as [s2|s2 p|]; [|reflexivity|reflexivity].
  destruct (follows ens1 k stack (r_follow (rules k)) s2) as [s3|s3 p|] eqn:E3;
    (rewrite follows_mono by (rewrite E3; intros Ho; try discriminate Ho; now apply H)); rewrite E3;
    [|reflexivity|reflexivity].
  destruct (requests ens1 k stack (branch_keys (rules k) sl1) (length sl1 + length sl2) s3 []) as [o4 sl3] eqn:E4.
  rewrite requests_mono by (rewrite E4; cbn; intros ->; now apply H). rewrite E4.
  destruct o4 as [s4|s4 p|]; [|reflexivity|reflexivity].
  now apply follows_mono.
Qed.

Lemma scan_mono : forall k stack r ds s,
  scan rules env F order ens1 k stack r ds s <> OutOfFuel ->
  scan rules env F order ens2 k stack r ds s = scan rules env F order ens1 k stack r ds s.
Proof.
  intros k stack r ds. induction ds as [|d ds IH]; intros s H; cbn [scan] in *; [reflexivity|].
  pose proof (Hmono (k :: stack) s (d_key d)) as Hx.
  destruct (ens1 (k :: stack) s (d_key d)) as [s1|s1 p|] eqn:E.
  - rewrite Hx by discriminate.
    destruct (negb (d_order d) && (res_builtAt r <? res_computedAt (get (st_mem s1) (d_key d)))).
    + now apply run_mono.
    + now apply IH.
  - rewrite Hx by discriminate. reflexivity.
  - now contradiction H.
Qed.

Lemma ensure_body_mono : forall stack s k,
  ensure_body rules env F order ens1 stack s k <> OutOfFuel ->
  ensure_body rules env F order ens2 stack s k = ensure_body rules env F order ens1 stack s k.
Proof.
  intros stack s k H. unfold ensure_body in *.
  destruct (existsb (N.eqb k) stack); [reflexivity|].
  destruct (N.eqb (res_builtAt (get (st_mem s) k)) (st_epoch s)); [reflexivity|].
  set (r := mkRes _ _ _ _ _) in *.
  destruct (N.eqb (res_builtAt r) 0); [now apply run_mono|].
  destruct (flagged (set_mem s k r) k); [now apply run_mono|].
  destruct (negb (N.eqb (r_sig (rules k)) (res_sig r))); [now apply run_mono|].
  destruct (negb (valid rules env k r)); [now apply run_mono | now apply scan_mono].
Qed.

End Mono.

Section MonoLift.
Variable rules : key -> rule.
Variable env : key -> N.
Variable F : key -> N -> list value -> list N -> N -> N.
Variable order : N -> key -> list dep -> list dep.

Theorem ensure_fuel_S : forall f stack s k, ensure rules env F order f stack s k <> OutOfFuel ->
  ensure rules env F order (S f) stack s k = ensure rules env F order f stack s k.
Proof.
  induction f as [|f IH]; intros stack s k H.
  - now contradiction H.
  - change (ensure_body rules env F order (ensure rules env F order (S f)) stack s k =
            ensure_body rules env F order (ensure rules env F order f) stack s k).
    apply ensure_body_mono; [exact IH | exact H].
Qed.

Theorem ensure_fuel_mono : forall f f' stack s k, (f <= f')%nat ->
  ensure rules env F order f stack s k <> OutOfFuel ->
  ensure rules env F order f' stack s k = ensure rules env F order f stack s k.
Proof.
  intros f f' stack s k Hle H. induction Hle as [|m Hle IH]; [reflexivity|].
  rewrite ensure_fuel_S; rewrite IH; [reflexivity | exact H].
Qed.

Corollary ensure_fuel_ok : forall f stack s k s', ensure rules env F order f stack s k = Ok s' ->
  ensure rules env F order (S f) stack s k = Ok s'.
Proof. intros f stack s k s' H. rewrite ensure_fuel_S; rewrite H; [reflexivity | discriminate]. Qed.

End MonoLift.
