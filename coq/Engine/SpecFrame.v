(* C01 - frame lemmas about the specification engine (Spec.v), proved once, generically over the recursive
   call [ens] of one [ensure] step, then lifted to [ensure] by induction on fuel.

   [frame_st stack s s']: the epochs are unchanged, interruption flags only shrink, the log only grows, and the
   memory and database rows of keys that are on the stack or complete ("done") in [s] are unchanged.
   [frame_o stack s k o]: what an outcome [o] of bringing [k] up to date from [s] guarantees. *)
From LLB Require Import Engine.Rules Engine.Spec.
From Coq Require Import List NArith Bool Lia Arith.
Local Open Scope N_scope.

(* ---------- get / update ---------- *)

Lemma lookup_update_same : forall m k r, lookup (update m k r) k = Some r.
Proof.
  induction m as [|[k' r'] t IH]; intros k r; cbn [update lookup].
  - now rewrite N.eqb_refl.
  - destruct (N.eqb k k') eqn:E; cbn [lookup].
    + now rewrite N.eqb_refl.
    + rewrite E. apply IH.
Qed.

Lemma lookup_update_other : forall m k x r, x <> k -> lookup (update m k r) x = lookup m x.
Proof.
  induction m as [|[k' r'] t IH]; intros k x r Hne; cbn [update lookup].
  - apply N.eqb_neq in Hne. now rewrite Hne.
  - destruct (N.eqb k k') eqn:E; cbn [lookup].
    + apply N.eqb_eq in E. subst k'. apply N.eqb_neq in Hne. now rewrite Hne.
    + destruct (N.eqb x k'); [reflexivity | now apply IH].
Qed.

Lemma get_update_same : forall m k r, get (update m k r) k = r.
Proof. intros. unfold get. now rewrite lookup_update_same. Qed.

Lemma get_update_other : forall m k x r, x <> k -> get (update m k r) x = get m x.
Proof. intros. unfold get. now rewrite lookup_update_other. Qed.

Lemma existsb_eqb_In : forall (k : key) l, existsb (N.eqb k) l = true <-> In k l.
Proof.
  intros k l. rewrite existsb_exists. split.
  - intros [x [Hin He]]. apply N.eqb_eq in He. now subst x.
  - intros Hin. exists k. split; [assumption | apply N.eqb_refl].
Qed.

Lemma existsb_eqb_nIn : forall (k : key) l, existsb (N.eqb k) l = false <-> ~ In k l.
Proof.
  intros k l. rewrite <- existsb_eqb_In. destruct (existsb (N.eqb k) l).
  - split; [discriminate | intros H; exfalso; now apply H].
  - split; [intros _ H; discriminate | reflexivity].
Qed.

(* ---------- done, frame ---------- *)

Definition done (s : state) (x : key) : Prop := res_builtAt (get (st_mem s) x) = st_epoch s.

Lemma done_dec : forall s x, {done s x} + {~ done s x}.
Proof. intros s x. unfold done. apply N.eq_dec. Qed.

Definition frame_st (stack : list key) (s s' : state) : Prop :=
  st_epoch s' = st_epoch s /\ st_db_epoch s' = st_db_epoch s /\
  (forall x, In x (st_flag s') -> In x (st_flag s)) /\
  (exists l, st_log s' = l ++ st_log s) /\
  (forall x, In x stack \/ done s x -> get (st_mem s') x = get (st_mem s) x) /\
  (forall x, In x stack \/ done s x -> get (st_db s') x = get (st_db s) x).

Definition frame_o (stack : list key) (s : state) (k : key) (o : outcome) : Prop :=
  match o with
  | Ok s' => frame_st stack s s' /\ done s' k
  | Cycle s' _ => frame_st stack s s'
  | OutOfFuel => True
  end.

Lemma frame_refl : forall st s, frame_st st s s.
Proof.
  intros st s. unfold frame_st. repeat split; auto. now exists [].
Qed.

Lemma frame_done_mono : forall st s s' x, frame_st st s s' -> done s x -> done s' x.
Proof.
  intros st s s' x (He & _ & _ & _ & Hm & _) Hd. unfold done in *.
  rewrite Hm by (now right). now rewrite He.
Qed.

Lemma frame_trans : forall st s s1 s2, frame_st st s s1 -> frame_st st s1 s2 -> frame_st st s s2.
Proof.
  intros st s s1 s2 H1 H2.
  assert (Hmono : forall x, done s x -> done s1 x) by (intros x; now apply frame_done_mono with (st := st)).
  destruct H1 as (He1 & Hd1 & Hf1 & [l1 Hl1] & Hm1 & Hb1).
  destruct H2 as (He2 & Hd2 & Hf2 & [l2 Hl2] & Hm2 & Hb2).
  unfold frame_st. repeat split.
  - congruence.
  - congruence.
  - auto.
  - exists (l2 ++ l1). rewrite Hl2, Hl1. now rewrite app_assoc.
  - intros x Hx. rewrite Hm2, Hm1; auto. destruct Hx as [Hx|Hx]; [now left | right; now apply Hmono].
  - intros x Hx. rewrite Hb2, Hb1; auto. destruct Hx as [Hx|Hx]; [now left | right; now apply Hmono].
Qed.

Lemma frame_weaken_stack : forall k st s s', frame_st (k :: st) s s' -> frame_st st s s'.
Proof.
  intros k st s s' (He & Hd & Hf & Hl & Hm & Hb). unfold frame_st. repeat split; auto.
  - intros x [Hx|Hx]; apply Hm; [left; now right | now right].
  - intros x [Hx|Hx]; apply Hb; [left; now right | now right].
Qed.

Lemma frame_emit : forall st s e, frame_st st s (emit s e).
Proof.
  intros st s e. unfold frame_st, emit; cbn. repeat split; auto. now exists [e].
Qed.

(* changing the rows of a key that is neither on the stack nor complete *)
Lemma frame_set_mem : forall st s k r, ~ In k st -> ~ done s k -> frame_st st s (set_mem s k r).
Proof.
  intros st s k r Hst Hnd. unfold frame_st, set_mem; cbn. repeat split; auto.
  - now exists [].
  - intros x Hx. apply get_update_other. intros ->. destruct Hx; contradiction.
Qed.

Lemma frame_set_db : forall st s k r, ~ In k st -> ~ done s k -> frame_st st s (set_db s k r).
Proof.
  intros st s k r Hst Hnd. unfold frame_st, set_db; cbn. repeat split; auto.
  - now exists [].
  - intros x Hx. apply get_update_other. intros ->. destruct Hx; contradiction.
Qed.

Lemma frame_unflag : forall st s k, frame_st st s (unflag s k).
Proof.
  intros st s k. unfold frame_st, unflag; cbn. repeat split; auto.
  - intros x Hx. apply filter_In in Hx. tauto.
  - now exists [].
Qed.

Lemma done_emit : forall s e x, done (emit s e) x <-> done s x.
Proof. intros. unfold done, emit; cbn. tauto. Qed.

(* the state part of an outcome *)
Definition frame_any (st : list key) (s : state) (o : outcome) : Prop :=
  match o with Ok s' => frame_st st s s' | Cycle s' _ => frame_st st s s' | OutOfFuel => True end.

Lemma frame_o_any : forall st s k o, frame_o st s k o -> frame_any st s o.
Proof. intros st s k o H. destruct o; cbn in *; tauto. Qed.

Lemma frame_any_trans : forall st s s1 o, frame_st st s s1 -> frame_any st s1 o -> frame_any st s o.
Proof. intros st s s1 o H1 H2. destruct o; cbn in *; auto; eapply frame_trans; eauto. Qed.

Lemma frame_any_weaken : forall k st s o, frame_any (k :: st) s o -> frame_any st s o.
Proof. intros k st s o H. destruct o; cbn in *; auto; eapply frame_weaken_stack; eauto. Qed.
