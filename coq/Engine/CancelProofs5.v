(* C05 - part 5: the two concrete histories of the design round, replayed in the model by computation, and the
   non-vacuity examples.  Task arithmetic `mixF` (the one of harness/cpp/engine_driver.cpp), identity order oracle,
   fuel 20.  Keys: R = 1; inputs 2, 4, 5 are rules that observe external state (`default_rule`-like). *)
From LLB Require Import Engine.Rules Engine.Spec Engine.Exec Engine.Cancel Engine.CancelProofs Engine.CancelProofs2
  Engine.CancelProofs3 Engine.CancelProofs4.
From Coq Require Import List NArith Bool Lia Arith.
Local Open Scope N_scope.

Definition w_fuel : nat := 20.
Definition w_run (ops : list cop) : hstate := run_chistory mixF ord_id w_fuel ops.
Definition w_last (ops : list cop) : option (option value * bool) := last_result (st_log (h_st (w_run ops))).
Definition w_clean (ops : list cop) (k : key) : option value := clean_value mixF w_fuel (w_run ops) k.
Definition r_input : rule := mkRule 0 true [] [] [] None [].

(* split conjunctions only (never an equation: `split` on an equation would unify by lazy conversion) *)
Ltac conjs := repeat match goal with |- _ /\ _ => split end.

(* ---------- scenario 1: same engine, no flags (the engine before the fix) ---------- *)

(* R = f(A, B) with A = 2, B = 4.  Build; B changes; the next build is cancelled after 14 events: B has been rebuilt
   (persisted), R's task has been created and has received A again, B has not been requested yet. *)
Definition s1_rule_R : rule := mkRule 0 false [2; 4] [] [] None [].
Definition s1_prefix : list cop :=
  [CPlain (ORule 1 s1_rule_R); CPlain (ORule 2 r_input); CPlain (ORule 4 r_input);
   CPlain (OSet 2 5); CPlain (OSet 4 7); CPlain (ORestart true); CPlain (OBuild 1); CPlain (OSet 4 8)].
Definition s1_history_v0 : list cop := s1_prefix ++ [CBuildCancelV0 1 14; CPlain (OBuild 1)].
Definition s1_history : list cop := s1_prefix ++ [CBuildCancel 1 14; CPlain (OBuild 1)].

(* the cancelled build fails; the next build on the same engine succeeds with the value of the FIRST build, although
   B has changed: R's partial dependency list [A] hides B *)
Theorem same_engine_v0_refuted :
  w_last (s1_prefix ++ [CPlain (OBuild 1)]) = Some (Some (888378, 0), false) /\
  w_last (s1_prefix ++ [CBuildCancelV0 1 14]) = Some (None, true) /\
  w_last s1_history_v0 = Some (Some (891684, 0), false) /\
  w_clean s1_history_v0 1 = Some (888378, 0).
Proof. conjs; vm_compute; reflexivity. Qed.

(* with the flag the same history is repaired: R runs with reason Forced *)
Theorem same_engine_flagged_ok :
  w_last (s1_prefix ++ [CBuildCancel 1 14]) = Some (None, true) /\
  st_flag (h_st (w_run (s1_prefix ++ [CBuildCancel 1 14]))) = [1] /\
  w_last s1_history = Some (Some (888378, 0), false) /\
  w_clean s1_history 1 = Some (888378, 0) /\
  In (ENeed 1 Forced None) (firstn 12 (st_log (h_st (w_run s1_history)))).
Proof. conjs; vm_compute; try reflexivity. repeat (first [left; reflexivity | right]). Qed.

(* ---------- scenario 2: the discovered-dependency window (flags present) ---------- *)

(* R = f(A; D) with A = 2 requested and D = 5 discovered.  Build; A and D change; the next build is cancelled after 15
   events: A rebuilt, R re-run and COMPLETED with the new D (persisted, builtAt = this epoch), D itself not yet
   brought up to date.  Then D returns to its earlier stamp. *)
Definition s2_rule_R : rule := mkRule 0 false [2] [] [] None [5].
Definition s2_prefix : list cop :=
  [CPlain (ORule 1 s2_rule_R); CPlain (ORule 2 r_input); CPlain (ORule 5 r_input);
   CPlain (OSet 2 5); CPlain (OSet 5 7); CPlain (ORestart true); CPlain (OBuild 1);
   CPlain (OSet 2 6); CPlain (OSet 5 8)].
Definition s2_cancelled : list cop := s2_prefix ++ [CBuildCancel 1 15; CPlain (OSet 5 7)].
Definition s2_same_engine : list cop := s2_cancelled ++ [CPlain (OBuild 1)].
Definition s2_new_engine : list cop := s2_cancelled ++ [CPlain (ORestart true); CPlain (OBuild 1)].

Theorem discovered_window_refuted :
  w_last (s2_prefix ++ [CBuildCancel 1 15]) = Some (None, true) /\
  st_flag (h_st (w_run (s2_prefix ++ [CBuildCancel 1 15]))) = [] /\
  w_last s2_same_engine = Some (Some (462296, 0), false) /\
  w_clean s2_same_engine 1 = Some (464033, 0) /\
  w_last s2_new_engine = Some (Some (462296, 0), false) /\
  w_clean s2_new_engine 1 = Some (464033, 0).
Proof. conjs; vm_compute; reflexivity. Qed.

(* the excluding hypothesis fails in this witness: at the abort, R has completed and its discovered input 5 is not
   complete in the epoch *)
Definition s2_before : state := emit (h_st (w_run s2_prefix)) (EBuildStart 1).
Definition s2_rules : key -> rule := rules_of (h_rules (w_run s2_prefix)).
Definition s2_env : key -> N := env_of (h_env (w_run s2_prefix)).
Definition s2_abort : state :=
  state_of (ensure_c s2_rules s2_env mixF ord_id 15 (length (st_log s2_before)) w_fuel [] (bump_epoch s2_before) 1).

(* (computed facts are asserted as goals: `vm_compute in H` would be re-checked by lazy conversion at Qed) *)
Lemma s2_abort_facts :
  In (EComplete 1 (462296, 0)) (build_log s2_abort (length (st_log s2_before))) /\
  In 5 (r_disc (s2_rules 1)) /\
  res_builtAt (get (st_mem s2_abort) 5) = 1 /\ st_epoch s2_abort = 2.
Proof. conjs; vm_compute; try reflexivity; now left. Qed.

Theorem discovered_window_pending :
  ensure_c s2_rules s2_env mixF ord_id 15 (length (st_log s2_before)) w_fuel [] (bump_epoch s2_before) 1 = Cycle s2_abort [] /\
  ~ no_pending_discovered s2_rules s2_abort (length (st_log s2_before)).
Proof.
  split; [vm_compute; reflexivity|]. intros H.
  destruct s2_abort_facts as [Hin [Hd [E1 E2]]].
  specialize (H 1 (462296, 0) Hin 5 Hd). rewrite E1, E2 in H. discriminate H.
Qed.

(* ---------- existential forms ---------- *)

Lemma s1_clean : w_clean (s1_prefix ++ [CBuildCancelV0 1 14; CPlain (OBuild 1)]) 1 = Some (888378, 0).
Proof. vm_compute; reflexivity. Qed.

Theorem same_engine_v0_refuted_ex :
  exists (ops : list cop) (k : key) (n : nat) (v : value),
    w_last (ops ++ [CBuildCancelV0 k n]) = Some (None, true) /\
    w_last (ops ++ [CBuildCancelV0 k n; CPlain (OBuild k)]) = Some (Some v, false) /\
    w_clean (ops ++ [CBuildCancelV0 k n; CPlain (OBuild k)]) k <> Some v.
Proof.
  exists s1_prefix, 1, 14%nat, (891684, 0).
  split; [vm_compute; reflexivity|]. split; [vm_compute; reflexivity|].
  rewrite s1_clean. intros H. discriminate H.
Qed.

Lemma s2_clean_same : w_clean (s2_prefix ++ [CBuildCancel 1 15; CPlain (OSet 5 7); CPlain (OBuild 1)]) 1 = Some (464033, 0).
Proof. vm_compute; reflexivity. Qed.
Lemma s2_clean_new :
  w_clean (s2_prefix ++ [CBuildCancel 1 15; CPlain (OSet 5 7); CPlain (ORestart true); CPlain (OBuild 1)]) 1 = Some (464033, 0).
Proof. vm_compute; reflexivity. Qed.

Theorem discovered_window_refuted_ex :
  exists (ops : list cop) (k d : key) (n : nat) (x : N) (v : value),
    w_last (ops ++ [CBuildCancel k n]) = Some (None, true) /\
    w_last (ops ++ [CBuildCancel k n; CPlain (OSet d x); CPlain (OBuild k)]) = Some (Some v, false) /\
    w_clean (ops ++ [CBuildCancel k n; CPlain (OSet d x); CPlain (OBuild k)]) k <> Some v /\
    w_last (ops ++ [CBuildCancel k n; CPlain (OSet d x); CPlain (ORestart true); CPlain (OBuild k)]) = Some (Some v, false) /\
    w_clean (ops ++ [CBuildCancel k n; CPlain (OSet d x); CPlain (ORestart true); CPlain (OBuild k)]) k <> Some v.
Proof.
  exists s2_prefix, 1, 5, 15%nat, 7, (462296, 0).
  split; [vm_compute; reflexivity|]. split; [vm_compute; reflexivity|].
  split; [rewrite s2_clean_same; intros H; discriminate H|]. split; [vm_compute; reflexivity|].
  rewrite s2_clean_new. intros H. discriminate H.
Qed.

(* ---------- non-vacuity: the hypotheses of the positive theorems hold on scenario 1 ---------- *)

Definition s1_before : state := emit (h_st (w_run s1_prefix)) (EBuildStart 1).
Definition s1_rules : key -> rule := rules_of (h_rules (w_run s1_prefix)).
Definition s1_env : key -> N := env_of (h_env (w_run s1_prefix)).
Definition s1_base : nat := length (st_log s1_before).
Definition s1_out : outcome := build_cancel s1_rules s1_env mixF ord_id 14 w_fuel s1_before 1.
Definition s1_after : state := state_of s1_out.
Definition s1_log : list event := build_log s1_after s1_base.
Definition s1_plain : outcome := build s1_rules s1_env mixF ord_id w_fuel s1_before 1.

(* returns_failure: the build is really cut short (second disjunct): stopped after exactly 14 of the 17 events *)
Example ex_returns_failure :
  s1_out = Cycle s1_after [] /\ s1_plain = Ok (state_of s1_plain) /\
  events_since s1_base s1_after = 14%nat /\ events_of s1_base s1_plain = 17%nat.
Proof. conjs; vm_compute; reflexivity. Qed.

(* cancel_after_end: 17 events < 18 *)
Example ex_cancel_after_end :
  s1_plain <> OutOfFuel /\ (events_of s1_base s1_plain < 18)%nat /\
  build_cancel s1_rules s1_env mixF ord_id 18 w_fuel s1_before 1 = s1_plain.
Proof.
  destruct ex_returns_failure as [_ [E [_ Ev]]].
  split; [rewrite E; intros H; discriminate H|]. split; [rewrite Ev; lia | vm_compute; reflexivity].
Qed.

(* persisted_only_completed / flags_exact: key 4 completed (its row changed), key 1 was in progress (row kept, flagged) *)
Example ex_persisted_flags :
  has_state s1_out s1_after /\
  res_value (get (st_db s1_before) 4) = Some (346902, 7) /\ res_value (get (st_db s1_after) 4) = Some (346903, 8) /\
  completed_in s1_log 4 = true /\ created_in s1_log 1 = true /\ completed_in s1_log 1 = false /\
  get (st_db s1_after) 1 = get (st_db s1_before) 1 /\
  flagged s1_before 1 = false /\ flagged s1_after 1 = true /\ flagged s1_after 4 = false.
Proof.
  split; [right; exists []; vm_compute; reflexivity|]. conjs; vm_compute; reflexivity.
Qed.

(* flagged_reruns / forced_only_flagged: the next traversal on the same engine *)
Definition s1_next : state := bump_epoch (emit s1_after (EBuildStart 1)).
Definition s1_next_out : outcome := ensure s1_rules s1_env mixF ord_id w_fuel [] s1_next 1.
Lemma s1_next_facts :
  flagged s1_next 1 = true /\ res_builtAt (get (st_mem s1_next) 1) = 1 /\ st_epoch s1_next = 3 /\
  s1_next_out = Ok (state_of s1_next_out) /\
  flagged (state_of s1_next_out) 1 = false /\ result_of (state_of s1_next_out) 1 = Some (888378, 0).
Proof. conjs; vm_compute; reflexivity. Qed.

Example ex_flagged_reruns :
  flagged s1_next 1 = true /\ res_builtAt (get (st_mem s1_next) 1) <> st_epoch s1_next /\ ~ In 1 (@nil key) /\
  has_state s1_next_out (state_of s1_next_out).
Proof.
  destruct s1_next_facts as [Hf [Eb [Ee [Eo _]]]].
  split; [exact Hf|]. split; [rewrite Eb, Ee; intros H; discriminate H|]. split; [intros []|]. left. exact Eo.
Qed.

(* unflagged_runs_only_for_input: in the uncancelled second build key 1 is unflagged, built, valid, and runs *)
Definition s1_start : state := bump_epoch s1_before.
Definition s1_full : state := state_of (ensure s1_rules s1_env mixF ord_id w_fuel [] s1_start 1).
Lemma s1_start_facts :
  flagged s1_start 1 = false /\ res_builtAt (get (st_mem s1_start) 1) = 1 /\
  r_sig (s1_rules 1) = res_sig (get (st_mem s1_start) 1) /\
  valid s1_rules s1_env 1 (get (st_mem s1_start) 1) = true /\
  In (ECreate 1) (build_log s1_full s1_base) /\ In (ENeed 1 InputRebuilt (Some 4)) (build_log s1_full s1_base).
Proof. conjs; vm_compute; try reflexivity; repeat (first [left; reflexivity | right]). Qed.

Example ex_unflagged :
  flagged s1_start 1 = false /\ res_builtAt (get (st_mem s1_start) 1) <> 0 /\
  r_sig (s1_rules 1) = res_sig (get (st_mem s1_start) 1) /\
  valid s1_rules s1_env 1 (get (st_mem s1_start) 1) = true /\
  In (ECreate 1) (build_log s1_full s1_base).
Proof.
  destruct s1_start_facts as [Hf [Eb [Es [Ev [Hc _]]]]].
  split; [exact Hf|]. split; [rewrite Eb; intros H; discriminate H|]. split; [exact Es|]. split; [exact Ev | exact Hc].
Qed.
