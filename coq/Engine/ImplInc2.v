(* P19b stage 3, part 2: the stored-results part of the invariant (BC) under the changes a build makes. *)
From LLB Require Import Engine.Rules Engine.Spec Engine.SpecInv1 Engine.Impl Engine.ImplProofs Engine.ImplProofsSticky Engine.ImplProofsInv
  Engine.ImplProofsInv2 Engine.ImplVal1 Engine.ImplInc1.
From Coq Require Import Arith Lia.
Local Open Scope N_scope.

Section Inc.
Variable rules : key -> rule.
Variable env : key -> N.
Variable F : key -> N -> list value -> list N -> N -> N.
Variable R : key -> N -> rule.
Notation rowok := (rowok F R).
Notation concl := (concl F R).
Notation BC := (BC rules F R).

(* a conclusion is about the values stored for the recorded inputs only *)
Lemma concl_same_gen s s' k v : res_sig (res_of s' k) = res_sig (res_of s k) ->
  (forall x, In (mkDep x false false) (deps s k) -> In (mkDep x false false) (deps s' k) /\ stored s' x = stored s x) ->
  concl s k v -> concl s' k v.
Proof.
  intros Hsg Hs [Hf Hrec]. unfold ImplInc1.concl, rule_of in *. cbn zeta in *. rewrite Hsg. set (rl := R k (res_sig (res_of s k))) in *.
  assert (Hreq : map (stored s') (r_req rl) = map (stored s) (r_req rl)).
  { apply map_ext_in. intros x Hx. apply Hs, Hrec. apply in_or_app. now left. }
  rewrite Hreq. set (bk := branch_keys rl (map (stored s) (r_req rl))) in *.
  assert (Hbk : map (stored s') bk = map (stored s) bk).
  { apply map_ext_in. intros x Hx. apply Hs, Hrec. apply in_or_app. right. apply in_or_app. now left. }
  assert (Hdc : map (fun d => snd (payload_of (stored s' d))) (r_disc rl) = map (fun d => snd (payload_of (stored s d))) (r_disc rl)).
  { apply map_ext_in. intros x Hx. destruct (Hs x) as [_ ->]; auto. apply Hrec. apply in_or_app. right. apply in_or_app. now right. }
  rewrite Hbk, Hdc. split; auto. intros x Hx. apply Hs, Hrec, Hx.
Qed.

(* the row_ok_changed of SpecInv2: a row stays true when every checked dependency either keeps its value or was recomputed after
   the row was built *)
Lemma rowok_step s s' k : res_of s' k = res_of s k ->
  (forall d, In d (deps s k) -> d_order d = false -> d_single d = false ->
     (stored s' (d_key d) = stored s (d_key d) /\ cAt s (d_key d) <= cAt s' (d_key d)) \/ bAt s k < cAt s' (d_key d)) ->
  rowok s k -> rowok s' k.
Proof.
  intros Hr H (v & Hv & Ho & Hm & Hc).
  assert (Ed : deps s' k = deps s k) by (unfold deps; now rewrite Hr).
  assert (Eb : bAt s' k = bAt s k) by (unfold bAt; now rewrite Hr).
  assert (Erl : rule_of R s' k = rule_of R s k) by (unfold rule_of; now rewrite Hr).
  exists v. split; [unfold stored; now rewrite Hr|]. split; [rewrite Erl; exact Ho|]. split; [rewrite Ed, Erl; exact Hm|].
  intros Hf'.
  assert (Hsame : forall d, In d (deps s k) -> d_order d = false -> d_single d = false -> stored s' (d_key d) = stored s (d_key d) /\ cAt s (d_key d) <= bAt s k).
  { intros d Hd Ho' Hs'. pose proof (Hf' d) as Hx. rewrite Ed, Eb in Hx. specialize (Hx Hd Ho' Hs'). destruct (H d Hd Ho' Hs') as [[E1 E2]|E]; [split; auto; lia|lia]. }
  assert (Hco : concl s k v) by (apply Hc; intros d Hd Ho' Hs'; apply (Hsame d Hd Ho' Hs')).
  apply (concl_same_gen s s' k v); auto; [now rewrite Hr|]. intros x Hx. rewrite Ed. split; auto. now apply (Hsame (mkDep x false false)).
Qed.

Lemma curk_same s s' k : res_of s' k = res_of s k -> kind_of s' k = kind_of s k -> is_epoch s' = is_epoch s -> (curk s' k <-> curk s k).
Proof. intros Hr Hk He. unfold curk, bAt. now rewrite Hr, Hk, He. Qed.

Lemma in_progress_not_complete s k : is_in_progress s k = true -> kind_of s k <> KComplete.
Proof. unfold is_in_progress. destruct (kind_of s k); discriminate. Qed.
Lemma in_progress_unsettled s k : is_in_progress s k = true -> unsettled s k.
Proof. unfold is_in_progress, unsettled. destruct (kind_of s k); try discriminate; intros _; repeat split; discriminate. Qed.
Lemma in_progress_not_idle s k : is_in_progress s k = true -> ~ idle s k.
Proof. unfold is_in_progress, idle. destruct (kind_of s k); try discriminate; intros _ [H1 H2]; congruence. Qed.

Lemma in_progress_same s s' k : kind_of s' k = kind_of s k -> is_in_progress s' k = is_in_progress s k.
Proof. unfold is_in_progress. now intros ->. Qed.

(* rules in progress (the set X) change their result; every other rule keeps result and state kind *)
Lemma BC_change (X : key -> bool) s s' : is_epoch s' = is_epoch s -> (forall k, ri_cancelled (rinfo_of s' k) = false) ->
  (forall k, X k = false -> res_of s' k = res_of s k /\ kind_of s' k = kind_of s k) ->
  (forall k, X k = true -> unsettled s k /\ is_in_progress s' k = true /\ bAt s' k = bAt s k) ->
  (forall k, X k = true -> (stored s' k = stored s k /\ cAt s' k = cAt s k) \/ cAt s' k = is_epoch s) ->
  (forall x, pending_dummy s x -> pending_dummy s' x \/ is_in_progress s' x = true \/ curk s' x) ->
  BC s -> BC s'.
Proof.
  intros He Hnc H1 H2 H3 Hpd [C1 C2 C3 C4 C6 C7].
  assert (Hidle : forall k, idle s' k -> X k = false).
  { intros k Hi. destruct (X k) eqn:Hx; auto. destruct (H2 k Hx) as (_ & Hp & _). exfalso. now apply (in_progress_not_idle s' k Hp). }
  assert (Hcur : forall k, X k = false -> (curk s' k <-> curk s k)).
  { intros k Hx. destruct (H1 k Hx) as [Hr Hk]. now apply curk_same. }
  assert (HcurX : forall k, curk s' k -> X k = false).
  { intros k [Hc _]. destruct (X k) eqn:Hx; auto. destruct (H2 k Hx) as (_ & Hp' & _). exfalso. now apply (in_progress_not_complete s' k Hp'). }
  assert (HcurX0 : forall k, curk s k -> X k = false).
  { intros k [Hc _]. destruct (X k) eqn:Hx; auto. destruct (H2 k Hx) as ((_ & _ & Hp) & _). exfalso. now apply Hp. }
  assert (Hc1 : forall k, curk s k -> curk s' k) by (intros k Hc; apply (Hcur k (HcurX0 k Hc)); exact Hc).
  assert (Hmono : forall x, (stored s' x = stored s x /\ cAt s x <= cAt s' x) \/ cAt s' x = is_epoch s).
  { intros x. destruct (X x) eqn:Hx.
    - destruct (H3 x Hx) as [[E1 E2]|E]; [left; split; auto; lia|now right].
    - destruct (H1 x Hx) as [Hr _]. left. unfold stored, cAt. rewrite Hr. split; auto. lia. }
  constructor.
  - exact Hnc.
  - intros k Hi. pose proof (Hidle k Hi) as Hx. destruct (H1 k Hx) as [Hr Hk]. unfold cAt, bAt. rewrite Hr. apply C2. unfold idle in *. now rewrite <- Hk.
  - intros k. rewrite He. destruct (X k) eqn:Hx.
    + destruct (H2 k Hx) as (_ & _ & Hb). rewrite Hb. split; [apply C3|]. destruct (H3 k Hx) as [[_ E]|E]; [rewrite E; apply C3|rewrite E; lia].
    + destruct (H1 k Hx) as [Hr _]. unfold cAt, bAt. rewrite Hr. apply C3.
  - intros k. rewrite He. destruct (X k) eqn:Hx.
    + destruct (H2 k Hx) as ((_ & _ & Hp) & _ & Hb). rewrite Hb. intros Hbe. exfalso. apply Hp. now apply C4.
    + destruct (H1 k Hx) as [Hr Hk]. unfold bAt. rewrite Hr, Hk. apply C4.
  - intros k Hi Hb Hnc'. pose proof (Hidle k Hi) as Hx. destruct (H1 k Hx) as [Hr Hk].
    assert (Hi0 : idle s k) by (unfold idle in *; now rewrite <- Hk).
    assert (Hb0 : bAt s k <> 0) by (unfold bAt in *; now rewrite <- Hr).
    assert (Hnc0 : ~ curk s k) by (intros H; apply Hnc'; now apply (Hcur k Hx)).
    apply (rowok_step s s' k Hr); [|now apply C6].
    intros d Hd Hord _. destruct (Hmono (d_key d)) as [H|H]; [now left|].
    (* the dependency was recomputed in this epoch: the row is older *)
    right. rewrite H. destruct (C3 k) as [Hle _]. destruct (N.eq_dec (bAt s k) (is_epoch s)) as [Eb|Eb]; [|lia].
    exfalso. apply Hnc0. split; [now apply C4|exact Eb].
  - intros k Hc. pose proof (HcurX k Hc) as Hx. destruct (H1 k Hx) as [Hr Hk]. apply (Hcur k Hx) in Hc.
    destruct (C7 k Hc) as (S0 & S1 & S2 & S3). unfold cstruct in *. cbn zeta in *.
    assert (Ed : deps s' k = deps s k) by (unfold deps; now rewrite Hr).
    assert (Hreq : map (stored s') (r_req (rules k)) = map (stored s) (r_req (rules k))).
    { apply map_ext_in. intros x Hx'. destruct (S1 x) as [_ Hcx]; [apply in_or_app; now left|]. destruct (H1 _ (HcurX0 _ Hcx)) as [Hrx _]. unfold stored. now rewrite Hrx. }
    rewrite Hreq, Ed, Hr. split; [exact S0|]. split; [|split].
    + intros x Hx'. destruct (S1 x Hx') as [Hin Hcx]. split; auto.
    + exact S2.
    + intros d Hd. destruct (S3 d Hd) as [Hm Hst]. split; auto. destruct Hst as [Hcd|(Hdd & [Hp|Hp])]; [left; auto| |].
      * right. split; auto. left. destruct (X (d_key d)) eqn:Hxd; [now destruct (H2 _ Hxd) as (_ & Hp' & _)|]. destruct (H1 _ Hxd) as [_ Hkd]. now rewrite (in_progress_same s s' _ Hkd).
      * destruct (Hpd _ Hp) as [H|[H|H]]; [right; split; auto|right; split; auto|left; auto].
Qed.

Variable rank : key -> nat.
Notation BS := (BS rules env F rank R).

Lemma concl_same s s' k v : res_sig (res_of s' k) = res_sig (res_of s k) -> deps s' k = deps s k ->
  (forall x, In (mkDep x false false) (deps s k) -> stored s' x = stored s x) -> concl s k v -> concl s' k v.
Proof. intros Hsg Ed Hs. apply concl_same_gen; auto. intros x Hx. rewrite Ed. auto. Qed.

Lemma BS_change (X : key -> bool) x s s' : is_epoch s' = is_epoch s ->
  (forall k, X k = false -> res_of s' k = res_of s k /\ kind_of s' k = kind_of s k) ->
  (forall k, X k = true -> unsettled s k /\ is_in_progress s' k = true) ->
  (forall rq, Sreq s' rq -> Sreq s rq) -> (forall rq, Sreq s rq -> kind_of s (sq_rule rq) = KScanning) ->
  (forall k, kind_of s k = KScanning -> ri_deferred (rinfo_of s k) <> [] \/ ri_paused (rinfo_of s k) <> [] ->
             ri_deferred (rinfo_of s' k) <> [] \/ ri_paused (rinfo_of s' k) <> []) ->
  (forall k, kind_of s k = KDoesNotNeedToRun -> pending_for s k -> pending_for s' k) ->
  BS x s -> BS x s'.
Proof.
  intros He H1 H2 HS Hsk Hrec Hp [S1 S2 S3 S4].
  assert (HX : forall k, kind_of s k = KScanning \/ kind_of s k = KDoesNotNeedToRun \/ kind_of s k = KComplete -> X k = false).
  { intros k Hk. destruct (X k) eqn:Hx; auto. destruct (H2 k Hx) as ((U1 & U2 & U3) & _). destruct Hk as [Hk|[Hk|Hk]]; contradiction. }
  assert (HX' : forall k, kind_of s' k = KScanning \/ kind_of s' k = KDoesNotNeedToRun \/ kind_of s' k = KComplete -> X k = false).
  { intros k Hk. destruct (X k) eqn:Hx; auto. destruct (H2 k Hx) as (_ & Hp0). unfold is_in_progress in Hp0. destruct Hk as [Hk|[Hk|Hk]]; rewrite Hk in Hp0; discriminate. }
  assert (Hcur : forall k, curk s k -> curk s' k /\ res_of s' k = res_of s k).
  { intros k Hc. assert (Hx : X k = false) by (apply HX; right; right; apply Hc). destruct (H1 k Hx) as [Hr Hk]. split; auto. now apply (curk_same s s' k Hr Hk He). }
  constructor.
  - intros rq Hrq j d Hj Hn. pose proof (HS rq Hrq) as Hrq0.
    assert (Hx : X (sq_rule rq) = false) by (apply HX; left; now apply Hsk).
    destruct (H1 _ Hx) as [Hr _]. unfold deps, bAt in *. rewrite Hr in *. destruct (S1 rq Hrq0 j d Hj Hn) as [Hc Hf].
    destruct (Hcur _ Hc) as [Hc' Hrd]. split; auto. unfold cAt. now rewrite Hrd.
  - intros k Hk. assert (Hx : X k = false) by (apply HX'; now left). destruct (H1 k Hx) as [Hr Hkk]. rewrite Hkk in Hk.
    destruct (S2 k Hk) as (B0 & B1 & B2 & B3). unfold bAt. rewrite Hr. repeat split; auto.
    destruct B3 as [B3|[B3|B3]]; [| |now right; right]; (destruct (Hrec k Hk) as [H|H]; [tauto|now left|right; now left]).
  - intros k Hk. assert (Hx : X k = false) by (apply HX'; right; now left). destruct (H1 k Hx) as [Hr Hkk]. rewrite Hkk in Hk.
    destruct (S3 k Hk) as ((v & Hv & Hcv & Hco) & Hd & Hb & Hpe & Hsg0).
    assert (Ed : deps s' k = deps s k) by (unfold deps; now rewrite Hr).
    split; [|split; [|split; [|split]]]; [| | | |now rewrite Hr].
    + exists v. split; [unfold stored; now rewrite Hr|]. split; auto. apply (concl_same s s' k v (f_equal res_sig Hr) Ed); auto.
      intros y Hy. destruct (Hcur _ (Hd _ Hy)) as [_ Hry]. unfold stored. cbn [d_key] in Hry. now rewrite Hry.
    + intros d Hin. rewrite Ed in Hin. now apply Hcur, Hd.
    + unfold bAt. now rewrite Hr.
    + now apply Hp.
  - intros rq Hrq i d Hi. pose proof (HS rq Hrq) as Hrq0.
    assert (Hx : X (sq_rule rq) = false) by (apply HX; left; now apply Hsk).
    destruct (H1 _ Hx) as [Hr _]. unfold deps. rewrite Hr. now apply (S4 rq Hrq0 i d).
Qed.
End Inc.
