(* C02 - frame lemmas about the specification engine (Spec.v), proved once, generically over the recursive
   call [ens] of one [ensure] step, then lifted to [ensure] by induction on fuel.

   Contents: get/update algebra; the log helpers [creates], [needs], [new_log]; the notion [seg] of a sequence of
   nested calls (what [requests]/[follows] do) and the decomposition of [run]; the frame [frame_st]:
   the epoch is unchanged, the log only grows, complete keys are frozen, keys on the stack are untouched,
   created keys are distinct, were incomplete and off the stack, and are complete after an [Ok]. *)
From LLB Require Import Engine.Rules Engine.Spec.
From Coq Require Import List NArith Bool Lia Arith.
Local Open Scope N_scope.

(* ---------- get / update ---------- *)

Lemma lookup_update_same : forall m k r, lookup (update m k r) k = Some r.
Proof.
  induction m as [|[k' r'] t IH]; intros k r; cbn [update lookup].
  - now rewrite N.eqb_refl.
  - destruct (N.eqb k k') eqn:E; cbn [lookup].
    + now rewrite N.eqb_refl.
    + rewrite E. apply IH.
Qed.

Lemma lookup_update_other : forall m k x r, x <> k -> lookup (update m k r) x = lookup m x.
Proof.
  induction m as [|[k' r'] t IH]; intros k x r Hne; cbn [update lookup].
  - apply N.eqb_neq in Hne. now rewrite Hne.
  - destruct (N.eqb k k') eqn:E; cbn [lookup].
    + apply N.eqb_eq in E. subst k'. apply N.eqb_neq in Hne. now rewrite Hne.
    + destruct (N.eqb x k'); [reflexivity | now apply IH].
Qed.

Lemma get_update_same : forall m k r, get (update m k r) k = r.
Proof. intros. unfold get. now rewrite lookup_update_same. Qed.

Lemma get_update_other : forall m k x r, x <> k -> get (update m k r) x = get m x.
Proof. intros. unfold get. now rewrite lookup_update_other. Qed.

(* ---------- the log ---------- *)

Fixpoint creates (l : list event) : list key :=
  match l with
  | [] => []
  | ECreate k :: t => k :: creates t
  | _ :: t => creates t
  end.

Fixpoint needs (l : list event) : list key :=
  match l with
  | [] => []
  | ENeed k _ _ :: t => k :: needs t
  | _ :: t => needs t
  end.

Lemma creates_app : forall l1 l2, creates (l1 ++ l2) = creates l1 ++ creates l2.
Proof.
  induction l1 as [|e t IH]; intros l2; [reflexivity|].
  destruct e; cbn [creates app]; rewrite IH; reflexivity.
Qed.

Lemma needs_app : forall l1 l2, needs (l1 ++ l2) = needs l1 ++ needs l2.
Proof.
  induction l1 as [|e t IH]; intros l2; [reflexivity|].
  destruct e; cbn [needs app]; rewrite IH; reflexivity.
Qed.

Lemma in_creates : forall l x, In x (creates l) <-> In (ECreate x) l.
Proof.
  induction l as [|e t IH]; intros x; [cbn; tauto|].
  destruct e; cbn [creates In]; rewrite ?IH; split; intros H;
    try (right; exact H); try (destruct H as [H|H]; [discriminate H | exact H]).
  - destruct H as [H|H]; [left; now subst | right; exact H].
  - destruct H as [H|H]; [left; now inversion H | right; exact H].
Qed.

Lemma in_needs : forall l x, In x (needs l) <-> exists rs inp, In (ENeed x rs inp) l.
Proof.
  induction l as [|e t IH]; intros x.
  - cbn. split; [tauto | intros (? & ? & [])].
  - destruct e; cbn [needs In]; rewrite ?IH;
      try (split; [intros (rs & inp & H); exists rs, inp; right; exact H
                  | intros (rs & inp & [H|H]); [discriminate H | exists rs, inp; exact H]]).
    split.
    + intros [H|(rs & inp & H)]; [subst; eexists _, _; left; reflexivity | exists rs, inp; right; exact H].
    + intros (rs & inp & [H|H]); [left; now inversion H | right; exists rs, inp; exact H].
Qed.

(* the events added between two states *)
Definition new_log (s s' : state) : list event :=
  firstn (length (st_log s') - length (st_log s))%nat (st_log s').

Lemma new_log_intro : forall s s' l, st_log s' = l ++ st_log s -> new_log s s' = l.
Proof.
  intros s s' l H. unfold new_log. rewrite H, app_length.
  replace (length l + length (st_log s) - length (st_log s))%nat with (length l) by lia.
  rewrite firstn_app, firstn_all, Nat.sub_diag. cbn [firstn]. apply app_nil_r.
Qed.

Lemma new_log_refl : forall s, new_log s s = [].
Proof. intros. now apply new_log_intro. Qed.

(* ---------- state updates ---------- *)

Definition done (s : state) (x : key) : Prop := res_builtAt (get (st_mem s) x) = st_epoch s.

Lemma done_dec : forall s x, {done s x} + {~ done s x}.
Proof. intros. unfold done. apply N.eq_dec. Qed.

Lemma flagged_unflag : forall s k x, flagged (unflag s k) x = flagged s x && negb (N.eqb x k).
Proof.
  intros s k x. unfold flagged, unflag. cbn [st_flag].
  induction (st_flag s) as [|y t IH]; [reflexivity|].
  cbn [filter existsb]. destruct (N.eqb y k) eqn:Eyk; cbn [negb].
  - rewrite IH. apply N.eqb_eq in Eyk. subst y.
    destruct (N.eqb x k) eqn:Exk; cbn [negb orb]; [now rewrite !andb_false_r | reflexivity].
  - cbn [existsb]. rewrite IH. destruct (N.eqb x y) eqn:Exy; cbn [orb]; [|reflexivity].
    apply N.eqb_eq in Exy. subst y. rewrite Eyk. reflexivity.
Qed.

(* the state a task is created in: ECreate, EStart, and the prior value when there is one *)
Definition run_pre (rules : key -> rule) (k : key) (r : result) (s : state) : state :=
  let s := emit (emit s (ECreate k)) (EStart k) in
  if negb (N.eqb (res_builtAt r) 0) && N.eqb (r_sig (rules k)) (res_sig r) then emit s (EPrior k (res_value r)) else s.

Definition run_pre_log (rules : key -> rule) (k : key) (r : result) : list event :=
  (if negb (N.eqb (res_builtAt r) 0) && N.eqb (r_sig (rules k)) (res_sig r) then [EPrior k (res_value r)] else [])
  ++ [EStart k; ECreate k].

Lemma run_pre_log_eq : forall rules k r s, st_log (run_pre rules k r s) = run_pre_log rules k r ++ st_log s.
Proof. intros. unfold run_pre, run_pre_log. destruct (_ && _); reflexivity. Qed.
Lemma run_pre_mem : forall rules k r s, st_mem (run_pre rules k r s) = st_mem s.
Proof. intros. unfold run_pre. destruct (_ && _); reflexivity. Qed.
Lemma run_pre_epoch : forall rules k r s, st_epoch (run_pre rules k r s) = st_epoch s.
Proof. intros. unfold run_pre. destruct (_ && _); reflexivity. Qed.
Lemma run_pre_db : forall rules k r s, st_db (run_pre rules k r s) = st_db s.
Proof. intros. unfold run_pre. destruct (_ && _); reflexivity. Qed.
Lemma run_pre_dbepoch : forall rules k r s, st_db_epoch (run_pre rules k r s) = st_db_epoch s.
Proof. intros. unfold run_pre. destruct (_ && _); reflexivity. Qed.
Lemma run_pre_flag : forall rules k r s, st_flag (run_pre rules k r s) = st_flag s.
Proof. intros. unfold run_pre. destruct (_ && _); reflexivity. Qed.
Lemma run_pre_creates : forall rules k r, creates (run_pre_log rules k r) = [k].
Proof. intros. unfold run_pre_log. destruct (_ && _); reflexivity. Qed.
Lemma run_pre_needs : forall rules k r, needs (run_pre_log rules k r) = [].
Proof. intros. unfold run_pre_log. destruct (_ && _); reflexivity. Qed.

(* events that are neither a decision nor a creation *)
Definition plain (e : event) : Prop :=
  match e with ECreate _ | ENeed _ _ _ | EValid _ _ | EComplete _ _ => False | _ => True end.

(* ---------- sequences of nested calls ---------- *)

Section Seg.
Variable rules : key -> rule.
Variable env : key -> N.
Variable F : key -> N -> list value -> list N -> N -> N.
Variable order : N -> key -> list dep -> list dep.
Variable ens : list key -> state -> key -> outcome.

(* [seg st ks s o]: from [s], the keys [ks] are brought up to date one after the other with stack [st],
   interleaved with plain events; [o] is the first outcome that is not [Ok], else [Ok] of the final state *)
Inductive seg (st : list key) : list key -> state -> outcome -> Prop :=
| seg_nil : forall s, seg st [] s (Ok s)
| seg_emit : forall ks s e o, plain e -> seg st ks (emit s e) o -> seg st ks s o
| seg_call : forall ks s x s1 o, ens st s x = Ok s1 -> seg st ks s1 o -> seg st (x :: ks) s o
| seg_stop : forall ks s x o, ens st s x = o -> (forall s1, o <> Ok s1) -> seg st (x :: ks) s o.

Lemma seg_app : forall st ks1 s s1, seg st ks1 s (Ok s1) ->
  forall ks2 o, seg st ks2 s1 o -> seg st (ks1 ++ ks2) s o.
Proof.
  intros st ks1 s s1 H. remember (Ok s1) as o1 eqn:Eo. revert s1 Eo.
  induction H as [s|ks s e o Hp H IH|ks s x s2 o Hc H IH|ks s x o Hc Hn]; intros s1' Eo ks2 o2 H2.
  - inversion Eo. subst. exact H2.
  - eapply seg_emit; [exact Hp|]. eapply IH; eauto.
  - cbn [app]. eapply seg_call; [exact Hc|]. eapply IH; eauto.
  - exfalso. eapply Hn. exact Eo.
Qed.

Lemma seg_stop_any : forall st ks s o, seg st ks s o -> (forall s1, o <> Ok s1) ->
  forall ks2, seg st (ks ++ ks2) s o.
Proof.
  intros st ks s o H. induction H as [s|ks s e o Hp H IH|ks s x s2 o Hc H IH|ks s x o Hc Hn]; intros Hno ks2.
  - exfalso. eapply Hno. reflexivity.
  - eapply seg_emit; [exact Hp|]. now apply IH.
  - cbn [app]. eapply seg_call; [exact Hc|]. now apply IH.
  - cbn [app]. now apply seg_stop.
Qed.

Lemma requests_seg : forall k stack ks slot s acc o acc',
  requests ens k stack ks slot s acc = (o, acc') -> seg (k :: stack) ks s o.
Proof.
  intros k stack ks. induction ks as [|x t IH]; intros slot s acc o acc' H; cbn [requests] in H.
  - inversion H. subst. apply seg_nil.
  - destruct (ens (k :: stack) s x) as [s1|s1 p|] eqn:E.
    + eapply seg_call; [exact E|]. eapply seg_emit; [|eapply IH; exact H]. exact I.
    + inversion H. subst. apply seg_stop; [exact E | intros ? ?; discriminate].
    + inversion H. subst. apply seg_stop; [exact E | intros ? ?; discriminate].
Qed.

Lemma follows_seg : forall k stack ks s o,
  follows ens k stack ks s = o -> seg (k :: stack) ks s o.
Proof.
  intros k stack ks. induction ks as [|x t IH]; intros s o H; cbn [follows] in H.
  - subst. apply seg_nil.
  - destruct (ens (k :: stack) s x) as [s1|s1 p|] eqn:E.
    + eapply seg_call; [exact E|]. apply IH. exact H.
    + subst. apply seg_stop; [exact E | intros ? ?; discriminate].
    + subst. apply seg_stop; [exact E | intros ? ?; discriminate].
Qed.

(* what [run] is made of *)
Lemma run_cases : forall k stack r s o, run rules env F order ens k stack r s = o ->
  (exists s4 slots1 slots3,
     seg (k :: stack) (r_req (rules k) ++ r_single (rules k) ++ r_follow (rules k) ++ branch_keys (rules k) slots1)
         (run_pre rules k r s) (Ok s4) /\
     seg (k :: stack) (r_disc (rules k))
         (complete order (emit s4 (EAvail k)) k (rules k) r (branch_keys (rules k) slots1)
                   (task_value rules env F k (rules k) slots1 slots3)) o)
  \/ ((forall s1, o <> Ok s1) /\ exists ks, seg (k :: stack) ks (run_pre rules k r s) o).
Proof.
  intros k stack r s o H. unfold run in H. fold (run_pre rules k r s) in H.
  set (s0 := run_pre rules k r s) in *.
  destruct (requests ens k stack (r_req (rules k)) 0 s0 []) as [o1 slots1] eqn:E1.
  pose proof (requests_seg _ _ _ _ _ _ _ _ E1) as G1.
  destruct o1 as [s1|s1 p|]; [|right; subst o; split; [intros ? ?; discriminate | eexists; exact G1]..].
  destruct (requests ens k stack (r_single (rules k)) (length slots1) s1 []) as [o2 slots2] eqn:E2.
  pose proof (requests_seg _ _ _ _ _ _ _ _ E2) as G2.
  pose proof (seg_app _ _ _ _ G1 _ _ G2) as G12.
  destruct o2 as [s2|s2 p|]; [|right; subst o; split; [intros ? ?; discriminate | eexists; exact G12]..].
  destruct (follows ens k stack (r_follow (rules k)) s2) as [s3|s3 p|] eqn:E3;
    pose proof (follows_seg _ _ _ _ _ E3) as G3;
    pose proof (seg_app _ _ _ _ G12 _ _ G3) as G123;
    [|right; subst o; split; [intros ? ?; discriminate | eexists; exact G123]..].
  destruct (requests ens k stack (branch_keys (rules k) slots1) (length slots1 + length slots2) s3 []) as [o4 slots3] eqn:E4.
  pose proof (requests_seg _ _ _ _ _ _ _ _ E4) as G4.
  pose proof (seg_app _ _ _ _ G123 _ _ G4) as G1234. rewrite <- !app_assoc in G1234.
  destruct o4 as [s4|s4 p|]; [|right; subst o; split; [intros ? ?; discriminate | eexists; exact G1234]..].
  left. exists s4, slots1, slots3. split; [exact G1234|].
  apply follows_seg. exact H.
Qed.

End Seg.
