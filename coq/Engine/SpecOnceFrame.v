(* C02 - frame lemmas about the specification engine (Spec.v), proved once, generically over the recursive
   call [ens] of one [ensure] step, then lifted to [ensure] by induction on fuel.

   Contents: get/update algebra; the log helpers [creates], [needs], [new_log]; the notion [seg] of a sequence of
   nested calls (what [requests]/[follows] do) and the decomposition of [run]; the frame [frame_st]:
   the epoch is unchanged, the log only grows, complete keys are frozen, keys on the stack are untouched,
   created keys are distinct, were incomplete and off the stack, and are complete after an [Ok]. *)
From LLB Require Import Engine.Rules Engine.Spec.
From Coq Require Import List NArith Bool Lia Arith.
Local Open Scope N_scope.

(* ---------- get / update ---------- *)

Lemma lookup_update_same : forall m k r, lookup (update m k r) k = Some r.
Proof.
  induction m as [|[k' r'] t IH]; intros k r; cbn [update lookup].
  - now rewrite N.eqb_refl.
  - destruct (N.eqb k k') eqn:E; cbn [lookup].
    + now rewrite N.eqb_refl.
    + rewrite E. apply IH.
Qed.

Lemma lookup_update_other : forall m k x r, x <> k -> lookup (update m k r) x = lookup m x.
Proof.
  induction m as [|[k' r'] t IH]; intros k x r Hne; cbn [update lookup].
  - apply N.eqb_neq in Hne. now rewrite Hne.
  - destruct (N.eqb k k') eqn:E; cbn [lookup].
    + apply N.eqb_eq in E. subst k'. apply N.eqb_neq in Hne. now rewrite Hne.
    + destruct (N.eqb x k'); [reflexivity | now apply IH].
Qed.

Lemma get_update_same : forall m k r, get (update m k r) k = r.
Proof. intros. unfold get. now rewrite lookup_update_same. Qed.

Lemma get_update_other : forall m k x r, x <> k -> get (update m k r) x = get m x.
Proof. intros. unfold get. now rewrite lookup_update_other. Qed.

(* ---------- the log ---------- *)

Fixpoint creates (l : list event) : list key :=
  match l with
  | [] => []
  | ECreate k :: t => k :: creates t
  | _ :: t => creates t
  end.

Fixpoint needs (l : list event) : list key :=
  match l with
  | [] => []
  | ENeed k _ _ :: t => k :: needs t
  | _ :: t => needs t
  end.

Lemma creates_app : forall l1 l2, creates (l1 ++ l2) = creates l1 ++ creates l2.
Proof.
  induction l1 as [|e t IH]; intros l2; [reflexivity|].
  destruct e; cbn [creates app]; rewrite IH; reflexivity.
Qed.

Lemma needs_app : forall l1 l2, needs (l1 ++ l2) = needs l1 ++ needs l2.
Proof.
  induction l1 as [|e t IH]; intros l2; [reflexivity|].
  destruct e; cbn [needs app]; rewrite IH; reflexivity.
Qed.

Lemma in_creates : forall l x, In x (creates l) <-> In (ECreate x) l.
Proof.
  induction l as [|e t IH]; intros x; [cbn; tauto|].
  destruct e; cbn [creates In]; rewrite ?IH; split; intros H;
    try (right; exact H); try (destruct H as [H|H]; [discriminate H | exact H]).
  - destruct H as [H|H]; [left; now subst | right; exact H].
  - destruct H as [H|H]; [left; now inversion H | right; exact H].
Qed.

Lemma in_needs : forall l x, In x (needs l) <-> exists rs inp, In (ENeed x rs inp) l.
Proof.
  induction l as [|e t IH]; intros x.
  - cbn. split; [tauto | intros (? & ? & [])].
  - destruct e; cbn [needs In]; rewrite ?IH;
      try (split; [intros (rs & inp & H); exists rs, inp; right; exact H
                  | intros (rs & inp & [H|H]); [discriminate H | exists rs, inp; exact H]]).
    split.
    + intros [H|(rs & inp & H)]; [subst; eexists _, _; left; reflexivity | exists rs, inp; right; exact H].
    + intros (rs & inp & [H|H]); [left; now inversion H | right; exists rs, inp; exact H].
Qed.

(* the events added between two states *)
Definition new_log (s s' : state) : list event :=
  firstn (length (st_log s') - length (st_log s))%nat (st_log s').

Lemma new_log_intro : forall s s' l, st_log s' = l ++ st_log s -> new_log s s' = l.
Proof.
  intros s s' l H. unfold new_log. rewrite H, app_length.
  replace (length l + length (st_log s) - length (st_log s))%nat with (length l) by lia.
  rewrite firstn_app, firstn_all, Nat.sub_diag. cbn [firstn]. apply app_nil_r.
Qed.

Lemma new_log_refl : forall s, new_log s s = [].
Proof. intros. now apply new_log_intro. Qed.

(* ---------- state updates ---------- *)

Definition done (s : state) (x : key) : Prop := res_builtAt (get (st_mem s) x) = st_epoch s.

Lemma done_dec : forall s x, {done s x} + {~ done s x}.
Proof. intros. unfold done. apply N.eq_dec. Qed.

Lemma flagged_unflag : forall s k x, flagged (unflag s k) x = flagged s x && negb (N.eqb x k).
Proof.
  intros s k x. unfold flagged, unflag. cbn [st_flag].
  induction (st_flag s) as [|y t IH]; [reflexivity|].
  cbn [filter existsb]. destruct (N.eqb y k) eqn:Eyk; cbn [negb].
  - rewrite IH. apply N.eqb_eq in Eyk. subst y.
    destruct (N.eqb x k) eqn:Exk; cbn [negb orb]; [now rewrite !andb_false_r | reflexivity].
  - cbn [existsb]. rewrite IH. destruct (N.eqb x y) eqn:Exy; cbn [orb]; [|reflexivity].
    apply N.eqb_eq in Exy. subst y. rewrite Eyk. reflexivity.
Qed.

(* the state a task is created in: ECreate, EStart, and the prior value when there is one *)
Definition run_pre (rules : key -> rule) (k : key) (r : result) (s : state) : state :=
  let s := emit (emit s (ECreate k)) (EStart k) in
  if negb (N.eqb (res_builtAt r) 0) && N.eqb (r_sig (rules k)) (res_sig r) then emit s (EPrior k (res_value r)) else s.

Definition run_pre_log (rules : key -> rule) (k : key) (r : result) : list event :=
  (if negb (N.eqb (res_builtAt r) 0) && N.eqb (r_sig (rules k)) (res_sig r) then [EPrior k (res_value r)] else [])
  ++ [EStart k; ECreate k].

Lemma run_pre_log_eq : forall rules k r s, st_log (run_pre rules k r s) = run_pre_log rules k r ++ st_log s.
Proof. intros. unfold run_pre, run_pre_log. destruct (_ && _); reflexivity. Qed.
Lemma run_pre_mem : forall rules k r s, st_mem (run_pre rules k r s) = st_mem s.
Proof. intros. unfold run_pre. destruct (_ && _); reflexivity. Qed.
Lemma run_pre_epoch : forall rules k r s, st_epoch (run_pre rules k r s) = st_epoch s.
Proof. intros. unfold run_pre. destruct (_ && _); reflexivity. Qed.
Lemma run_pre_db : forall rules k r s, st_db (run_pre rules k r s) = st_db s.
Proof. intros. unfold run_pre. destruct (_ && _); reflexivity. Qed.
Lemma run_pre_dbepoch : forall rules k r s, st_db_epoch (run_pre rules k r s) = st_db_epoch s.
Proof. intros. unfold run_pre. destruct (_ && _); reflexivity. Qed.
Lemma run_pre_flag : forall rules k r s, st_flag (run_pre rules k r s) = st_flag s.
Proof. intros. unfold run_pre. destruct (_ && _); reflexivity. Qed.
Lemma run_pre_creates : forall rules k r, creates (run_pre_log rules k r) = [k].
Proof. intros. unfold run_pre_log. destruct (_ && _); reflexivity. Qed.
Lemma run_pre_needs : forall rules k r, needs (run_pre_log rules k r) = [].
Proof. intros. unfold run_pre_log. destruct (_ && _); reflexivity. Qed.

(* events that are neither a decision nor a creation *)
Definition plain (e : event) : Prop :=
  match e with ECreate _ | ENeed _ _ _ | EValid _ _ | EComplete _ _ => False | _ => True end.

(* ---------- sequences of nested calls ---------- *)

Section Seg.
Variable rules : key -> rule.
Variable env : key -> N.
Variable F : key -> N -> list value -> list N -> N -> N.
Variable order : N -> key -> list dep -> list dep.
Variable ens : list key -> state -> key -> outcome.

(* [seg st ks s o]: from [s], the keys [ks] are brought up to date one after the other with stack [st],
   interleaved with plain events; [o] is the first outcome that is not [Ok], else [Ok] of the final state *)
Inductive seg (st : list key) : list key -> state -> outcome -> Prop :=
| seg_nil : forall s, seg st [] s (Ok s)
| seg_emit : forall ks s e o, plain e -> seg st ks (emit s e) o -> seg st ks s o
| seg_call : forall ks s x s1 o, ens st s x = Ok s1 -> seg st ks s1 o -> seg st (x :: ks) s o
| seg_stop : forall ks s x o, ens st s x = o -> (forall s1, o <> Ok s1) -> seg st (x :: ks) s o.

Lemma seg_app : forall st ks1 s s1, seg st ks1 s (Ok s1) ->
  forall ks2 o, seg st ks2 s1 o -> seg st (ks1 ++ ks2) s o.
Proof.
  intros st ks1 s s1 H. remember (Ok s1) as o1 eqn:Eo. revert s1 Eo.
  induction H as [s|ks s e o Hp H IH|ks s x s2 o Hc H IH|ks s x o Hc Hn]; intros s1' Eo ks2 o2 H2.
  - inversion Eo. subst. exact H2.
  - eapply seg_emit; [exact Hp|]. eapply IH; eauto.
  - cbn [app]. eapply seg_call; [exact Hc|]. eapply IH; eauto.
  - exfalso. eapply Hn. exact Eo.
Qed.

Lemma seg_stop_any : forall st ks s o, seg st ks s o -> (forall s1, o <> Ok s1) ->
  forall ks2, seg st (ks ++ ks2) s o.
Proof.
  intros st ks s o H. induction H as [s|ks s e o Hp H IH|ks s x s2 o Hc H IH|ks s x o Hc Hn]; intros Hno ks2.
  - exfalso. eapply Hno. reflexivity.
  - eapply seg_emit; [exact Hp|]. now apply IH.
  - cbn [app]. eapply seg_call; [exact Hc|]. now apply IH.
  - cbn [app]. now apply seg_stop.
Qed.

Lemma requests_seg : forall k stack ks slot s acc o acc',
  requests ens k stack ks slot s acc = (o, acc') -> seg (k :: stack) ks s o.
Proof.
  intros k stack ks. induction ks as [|x t IH]; intros slot s acc o acc' H; cbn [requests] in H.
  - inversion H. subst. apply seg_nil.
  - destruct (ens (k :: stack) s x) as [s1|s1 p|] eqn:E.
    + eapply seg_call; [exact E|]. eapply seg_emit; [|eapply IH; exact H]. exact I.
    + inversion H. subst. apply seg_stop; [exact E | intros ? ?; discriminate].
    + inversion H. subst. apply seg_stop; [exact E | intros ? ?; discriminate].
Qed.

Lemma follows_seg : forall k stack ks s o,
  follows ens k stack ks s = o -> seg (k :: stack) ks s o.
Proof.
  intros k stack ks. induction ks as [|x t IH]; intros s o H; cbn [follows] in H.
  - subst. apply seg_nil.
  - destruct (ens (k :: stack) s x) as [s1|s1 p|] eqn:E.
    + eapply seg_call; [exact E|]. apply IH. exact H.
    + subst. apply seg_stop; [exact E | intros ? ?; discriminate].
    + subst. apply seg_stop; [exact E | intros ? ?; discriminate].
Qed.

(* what [run] is made of *)
Lemma run_cases : forall k stack r s o, run rules env F order ens k stack r s = o ->
  (exists s4 slots1 slots3,
     seg (k :: stack) (r_req (rules k) ++ r_single (rules k) ++ r_follow (rules k) ++ branch_keys (rules k) slots1)
         (run_pre rules k r s) (Ok s4) /\
     seg (k :: stack) (r_disc (rules k))
         (complete order (emit s4 (EAvail k)) k (rules k) r (branch_keys (rules k) slots1)
                   (task_value rules env F k (rules k) slots1 slots3)) o)
  \/ ((forall s1, o <> Ok s1) /\ exists ks, seg (k :: stack) ks (run_pre rules k r s) o).
Proof.
  intros k stack r s o H. unfold run in H. fold (run_pre rules k r s) in H.
  set (s0 := run_pre rules k r s) in *.
  destruct (requests ens k stack (r_req (rules k)) 0 s0 []) as [o1 slots1] eqn:E1.
  pose proof (requests_seg _ _ _ _ _ _ _ _ E1) as G1.
  destruct o1 as [s1|s1 p|]; [|right; subst o; split; [intros ? ?; discriminate | eexists; exact G1]..].
  destruct (requests ens k stack (r_single (rules k)) (length slots1) s1 []) as [o2 slots2] eqn:E2.
  pose proof (requests_seg _ _ _ _ _ _ _ _ E2) as G2.
  pose proof (seg_app _ _ _ _ G1 _ _ G2) as G12.
  destruct o2 as [s2|s2 p|]; [|right; subst o; split; [intros ? ?; discriminate | eexists; exact G12]..].
  destruct (follows ens k stack (r_follow (rules k)) s2) as [s3|s3 p|] eqn:E3;
    pose proof (follows_seg _ _ _ _ _ E3) as G3;
    pose proof (seg_app _ _ _ _ G12 _ _ G3) as G123;
    [|right; subst o; split; [intros ? ?; discriminate | eexists; exact G123]..].
  destruct (requests ens k stack (branch_keys (rules k) slots1) (length slots1 + length slots2) s3 []) as [o4 slots3] eqn:E4.
  pose proof (requests_seg _ _ _ _ _ _ _ _ E4) as G4.
  pose proof (seg_app _ _ _ _ G123 _ _ G4) as G1234. rewrite <- !app_assoc in G1234.
  destruct o4 as [s4|s4 p|]; [|right; subst o; split; [intros ? ?; discriminate | eexists; exact G1234]..].
  left. exists s4, slots1, slots3. split; [exact G1234|].
  apply follows_seg. exact H.
Qed.

End Seg.

(* ---------- the frame ---------- *)

Record frame_st (stack : list key) (s s' : state) (ok : bool) (l : list event) : Prop := mkFrame {
  fr_log : st_log s' = l ++ st_log s;
  fr_epoch : st_epoch s' = st_epoch s;
  fr_dbepoch : st_db_epoch s' = st_db_epoch s;
  fr_frozen : forall x, done s x -> get (st_mem s') x = get (st_mem s) x;
  fr_stack : forall x, In x stack -> get (st_mem s') x = get (st_mem s) x;
  fr_flag : forall x, flagged s' x = true -> flagged s x = true;
  fr_flag_keep : forall x, ~ In x (creates l) -> flagged s' x = flagged s x;
  fr_db_keep : forall x, ~ In x (creates l) -> get (st_db s') x = get (st_db s) x;
  fr_nodup : NoDup (creates l);
  fr_fresh : forall x, In x (creates l) -> ~ done s x /\ ~ In x stack;
  fr_done : ok = true -> forall x, In x (creates l) -> done s' x;
  fr_touch : ok = true -> forall x, get (st_mem s') x = get (st_mem s) x \/ (~ done s x /\ done s' x)
}.

Definition frame_o (stack : list key) (s : state) (o : outcome) : Prop :=
  match o with
  | Ok s' => frame_st stack s s' true (new_log s s')
  | Cycle s' _ => frame_st stack s s' false (new_log s s')
  | OutOfFuel => True
  end.

Definition frame (stack : list key) (s : state) (k : key) (o : outcome) : Prop :=
  frame_o stack s o /\ (forall s', o = Ok s' -> done s' k).

Lemma frame_new_log : forall st s s' ok l, frame_st st s s' ok l -> frame_st st s s' ok (new_log s s').
Proof. intros st s s' ok l H. rewrite (new_log_intro _ _ _ (fr_log _ _ _ _ _ H)). exact H. Qed.

Lemma frame_done_mono : forall st s s' ok l x, frame_st st s s' ok l -> done s x -> done s' x.
Proof.
  intros st s s' ok l x H Hd. unfold done. rewrite (fr_frozen _ _ _ _ _ H x Hd), (fr_epoch _ _ _ _ _ H). exact Hd.
Qed.

Lemma frame_refl : forall st s ok, frame_st st s s ok [].
Proof.
  intros. constructor; cbn [creates app In]; try reflexivity; try tauto; try (now constructor); try (intros _ x; now left).
Qed.

Lemma frame_emit : forall st s e ok, creates [e] = [] -> frame_st st s (emit s e) ok [e].
Proof.
  intros st s e ok He. constructor; rewrite ?He; cbn [In]; try reflexivity; try tauto; try (now constructor); try (intros _ x; now left).
Qed.

Lemma frame_weaken_ok : forall st s s' ok l, frame_st st s s' ok l -> frame_st st s s' false l.
Proof.
  intros st s s' ok l H. destruct H. constructor; try assumption; intros; discriminate.
Qed.

Lemma frame_weaken_stack : forall k st s s' ok l, frame_st (k :: st) s s' ok l -> frame_st st s s' ok l.
Proof.
  intros k st s s' ok l H. destruct H. constructor; try assumption.
  - intros x Hx. apply fr_stack0. now right.
  - intros x Hx. destruct (fr_fresh0 x Hx) as [A B]. split; [exact A|]. intros C. apply B. now right.
Qed.

Lemma NoDup_app_intro : forall (l1 l2 : list key), NoDup l1 -> NoDup l2 -> (forall x, In x l1 -> ~ In x l2) -> NoDup (l1 ++ l2).
Proof.
  induction l1 as [|a t IH]; intros l2 H1 H2 Hd; [exact H2|].
  cbn [app]. inversion H1 as [|? ? Ha Ht]. subst. constructor.
  - rewrite in_app_iff. intros [A|A]; [now apply Ha | apply (Hd a); [now left | exact A]].
  - apply IH; [exact Ht | exact H2 | intros x Hx; apply Hd; now right].
Qed.

Lemma frame_trans : forall st s s1 s2 ok l1 l2,
  frame_st st s s1 true l1 -> frame_st st s1 s2 ok l2 -> frame_st st s s2 ok (l2 ++ l1).
Proof.
  intros st s s1 s2 ok l1 l2 A B.
  assert (Hmono : forall x, done s x -> done s1 x) by (intros x; eapply frame_done_mono; exact A).
  constructor.
  - rewrite (fr_log _ _ _ _ _ B), (fr_log _ _ _ _ _ A). now rewrite app_assoc.
  - rewrite (fr_epoch _ _ _ _ _ B). apply (fr_epoch _ _ _ _ _ A).
  - rewrite (fr_dbepoch _ _ _ _ _ B). apply (fr_dbepoch _ _ _ _ _ A).
  - intros x Hx. rewrite (fr_frozen _ _ _ _ _ B x (Hmono x Hx)). apply (fr_frozen _ _ _ _ _ A x Hx).
  - intros x Hx. rewrite (fr_stack _ _ _ _ _ B x Hx). apply (fr_stack _ _ _ _ _ A x Hx).
  - intros x Hx. apply (fr_flag _ _ _ _ _ A). apply (fr_flag _ _ _ _ _ B). exact Hx.
  - intros x Hx. rewrite creates_app, in_app_iff in Hx.
    rewrite (fr_flag_keep _ _ _ _ _ B x) by tauto. apply (fr_flag_keep _ _ _ _ _ A x). tauto.
  - intros x Hx. rewrite creates_app, in_app_iff in Hx.
    rewrite (fr_db_keep _ _ _ _ _ B x) by tauto. apply (fr_db_keep _ _ _ _ _ A x). tauto.
  - rewrite creates_app. apply NoDup_app_intro.
    + apply (fr_nodup _ _ _ _ _ B).
    + apply (fr_nodup _ _ _ _ _ A).
    + intros x H2 H1. destruct (fr_fresh _ _ _ _ _ B x H2) as [P _]. apply P. apply (fr_done _ _ _ _ _ A eq_refl x H1).
  - intros x Hx. rewrite creates_app, in_app_iff in Hx. destruct Hx as [Hx|Hx].
    + destruct (fr_fresh _ _ _ _ _ B x Hx) as [P Q]. split; [|exact Q]. intros C. apply P. now apply Hmono.
    + apply (fr_fresh _ _ _ _ _ A x Hx).
  - intros Hok x Hx. rewrite creates_app, in_app_iff in Hx. destruct Hx as [Hx|Hx].
    + apply (fr_done _ _ _ _ _ B Hok x Hx).
    + eapply frame_done_mono; [exact B|]. apply (fr_done _ _ _ _ _ A eq_refl x Hx).
  - intros Hok x. destruct (fr_touch _ _ _ _ _ A eq_refl x) as [E1|[N1 D1]].
    + destruct (fr_touch _ _ _ _ _ B Hok x) as [E2|[N2 D2]].
      * left. now rewrite E2.
      * right. split; [|exact D2]. intros C. apply N2. now apply Hmono.
    + right. split; [exact N1|]. eapply frame_done_mono; [exact B | exact D1].
Qed.

Lemma frame_o_trans : forall st s s1 l1 o, frame_st st s s1 true l1 -> frame_o st s1 o -> frame_o st s o.
Proof.
  intros st s s1 l1 o A B. destruct o as [s2|s2 p|]; cbn [frame_o] in *; [| |exact I];
    eapply frame_new_log; eapply frame_trans; [exact A | exact B | exact A | exact B].
Qed.

Lemma frame_o_weaken_stack : forall k st s o, frame_o (k :: st) s o -> frame_o st s o.
Proof. intros k st s [s'|s' p|] H; cbn [frame_o] in *; [| |exact I]; eapply frame_weaken_stack; exact H. Qed.

(* a cleaning write to an incomplete key that is off the stack, before a frame that completes it *)
Lemma frame_set_mem_pre : forall st s k r s' ok l,
  res_builtAt r = res_builtAt (get (st_mem s) k) -> ~ done s k -> ~ In k st ->
  frame_st st (set_mem s k r) s' ok l -> (ok = true -> done s' k) -> frame_st st s s' ok l.
Proof.
  intros st s k r s' ok l Hb Hnd Hns A Hk.
  assert (Hget : forall x, x <> k -> get (st_mem (set_mem s k r)) x = get (st_mem s) x)
    by (intros x Hx; cbn [set_mem st_mem]; now apply get_update_other).
  assert (Hd : forall x, done (set_mem s k r) x <-> done s x).
  { intros x. unfold done. cbn [set_mem st_mem st_epoch]. destruct (N.eq_dec x k) as [->|Hx].
    - rewrite get_update_same, Hb. tauto.
    - rewrite get_update_other by exact Hx. tauto. }
  destruct A. constructor; try assumption.
  - intros x Hx. assert (x <> k) by (intros ->; tauto). rewrite fr_frozen0 by now apply Hd. now apply Hget.
  - intros x Hx. assert (x <> k) by (intros ->; tauto). rewrite fr_stack0 by exact Hx. now apply Hget.
  - intros x Hx. destruct (fr_fresh0 x Hx) as [P Q]. split; [|exact Q]. intros C. apply P. now apply Hd.
  - intros Hok x. destruct (N.eq_dec x k) as [->|Hx].
    + right. split; [exact Hnd | now apply Hk].
    + destruct (fr_touch0 Hok x) as [E|[P Q]].
      * left. rewrite E. now apply Hget.
      * right. split; [|exact Q]. intros C. apply P. now apply Hd.
Qed.

Section Frame.
Variable rules : key -> rule.
Variable env : key -> N.
Variable F : key -> N -> list value -> list N -> N -> N.
Variable order : N -> key -> list dep -> list dep.
Variable ens : list key -> state -> key -> outcome.
Hypothesis Hens : forall stack s k, frame stack s k (ens stack s k).

Lemma seg_frame : forall st ks s o, seg ens st ks s o ->
  frame_o st s o /\ (forall s', o = Ok s' -> forall x, In x ks -> done s' x).
Proof.
  intros st ks s o H. induction H as [s|ks s e o Hp H IH|ks s x s1 o Hc H IH|ks s x o Hc Hn].
  - split; [|intros ? ? ? []]. cbn [frame_o]. eapply frame_new_log. apply frame_refl.
  - destruct IH as [IH1 IH2]. split; [|exact IH2].
    eapply frame_o_trans; [|exact IH1]. apply frame_emit. destruct e; try reflexivity; destruct Hp.
  - destruct IH as [IH1 IH2]. destruct (Hens st s x) as [A B]. rewrite Hc in A, B. cbn [frame_o] in A.
    split; [eapply frame_o_trans; [exact A | exact IH1]|].
    intros s' -> y [<-|Hy]; [|now apply (IH2 s')].
    cbn [frame_o] in IH1. eapply frame_done_mono; [exact IH1|]. now apply B.
  - destruct (Hens st s x) as [A B]. rewrite Hc in A. split; [exact A|].
    intros s' ->. exfalso. now apply (Hn s').
Qed.

Lemma complete_mem_other : forall s k rl r bk v x, x <> k ->
  get (st_mem (complete order s k rl r bk v)) x = get (st_mem s) x.
Proof. intros. unfold complete. cbn [set_db set_mem st_mem unflag emit]. now apply get_update_other. Qed.

Lemma complete_mem_same : forall s k rl r bk v,
  res_builtAt (get (st_mem (complete order s k rl r bk v)) k) = st_epoch s.
Proof. intros. unfold complete. cbn [set_db set_mem st_mem unflag emit]. now rewrite get_update_same. Qed.

Lemma complete_epoch : forall s k rl r bk v, st_epoch (complete order s k rl r bk v) = st_epoch s.
Proof. reflexivity. Qed.

Lemma complete_flagged : forall s k rl r bk v x,
  flagged (complete order s k rl r bk v) x = flagged s x && negb (N.eqb x k).
Proof. intros. exact (flagged_unflag (emit s (EComplete k v)) k x). Qed.

Lemma complete_db_other : forall s k rl r bk v x, x <> k ->
  get (st_db (complete order s k rl r bk v)) x = get (st_db s) x.
Proof. intros. unfold complete. cbn [set_db set_mem st_db unflag emit]. now apply get_update_other. Qed.

Lemma run_frame_main : forall k stack r s s4 lA bk v, ~ done s k -> ~ In k stack ->
  frame_st (k :: stack) (run_pre rules k r s) s4 true lA ->
  forall s' ok lB, frame_st (k :: stack) (complete order (emit s4 (EAvail k)) k (rules k) r bk v) s' ok lB ->
    frame_st stack s s' ok (lB ++ [EComplete k v; EAvail k] ++ lA ++ run_pre_log rules k r) /\ done s' k.
Proof.
  intros k stack r s s4 lA bk v Hnd Hns A.
  set (s0 := run_pre rules k r s) in *.
  set (s6 := complete order (emit s4 (EAvail k)) k (rules k) r bk v) in *.
  assert (H0mem : st_mem s0 = st_mem s) by apply run_pre_mem.
  assert (H0ep : st_epoch s0 = st_epoch s) by apply run_pre_epoch.
  assert (H6other : forall x, x <> k -> get (st_mem s6) x = get (st_mem s4) x)
    by (intros x Hx; unfold s6; now rewrite complete_mem_other).
  assert (H6ep : st_epoch s6 = st_epoch s4) by reflexivity.
  assert (H6k : done s6 k) by (unfold done, s6; now rewrite complete_mem_same).
  assert (Hd0 : forall x, done s0 x <-> done s x) by (intros x; unfold done; rewrite H0mem, H0ep; tauto).
  assert (Hd46 : forall x, x <> k -> (done s6 x <-> done s4 x)) by (intros x Hx; unfold done; rewrite H6other, H6ep by exact Hx; tauto).
  assert (Hm04 : forall x, done s0 x -> done s4 x) by (intros x; eapply frame_done_mono; exact A).
  assert (Hflag6 : forall x, flagged s6 x = flagged s4 x && negb (N.eqb x k)).
  { intros x. unfold s6. now rewrite complete_flagged. }
  assert (Hdb6 : forall x, x <> k -> get (st_db s6) x = get (st_db s4) x).
  { intros x Hx. unfold s6. now rewrite complete_db_other. }
  assert (Hlog6 : st_log s6 = EComplete k v :: EAvail k :: st_log s4) by reflexivity.
  assert (Hnk : ~ In k (creates lA)) by (intros C; destruct (fr_fresh _ _ _ _ _ A k C) as [_ Q]; apply Q; now left).
  intros s' ok lB B'.
    assert (HnkB : ~ In k (creates lB)) by (intros C; destruct (fr_fresh _ _ _ _ _ B' k C) as [_ Q]; apply Q; now left).
    assert (Hm6 : forall x, done s6 x -> done s' x) by (intros x; eapply frame_done_mono; exact B').
    split; [|now apply Hm6].
    assert (Hcr : creates (lB ++ [EComplete k v; EAvail k] ++ lA ++ run_pre_log rules k r) = creates lB ++ creates lA ++ [k]).
    { rewrite !creates_app, run_pre_creates. reflexivity. }
    constructor.
    - rewrite (fr_log _ _ _ _ _ B'), Hlog6, (fr_log _ _ _ _ _ A). unfold s0. rewrite run_pre_log_eq.
      rewrite <- !app_assoc. reflexivity.
    - rewrite (fr_epoch _ _ _ _ _ B'), H6ep, (fr_epoch _ _ _ _ _ A). exact H0ep.
    - rewrite (fr_dbepoch _ _ _ _ _ B'). change (st_db_epoch s6) with (st_db_epoch s4).
      rewrite (fr_dbepoch _ _ _ _ _ A). apply run_pre_dbepoch.
    - intros x Hx. assert (x <> k) by (intros ->; tauto).
      assert (D4 : done s4 x) by (apply Hm04; now apply Hd0).
      rewrite (fr_frozen _ _ _ _ _ B') by now apply Hd46.
      rewrite H6other by assumption. rewrite (fr_frozen _ _ _ _ _ A) by now apply Hd0. now rewrite H0mem.
    - intros x Hx. assert (x <> k) by (intros ->; tauto).
      rewrite (fr_stack _ _ _ _ _ B') by now right. rewrite H6other by assumption.
      rewrite (fr_stack _ _ _ _ _ A) by now right. now rewrite H0mem.
    - intros x Hx. apply (fr_flag _ _ _ _ _ B') in Hx. rewrite Hflag6 in Hx. apply andb_prop in Hx. destruct Hx as [Hx _].
      apply (fr_flag _ _ _ _ _ A) in Hx. unfold flagged in *. unfold s0 in Hx. now rewrite run_pre_flag in Hx.
    - intros x Hx. rewrite Hcr, !in_app_iff in Hx. cbn [In] in Hx.
      assert (Hxk : N.eqb x k = false) by (apply N.eqb_neq; intros ->; tauto).
      rewrite (fr_flag_keep _ _ _ _ _ B') by tauto. rewrite Hflag6, Hxk, andb_true_r.
      rewrite (fr_flag_keep _ _ _ _ _ A) by tauto. unfold flagged, s0. now rewrite run_pre_flag.
    - intros x Hx. rewrite Hcr, !in_app_iff in Hx. cbn [In] in Hx.
      assert (Hxk : x <> k) by (intros ->; tauto).
      rewrite (fr_db_keep _ _ _ _ _ B') by tauto. rewrite Hdb6 by exact Hxk.
      rewrite (fr_db_keep _ _ _ _ _ A) by tauto. unfold s0. now rewrite run_pre_db.
    - rewrite Hcr. apply NoDup_app_intro; [apply (fr_nodup _ _ _ _ _ B') | |].
      + apply NoDup_app_intro; [apply (fr_nodup _ _ _ _ _ A) | repeat constructor; intros [] |].
        intros x Hx [<-|[]]. tauto.
      + intros x HB HA. rewrite in_app_iff in HA. destruct HA as [HA|[<-|[]]]; [|tauto].
        assert (x <> k) by (intros ->; tauto).
        destruct (fr_fresh _ _ _ _ _ B' x HB) as [P _]. apply P. apply Hd46; [assumption|]. apply (fr_done _ _ _ _ _ A eq_refl x HA).
    - intros x Hx. rewrite Hcr, !in_app_iff in Hx. destruct Hx as [Hx|[Hx|[<-|[]]]]; [| |tauto].
      + destruct (fr_fresh _ _ _ _ _ B' x Hx) as [P Q]. assert (x <> k) by (intros ->; apply Q; now left).
        split; [|intros C; apply Q; now right]. intros C. apply P. apply Hd46; [assumption|]. apply Hm04. now apply Hd0.
      + destruct (fr_fresh _ _ _ _ _ A x Hx) as [P Q]. split; [|intros C; apply Q; now right]. intros C. apply P. now apply Hd0.
    - intros Hok x Hx. rewrite Hcr, !in_app_iff in Hx. destruct Hx as [Hx|[Hx|[<-|[]]]].
      + apply (fr_done _ _ _ _ _ B' Hok x Hx).
      + assert (x <> k) by (intros ->; tauto). apply Hm6. apply Hd46; [assumption|]. apply (fr_done _ _ _ _ _ A eq_refl x Hx).
      + now apply Hm6.
    - intros Hok x. destruct (N.eq_dec x k) as [->|Hxk]; [right; split; [exact Hnd | now apply Hm6]|].
      destruct (fr_touch _ _ _ _ _ A eq_refl x) as [E1|[N1 D1]].
      + destruct (fr_touch _ _ _ _ _ B' Hok x) as [E2|[N2 D2]].
        * left. rewrite E2, H6other, E1 by assumption. now rewrite H0mem.
        * right. split; [|exact D2]. intros C. apply N2. apply Hd46; [assumption|]. apply Hm04. now apply Hd0.
      + right. split; [intros C; apply N1; now apply Hd0|]. apply Hm6. now apply Hd46.
Qed.

Lemma run_frame : forall k stack r s, ~ done s k -> ~ In k stack ->
  frame stack s k (run rules env F order ens k stack r s).
Proof.
  intros k stack r s Hnd Hns.
  destruct (run_cases rules env F order ens k stack r s _ eq_refl)
    as [(s4 & slots1 & slots3 & GA & GB) | (Hno & ks & GA)];
    set (o := run rules env F order ens k stack r s) in *; clearbody o.
  2:{ (* stopped before the task completed *)
    split; [|intros s' ->; exfalso; now apply (Hno s')].
    destruct (seg_frame _ _ _ _ GA) as [A _].
    destruct o as [s'|s' p|]; [exfalso; now apply (Hno s') | | exact I].
    cbn [frame_o] in *. set (lA := new_log (run_pre rules k r s) s') in *. clearbody lA.
    eapply frame_new_log with (l := lA ++ run_pre_log rules k r).
    destruct A. constructor.
    - rewrite fr_log0, run_pre_log_eq. now rewrite app_assoc.
    - now rewrite fr_epoch0, run_pre_epoch.
    - now rewrite fr_dbepoch0, run_pre_dbepoch.
    - intros x Hx. rewrite fr_frozen0; [now rewrite run_pre_mem|]. unfold done. now rewrite run_pre_mem, run_pre_epoch.
    - intros x Hx. rewrite fr_stack0; [now rewrite run_pre_mem | now right].
    - intros x Hx. apply fr_flag0 in Hx. unfold flagged in *. now rewrite run_pre_flag in Hx.
    - intros x Hx. rewrite creates_app, in_app_iff in Hx. rewrite fr_flag_keep0 by tauto. unfold flagged. now rewrite run_pre_flag.
    - intros x Hx. rewrite creates_app, in_app_iff in Hx. rewrite fr_db_keep0 by tauto. now rewrite run_pre_db.
    - rewrite creates_app, run_pre_creates. apply NoDup_app_intro; [exact fr_nodup0 | repeat constructor; intros [] |].
      intros x Hx [E|[]]. subst x. destruct (fr_fresh0 k Hx) as [_ Q]. apply Q. now left.
    - intros x Hx. rewrite creates_app, run_pre_creates, in_app_iff in Hx. destruct Hx as [Hx|[<-|[]]]; [|tauto].
      destruct (fr_fresh0 x Hx) as [P Q]. split.
      + intros C. apply P. unfold done. now rewrite run_pre_mem, run_pre_epoch.
      + intros C. apply Q. now right.
    - intros; discriminate.
    - intros; discriminate. }
  (* the task completed; discovered dependencies follow *)
  destruct (seg_frame _ _ _ _ GA) as [A _]. destruct (seg_frame _ _ _ _ GB) as [B _].
  cbn [frame_o] in A.
  set (s0 := run_pre rules k r s) in *. set (lA := new_log s0 s4) in *. clearbody lA.
  set (bk := branch_keys (rules k) slots1) in *. set (v := task_value rules env F k (rules k) slots1 slots3) in *.
  set (s6 := complete order (emit s4 (EAvail k)) k (rules k) r bk v) in *.
  assert (Main : forall s' ok lB, frame_st (k :: stack) s6 s' ok lB ->
            frame_st stack s s' ok (lB ++ [EComplete k v; EAvail k] ++ lA ++ run_pre_log rules k r) /\ done s' k)
    by (intros s' ok lB B'; eapply run_frame_main; eassumption).
  destruct o as [s'|s' p|]; cbn [frame_o] in B.
  - destruct (Main _ _ _ B) as [M1 M2]. split; [cbn [frame_o]; eapply frame_new_log; exact M1|].
    intros s'' E. inversion E. subst s''. exact M2.
  - destruct (Main _ _ _ B) as [M1 M2]. split; [cbn [frame_o]; eapply frame_new_log; exact M1|]. intros ? ?; discriminate.
  - split; [exact I | intros ? ?; discriminate].
Qed.

Lemma scan_frame : forall k stack r ds s, ~ done s k -> ~ In k stack ->
  frame stack s k (scan rules env F order ens k stack r ds s).
Proof.
  intros k stack r ds. induction ds as [|d ds IH]; intros s Hnd Hns; cbn [scan].
  - set (r' := mkRes (res_value r) (res_sig r) (res_computedAt r) (st_epoch s) (res_deps r)).
    assert (Hk : done (set_mem s k r') k) by (unfold done; cbn [set_mem st_mem st_epoch]; now rewrite get_update_same).
    split; [|intros s' E; inversion E; subst s'; exact Hk].
    cbn [frame_o]. eapply frame_new_log with (l := []).
    assert (Hget : forall x, x <> k -> get (st_mem (set_mem s k r')) x = get (st_mem s) x)
      by (intros x Hx; cbn [set_mem st_mem]; now apply get_update_other).
    constructor; cbn [creates In]; try reflexivity; try tauto; try (now constructor).
    + intros x Hx. apply Hget. intros ->. tauto.
    + intros x Hx. apply Hget. intros ->. tauto.
    + intros _ x. destruct (N.eq_dec x k) as [->|Hx]; [right; now split | left; now apply Hget].
  - destruct (Hens (k :: stack) s (d_key d)) as [A B].
    destruct (ens (k :: stack) s (d_key d)) as [s1|s1 p|] eqn:E.
    + cbn [frame_o] in A.
      assert (Hnd1 : ~ done s1 k).
      { unfold done. rewrite (fr_stack _ _ _ _ _ A k) by now left. rewrite (fr_epoch _ _ _ _ _ A). exact Hnd. }
      apply frame_weaken_stack in A.
      assert (G : forall o, frame stack s1 k o -> frame stack s k o).
      { intros o [G1 G2]. split; [|exact G2]. eapply frame_o_trans; [exact A | exact G1]. }
      destruct (negb (d_order d) && (res_builtAt r <? res_computedAt (get (st_mem s1) (d_key d)))).
      * apply G. set (s2 := emit s1 (ENeed k InputRebuilt (Some (d_key d)))).
        assert (R : frame stack s2 k (run rules env F order ens k stack r s2)) by (apply run_frame; assumption).
        destruct R as [R1 R2]. split; [|exact R2]. eapply frame_o_trans; [|exact R1]. now apply frame_emit.
      * apply G. now apply IH.
    + split; [eapply frame_o_weaken_stack; exact A | intros ? ?; discriminate].
    + split; [exact I | intros ? ?; discriminate].
Qed.

Lemma ensure_body_frame : forall stack s k, frame stack s k (ensure_body rules env F order ens stack s k).
Proof.
  intros stack s k. unfold ensure_body.
  destruct (existsb (N.eqb k) stack) eqn:Est.
  { split; [|intros ? ?; discriminate]. cbn [frame_o]. eapply frame_new_log. apply frame_refl. }
  assert (Hns : ~ In k stack).
  { intros C. assert (existsb (N.eqb k) stack = true); [|congruence].
    apply existsb_exists. exists k. split; [exact C | apply N.eqb_refl]. }
  destruct (N.eqb (res_builtAt (get (st_mem s) k)) (st_epoch s)) eqn:Ed.
  { apply N.eqb_eq in Ed. split; [|intros s' E; inversion E; subst s'; exact Ed].
    cbn [frame_o]. eapply frame_new_log. apply frame_refl. }
  assert (Hnd : ~ done s k) by (now apply N.eqb_neq in Ed).
  set (r0 := get (st_mem s) k) in *.
  set (r := mkRes (res_value r0) (res_sig r0) (res_computedAt r0) (res_builtAt r0) (drop_single (res_deps r0))).
  set (s1 := set_mem s k r).
  assert (Hnd1 : ~ done s1 k) by (unfold done, s1; cbn [set_mem st_mem st_epoch]; now rewrite get_update_same).
  assert (G : forall e o, creates [e] = [] -> frame stack (emit s1 e) k o -> frame stack s k o).
  { intros e o He [G1 G2]. split; [|exact G2].
    assert (G3 : frame_o stack s1 o) by (eapply frame_o_trans; [apply frame_emit; exact He | exact G1]).
    destruct o as [s'|s' p|]; cbn [frame_o] in *; [| |exact I]; eapply frame_new_log;
      eapply frame_set_mem_pre with (k := k) (r := r); try reflexivity; try assumption; try exact G3.
    - intros _. now apply G2.
    - intros; discriminate. }
  fold r. fold s1.
  destruct (N.eqb (res_builtAt r) 0).
  { eapply G; [|apply run_frame; [exact Hnd1 | exact Hns]]. reflexivity. }
  destruct (flagged s1 k).
  { eapply G; [|apply run_frame; [exact Hnd1 | exact Hns]]. reflexivity. }
  destruct (negb (N.eqb (r_sig (rules k)) (res_sig r))).
  { eapply G; [|apply run_frame; [exact Hnd1 | exact Hns]]. reflexivity. }
  destruct (negb (valid rules env k r)).
  { eapply G with (e := EValid k false); [reflexivity|].
    set (s2 := emit s1 (EValid k false)).
    assert (R : frame stack (emit s2 (ENeed k InvalidValue None)) k
                  (run rules env F order ens k stack r (emit s2 (ENeed k InvalidValue None))))
      by (apply run_frame; [exact Hnd1 | exact Hns]).
    destruct R as [R1 R2]. split; [|exact R2]. eapply frame_o_trans; [|exact R1]. now apply frame_emit. }
  eapply G; [|apply scan_frame; [exact Hnd1 | exact Hns]]. reflexivity.
Qed.

End Frame.

(* ---------- lifted to ensure ---------- *)

Section Lift.
Variable rules : key -> rule.
Variable env : key -> N.
Variable F : key -> N -> list value -> list N -> N -> N.
Variable order : N -> key -> list dep -> list dep.

Theorem ensure_frame : forall fuel stack s k, frame stack s k (ensure rules env F order fuel stack s k).
Proof.
  induction fuel as [|f IH]; intros stack s k; cbn [ensure].
  - split; [exact I | intros ? ?; discriminate].
  - apply ensure_body_frame. exact IH.
Qed.

End Lift.
