(* ImplGen.v: the first-stage invariant Inv is preserved by the steps under ANY queue discipline.  Method: a step at position i of a
   queue is the head step of the state whose queue has the picked element moved to the front; Inv does not depend on the order of
   the queues (counts, Forall, In, NoDup). *)
From LLB Require Import Engine.Rules Engine.Spec Engine.Impl Engine.ImplProofs Engine.ImplProofsSticky Engine.ImplProofsInv Engine.ImplProofsInv2
  Engine.ImplProofsInv3 Engine.ImplProofsInv9 Engine.ImplGen Engine.ImplGenProofs.
From Coq Require Import List NArith Arith Lia Permutation.
Import ListNotations.

Lemma pick_perm {A} (l : list A) : forall i x r, pick i l = Some (x, r) -> Permutation l (x :: r).
Proof.
  induction l as [|y l IH]; intros i x r H; cbn [pick] in H; [discriminate|]. destruct i.
  - inversion H. subst. apply Permutation_refl.
  - destruct (pick i l) as [[z r']|] eqn:E; [|discriminate]. inversion H. subst. apply (IH i x r') in E.
    eapply Permutation_trans; [apply perm_skip; exact E|apply perm_swap].
Qed.
Lemma filter_length_perm {A} (f : A -> bool) l l' : Permutation l l' -> length (filter f l) = length (filter f l').
Proof. intros H. induction H; cbn [filter]; auto; try congruence; repeat (destruct (f _)); cbn [length]; congruence. Qed.
Lemma cnt_i_perm t l l' : Permutation l l' -> cnt_i t l = cnt_i t l'. Proof. apply filter_length_perm. Qed.
Lemma cnt_s_perm k l l' : Permutation l l' -> cnt_s k l = cnt_s k l'. Proof. apply filter_length_perm. Qed.

Section Perm.
Variable rules : key -> rule.

Lemma Forall_perm {A} (P : A -> Prop) l l' : Permutation l l' -> Forall P l -> Forall P l'.
Proof. intros Hp H. rewrite Forall_forall in *. intros x Hx. apply H. apply Permutation_sym in Hp. now apply (Permutation_in x Hp). Qed.

Lemma Inv_perm_toscan c s l : Inv rules c s -> Permutation (is_toscan s) l -> Inv rules c (upd_toscan s l).
Proof.
  intros (Hn & HT & HI & [C1 C2 C3 C4 C5 C6 C7 C8]) Hp. split; [exact Hn|]. split; [now apply InvT_upd_toscan|]. split; [now apply InvI_upd_toscan|].
  constructor.
  - intros k. change (kind_of (upd_toscan s l) k) with (kind_of s k). rewrite <- (C1 k). unfold scan_count. autorewrite with iv. now rewrite (cnt_s_perm k _ _ Hp).
  - exact C2.
  - change (Forall (sreq_ok s) l). now apply (Forall_perm _ _ _ Hp).
  - exact C4.
  - exact C5.
  - exact C6.
  - exact C7.
  - exact C8.
Qed.
Lemma Inv_perm_inreq c s l : Inv rules c s -> Permutation (is_inreq s) l -> Inv rules c (upd_inreq s l).
Proof.
  intros (Hn & HT & [B1 B2 B3 B4 B5 B6 B7 B8 B9 B10] & HS) Hp. split; [exact Hn|]. split; [now apply InvT_upd_inreq|]. split; [|now apply InvS_upd_inreq].
  constructor.
  - intros t ti Hg. rewrite (B1 t ti Hg). unfold outstanding_count. autorewrite with iv. now rewrite (cnt_i_perm t _ _ Hp).
  - exact B2.
  - change (Forall (ireq_ok rules s) l). now apply (Forall_perm _ _ _ Hp).
  - exact B4.
  - exact B5.
  - exact B6.
  - exact B7.
  - exact B8.
  - exact B9.
  - exact B10.
Qed.
Lemma Inv_perm_fininreq c s l : Inv rules c s -> Permutation (is_fininreq s) l -> Inv rules c (upd_fininreq s l).
Proof.
  intros (Hn & HT & [B1 B2 B3 B4 B5 B6 B7 B8 B9 B10] & HS) Hp. split; [exact Hn|]. split; [now apply InvT_upd_fininreq|]. split; [|now apply InvS_upd_fininreq].
  assert (Hin : forall x, In x l -> In x (is_fininreq s)) by (intros x Hx; apply Permutation_sym in Hp; now apply (Permutation_in x Hp)).
  constructor.
  - intros t ti Hg. rewrite (B1 t ti Hg). unfold outstanding_count. autorewrite with iv. now rewrite (cnt_i_perm t _ _ Hp).
  - exact B2.
  - exact B3.
  - exact B4.
  - exact B5.
  - change (Forall (ireq_ok rules s) l). now apply (Forall_perm _ _ _ Hp).
  - exact B7.
  - exact B8.
  - exact B9.
  - intros x Hx. now apply B10, Hin.
Qed.
Lemma Inv_perm_ready c s l : Inv rules c s -> Permutation (is_ready s) l -> Inv rules c (upd_ready s l).
Proof.
  intros (Hn & [A1 A2 A3 A4 A5 A6 A7 A8 A9 A10 A11] & HI & HS) Hp. split; [exact Hn|]. split; [|split; [now apply InvI_upd_ready|now apply InvS_upd_ready]].
  assert (Hin : forall x, In x l <-> In x (is_ready s)) by (intros x; split; intros Hx; [apply Permutation_sym in Hp|]; now apply (Permutation_in x Hp)).
  constructor.
  - exact A1.
  - exact A2.
  - now apply (Permutation_NoDup Hp).
  - exact A4.
  - exact A5.
  - exact A6.
  - intros t Ht. now apply A7, Hin.
  - intros t ti Hg Hk Hw. destruct (A8 t ti Hg Hk Hw) as [H|H]; [left; now apply Hin|now right].
  - exact A9.
  - exact A10.
  - exact A11.
Qed.
Lemma Inv_perm_fintasks c s l : Inv rules c s -> Permutation (is_fintasks s) l -> Inv rules c (upd_fintasks s l).
Proof.
  intros (Hn & [A1 A2 A3 A4 A5 A6 A7 A8 A9 A10 A11] & HI & HS) Hp. split; [exact Hn|]. split; [|split; [now apply InvI_upd_fintasks|now apply InvS_upd_fintasks]].
  assert (Hin : forall x, In x l <-> In x (is_fintasks s)) by (intros x; split; intros Hx; [apply Permutation_sym in Hp|]; now apply (Permutation_in x Hp)).
  constructor.
  - exact A1.
  - exact A2.
  - exact A3.
  - now apply (Permutation_NoDup Hp).
  - exact A5.
  - exact A6.
  - exact A7.
  - exact A8.
  - intros t Ht. now apply A9, Hin.
  - intros t ti Hg Hpd. destruct (A10 t ti Hg Hpd) as [H1 H2]. split; auto. intros H. apply H2. now apply Hin.
  - exact A11.
Qed.
End Perm.

Section Steps.
Variable rules : key -> rule.
Variable env : key -> N.
Variable F : key -> N -> list value -> list N -> N -> N.
Variable ord : key -> list rkind.
Variable syncp : key -> bool.

(* [qperm s sp]: sp is s with one of its five queues permuted *)
Inductive qperm (s : istate) : istate -> Prop :=
| qp_toscan l : Permutation (is_toscan s) l -> qperm s (upd_toscan s l)
| qp_inreq l : Permutation (is_inreq s) l -> qperm s (upd_inreq s l)
| qp_fininreq l : Permutation (is_fininreq s) l -> qperm s (upd_fininreq s l)
| qp_ready l : Permutation (is_ready s) l -> qperm s (upd_ready s l)
| qp_fintasks l : Permutation (is_fintasks s) l -> qperm s (upd_fintasks s l).

(* a step at any position is the head step of a state with the picked element moved to the front *)
Lemma mstep_gen_head s s' : mstep_gen rules env F ord syncp s s' -> exists sp, (sp = s \/ qperm s sp) /\ mstep rules env F ord syncp sp s'.
Proof.
  intros H. destruct H as [s t|s i H|s i H|s i H|s i H|s i H].
  - exists s. split; [now left|apply ms_finish].
  - destruct (pick i (is_toscan s)) as [[rq rest]|] eqn:E; [|contradiction]. exists (upd_toscan s (rq :: rest)). split; [right; apply qp_toscan; eapply pick_perm; eauto|].
    unfold step_scan_at. rewrite E. apply (ms_scan rules env F ord syncp (upd_toscan s (rq :: rest))).
  - destruct (pick i (is_inreq s)) as [[rq rest]|] eqn:E; [|contradiction]. exists (upd_inreq s (rq :: rest)). split; [right; apply qp_inreq; eapply pick_perm; eauto|].
    unfold step_inreq_at. rewrite E. apply (ms_inreq rules env F ord syncp (upd_inreq s (rq :: rest))).
  - destruct (pick i (is_fininreq s)) as [[rq rest]|] eqn:E; [|contradiction]. exists (upd_fininreq s (rq :: rest)). split; [right; apply qp_fininreq; eapply pick_perm; eauto|].
    unfold step_fininreq_at. rewrite E. apply (ms_fininreq rules env F ord syncp (upd_fininreq s (rq :: rest))).
  - destruct (pick i (is_ready s)) as [[t rest]|] eqn:E; [|contradiction]. exists (upd_ready s (t :: rest)). split; [right; apply qp_ready; eapply pick_perm; eauto|].
    unfold step_ready_at. rewrite E. apply (ms_ready rules env F ord syncp (upd_ready s (t :: rest))).
  - destruct (pick i (is_fintasks s)) as [[t rest]|] eqn:E; [|contradiction]. exists (upd_fintasks s (t :: rest)). split; [right; apply qp_fintasks; eapply pick_perm; eauto|].
    unfold step_fintask_at. rewrite E. apply (ms_fintask rules env F ord syncp (upd_fintasks s (t :: rest))).
Qed.

Lemma Inv_qperm c s sp : qperm s sp -> Inv rules c s -> Inv rules c sp.
Proof. intros H HI. destruct H; [now apply Inv_perm_toscan|now apply Inv_perm_inreq|now apply Inv_perm_fininreq|now apply Inv_perm_ready|now apply Inv_perm_fintasks]. Qed.

Lemma Inv_mstep_gen s s' : mstep_gen rules env F ord syncp s s' -> Inv rules ctx0 s -> Inv rules ctx0 s'.
Proof.
  intros H HI. destruct (mstep_gen_head s s' H) as (sp & [->|Hq] & Hs); [|apply (Inv_qperm ctx0 s sp Hq) in HI]; eapply Inv_mstep; eauto.
Qed.
Lemma Inv_msteps_gen s s' : msteps_gen rules env F ord syncp s s' -> Inv rules ctx0 s -> Inv rules ctx0 s'.
Proof. induction 1; auto. intros HI. eapply Inv_mstep_gen; eauto. Qed.
Lemma in_build_gen_Inv s0 root s : in_build_gen rules env F ord syncp s0 root s -> Inv rules ctx0 s.
Proof. intros [Q M]. eapply Inv_msteps_gen; eauto. now apply Inv_start. Qed.

(* no assert of the code fails, whatever the queue discipline *)
Theorem no_fault_gen s0 root s : in_build_gen rules env F ord syncp s0 root s -> is_fault s = None.
Proof. intros H. exact (proj1 (in_build_gen_Inv s0 root s H)). Qed.
End Steps.
