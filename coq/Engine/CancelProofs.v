(* C05 - proofs about cancellation (Cancel.v), part 1: a monadic view of the step functions of Spec.v and a generic
   lifting of any reflexive-transitive state relation preserved by the primitive updates to `ensure_body`,
   hence to `ensure` and `ensure_c`. *)
From LLB Require Import Engine.Rules Engine.Spec Engine.Exec Engine.Cancel.
From Coq Require Import List NArith Bool Lia Arith.
Local Open Scope N_scope.

(* ---------- sequencing of outcomes ---------- *)

Definition bind1 (o : outcome) (f : state -> outcome) : outcome :=
  match o with Ok s => f s | other => other end.

Definition bind2 {A : Type} (p : outcome * A) (f : state -> A -> outcome) : outcome :=
  match fst p with Ok s => f s (snd p) | other => other end.

Section View.
Variable rules : key -> rule.
Variable env : key -> N.
Variable F : key -> N -> list value -> list N -> N -> N.
Variable order : N -> key -> list dep -> list dep.
Variable ens : list key -> state -> key -> outcome.

Definition run_pre (k : key) (r : result) (s : state) : state :=
  let s := emit (emit s (ECreate k)) (EStart k) in
  if negb (N.eqb (res_builtAt r) 0) && N.eqb (r_sig (rules k)) (res_sig r) then emit s (EPrior k (res_value r)) else s.

Lemma follows_cons : forall k stack x ks s,
  follows ens k stack (x :: ks) s = bind1 (ens (k :: stack) s x) (fun s1 => follows ens k stack ks s1).
Proof. intros. cbn [follows]. unfold bind1. destruct (ens (k :: stack) s x); reflexivity. Qed.

Lemma scan_cons : forall k stack r d ds s,
  scan rules env F order ens k stack r (d :: ds) s =
  bind1 (ens (k :: stack) s (d_key d)) (fun s1 =>
    if negb (d_order d) && (res_builtAt r <? res_computedAt (get (st_mem s1) (d_key d)))
    then run rules env F order ens k stack r (emit s1 (ENeed k InputRebuilt (Some (d_key d))))
    else scan rules env F order ens k stack r ds s1).
Proof. intros. cbn [scan]. unfold bind1. destruct (ens (k :: stack) s (d_key d)); reflexivity. Qed.

Lemma run_bind : forall k stack r s,
  run rules env F order ens k stack r s =
  bind2 (requests ens k stack (r_req (rules k)) 0%nat (run_pre k r s) []) (fun s1 slots1 =>
  bind2 (requests ens k stack (r_single (rules k)) (length slots1) s1 []) (fun s2 slots2 =>
  bind1 (follows ens k stack (r_follow (rules k)) s2) (fun s3 =>
  bind2 (requests ens k stack (branch_keys (rules k) slots1) (length slots1 + length slots2)%nat s3 []) (fun s4 slots3 =>
  follows ens k stack (r_disc (rules k))
    (complete order (emit s4 (EAvail k)) k (rules k) r (branch_keys (rules k) slots1)
              (task_value rules env F k (rules k) slots1 slots3)))))).
Proof.
  intros. unfold run. fold (run_pre k r s). unfold bind2, bind1.
  destruct (requests ens k stack (r_req (rules k)) 0 (run_pre k r s) []) as [o1 slots1]. cbn [fst snd].
  destruct o1 as [s1| |]; try reflexivity.
  destruct (requests ens k stack (r_single (rules k)) (length slots1) s1 []) as [o2 slots2]. cbn [fst snd].
  destruct o2 as [s2| |]; try reflexivity.
  destruct (follows ens k stack (r_follow (rules k)) s2) as [s3| |]; try reflexivity.
  destruct (requests ens k stack (branch_keys (rules k) slots1) (length slots1 + length slots2) s3 []) as [o4 slots3].
  cbn [fst snd]. destruct o4; reflexivity.
Qed.

End View.

(* ---------- generic lifting ---------- *)

(* events that carry no decision, creation or completion *)
Definition quiet_ev (e : event) : Prop :=
  match e with EStart _ | EPrior _ _ | EProvide _ _ _ _ | EAvail _ | EValid _ _ => True | _ => False end.

Lemma existsb_eqb_false : forall k (l : list key), existsb (N.eqb k) l = false -> ~ In k l.
Proof.
  intros k l H Hin. assert (E : existsb (N.eqb k) l = true).
  { apply existsb_exists. exists k. split; [exact Hin | apply N.eqb_refl]. }
  rewrite E in H. discriminate.
Qed.

Section Lift.
Variable rules : key -> rule.
Variable env : key -> N.
Variable F : key -> N -> list value -> list N -> N -> N.
Variable order : N -> key -> list dep -> list dep.

(* R stack s s': s' is reachable from s while the keys of [stack] are being brought up to date *)
Variable R : list key -> state -> state -> Prop.
Hypothesis R_refl : forall st s, R st s s.
Hypothesis R_trans : forall st s1 s2 s3, R st s1 s2 -> R st s2 s3 -> R st s1 s3.
Hypothesis R_weaken : forall k st s s', R (k :: st) s s' -> R st s s'.
Hypothesis R_quiet : forall st s e, quiet_ev e -> R st s (emit s e).
Hypothesis R_create : forall st s k, ~ In k st -> R st s (emit s (ECreate k)).
Hypothesis R_need : forall st s k rs inp, ~ In k st -> (rs = Forced -> flagged s k = true) -> R st s (emit s (ENeed k rs inp)).
Hypothesis R_set_mem : forall st s k r, ~ In k st -> R st s (set_mem s k r).
Hypothesis R_complete : forall st s k r bk v, ~ In k st -> R st s (complete order s k (rules k) r bk v).

Definition outcome_R (st : list key) (s : state) (o : outcome) : Prop :=
  match o with Ok s' | Cycle s' _ => R st s s' | OutOfFuel => True end.

Lemma outcome_R_trans : forall st s s1 o, R st s s1 -> outcome_R st s1 o -> outcome_R st s o.
Proof. intros st s s1 o H1 H2. destruct o; cbn [outcome_R] in *; eauto. Qed.

Lemma outcome_R_weaken : forall k st s o, outcome_R (k :: st) s o -> outcome_R st s o.
Proof. intros k st s o H. destruct o; cbn [outcome_R] in *; eauto. Qed.

Lemma bind1_R : forall st s o f, outcome_R st s o -> (forall s1, o = Ok s1 -> outcome_R st s1 (f s1)) ->
  outcome_R st s (bind1 o f).
Proof.
  intros st s o f Ho Hf. destruct o as [s1|s1 p|]; cbn [bind1]; [|exact Ho|exact I].
  eapply outcome_R_trans; [exact Ho | apply Hf; reflexivity].
Qed.

Lemma bind2_R : forall (A : Type) st s (p : outcome * A) f, outcome_R st s (fst p) ->
  (forall s1, fst p = Ok s1 -> outcome_R st s1 (f s1 (snd p))) -> outcome_R st s (bind2 p f).
Proof.
  intros A st s [o a] f Ho Hf. unfold bind2. cbn [fst snd] in *. destruct o as [s1|s1 p|]; [|exact Ho|exact I].
  eapply outcome_R_trans; [exact Ho | apply Hf; reflexivity].
Qed.

Section Step.
Variable ens : list key -> state -> key -> outcome.
Hypothesis Hens : forall st s k, outcome_R st s (ens st s k).

Lemma requests_R : forall k stack ks slot s acc,
  outcome_R stack s (fst (requests ens k stack ks slot s acc)).
Proof.
  intros k stack ks. induction ks as [|x t IH]; intros slot s acc; cbn [requests].
  - cbn [fst outcome_R]. apply R_refl.
  - pose proof (outcome_R_weaken _ _ _ _ (Hens (k :: stack) s x)) as H.
    destruct (ens (k :: stack) s x) as [s1|s1 p|]; cbn [fst]; [|exact H|exact I].
    eapply outcome_R_trans; [exact H|]. eapply outcome_R_trans; [|apply IH].
    apply R_quiet. exact I.
Qed.

Lemma follows_R : forall k stack ks s, outcome_R stack s (follows ens k stack ks s).
Proof.
  intros k stack ks. induction ks as [|x t IH]; intros s.
  - cbn [follows outcome_R]. apply R_refl.
  - rewrite follows_cons. apply bind1_R; [apply outcome_R_weaken with (k := k); apply Hens|].
    intros s1 _. apply IH.
Qed.

Lemma run_pre_R : forall k stack r s, ~ In k stack -> R stack s (run_pre rules k r s).
Proof.
  intros k stack r s Hk. unfold run_pre.
  assert (H1 : R stack s (emit (emit s (ECreate k)) (EStart k))).
  { eapply R_trans; [apply R_create; exact Hk | apply R_quiet; exact I]. }
  destruct (negb (N.eqb (res_builtAt r) 0) && N.eqb (r_sig (rules k)) (res_sig r)); [|exact H1].
  eapply R_trans; [exact H1 | apply R_quiet; exact I].
Qed.

Lemma run_R : forall k stack r s, ~ In k stack -> outcome_R stack s (run rules env F order ens k stack r s).
Proof.
  intros k stack r s Hk. rewrite run_bind. eapply outcome_R_trans; [apply run_pre_R; exact Hk|].
  apply bind2_R; [apply requests_R|]. intros s1 _.
  apply bind2_R; [apply requests_R|]. intros s2 _.
  apply bind1_R; [apply follows_R|]. intros s3 _.
  apply bind2_R; [apply requests_R|]. intros s4 _.
  eapply outcome_R_trans; [|apply follows_R].
  eapply R_trans; [apply (R_quiet stack s4 (EAvail k)); exact I | apply R_complete; exact Hk].
Qed.

Lemma scan_R : forall k stack r ds s, ~ In k stack ->
  outcome_R stack s (scan rules env F order ens k stack r ds s).
Proof.
  intros k stack r ds. induction ds as [|d t IH]; intros s Hk.
  - cbn [scan outcome_R]. apply R_set_mem. exact Hk.
  - rewrite scan_cons. apply bind1_R; [apply outcome_R_weaken with (k := k); apply Hens|].
    intros s1 _.
    destruct (negb (d_order d) && (res_builtAt r <? res_computedAt (get (st_mem s1) (d_key d)))).
    + eapply outcome_R_trans; [|apply run_R; exact Hk].
      apply R_need; [exact Hk|]. unfold InputRebuilt, Forced. intros H. discriminate H.
    + apply IH. exact Hk.
Qed.

Lemma ensure_body_R : forall stack s k, outcome_R stack s (ensure_body rules env F order ens stack s k).
Proof.
  intros stack s k. unfold ensure_body.
  destruct (existsb (N.eqb k) stack) eqn:Est; [cbn [outcome_R]; apply R_refl|].
  pose proof (existsb_eqb_false _ _ Est) as Hk.
  destruct (N.eqb (res_builtAt (get (st_mem s) k)) (st_epoch s)); [cbn [outcome_R]; apply R_refl|].
  cbn [res_builtAt res_sig].
  set (r := mkRes _ _ _ _ _).
  pose proof (R_set_mem stack s k r Hk) as Hm.
  destruct (N.eqb (res_builtAt (get (st_mem s) k)) 0).
  { eapply outcome_R_trans; [|apply run_R; exact Hk]. eapply R_trans; [exact Hm|].
    apply R_need; [exact Hk|]. unfold NeverBuilt, Forced. intros H. discriminate H. }
  destruct (flagged (set_mem s k r) k) eqn:Efl.
  { eapply outcome_R_trans; [|apply run_R; exact Hk]. eapply R_trans; [exact Hm|].
    apply R_need; [exact Hk|]. intros _. exact Efl. }
  destruct (negb (N.eqb (r_sig (rules k)) (res_sig (get (st_mem s) k)))).
  { eapply outcome_R_trans; [|apply run_R; exact Hk]. eapply R_trans; [exact Hm|].
    apply R_need; [exact Hk|]. unfold SignatureChanged, Forced. intros H. discriminate H. }
  destruct (negb (valid rules env k r)).
  { eapply outcome_R_trans; [|apply run_R; exact Hk]. eapply R_trans; [exact Hm|].
    eapply R_trans; [apply (R_quiet stack (set_mem s k r) (EValid k false)); exact I|].
    apply R_need; [exact Hk|]. unfold InvalidValue, Forced. intros H. discriminate H. }
  eapply outcome_R_trans; [|apply scan_R; exact Hk]. eapply R_trans; [exact Hm|]. apply R_quiet. exact I.
Qed.

End Step.

Theorem ensure_R : forall fuel st s k, outcome_R st s (ensure rules env F order fuel st s k).
Proof.
  induction fuel as [|f IH]; intros st s k; cbn [ensure]; [exact I|]. apply ensure_body_R. exact IH.
Qed.

Theorem ensure_c_R : forall n base fuel st s k, outcome_R st s (ensure_c rules env F order n base fuel st s k).
Proof.
  intros n base. induction fuel as [|f IH]; intros st s k; cbn [ensure_c]; [exact I|].
  destruct (budget_reached n base s); [cbn [outcome_R]; apply R_refl|]. apply ensure_body_R. exact IH.
Qed.

End Lift.

(* ---------- small facts ---------- *)

Lemma cget_update_same : forall m k r, get (update m k r) k = r.
Proof.
  intros m k r. unfold get. induction m as [|[k' r'] t IH]; cbn [update lookup].
  - now rewrite N.eqb_refl.
  - destruct (N.eqb k k') eqn:E; cbn [lookup]; [now rewrite N.eqb_refl | rewrite E; exact IH].
Qed.

Lemma cget_update_other : forall m k x r, x <> k -> get (update m k r) x = get m x.
Proof.
  intros m k x r Hx. unfold get. induction m as [|[k' r'] t IH]; cbn [update lookup].
  - apply N.eqb_neq in Hx. now rewrite Hx.
  - destruct (N.eqb k k') eqn:E; cbn [lookup].
    + apply N.eqb_eq in E. subst k'. apply N.eqb_neq in Hx. now rewrite Hx.
    + destruct (N.eqb x k'); [reflexivity | exact IH].
Qed.

Lemma flagged_unflag_c : forall s k x, flagged (unflag s k) x = flagged s x && negb (N.eqb k x).
Proof.
  intros s k x. unfold flagged, unflag. cbn [st_flag]. induction (st_flag s) as [|y t IH]; [reflexivity|].
  cbn [filter existsb]. destruct (N.eqb y k) eqn:Eyk; cbn [negb existsb].
  - rewrite IH. apply N.eqb_eq in Eyk. subst y. rewrite (N.eqb_sym x k).
    destruct (N.eqb k x); cbn [orb negb]; [now rewrite !andb_false_r | now rewrite !andb_true_r].
  - rewrite IH. destruct (N.eqb x y) eqn:Exy; cbn [orb]; [|reflexivity].
    apply N.eqb_eq in Exy. subst y. rewrite (N.eqb_sym k x), Eyk. reflexivity.
Qed.

Lemma completed_in_app : forall l1 l2 x, completed_in (l1 ++ l2) x = completed_in l1 x || completed_in l2 x.
Proof. intros. unfold completed_in. apply existsb_app. Qed.

Lemma completed_in_true : forall l x, completed_in l x = true <-> exists v, In (EComplete x v) l.
Proof.
  intros l x. unfold completed_in. rewrite existsb_exists. split.
  - intros [e [Hin He]]. destruct e; cbn [is_complete] in He; try discriminate.
    apply N.eqb_eq in He. subst. eexists. exact Hin.
  - intros [v Hin]. exists (EComplete x v). split; [exact Hin|]. cbn [is_complete]. apply N.eqb_refl.
Qed.

Lemma completed_in_false : forall l x v, completed_in l x = false -> ~ In (EComplete x v) l.
Proof.
  intros l x v H Hin. assert (E : completed_in l x = true) by (apply completed_in_true; eauto).
  rewrite E in H. discriminate.
Qed.

(* ---------- the invariant of one (possibly aborted) traversal ---------- *)

Section Inv.
Variable rules : key -> rule.
Variable order : N -> key -> list dep -> list dep.

(* the database row written by the completion of x with value v in epoch e *)
Definition row_of_completion (e : N) (x : key) (v : value) (row : result) : Prop :=
  res_value row = Some v /\ res_sig row = r_sig (rules x) /\ res_builtAt row = e /\
  exists bk, res_deps row = order e x (requested_deps (rules x) bk) ++ map (fun d => mkDep d false false) (r_disc (rules x)).

Record cinv (st : list key) (s s' : state) (l : list event) : Prop := mkCinv {
  ci_log : st_log s' = l ++ st_log s;
  ci_epoch : st_epoch s' = st_epoch s;
  ci_dbepoch : st_db_epoch s' = st_db_epoch s;
  (* a flag disappears exactly when the key completes *)
  ci_flag : forall x, flagged s' x = flagged s x && negb (completed_in l x);
  (* a database row changes only by a completion, to the result of that completion *)
  ci_db : forall x, get (st_db s') x = get (st_db s) x \/
                    exists v, In (EComplete x v) l /\ row_of_completion (st_epoch s) x v (get (st_db s') x);
  (* reason Forced is only given to flagged keys *)
  ci_forced : forall x inp, In (ENeed x Forced inp) l -> flagged s x = true;
  (* keys being brought up to date are not started again *)
  ci_stack : forall x, In x st -> ~ In (ECreate x) l
}.

Definition cR (st : list key) (s s' : state) : Prop := exists l, cinv st s s' l.

Lemma cR_refl : forall st s, cR st s s.
Proof.
  intros st s. exists []. constructor; cbn [app In completed_in existsb negb]; try reflexivity; try tauto.
  intros x. now rewrite andb_true_r.
Qed.

Lemma cR_trans : forall st s1 s2 s3, cR st s1 s2 -> cR st s2 s3 -> cR st s1 s3.
Proof.
  intros st s1 s2 s3 [l1 H1] [l2 H2]. exists (l2 ++ l1). constructor.
  - rewrite (ci_log _ _ _ _ H2), (ci_log _ _ _ _ H1). now rewrite app_assoc.
  - rewrite (ci_epoch _ _ _ _ H2). apply (ci_epoch _ _ _ _ H1).
  - rewrite (ci_dbepoch _ _ _ _ H2). apply (ci_dbepoch _ _ _ _ H1).
  - intros x. rewrite (ci_flag _ _ _ _ H2), (ci_flag _ _ _ _ H1), completed_in_app.
    destruct (flagged s1 x), (completed_in l1 x), (completed_in l2 x); reflexivity.
  - intros x. destruct (ci_db _ _ _ _ H2 x) as [E2|[v [Hin Hrow]]].
    + rewrite E2. destruct (ci_db _ _ _ _ H1 x) as [E1|[v [Hin Hrow]]]; [now left|].
      right. exists v. split; [apply in_or_app; now right | exact Hrow].
    + right. exists v. split; [apply in_or_app; now left|]. rewrite <- (ci_epoch _ _ _ _ H1). exact Hrow.
  - intros x inp Hin. apply in_app_or in Hin. destruct Hin as [Hin|Hin].
    + pose proof (ci_forced _ _ _ _ H2 x inp Hin) as Hf. rewrite (ci_flag _ _ _ _ H1) in Hf.
      apply andb_true_iff in Hf. apply Hf.
    + apply (ci_forced _ _ _ _ H1 x inp Hin).
  - intros x Hx Hin. apply in_app_or in Hin. destruct Hin as [Hin|Hin].
    + apply (ci_stack _ _ _ _ H2 x Hx Hin).
    + apply (ci_stack _ _ _ _ H1 x Hx Hin).
Qed.

Lemma cR_weaken : forall k st s s', cR (k :: st) s s' -> cR st s s'.
Proof.
  intros k st s s' [l H]. exists l. destruct H. constructor; try assumption.
  intros x Hx. apply ci_stack0. now right.
Qed.

(* a single event that is not a completion: nothing but the log changes *)
Lemma cinv_emit : forall st s e,
  (forall x v, e <> EComplete x v) ->
  (forall x inp, e = ENeed x Forced inp -> flagged s x = true) ->
  (forall x, In x st -> e <> ECreate x) ->
  cinv st s (emit s e) [e].
Proof.
  intros st s e Hc Hf Hs. constructor; cbn [emit st_log st_epoch st_db_epoch st_db app]; try reflexivity.
  - intros x. unfold flagged. cbn [emit st_flag]. unfold completed_in. cbn [existsb].
    assert (E : is_complete x e = false).
    { destruct e; cbn [is_complete]; try reflexivity. destruct (N.eqb k x) eqn:Ek; [|reflexivity].
      exfalso. eapply Hc. reflexivity. }
    rewrite E. cbn [orb negb]. now rewrite andb_true_r.
  - intros x. now left.
  - intros x inp [Hin|[]]. apply (Hf x inp). now symmetry.
  - intros x Hx [Hin|[]]. apply (Hs x Hx). now symmetry.
Qed.

Lemma cR_quiet : forall st s e, quiet_ev e -> cR st s (emit s e).
Proof.
  intros st s e Hq. exists [e]. apply cinv_emit.
  - intros x v E. subst e. exact Hq.
  - intros x inp E. subst e. destruct Hq.
  - intros x _ E. subst e. exact Hq.
Qed.

Lemma cR_create : forall st s k, ~ In k st -> cR st s (emit s (ECreate k)).
Proof.
  intros st s k Hk. exists [ECreate k]. apply cinv_emit.
  - intros x v E. discriminate E.
  - intros x inp E. discriminate E.
  - intros x Hx E. inversion E. subst. contradiction.
Qed.

Lemma cR_need : forall st s k rs inp, ~ In k st -> (rs = Forced -> flagged s k = true) -> cR st s (emit s (ENeed k rs inp)).
Proof.
  intros st s k rs inp _ Hf. exists [ENeed k rs inp]. apply cinv_emit.
  - intros x v E. discriminate E.
  - intros x inp' E. inversion E. subst. apply Hf. reflexivity.
  - intros x Hx E. discriminate E.
Qed.

Lemma cR_set_mem : forall st s k r, ~ In k st -> cR st s (set_mem s k r).
Proof.
  intros st s k r _. exists []. constructor; cbn [set_mem st_log st_epoch st_db_epoch st_db app In]; try reflexivity; try tauto.
  intros x. unfold flagged. cbn [set_mem st_flag completed_in existsb negb]. now rewrite andb_true_r.
Qed.

Lemma cR_complete : forall st s k r bk v, ~ In k st -> cR st s (complete order s k (rules k) r bk v).
Proof.
  intros st s k r bk v _. exists [EComplete k v]. unfold complete.
  constructor; cbn [set_db set_mem unflag emit st_log st_epoch st_db_epoch st_db st_mem app]; try reflexivity.
  - intros x. change (flagged (unflag s k) x = flagged s x && negb (completed_in [EComplete k v] x)).
    rewrite flagged_unflag_c. unfold completed_in. cbn [existsb is_complete]. now rewrite orb_false_r.
  - intros x. destruct (N.eq_dec x k) as [E|E].
    + subst x. right. exists v. split; [now left|]. rewrite cget_update_same.
      unfold row_of_completion. cbn [res_value res_sig res_builtAt res_deps]. repeat split. exists bk. reflexivity.
    + left. apply cget_update_other. exact E.
  - intros x inp [Hin|[]]. discriminate Hin.
  - intros x Hx [Hin|[]]. discriminate Hin.
Qed.

End Inv.

(* ---------- the invariant holds of ensure and ensure_c ---------- *)

Section InvLift.
Variable rules : key -> rule.
Variable env : key -> N.
Variable F : key -> N -> list value -> list N -> N -> N.
Variable order : N -> key -> list dep -> list dep.

Definition inv_o (st : list key) (s : state) (o : outcome) : Prop := outcome_R (cR rules order) st s o.

Theorem ensure_body_inv : forall ens, (forall st s k, inv_o st s (ens st s k)) ->
  forall st s k, inv_o st s (ensure_body rules env F order ens st s k).
Proof.
  intros ens Hens. unfold inv_o in *.
  apply (ensure_body_R rules env F order (cR rules order) (cR_refl rules order) (cR_trans rules order) (cR_weaken rules order)
           (cR_quiet rules order) (cR_create rules order) (cR_need rules order) (cR_set_mem rules order) (cR_complete rules order)).
  exact Hens.
Qed.

Theorem ensure_inv : forall fuel st s k, inv_o st s (ensure rules env F order fuel st s k).
Proof.
  unfold inv_o.
  apply (ensure_R rules env F order (cR rules order) (cR_refl rules order) (cR_trans rules order) (cR_weaken rules order)
           (cR_quiet rules order) (cR_create rules order) (cR_need rules order) (cR_set_mem rules order) (cR_complete rules order)).
Qed.

Theorem ensure_c_inv : forall n base fuel st s k, inv_o st s (ensure_c rules env F order n base fuel st s k).
Proof.
  unfold inv_o.
  apply (ensure_c_R rules env F order (cR rules order) (cR_refl rules order) (cR_trans rules order) (cR_weaken rules order)
           (cR_quiet rules order) (cR_create rules order) (cR_need rules order) (cR_set_mem rules order) (cR_complete rules order)).
Qed.

End InvLift.
