(* C05 - proofs about cancellation (Cancel.v), part 1: a monadic view of the step functions of Spec.v and a generic
   lifting of any reflexive-transitive state relation preserved by the primitive updates to `ensure_body`,
   hence to `ensure` and `ensure_c`. *)
From LLB Require Import Engine.Rules Engine.Spec Engine.Exec Engine.Cancel.
From Coq Require Import List NArith Bool Lia Arith.
Local Open Scope N_scope.

(* ---------- sequencing of outcomes ---------- *)

Definition bind1 (o : outcome) (f : state -> outcome) : outcome :=
  match o with Ok s => f s | other => other end.

Definition bind2 {A : Type} (p : outcome * A) (f : state -> A -> outcome) : outcome :=
  match fst p with Ok s => f s (snd p) | other => other end.

Section View.
Variable rules : key -> rule.
Variable env : key -> N.
Variable F : key -> N -> list value -> list N -> N -> N.
Variable order : N -> key -> list dep -> list dep.
Variable ens : list key -> state -> key -> outcome.

Definition run_pre (k : key) (r : result) (s : state) : state :=
  let s := emit (emit s (ECreate k)) (EStart k) in
  if negb (N.eqb (res_builtAt r) 0) && N.eqb (r_sig (rules k)) (res_sig r) then emit s (EPrior k (res_value r)) else s.

Lemma follows_cons : forall k stack x ks s,
  follows ens k stack (x :: ks) s = bind1 (ens (k :: stack) s x) (fun s1 => follows ens k stack ks s1).
Proof. intros. cbn [follows]. unfold bind1. destruct (ens (k :: stack) s x); reflexivity. Qed.

Lemma scan_cons : forall k stack r d ds s,
  scan rules env F order ens k stack r (d :: ds) s =
  bind1 (ens (k :: stack) s (d_key d)) (fun s1 =>
    if negb (d_order d) && (res_builtAt r <? res_computedAt (get (st_mem s1) (d_key d)))
    then run rules env F order ens k stack r (emit s1 (ENeed k InputRebuilt (Some (d_key d))))
    else scan rules env F order ens k stack r ds s1).
Proof. intros. cbn [scan]. unfold bind1. destruct (ens (k :: stack) s (d_key d)); reflexivity. Qed.

Lemma run_bind : forall k stack r s,
  run rules env F order ens k stack r s =
  bind2 (requests ens k stack (r_req (rules k)) 0%nat (run_pre k r s) []) (fun s1 slots1 =>
  bind2 (requests ens k stack (r_single (rules k)) (length slots1) s1 []) (fun s2 slots2 =>
  bind1 (follows ens k stack (r_follow (rules k)) s2) (fun s3 =>
  bind2 (requests ens k stack (branch_keys (rules k) slots1) (length slots1 + length slots2)%nat s3 []) (fun s4 slots3 =>
  follows ens k stack (r_disc (rules k))
    (complete order (emit s4 (EAvail k)) k (rules k) r (branch_keys (rules k) slots1)
              (task_value rules env F k (rules k) slots1 slots3)))))).
Proof.
  intros. unfold run. fold (run_pre k r s). unfold bind2, bind1.
  destruct (requests ens k stack (r_req (rules k)) 0 (run_pre k r s) []) as [o1 slots1]. cbn [fst snd].
  destruct o1 as [s1| |]; try reflexivity.
  destruct (requests ens k stack (r_single (rules k)) (length slots1) s1 []) as [o2 slots2]. cbn [fst snd].
  destruct o2 as [s2| |]; try reflexivity.
  destruct (follows ens k stack (r_follow (rules k)) s2) as [s3| |]; try reflexivity.
  destruct (requests ens k stack (branch_keys (rules k) slots1) (length slots1 + length slots2) s3 []) as [o4 slots3].
  cbn [fst snd]. destruct o4; reflexivity.
Qed.

End View.

(* ---------- generic lifting ---------- *)

(* events that carry no decision, creation or completion *)
Definition quiet_ev (e : event) : Prop :=
  match e with EStart _ | EPrior _ _ | EProvide _ _ _ _ | EAvail _ | EValid _ _ => True | _ => False end.

Lemma existsb_eqb_false : forall k (l : list key), existsb (N.eqb k) l = false -> ~ In k l.
Proof.
  intros k l H Hin. assert (E : existsb (N.eqb k) l = true).
  { apply existsb_exists. exists k. split; [exact Hin | apply N.eqb_refl]. }
  rewrite E in H. discriminate.
Qed.

Section Lift.
Variable rules : key -> rule.
Variable env : key -> N.
Variable F : key -> N -> list value -> list N -> N -> N.
Variable order : N -> key -> list dep -> list dep.

(* R stack s s': s' is reachable from s while the keys of [stack] are being brought up to date *)
Variable R : list key -> state -> state -> Prop.
Hypothesis R_refl : forall st s, R st s s.
Hypothesis R_trans : forall st s1 s2 s3, R st s1 s2 -> R st s2 s3 -> R st s1 s3.
Hypothesis R_weaken : forall k st s s', R (k :: st) s s' -> R st s s'.
Hypothesis R_quiet : forall st s e, quiet_ev e -> R st s (emit s e).
Hypothesis R_create : forall st s k, ~ In k st -> R st s (emit s (ECreate k)).
Hypothesis R_need : forall st s k rs inp, ~ In k st -> (rs = Forced -> flagged s k = true) -> R st s (emit s (ENeed k rs inp)).
Hypothesis R_set_mem : forall st s k r, ~ In k st -> R st s (set_mem s k r).
Hypothesis R_complete : forall st s k r bk v, ~ In k st -> R st s (complete order s k (rules k) r bk v).

Definition outcome_R (st : list key) (s : state) (o : outcome) : Prop :=
  match o with Ok s' | Cycle s' _ => R st s s' | OutOfFuel => True end.

Lemma outcome_R_trans : forall st s s1 o, R st s s1 -> outcome_R st s1 o -> outcome_R st s o.
Proof. intros st s s1 o H1 H2. destruct o; cbn [outcome_R] in *; eauto. Qed.

Lemma outcome_R_weaken : forall k st s o, outcome_R (k :: st) s o -> outcome_R st s o.
Proof. intros k st s o H. destruct o; cbn [outcome_R] in *; eauto. Qed.

Lemma bind1_R : forall st s o f, outcome_R st s o -> (forall s1, o = Ok s1 -> outcome_R st s1 (f s1)) ->
  outcome_R st s (bind1 o f).
Proof.
  intros st s o f Ho Hf. destruct o as [s1|s1 p|]; cbn [bind1]; [|exact Ho|exact I].
  eapply outcome_R_trans; [exact Ho | apply Hf; reflexivity].
Qed.

Lemma bind2_R : forall (A : Type) st s (p : outcome * A) f, outcome_R st s (fst p) ->
  (forall s1, fst p = Ok s1 -> outcome_R st s1 (f s1 (snd p))) -> outcome_R st s (bind2 p f).
Proof.
  intros A st s [o a] f Ho Hf. unfold bind2. cbn [fst snd] in *. destruct o as [s1|s1 p|]; [|exact Ho|exact I].
  eapply outcome_R_trans; [exact Ho | apply Hf; reflexivity].
Qed.

Section Step.
Variable ens : list key -> state -> key -> outcome.
Hypothesis Hens : forall st s k, outcome_R st s (ens st s k).

Lemma requests_R : forall k stack ks slot s acc,
  outcome_R stack s (fst (requests ens k stack ks slot s acc)).
Proof.
  intros k stack ks. induction ks as [|x t IH]; intros slot s acc; cbn [requests].
  - cbn [fst outcome_R]. apply R_refl.
  - pose proof (outcome_R_weaken _ _ _ _ (Hens (k :: stack) s x)) as H.
    destruct (ens (k :: stack) s x) as [s1|s1 p|]; cbn [fst]; [|exact H|exact I].
    eapply outcome_R_trans; [exact H|]. eapply outcome_R_trans; [|apply IH].
    apply R_quiet. exact I.
Qed.

Lemma follows_R : forall k stack ks s, outcome_R stack s (follows ens k stack ks s).
Proof.
  intros k stack ks. induction ks as [|x t IH]; intros s.
  - cbn [follows outcome_R]. apply R_refl.
  - rewrite follows_cons. apply bind1_R; [apply outcome_R_weaken with (k := k); apply Hens|].
    intros s1 _. apply IH.
Qed.

Lemma run_pre_R : forall k stack r s, ~ In k stack -> R stack s (run_pre rules k r s).
Proof.
  intros k stack r s Hk. unfold run_pre.
  assert (H1 : R stack s (emit (emit s (ECreate k)) (EStart k))).
  { eapply R_trans; [apply R_create; exact Hk | apply R_quiet; exact I]. }
  destruct (negb (N.eqb (res_builtAt r) 0) && N.eqb (r_sig (rules k)) (res_sig r)); [|exact H1].
  eapply R_trans; [exact H1 | apply R_quiet; exact I].
Qed.

Lemma run_R : forall k stack r s, ~ In k stack -> outcome_R stack s (run rules env F order ens k stack r s).
Proof.
  intros k stack r s Hk. rewrite run_bind. eapply outcome_R_trans; [apply run_pre_R; exact Hk|].
  apply bind2_R; [apply requests_R|]. intros s1 _.
  apply bind2_R; [apply requests_R|]. intros s2 _.
  apply bind1_R; [apply follows_R|]. intros s3 _.
  apply bind2_R; [apply requests_R|]. intros s4 _.
  eapply outcome_R_trans; [|apply follows_R].
  eapply R_trans; [apply (R_quiet stack s4 (EAvail k)); exact I | apply R_complete; exact Hk].
Qed.

Lemma scan_R : forall k stack r ds s, ~ In k stack ->
  outcome_R stack s (scan rules env F order ens k stack r ds s).
Proof.
  intros k stack r ds. induction ds as [|d t IH]; intros s Hk.
  - cbn [scan outcome_R]. apply R_set_mem. exact Hk.
  - rewrite scan_cons. apply bind1_R; [apply outcome_R_weaken with (k := k); apply Hens|].
    intros s1 _.
    destruct (negb (d_order d) && (res_builtAt r <? res_computedAt (get (st_mem s1) (d_key d)))).
    + eapply outcome_R_trans; [|apply run_R; exact Hk].
      apply R_need; [exact Hk|]. unfold InputRebuilt, Forced. intros H. discriminate H.
    + apply IH. exact Hk.
Qed.

Lemma ensure_body_R : forall stack s k, outcome_R stack s (ensure_body rules env F order ens stack s k).
Proof.
  intros stack s k. unfold ensure_body.
  destruct (existsb (N.eqb k) stack) eqn:Est; [cbn [outcome_R]; apply R_refl|].
  pose proof (existsb_eqb_false _ _ Est) as Hk.
  destruct (N.eqb (res_builtAt (get (st_mem s) k)) (st_epoch s)); [cbn [outcome_R]; apply R_refl|].
  cbn [res_builtAt res_sig].
  set (r := mkRes _ _ _ _ _).
  pose proof (R_set_mem stack s k r Hk) as Hm.
  destruct (N.eqb (res_builtAt (get (st_mem s) k)) 0).
  { eapply outcome_R_trans; [|apply run_R; exact Hk]. eapply R_trans; [exact Hm|].
    apply R_need; [exact Hk|]. unfold NeverBuilt, Forced. intros H. discriminate H. }
  destruct (flagged (set_mem s k r) k) eqn:Efl.
  { eapply outcome_R_trans; [|apply run_R; exact Hk]. eapply R_trans; [exact Hm|].
    apply R_need; [exact Hk|]. intros _. exact Efl. }
  destruct (negb (N.eqb (r_sig (rules k)) (res_sig (get (st_mem s) k)))).
  { eapply outcome_R_trans; [|apply run_R; exact Hk]. eapply R_trans; [exact Hm|].
    apply R_need; [exact Hk|]. unfold SignatureChanged, Forced. intros H. discriminate H. }
  destruct (negb (valid rules env k r)).
  { eapply outcome_R_trans; [|apply run_R; exact Hk]. eapply R_trans; [exact Hm|].
    eapply R_trans; [apply (R_quiet stack (set_mem s k r) (EValid k false)); exact I|].
    apply R_need; [exact Hk|]. unfold InvalidValue, Forced. intros H. discriminate H. }
  eapply outcome_R_trans; [|apply scan_R; exact Hk]. eapply R_trans; [exact Hm|]. apply R_quiet. exact I.
Qed.

End Step.

Theorem ensure_R : forall fuel st s k, outcome_R st s (ensure rules env F order fuel st s k).
Proof.
  induction fuel as [|f IH]; intros st s k; cbn [ensure]; [exact I|]. apply ensure_body_R. exact IH.
Qed.

Theorem ensure_c_R : forall n base fuel st s k, outcome_R st s (ensure_c rules env F order n base fuel st s k).
Proof.
  intros n base. induction fuel as [|f IH]; intros st s k; cbn [ensure_c]; [exact I|].
  destruct (budget_reached n base s); [cbn [outcome_R]; apply R_refl|]. apply ensure_body_R. exact IH.
Qed.

End Lift.
