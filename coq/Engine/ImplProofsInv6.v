(* P19 - part 10: the invariant under the processing of one input request and of one finished input request. *)
From LLB Require Import Engine.Rules Engine.Spec Engine.Impl Engine.ImplProofs Engine.ImplProofsSticky Engine.ImplProofsInv Engine.ImplProofsInv2
  Engine.ImplProofsInv3 Engine.ImplProofsInv4 Engine.ImplProofsInv5.
From Coq Require Import Arith Lia.
Local Open Scope N_scope.

(* an input request is taken off inputRequests *)
Lemma Inv_pop_inreq rules c s rq rest : is_inreq s = rq :: rest -> Inv rules c s -> Inv rules (cx_set_fi c (rq :: cx_fi c)) (upd_inreq s rest).
Proof.
  intros Hq (Hn & HT & HI & HS). split; [exact Hn|]. split; [|split].
  - apply (InvT_ctx c); auto. now apply InvT_upd_inreq.
  - destruct HI as [B1 B2 B3 B4 B5 B6 B7 B8 B9 B10]. rewrite Hq in *. inversion B3 as [|x l Hx Hl]. subst x l.
    constructor; cbn [cx_fi cx_set_fi]; autorewrite with iv; auto.
    intros t ti Hg. rewrite (B1 t ti Hg). unfold outstanding_count. rewrite Hq. autorewrite with iv. rewrite !cnt_i_cons. lia.
  - apply (InvS_ctx c); auto. now apply InvS_upd_inreq.
Qed.

Lemma Inv_head_fi_ok rules c s rq fi' : cx_fi c = rq :: fi' -> Inv rules c s -> ireq_ok rules s rq.
Proof. intros Hfi (_ & _ & HI & _). pose proof (i_ok_fi rules c s HI) as H. rewrite Hfi in H. now inversion H. Qed.

(* the request in flight is paused on its input, which is being scanned *)
Lemma InvI_pause rules c s inp rq fi' : cx_fi c = rq :: fi' -> iq_input rq = inp -> kind_of s inp = KScanning ->
  InvI rules c s -> InvI rules (cx_set_fi c fi') (mod_ri s inp (ri_add_paused rq)).
Proof.
  intros Hfi Hin Hk [B1 B2 B3 B4 B5 B6 B7 B8 B9 B10]. rewrite Hfi in *. inversion B2 as [|x l Hrq Hl]. subst x l.
  set (s' := mod_ri s inp (ri_add_paused rq)).
  assert (Hp : forall k, ri_paused (rinfo_of s' k) = if N.eqb k inp then ri_paused (rinfo_of s inp) ++ [rq] else ri_paused (rinfo_of s k)).
  { intros k. unfold s'. autorewrite with iv. now destruct (N.eqb k inp). }
  assert (HK : forall k, kind_of s' k = kind_of s k).
  { intros k. unfold s'. rewrite kind_of_mod_ri. destruct (N.eqb k inp) eqn:E; auto. apply N.eqb_eq in E. now subst. }
  assert (Hok : forall x, ireq_ok rules s x -> ireq_ok rules s' x) by (intros x; now apply ireq_ok_frame).
  constructor; cbn [cx_fi cx_set_fi].
  - intros t ti Hg. change (is_tasks s') with (is_tasks s) in Hg. rewrite (B1 t ti Hg). unfold outstanding_count.
    pose proof (asum_rules_mod_ri (fun ri => cnt_i t (ri_paused ri)) s inp (ri_add_paused rq) (fun _ => eq_refl)) as Ha.
    cbn [ri_add_paused ri_with_paused ri_paused] in Ha. rewrite cnt_i_app, cnt_i_cons, cnt_i_nil in Ha.
    unfold s'. autorewrite with iv. fold (mod_ri s inp (ri_add_paused rq)). rewrite cnt_i_cons. lia.
  - eapply Forall_impl; [apply Hok|auto].
  - eapply Forall_impl; [apply Hok|auto].
  - intros k. rewrite Hp. destruct (N.eqb k inp).
    + apply Forall_app. split; [eapply Forall_impl; [apply Hok|apply B4]|constructor; auto].
    + eapply Forall_impl; [apply Hok|apply B4].
  - intros t ti Hg. eapply Forall_impl; [apply Hok|]. apply (B5 t ti Hg).
  - eapply Forall_impl; [apply Hok|auto].
  - intros k. rewrite HK, Hp. destruct (N.eqb k inp) eqn:E; [|apply B7]. apply N.eqb_eq in E. subst. intros H. contradiction.
  - intros k x. rewrite Hp. destruct (N.eqb k inp) eqn:E; [|apply B8]. apply N.eqb_eq in E. subst k. intros Hx.
    apply in_app_or in Hx. destruct Hx as [Hx|[Hx|[]]]; [now apply B8|now subst].
  - intros t ti x Hg. apply (B9 t ti x Hg).
  - exact B10.
Qed.

Lemma Inv_pause_on_rule rules c s inp rq fi' : cx_fi c = rq :: fi' -> iq_input rq = inp -> kind_of s inp = KScanning ->
  Inv rules c s -> Inv rules (cx_set_fi c fi') (pause_on_rule s inp rq).
Proof.
  intros Hfi Hin Hk (Hn & HT & HI & HS). unfold pause_on_rule. rewrite Hk. cbn [kind_eqb check].
  assert (HK : forall k, kind_of (mod_ri s inp (ri_add_paused rq)) k = kind_of s k).
  { intros k. rewrite kind_of_mod_ri. destruct (N.eqb k inp) eqn:E; auto. apply N.eqb_eq in E. now subst. }
  split; [now apply nf_mod_ri|]. split; [|split].
  - apply (InvT_ctx c); auto. apply (InvT_frame c s); auto. apply nodup_rules_set_ri, HT.
  - now apply InvI_pause.
  - apply (InvS_ctx c); auto. apply (InvS_frame c s); auto.
    + intros k _. rewrite res_of_mod_ri. destruct (N.eqb k inp) eqn:E; auto. apply N.eqb_eq in E. now subst.
    + intros k. autorewrite with iv. destruct (N.eqb k inp) eqn:E; auto. apply N.eqb_eq in E. now subst.
    + intros t. now apply asum_rules_mod_ri_same.
Qed.
