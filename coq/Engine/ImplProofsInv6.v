(* P19 - part 10: the invariant under the processing of one input request and of one finished input request. *)
From LLB Require Import Engine.Rules Engine.Spec Engine.Impl Engine.ImplProofs Engine.ImplProofsSticky Engine.ImplProofsInv Engine.ImplProofsInv2
  Engine.ImplProofsInv3 Engine.ImplProofsInv4 Engine.ImplProofsInv5.
From Coq Require Import Arith Lia.
Local Open Scope N_scope.

(* an input request is taken off inputRequests *)
Lemma Inv_pop_inreq rules c s rq rest : is_inreq s = rq :: rest -> Inv rules c s -> Inv rules (cx_set_fi c (rq :: cx_fi c)) (upd_inreq s rest).
Proof.
  intros Hq (Hn & HT & HI & HS). split; [exact Hn|]. split; [|split].
  - apply (InvT_ctx c); auto. now apply InvT_upd_inreq.
  - destruct HI as [B1 B2 B3 B4 B5 B6 B7 B8 B9 B10]. rewrite Hq in *. inversion B3 as [|x l Hx Hl]. subst x l.
    constructor; cbn [cx_fi cx_set_fi]; autorewrite with iv; auto.
    intros t ti Hg. rewrite (B1 t ti Hg). unfold outstanding_count. rewrite Hq. autorewrite with iv. rewrite !cnt_i_cons. lia.
  - apply (InvS_ctx c); auto. now apply InvS_upd_inreq.
Qed.

Lemma Inv_head_fi_ok rules c s rq fi' : cx_fi c = rq :: fi' -> Inv rules c s -> ireq_ok rules s rq.
Proof. intros Hfi (_ & _ & HI & _). pose proof (i_ok_fi rules c s HI) as H. rewrite Hfi in H. now inversion H. Qed.

(* the request in flight is paused on its input, which is being scanned *)
Lemma InvI_pause rules c s inp rq fi' : cx_fi c = rq :: fi' -> iq_input rq = inp -> kind_of s inp = KScanning ->
  InvI rules c s -> InvI rules (cx_set_fi c fi') (mod_ri s inp (ri_add_paused rq)).
Proof.
  intros Hfi Hin Hk [B1 B2 B3 B4 B5 B6 B7 B8 B9 B10]. rewrite Hfi in *. inversion B2 as [|x l Hrq Hl]. subst x l.
  set (s' := mod_ri s inp (ri_add_paused rq)).
  assert (Hp : forall k, ri_paused (rinfo_of s' k) = if N.eqb k inp then ri_paused (rinfo_of s inp) ++ [rq] else ri_paused (rinfo_of s k)).
  { intros k. unfold s'. autorewrite with iv. now destruct (N.eqb k inp). }
  assert (HK : forall k, kind_of s' k = kind_of s k).
  { intros k. unfold s'. rewrite kind_of_mod_ri. destruct (N.eqb k inp) eqn:E; auto. apply N.eqb_eq in E. now subst. }
  assert (Hok : forall x, ireq_ok rules s x -> ireq_ok rules s' x) by (intros x; now apply ireq_ok_frame).
  constructor; cbn [cx_fi cx_set_fi].
  - intros t ti Hg. change (is_tasks s') with (is_tasks s) in Hg. rewrite (B1 t ti Hg). unfold outstanding_count.
    pose proof (asum_rules_mod_ri (fun ri => cnt_i t (ri_paused ri)) s inp (ri_add_paused rq) (fun _ => eq_refl)) as Ha.
    cbn [ri_add_paused ri_with_paused ri_paused] in Ha. rewrite cnt_i_app, cnt_i_cons, cnt_i_nil in Ha.
    unfold s'. autorewrite with iv. fold (mod_ri s inp (ri_add_paused rq)). rewrite cnt_i_cons. lia.
  - eapply Forall_impl; [apply Hok|auto].
  - eapply Forall_impl; [apply Hok|auto].
  - intros k. rewrite Hp. destruct (N.eqb k inp).
    + apply Forall_app. split; [eapply Forall_impl; [apply Hok|apply B4]|constructor; auto].
    + eapply Forall_impl; [apply Hok|apply B4].
  - intros t ti Hg. eapply Forall_impl; [apply Hok|]. apply (B5 t ti Hg).
  - eapply Forall_impl; [apply Hok|auto].
  - intros k. rewrite HK, Hp. destruct (N.eqb k inp) eqn:E; [|apply B7]. apply N.eqb_eq in E. subst. intros H. contradiction.
  - intros k x. rewrite Hp. destruct (N.eqb k inp) eqn:E; [|apply B8]. apply N.eqb_eq in E. subst k. intros Hx.
    apply in_app_or in Hx. destruct Hx as [Hx|[Hx|[]]]; [now apply B8|now subst].
  - intros t ti x Hg. apply (B9 t ti x Hg).
  - exact B10.
Qed.

Lemma Inv_pause_on_rule rules c s inp rq fi' : cx_fi c = rq :: fi' -> iq_input rq = inp -> kind_of s inp = KScanning ->
  Inv rules c s -> Inv rules (cx_set_fi c fi') (pause_on_rule s inp rq).
Proof.
  intros Hfi Hin Hk (Hn & HT & HI & HS). unfold pause_on_rule. rewrite Hk. cbn [kind_eqb check].
  assert (HK : forall k, kind_of (mod_ri s inp (ri_add_paused rq)) k = kind_of s k).
  { intros k. rewrite kind_of_mod_ri. destruct (N.eqb k inp) eqn:E; auto. apply N.eqb_eq in E. now subst. }
  split; [now apply nf_mod_ri|]. split; [|split].
  - apply (InvT_ctx c); auto. apply (InvT_frame c s); auto. apply nodup_rules_set_ri, HT.
  - now apply InvI_pause.
  - apply (InvS_ctx c); auto. apply (InvS_frame c s); auto.
    + intros k _. rewrite res_of_mod_ri. destruct (N.eqb k inp) eqn:E; auto. apply N.eqb_eq in E. now subst.
    + intros k. autorewrite with iv. destruct (N.eqb k inp) eqn:E; auto. apply N.eqb_eq in E. now subst.
    + intros t. now apply asum_rules_mod_ri_same.
Qed.

(* a dummy request (build key, discovered dependency) is done once its rule has been demanded *)
Lemma Inv_drop_dummy rules c s rq fi' : cx_fi c = rq :: fi' -> iq_task rq = None -> Inv rules c s -> Inv rules (cx_set_fi c fi') s.
Proof.
  intros Hfi Hd (Hn & HT & HI & HS). split; auto. split; [now apply (InvT_ctx c)|]. split; [|now apply (InvS_ctx c)].
  destruct HI as [B1 B2 B3 B4 B5 B6 B7 B8 B9 B10]. rewrite Hfi in *. inversion B2 as [|x l Hrq Hl]. subst x l.
  constructor; cbn [cx_fi cx_set_fi]; auto.
  intros t ti Hg. rewrite (B1 t ti Hg), cnt_i_cons. unfold for_task. rewrite Hd. lia.
Qed.

(* the rule of a task in progress records a dependency *)
Lemma Inv_record_dep rules c s t d : is_in_progress s t = true -> Inv rules c s -> Inv rules c (mod_ri s t (ri_add_dep d)).
Proof.
  intros Hip (Hn & HT & HI & HS).
  assert (HK : forall k, kind_of (mod_ri s t (ri_add_dep d)) k = kind_of s k).
  { intros k. rewrite kind_of_mod_ri. destruct (N.eqb k t) eqn:E; auto. apply N.eqb_eq in E. now subst. }
  assert (Hns : kind_of s t <> KScanning). { apply in_progress_iff in Hip. destruct Hip as [H|H]; rewrite H; discriminate. }
  split; [now apply nf_mod_ri|]. split; [|split].
  - apply (InvT_frame c s); auto. apply nodup_rules_set_ri, HT.
  - apply (InvI_frame rules c s); auto.
    + intros k. autorewrite with iv. destruct (N.eqb k t) eqn:E; auto. apply N.eqb_eq in E. now subst.
    + intros t0. now apply asum_rules_mod_ri_same.
  - apply (InvS_frame c s); auto.
    + intros k Hk. rewrite res_of_mod_ri. destruct (N.eqb k t) eqn:E; auto. apply N.eqb_eq in E. subst. contradiction.
    + intros k. autorewrite with iv. destruct (N.eqb k t) eqn:E; auto. apply N.eqb_eq in E. now subst.
    + intros t0. now apply asum_rules_mod_ri_same.
Qed.

Lemma InvI_to_fininreq rules c s rq fi' : cx_fi c = rq :: fi' -> iq_task rq <> None ->
  InvI rules c s -> InvI rules (cx_set_fi c fi') (upd_fininreq s (rq :: is_fininreq s)).
Proof.
  intros Hfi Hnd [B1 B2 B3 B4 B5 B6 B7 B8 B9 B10]. rewrite Hfi in *. inversion B2 as [|x l Hrq Hl]. subst x l.
  constructor; cbn [cx_fi cx_set_fi]; autorewrite with iv; auto.
  - intros t ti Hg. rewrite (B1 t ti Hg). unfold outstanding_count. autorewrite with iv. rewrite !cnt_i_cons. lia.
  - intros x [Hx|Hx]; [now subst|auto].
Qed.

Lemma InvI_to_reqby rules c s inp ti rq fi' : cx_fi c = rq :: fi' -> aget (is_tasks s) inp = Some ti -> iq_input rq = inp -> iq_task rq <> None ->
  InvI rules c s -> InvI rules (cx_set_fi c fi') (set_ti s inp (ti_add_reqby rq ti)).
Proof.
  intros Hfi Hg Hin Hnd [B1 B2 B3 B4 B5 B6 B7 B8 B9 B10]. rewrite Hfi in *. inversion B2 as [|x l Hrq Hl]. subst x l.
  assert (Hok : forall x, ireq_ok rules s x -> ireq_ok rules (set_ti s inp (ti_add_reqby rq ti)) x) by (intros; eapply ireq_ok_set_ti; eauto).
  constructor; cbn [cx_fi cx_set_fi]; autorewrite with iv.
  - intros t x Hx. pose proof (outstanding_count_set_ti s inp ti (ti_add_reqby rq ti) t Hg) as Ho.
    cbn [ti_add_reqby ti_with_reqby ti_reqby] in Ho. rewrite cnt_i_app, cnt_i_cons, cnt_i_nil in Ho.
    rewrite aget_aset in Hx. destruct (N.eqb t inp) eqn:E.
    + apply N.eqb_eq in E. subst t. inversion Hx. subst x. cbn [ti_add_reqby ti_with_reqby ti_wait]. rewrite (B1 inp ti Hg), cnt_i_cons. lia.
    + rewrite (B1 t x Hx), cnt_i_cons. lia.
  - eapply Forall_impl; [apply Hok|auto].
  - eapply Forall_impl; [apply Hok|auto].
  - intros k. eapply Forall_impl; [apply Hok|apply B4].
  - intros t x. rewrite aget_aset. destruct (N.eqb t inp) eqn:E; intros Hx.
    + inversion Hx. subst x. cbn [ti_add_reqby ti_with_reqby ti_reqby]. apply Forall_app. split; [eapply Forall_impl; [apply Hok|eauto]|constructor; auto].
    + eapply Forall_impl; [apply Hok|eauto].
  - eapply Forall_impl; [apply Hok|auto].
  - exact B7.
  - exact B8.
  - intros t x y. rewrite aget_aset. destruct (N.eqb t inp) eqn:E; intros Hx.
    + apply N.eqb_eq in E. inversion Hx. subst x t. cbn [ti_add_reqby ti_with_reqby ti_reqby]. intros Hy.
      apply in_app_or in Hy. destruct Hy as [Hy|[Hy|[]]]; [eapply B9; eauto|subst y; auto].
    + eapply B9; eauto.
  - exact B10.
Qed.

Lemma Inv_route_request rules c s t rq avail fi' : cx_fi c = rq :: fi' -> iq_task rq = Some t ->
  (avail = false -> aget (is_tasks s) (iq_input rq) <> None) -> Inv rules c s -> Inv rules (cx_set_fi c fi') (route_request s t rq avail).
Proof.
  intros Hfi Ht Hav HI. pose proof (Inv_head_fi_ok rules c s rq fi' Hfi HI) as Hrq. destruct (Hrq t Ht) as [Hex _].
  assert (Hip : is_in_progress s t = true) by (destruct HI as (_ & HT & _); now apply (t_tk c s HT)).
  unfold route_request. cbn zeta.
  apply (Inv_record_dep rules c s t (mkDep (iq_input rq) (iq_order rq) (iq_single rq)) Hip) in HI.
  set (s1 := mod_ri s t (ri_add_dep _)) in *. destruct HI as (Hn & HT & HI & HS).
  assert (Hnd : iq_task rq <> None) by (rewrite Ht; discriminate).
  destruct avail.
  - split; [unfold nf; now autorewrite with iv|]. split; [|split].
    + apply (InvT_ctx c); auto. now apply InvT_upd_fininreq.
    + now apply InvI_to_fininreq.
    + apply (InvS_ctx c); auto. now apply InvS_upd_fininreq.
  - specialize (Hav eq_refl). change (is_tasks s) with (is_tasks s1) in Hav. destruct (aget (is_tasks s1) (iq_input rq)) as [ti|] eqn:Hg; [|contradiction].
    rewrite (mod_ti_some _ _ _ _ Hg). split; [now apply nf_set_ti|]. split; [|split].
    + apply (InvT_ctx c); auto. eapply InvT_set_ti; eauto.
    + eapply InvI_to_reqby; eauto.
    + apply (InvS_ctx c); auto. eapply InvS_set_ti; eauto.
Qed.

Lemma Inv_process_input_request rules env ord c0 fi' s rq : cx_ex c0 = None -> Inv rules (cx_set_fi c0 (rq :: fi')) s ->
  Inv rules (cx_set_fi c0 fi') (process_input_request rules env ord s rq).
Proof.
  intros Hex HI. unfold process_input_request. set (c := cx_set_fi c0 (rq :: fi')) in *.
  destruct (scan_rule rules env s (iq_input rq)) as [b1 s1] eqn:E1.
  destruct (scan_rule_post rules env c _ _ _ _ E1 HI) as (HI1 & KS & Hf1 & Ht1).
  destruct b1.
  2:{ apply (Inv_pause_on_rule rules c s1 (iq_input rq) rq fi'); auto. }
  destruct (demand_rule rules ord s1 (iq_input rq)) as [b2 s2] eqn:E2.
  destruct (demand_rule_post rules ord c _ _ _ _ E2 HI1 Hex (Ht1 eq_refl)) as (HI2 & KD & Hf2 & Ht2).
  destruct (iq_task rq) as [t|] eqn:Et.
  - apply (Inv_route_request rules c s2 t rq b2 fi'); auto.
  - apply (Inv_drop_dummy rules c s2 rq fi'); auto.
Qed.

Lemma Inv_step_inreq rules env ord c s : cx_ex c = None -> Inv rules c s -> Inv rules c (step_inreq rules env ord s).
Proof.
  intros Hex HI. unfold step_inreq. destruct (is_inreq s) as [|rq rest] eqn:Hq; auto.
  pose proof (Inv_pop_inreq rules c s rq rest Hq HI) as HI1.
  pose proof (Inv_process_input_request rules env ord c (cx_fi c) (upd_inreq s rest) rq Hex HI1) as H. now rewrite cx_set_fi_same in H.
Qed.

(* ---------- one finished input request ---------- *)
Lemma Inv_pop_fininreq rules c s rq rest : is_fininreq s = rq :: rest -> Inv rules c s -> Inv rules (cx_set_fi c (rq :: cx_fi c)) (upd_fininreq s rest).
Proof.
  intros Hq (Hn & HT & HI & HS). split; [exact Hn|]. split; [|split].
  - apply (InvT_ctx c); auto. now apply InvT_upd_fininreq.
  - destruct HI as [B1 B2 B3 B4 B5 B6 B7 B8 B9 B10]. rewrite Hq in *. inversion B6 as [|x l Hx Hl]. subst x l.
    constructor; cbn [cx_fi cx_set_fi]; autorewrite with iv; auto.
    + intros t ti Hg. rewrite (B1 t ti Hg). unfold outstanding_count. rewrite Hq. autorewrite with iv. rewrite !cnt_i_cons. lia.
    + intros x Hx'. apply B10. now right.
  - apply (InvS_ctx c); auto. now apply InvS_upd_fininreq.
Qed.

(* a task with an outstanding request is InProgressWaiting and not queued as ready *)
Lemma waiting_of_request rules c s t rq fi' : cx_fi c = rq :: fi' -> iq_task rq = Some t -> Inv rules c s ->
  exists ti, aget (is_tasks s) t = Some ti /\ (0 < ti_wait ti)%nat /\ kind_of s t = KWaiting /\ ~ In t (is_ready s).
Proof.
  intros Hfi Ht HI. pose proof (Inv_head_fi_ok rules c s rq fi' Hfi HI) as Hrq. destruct (Hrq t Ht) as [Hex _].
  destruct HI as (_ & HT & HI & _). destruct (aget (is_tasks s) t) as [ti|] eqn:Hg; [|contradiction]. exists ti.
  assert (Hw : (0 < ti_wait ti)%nat).
  { rewrite (i_wc rules c s HI t ti Hg), Hfi, cnt_i_cons. unfold for_task. rewrite Ht, N.eqb_refl. lia. }
  assert (Hip : is_in_progress s t = true) by (apply (t_tk c s HT); congruence).
  apply in_progress_iff in Hip. repeat split; auto.
  - destruct Hip as [H|H]; auto. pose proof (t_cw c s HT t ti Hg H). lia.
  - intros Hin. destruct (t_rd1 c s HT t Hin) as (x & Hx & _ & Hw0). rewrite Hg in Hx. inversion Hx. subst. lia.
Qed.

Lemma InvI_decrement rules c s t ti n rq fi' : cx_fi c = rq :: fi' -> iq_task rq = Some t -> aget (is_tasks s) t = Some ti -> ti_wait ti = S n ->
  InvI rules c s -> InvI rules (cx_set_fi c fi') (set_ti s t (ti_with_wait n ti)).
Proof.
  intros Hfi Ht Hg Hw [B1 B2 B3 B4 B5 B6 B7 B8 B9 B10]. rewrite Hfi in *. inversion B2 as [|x l Hrq Hl]. subst x l.
  assert (Hok : forall x, ireq_ok rules s x -> ireq_ok rules (set_ti s t (ti_with_wait n ti)) x) by (intros; eapply ireq_ok_set_ti; eauto).
  constructor; cbn [cx_fi cx_set_fi]; autorewrite with iv.
  - intros t' x Hx. pose proof (outstanding_count_set_ti s t ti (ti_with_wait n ti) t' Hg) as Ho. cbn [ti_with_wait ti_reqby] in Ho.
    rewrite aget_aset in Hx. destruct (N.eqb t' t) eqn:E.
    + apply N.eqb_eq in E. subst t'. inversion Hx. subst x. cbn [ti_with_wait ti_wait]. pose proof (B1 t ti Hg) as Hb. rewrite cnt_i_cons in Hb.
      unfold for_task in Hb. rewrite Ht, N.eqb_refl in Hb. lia.
    + pose proof (B1 t' x Hx) as Hb. rewrite cnt_i_cons in Hb. unfold for_task in Hb. rewrite Ht, E in Hb. lia.
  - eapply Forall_impl; [apply Hok|auto].
  - eapply Forall_impl; [apply Hok|auto].
  - intros k. eapply Forall_impl; [apply Hok|apply B4].
  - intros t' x. rewrite aget_aset. destruct (N.eqb t' t) eqn:E; intros Hx.
    + inversion Hx. subst x. cbn [ti_with_wait ti_reqby]. eapply Forall_impl; [apply Hok|eauto].
    + eapply Forall_impl; [apply Hok|eauto].
  - eapply Forall_impl; [apply Hok|auto].
  - exact B7.
  - exact B8.
  - intros t' x y. rewrite aget_aset. destruct (N.eqb t' t) eqn:E; intros Hx.
    + apply N.eqb_eq in E. inversion Hx. subst x t'. cbn [ti_with_wait ti_reqby]. now apply B9.
    + now apply B9.
  - exact B10.
Qed.

(* the last outstanding request of a waiting task is delivered: waitCount 0, queued as ready *)
Lemma InvT_ready_zero c s t ti : aget (is_tasks s) t = Some ti -> kind_of s t = KWaiting -> ~ In t (is_ready s) ->
  InvT c s -> InvT c (upd_ready (set_ti s t (ti_with_wait 0 ti)) (is_ready s ++ [t])).
Proof.
  intros Hg Hk Hnr [A1 A2 A3 A4 A5 A6 A7 A8 A9 A10 A11].
  constructor; autorewrite with iv; auto.
  - now apply nodup_aset.
  - now apply nodup_snoc.
  - intros t'. rewrite (aget_aset_exists _ _ _ _ _ Hg). apply A5.
  - intros t' x. rewrite aget_aset. destruct (N.eqb t' t) eqn:E; [|apply A6]. intros Hx _. inversion Hx. reflexivity.
  - intros t' Hin. rewrite aget_aset. apply in_app_or in Hin. destruct (N.eqb t' t) eqn:E.
    + apply N.eqb_eq in E. subst t'. exists (ti_with_wait 0 ti). auto.
    + destruct Hin as [Hin|[Hin|[]]]; [now apply A7|]. subst t'. rewrite N.eqb_refl in E. discriminate.
  - intros t' x. rewrite aget_aset. destruct (N.eqb t' t) eqn:E.
    + apply N.eqb_eq in E. subst t'. intros _ _ _. left. apply in_or_app. right. now left.
    + intros Hx Hkk Hw. destruct (A8 t' x Hx Hkk Hw) as [H|H]; [left; apply in_or_app; now left|now right].
  - intros t' Hin. destruct (A9 t' Hin) as (x & Hx & Hkk & Hp). rewrite aget_aset. destruct (N.eqb t' t) eqn:E; [|eauto].
    apply N.eqb_eq in E. subst t'. congruence.
  - intros t' x. rewrite aget_aset. destruct (N.eqb t' t) eqn:E; [|apply A10].
    apply N.eqb_eq in E. subst t'. intros Hx. inversion Hx. subst x. cbn [ti_with_wait ti_pending]. now apply A10.
  - rewrite A11. unfold n_computing. autorewrite with iv. symmetry.
    apply (filter_keys_aset (fun k => kind_eqb (kind_of s k) KComputing) (is_tasks s) t ti _ Hg).
Qed.

Lemma Inv_decrement_wait rules c s t rq fi' : cx_fi c = rq :: fi' -> iq_task rq = Some t -> Inv rules c s ->
  Inv rules (cx_set_fi c fi') (decrement_wait s t).
Proof.
  intros Hfi Ht HI. destruct (waiting_of_request rules c s t rq fi' Hfi Ht HI) as (ti & Hg & Hw & Hk & Hnr).
  destruct HI as (Hn & HT & HI & HS). unfold decrement_wait. rewrite Hg. destruct (ti_wait ti) as [|n] eqn:Ew; [lia|]. cbn zeta.
  pose proof (InvI_decrement rules c s t ti n rq fi' Hfi Ht Hg Ew HI) as HI'.
  assert (HS' : InvS (cx_set_fi c fi') (set_ti s t (ti_with_wait n ti))) by (apply (InvS_ctx c); auto; eapply InvS_set_ti; eauto).
  destruct (Nat.eqb n 0) eqn:En.
  - apply Nat.eqb_eq in En. subst n. split; [unfold nf; now autorewrite with iv|]. split; [|split].
    + apply (InvT_ctx c); auto. change (is_ready (set_ti s t (ti_with_wait 0 ti))) with (is_ready s). now apply InvT_ready_zero.
    + now apply InvI_upd_ready.
    + now apply InvS_upd_ready.
  - apply Nat.eqb_neq in En. split; [now apply nf_set_ti|]. split; [|split]; auto.
    apply (InvT_ctx c); auto. apply InvT_set_wait; auto.
Qed.

Lemma store_slot_fields slot v ti :
  ti_wait (store_slot slot v ti) = ti_wait ti /\ ti_pending (store_slot slot v ti) = ti_pending ti /\
  ti_reqby (store_slot slot v ti) = ti_reqby ti /\ ti_deferred (store_slot slot v ti) = ti_deferred ti.
Proof. unfold store_slot. destruct (Nat.ltb _ _); repeat split; reflexivity. Qed.

Lemma Inv_branch_reqs rules c ks : forall s t,
  Inv rules c s -> aget (is_tasks s) t <> None -> kind_of s t = KWaiting -> ~ In t (is_ready s) ->
  (forall x, In x ks -> In x (requestable (rules t))) -> Inv rules c (branch_reqs s t ks).
Proof.
  induction ks as [|x ks IH]; intros s t HI Hex Hk Hnr Hin; cbn [branch_reqs]; auto.
  destruct (aget (is_tasks s) t) as [ti|] eqn:Hg; [|contradiction].
  set (s1 := set_ti s t (ti_new_slot ti)).
  assert (HI1 : Inv rules c s1) by (apply Inv_set_ti_cosmetic with (ti := ti); auto).
  assert (Hex1 : aget (is_tasks s1) t <> None) by (unfold s1; autorewrite with iv; rewrite aget_aset_same; discriminate).
  pose proof (keeps_add_request s1 t x (length (ti_slots ti)) false false) as K.
  apply IH.
  - apply Inv_add_request; auto. apply Hin. now left.
  - destruct K as (_ & _ & K3 & _). auto.
  - rewrite (keeps_kind _ _ t K). exact Hk.
  - destruct K as (K1 & _). rewrite K1. exact Hnr.
  - intros y Hy. apply Hin. now right.
Qed.

Lemma branch_fire_requestable rules t ti slot v ks : branch_fire rules t ti slot v = Some ks -> forall x, In x ks -> In x (requestable (rules t)).
Proof.
  unfold branch_fire, requestable. destruct (r_br (rules t)) as [[[i a] b]|]; [|discriminate].
  destruct (_ && _); [|discriminate]. intros H x Hx. inversion H. subst ks.
  apply in_or_app. right. apply in_or_app. right. apply in_or_app. right. apply in_or_app. destruct (is_even _); auto.
Qed.

Lemma Inv_provide_value rules c s t slot inp v rq fi' : cx_fi c = rq :: fi' -> iq_task rq = Some t -> Inv rules c s ->
  Inv rules c (provide_value rules s t slot inp v).
Proof.
  intros Hfi Ht HI. destruct (waiting_of_request rules c s t rq fi' Hfi Ht HI) as (ti & Hg & Hw & Hk & Hnr).
  unfold provide_value. cbn zeta. apply (Inv_iemit rules c s (EProvide t slot inp v)) in HI.
  change (aget (is_tasks (iemit s (EProvide t slot inp v))) t) with (aget (is_tasks s) t). rewrite Hg.
  destruct (store_slot_fields slot v ti) as (F1 & F2 & F3 & F4).
  destruct (branch_fire rules t ti slot v) as [ks|] eqn:Ef.
  - apply Inv_branch_reqs; auto.
    + apply Inv_set_ti_cosmetic with (ti := ti); auto.
    + autorewrite with iv. rewrite aget_aset_same. discriminate.
    + eapply branch_fire_requestable; eauto.
  - apply Inv_set_ti_cosmetic with (ti := ti); auto.
Qed.

Lemma Inv_deliver rules c0 fi' s rq : Inv rules (cx_set_fi c0 (rq :: fi')) s -> iq_task rq <> None -> Inv rules (cx_set_fi c0 fi') (deliver rules s rq).
Proof.
  intros HI Hnd. unfold deliver. destruct (iq_task rq) as [t|] eqn:Et; [|contradiction]. cbn zeta.
  apply (Inv_decrement_wait rules (cx_set_fi c0 (rq :: fi')) _ t rq fi'); auto.
  destruct (iq_order rq); auto. eapply Inv_provide_value; eauto. reflexivity.
Qed.

Lemma Inv_step_fininreq rules c s : Inv rules c s -> Inv rules c (step_fininreq rules s).
Proof.
  intros HI. unfold step_fininreq. destruct (is_fininreq s) as [|rq rest] eqn:Hq; auto.
  assert (Hnd : iq_task rq <> None). { destruct HI as (_ & _ & HI & _). apply (i_fin_nd rules c s HI). rewrite Hq. now left. }
  pose proof (Inv_pop_fininreq rules c s rq rest Hq HI) as HI1.
  pose proof (Inv_deliver rules c (cx_fi c) (upd_fininreq s rest) rq HI1 Hnd) as H. now rewrite cx_set_fi_same in H.
Qed.
