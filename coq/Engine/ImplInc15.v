(* P19b stage 4 for engines with a database: histories of builds and restarts run by the specification engine (Spec.build,
   Spec.restart) and by the small-step engine (ibuild, irestart true) return the same values. *)
From LLB Require Import Engine.Rules Engine.Spec Engine.SpecInv1 Engine.SpecC01 Engine.Exec Engine.Impl Engine.ImplProofs Engine.ImplProofsExamples Engine.ImplVal7
  Engine.ImplInc1 Engine.ImplInc9 Engine.ImplInc10 Engine.ImplInc11 Engine.ImplInc13 Engine.ImplInc14.
From Coq Require Import Arith Lia Permutation.
Local Open Scope N_scope.

Section Ref.
Variable rules : key -> rule.
Variable F : key -> N -> list value -> list N -> N -> N.
Variable rank : key -> nat.
Variable ord : key -> list rkind.
Variable syncp : key -> bool.
Variable order : N -> key -> list dep -> list dep.
Hypothesis Hrank : wf_rank rules rank.
Hypothesis Hwfd : wf_disc rules.
Hypothesis Hord : forall k, In RReq (ord k).
Hypothesis Horder : wf_order order.

Fixpoint spec_hops (fuel : nat) (ss : state) (ops : list hop) : option (state * list (option value)) :=
  match ops with
  | [] => Some (ss, [])
  | HRestart :: ops' => spec_hops fuel (restart ss) ops'
  | HBuild b :: ops' =>
    match build rules (bs_env b) F order fuel ss (bs_root b) with
    | Ok ss' => match spec_hops fuel ss' ops' with Some (sf, vs) => Some (sf, result_of ss' (bs_root b) :: vs) | None => None end
    | _ => None
    end
  end.

Lemma spec_hops_clean fuel ops : forall ss sf vs, AtRest F (fixedR rules) ss -> spec_hops fuel ss ops = Some (sf, vs) ->
  (forall b, In b (hop_roots ops) -> (rank (bs_root b) < fuel)%nat) ->
  vs = map (fun b => cv rules (bs_env b) F fuel (bs_root b)) (hop_roots ops).
Proof.
  induction ops as [|o ops IH]; intros ss sf vs HA Hrun Hrk; cbn [spec_hops] in Hrun.
  - inversion Hrun. reflexivity.
  - destruct o as [b|].
    + destruct (build rules (bs_env b) F order fuel ss (bs_root b)) as [ss'|? ?|] eqn:Hb; try discriminate.
      destruct (spec_hops fuel ss' ops) as [[sf' vs']|] eqn:Hrest; [|discriminate]. inversion Hrun. subst sf vs.
      assert (Hk : (rank (bs_root b) < fuel)%nat) by (apply Hrk; cbn [hop_roots flat_map]; apply in_or_app; left; now left).
      rewrite (c01_incremental_eq_clean_thm rules (bs_env b) F order rank (fixedR rules) (fixedR_ok rules) Hrank Hwfd Horder fuel ss _ ss' Hk HA Hb).
      cbn [hop_roots flat_map app map]. f_equal. apply (IH ss' sf' vs'); auto; [|intros b' Hb'; apply Hrk; cbn [hop_roots flat_map]; apply in_or_app; now right].
      apply (c01_build_preserves_thm rules (bs_env b) F order rank (fixedR rules) (fixedR_ok rules) Hrank Hwfd Horder fuel ss _ ss' Hk HA Hb).
    + apply (IH (restart ss) sf vs); auto. now apply AtRest_restart.
Qed.

Theorem refines_spec_hops fuel ops ssf vs1 sf vs2 : (forall b, In b (hop_roots ops) -> (rank (bs_root b) < fuel)%nat) ->
  spec_hops fuel (restart init_state) ops = Some (ssf, vs1) ->
  run_hops rules F ord syncp (irestart true init_istate) ops = Some (sf, vs2) -> vs2 = vs1.
Proof.
  intros Hrk H1 H2.
  rewrite (spec_hops_clean fuel ops (restart init_state) ssf vs1 (AtRest_restart F (fixedR rules) init_state (AtRest_init F (fixedR rules))) H1 Hrk).
  exact (proj1 (hops_values_clean rules F rank (fixedR rules) ord syncp Hrank Hwfd (fixedR_ok rules) Hord fuel ops (irestart true init_istate) sf vs2 (DInv_new F (fixedR rules)) H2 Hrk)).
Qed.
End Ref.

(* non-vacuity: the history of ImplInc14 *)
Definition shres7 := spec_hops R7 mixF order_id 5 (restart init_state) O7.
Definition shend7 : state := match shres7 with Some (s, _) => s | None => init_state end.
Definition shvals7 : list (option value) := match shres7 with Some (_, v) => v | None => [] end.
Lemma shrun7_eq : spec_hops R7 mixF order_id 5 (restart init_state) O7 = Some (shend7, shvals7).
Proof. vm_compute. reflexivity. Qed.
Example hops7_refines : dvals7 = shvals7.
Proof.
  pose proof (refines_spec_hops R7 mixF rank6 ord6 all_sync order_id R7_ranked R7_wfdisc ord6_ok order_id_ok 5 O7 shend7 shvals7 dend7 dvals7 O7_ranks) as H.
  specialize (H shrun7_eq). specialize (H drun7_eq). exact H.
Qed.
Example hops7_refines_computed : dvals7 = shvals7 /\ length shvals7 = 5%nat /\ ~ In None shvals7.
Proof. vm_compute. repeat split; try reflexivity. intros H. repeat (destruct H as [H|H]; [discriminate|]). destruct H. Qed.
