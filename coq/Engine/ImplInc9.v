(* P19b stage 3, part 9: the incremental invariant over a build and over a history of builds; the values. *)
From LLB Require Import Engine.Rules Engine.Spec Engine.SpecInv1 Engine.Impl Engine.ImplProofs Engine.ImplProofsSticky Engine.ImplProofsMono Engine.ImplProofsInv
  Engine.ImplProofsInv2 Engine.ImplProofsInv3 Engine.ImplProofsInv9 Engine.ImplProofsStall Engine.ImplProofsRun
  Engine.ImplVal1 Engine.ImplVal2 Engine.ImplVal4 Engine.ImplVal6 Engine.ImplInc1 Engine.ImplInc2 Engine.ImplInc3 Engine.ImplInc4 Engine.ImplInc5 Engine.ImplInc6
  Engine.ImplInc7 Engine.ImplInc8.
From Coq Require Import Arith Lia.
Local Open Scope N_scope.

Section Inc.
Variable rules : key -> rule.
Variable F : key -> N -> list value -> list N -> N -> N.
Variable rank : key -> nat.
Variable R : key -> N -> rule.
Variable ord : key -> list rkind.
Variable syncp : key -> bool.
Hypothesis Hrank : wf_rank rules rank.
Hypothesis Hwfd : wf_disc rules.
Hypothesis HRt : table_ok rules R.
Hypothesis Hord : forall k, In RReq (ord k).
Notation HInv := (HInv F R).

Section Build.
Variable env : key -> N.
Notation cvK := (cvK rules env F rank).
Notation BInv := (BInv rules env F rank R).

Lemma BInv_mstep root s s' : Inv rules ctx0 s -> BInv root None s -> mstep rules env F ord syncp s s' -> nf s' -> BInv root None s'.
Proof.
  intros HI HB H Hn. destruct H.
  - apply BInv_task_finish; auto. now apply (Inv_sreq_scanning rules ctx0).
  - now apply BInv_step_scan.
  - now apply BInv_step_inreq.
  - now apply BInv_step_fininreq.
  - now apply BInv_step_ready.
  - now apply BInv_step_fintask.
Qed.

(* the state a build starts in: the state at rest, in a new epoch, with the request of the build queued *)
Lemma BInv_start s0 root : HInv s0 -> BInv root None (start_build (iemit (bump s0) (EBuildStart root)) root).
Proof.
  intros [(Q1 & Q2 & Q3 & Q4 & Q5 & Q6 & Q7 & Q8 & Q9) Hnc Hdn Hbnd Hrows].
  set (st := start_build _ root).
  assert (HR : forall k, rinfo_of st k = rinfo_of s0 k) by (intros k; unfold st, start_build; now autorewrite with iv).
  assert (HK : forall k, kind_of st k = kind_of s0 k) by (intros; unfold kind_of; now rewrite HR).
  assert (HRes : forall k, res_of st k = res_of s0 k) by (intros; unfold res_of; now rewrite HR).
  assert (HT : is_tasks st = []) by (unfold st, start_build; autorewrite with iv; exact Q1).
  assert (HI : is_inreq st = [dummy_root root]) by (unfold st, start_build; autorewrite with iv; cbn [bump is_inreq]; rewrite Q3; reflexivity).
  assert (HF : is_fininreq st = []) by (unfold st, start_build; now autorewrite with iv).
  assert (HTs : is_toscan st = []) by (unfold st, start_build; autorewrite with iv; exact Q2).
  assert (HE : is_epoch st = is_epoch s0 + 1) by (unfold st, start_build; now autorewrite with iv).
  assert (Hnocur : forall k, ~ curk st k).
  { intros k [_ Hb]. unfold bAt in Hb. rewrite HRes, HE in Hb. destruct (Hbnd k) as [_ Hle]. unfold bAt in Hle. lia. }
  assert (Hnotask : forall t ti, task_of st t = Some ti -> False) by (intros t ti; unfold task_of; rewrite HT; discriminate).
  assert (HUn : forall rq, Unrouted st rq -> rq = dummy_root root).
  { intros rq [H|(k & H)]; [rewrite HI in H; destruct H as [H|[]]; now symmetry|]. rewrite HR in H. destruct (Q9 k) as (_ & _ & _ & Hp & _). rewrite Hp in H. destruct H. }
  assert (HO : forall rq, Oreq2 st rq -> rq = dummy_root root).
  { intros rq [H|[(t0 & z & Hz & _)|H]]; [now apply HUn|exfalso; eapply Hnotask; eauto|rewrite HF in H; destruct H]. }
  assert (HSr : forall rq, ~ Sreq st rq).
  { intros rq [H|[(k & H)|(t0 & z & Hz & _)]]; [rewrite HTs in H; destruct H| |eapply Hnotask; eauto].
    rewrite HR in H. destruct (Q9 k) as (_ & _ & _ & _ & Hd). rewrite Hd in H. destruct H. }
  split; [|split].
  - constructor.
    + rewrite HE. lia.
    + intros k Hc. exfalso. exact (Hnocur k Hc).
    + intros rq Ho. rewrite (HO rq Ho). split; intros t Ht; discriminate.
    + intros rq. rewrite HF. intros [].
    + intros t ti Hg. exfalso. eapply Hnotask; eauto.
    + left. rewrite HI. now left.
  - constructor.
    + intros k. rewrite HR. apply Hnc.
    + intros k _. unfold cAt, bAt. rewrite HRes. apply (proj1 (Hbnd k)).
    + intros k. unfold cAt, bAt. rewrite HRes, HE. destruct (Hbnd k) as [H1 H2]. unfold cAt, bAt in *. lia.
    + intros k Hb. exfalso. unfold bAt in Hb. rewrite HRes, HE in Hb. destruct (Hbnd k) as [_ Hle]. unfold bAt in Hle. lia.
    + intros k _ Hb _. unfold bAt in Hb. rewrite HRes in Hb. apply (rowok_step F R s0 st k (HRes k)); [|now apply Hrows].
      intros d _ _ _. left. unfold stored, cAt. rewrite HRes. split; auto. lia.
    + intros k Hc. exfalso. exact (Hnocur k Hc).
  - constructor.
    + intros rq Hrq. exfalso. exact (HSr rq Hrq).
    + intros k. rewrite HK. intros Hk. exfalso. destruct (Q9 k) as (Hq & _). contradiction.
    + intros k. rewrite HK. intros Hk. exfalso. exact (Hdn k Hk).
    + intros rq Hrq. exfalso. exact (HSr rq Hrq).
Qed.

Lemma BInv_in_build s0 root s : HInv s0 -> in_build rules env F ord syncp s0 root s -> BInv root None s.
Proof.
  intros Hh [Q M]. pose proof (Inv_start rules s0 root Q) as HI0. pose proof (BInv_start s0 root Hh) as HB0.
  induction M as [|s s' s'' M IH Hs]; auto.
  pose proof (Inv_msteps rules env F ord syncp _ _ M HI0) as HI.
  apply (BInv_mstep root s' s''); auto. exact (proj1 (Inv_mstep rules env F ord syncp _ _ Hs HI)).
Qed.

Lemma curk_dec s k : curk s k \/ ~ curk s k.
Proof.
  unfold curk. destruct (kind_eqb (kind_of s k) KComplete) eqn:E; [apply kind_eqb_eq in E|apply kind_eqb_neq in E; right; tauto].
  destruct (N.eq_dec (bAt s k) (is_epoch s)); [left|right]; tauto.
Qed.

(* the state a successful build ends in *)
Lemma HInv_done root sf : BInv root None sf -> quiescent sf -> HInv sf /\ curk sf root /\ stored sf root = cvK root.
Proof.
  intros (HT & HC & HS) Q. pose proof Q as (Q1 & Q2 & Q3 & Q4 & Q5 & Q6 & Q7 & Q8 & Q9).
  assert (Hidle : forall k, idle sf k) by (intros k; destruct (Q9 k) as (_ & H1 & H2 & _); split; auto).
  split; [|].
  - constructor.
    + exact Q.
    + apply (b_nc _ _ _ _ HC).
    + intros k Hk. destruct (b_dn _ _ _ _ _ _ _ HS k Hk) as (_ & _ & _ & [(rq & H & _)|(rq & H & _)] & _); [rewrite Q2 in H|rewrite Q3 in H]; destruct H.
    + intros k. split; [apply (b_bnd _ _ _ _ HC k (Hidle k))|apply (b_le _ _ _ _ HC k)].
    + intros k Hb. destruct (curk_dec sf k) as [Hc|Hnc]; [|apply (b_rows _ _ _ _ HC k (Hidle k) Hb Hnc)].
      (* a rule completed in this build: all its recorded inputs are complete now, and its value is the clean one *)
      destruct (b_cstr _ _ _ _ HC k Hc) as (S0 & S1 & S2 & S3). cbn zeta in S0, S1, S2, S3.
      assert (Erl : rule_of R sf k = rules k) by (unfold rule_of; rewrite S0; apply HRt).
      assert (Hdone : forall d, In d (deps sf k) -> curk sf (d_key d)).
      { intros d Hd. destruct (S3 d Hd) as [_ [H|(_ & [H|(rq & [H|(k0 & H)] & _)])]]; auto; exfalso.
        - unfold is_in_progress in H. destruct (Q9 (d_key d)) as (_ & H1 & H2 & _). destruct (kind_of sf (d_key d)); try discriminate; contradiction.
        - rewrite Q3 in H. destruct H.
        - destruct (Q9 k0) as (_ & _ & _ & Hp & _). rewrite Hp in H. destruct H. }
      assert (Hreq : map (stored sf) (r_req (rules k)) = map cvK (r_req (rules k))).
      { apply map_ext_in. intros y Hy. apply (b_cur _ _ _ _ _ _ HT). apply S1. apply in_or_app. now left. }
      rewrite Hreq in S1. change (branch_keys (rules k) (map cvK (r_req (rules k)))) with (bkK rules env F rank k) in S1.
      destruct (cvK_some rules env F rank Hrank k) as (v & Hv).
      destruct (concl_of_clean rules env F rank R Hrank Hwfd HRt sf k v S0 (eq_sym Hv)) as [Hco Ho].
      { intros y Hy. apply in_app_or in Hy. destruct Hy as [Hy|Hy]; [destruct (S1 y) as [H1 H2]; [apply in_or_app; now left|split; auto; now apply (b_cur _ _ _ _ _ _ HT)]|].
        apply in_app_or in Hy. destruct Hy as [Hy|Hy]; [destruct (S1 y) as [H1 H2]; [apply in_or_app; now right|split; auto; now apply (b_cur _ _ _ _ _ _ HT)]|].
        split; [now apply S2|]. apply (b_cur _ _ _ _ _ _ HT). apply (Hdone (mkDep y false false)). now apply S2. }
      exists v. split; [rewrite (b_cur _ _ _ _ _ _ HT k Hc); exact Hv|]. rewrite Erl. split; [exact Ho|]. split; [intros d Hd; apply S3, Hd|intros _; exact Hco].
  - assert (Hc : curk sf root).
    { destruct (b_root _ _ _ _ _ _ HT) as [H|[(k & H)|[H|H]]]; auto.
      - rewrite Q3 in H. destruct H.
      - destruct (Q9 k) as (_ & _ & _ & Hp & _). rewrite Hp in H. destruct H.
      - unfold is_in_progress in H. destruct (Q9 root) as (_ & H1 & H2 & _). destruct (kind_of sf root); try discriminate; contradiction. }
    split; auto. now apply (b_cur _ _ _ _ _ _ HT).
Qed.
End Build.

Lemma HInv_frame s s' : (forall k, rinfo_of s' k = rinfo_of s k) -> quiescent s' -> is_usedb s' = is_usedb s -> is_epoch s' = is_epoch s -> HInv s -> HInv s'.
Proof.
  intros HR Q Hu He [H1 H3 H4 H5 H7].
  assert (HRes : forall k, res_of s' k = res_of s k) by (intros; unfold res_of; now rewrite HR).
  constructor; auto.
  - intros k. rewrite HR. apply H3.
  - intros k. unfold kind_of. rewrite HR. apply H4.
  - intros k. unfold cAt, bAt. rewrite HRes, He. apply H5.
  - intros k. unfold bAt. rewrite HRes. intros Hb. apply (rowok_step F R s s' k (HRes k)); [|now apply H7].
    intros d _ _. left. unfold stored, cAt. rewrite HRes. split; auto. lia.
Qed.

Lemma HInv_init : HInv init_istate.
Proof.
  constructor.
  - unfold quiescent. cbn. repeat split; auto; try constructor; discriminate.
  - intros k. reflexivity.
  - intros k. cbn. discriminate.
  - intros k. cbn. split; lia.
  - intros k Hb. now contradiction Hb.
Qed.

(* Stage 3: a build from a state at rest that returns a value (no failed assert) returns the clean value of the requested key for
   the current environment, and leaves the engine in a state at rest again - whatever the schedule.  Restriction: every earlier
   build completed (HInv: no rule is marked cancelled).  Restarts: ImplInc13. *)
Theorem build_values_clean env fuel pfuel cfuel s0 root sched sf m : HInv s0 ->
  ibuild rules env F ord syncp fuel pfuel s0 root sched = (RDone sf, m) -> is_fault sf = None ->
  ((rank root < cfuel)%nat -> res_value (res_of sf root) = cv rules env F cfuel root) /\ HInv sf.
Proof.
  intros Hh Hrun Hn. unfold ibuild, ibuild_gen in Hrun. cbn zeta in Hrun.
  destruct (run_build_gen rules env F ord syncp stall_test fuel pfuel root (iemit (bump s0) (EBuildStart root)) sched) as [r mm] eqn:Hr.
  destruct r; inversion Hrun. subst sf m. clear Hrun.
  assert (Hn' : nf s) by (unfold nf in *; now autorewrite with iv in Hn).
  unfold run_build_gen in Hr.
  assert (Hb0 : in_build rules env F ord syncp s0 root (start_build (iemit (bump s0) (EBuildStart root)) root)) by (split; [apply (h_q _ _ _ Hh)|apply mss_refl]).
  destruct (run_loop_final rules env ord F syncp fuel pfuel root s0 _ sched [] s mm Hb0 Hr Hn') as (Hb & _).
  pose proof (run_loop_done rules env F ord syncp fuel pfuel root s0 _ sched [] s mm Hb0 Hr Hn') as Q.
  pose proof (BInv_in_build env s0 root s Hh Hb) as HB.
  destruct (HInv_done env root s HB Q) as (Hh' & Hc & Hv).
  split.
  - intros Hlt. change (res_value (res_of (iemit (commit s) _) root)) with (stored s root). rewrite Hv. unfold cvK. symmetry. now apply (cv_cvk rules env F rank Hrank).
  - apply (HInv_frame s); auto.
Qed.

(* ... and so is the stored value of every key that is complete in the epoch of this build *)
Theorem build_values_clean_all env fuel pfuel cfuel s0 root sched sf m : HInv s0 ->
  ibuild rules env F ord syncp fuel pfuel s0 root sched = (RDone sf, m) -> is_fault sf = None ->
  forall k, kind_of sf k = KComplete -> res_builtAt (res_of sf k) = is_epoch sf -> (rank k < cfuel)%nat ->
  res_value (res_of sf k) = cv rules env F cfuel k.
Proof.
  intros Hh Hrun Hn. unfold ibuild, ibuild_gen in Hrun. cbn zeta in Hrun.
  destruct (run_build_gen rules env F ord syncp stall_test fuel pfuel root (iemit (bump s0) (EBuildStart root)) sched) as [r mm] eqn:Hr.
  destruct r; inversion Hrun. subst sf m. clear Hrun.
  assert (Hn' : nf s) by (unfold nf in *; now autorewrite with iv in Hn).
  unfold run_build_gen in Hr.
  assert (Hb0 : in_build rules env F ord syncp s0 root (start_build (iemit (bump s0) (EBuildStart root)) root)) by (split; [apply (h_q _ _ _ Hh)|apply mss_refl]).
  destruct (run_loop_final rules env ord F syncp fuel pfuel root s0 _ sched [] s mm Hb0 Hr Hn') as (Hb & _).
  destruct (BInv_in_build env s0 root s Hh Hb) as (HT & _).
  intros k Hk Hbe Hlt. change (res_value (res_of (iemit (commit s) _) k)) with (stored s k).
  rewrite (b_cur _ _ _ _ _ _ HT k (conj Hk Hbe)). unfold ImplVal1.cvK. symmetry. now apply (cv_cvk rules env F rank Hrank).
Qed.

(* a history of builds on one engine instance: each build has its own environment (the world changed), requested key and schedule;
   every build must return a value without a failed assert *)
Record bspec := mkBspec { bs_env : key -> N; bs_root : key; bs_sched : list sched_item; bs_fuel : nat; bs_pfuel : nat }.
Fixpoint run_builds (s : istate) (bs : list bspec) : option (istate * list (option value)) :=
  match bs with
  | [] => Some (s, [])
  | b :: bs' =>
    match ibuild rules (bs_env b) F ord syncp (bs_fuel b) (bs_pfuel b) s (bs_root b) (bs_sched b) with
    | (RDone s', _) =>
      match is_fault s' with
      | None => match run_builds s' bs' with Some (sf, vs) => Some (sf, res_value (res_of s' (bs_root b)) :: vs) | None => None end
      | Some _ => None
      end
    | _ => None
    end
  end.

Theorem history_values_clean cfuel bs : forall s sf vs, HInv s -> run_builds s bs = Some (sf, vs) ->
  (forall b, In b bs -> (rank (bs_root b) < cfuel)%nat) ->
  vs = map (fun b => cv rules (bs_env b) F cfuel (bs_root b)) bs /\ HInv sf.
Proof.
  induction bs as [|b bs IH]; intros s sf vs Hh Hrun Hrk; cbn [run_builds] in Hrun.
  - inversion Hrun. subst. auto.
  - destruct (ibuild rules (bs_env b) F ord syncp (bs_fuel b) (bs_pfuel b) s (bs_root b) (bs_sched b)) as [r m] eqn:Hb.
    destruct r as [s'| | |]; try discriminate. destruct (is_fault s') eqn:Hf; [discriminate|].
    destruct (run_builds s' bs) as [[sf' vs']|] eqn:Hrest; [|discriminate]. inversion Hrun. subst sf vs.
    destruct (build_values_clean (bs_env b) (bs_fuel b) (bs_pfuel b) cfuel s (bs_root b) (bs_sched b) s' m Hh Hb Hf) as [Hv Hh'].
    destruct (IH s' sf' vs' Hh' Hrest) as [Hvs Hhf]; [intros b' Hb'; apply Hrk; now right|].
    split; auto. cbn [map]. rewrite Hv by (apply Hrk; now left). now rewrite Hvs.
Qed.
End Inc.

(* ---------- histories in which the rule table is edited between builds ---------- *)
(* every build has its own rule table (and rank function); all tables agree with one table R of rules by key and signature
   (table_ok, as in Properties_C01: editing a rule changes its signature) *)
Record rbspec := mkRb { rb_rules : key -> rule; rb_rank : key -> nat; rb_build : bspec }.
Section Edits.
Variable F : key -> N -> list value -> list N -> N -> N.
Variable R : key -> N -> rule.
Variable ord : key -> list rkind.
Variable syncp : key -> bool.
Hypothesis Hord : forall k, In RReq (ord k).
Fixpoint run_rbuilds (s : istate) (bs : list rbspec) : option (istate * list (option value)) :=
  match bs with
  | [] => Some (s, [])
  | rb :: bs' =>
    let b := rb_build rb in
    match ibuild (rb_rules rb) (bs_env b) F ord syncp (bs_fuel b) (bs_pfuel b) s (bs_root b) (bs_sched b) with
    | (RDone s', _) =>
      match is_fault s' with
      | None => match run_rbuilds s' bs' with Some (sf, vs) => Some (sf, res_value (res_of s' (bs_root b)) :: vs) | None => None end
      | Some _ => None
      end
    | _ => None
    end
  end.
Definition rb_ok (cfuel : nat) (rb : rbspec) : Prop :=
  wf_rank (rb_rules rb) (rb_rank rb) /\ wf_disc (rb_rules rb) /\ table_ok (rb_rules rb) R /\ (rb_rank rb (bs_root (rb_build rb)) < cfuel)%nat.

Theorem rhistory_values_clean cfuel bs : forall s sf vs, (forall rb, In rb bs -> rb_ok cfuel rb) -> HInv F R s -> run_rbuilds s bs = Some (sf, vs) ->
  vs = map (fun rb => cv (rb_rules rb) (bs_env (rb_build rb)) F cfuel (bs_root (rb_build rb))) bs /\ HInv F R sf.
Proof.
  induction bs as [|rb bs IH]; intros s sf vs Hok Hh Hrun; cbn [run_rbuilds] in Hrun.
  - inversion Hrun. subst. auto.
  - cbn zeta in Hrun. set (b := rb_build rb) in *.
    destruct (ibuild (rb_rules rb) (bs_env b) F ord syncp (bs_fuel b) (bs_pfuel b) s (bs_root b) (bs_sched b)) as [r m] eqn:Hb.
    destruct r as [s'| | |]; try discriminate. destruct (is_fault s') eqn:Hf; [discriminate|].
    destruct (run_rbuilds s' bs) as [[sf' vs']|] eqn:Hrest; [|discriminate]. inversion Hrun. subst sf vs.
    destruct (Hok rb (or_introl eq_refl)) as (H1 & H2 & H3 & H4).
    destruct (build_values_clean (rb_rules rb) F (rb_rank rb) R ord syncp H1 H2 H3 Hord (bs_env b) (bs_fuel b) (bs_pfuel b) cfuel s (bs_root b) (bs_sched b) s' m Hh Hb Hf) as [Hv Hh'].
    destruct (IH s' sf' vs') as [Hvs Hhf]; auto; [intros rb' Hrb'; apply Hok; now right|].
    split; auto. cbn [map]. fold b. rewrite (Hv H4). now rewrite Hvs.
Qed.
End Edits.
