(* The rule language the engine properties quantify over, results and states (DESIGN.md section 3.1).
   Definitions only. *)
From Coq Require Export List NArith Bool Lia.
Export ListNotations.
Local Open Scope N_scope.

Definition key := N.

(* A value is (payload, stamp): the stamp is the rule's observation of external state when it ran. *)
Definition value := (N * N)%type.
Definition value_eqb (a b : value) : bool := N.eqb (fst a) (fst b) && N.eqb (snd a) (snd b).

Record rule := mkRule {
  r_sig : N;                                   (* the rule's signature *)
  r_obs : bool;                                (* observes external state env k: stamp := env k, valid iff stamp = env k *)
  r_req : list key;                            (* request(k, slot): issued in start, values used *)
  r_single : list key;                         (* requestSingleUse: delivered, values not used, dropped from later scans *)
  r_follow : list key;                         (* mustFollow: order-only *)
  r_br : option (nat * list key * list key);   (* when slot i (an index into r_req) arrives: request A if its payload is even, else B *)
  r_disc : list key                            (* discovered dependencies reported at completion; read directly from env *)
}.

(* a recorded dependency: key, order-only flag, single-use flag *)
Record dep := mkDep { d_key : key; d_order : bool; d_single : bool }.
Definition dep_eqb (a b : dep) : bool :=
  N.eqb (d_key a) (d_key b) && Bool.eqb (d_order a) (d_order b) && Bool.eqb (d_single a) (d_single b).

(* Core::Result *)
Record result := mkRes {
  res_value : option value;       (* None: never computed (the empty byte string) *)
  res_sig : N;
  res_computedAt : N;
  res_builtAt : N;
  res_deps : list dep
}.
Definition empty_result : result := mkRes None 0 0 0 [].

Definition alist := list (key * result).
Fixpoint lookup (m : alist) (k : key) : option result :=
  match m with [] => None | (k', r) :: t => if N.eqb k k' then Some r else lookup t k end.
Definition get (m : alist) (k : key) : result :=
  match lookup m k with Some r => r | None => empty_result end.
Fixpoint update (m : alist) (k : key) (r : result) : alist :=
  match m with
  | [] => [(k, r)]
  | (k', r') :: t => if N.eqb k k' then (k, r) :: t else (k', r') :: update t k r
  end.

(* reasons, numbered as Rule::RunReason *)
Definition NeverBuilt := 0.
Definition SignatureChanged := 1.
Definition InvalidValue := 2.
Definition InputRebuilt := 3.
Definition Forced := 4.

(* what the delegate and the tasks observe *)
Inductive event :=
| ENeed (k : key) (reason : N) (input : option key)      (* determinedRuleNeedsToRun *)
| EValid (k : key) (b : bool)                            (* isResultValid was asked and answered b *)
| ECreate (k : key)                                      (* createTask *)
| EStart (k : key)
| EPrior (k : key) (v : option value)                    (* providePriorValue *)
| EProvide (k : key) (slot : nat) (d : key) (v : option value)   (* provideValue *)
| EAvail (k : key)                                       (* inputsAvailable *)
| EComplete (k : key) (v : value)                        (* the task called complete(v) *)
| EBuildStart (k : key)                                  (* history markers *)
| EResult (v : option value) (failed : bool)
| ECycleReported (path : list key)
| ERestart.

Fixpoint map_opt {A B} (f : A -> option B) (l : list A) : option (list B) :=
  match l with
  | [] => Some []
  | x :: t => match f x with Some y => match map_opt f t with Some ys => Some (y :: ys) | None => None end | None => None end
  end.

Definition is_even (v : value) : bool := N.even (fst v).
