(* P19b - values, part 2: the value invariant depends on a few views of the state; frame lemma; complete() and the finished-task step. *)
From LLB Require Import Engine.Rules Engine.Spec Engine.SpecInv1 Engine.Impl Engine.ImplProofs Engine.ImplProofsSticky Engine.ImplProofsInv
  Engine.ImplProofsMono Engine.ImplProofsInv2 Engine.ImplProofsInv3 Engine.ImplProofsInv7 Engine.ImplProofsInv8 Engine.ImplProofsInv9 Engine.ImplProofsAvail
  Engine.ImplProofsProto Engine.ImplVal1.
From Coq Require Import Arith Lia.
Local Open Scope N_scope.

(* the part of a task record the values depend on *)
Definition core (ti : tinfo) := (ti_slots ti, ti_branched ti, ti_pending ti, ti_reqby ti).
Definition tcore (s : istate) (t : key) := option_map core (task_of s t).

Lemma tcore_some s s' t ti : tcore s' t = tcore s t -> task_of s' t = Some ti -> exists ti0, task_of s t = Some ti0 /\ core ti0 = core ti.
Proof. unfold tcore. intros H Hg. rewrite Hg in H. destruct (task_of s t) as [ti0|]; [|discriminate]. cbn [option_map] in H. exists ti0. split; auto. congruence. Qed.

Section Val.
Variable rules : key -> rule.
Variable env : key -> N.
Variable F : key -> N -> list value -> list N -> N -> N.
Variable rank : key -> nat.
Notation cvK := (cvK rules env F rank).
Notation task_ok := (task_ok rules env F rank).
Notation VInv := (VInv rules env F rank).
Notation rq_wf := (rq_wf rules env F rank).

Lemma Oreq_frame s s' rq : (forall t, tcore s' t = tcore s t) -> is_inreq s' = is_inreq s -> is_fininreq s' = is_fininreq s ->
  Oreq s rq -> Oreq s' rq.
Proof.
  intros Ht Hi Hf [H|[(t' & ti' & Hg & Hin)|H]]; [left; congruence| |right; right; congruence].
  right. left. assert (Ht' := Ht t'). unfold tcore in Ht'. rewrite Hg in Ht'. destruct (task_of s' t') as [x|] eqn:E; [|discriminate].
  cbn [option_map] in Ht'. assert (Hc : core x = core ti') by congruence. unfold core in Hc. inversion Hc. exists t', x. split; auto. congruence.
Qed.

Lemma rq_wf_frame s s' rq : (forall t, tcore s' t = tcore s t) -> rq_wf s rq -> rq_wf s' rq.
Proof.
  intros Ht H t Hk Ho. destruct (H t Hk Ho) as (H1 & ti & Hg & Hl). split; auto.
  assert (Ht' := Ht t). unfold tcore in Ht'. rewrite Hg in Ht'. destruct (task_of s' t) as [x|] eqn:E; [|discriminate].
  cbn [option_map] in Ht'. assert (Hc : core x = core ti) by congruence. unfold core in Hc. inversion Hc. exists x. split; auto. congruence.
Qed.

Lemma task_ok_frame s s' t ti ti' : core ti' = core ti -> (forall rq, Oreq s rq -> Oreq s' rq) ->
  (In t (is_fintasks s') -> In t (is_fintasks s)) -> res_value (res_of s' t) = res_value (res_of s t) ->
  task_ok s t ti -> task_ok s' t ti'.
Proof.
  intros Hc Ho Hf Hv [K1 K2 K3 K4 K5 K6]. unfold core in Hc. inversion Hc as [[E1 E2 E3 E4]].
  constructor; rewrite ?E1, ?E2, ?E3; auto.
  - intros i Hu Hn. destruct (K3 i Hu Hn) as (rq & H1 & H2). exists rq. split; auto.
  - intros H. rewrite Hv. auto.
Qed.

Lemma in_progress_of_kind s s' k : kind_of s' k = kind_of s k -> is_in_progress s' k = is_in_progress s k.
Proof. unfold is_in_progress. now intros ->. Qed.

Lemma VInv_frame root s s' :
  (forall k, kind_of s' k = kind_of s k) -> (forall k, res_value (res_of s' k) = res_value (res_of s k)) ->
  (forall k, res_builtAt (res_of s' k) = res_builtAt (res_of s k)) -> (forall t, tcore s' t = tcore s t) ->
  is_inreq s' = is_inreq s -> is_fininreq s' = is_fininreq s -> is_fintasks s' = is_fintasks s -> is_toscan s' = is_toscan s ->
  is_usedb s' = is_usedb s -> is_epoch s' = is_epoch s -> VInv root s -> VInv root s'.
Proof.
  intros Hk Hv Hb Ht Hi Hf Hft Hts Hu He [V1 V2 V3 V4 V5 V6 V7 V8 V9 V10].
  assert (Ht' : forall t, tcore s t = tcore s' t) by (intros; symmetry; apply Ht).
  constructor.
  - congruence.
  - congruence.
  - intros k. rewrite Hk. apply V3.
  - intros k. rewrite Hk, Hb. apply V4.
  - intros k. rewrite Hk, Hb, Hv, He. apply V5.
  - intros rq Ho. apply (rq_wf_frame s s'); auto. apply V6. apply (Oreq_frame s' s); auto.
  - intros rq. rewrite Hf, Hk. apply V7.
  - intros t ti Hg. destruct (tcore_some s s' t ti (Ht t) Hg) as (ti0 & Hg0 & Hc).
    apply (task_ok_frame s s' t ti0 ti); auto.
    + intros rq. apply Oreq_frame; auto.
    + now rewrite Hft.
  - rewrite Hi, (in_progress_of_kind s s' root (Hk root)), Hk. exact V9.
  - now rewrite He.
Qed.
(* ---------- complete() ---------- *)
Lemma tcore_discovered s t d t' : tcore (discovered s t d) t' = tcore s t'.
Proof.
  unfold discovered. destruct (aget (is_tasks s) t) as [ti|] eqn:Hg; [|reflexivity]. destruct (negb _); [reflexivity|].
  rewrite (mod_ti_some _ _ _ _ Hg). unfold tcore, task_of. autorewrite with iv. rewrite aget_aset.
  destruct (N.eqb t' t) eqn:E; auto. apply N.eqb_eq in E. subst t'. now rewrite Hg.
Qed.
Lemma tcore_fold_discovered t ds : forall s t', tcore (fold_left (fun s d => discovered s t d) ds s) t' = tcore s t'.
Proof. induction ds as [|d ds IH]; intros s t'; cbn [fold_left]; auto. now rewrite IH, tcore_discovered. Qed.

Lemma discovered_fields s t d : is_inreq (discovered s t d) = is_inreq s /\ is_usedb (discovered s t d) = is_usedb s.
Proof.
  unfold discovered. destruct (aget (is_tasks s) t) as [ti|] eqn:Hg; [|auto]. destruct (negb _); [auto|].
  rewrite (mod_ti_some _ _ _ _ Hg). now autorewrite with iv.
Qed.
Lemma fold_discovered_fields t ds : forall s, is_inreq (fold_left (fun s d => discovered s t d) ds s) = is_inreq s /\
  is_usedb (fold_left (fun s d => discovered s t d) ds s) = is_usedb s.
Proof.
  induction ds as [|d ds IH]; intros s; cbn [fold_left]; auto. destruct (IH (discovered s t d)) as [-> ->]. apply discovered_fields.
Qed.

Lemma completed_result_value sg ep r v : res_value (completed_result sg ep r v) = Some v.
Proof.
  unfold completed_result. cbn zeta. destruct (res_value r) as [old|] eqn:E; [|reflexivity].
  destruct (value_eqb old v) eqn:E2; [|reflexivity]. cbn [res_value]. f_equal. now apply value_eqb_eq.
Qed.

Record finish_eff (s s' : istate) (t : key) (v : value) : Prop := {
  fe_kind : forall k, kind_of s' k = kind_of s k;
  fe_res : forall k, k <> t -> res_of s' k = res_of s k;
  fe_val : res_value (res_of s' t) = Some v;
  fe_built : res_builtAt (res_of s' t) = res_builtAt (res_of s t);
  fe_other : forall t', t' <> t -> tcore s' t' = tcore s t';
  fe_self : forall ti, task_of s t = Some ti -> exists ti', task_of s' t = Some ti' /\ ti_slots ti' = ti_slots ti /\
              ti_branched ti' = ti_branched ti /\ ti_reqby ti' = ti_reqby ti /\ ti_pending ti' = None;
  fe_in : is_inreq s' = is_inreq s; fe_fin : is_fininreq s' = is_fininreq s; fe_ts : is_toscan s' = is_toscan s;
  fe_udb : is_usedb s' = is_usedb s; fe_ep : is_epoch s' = is_epoch s;
  fe_ft : is_fintasks s' = t :: is_fintasks s;
  fe_comp : kind_of s t = KComputing
}.

Lemma task_finish_eff s t ti v : task_of s t = Some ti -> ti_pending ti = Some v -> nf (task_finish rules s t) ->
  finish_eff s (task_finish rules s t) t v.
Proof.
  intros Hg Hp Hn. unfold task_finish in *. unfold task_of in Hg. rewrite Hg, Hp in *.
  set (s1 := set_ti s t (ti_with_pending None ti)) in *. set (s2 := fold_left (fun s d => discovered s t d) (r_disc (rules t)) s1) in *.
  set (s3 := iemit s2 (EComplete t v)) in *.
  pose proof (keeps_fold (fun s d => discovered s t d) (fun s d => keeps_discovered s t d) (r_disc (rules t)) s1) as (_ & K2 & _ & K4 & K5 & K6 & _ & K8).
  fold s2 in K2, K4, K5, K6, K8.
  assert (Hk3 : kind_of s3 t = KComputing).
  { unfold task_is_complete in Hn. destruct (kind_eqb (kind_of s3 t) KComputing) eqn:E; [now apply kind_eqb_eq|]. cbn [negb] in Hn. now apply nf_fault in Hn. }
  unfold task_is_complete. rewrite Hk3. cbn [kind_eqb negb]. cbn zeta.
  set (r' := completed_result _ _ _ v).
  assert (R3 : forall k, rinfo_of s3 k = rinfo_of s k) by (intros k; change (rinfo_of s3 k) with (rinfo_of s2 k); now rewrite K2).
  assert (RR : forall k, rinfo_of (upd_fintasks (set_res s3 t r') (t :: is_fintasks (set_res s3 t r'))) k = if N.eqb k t then ri_with_res r' (rinfo_of s t) else rinfo_of s k).
  { intros k. autorewrite with iv. rewrite !R3. reflexivity. }
  assert (TC : forall t', tcore (upd_fintasks (set_res s3 t r') (t :: is_fintasks (set_res s3 t r'))) t' = tcore s1 t').
  { intros t'. change (tcore (upd_fintasks _ _) t') with (tcore s2 t'). apply tcore_fold_discovered. }
  constructor.
  - intros k. unfold kind_of. rewrite RR. destruct (N.eqb k t) eqn:E; auto. apply N.eqb_eq in E. now subst.
  - intros k Hne. unfold res_of. rewrite RR. apply N.eqb_neq in Hne. now rewrite Hne.
  - unfold res_of. rewrite RR, N.eqb_refl. cbn [ri_with_res ri_res]. apply completed_result_value.
  - unfold res_of. rewrite RR, N.eqb_refl. cbn [ri_with_res ri_res]. unfold r'. rewrite completed_result_built. unfold res_of. now rewrite R3.
  - intros t' Hne. rewrite TC. unfold s1, tcore, task_of. autorewrite with iv. rewrite aget_aset. apply N.eqb_neq in Hne. now rewrite Hne.
  - intros ti0 Hg0. unfold task_of in Hg0. rewrite Hg in Hg0. inversion Hg0. subst ti0.
    assert (H1 : tcore s1 t = Some (core (ti_with_pending None ti))) by (unfold s1, tcore, task_of; autorewrite with iv; now rewrite aget_aset_same).
    rewrite <- TC in H1. unfold tcore in H1. destruct (task_of _ t) as [x|]; [|discriminate]. cbn [option_map] in H1.
    assert (Hc : core x = core (ti_with_pending None ti)) by congruence. unfold core in Hc. inversion Hc. exists x. repeat split; auto.
  - autorewrite with iv. change (is_inreq s3) with (is_inreq s2). unfold s2. now destruct (fold_discovered_fields t (r_disc (rules t)) s1) as [-> _].
  - autorewrite with iv. change (is_fininreq s3) with (is_fininreq s2). now rewrite K6.
  - autorewrite with iv. change (is_toscan s3) with (is_toscan s2). now rewrite K5.
  - autorewrite with iv. change (is_usedb s3) with (is_usedb s2). unfold s2. now destruct (fold_discovered_fields t (r_disc (rules t)) s1) as [_ ->].
  - autorewrite with iv. change (is_epoch s3) with (is_epoch s2). now rewrite K8.
  - autorewrite with iv. change (is_fintasks s3) with (is_fintasks s2). now rewrite K4.
  - unfold kind_of. rewrite <- R3. exact Hk3.
Qed.

Lemma Oreq_sub s s' : incl (is_inreq s) (is_inreq s') -> incl (is_fininreq s) (is_fininreq s') ->
  (forall t' ti', task_of s t' = Some ti' -> exists ti'', task_of s' t' = Some ti'' /\ incl (ti_reqby ti') (ti_reqby ti'')) ->
  forall rq, Oreq s rq -> Oreq s' rq.
Proof.
  intros Hi Hf Ht rq [H|[(t' & ti' & Hg & Hin)|H]]; [left; auto| |right; right; auto].
  right. left. destruct (Ht t' ti' Hg) as (x & Hx & Hinc). exists t', x. auto.
Qed.

Lemma rq_wf_sub s s' rq : (forall t ti, task_of s t = Some ti -> exists ti', task_of s' t = Some ti' /\ (length (ti_slots ti) <= length (ti_slots ti'))%nat) ->
  rq_wf s rq -> rq_wf s' rq.
Proof.
  intros Ht H t Hk Ho. destruct (H t Hk Ho) as (H1 & ti & Hg & Hl). split; auto. destruct (Ht t ti Hg) as (x & Hx & Hle). exists x. split; auto. lia.
Qed.

Lemma tcore_task s s' t ti : tcore s' t = tcore s t -> task_of s t = Some ti -> exists ti', task_of s' t = Some ti' /\ core ti' = core ti.
Proof. intros H Hg. symmetry in H. destruct (tcore_some s' s t ti H Hg) as (x & Hx & Hc). eauto. Qed.

Lemma core_fields a b : core a = core b -> ti_slots a = ti_slots b /\ ti_branched a = ti_branched b /\ ti_pending a = ti_pending b /\ ti_reqby a = ti_reqby b.
Proof. unfold core. intros H. inversion H. auto. Qed.

Lemma VInv_finish root s s' t ti v : VInv root s -> task_of s t = Some ti -> ti_pending ti = Some v -> finish_eff s s' t v -> VInv root s'.
Proof.
  intros [V1 V2 V3 V4 V5 V6 V7 V8 V9 V10] Hg Hp [E1 E2 E3 E4 E5 E6 E7 E8 E9 E10 E11 E12 E13].
  destruct (E6 ti Hg) as (ti' & Hg' & Es & Eb & Er & Ep).
  assert (Hcv : Some v = cvK t) by (apply (k_pend _ _ _ _ _ _ _ (V8 t ti Hg)); exact Hp).
  assert (Hfw : forall t0 x, task_of s t0 = Some x -> exists y, task_of s' t0 = Some y /\ ti_slots y = ti_slots x /\ ti_reqby y = ti_reqby x).
  { intros t0 x Hx. destruct (N.eq_dec t0 t) as [->|Hne].
    - rewrite Hg in Hx. inversion Hx. subst x. exists ti'. auto.
    - destruct (tcore_task s s' t0 x (E5 t0 Hne) Hx) as (y & Hy & Hc). apply core_fields in Hc. exists y. tauto. }
  assert (Hbw : forall t0 y, task_of s' t0 = Some y -> exists x, task_of s t0 = Some x /\ ti_slots y = ti_slots x /\ ti_reqby y = ti_reqby x).
  { intros t0 y Hy. destruct (N.eq_dec t0 t) as [->|Hne].
    - rewrite Hg' in Hy. inversion Hy. subst y. exists ti. auto.
    - destruct (tcore_some s s' t0 y (E5 t0 Hne) Hy) as (x & Hx & Hc). apply core_fields in Hc. exists x. split; auto. split; symmetry; tauto. }
  assert (O1 : forall rq, Oreq s rq -> Oreq s' rq).
  { apply Oreq_sub; [rewrite E7; apply incl_refl|rewrite E8; apply incl_refl|]. intros t0 x Hx. destruct (Hfw t0 x Hx) as (y & Hy & _ & Hr). exists y. split; auto. rewrite Hr. apply incl_refl. }
  assert (O2 : forall rq, Oreq s' rq -> Oreq s rq).
  { apply Oreq_sub; [rewrite E7; apply incl_refl|rewrite E8; apply incl_refl|]. intros t0 y Hy. destruct (Hbw t0 y Hy) as (x & Hx & _ & Hr). exists x. split; auto. rewrite Hr. apply incl_refl. }
  constructor.
  - congruence.
  - congruence.
  - intros k. rewrite E1. apply V3.
  - intros k. rewrite E1. intros Hk. destruct (N.eq_dec k t) as [->|Hne]; [rewrite E4|rewrite (E2 k Hne)]; auto.
  - intros k. rewrite E1. intros Hk. assert (Hne : k <> t) by (intros ->; congruence). rewrite (E2 k Hne), E11. auto.
  - intros rq Ho. apply (rq_wf_sub s s'); [|apply V6, O2, Ho]. intros t0 x Hx. destruct (Hfw t0 x Hx) as (y & Hy & Hs & _). exists y. split; auto. rewrite Hs. lia.
  - intros rq. rewrite E8, E1. apply V7.
  - intros t0 y Hy. destruct (N.eq_dec t0 t) as [->|Hne].
    + rewrite Hg' in Hy. inversion Hy. subst y. destruct (V8 t ti Hg) as [K1 K2 K3 K4 K5 K6]. constructor; rewrite ?Es, ?Eb, ?Ep; auto.
      * intros i Hu Hn. destruct (K3 i Hu Hn) as (rq & H1 & H2). exists rq. split; auto.
      * discriminate.
      * intros _. rewrite E3. exact Hcv.
    + destruct (tcore_some s s' t0 y (E5 t0 Hne) Hy) as (x & Hx & Hc).
      apply (task_ok_frame s s' t0 x y); auto.
      * rewrite E12. intros [H|H]; [congruence|auto].
      * now rewrite (E2 t0 Hne).
  - rewrite E7, E1, (in_progress_of_kind s s' root (E1 root)). exact V9.
  - now rewrite E11.
Qed.

Lemma VInv_task_finish root s t : VInv root s -> nf (task_finish rules s t) -> VInv root (task_finish rules s t).
Proof.
  intros HV Hn. destruct (task_of s t) as [ti|] eqn:Hg.
  - destruct (ti_pending ti) as [v|] eqn:Hp.
    + eapply VInv_finish; eauto. now apply task_finish_eff with (ti := ti).
    + unfold task_finish. unfold task_of in Hg. now rewrite Hg, Hp.
  - unfold task_finish. unfold task_of in Hg. now rewrite Hg.
Qed.

(* ---------- one finished task (no database) ---------- *)
Lemma finish_task_rinfo_nodb s t rest ti k : is_usedb s = false -> aget (is_tasks s) t = Some ti -> kind_of s t = KComputing ->
  rinfo_of (finish_task (upd_fintasks s rest) t) k =
  if N.eqb k t then ri_append_deps (ti_disc ti) (ri_complete (is_epoch s) (rinfo_of s t)) else rinfo_of s k.
Proof.
  intros Hu Hg Hk. unfold finish_task. change (aget (is_tasks (upd_fintasks s rest)) t) with (aget (is_tasks s) t). rewrite Hg. cbn zeta.
  change (kind_of (upd_fintasks s rest) t) with (kind_of s t). rewrite Hk. cbn [kind_eqb check].
  set (s2 := mod_ri (set_complete (upd_fintasks s rest) t) t (ri_append_deps (ti_disc ti))).
  destruct (push_dummies_views (ti_disc ti) s2) as (P1 & _ & _ & _ & _ & _ & _ & _ & _ & _ & _ & P12 & _).
  unfold db_write. rewrite P12. change (is_usedb s2) with (is_usedb s). rewrite Hu.
  unfold retire_task, wake_task_waiters. autorewrite with iv. rewrite P1. unfold s2, set_complete. autorewrite with iv. rewrite N.eqb_refl.
  destruct (N.eqb k t); reflexivity.
Qed.

Lemma finish_task_misc_nodb s t rest ti : is_usedb s = false -> aget (is_tasks s) t = Some ti -> kind_of s t = KComputing ->
  let s' := finish_task (upd_fintasks s rest) t in is_usedb s' = false /\ is_epoch s' = is_epoch s.
Proof.
  intros Hu Hg Hk. cbn zeta. unfold finish_task. change (aget (is_tasks (upd_fintasks s rest)) t) with (aget (is_tasks s) t). rewrite Hg. cbn zeta.
  change (kind_of (upd_fintasks s rest) t) with (kind_of s t). rewrite Hk. cbn [kind_eqb check].
  set (s2 := mod_ri (set_complete (upd_fintasks s rest) t) t (ri_append_deps (ti_disc ti))).
  destruct (push_dummies_views (ti_disc ti) s2) as (_ & _ & _ & _ & _ & _ & _ & _ & _ & _ & _ & P12 & _ & _ & P15).
  unfold db_write. rewrite P12. change (is_usedb s2) with (is_usedb s). rewrite Hu.
  unfold retire_task, wake_task_waiters. autorewrite with iv. rewrite P12, P15. auto.
Qed.

Lemma no_deferred_fb c s t ti : InvS c s -> (forall k, kind_of s k <> KScanning) -> aget (is_tasks s) t = Some ti -> ti_deferred ti = [].
Proof.
  intros HS Hk Hg. pose proof (s_ok_tdef c s HS t ti Hg) as H. destruct (ti_deferred ti) as [|rq l]; auto.
  inversion H as [|x y Hx Hy]. destruct Hx as (Hs & _). exfalso. exact (Hk _ Hs).
Qed.

Lemma VInv_step_fintask root s : Inv rules ctx0 s -> VInv root s -> VInv root (step_fintask s).
Proof.
  intros HI HV. unfold step_fintask. destruct (is_fintasks s) as [|t rest] eqn:Hq; auto.
  pose proof HI as (Hn & HT & HII & HS).
  destruct (t_ft ctx0 s HT t) as (ti & Hg & Hk & Hp); [rewrite Hq; now left|].
  destruct HV as [V1 V2 V3 V4 V5 V6 V7 V8 V9 V10].
  assert (R : retired s (finish_task (upd_fintasks s rest) t) t ti rest (map dummy_of (ti_disc ti))).
  { apply finish_task_retired; auto; [apply HT|]. intros k. destruct (N.eq_dec k t) as [->|Hne]; [left; rewrite Hk; discriminate|now right]. }
  pose proof (finish_task_rinfo_nodb s t rest ti) as RI. destruct (finish_task_misc_nodb s t rest ti V2 Hg Hk) as (Mu & Me).
  set (s' := finish_task (upd_fintasks s rest) t) in *.
  destruct R as [rt_nd0 rt_kind0 rt_paused0 rt_deferred0 rt_deps0 rt_sum_p0 rt_sum_d0 rt_tasks0 rt_toscan0 rt_fininreq0 rt_inreq0 rt_dummies0 rt_ready0 rt_fintasks0 rt_out0 rt_nf0].
  assert (Hdef : ti_deferred ti = []) by (eapply no_deferred_fb; eauto; intros k; apply V3).
  assert (Hres : forall k, k <> t -> res_of s' k = res_of s k).
  { intros k Hne. unfold res_of. rewrite (RI k V2 Hg Hk). apply N.eqb_neq in Hne. now rewrite Hne. }
  assert (Hrt : res_value (res_of s' t) = res_value (res_of s t) /\ res_builtAt (res_of s' t) = is_epoch s).
  { unfold res_of. rewrite (RI t V2 Hg Hk), N.eqb_refl. split; reflexivity. }
  (* the finished task has no request left *)
  assert (Hw0 : ti_wait ti = 0%nat) by (apply (t_cw ctx0 s HT t ti Hg Hk)).
  assert (Hz : (cnt_i t (cx_fi ctx0) + outstanding_count s t = 0)%nat) by (rewrite <- (i_wc rules ctx0 s HII t ti Hg); exact Hw0).
  destruct (no_ireq_of s t (cx_fi ctx0) Hz (t_nd_rules ctx0 s HT) (t_nd_tasks ctx0 s HT)) as (_ & Z2 & _ & Z4 & Z5).
  assert (Htask : forall t0, t0 <> t -> task_of s' t0 = task_of s t0).
  { intros t0 Hne. unfold task_of. rewrite rt_tasks0, aget_adel. apply N.eqb_neq in Hne. now rewrite Hne. }
  assert (Htask' : forall t0 x, task_of s' t0 = Some x -> t0 <> t /\ task_of s t0 = Some x).
  { intros t0 x. unfold task_of. rewrite rt_tasks0, aget_adel. destruct (N.eqb t0 t) eqn:E; [discriminate|]. apply N.eqb_neq in E. auto. }
  assert (O1 : forall rq, Oreq s rq -> Oreq s' rq).
  { intros rq [H|[(t0 & x & Hx & Hin)|H]].
    - left. rewrite rt_inreq0. apply in_or_app. now left.
    - destruct (N.eq_dec t0 t) as [->|Hne].
      + right. right. rewrite rt_fininreq0. apply in_or_app. left. apply -> in_rev. unfold task_of in Hx. rewrite Hg in Hx. now inversion Hx.
      + right. left. exists t0, x. rewrite (Htask t0 Hne). auto.
    - right. right. rewrite rt_fininreq0. apply in_or_app. now right. }
  assert (O2 : forall rq, Oreq s' rq -> iq_task rq = None \/ (Oreq s rq /\ iq_task rq <> Some t)).
  { intros rq [H|[(t0 & x & Hx & Hin)|H]].
    - rewrite rt_inreq0 in H. apply in_app_or in H. destruct H as [H|H]; [right; split; [now left|now apply Z2]|left; now apply rt_dummies0].
    - destruct (Htask' t0 x Hx) as [Hne Hx']. right. split; [right; left; eauto|eapply Z4; eauto].
    - rewrite rt_fininreq0 in H. apply in_app_or in H. destruct H as [H|H].
      + apply in_rev in H. right. split; [right; left; exists t, ti; auto|eapply Z4; eauto].
      + right. split; [right; right; auto|now apply Z5]. }
  constructor.
  - rewrite rt_toscan0, Hdef, V1. reflexivity.
  - exact Mu.
  - intros k. rewrite rt_kind0. destruct (N.eqb k t); [split; discriminate|apply V3].
  - intros k. rewrite rt_kind0. destruct (N.eqb k t) eqn:E; [intros H; now contradiction H|]. apply N.eqb_neq in E. rewrite (Hres k E). apply V4.
  - intros k. rewrite rt_kind0, Me. destruct (N.eqb k t) eqn:E.
    + apply N.eqb_eq in E. subst k. intros _. destruct Hrt as [-> ->]. split; auto.
      apply (k_fin _ _ _ _ _ _ _ (V8 t ti Hg)). rewrite Hq. now left.
    + apply N.eqb_neq in E. rewrite (Hres k E). apply V5.
  - intros rq Ho t0 Ht0 Hord. destruct (O2 rq Ho) as [Hd|[Hold Hnt]]; [congruence|].
    destruct (V6 rq Hold t0 Ht0 Hord) as (H1 & x & Hx & Hl). split; auto. exists x. split; auto.
    rewrite Htask; auto. intros ->. congruence.
  - intros rq. rewrite rt_fininreq0, rt_kind0. intros H. apply in_app_or in H. destruct (N.eqb (iq_input rq) t) eqn:E; auto.
    destruct H as [H|H]; [|now apply V7]. apply in_rev in H.
    destruct (i_pl_reqby rules ctx0 s HII t ti rq Hg H) as [Hin _]. rewrite Hin, N.eqb_refl in E. discriminate.
  - intros t0 x Hx. destruct (Htask' t0 x Hx) as [Hne Hx'].
    apply (task_ok_frame s s' t0 x x); auto.
    + destruct rt_fintasks0 as [_ ->]. intros H. rewrite Hq. now right.
    + now rewrite (Hres t0 Hne).
  - destruct V9 as [H|[H|H]].
    + left. rewrite rt_inreq0. apply in_or_app. now left.
    + unfold is_in_progress in *. rewrite rt_kind0. destruct (N.eqb root t); auto.
    + right. right. rewrite rt_kind0. destruct (N.eqb root t); auto.
  - now rewrite Me.
Qed.
End Val.
