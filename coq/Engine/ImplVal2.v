(* P19b - values, part 2: the value invariant depends on a few views of the state; frame lemma; complete() and the finished-task step. *)
From LLB Require Import Engine.Rules Engine.Spec Engine.SpecInv1 Engine.Impl Engine.ImplProofs Engine.ImplProofsSticky Engine.ImplProofsInv
  Engine.ImplProofsInv2 Engine.ImplProofsInv3 Engine.ImplProofsInv7 Engine.ImplProofsInv8 Engine.ImplProofsInv9 Engine.ImplProofsAvail
  Engine.ImplProofsProto Engine.ImplVal1.
From Coq Require Import Arith Lia.
Local Open Scope N_scope.

(* the part of a task record the values depend on *)
Definition core (ti : tinfo) := (ti_slots ti, ti_branched ti, ti_pending ti, ti_reqby ti).
Definition tcore (s : istate) (t : key) := option_map core (task_of s t).

Lemma tcore_some s s' t ti : tcore s' t = tcore s t -> task_of s' t = Some ti -> exists ti0, task_of s t = Some ti0 /\ core ti0 = core ti.
Proof. unfold tcore. intros H Hg. rewrite Hg in H. destruct (task_of s t) as [ti0|]; [|discriminate]. inversion H. eauto. Qed.

Section Val.
Variable rules : key -> rule.
Variable env : key -> N.
Variable F : key -> N -> list value -> list N -> N -> N.
Variable rank : key -> nat.
Notation cvK := (cvK rules env F rank).
Notation task_ok := (task_ok rules env F rank).
Notation VInv := (VInv rules env F rank).
Notation rq_wf := (rq_wf rules env F rank).

Lemma Oreq_frame s s' rq : (forall t, tcore s' t = tcore s t) -> is_inreq s' = is_inreq s -> is_fininreq s' = is_fininreq s ->
  Oreq s rq -> Oreq s' rq.
Proof.
  intros Ht Hi Hf [H|[(t' & ti' & Hg & Hin)|H]]; [left; congruence| |right; right; congruence].
  right. left. assert (Ht' := Ht t'). unfold tcore in Ht'. rewrite Hg in Ht'. destruct (task_of s' t') as [x|] eqn:E; [|discriminate].
  inversion Ht' as [Hc]. unfold core in Hc. inversion Hc. exists t', x. split; auto. congruence.
Qed.

Lemma rq_wf_frame s s' rq : (forall t, tcore s' t = tcore s t) -> rq_wf s rq -> rq_wf s' rq.
Proof.
  intros Ht H t Hk Ho. destruct (H t Hk Ho) as (H1 & ti & Hg & Hl). split; auto.
  assert (Ht' := Ht t). unfold tcore in Ht'. rewrite Hg in Ht'. destruct (task_of s' t) as [x|] eqn:E; [|discriminate].
  inversion Ht' as [Hc]. unfold core in Hc. inversion Hc. exists x. split; auto. congruence.
Qed.

Lemma task_ok_frame s s' t ti ti' : core ti' = core ti -> (forall rq, Oreq s rq -> Oreq s' rq) ->
  (In t (is_fintasks s') -> In t (is_fintasks s)) -> res_value (res_of s' t) = res_value (res_of s t) ->
  task_ok s t ti -> task_ok s' t ti'.
Proof.
  intros Hc Ho Hf Hv [K1 K2 K3 K4 K5 K6]. unfold core in Hc. inversion Hc as [[E1 E2 E3 E4]].
  constructor; rewrite ?E1, ?E2, ?E3; auto.
  - intros i Hu Hn. destruct (K3 i Hu Hn) as (rq & H1 & H2). exists rq. split; auto.
  - intros H. rewrite Hv. auto.
Qed.

Lemma in_progress_of_kind s s' k : kind_of s' k = kind_of s k -> is_in_progress s' k = is_in_progress s k.
Proof. unfold is_in_progress. now intros ->. Qed.

Lemma VInv_frame root s s' :
  (forall k, kind_of s' k = kind_of s k) -> (forall k, res_value (res_of s' k) = res_value (res_of s k)) ->
  (forall k, res_builtAt (res_of s' k) = res_builtAt (res_of s k)) -> (forall t, tcore s' t = tcore s t) ->
  is_inreq s' = is_inreq s -> is_fininreq s' = is_fininreq s -> is_fintasks s' = is_fintasks s -> is_toscan s' = is_toscan s ->
  is_usedb s' = is_usedb s -> is_epoch s' = is_epoch s -> VInv root s -> VInv root s'.
Proof.
  intros Hk Hv Hb Ht Hi Hf Hft Hts Hu He [V1 V2 V3 V4 V5 V6 V7 V8 V9 V10].
  assert (Ht' : forall t, tcore s t = tcore s' t) by (intros; symmetry; apply Ht).
  constructor.
  - congruence.
  - congruence.
  - intros k. rewrite Hk. apply V3.
  - intros k. rewrite Hk, Hb. apply V4.
  - intros k. rewrite Hk, Hb, Hv, He. apply V5.
  - intros rq Ho. apply (rq_wf_frame s s'); auto. apply V6. apply (Oreq_frame s' s); auto.
  - intros rq. rewrite Hf, Hk. apply V7.
  - intros t ti Hg. destruct (tcore_some s s' t ti (Ht t) Hg) as (ti0 & Hg0 & Hc).
    apply (task_ok_frame s s' t ti0 ti); auto.
    + intros rq. apply Oreq_frame; auto.
    + now rewrite Hft.
  - rewrite Hi, (in_progress_of_kind s s' root (Hk root)), Hk. exact V9.
  - now rewrite He.
Qed.
End Val.
