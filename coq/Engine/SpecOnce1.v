(* C02, part 1: within one build every rule is executed at most once; every execution has exactly one
   reported reason (ENeed immediately before ECreate, and no ENeed without its ECreate). *)
From LLB Require Import Engine.Rules Engine.Spec Engine.SpecOnceFrame.
From Coq Require Import List NArith Bool Lia Arith.
Local Open Scope N_scope.

Definition ostate (o : outcome) : option state :=
  match o with Ok s => Some s | Cycle s _ => Some s | OutOfFuel => None end.

Lemma frame_o_st : forall st s o s', frame_o st s o -> ostate o = Some s' ->
  frame_st st s s' false (new_log s s').
Proof.
  intros st s [s1|s1 p|] s' H E; cbn [ostate] in E; inversion E; subst; cbn [frame_o] in H;
    [eapply frame_weaken_ok; exact H | exact H].
Qed.

Lemma frame_o_log : forall st s o s', frame_o st s o -> ostate o = Some s' ->
  st_log s' = new_log s s' ++ st_log s.
Proof. intros st s o s' H E. exact (fr_log _ _ _ _ _ (frame_o_st _ _ _ _ H E)). Qed.

Lemma new_log_trans : forall s s1 s2 l1 l2, st_log s1 = l1 ++ st_log s -> st_log s2 = l2 ++ st_log s1 ->
  new_log s s2 = l2 ++ l1.
Proof. intros s s1 s2 l1 l2 H1 H2. apply new_log_intro. rewrite H2, H1. now rewrite app_assoc. Qed.

(* ---------- at most once ---------- *)

Section Once.
Variable rules : key -> rule.
Variable env : key -> N.
Variable F : key -> N -> list value -> list N -> N -> N.
Variable order : N -> key -> list dep -> list dep.

Lemma build_new_log : forall fuel s k s',
  ostate (build rules env F order fuel s k) = Some s' ->
  exists s1, ostate (ensure rules env F order fuel [] (bump_epoch s) k) = Some s1 /\
             s' = commit_epoch s1 /\ new_log s s' = new_log (bump_epoch s) s1.
Proof.
  intros fuel s k s' H. unfold build in H.
  destruct (ensure rules env F order fuel [] (bump_epoch s) k) as [s1|s1 p|]; cbn [ostate] in *;
    [| |discriminate]; inversion H; subst; exists s1; repeat split; reflexivity.
Qed.

Theorem ensure_at_most_once : forall fuel stack s k s',
  ostate (ensure rules env F order fuel stack s k) = Some s' -> NoDup (creates (new_log s s')).
Proof.
  intros fuel stack s k s' H. destruct (ensure_frame rules env F order fuel stack s k) as [A _].
  exact (fr_nodup _ _ _ _ _ (frame_o_st _ _ _ _ A H)).
Qed.

Theorem build_at_most_once : forall fuel s k s',
  ostate (build rules env F order fuel s k) = Some s' -> NoDup (creates (new_log s s')).
Proof.
  intros fuel s k s' H. destruct (build_new_log _ _ _ _ H) as (s1 & E & _ & ->).
  eapply ensure_at_most_once. exact E.
Qed.

(* what a build creates was not complete before, and after a successful build it is *)
Theorem build_created_complete : forall fuel s k s',
  build rules env F order fuel s k = Ok s' ->
  forall x, In x (creates (new_log s s')) -> res_builtAt (get (st_mem s') x) = st_epoch s'.
Proof.
  intros fuel s k s' H x Hx. unfold build in H.
  destruct (ensure rules env F order fuel [] (bump_epoch s) k) as [s1|s1 p|] eqn:E; inversion H. subst s'.
  destruct (ensure_frame rules env F order fuel [] (bump_epoch s) k) as [A _]. rewrite E in A. cbn [frame_o] in A.
  change (new_log s (commit_epoch s1)) with (new_log (bump_epoch s) s1) in Hx.
  exact (fr_done _ _ _ _ _ A eq_refl x Hx).
Qed.

End Once.

(* ---------- one reason per execution ---------- *)

Definition quiet (e : event) : Prop := match e with ECreate _ | ENeed _ _ _ => False | _ => True end.

Inductive paired : list event -> Prop :=
| paired_nil : paired []
| paired_quiet : forall e t, quiet e -> paired t -> paired (e :: t)
| paired_pair : forall k rs inp t, paired t -> paired (ECreate k :: ENeed k rs inp :: t).

Lemma paired_app : forall l1 l2, paired l1 -> paired l2 -> paired (l1 ++ l2).
Proof.
  intros l1 l2 H1 H2. induction H1 as [|e t Hq H IH|k rs inp t H IH]; cbn [app].
  - exact H2.
  - now apply paired_quiet.
  - now apply paired_pair.
Qed.

Lemma paired_quiet_list : forall l, Forall quiet l -> paired l.
Proof. intros l H. induction H; [constructor | now apply paired_quiet]. Qed.

(* the declarative reading *)
Lemma paired_create_preceded : forall l, paired l -> forall l1 k l2, l = l1 ++ ECreate k :: l2 ->
  exists rs inp l3, l2 = ENeed k rs inp :: l3.
Proof.
  intros l H. induction H as [|e t Hq H IH|k0 rs inp t H IH]; intros l1 k l2 E.
  - destruct l1; discriminate.
  - destruct l1 as [|e1 l1]; cbn [app] in E; inversion E; subst.
    + destruct Hq.
    + eapply IH. reflexivity.
  - destruct l1 as [|e1 l1]; cbn [app] in E; inversion E; subst.
    + eexists _, _, _. reflexivity.
    + destruct l1 as [|e2 l1]; cbn [app] in *; [discriminate|].
      match goal with X : _ :: _ = _ :: _ |- _ => inversion X; subst end. eapply IH. reflexivity.
Qed.

Lemma paired_need_followed : forall l, paired l -> forall l1 k rs inp l2, l = l1 ++ ENeed k rs inp :: l2 ->
  exists l0, l1 = l0 ++ [ECreate k].
Proof.
  intros l H. induction H as [|e t Hq H IH|k0 rs0 inp0 t H IH]; intros l1 k rs inp l2 E.
  - destruct l1; discriminate.
  - destruct l1 as [|e1 l1]; cbn [app] in E; inversion E; subst.
    + destruct Hq.
    + destruct (IH _ _ _ _ _ eq_refl) as [l0 ->]. exists (e1 :: l0). reflexivity.
  - destruct l1 as [|e1 l1]; cbn [app] in E; inversion E; subst.
    destruct l1 as [|e2 l1]; cbn [app] in *.
    + match goal with X : _ :: _ = _ :: _ |- _ => inversion X; subst end. exists []. reflexivity.
    + match goal with X : _ :: _ = _ :: _ |- _ => inversion X; subst end.
      destruct (IH _ _ _ _ _ eq_refl) as [l0 ->]. exists (ECreate k0 :: ENeed k0 rs0 inp0 :: l0). reflexivity.
Qed.

Lemma paired_needs_creates : forall l, paired l -> needs l = creates l.
Proof.
  intros l H. induction H as [|e t Hq H IH|k rs inp t H IH]; [reflexivity | |].
  - destruct e; cbn [needs creates]; try exact IH; destruct Hq.
  - cbn [needs creates]. now rewrite IH.
Qed.

Definition pair_o (s : state) (o : outcome) : Prop :=
  forall s', ostate o = Some s' -> exists l, st_log s' = l ++ st_log s /\ paired l.

Section Pair.
Variable rules : key -> rule.
Variable env : key -> N.
Variable F : key -> N -> list value -> list N -> N -> N.
Variable order : N -> key -> list dep -> list dep.
Variable ens : list key -> state -> key -> outcome.
Hypothesis Hpair : forall stack s k, pair_o s (ens stack s k).

Lemma seg_paired : forall st ks s o, seg ens st ks s o -> pair_o s o.
Proof.
  intros st ks s o H. induction H as [s|ks s e o Hp H IH|ks s x s1 o Hc H IH|ks s x o Hc Hn]; intros s' E.
  - inversion E. subst. exists []. split; [reflexivity | constructor].
  - destruct (IH _ E) as (l & L & P). exists (l ++ [e]). split; [rewrite L; now rewrite <- app_assoc|].
    apply paired_app; [exact P|]. apply paired_quiet; [|constructor]. destruct e; try exact I; destruct Hp.
  - destruct (IH _ E) as (l & L & P). destruct (Hpair st s x s1) as (l1 & L1 & P1); [now rewrite Hc|].
    exists (l ++ l1). split; [rewrite L, L1; now rewrite app_assoc | now apply paired_app].
  - apply (Hpair st s x). now rewrite Hc.
Qed.

(* the log of [run]: a paired part, then the creation *)
Lemma run_paired : forall k stack r s s', ostate (run rules env F order ens k stack r s) = Some s' ->
  exists X, st_log s' = X ++ ECreate k :: st_log s /\ paired X.
Proof.
  intros k stack r s s' E.
  assert (Hpre : exists P, run_pre_log rules k r = P ++ [ECreate k] /\ Forall quiet P).
  { unfold run_pre_log. destruct (_ && _).
    - exists [EPrior k (res_value r); EStart k]. split; [reflexivity | repeat constructor].
    - exists [EStart k]. split; [reflexivity | repeat constructor]. }
  destruct Hpre as (P & HP & HPq).
  destruct (run_cases rules env F order ens k stack r s _ eq_refl)
    as [(s4 & slots1 & slots3 & GA & GB) | (Hno & ks & GA)].
  - destruct (seg_paired _ _ _ _ GA _ eq_refl) as (lA & LA & PA).
    destruct (seg_paired _ _ _ _ GB _ E) as (lB & LB & PB).
    rewrite run_pre_log_eq, HP in LA.
    exists (lB ++ (EComplete k (task_value rules env F k (rules k) slots1 slots3) :: EAvail k :: lA) ++ P).
    split.
    + rewrite LB. unfold complete. cbn [set_db set_mem unflag emit st_log].
      rewrite LA. rewrite <- !app_assoc. reflexivity.
    + apply paired_app; [exact PB|]. apply paired_app; [|now apply paired_quiet_list].
      apply paired_quiet; [exact I|]. apply paired_quiet; [exact I|]. exact PA.
  - destruct (seg_paired _ _ _ _ GA _ E) as (lA & LA & PA).
    rewrite run_pre_log_eq, HP in LA.
    exists (lA ++ P). split.
    + rewrite LA. now rewrite <- !app_assoc.
    + apply paired_app; [exact PA | now apply paired_quiet_list].
Qed.

Lemma run_after_need : forall k stack r s0 s1 rs inp Q,
  st_log s1 = ENeed k rs inp :: Q ++ st_log s0 -> Forall quiet Q ->
  pair_o s0 (run rules env F order ens k stack r s1).
Proof.
  intros k stack r s0 s1 rs inp Q L HQ s' E. destruct (run_paired _ _ _ _ _ E) as (X & HX & PX).
  exists (X ++ ECreate k :: ENeed k rs inp :: Q). split.
  - rewrite HX, L. rewrite <- app_assoc. reflexivity.
  - apply paired_app; [exact PX|]. apply paired_pair. now apply paired_quiet_list.
Qed.

Lemma scan_paired : forall k stack r ds s0 s Q, st_log s = Q ++ st_log s0 -> paired Q ->
  pair_o s0 (scan rules env F order ens k stack r ds s).
Proof.
  intros k stack r ds. induction ds as [|d ds IH]; intros s0 s Q L HQ; cbn [scan].
  - intros s' E. inversion E. subst s'. exists Q. split; [exact L | exact HQ].
  - destruct (ens (k :: stack) s (d_key d)) as [s1|s1 p|] eqn:Ec.
    + destruct (Hpair (k :: stack) s (d_key d) s1) as (l1 & L1 & P1); [now rewrite Ec|].
      assert (L1' : st_log s1 = (l1 ++ Q) ++ st_log s0) by (rewrite L1, L; now rewrite app_assoc).
      destruct (negb (d_order d) && (res_builtAt r <? res_computedAt (get (st_mem s1) (d_key d)))).
      * intros s' E. destruct (run_paired _ _ _ _ _ E) as (X & HX & PX).
        exists (X ++ ECreate k :: ENeed k InputRebuilt (Some (d_key d)) :: l1 ++ Q). split.
        -- rewrite HX. cbn [emit st_log]. rewrite L1'. rewrite <- !app_assoc. cbn [app]. rewrite <- !app_assoc. reflexivity.
        -- apply paired_app; [exact PX|]. apply paired_pair. now apply paired_app.
      * eapply IH; [exact L1' | now apply paired_app].
    + intros s' E. cbn [ostate] in E. inversion E. subst s'.
      destruct (Hpair (k :: stack) s (d_key d) s1) as (l1 & L1 & P1); [now rewrite Ec|].
      exists (l1 ++ Q). split; [rewrite L1, L; now rewrite app_assoc | now apply paired_app].
    + intros s' E. discriminate.
Qed.

Lemma ensure_body_paired : forall stack s k, pair_o s (ensure_body rules env F order ens stack s k).
Proof.
  intros stack s k. unfold ensure_body.
  destruct (existsb (N.eqb k) stack).
  { intros s' E. inversion E. subst. exists []. split; [reflexivity | constructor]. }
  destruct (N.eqb (res_builtAt (get (st_mem s) k)) (st_epoch s)).
  { intros s' E. inversion E. subst. exists []. split; [reflexivity | constructor]. }
  set (r := mkRes _ _ _ _ _). set (s1 := set_mem s k r).
  destruct (N.eqb (res_builtAt r) 0).
  { apply run_after_need with (rs := NeverBuilt) (inp := None) (Q := []); [reflexivity | constructor]. }
  destruct (flagged s1 k).
  { apply run_after_need with (rs := Forced) (inp := None) (Q := []); [reflexivity | constructor]. }
  destruct (negb (N.eqb (r_sig (rules k)) (res_sig r))).
  { apply run_after_need with (rs := SignatureChanged) (inp := None) (Q := []); [reflexivity | constructor]. }
  destruct (negb (valid rules env k r)).
  { apply run_after_need with (rs := InvalidValue) (inp := None) (Q := [EValid k false]); [reflexivity | repeat constructor]. }
  apply scan_paired with (Q := [EValid k true]); [reflexivity | repeat constructor].
Qed.

End Pair.

Section PairLift.
Variable rules : key -> rule.
Variable env : key -> N.
Variable F : key -> N -> list value -> list N -> N -> N.
Variable order : N -> key -> list dep -> list dep.

Theorem ensure_paired : forall fuel stack s k, pair_o s (ensure rules env F order fuel stack s k).
Proof.
  induction fuel as [|f IH]; intros stack s k; cbn [ensure].
  - intros s' E. discriminate.
  - apply ensure_body_paired. exact IH.
Qed.

Theorem build_paired : forall fuel s k s',
  ostate (build rules env F order fuel s k) = Some s' -> paired (new_log s s').
Proof.
  intros fuel s k s' H. destruct (build_new_log rules env F order _ _ _ _ H) as (s1 & E & _ & ->).
  destruct (ensure_paired fuel [] (bump_epoch s) k s1 E) as (l & L & P).
  now rewrite (new_log_intro _ _ _ L).
Qed.

End PairLift.
