(* P19b - values, part 5: one input request in a first build (scanRule finds "never built", demandRule creates the task). *)
From LLB Require Import Engine.Rules Engine.Spec Engine.SpecInv1 Engine.Impl Engine.ImplProofs Engine.ImplProofsSticky Engine.ImplProofsMono Engine.ImplProofsInv
  Engine.ImplProofsInv2 Engine.ImplProofsInv3 Engine.ImplProofsInv4 Engine.ImplProofsInv6 Engine.ImplProofsInv7 Engine.ImplProofsInv8 Engine.ImplProofsInv9 Engine.ImplProofsAvail
  Engine.ImplProofsProto Engine.ImplVal1 Engine.ImplVal2 Engine.ImplVal3 Engine.ImplVal4.
From Coq Require Import Arith Lia.
Local Open Scope N_scope.

(* the views of a state that the value invariant looks at, bundled: s' differs from s only in the listed ways *)
Record same_views (s s' : istate) : Prop := {
  sv_rinfo_kind : forall k, kind_of s' k = kind_of s k;
  sv_val : forall k, res_value (res_of s' k) = res_value (res_of s k);
  sv_built : forall k, res_builtAt (res_of s' k) = res_builtAt (res_of s k);
  sv_tasks : is_tasks s' = is_tasks s;
  sv_inreq : is_inreq s' = is_inreq s; sv_fin : is_fininreq s' = is_fininreq s; sv_ft : is_fintasks s' = is_fintasks s;
  sv_ts : is_toscan s' = is_toscan s; sv_udb : is_usedb s' = is_usedb s; sv_ep : is_epoch s' = is_epoch s
}.

Section Val.
Variable rules : key -> rule.
Variable env : key -> N.
Variable ord : key -> list rkind.

(* scanRule in a first build: always "scanned"; an Incomplete rule becomes NeedsToRun (never built) *)
Lemma scan_rule_fb s k : kind_of s k <> KScanning -> kind_of s k <> KDoesNotNeedToRun ->
  (kind_of s k <> KComplete -> res_builtAt (res_of s k) = 0) -> (kind_of s k = KComplete -> res_builtAt (res_of s k) = is_epoch s) ->
  exists s1, scan_rule rules env s k = (true, s1) /\
    (forall k', k' <> k -> rinfo_of s1 k' = rinfo_of s k') /\
    kind_of s1 k = (match kind_of s k with KIncomplete => KNeedsToRun | kd => kd end) /\
    res_value (res_of s1 k) = res_value (res_of s k) /\ res_builtAt (res_of s1 k) = res_builtAt (res_of s k) /\
    is_tasks s1 = is_tasks s /\ is_inreq s1 = is_inreq s /\ is_fininreq s1 = is_fininreq s /\ is_fintasks s1 = is_fintasks s /\
    is_toscan s1 = is_toscan s /\ is_usedb s1 = is_usedb s /\ is_epoch s1 = is_epoch s /\ is_ready s1 = is_ready s.
Proof.
  intros H1 H2 H3 H4. unfold scan_rule.
  destruct (is_scanned s k) eqn:Es.
  { exists s. split; auto. repeat split; auto. unfold is_scanned in Es. destruct (kind_of s k); auto; discriminate. }
  assert (Hk : kind_of s k = KIncomplete).
  { unfold is_scanned, is_complete in Es. destruct (kind_of s k) eqn:E; try discriminate; auto; try contradiction.
    cbn [kind_eqb andb] in Es. rewrite (H4 eq_refl), N.eqb_refl in Es. discriminate. }
  rewrite Hk. cbn [kind_eqb]. cbn zeta.
  assert (Hb : res_builtAt (res_of (mod_ri s k ri_clean_single) k) = 0).
  { rewrite res_of_mod_ri, N.eqb_refl. cbn [ri_clean_single ri_with_res ri_res res_with_deps res_builtAt]. apply H3. rewrite Hk. discriminate. }
  rewrite Hb. cbn [N.eqb]. eexists. split; [reflexivity|]. unfold need.
  split; [|split; [|split; [|split]]].
  - intros k' Hne. autorewrite with iv. apply N.eqb_neq in Hne. now rewrite !Hne.
  - unfold kind_of. autorewrite with iv. now rewrite N.eqb_refl.
  - unfold res_of. autorewrite with iv. now rewrite !N.eqb_refl.
  - unfold res_of. autorewrite with iv. now rewrite !N.eqb_refl.
  - repeat split; now autorewrite with iv.
Qed.

Record created (s s' : istate) (k : key) : Prop := {
  cr_other : forall k', k' <> k -> rinfo_of s' k' = rinfo_of s k';
  cr_kind : kind_of s' k = KWaiting;
  cr_val : res_value (res_of s' k) = res_value (res_of s k);
  cr_built : res_builtAt (res_of s' k) = res_builtAt (res_of s k);
  cr_tasks : forall t0, t0 <> k -> task_of s' t0 = task_of s t0;
  cr_new : exists n, task_of s' k = Some (ti_with_wait n (ti_with_slots (initial_slots (rules k)) new_tinfo));
  cr_inreq : is_inreq s' = is_inreq s ++ flat_map (group_reqs rules k) (ord k);
  cr_fin : is_fininreq s' = is_fininreq s; cr_ft : is_fintasks s' = is_fintasks s; cr_ts : is_toscan s' = is_toscan s;
  cr_udb : is_usedb s' = is_usedb s; cr_ep : is_epoch s' = is_epoch s
}.

Lemma create_task_fb s k : kind_of s k = KNeedsToRun -> res_builtAt (res_of s k) = 0 -> nf (create_task rules ord s k) ->
  created s (create_task rules ord s k) k.
Proof.
  intros Hk Hb Hn. unfold create_task in *. cbn zeta in *. rewrite Hk in *. cbn [kind_eqb check] in *.
  set (s1 := begin_task s k) in *.
  assert (Hg1 : task_of s1 k = Some new_tinfo) by (unfold s1, task_of; rewrite begin_task_tasks; apply aget_aset_same).
  assert (Hn3 : nf (prior_value rules (task_start rules ord s1 k) k)) by (now apply sticky_ready_if_nowait in Hn).
  assert (Hn2 : nf (task_start rules ord s1 k)) by (now apply sticky_prior_value in Hn3).
  pose proof (issues_task_start rules ord s1 k new_tinfo Hg1 Hn2) as [A1 A2 A3 A4 A5 A6 A7 A8 A9 A10].
  set (s2 := task_start rules ord s1 k) in *.
  assert (R1 : forall k', rinfo_of s1 k' = if N.eqb k' k then ri_begin_task (rinfo_of s k) else rinfo_of s k').
  { intros k'. unfold s1, begin_task. now autorewrite with iv. }
  assert (Hp : prior_value rules s2 k = s2).
  { unfold prior_value. cbn zeta. unfold res_of. rewrite A1, R1, N.eqb_refl. cbn [ri_begin_task ri_res res_with_deps res_builtAt]. unfold res_of in Hb. rewrite Hb. reflexivity. }
  rewrite Hp in *.
  assert (V : forall P : istate -> Prop, P s2 -> (forall q, P (upd_ready s2 q)) -> P (ready_if_nowait s2 k)).
  { intros P H1 H2. unfold ready_if_nowait in *. destruct (aget (is_tasks s2) k); [destruct (Nat.eqb _ _)|]; auto. exfalso. now apply nf_fault in Hn. }
  constructor.
  - intros k' Hne. apply (V (fun x => rinfo_of x k' = rinfo_of s k')); intros; autorewrite with iv; rewrite A1, R1; apply N.eqb_neq in Hne; now rewrite Hne.
  - apply (V (fun x => kind_of x k = KWaiting)); intros; unfold kind_of; autorewrite with iv; rewrite A1, R1, N.eqb_refl; reflexivity.
  - apply (V (fun x => res_value (res_of x k) = res_value (res_of s k))); intros; unfold res_of; autorewrite with iv; rewrite A1, R1, N.eqb_refl; reflexivity.
  - apply (V (fun x => res_builtAt (res_of x k) = res_builtAt (res_of s k))); intros; unfold res_of; autorewrite with iv; rewrite A1, R1, N.eqb_refl; reflexivity.
  - intros t0 Hne. apply (V (fun x => task_of x t0 = task_of s t0)); intros; unfold task_of; autorewrite with iv; fold (task_of s2 t0); rewrite (A3 t0 Hne);
      unfold s1, task_of; rewrite begin_task_tasks, aget_aset; apply N.eqb_neq in Hne; now rewrite Hne.
  - destruct (A4 _ Hg1) as (n & Hg2). exists n. apply (V (fun x => task_of x k = Some _)); intros; unfold task_of; autorewrite with iv; exact Hg2.
  - apply (V (fun x => is_inreq x = _)); intros; autorewrite with iv; rewrite A2; reflexivity.
  - apply (V (fun x => is_fininreq x = _)); intros; autorewrite with iv; rewrite A5; reflexivity.
  - apply (V (fun x => is_fintasks x = _)); intros; autorewrite with iv; rewrite A6; reflexivity.
  - apply (V (fun x => is_toscan x = _)); intros; autorewrite with iv; rewrite A7; reflexivity.
  - apply (V (fun x => is_usedb x = _)); intros; autorewrite with iv; rewrite A9; reflexivity.
  - apply (V (fun x => is_epoch x = _)); intros; autorewrite with iv; rewrite A8; reflexivity.
Qed.

Variable F : key -> N -> list value -> list N -> N -> N.
Variable rank : key -> nat.
Hypothesis Hrank : wf_rank rules rank.
Hypothesis Hord : forall k, In RReq (ord k).
Notation cvK := (cvK rules env F rank).
Notation bkK := (bkK rules env F rank).
Notation n1 := (n1 rules).
Notation n2 := (n2 rules).
Notation key_of_slot := (key_of_slot rules env F rank).
Notation task_ok := (task_ok rules env F rank).
Notation VInv := (VInv rules env F rank).
Notation rq_wf := (rq_wf rules env F rank).

Lemma in_group_reqs k rq : In rq (flat_map (group_reqs rules k) (ord k)) ->
  iq_task rq = Some k /\ (iq_order rq = false -> key_of_slot k (iq_slot rq) = Some (iq_input rq) /\ (iq_slot rq < n1 k + n2 k)%nat).
Proof.
  intros H. apply in_flat_map in H. destruct H as (c & _ & H). destruct c; cbn [group_reqs] in H.
  - destruct (mk_reqs_inv _ _ _ _ _ H) as (j & x & Hj & ->). cbn [iq_task iq_order iq_slot iq_input]. split; auto. intros _.
    assert (Hlt : (j < n1 k)%nat) by (apply nth_error_Some; unfold ImplVal1.n1; congruence).
    unfold ImplVal1.key_of_slot. cbn [plus]. apply Nat.ltb_lt in Hlt. rewrite Hlt. apply Nat.ltb_lt in Hlt. split; [exact Hj|lia].
  - destruct (mk_reqs_inv _ _ _ _ _ H) as (j & x & Hj & ->). cbn [iq_task iq_order iq_slot iq_input]. split; auto. intros _.
    assert (Hlt : (j < n2 k)%nat) by (apply nth_error_Some; unfold ImplVal1.n2; congruence).
    unfold ImplVal1.key_of_slot. fold (n1 k) (n2 k).
    assert (E1 : Nat.ltb (n1 k + j) (n1 k) = false) by (apply Nat.ltb_ge; lia).
    assert (E2 : Nat.ltb (n1 k + j) (n1 k + n2 k) = true) by (apply Nat.ltb_lt; lia).
    rewrite E1, E2. replace (n1 k + j - n1 k)%nat with j by lia. split; [exact Hj|lia].
  - unfold mk_follows in H. apply in_map_iff in H. destruct H as (x & <- & _). cbn [iq_task iq_order]. split; auto. discriminate.
Qed.

Lemma req_witness k i x : nth_error (r_req (rules k)) i = Some x ->
  In (mkIReq (Some k) i x false false) (flat_map (group_reqs rules k) (ord k)).
Proof. intros H. apply in_flat_map. exists RReq. split; [apply Hord|]. cbn [group_reqs]. now apply (in_mk_reqs k (r_req (rules k)) 0%nat false i x). Qed.

(* Stage 1: a task is created for rule k (which was not in progress and not complete) *)
Lemma VInv_created root s s' k : VInv root s -> created s s' k -> task_of s k = None -> ~ In k (is_fintasks s) ->
  kind_of s k <> KComplete -> VInv root s'.
Proof.
  intros [V1 V2 V3 V4 V5 V6 V7 V8 V9 V10] [C1 C2 C3 C4 C5 C6 C7 C8 C9 C10 C11 C12] Hno Hnf Hnc.
  destruct C6 as (n & Hnew). set (tn := ti_with_wait n (ti_with_slots (initial_slots (rules k)) new_tinfo)) in *.
  set (news := flat_map (group_reqs rules k) (ord k)) in *.
  assert (HK : forall k', kind_of s' k' = if N.eqb k' k then KWaiting else kind_of s k').
  { intros k'. destruct (N.eqb k' k) eqn:E; [apply N.eqb_eq in E; now subst|]. apply N.eqb_neq in E. unfold kind_of. now rewrite (C1 k' E). }
  assert (HV : forall k', res_value (res_of s' k') = res_value (res_of s k')).
  { intros k'. destruct (N.eq_dec k' k) as [->|E]; auto. unfold res_of. now rewrite (C1 k' E). }
  assert (HB : forall k', res_builtAt (res_of s' k') = res_builtAt (res_of s k')).
  { intros k'. destruct (N.eq_dec k' k) as [->|E]; auto. unfold res_of. now rewrite (C1 k' E). }
  assert (O1 : forall x, Oreq s x -> Oreq s' x).
  { intros x [H|[(t0 & y & Hy & Hin)|H]].
    - left. rewrite C7. apply in_or_app. now left.
    - right. left. exists t0, y. split; auto. rewrite C5; auto. intros ->. congruence.
    - right. right. congruence. }
  assert (O2 : forall x, Oreq s' x -> Oreq s x \/ In x news).
  { intros x [H|[(t0 & y & Hy & Hin)|H]].
    - rewrite C7 in H. apply in_app_or in H. destruct H; [left; now left|now right].
    - destruct (N.eq_dec t0 k) as [->|E].
      + rewrite Hnew in Hy. inversion Hy. subst y. destruct Hin.
      + left. right. left. exists t0, y. rewrite <- (C5 t0 E). auto.
    - left. right. right. congruence. }
  assert (Hlen : length (ti_slots tn) = (n1 k + n2 k)%nat) by (cbn [tn ti_with_wait ti_with_slots ti_slots]; unfold initial_slots; now rewrite repeat_length).
  assert (Hnone : forall i, (i < n1 k + n2 k)%nat -> nth_error (ti_slots tn) i = Some None).
  { intros i Hi. cbn [tn ti_with_wait ti_with_slots ti_slots]. unfold initial_slots. now apply nth_error_repeat_none. }
  constructor.
  - congruence.
  - congruence.
  - intros k'. rewrite HK. destruct (N.eqb k' k); [split; discriminate|apply V3].
  - intros k'. rewrite HK, HB. destruct (N.eqb k' k) eqn:E; [|apply V4]. apply N.eqb_eq in E. subst k'. intros _. now apply V4.
  - intros k'. rewrite HK, HB, HV, C12. destruct (N.eqb k' k); [discriminate|apply V5].
  - intros x Ho. destruct (O2 x Ho) as [Hold|Hn].
    + intros t0 Ht0 Hor. destruct (V6 x Hold t0 Ht0 Hor) as (H1 & y & Hy & Hl). split; auto. exists y. split; auto. rewrite C5; auto. intros ->. congruence.
    + destruct (in_group_reqs k x Hn) as (Htk & Hwf). intros t0 Ht0 Hor. rewrite Htk in Ht0. inversion Ht0. subst t0.
      destruct (Hwf Hor) as (H1 & H2). split; auto. exists tn. split; auto. lia.
  - intros x. rewrite C8, HK. intros Hin. pose proof (V7 x Hin) as Hc. destruct (N.eqb (iq_input x) k) eqn:E; auto. apply N.eqb_eq in E. congruence.
  - intros t0 y Hy. destruct (N.eq_dec t0 k) as [->|E].
    + rewrite Hnew in Hy. inversion Hy. subst y. constructor.
      * rewrite Hlen. cbn [tn ti_with_wait ti_with_slots ti_branched new_tinfo]. lia.
      * intros i v x Hv. destruct (Nat.lt_ge_cases i (n1 k + n2 k)) as [Hi|Hi]; [rewrite (Hnone i Hi) in Hv; discriminate|].
        assert (Hn0 : nth_error (ti_slots tn) i = None) by (apply nth_error_None; lia). congruence.
      * intros i Hu Hn0. assert (Hi : (i < n1 k + n2 k)%nat) by (rewrite <- Hlen; apply nth_error_Some; congruence).
        destruct Hu as [Hu|Hu]; [|lia].
        destruct (nth_error (r_req (rules k)) i) as [x|] eqn:Ex; [|apply nth_error_None in Ex; unfold ImplVal1.n1 in Hu; lia].
        exists (mkIReq (Some k) i x false false). cbn [iq_task iq_order iq_slot]. repeat split; auto.
        left. rewrite C7. apply in_or_app. right. now apply req_witness.
      * intros _ i a b _ Hi. apply Hnone. lia.
      * cbn [tn ti_with_wait ti_with_slots ti_pending new_tinfo]. discriminate.
      * rewrite C9. intros H. contradiction.
    + rewrite (C5 t0 E) in Hy. apply (task_ok_frame rules env F rank s s' t0 y y); auto.
      * now rewrite C9.
  - destruct V9 as [H|[H|H]]; [left; rewrite C7; apply in_or_app; now left| |].
    + right. left. unfold is_in_progress in *. rewrite HK. destruct (N.eqb root k); auto.
    + right. right. rewrite HK. destruct (N.eqb root k) eqn:E; auto. apply N.eqb_eq in E. subst. contradiction.
  - now rewrite C12.
Qed.

(* Stage 2: the request at the head of inputRequests is routed (or, a dummy request, dropped) *)
Definition routed (s s' : istate) (rq : ireq) : Prop :=
  (iq_task rq = None /\ (forall t, tcore s' t = tcore s t) /\ is_fininreq s' = is_fininreq s /\
     (is_in_progress s (iq_input rq) = true \/ kind_of s (iq_input rq) = KComplete))
  \/ (iq_task rq <> None /\ kind_of s (iq_input rq) = KComplete /\ (forall t, tcore s' t = tcore s t) /\ is_fininreq s' = rq :: is_fininreq s)
  \/ (iq_task rq <> None /\ is_fininreq s' = is_fininreq s /\ (forall t, t <> iq_input rq -> tcore s' t = tcore s t) /\
      exists ti ti', task_of s (iq_input rq) = Some ti /\ task_of s' (iq_input rq) = Some ti' /\ ti_slots ti' = ti_slots ti /\
                     ti_branched ti' = ti_branched ti /\ ti_pending ti' = ti_pending ti /\ ti_reqby ti' = ti_reqby ti ++ [rq]).

Lemma VInv_routed root s s' rq rest : VInv root s -> is_inreq s = rq :: rest -> is_inreq s' = rest ->
  (forall k, kind_of s' k = kind_of s k) -> (forall k, res_value (res_of s' k) = res_value (res_of s k)) ->
  (forall k, res_builtAt (res_of s' k) = res_builtAt (res_of s k)) ->
  is_fintasks s' = is_fintasks s -> is_toscan s' = is_toscan s -> is_usedb s' = is_usedb s -> is_epoch s' = is_epoch s ->
  routed s s' rq -> VInv root s'.
Proof.
  intros [V1 V2 V3 V4 V5 V6 V7 V8 V9 V10] Hq Hq' HK HV HB Hft Hts Hu He HR.
  (* every task keeps its slots; requestedBy lists only grow; every request but a dummy stays outstanding *)
  assert (Hfw : forall t0 x, task_of s t0 = Some x -> exists y, task_of s' t0 = Some y /\ ti_slots y = ti_slots x /\ ti_branched y = ti_branched x /\
                  ti_pending y = ti_pending x /\ incl (ti_reqby x) (ti_reqby y)).
  { intros t0 x Hx. destruct HR as [(_ & Ht & _)|[(_ & _ & Ht & _)|(_ & _ & Ht & ti & ti' & Hg & Hg' & E1 & E2 & E3 & E4)]].
    - destruct (tcore_task s s' t0 x (Ht t0) Hx) as (y & Hy & Hc). apply core_fields in Hc. destruct Hc as (Q1 & Q2 & Q3 & Q4). exists y. repeat split; auto. rewrite Q4. apply incl_refl.
    - destruct (tcore_task s s' t0 x (Ht t0) Hx) as (y & Hy & Hc). apply core_fields in Hc. destruct Hc as (Q1 & Q2 & Q3 & Q4). exists y. repeat split; auto. rewrite Q4. apply incl_refl.
    - destruct (N.eq_dec t0 (iq_input rq)) as [->|E].
      + rewrite Hg in Hx. inversion Hx. subst x. exists ti'. repeat split; auto. rewrite E4. apply incl_appl, incl_refl.
      + destruct (tcore_task s s' t0 x (Ht t0 E) Hx) as (y & Hy & Hc). apply core_fields in Hc. destruct Hc as (Q1 & Q2 & Q3 & Q4). exists y. repeat split; auto. rewrite Q4. apply incl_refl. }
  assert (Hbw : forall t0 y, task_of s' t0 = Some y -> exists x, task_of s t0 = Some x /\ ti_slots y = ti_slots x /\ ti_branched y = ti_branched x /\
                  ti_pending y = ti_pending x /\ (forall r, In r (ti_reqby y) -> In r (ti_reqby x) \/ r = rq)).
  { intros t0 y Hy. destruct HR as [(_ & Ht & _)|[(_ & _ & Ht & _)|(_ & _ & Ht & ti & ti' & Hg & Hg' & E1 & E2 & E3 & E4)]].
    - destruct (tcore_some s s' t0 y (Ht t0) Hy) as (x & Hx & Hc). apply core_fields in Hc. destruct Hc as (Q1 & Q2 & Q3 & Q4). exists x. repeat split; auto. rewrite <- Q4. auto.
    - destruct (tcore_some s s' t0 y (Ht t0) Hy) as (x & Hx & Hc). apply core_fields in Hc. destruct Hc as (Q1 & Q2 & Q3 & Q4). exists x. repeat split; auto. rewrite <- Q4. auto.
    - destruct (N.eq_dec t0 (iq_input rq)) as [->|E].
      + rewrite Hg' in Hy. inversion Hy. subst y. exists ti. repeat split; auto. intros r Hr. rewrite E4 in Hr. apply in_app_or in Hr. destruct Hr as [Hr|[Hr|[]]]; auto.
      + destruct (tcore_some s s' t0 y (Ht t0 E) Hy) as (x & Hx & Hc). apply core_fields in Hc. destruct Hc as (Q1 & Q2 & Q3 & Q4). exists x. repeat split; auto. rewrite <- Q4. auto. }
  assert (Hfin : forall x, In x (is_fininreq s') -> In x (is_fininreq s) \/ (x = rq /\ kind_of s (iq_input rq) = KComplete)).
  { intros x Hx. destruct HR as [(_ & _ & Hf & _)|[(_ & Hc & _ & Hf)|(_ & Hf & _)]]; rewrite Hf in Hx; auto. destruct Hx as [Hx|Hx]; auto. }
  assert (O1 : forall x, Oreq s x -> iq_task x <> None -> Oreq s' x).
  { intros x [H|[(t0 & y & Hy & Hin)|H]] Hnd.
    - rewrite Hq in H. destruct H as [H|H]; [subst x|left; congruence].
      destruct HR as [(Hd & _)|[(_ & _ & _ & Hf)|(_ & _ & _ & ti & ti' & Hg & Hg' & _ & _ & _ & E4)]]; [contradiction| |].
      * right. right. rewrite Hf. now left.
      * right. left. exists (iq_input rq), ti'. split; auto. rewrite E4. apply in_or_app. right. now left.
    - right. left. destruct (Hfw t0 y Hy) as (z & Hz & _ & _ & _ & Hinc). exists t0, z. auto.
    - right. right. destruct HR as [(_ & _ & Hf & _)|[(_ & _ & _ & Hf)|(_ & Hf & _)]]; rewrite Hf; auto. now right. }
  assert (O2 : forall x, Oreq s' x -> Oreq s x).
  { intros x [H|[(t0 & y & Hy & Hin)|H]].
    - left. rewrite Hq. right. congruence.
    - destruct (Hbw t0 y Hy) as (z & Hz & _ & _ & _ & Hr). destruct (Hr x Hin) as [H|H]; [right; left; eauto|]. subst x. left. rewrite Hq. now left.
    - destruct (Hfin x H) as [H1|[-> _]]; [right; right; auto|left; rewrite Hq; now left]. }
  constructor.
  - congruence.
  - congruence.
  - intros k. rewrite HK. apply V3.
  - intros k. rewrite HK, HB. apply V4.
  - intros k. rewrite HK, HB, HV, He. apply V5.
  - intros x Ho. apply (rq_wf_sub rules env F rank s s'); [|apply V6, O2, Ho]. intros t0 y Hy. destruct (Hfw t0 y Hy) as (z & Hz & Es & _). exists z. split; auto. rewrite Es. lia.
  - intros x Hx. rewrite HK. destruct (Hfin x Hx) as [H|[-> H]]; auto.
  - intros t0 y Hy. destruct (Hbw t0 y Hy) as (z & Hz & E1 & E2 & E3 & _). destruct (V8 t0 z Hz) as [K1 K2 K3 K4 K5 K6].
    constructor; rewrite ?E1, ?E2, ?E3; auto.
    + intros i Hu' Hn. destruct (K3 i Hu' Hn) as (x & Hox & Hxt & Hx'). exists x. repeat split; auto; try apply Hx'. apply O1; auto. congruence.
    + rewrite Hft, HV. exact K6.
  - destruct V9 as [H|[H|H]].
    + rewrite Hq in H. destruct H as [H|H]; [|left; congruence]. subst rq. cbn [dummy_root iq_task iq_input] in HR.
      destruct HR as [(_ & _ & _ & [Hr|Hr])|[(Hnd & _)|(Hnd & _)]]; try (now contradiction Hnd).
      * right. left. now rewrite (in_progress_of_kind s s' root (HK root)).
      * right. right. now rewrite HK.
    + right. left. now rewrite (in_progress_of_kind s s' root (HK root)).
    + right. right. now rewrite HK.
  - now rewrite He.
Qed.

Lemma demand_rule_fb s k :
  (kind_of s k = KComplete -> res_builtAt (res_of s k) = is_epoch s) ->
  demand_rule rules ord s k =
  match kind_of s k with
  | KComplete => (true, s)
  | KWaiting | KComputing => (false, s)
  | KDoesNotNeedToRun => (true, set_complete s k)
  | _ => (false, create_task rules ord s k)
  end.
Proof.
  intros Hc. unfold demand_rule, is_complete, is_in_progress. destruct (kind_of s k) eqn:E; cbn [kind_eqb andb]; auto.
  now rewrite (Hc eq_refl), N.eqb_refl.
Qed.

Lemma route_request_views s t rq avail : nf (route_request s t rq avail) ->
  let s' := route_request s t rq avail in
  (forall k, kind_of s' k = kind_of s k) /\ (forall k, res_value (res_of s' k) = res_value (res_of s k)) /\
  (forall k, res_builtAt (res_of s' k) = res_builtAt (res_of s k)) /\ is_inreq s' = is_inreq s /\ is_fintasks s' = is_fintasks s /\
  is_toscan s' = is_toscan s /\ is_usedb s' = is_usedb s /\ is_epoch s' = is_epoch s /\
  (if avail then is_tasks s' = is_tasks s /\ is_fininreq s' = rq :: is_fininreq s
   else is_fininreq s' = is_fininreq s /\ (forall t0, t0 <> iq_input rq -> task_of s' t0 = task_of s t0) /\
        exists ti, task_of s (iq_input rq) = Some ti /\ task_of s' (iq_input rq) = Some (ti_add_reqby rq ti)).
Proof.
  intros Hn. cbn zeta. unfold route_request in *. cbn zeta in *. set (s1 := mod_ri s t _) in *.
  assert (R1 : forall k, kind_of s1 k = kind_of s k /\ res_value (res_of s1 k) = res_value (res_of s k) /\ res_builtAt (res_of s1 k) = res_builtAt (res_of s k)).
  { intros k. unfold s1. rewrite kind_of_mod_ri, res_of_mod_ri. destruct (N.eqb k t) eqn:E; auto. apply N.eqb_eq in E. subst k. auto. }
  destruct avail.
  - repeat split; try (intros k; apply (R1 k)); now autorewrite with iv.
  - destruct (nf_mod_ti _ _ _ Hn) as (_ & ti & Hg). rewrite (mod_ti_some _ _ _ _ Hg).
    repeat split; try (intros k; apply (R1 k)); try (now autorewrite with iv).
    + intros t0 Hne. unfold task_of. autorewrite with iv. rewrite aget_aset. apply N.eqb_neq in Hne. now rewrite Hne.
    + exists ti. split; [exact Hg|]. unfold task_of. autorewrite with iv. apply aget_aset_same.
Qed.

Lemma tcore_eq_tasks s s' : is_tasks s' = is_tasks s -> forall t, tcore s' t = tcore s t.
Proof. intros H t. unfold tcore, task_of. now rewrite H. Qed.

Definition scan_demand (s0 : istate) (inp : key) : option (bool * istate) :=
  match scan_rule rules env s0 inp with (false, _) => None | (true, s1) => Some (demand_rule rules ord s1 inp) end.

Lemma process_input_request_eq s0 rq : process_input_request rules env ord s0 rq =
  match scan_demand s0 (iq_input rq) with
  | None => pause_on_rule (snd (scan_rule rules env s0 (iq_input rq))) (iq_input rq) rq
  | Some (avail, s2) => match iq_task rq with None => s2 | Some t => route_request s2 t rq avail end
  end.
Proof.
  unfold process_input_request, scan_demand. destruct (scan_rule rules env s0 (iq_input rq)) as [[|] s1]; cbn [snd]; auto.
  all: try (destruct (demand_rule rules ord s1 (iq_input rq)) as [avail s2]; reflexivity).
Qed.

Lemma step_inreq_stage1 root s rq rest : Inv rules ctx0 s -> VInv root s -> is_inreq s = rq :: rest ->
  exists avail s2, scan_demand (upd_inreq s rest) (iq_input rq) = Some (avail, s2) /\
    (nf s2 -> VInv root (upd_inreq s2 (rq :: is_inreq s2)) /\ (avail = true -> kind_of s2 (iq_input rq) = KComplete) /\
              (is_in_progress s2 (iq_input rq) = true \/ kind_of s2 (iq_input rq) = KComplete)).
Proof.
  intros HI HV Hq. set (s0 := upd_inreq s rest). set (inp := iq_input rq).
  pose proof HV as [V1 V2 V3 V4 V5 V6 V7 V8 V9 V10]. pose proof HI as (_ & HT & _).
  destruct (scan_rule_fb s0 inp (proj1 (V3 inp)) (proj2 (V3 inp)) (V4 inp) (fun H => proj1 (V5 inp H)))
    as (s1 & Esc & S1 & S2 & S3 & S4 & S5 & S6 & S7 & S8 & S9 & S10 & S11 & S12).
  change (kind_of s0 inp) with (kind_of s inp) in S2. change (res_of s0 inp) with (res_of s inp) in S3, S4.
  assert (Hc1 : kind_of s1 inp = KComplete -> res_builtAt (res_of s1 inp) = is_epoch s1).
  { intros H. rewrite S4, S11. apply V5. rewrite S2 in H. destruct (kind_of s inp); auto; discriminate. }
  unfold scan_demand. rewrite Esc, (demand_rule_fb s1 inp Hc1).
  assert (HR : forall k, k <> inp -> rinfo_of s1 k = rinfo_of s k) by (intros k Hne; now rewrite (S1 k Hne)).
  (* nothing changes but, possibly, Incomplete -> NeedsToRun *)
  assert (Hframe : kind_of s1 inp = kind_of s inp -> VInv root (upd_inreq s1 (rq :: is_inreq s1))).
  { intros Hk. apply (VInv_frame rules env F rank root s); auto.
    - intros k. destruct (N.eq_dec k inp) as [->|E]; [exact Hk|]. unfold kind_of. change (rinfo_of (upd_inreq s1 _) k) with (rinfo_of s1 k). now rewrite HR.
    - intros k. destruct (N.eq_dec k inp) as [->|E]; [exact S3|]. unfold res_of. change (rinfo_of (upd_inreq s1 _) k) with (rinfo_of s1 k). now rewrite HR.
    - intros k. destruct (N.eq_dec k inp) as [->|E]; [exact S4|]. unfold res_of. change (rinfo_of (upd_inreq s1 _) k) with (rinfo_of s1 k). now rewrite HR.
    - intros t. apply tcore_eq_tasks. exact S5.
    - autorewrite with iv. rewrite S6. unfold s0. autorewrite with iv. now rewrite Hq. }
  assert (Hcreate : kind_of s1 inp = KNeedsToRun -> (kind_of s inp = KIncomplete \/ kind_of s inp = KNeedsToRun) ->
            nf (create_task rules ord s1 inp) ->
            VInv root (upd_inreq (create_task rules ord s1 inp) (rq :: is_inreq (create_task rules ord s1 inp))) /\
            (false = true -> kind_of (create_task rules ord s1 inp) inp = KComplete) /\
            (is_in_progress (create_task rules ord s1 inp) inp = true \/ kind_of (create_task rules ord s1 inp) inp = KComplete)).
  { intros Hk1 Hk Hn2.
    assert (Hb1 : res_builtAt (res_of s1 inp) = 0) by (rewrite S4; apply V4; destruct Hk as [-> | ->]; discriminate).
    pose proof (create_task_fb s1 inp Hk1 Hb1 Hn2) as [C1 C2 C3 C4 C5 C6 C7 C8 C9 C10 C11 C12].
    set (s2 := create_task rules ord s1 inp) in *.
    assert (Hnip : is_in_progress s inp = false) by (unfold is_in_progress; destruct Hk as [-> | ->]; reflexivity).
    assert (Hno : task_of s inp = None).
    { unfold task_of. destruct (aget (is_tasks s) inp) eqn:E; auto. assert (H : aget (is_tasks s) inp <> None) by congruence. apply (t_tk ctx0 s HT) in H. congruence. }
    assert (Hnf : ~ In inp (is_fintasks s)).
    { intros H. destruct (t_ft ctx0 s HT inp H) as (_ & _ & Hkc & _). destruct Hk; congruence. }
    split; [|split; [discriminate|left; unfold is_in_progress; now rewrite C2]].
    apply (VInv_created root s _ inp HV); auto; [|destruct Hk as [-> | ->]; discriminate].
    constructor; auto.
    - intros k' Hne. change (rinfo_of (upd_inreq s2 _) k') with (rinfo_of s2 k'). rewrite (C1 k' Hne). now apply HR.
    - change (res_of (upd_inreq s2 _) inp) with (res_of s2 inp). congruence.
    - change (res_of (upd_inreq s2 _) inp) with (res_of s2 inp). congruence.
    - intros t0 Hne. change (task_of (upd_inreq s2 _) t0) with (task_of s2 t0). rewrite (C5 t0 Hne). unfold task_of. now rewrite S5.
    - autorewrite with iv. rewrite C7, S6. unfold s0. autorewrite with iv. now rewrite Hq.
    - autorewrite with iv. now rewrite C8, S7.
    - autorewrite with iv. now rewrite C9, S8.
    - autorewrite with iv. now rewrite C10, S9.
    - autorewrite with iv. now rewrite C11, S10.
    - autorewrite with iv. now rewrite C12, S11. }
  destruct (kind_of s inp) eqn:Ek; rewrite S2.
  - (* Incomplete *) eexists _, _. split; [reflexivity|]. intros Hn2. apply Hcreate; auto.
  - exfalso. now apply (proj1 (V3 inp)).
  - (* NeedsToRun *) eexists _, _. split; [reflexivity|]. intros Hn2. apply Hcreate; auto.
  - exfalso. now apply (proj2 (V3 inp)).
  - (* Waiting *) eexists _, _. split; [reflexivity|]. intros _. split; [now apply Hframe|]. split; [discriminate|]. left. unfold is_in_progress. now rewrite S2.
  - (* Computing *) eexists _, _. split; [reflexivity|]. intros _. split; [now apply Hframe|]. split; [discriminate|]. left. unfold is_in_progress. now rewrite S2.
  - (* Complete *) eexists _, _. split; [reflexivity|]. intros _. split; [now apply Hframe|]. split; [intros _; exact S2|]. right. exact S2.
Qed.

Lemma VInv_step_inreq root s : Inv rules ctx0 s -> VInv root s -> nf (step_inreq rules env ord s) -> VInv root (step_inreq rules env ord s).
Proof.
  intros HI HV Hn. unfold step_inreq in *. destruct (is_inreq s) as [|rq rest] eqn:Hq; auto.
  rewrite process_input_request_eq in *.
  destruct (step_inreq_stage1 root s rq rest HI HV Hq) as (avail & s2 & Esd & Hs2). rewrite Esd in *.
  set (inp := iq_input rq) in *. set (s2u := upd_inreq s2 (rq :: is_inreq s2)).
  destruct (iq_task rq) as [t|] eqn:Et.
  - (* a request of task t *)
    assert (Hn2 : nf s2) by (eapply sticky_route_request; eauto).
    destruct (Hs2 Hn2) as (HV2 & Hav & Hip).
    destruct (route_request_views s2 t rq avail Hn) as (R1 & R2 & R3 & R4 & R5 & R6 & R7 & R8 & R9).
    apply (VInv_routed root s2u _ rq (is_inreq s2)); auto.
    destruct avail.
    + right. left. destruct R9 as [Rt Rf]. split; [rewrite Et; discriminate|]. split; [now apply Hav|]. split; [|exact Rf].
      intros t0. apply tcore_eq_tasks. exact Rt.
    + right. right. destruct R9 as (Rf & Ro & ti & Hg & Hg'). split; [rewrite Et; discriminate|]. split; [exact Rf|]. split.
      * intros t0 Hne. unfold tcore. now rewrite (Ro t0 Hne).
      * exists ti, (ti_add_reqby rq ti). repeat split; auto.
  - (* a dummy request *)
    destruct (Hs2 Hn) as (HV2 & Hav & Hip).
    apply (VInv_routed root s2u s2 rq (is_inreq s2)); auto.
    left. repeat split; auto.
Qed.
End Val.
