(* P19b stage 3, part 10: the hypotheses of build_values_clean / history_values_clean are satisfiable, and the conclusion is what the
   computation shows: a six-rule set with a branch, a must-follow input, a single-use input and discovered dependencies, five builds with changes of the environment in between. *)
From LLB Require Import Engine.Rules Engine.Spec Engine.SpecInv1 Engine.SpecC01 Engine.Exec Engine.Impl Engine.ImplProofs Engine.ImplProofsExamples
  Engine.ImplVal7 Engine.ImplInc1 Engine.ImplInc9.
From Coq Require Import Arith Lia.
Local Open Scope N_scope.

Lemma rules_of_all (P : rule -> Prop) m : P default_rule -> Forall (fun e => P (snd e)) m -> forall k, P (rules_of m k).
Proof.
  intros Hd Hm k. unfold rules_of. induction m as [|[k' r] m IH]; cbn [alookup]; auto.
  inversion Hm as [|x l Hx Hl]. subst. destruct (N.eqb k k'); auto.
Qed.

(* the six-rule set of ImplProofsExamples.v: inputs 0 1; 2 = f(0,1); 3 = f(2), must follow 1, branches on 2 to 0 or 1, discovers 0;
   4 = f(3,2) with the single-use input 1; 5 = f(4), discovers 0.  Rule 4 issues its single-use request first (ord6). *)
Definition T7 : list (key * rule) := T6.
Definition R7 : key -> rule := R6.

Example R7_ranked : wf_rank R7 rank6. Proof. exact R6_ranked. Qed.
Example R7_wfdisc : wf_disc R7. Proof. unfold R7. rewrite R6_table. apply wf_disc_b_sound. vm_compute. reflexivity. Qed.
Example ord6_ok' : forall k, In RReq (ord6 k). Proof. exact ord6_ok. Qed.

Definition E7a : key -> N := env_of [(0, 1); (1, 2)].
Definition E7b : key -> N := env_of [(0, 3); (1, 2)].
Definition E7c : key -> N := env_of [(0, 3); (1, 4)].
(* build 5; build it again (nothing runs); input 0 changes; input 1 changes and key 4 is requested; everything changes back *)
Definition H7 : list bspec :=
  [mkBspec E7a 5 [] 200 200; mkBspec E7a 5 [] 200 200; mkBspec E7b 5 [] 200 200; mkBspec E7c 4 [] 200 200; mkBspec E7a 5 [] 200 200].
Definition res7 := run_builds R7 mixF ord6 all_sync init_istate H7.
Definition end7 : istate := match res7 with Some (s, _) => s | None => init_istate end.
Definition vals7 : list (option value) := match res7 with Some (_, v) => v | None => [] end.

Lemma run7_eq : run_builds R7 mixF ord6 all_sync init_istate H7 = Some (end7, vals7).
Proof. vm_compute. reflexivity. Qed.
Lemma H7_ranks : forall b, In b H7 -> (rank6 (bs_root b) < 5)%nat.
Proof. intros b Hb. unfold H7 in Hb. cbn [In] in Hb. repeat (destruct Hb as [Hb|Hb]; [subst b; cbn [bs_root]; vm_compute; lia|]). destruct Hb. Qed.

(* the theorem applies ... *)
(* the table of rules by key and signature: the rule table is not edited in this history *)
Definition RT7 : key -> N -> rule := fixedR R7.
Example history7_clean : vals7 = map (fun b => cv R7 (bs_env b) mixF 5 (bs_root b)) H7 /\ HInv mixF RT7 end7.
Proof.
  pose proof (history_values_clean R7 mixF rank6 RT7 ord6 all_sync R7_ranked R7_wfdisc (fixedR_ok R7) ord6_ok 5 H7 init_istate end7 vals7 (HInv_init mixF RT7)) as H.
  specialize (H run7_eq). specialize (H H7_ranks). exact H.
Qed.

(* ... and its conclusion is what the computation shows; the second build ran no task (every rule it looked at was found not to need
   to run), the third one ran some *)
Definition creates (l : list event) : nat := length (filter (fun e => match e with ECreate _ => true | _ => false end) l).
Example history7_computed :
  vals7 = map (fun b => cv R7 (bs_env b) mixF 5 (bs_root b)) H7 /\
  (let s1 := final_state (fst (ibuild R7 E7a mixF ord6 all_sync 200 200 init_istate 5 [])) in
   let s2 := final_state (fst (ibuild R7 E7a mixF ord6 all_sync 200 200 s1 5 [])) in
   let s3 := final_state (fst (ibuild R7 E7b mixF ord6 all_sync 200 200 s2 5 [])) in
   creates (is_log s1) = 6%nat /\ creates (is_log s2) = 6%nat /\ (creates (is_log s2) < creates (is_log s3))%nat).
Proof. vm_compute. repeat split; try reflexivity. all: lia. Qed.

(* ---------- a history with rule edits: rule 4 is replaced by a rule with another signature and fewer inputs, later restored ---------- *)
Definition T7b : list (key * rule) :=
  [(0, mkRule 0 true [] [] [] None []); (1, mkRule 0 true [] [] [] None []);
   (2, mkRule 1 false [0; 1] [] [] None []);
   (3, mkRule 1 false [2] [] [1] (Some (0%nat, [0], [1])) [0]);
   (4, mkRule 9 false [3] [] [] None []);
   (5, mkRule 3 false [4] [] [] None [0])].
Definition R7b : key -> rule := rules_of T7b.
Definition R78 : key -> N -> rule := fun k sg => if N.eqb sg (r_sig (R7b k)) then R7b k else R7 k.
Example R7b_ranked : wf_rank R7b rank6. Proof. apply (wf_rank_b_sound T7b rank6). vm_compute. reflexivity. Qed.
Example R7b_wfdisc : wf_disc R7b. Proof. apply wf_disc_b_sound. vm_compute. reflexivity. Qed.
Example R78_ok_b : table_ok R7b R78. Proof. intros k. unfold R78. now rewrite N.eqb_refl. Qed.
Example R78_ok : table_ok R7 R78.
Proof.
  intros k. unfold R78. destruct (N.eqb (r_sig (R7 k)) (r_sig (R7b k))) eqn:E; auto.
  unfold R7, R7b, R6, T7b, rules_of in *. cbn [alookup] in *.
  repeat (match goal with |- context [N.eqb k ?c] => destruct (N.eqb k c) eqn:? end; try reflexivity); discriminate.
Qed.
Definition H78 : list rbspec :=
  [mkRb R7 rank6 (mkBspec E7a 5 [] 200 200); mkRb R7b rank6 (mkBspec E7a 5 [] 200 200); mkRb R7b rank6 (mkBspec E7b 5 [] 200 200);
   mkRb R7 rank6 (mkBspec E7b 5 [] 200 200)].
Definition res78 := run_rbuilds mixF ord6 all_sync init_istate H78.
Definition end78 : istate := match res78 with Some (s, _) => s | None => init_istate end.
Definition vals78 : list (option value) := match res78 with Some (_, v) => v | None => [] end.
Lemma run78_eq : run_rbuilds mixF ord6 all_sync init_istate H78 = Some (end78, vals78).
Proof. vm_compute. reflexivity. Qed.
Lemma H78_ok : forall rb, In rb H78 -> rb_ok R78 5 rb.
Proof.
  intros rb Hb. unfold H78 in Hb. cbn [In] in Hb.
  destruct Hb as [Hb|[Hb|[Hb|[Hb|[]]]]]; subst rb; unfold rb_ok; cbn [rb_rules rb_rank rb_build bs_root];
    (split; [first [exact R7_ranked|exact R7b_ranked]|split; [first [exact R7_wfdisc|exact R7b_wfdisc]|split; [first [exact R78_ok|exact R78_ok_b]|vm_compute; lia]]]).
Qed.
Example history78_clean : vals78 = map (fun rb => cv (rb_rules rb) (bs_env (rb_build rb)) mixF 5 (bs_root (rb_build rb))) H78 /\ HInv mixF R78 end78.
Proof.
  pose proof (rhistory_values_clean mixF R78 ord6 all_sync ord6_ok 5 H78 init_istate end78 vals78 H78_ok (HInv_init mixF R78)) as H.
  specialize (H run78_eq). exact H.
Qed.
(* the edit changes the value of key 5; restoring the rule restores it *)
Example history78_computed :
  vals78 = map (fun rb => cv (rb_rules rb) (bs_env (rb_build rb)) mixF 5 (bs_root (rb_build rb))) H78 /\
  nth 0 vals78 None <> nth 1 vals78 None /\ ~ In None vals78.
Proof. vm_compute. repeat split; try reflexivity; try discriminate. intros H. repeat (destruct H as [H|H]; [discriminate|]). destruct H. Qed.
