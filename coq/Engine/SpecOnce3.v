(* C02, part 3: what one call does to each rule's stored result.  A rule's result is either left alone,
   validated (only builtAt moves, single-use dependencies dropped), or replaced by the result of its one
   execution; the last happens exactly for the created rules. *)
From LLB Require Import Engine.Rules Engine.Spec Engine.SpecOnceFrame Engine.SpecOnce1.
From Coq Require Import List NArith Bool Lia Arith.
Local Open Scope N_scope.

Definition clean (r : result) : result :=
  mkRes (res_value r) (res_sig r) (res_computedAt r) (res_builtAt r) (drop_single (res_deps r)).
Definition validated (e : N) (r : result) : result :=
  mkRes (res_value r) (res_sig r) (res_computedAt r) e (drop_single (res_deps r)).
Definition changed_b (r : result) (v : value) : bool :=
  match res_value r with Some old => negb (value_eqb old v) | None => true end.

Lemma drop_single_idem : forall l, drop_single (drop_single l) = drop_single l.
Proof.
  induction l as [|d t IH]; [reflexivity|]. unfold drop_single in *. cbn [filter].
  destruct (negb (d_single d)) eqn:E; cbn [filter]; [rewrite E, IH; reflexivity | exact IH].
Qed.

Lemma clean_idem : forall r, clean (clean r) = clean r.
Proof. intros. unfold clean. cbn. now rewrite drop_single_idem. Qed.
Lemma validated_clean : forall e r, validated e (clean r) = validated e r.
Proof. intros. unfold validated, clean. cbn. now rewrite drop_single_idem. Qed.

Section Trans.
Variable rules : key -> rule.
Variable env : key -> N.
Variable order : N -> key -> list dep -> list dep.

(* the result left by the one execution of x in epoch e, r being the result before *)
Definition ran (x : key) (e : N) (r r' : result) : Prop :=
  exists v bk, snd v = obs rules env x /\
    r' = mkRes (Some v) (r_sig (rules x)) (if changed_b r v then e else res_computedAt r) e
               (order e x (requested_deps (rules x) bk) ++ map (fun y => mkDep y false false) (r_disc (rules x))).

Definition key_trans (ok : bool) (x : key) (e : N) (r r' : result) (cr : Prop) : Prop :=
  (~ cr /\ (r' = r \/ r' = validated e r \/ (ok = false /\ r' = clean r)))
  \/ (cr /\ (ran x e r r' \/ (ok = false /\ r' = clean r))).

Definition trans_l (ok : bool) (s s' : state) (l : list event) : Prop :=
  forall x, key_trans ok x (st_epoch s) (get (st_mem s) x) (get (st_mem s') x) (In x (creates l)).

Lemma ran_clean : forall x e r r', ran x e (clean r) r' <-> ran x e r r'.
Proof. intros. unfold ran, changed_b, clean. cbn. tauto. Qed.

Lemma ran_built : forall x e r r', ran x e r r' -> res_builtAt r' = e.
Proof. intros x e r r' (v & bk & _ & ->). reflexivity. Qed.

Lemma key_trans_weaken : forall x e r r' cr, key_trans true x e r r' cr -> key_trans false x e r r' cr.
Proof.
  intros x e r r' cr [[A [B|[B|[B _]]]]|[A [B|[B _]]]]; try discriminate; unfold key_trans; tauto.
Qed.

Lemma trans_compose : forall st s s1 s2 ok l1 l2,
  frame_st st s s1 true l1 -> trans_l true s s1 l1 -> frame_st st s1 s2 ok l2 -> trans_l ok s1 s2 l2 ->
  trans_l ok s s2 (l2 ++ l1).
Proof.
  intros st s s1 s2 ok l1 l2 A TA B TB x. specialize (TA x). specialize (TB x).
  rewrite (fr_epoch _ _ _ _ _ A) in TB. unfold key_trans in *. rewrite creates_app, in_app_iff.
  assert (Hdone : done s1 x -> get (st_mem s2) x = get (st_mem s1) x /\ ~ In x (creates l2)).
  { intros D. split; [exact (fr_frozen _ _ _ _ _ B x D)|]. intros C. destruct (fr_fresh _ _ _ _ _ B x C) as [P _]. now apply P. }
  destruct TA as [[N1 [E1|[E1|[E1 _]]]]|[C1 [R1|[E1 _]]]]; try discriminate.
  - rewrite E1 in TB. destruct TB as [[N2 T]|[C2 T]]; [left | right]; (split; [tauto | exact T]).
  - assert (D : done s1 x) by (unfold done; rewrite E1, (fr_epoch _ _ _ _ _ A); reflexivity).
    destruct (Hdone D) as [G N2]. left. split; [tauto|]. right; left. now rewrite G.
  - assert (D : done s1 x) by (unfold done; rewrite (ran_built _ _ _ _ R1), (fr_epoch _ _ _ _ _ A); reflexivity).
    destruct (Hdone D) as [G N2]. right. split; [tauto|]. left. now rewrite G.
Qed.

Definition trans_o (s : state) (o : outcome) : Prop :=
  match o with
  | Ok s' => trans_l true s s' (new_log s s')
  | Cycle s' _ => trans_l false s s' (new_log s s')
  | OutOfFuel => True
  end.

Lemma trans_refl : forall ok s, trans_l ok s s [].
Proof. intros ok s x. left. split; [intros [] | now left]. Qed.

Lemma trans_same_mem : forall ok s s' l, st_mem s' = st_mem s -> creates l = [] -> trans_l ok s s' l.
Proof. intros ok s s' l M C x. rewrite M, C. left. split; [intros [] | now left]. Qed.

Section Step.
Variable F : key -> N -> list value -> list N -> N -> N.
Variable ens : list key -> state -> key -> outcome.
Hypothesis Hens : forall stack s k, frame stack s k (ens stack s k).
Hypothesis Htrans : forall stack s k, trans_o s (ens stack s k).

Lemma trans_o_trans : forall st s s1 l1 o, frame_st st s s1 true l1 -> trans_l true s s1 l1 ->
  frame_o st s1 o -> trans_o s1 o -> trans_o s o.
Proof.
  intros st s s1 l1 o A TA B TB. destruct o as [s2|s2 p|]; cbn [frame_o trans_o] in *; [| |exact I].
  - rewrite (new_log_trans s s1 s2 _ _ (fr_log _ _ _ _ _ A) (fr_log _ _ _ _ _ B)). eapply trans_compose; eassumption.
  - rewrite (new_log_trans s s1 s2 _ _ (fr_log _ _ _ _ _ A) (fr_log _ _ _ _ _ B)). eapply trans_compose; eassumption.
Qed.

Lemma seg_trans : forall st ks s o, seg ens st ks s o -> trans_o s o.
Proof.
  intros st ks s o H. induction H as [s|ks s e o Hp H IH|ks s x s1 o Hc H IH|ks s x o Hc Hn].
  - cbn [trans_o]. rewrite new_log_refl. apply trans_refl.
  - destruct (seg_frame ens Hens _ _ _ _ H) as [A _].
    assert (He : creates [e] = []) by (destruct e; try reflexivity; destruct Hp).
    eapply trans_o_trans; [apply (frame_emit st s e true He) | now apply trans_same_mem | exact A | exact IH].
  - destruct (seg_frame ens Hens _ _ _ _ H) as [A _]. destruct (Hens st s x) as [B _].
    pose proof (Htrans st s x) as TB. rewrite Hc in B, TB. cbn [frame_o trans_o] in B, TB.
    eapply trans_o_trans; eassumption.
  - rewrite <- Hc. apply Htrans.
Qed.

Lemma complete_mem_k : forall s k rl r bk v,
  get (st_mem (complete order s k rl r bk v)) k =
  mkRes (Some v) (r_sig rl) (if changed_b r v then st_epoch s else res_computedAt r) (st_epoch s)
        (order (st_epoch s) k (requested_deps rl bk) ++ map (fun x => mkDep x false false) (r_disc rl)).
Proof. intros. unfold complete. cbn [set_db set_mem st_mem unflag emit st_epoch]. now rewrite get_update_same. Qed.

Lemma task_value_snd : forall k rl a b, snd (task_value rules env F k rl a b) = obs rules env k.
Proof. reflexivity. Qed.

Lemma run_trans : forall k stack r s, ~ done s k -> ~ In k stack -> get (st_mem s) k = r -> clean r = r ->
  trans_o s (run rules env F order ens k stack r s).
Proof.
  intros k stack r s Hnd Hns Hr Hclean.
  destruct (run_cases rules env F order ens k stack r s _ eq_refl)
    as [(s4 & slots1 & slots3 & GA & GB) | (Hno & ks & GA)];
    set (o := run rules env F order ens k stack r s) in *; clearbody o.
  - destruct (seg_frame ens Hens _ _ _ _ GA) as [A _]. destruct (seg_frame ens Hens _ _ _ _ GB) as [B _].
    pose proof (seg_trans _ _ _ _ GA) as TA. pose proof (seg_trans _ _ _ _ GB) as TB.
    cbn [frame_o trans_o] in A, TA.
    set (bk := branch_keys (rules k) slots1) in *. set (v := task_value rules env F k (rules k) slots1 slots3) in *.
    set (s6 := complete order (emit s4 (EAvail k)) k (rules k) r bk v) in *.
    set (s0 := run_pre rules k r s) in *.
    destruct (run_frame_main rules env F order k stack r s s4 _ bk v Hnd Hns A s6 true [] (frame_refl _ _ _)) as [M _].
    cbn [app] in M.
    eapply trans_o_trans; [exact M | | eapply frame_o_weaken_stack; exact B | exact TB].
    intros x. cbn [creates]. rewrite creates_app, run_pre_creates.
    assert (Hep : st_epoch s4 = st_epoch s) by (rewrite (fr_epoch _ _ _ _ _ A); apply run_pre_epoch).
    destruct (N.eq_dec x k) as [->|Hx].
    + right. split; [apply in_app_iff; right; now left|]. left.
      unfold s6. rewrite complete_mem_k, Hr. cbn [emit st_epoch]. rewrite Hep.
      exists v, bk. split; [reflexivity | reflexivity].
    + unfold s6. rewrite complete_mem_other by exact Hx. cbn [emit st_mem].
      specialize (TA x). unfold s0 in TA at 1 2. rewrite run_pre_epoch, run_pre_mem in TA.
      assert (Q : In x (creates (new_log s0 s4) ++ [k]) <-> In x (creates (new_log s0 s4))).
      { rewrite in_app_iff. cbn [In]. split; [intros [Q|[Q|[]]]; [exact Q | now subst] | tauto]. }
      unfold key_trans in *. rewrite Q. exact TA.
  - destruct (seg_frame ens Hens _ _ _ _ GA) as [A _]. pose proof (seg_trans _ _ _ _ GA) as TA.
    destruct o as [s'|s' p|]; [exfalso; now apply (Hno s') | | exact I].
    cbn [frame_o trans_o] in *.
    rewrite (new_log_trans s (run_pre rules k r s) s' _ _ (run_pre_log_eq rules k r s) (fr_log _ _ _ _ _ A)).
    intros x. rewrite creates_app, run_pre_creates. specialize (TA x). rewrite run_pre_epoch, run_pre_mem in TA.
    destruct (N.eq_dec x k) as [->|Hx].
    + right. split; [apply in_app_iff; right; now left|]. right. split; [reflexivity|].
      rewrite (fr_stack _ _ _ _ _ A k) by now left. rewrite run_pre_mem, Hr. now rewrite Hclean.
    + assert (Q : In x (creates (new_log (run_pre rules k r s) s') ++ [k]) <-> In x (creates (new_log (run_pre rules k r s) s'))).
      { rewrite in_app_iff. cbn [In]. split; [intros [Q|[Q|[]]]; [exact Q | now subst] | tauto]. }
      unfold key_trans in *. rewrite Q. exact TA.
Qed.

Lemma scan_trans : forall k stack r ds sA s lacc, ~ done sA k -> ~ In k stack ->
  get (st_mem sA) k = r -> clean r = r ->
  frame_st (k :: stack) sA s true lacc -> trans_l true sA s lacc ->
  trans_o sA (scan rules env F order ens k stack r ds s).
Proof.
  intros k stack r ds. induction ds as [|d ds IH]; intros sA s lacc HndA Hns Hr Hclean A TA; cbn [scan].
  - cbn [trans_o]. set (r' := mkRes _ _ _ _ _). 
    rewrite (new_log_intro sA (set_mem s k r') lacc) by (cbn [set_mem st_log]; exact (fr_log _ _ _ _ _ A)).
    intros x. specialize (TA x). destruct (N.eq_dec x k) as [->|Hx].
    + cbn [set_mem st_mem]. rewrite get_update_same. left. split.
      * intros C. destruct (fr_fresh _ _ _ _ _ A k C) as [_ Q]. apply Q. now left.
      * right; left. rewrite Hr. unfold r', validated. rewrite (fr_epoch _ _ _ _ _ A).
        f_equal. symmetry. exact (f_equal res_deps Hclean).
    + cbn [set_mem st_mem]. rewrite get_update_other by exact Hx. exact TA.
  - destruct (Hens (k :: stack) s (d_key d)) as [B _]. pose proof (Htrans (k :: stack) s (d_key d)) as TB.
    destruct (ens (k :: stack) s (d_key d)) as [s1|s1 p|] eqn:Ec.
    + cbn [frame_o trans_o] in B, TB.
      pose proof (frame_trans _ _ _ _ _ _ _ A B) as AB.
      pose proof (trans_compose _ _ _ _ _ _ _ A TA B TB) as TAB.
      destruct (negb (d_order d) && (res_builtAt r <? res_computedAt (get (st_mem s1) (d_key d)))).
      * set (s2 := emit s1 (ENeed k InputRebuilt (Some (d_key d)))).
        assert (Hnd2 : ~ done s2 k).
        { unfold done, s2. cbn [emit st_mem st_epoch]. rewrite (fr_stack _ _ _ _ _ AB k) by now left.
          now rewrite (fr_epoch _ _ _ _ _ AB). }
        assert (Hr2 : get (st_mem s2) k = r).
        { unfold s2. cbn [emit st_mem]. rewrite (fr_stack _ _ _ _ _ AB k) by now left. exact Hr. }
        destruct (run_frame rules env F order ens Hens k stack r s2 Hnd2 Hns) as [C _].
        pose proof (run_trans k stack r s2 Hnd2 Hns Hr2 Hclean) as TC.
        eapply trans_o_trans; [eapply frame_weaken_stack; exact AB | exact TAB | |].
        -- eapply frame_o_trans; [|exact C]. now apply frame_emit.
        -- eapply trans_o_trans; [apply (frame_emit stack s1 (ENeed k InputRebuilt (Some (d_key d))) true eq_refl)
                                 | now apply trans_same_mem | exact C | exact TC].
      * eapply IH; eassumption.
    + cbn [frame_o trans_o] in *.
      rewrite (new_log_trans sA s s1 _ _ (fr_log _ _ _ _ _ A) (fr_log _ _ _ _ _ B)). eapply trans_compose; eassumption.
    + exact I.
Qed.

Lemma key_trans_of_clean : forall ok x e r0 r' cr,
  key_trans ok x e (clean r0) r' cr -> (ok = true -> res_builtAt r' = e) -> res_builtAt r0 <> e ->
  key_trans ok x e r0 r' cr.
Proof.
  intros ok x e r0 r' cr H Hok Hne. unfold key_trans in *.
  rewrite validated_clean, clean_idem, ran_clean in H.
  destruct H as [[N1 [E1|[E1|[E1 E2]]]]|[C1 T]].
  - left. split; [exact N1|]. destruct ok.
    + exfalso. apply Hne. rewrite <- (Hok eq_refl), E1. reflexivity.
    + right; right. now split.
  - left. split; [exact N1|]. right; left. exact E1.
  - left. split; [exact N1|]. right; right. now split.
  - right. split; [exact C1 | exact T].
Qed.

Lemma ensure_body_trans : forall stack s k, trans_o s (ensure_body rules env F order ens stack s k).
Proof.
  intros stack s k. unfold ensure_body.
  destruct (existsb (N.eqb k) stack) eqn:Est.
  { cbn [trans_o]. rewrite new_log_refl. apply trans_refl. }
  assert (Hns : ~ In k stack).
  { intros C. assert (existsb (N.eqb k) stack = true); [|congruence].
    apply existsb_exists. exists k. split; [exact C | apply N.eqb_refl]. }
  destruct (N.eqb (res_builtAt (get (st_mem s) k)) (st_epoch s)) eqn:Ed.
  { cbn [trans_o]. rewrite new_log_refl. apply trans_refl. }
  assert (Hnd : ~ done s k) by (now apply N.eqb_neq in Ed).
  set (r0 := get (st_mem s) k) in *.
  fold (clean r0). set (r := clean r0). set (s1 := set_mem s k r).
  assert (Hnd1 : ~ done s1 k) by (unfold done, s1; cbn [set_mem st_mem st_epoch]; now rewrite get_update_same).
  assert (Hother : forall x, x <> k -> get (st_mem s1) x = get (st_mem s) x)
    by (intros x Hx; unfold s1; cbn [set_mem st_mem]; now apply get_update_other).
  assert (Hk1 : get (st_mem s1) k = r) by (unfold s1; cbn [set_mem st_mem]; now rewrite get_update_same).
  assert (Hcl : clean r = r) by apply clean_idem.
  assert (G : forall Q s2 o, st_log s2 = Q ++ st_log s -> creates Q = [] -> st_mem s2 = st_mem s1 ->
            st_epoch s2 = st_epoch s -> frame stack s2 k o -> trans_o s2 o -> trans_o s o).
  { intros Q s2 o L2 CQ M2 E2 [C1 C2] T.
    assert (W : forall ok s', frame_st stack s2 s' ok (new_log s2 s') -> (ok = true -> done s' k) ->
              trans_l ok s2 s' (new_log s2 s') -> trans_l ok s s' (new_log s s')).
    { intros ok s' C Dk T' x. rewrite (new_log_trans s s2 s' Q _ L2 (fr_log _ _ _ _ _ C)).
      specialize (T' x). rewrite M2, E2 in T'. unfold key_trans in *.
      rewrite creates_app, CQ, app_nil_r.
      destruct (N.eq_dec x k) as [->|Hx].
      - rewrite Hk1 in T'. fold r0. apply key_trans_of_clean; [exact T' | |exact Hnd].
        intros Hok. specialize (Dk Hok). unfold done in Dk. rewrite Dk, (fr_epoch _ _ _ _ _ C). exact E2.
      - rewrite Hother in T' by exact Hx. exact T'. }
    destruct o as [s'|s' p|]; cbn [frame_o trans_o] in *; [| |exact I].
    - eapply W; [exact C1 | intros _; now apply C2 | exact T].
    - eapply W; [exact C1 | intros; discriminate | exact T]. }
  fold r0. 
  assert (RUN : forall Q s2, st_log s2 = Q ++ st_log s -> creates Q = [] -> st_mem s2 = st_mem s1 ->
            st_epoch s2 = st_epoch s -> trans_o s (run rules env F order ens k stack r s2)).
  { intros Q s2 L2 CQ M2 E2.
    assert (Hnd2 : ~ done s2 k) by (unfold done; rewrite M2, E2; exact Hnd1).
    eapply G; try eassumption.
    - now apply run_frame.
    - apply run_trans; try assumption. now rewrite M2. }
  change (mkRes (res_value r0) (res_sig r0) (res_computedAt r0) (res_builtAt r0) (drop_single (res_deps r0))) with r.
  fold s1.
  destruct (N.eqb (res_builtAt r) 0).
  { apply (RUN [ENeed k NeverBuilt None]); reflexivity. }
  destruct (flagged s1 k).
  { apply (RUN [ENeed k Forced None]); reflexivity. }
  destruct (negb (N.eqb (r_sig (rules k)) (res_sig r))).
  { apply (RUN [ENeed k SignatureChanged None]); reflexivity. }
  destruct (negb (valid rules env k r)).
  { apply (RUN [ENeed k InvalidValue None; EValid k false]); reflexivity. }
  eapply (G [EValid k true] (emit s1 (EValid k true))); try reflexivity.
  - apply scan_frame; assumption.
  - eapply scan_trans with (lacc := []); [exact Hnd1 | exact Hns | exact Hk1 | exact Hcl | apply frame_refl | apply trans_refl].
Qed.

End Step.

Variable F : key -> N -> list value -> list N -> N -> N.

Theorem ensure_trans : forall fuel stack s k, trans_o s (ensure rules env F order fuel stack s k).
Proof.
  induction fuel as [|f IH]; intros stack s k; cbn [ensure].
  - exact I.
  - apply ensure_body_trans; [apply ensure_frame | exact IH].
Qed.

End Trans.
